(* RaceQueueProofs.v -- the labelled runs of the loom.Queue MODEL (models/RaceQueue.v over
   models/Queue.v) have no happens-before race, for every prefill, every number of threads,
   all programs and all schedules:
     rq_race_free : ~ hb_race (rq_trace (q_init pre progs) sched)
   Method: the vector-clock monitor of lib/Race.v is run along the labelled run; an inductive
   invariant over (queue state, ghost ids, monitor state) keeps its flag false; the
   monitor/happens-before equivalence (RaceHBProofs.hbp_agree) turns that into the relational
   statement.  The invariant says:
     - ids not yet allocated were never written nor read;
     - a pusher that has not linked its node yet knows the write of its node's value
       (it made it: program order);
     - for every linked position S p, the next field of position p carries the write of the
       value of the node linked there (the link CAS released it);
     - a popper parked at D4 that saw head.next != nil knows the write of that node's value
       (its load of head.next acquired it). *)
From Got Require Import Base ListAux Race RaceProofs RaceHB RaceHBProofs RaceMonLemmas.
From Got Require Import Queue QueueProofs RaceQueue.
Local Open Scope nat_scope.

Section RQ.
Variable N : nat.   (* the monitor's thread bound *)

Definition rq_keep (g : rq_ghost) : nat -> Prop := fun x => x < rq_nalloc g.

Definition rq_linv (g : rq_ghost) (m : rc_mon) (i : nat) (pc : q_pc) : Prop :=
  match pc with
  | QP1 _ | QP2 _ _ | QP3 _ _ _ | QP4 _ _ | QP5 _ _ =>
      rq_mine g i < rq_nalloc g /\ rm_K m i (rq_mine g i)
  | QD4 h _ true => rm_K m i (rq_own g (S h))
  | _ => True
  end.

Record rq_inv (s : q_state) (g : rq_ghost) (m : rc_mon) : Prop := {
  qi_q : q_inv s;
  qi_nr : rc_raced m = false;
  qi_fresh : forall x, rq_nalloc g <= x -> rc_Wc m x = 0 /\ forall u, rc_R m x u = 0;
  qi_chain : forall p, S p < length (q_chain s) ->
               rq_own g (S p) < rq_nalloc g /\ rm_P m (rq_next p) (rq_own g (S p));
  qi_th : forall j th, nth_error (q_threads s) j = Some th -> rq_linv g m j (q_pcof th)
}.

(* a step of thread i, seen by thread j *)
Lemma rq_linv_frame (ch : list Z) hi ti g m g' m' i j pc :
  j <> i ->
  rm_ext (rq_keep g) m m' -> rq_nalloc g <= rq_nalloc g' ->
  (forall p, p < length ch -> rq_own g' p = rq_own g p) ->
  (forall k, k <> i -> rq_mine g' k = rq_mine g k) ->
  q_linv ch hi ti pc ->
  (forall p, S p < length ch -> rq_own g (S p) < rq_nalloc g) ->
  rq_linv g m j pc -> rq_linv g' m' j pc.
Proof.
  intros Hji Hext Hna Hown Hmine Lq Hch H.
  destruct pc; cbn [rq_linv q_linv] in *; try exact I.
  1-5: destruct H as [H1 H2]; rewrite (Hmine j Hji); split; [lia|];
       apply (rm_K_ext _ _ _ _ _ Hext); [exact H1|exact H2].
  destruct nx; [|exact I].
  destruct Lq as (_ & _ & _ & Hn & _). specialize (Hn eq_refl).
  rewrite (Hown _ Hn). apply (rm_K_ext _ _ _ _ _ Hext); [apply Hch; exact Hn|exact H].
Qed.

(* how the invariant is re-established after a step of thread i *)
Lemma rq_inv_intro s g m i th ch' hi' ti' pc' todo' ev g' m' :
  rq_inv s g m -> nth_error (q_threads s) i = Some th ->
  q_step_pc s (q_pcof th) (q_todo th) = (ch', hi', ti', pc', todo', ev) ->
  rm_ext (rq_keep g) m m' -> rq_nalloc g <= rq_nalloc g' ->
  (forall p, p < length (q_chain s) -> rq_own g' p = rq_own g p) ->
  (forall k, k <> i -> rq_mine g' k = rq_mine g k) ->
  rc_raced m' = false ->
  (forall x, rq_nalloc g' <= x -> rc_Wc m' x = 0 /\ forall u, rc_R m' x u = 0) ->
  (forall p, length (q_chain s) <= S p -> S p < length ch' ->
     rq_own g' (S p) < rq_nalloc g' /\ rm_P m' (rq_next p) (rq_own g' (S p))) ->
  rq_linv g' m' i pc' ->
  rq_inv {| q_chain := ch'; q_hi := hi'; q_ti := ti';
            q_threads := q_set_thread s i {| q_pcof := pc'; q_todo := todo' |} |} g' m'.
Proof.
  intros I E Hs Hext Hna Hown Hmine Hnr Hfresh Hnew Hme.
  destruct I as [Iq Inr Ifr Ich Ith].
  assert (Iq' : q_inv {| q_chain := ch'; q_hi := hi'; q_ti := ti';
            q_threads := q_set_thread s i {| q_pcof := pc'; q_todo := todo' |} |}).
  { pose proof (q_step_inv s i Iq) as [H _]. unfold q_step in H. rewrite E, Hs in H. exact H. }
  constructor; cbn [q_chain q_hi q_ti q_threads].
  - exact Iq'.
  - exact Hnr.
  - exact Hfresh.
  - intros p Hp. destruct (Nat.lt_ge_cases (S p) (length (q_chain s))) as [Hlt|Hge].
    + destruct (Ich p Hlt) as [H1 H2]. rewrite (Hown _ Hlt). split; [lia|].
      apply (rm_P_ext _ _ _ _ _ Hext); [exact H1|exact H2].
    + apply Hnew; assumption.
  - intros j thj Hj. unfold q_set_thread in Hj.
    destruct (Nat.eq_dec i j) as [<-|Hne].
    + rewrite (la_nth_error_set_same _ _ _ _ E) in Hj. inversion Hj; subst thj. exact Hme.
    + rewrite (la_nth_error_set_other' _ _ _ _ _ Hne E) in Hj.
      destruct Iq as [_ Lq]. rewrite Forall_forall in Lq.
      apply (rq_linv_frame (q_chain s) (q_hi s) (q_ti s) g m g' m' i j); auto.
      * apply Lq. eapply nth_error_In. exact Hj.
      * intros p Hp. apply Ich. exact Hp.
Qed.

(* the common case: one synchronisation event, ghost and chain unchanged *)
Lemma rq_inv_sync s g m i th hi' ti' pc' todo' ev e :
  rq_inv s g m -> nth_error (q_threads s) i = Some th ->
  q_step_pc s (q_pcof th) (q_todo th) = (q_chain s, hi', ti', pc', todo', ev) ->
  rm_sync e ->
  rq_linv g (rc_step N m i e) i pc' ->
  rq_inv {| q_chain := q_chain s; q_hi := hi'; q_ti := ti';
            q_threads := q_set_thread s i {| q_pcof := pc'; q_todo := todo' |} |} g
         (rc_step N m i e).
Proof.
  intros Inv E Hs He Hme.
  apply (rq_inv_intro s g m i th _ _ _ _ _ ev g _ Inv E Hs).
  - apply rm_ext_sync. exact He.
  - apply le_n.
  - reflexivity.
  - reflexivity.
  - rewrite rm_sync_raced by exact He. apply (qi_nr _ _ _ Inv).
  - intros x Hx. destruct (qi_fresh _ _ _ Inv x Hx) as [H1 H2]. split.
    + rewrite rm_sync_Wc by exact He. exact H1.
    + intros u. rewrite rm_sync_R by exact He. apply H2.
  - intros p H1 H2. lia.
  - exact Hme.
Qed.

(* a pusher keeps knowing its node through its own synchronisation events *)
Lemma rq_push_keep g m i e :
  rm_sync e -> rq_mine g i < rq_nalloc g /\ rm_K m i (rq_mine g i) ->
  rq_mine g i < rq_nalloc g /\ rm_K (rc_step N m i e) i (rq_mine g i).
Proof.
  intros He [H1 H2]. split; [exact H1|].
  apply (rm_K_ext (rq_keep g) m); [apply rm_ext_sync; exact He|exact H1|exact H2].
Qed.

Lemma rq_cas_sync b o : rm_sync (rq_cas b o).
Proof. destruct b; exact I. Qed.

(* no event, ghost and chain unchanged *)
Lemma rq_inv_noev s g m i th hi' ti' pc' todo' ev :
  rq_inv s g m -> nth_error (q_threads s) i = Some th ->
  q_step_pc s (q_pcof th) (q_todo th) = (q_chain s, hi', ti', pc', todo', ev) ->
  rq_linv g m i pc' ->
  rq_inv {| q_chain := q_chain s; q_hi := hi'; q_ti := ti';
            q_threads := q_set_thread s i {| q_pcof := pc'; q_todo := todo' |} |} g m.
Proof.
  intros Inv E Hs Hme.
  apply (rq_inv_intro s g m i th _ _ _ _ _ ev g m Inv E Hs).
  - apply rm_ext_refl.
  - apply le_n.
  - reflexivity.
  - reflexivity.
  - apply (qi_nr _ _ _ Inv).
  - apply (qi_fresh _ _ _ Inv).
  - intros; lia.
  - exact Hme.
Qed.

Lemma rq_step_inv s g m i :
  rq_inv s g m ->
  rq_inv (fst (q_step s i)) (snd (rq_step s g i)) (rm_msteps N m i (fst (rq_step s g i))).
Proof.
  intros Inv. unfold q_step, rq_step.
  destruct (nth_error (q_threads s) i) as [th|] eqn:E; [|exact Inv].
  pose proof (qi_th _ _ _ Inv i th E) as Ith.
  assert (Lq : q_linv (q_chain s) (q_hi s) (q_ti s) (q_pcof th)).
  { destruct (qi_q _ _ _ Inv) as [_ Lq]. rewrite Forall_forall in Lq. apply Lq.
    eapply nth_error_In. exact E. }
  destruct (qi_q _ _ _ Inv) as [(G1 & G2 & G3) _].
  destruct (q_step_pc s (q_pcof th) (q_todo th)) as [[[[[ch' hi'] ti'] pc'] todo'] ev] eqn:Hs.
  cbn [fst].
  destruct (q_pcof th) as [|v|v t|v t nx|v t|v t|t|  |h|h t|h t nx|h t|h v|] eqn:Epc;
    cbn [q_step_pc rq_step_pc] in *.
  - (* QIdle *)
    destruct (q_todo th) as [|[v|] rest] eqn:Etodo; inversion Hs; subst; clear Hs;
      cbn [fst snd rm_msteps fold_left].
    + (* nothing to do *)
      apply (rq_inv_noev s g m i th _ _ _ _ QENone Inv E); [|exact I].
      rewrite Epc, Etodo. reflexivity.
    + (* Push invoked: the node is allocated and its value written *)
      destruct (qi_fresh _ _ _ Inv (rq_nalloc g) (le_n _)) as [F1 F2].
      apply (rq_inv_intro s g m i th _ _ _ _ _ (QEInv (QPush v)) _ _ Inv E); cbn [rq_own rq_mine rq_nalloc].
      * rewrite Epc, Etodo. reflexivity.
      * apply rm_ext_write. unfold rq_keep. lia.
      * lia.
      * reflexivity.
      * intros k Hk. apply rc_upd_other. exact Hk.
      * apply rm_write_fresh_ok; [apply (qi_nr _ _ _ Inv)|exact F1|exact F2].
      * intros x Hx. destruct (qi_fresh _ _ _ Inv x ltac:(lia)) as [H1 H2]. split.
        -- rewrite rm_step_Wc. destruct (Nat.eqb_spec x (rq_nalloc g)); [lia|exact H1].
        -- intros u. rewrite rm_step_R. apply H2.
      * intros; lia.
      * cbn [rq_linv rq_mine rq_nalloc]. rewrite rc_upd_same. split; [lia|apply rm_write_K].
    + (* Pop invoked *)
      apply (rq_inv_noev s g m i th _ _ _ _ (QEInv QPop) Inv E); [|exact I].
      rewrite Epc, Etodo. reflexivity.
  - (* QP1 *)
    inversion Hs; subst; clear Hs. cbn [fst snd rm_msteps fold_left].
    apply (rq_inv_sync s g m i th _ _ _ _ QEInt _ Inv E); [rewrite Epc; reflexivity|exact I|].
    cbn [rq_linv] in *. apply rq_push_keep; [exact I|exact Ith].
  - (* QP2 *)
    inversion Hs; subst; clear Hs. cbn [fst snd rm_msteps fold_left].
    apply (rq_inv_sync s g m i th _ _ _ _ QEInt _ Inv E); [rewrite Epc; reflexivity|exact I|].
    cbn [rq_linv] in *. apply rq_push_keep; [exact I|exact Ith].
  - (* QP3 *)
    cbn [rq_linv] in Ith.
    destruct (t =? q_ti s) eqn:Ht; [destruct nx|]; inversion Hs; subst; clear Hs;
      cbn [fst snd rm_msteps fold_left];
      (apply (rq_inv_sync s g m i th _ _ _ _ QEInt _ Inv E);
       [rewrite Epc; cbn [q_step_pc]; rewrite Ht; reflexivity|exact I|]);
      cbn [rq_linv]; (apply rq_push_keep; [exact I|exact Ith]).
  - (* QP4 *)
    cbn [rq_linv q_linv] in Ith, Lq.
    destruct (q_has_next s t) eqn:Hn; inversion Hs; subst; clear Hs;
      cbn [fst snd rm_msteps fold_left].
    + (* CAS fails *)
      apply (rq_inv_sync s g m i th _ _ _ _ QEInt _ Inv E);
        [rewrite Epc; cbn [q_step_pc]; rewrite Hn; reflexivity|exact I|].
      cbn [rq_linv]. apply rq_push_keep; [exact I|exact Ith].
    + (* linked *)
      pose proof Hn as Hn'. unfold q_has_next in Hn'. apply Nat.ltb_ge in Hn'.
      assert (Hst : S t = length (q_chain s)) by lia.
      destruct Ith as [M1 M2].
      apply (rq_inv_intro s g m i th _ _ _ _ _ (QELinPush v) _ _ Inv E); cbn [rq_own rq_mine rq_nalloc].
      * rewrite Epc. cbn [q_step_pc]. rewrite Hn. reflexivity.
      * apply rm_ext_sync. exact I.
      * lia.
      * intros p Hp. apply rc_upd_other. lia.
      * reflexivity.
      * rewrite rm_sync_raced by exact I. apply (qi_nr _ _ _ Inv).
      * intros x Hx. destruct (qi_fresh _ _ _ Inv x Hx) as [H1 H2]. split.
        -- rewrite rm_sync_Wc by exact I. exact H1.
        -- intros u. rewrite rm_sync_R by exact I. apply H2.
      * intros p H1 H2. rewrite app_length in H2. cbn [length] in H2.
        assert (p = t) by lia. subst p. rewrite Hst, rc_upd_same. split; [exact M1|].
        apply rm_rel_P; [reflexivity|exact M2].
      * exact I.
  - (* QP5 *)
    inversion Hs; subst; clear Hs. cbn [fst snd rm_msteps fold_left].
    apply (rq_inv_sync s g m i th _ _ _ _ QEInt _ Inv E); [rewrite Epc; reflexivity|apply rq_cas_sync|].
    cbn [rq_linv] in *. apply rq_push_keep; [apply rq_cas_sync|exact Ith].
  - (* QP6 *)
    inversion Hs; subst; clear Hs. cbn [fst snd rm_msteps fold_left].
    apply (rq_inv_sync s g m i th _ _ _ _ QERetPush _ Inv E); [rewrite Epc; reflexivity|apply rq_cas_sync|exact I].
  - (* QD1 *)
    inversion Hs; subst; clear Hs. cbn [fst snd rm_msteps fold_left].
    apply (rq_inv_sync s g m i th _ _ _ _ QEInt _ Inv E); [rewrite Epc; reflexivity|exact I|exact I].
  - (* QD2 *)
    inversion Hs; subst; clear Hs. cbn [fst snd rm_msteps fold_left].
    apply (rq_inv_sync s g m i th _ _ _ _ QEInt _ Inv E); [rewrite Epc; reflexivity|exact I|exact I].
  - (* QD3: the load of head.next acquires what the link CAS released *)
    inversion Hs; subst; clear Hs. cbn [fst snd rm_msteps fold_left].
    apply (rq_inv_sync s g m i th _ _ _ _ (if q_has_next s h then QEInt else QECand) _ Inv E);
      [rewrite Epc; reflexivity|exact I|].
    cbn [rq_linv]. destruct (q_has_next s h) eqn:Hn; [|exact I].
    unfold q_has_next in Hn. apply Nat.ltb_lt in Hn.
    destruct (qi_chain _ _ _ Inv h Hn) as [_ HP].
    apply (rm_acq_K N m i (RAcq (rq_next h)) (rq_next h)); [reflexivity|exact HP].
  - (* QD4 *)
    cbn [rq_linv q_linv] in Ith, Lq.
    set (m1 := rc_step N m i (RAcq rq_head)).
    assert (X1 : rm_ext (rq_keep g) m m1) by (apply rm_ext_sync; exact I).
    assert (R1 : rc_raced m1 = false) by (unfold m1; rewrite rm_sync_raced by exact I; apply (qi_nr _ _ _ Inv)).
    assert (Fr1 : forall x, rq_nalloc g <= x -> rc_Wc m1 x = 0 /\ forall u, rc_R m1 x u = 0).
    { intros x Hx. destruct (qi_fresh _ _ _ Inv x Hx) as [H1 H2]. unfold m1. split.
      - rewrite rm_sync_Wc by exact I. exact H1.
      - intros u. rewrite rm_sync_R by exact I. apply H2. }
    destruct ((h =? q_hi s) && negb (h =? t) && nx) eqn:Hrd.
    + (* the plain read of next.value *)
      apply andb_prop in Hrd. destruct Hrd as [Hrd Hnx]. apply andb_prop in Hrd.
      destruct Hrd as [Hh Ht]. subst nx. rewrite Hh in Hs.
      apply negb_true_iff in Ht. rewrite Ht in Hs.
      inversion Hs; subst; clear Hs. cbn [fst snd rm_msteps fold_left app]. fold m1.
      destruct Lq as (_ & _ & _ & Hlen & _). specialize (Hlen eq_refl).
      destruct (qi_chain _ _ _ Inv h Hlen) as [Hal _].
      assert (K1 : rm_K m1 i (rq_own g (S h))).
      { apply (rm_K_ext _ _ _ _ _ X1); [exact Hal|exact Ith]. }
      apply (rq_inv_intro s g m i th _ _ _ _ _ QEInt _ _ Inv E).
      * rewrite Epc. cbn [q_step_pc]. rewrite Hh, Ht. reflexivity.
      * eapply rm_ext_trans; [exact X1|apply rm_ext_read].
      * apply le_n.
      * reflexivity.
      * reflexivity.
      * apply rm_read_ok; assumption.
      * intros x Hx. destruct (Fr1 x Hx) as [H1 H2]. split; [exact H1|].
        intros u. rewrite rm_step_R.
        destruct (Nat.eqb_spec x (rq_own g (S h))); [lia|apply H2].
      * intros; lia.
      * exact I.
    + (* no read: one acquire *)
      cbn [fst snd rm_msteps fold_left app]. fold m1.
      destruct (h =? q_hi s) eqn:Hh; [destruct (h =? t) eqn:Ht|];
        cbn [andb negb] in Hrd; try destruct nx; try discriminate Hrd;
        inversion Hs; subst; clear Hs;
        (eapply (rq_inv_sync s g m i th _ _ _ _ _ _ Inv E);
         [rewrite Epc; cbn [q_step_pc]; rewrite ?Hh, ?Ht; reflexivity|exact I|exact I]).
  - (* QD5 *)
    inversion Hs; subst; clear Hs. cbn [fst snd rm_msteps fold_left].
    apply (rq_inv_sync s g m i th _ _ _ _ QEInt _ Inv E); [rewrite Epc; reflexivity|apply rq_cas_sync|exact I].
  - (* QD6 *)
    destruct (h =? q_hi s) eqn:Hh; inversion Hs; subst; clear Hs; cbn [fst snd rm_msteps fold_left];
      (eapply (rq_inv_sync s g m i th _ _ _ _ _ _ Inv E);
       [rewrite Epc; cbn [q_step_pc]; rewrite Hh; reflexivity|apply rq_cas_sync|exact I]).
  - (* QDead *)
    inversion Hs; subst; clear Hs. cbn [fst snd rm_msteps fold_left].
    apply (rq_inv_noev s g m i th _ _ _ _ QENone Inv E); [|exact I].
    rewrite Epc. reflexivity.
Qed.

(* the monitor run on the labelled run, from (s, g, m) *)
Lemma rq_run_inv sched : forall s g m,
  rq_inv s g m ->
  rc_raced (fold_left (fun m p => rc_step N m (fst p) (snd p)) (rq_trace_from s g sched) m) = false.
Proof.
  induction sched as [|i r IH]; intros s g m Inv; cbn [rq_trace_from fold_left].
  - apply (qi_nr _ _ _ Inv).
  - rewrite rm_run_map. apply IH. apply rq_step_inv. exact Inv.
Qed.

(* ------------------------------------------------------------------ the set-up thread *)
Record rq_sinv (k : nat) (m : rc_mon) : Prop := {
  si_nr : rc_raced m = false;
  si_fresh : forall x, S k <= x -> rc_Wc m x = 0;
  si_R : forall x u, rc_R m x u = 0;
  si_chain : forall p, p < k -> rm_P m (rq_next p) (S p)
}.

Lemma rq_sinv_0 : rq_sinv 0 rc_init.
Proof. constructor; try reflexivity. intros; lia. Qed.

Lemma rq_sinv_sync k m t e : rm_sync e -> rq_sinv k m -> rq_sinv k (rc_step N m t e).
Proof.
  intros He [A1 A2 A3 A4]. constructor.
  - rewrite rm_sync_raced by exact He. exact A1.
  - intros x Hx. rewrite rm_sync_Wc by exact He. apply A2. exact Hx.
  - intros x u. rewrite rm_sync_R by exact He. apply A3.
  - intros p Hp. apply (rm_P_ext (fun _ => True) m); [apply rm_ext_sync; exact He|exact I|apply A4; exact Hp].
Qed.

Lemma rq_sinv_push n k m :
  rq_sinv k m ->
  rq_sinv (S k) (fold_left (fun m p => rc_step N m (fst p) (snd p)) (rq_setup_push n k) m).
Proof.
  intros [A1 A2 A3 A4]. unfold rq_setup_push. cbn [map fold_left fst snd].
  set (m1 := rc_step N m n (RWrite (S k))).
  set (m2 := rc_step N m1 n (RAcq rq_tail)).
  set (m3 := rc_step N m2 n (RAcq (rq_next k))).
  set (m4 := rc_step N m3 n (RAcq rq_tail)).
  set (m5 := rc_step N m4 n (RAcqRel (rq_next k))).
  assert (R1 : rc_raced m1 = false)
    by (apply rm_write_fresh_ok; [exact A1|apply A2; lia|intros u; apply A3]).
  assert (K1 : rm_K m1 n (S k)) by apply rm_write_K.
  assert (X14 : rm_ext (fun _ => True) m1 m4).
  { apply (rm_ext_trans _ m1 m2 m4); [apply rm_ext_sync; exact I|].
    apply (rm_ext_trans _ m2 m3 m4); apply rm_ext_sync; exact I. }
  assert (K4 : rm_K m4 n (S k)) by (apply (rm_K_ext _ _ _ _ _ X14); [exact I|exact K1]).
  assert (P5 : rm_P m5 (rq_next k) (S k)) by (apply rm_rel_P; [reflexivity|exact K4]).
  assert (X01 : rm_ext (fun x => x <> S k) m m1) by (apply rm_ext_write; tauto).
  assert (X : rm_ext (fun x => x <> S k) m (rc_step N m5 n (RAcqRel rq_tail))).
  { eapply rm_ext_trans; [exact X01|]. apply (rm_ext_weaken (fun _ => True)); [tauto|].
    apply (rm_ext_trans _ m1 m4); [exact X14|].
    apply (rm_ext_trans _ m4 m5); apply rm_ext_sync; exact I. }
  constructor.
  - unfold m5, m4, m3, m2. rewrite !rm_sync_raced by exact I. exact R1.
  - intros x Hx. unfold m5, m4, m3, m2. rewrite !rm_sync_Wc by exact I. unfold m1. rewrite rm_step_Wc.
    destruct (Nat.eqb_spec x (S k)); [lia|apply A2; lia].
  - intros x u. unfold m5, m4, m3, m2. rewrite !rm_sync_R by exact I. unfold m1. rewrite rm_step_R. apply A3.
  - intros p Hp. destruct (Nat.eq_dec p k) as [->|Hne].
    + apply (rm_P_ext (fun _ => True) m5); [apply rm_ext_sync; exact I|exact I|exact P5].
    + apply (rm_P_ext _ _ _ _ _ X); [lia|apply A4; lia].
Qed.

Lemma rq_sinv_setup n k :
  rq_sinv k (fold_left (fun m p => rc_step N m (fst p) (snd p)) (rq_setup n k) rc_init).
Proof.
  induction k as [|k IH]; [exact rq_sinv_0|].
  unfold rq_setup in *. rewrite seq_S, flat_map_app, fold_left_app. cbn [flat_map Nat.add].
  rewrite app_nil_r. apply rq_sinv_push. exact IH.
Qed.

Lemma rq_init_inv pre progs :
  rq_inv (q_init pre progs) (rq_ghost0 (q_init pre progs))
         (rc_run N (rq_setup (length (q_threads (q_init pre progs)))
                             (length (q_chain (q_init pre progs)) - 1))).
Proof.
  cbn [q_init q_chain q_threads q_init_chain length]. replace (S (length pre) - 1) with (length pre) by lia.
  destruct (rq_sinv_setup (length (map (fun p => {| q_pcof := QIdle; q_todo := p |}) progs))
                          (length pre)) as [A1 A2 A3 A4].
  unfold rc_run. constructor; cbn [rq_ghost0 rq_own rq_mine rq_nalloc q_chain q_threads q_init q_init_chain length].
  - apply q_init_inv.
  - exact A1.
  - intros x Hx. split; [apply A2; exact Hx|intros u; apply A3].
  - intros p Hp. split; [exact Hp|apply A4; lia].
  - intros j th Hj. rewrite nth_error_map in Hj.
    destruct (nth_error progs j); inversion Hj; subst. exact I.
Qed.

End RQ.

(* ------------------------------------------------------------------ well-formedness *)
Lemma rq_trace_from_wf sched : forall s g,
  hb_wf (S (length (q_threads s))) (rq_trace_from s g sched).
Proof.
  induction sched as [|i r IH]; intros s g; cbn [rq_trace_from]; [constructor|].
  apply rm_wf_app.
  - unfold rq_step. destruct (nth_error (q_threads s) i) as [th|] eqn:E; [|constructor].
    apply rm_wf_map. assert (i < length (q_threads s)) by (apply nth_error_Some; congruence). lia.
  - assert (Hlen : length (q_threads (fst (q_step s i))) = length (q_threads s)).
    { unfold q_step. destruct (nth_error (q_threads s) i) as [th|] eqn:E; [|reflexivity].
      destruct (q_step_pc s (q_pcof th) (q_todo th)) as [[[[[ch' hi'] ti'] pc'] todo'] ev].
      cbn [fst q_threads]. unfold q_set_thread. apply (la_set_length _ _ _ _ E). }
    rewrite <- Hlen. apply IH.
Qed.

Lemma rq_setup_wf n k : hb_wf (S n) (rq_setup n k).
Proof.
  unfold rq_setup, hb_wf. apply Forall_forall. intros p Hp. apply in_flat_map in Hp.
  destruct Hp as [q [_ Hp]]. unfold rq_setup_push in Hp. apply in_map_iff in Hp.
  destruct Hp as [e [<- _]]. cbn. lia.
Qed.

Lemma rq_trace_wf s sched : hb_wf (rq_nthreads s) (rq_trace s sched).
Proof. apply rm_wf_app; [apply rq_setup_wf|apply rq_trace_from_wf]. Qed.

(* ------------------------------------------------------------------ the theorems *)
Theorem rq_monitor_silent pre progs sched :
  rc_raced (rc_run (rq_nthreads (q_init pre progs)) (rq_trace (q_init pre progs) sched)) = false.
Proof.
  unfold rq_trace, rc_run. rewrite fold_left_app.
  apply rq_run_inv. apply rq_init_inv.
Qed.

Lemma rq_monitor_spec pre progs sched :
  rc_raced (rc_run (rq_nthreads (q_init pre progs)) (rq_trace (q_init pre progs) sched)) = false
  /\ hb_wf (rq_nthreads (q_init pre progs)) (rq_trace (q_init pre progs) sched).
Proof. split; [apply rq_monitor_silent|apply rq_trace_wf]. Qed.

Theorem rq_race_free pre progs sched : ~ hb_race (rq_trace (q_init pre progs) sched).
Proof.
  apply (hbp_agree (rq_nthreads (q_init pre progs))); [apply rq_trace_wf|apply rq_monitor_silent].
Qed.

(* every conflicting pair of a labelled run is ordered by happens-before *)
Theorem rq_conflicts_ordered pre progs sched i j :
  i < j -> j < length (rq_trace (q_init pre progs) sched) ->
  hb_conflict (rq_trace (q_init pre progs) sched) i j ->
  hb_hb (rq_trace (q_init pre progs) sched) i j.
Proof.
  apply (hbp_norace_ordered (rq_nthreads (q_init pre progs))); [apply rq_trace_wf|apply rq_monitor_silent].
Qed.

(* the variant in which the winner of Pop clears next.value races: two poppers, both have
   read next.value (D4) when the first one's head CAS succeeds and it writes the cell *)
Lemma rq_pop_clear_refuted :
  hb_race (rq_trace_clear (q_init [5%Z; 6%Z] [[QPop]; [QPop]]) [0;0;0;0;0; 1;1;1;1;1; 0]).
Proof. apply (hbp_sound 3). vm_compute. reflexivity. Qed.

(* the same schedule on the code as it is: no race *)
Lemma rq_pop_clear_schedule_ok :
  ~ hb_race (rq_trace (q_init [5%Z; 6%Z] [[QPop]; [QPop]]) [0;0;0;0;0; 1;1;1;1;1; 0]).
Proof. apply rq_race_free. Qed.

(* ------------------------------------------------------------------ labelling vs yield sites
   C01/C02 check at every step that the real goroutine is parked at the yield site the model
   predicts ([q_site_pc]: 1 = queueLoad, 2 = queueCas).  The labelling agrees with that
   classification: a step from a queueLoad site emits exactly one synchronisation event, an
   acquire, first; a step from a queueCas site emits exactly one event, the CAS; a step from
   no site (invocation) emits no synchronisation event. *)
Lemma rq_sites s g i pc todo :
  match q_site_pc pc with
  | 0 => Forall (fun e => ~ rm_sync e) (fst (rq_step_pc s g i pc todo))
  | 1 => exists o rest, fst (rq_step_pc s g i pc todo) = RAcq o :: rest
                        /\ Forall (fun e => ~ rm_sync e) rest
  | _ => exists b o, fst (rq_step_pc s g i pc todo) = [rq_cas b o]
  end.
Proof.
  destruct pc; cbn [q_site_pc rq_step_pc fst].
  - destruct todo as [|[v|] r]; cbn [fst]; repeat constructor. intros [].
  - eexists _, _. split; [reflexivity|constructor].
  - eexists _, _. split; [reflexivity|constructor].
  - eexists _, _. split; [reflexivity|constructor].
  - destruct (q_has_next s t); cbn [fst].
    + exists false, (rq_next t). reflexivity.
    + exists true, (rq_next t). reflexivity.
  - eexists _, _. reflexivity.
  - eexists _, _. reflexivity.
  - eexists _, _. split; [reflexivity|constructor].
  - eexists _, _. split; [reflexivity|constructor].
  - eexists _, _. split; [reflexivity|constructor].
  - eexists _, _. split; [reflexivity|].
    destruct ((h =? q_hi s) && negb (h =? t) && nx); repeat constructor. intros [].
  - eexists _, _. reflexivity.
  - eexists _, _. reflexivity.
  - constructor.
Qed.
