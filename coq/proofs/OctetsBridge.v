(* OctetsBridge.v -- the two models of iox.OctetsStream are one.

   models/StreamOps.v (C13: Write/Read/Seek/Tidy/Reset/Bytes/Len/Position, position : Z) and
   models/Octets.v (C11/C12: typed readers and writers, Write, Read, Tidy, position : nat)
   both transcribe iox/octets_stream.go.  Here:
   1. the correspondence [brg_rel] (same bytes, same position) and the translations
      brg_oct / brg_stm of models/StreamReads.v;
   2. for every operation BOTH models have -- Write, the raw append of the typed writers,
      Read, Tidy, Bytes (the slice buffer[position:]), Len, Position, copy and the checked
      slice accessors -- the two transcriptions are the same function on corresponding
      states, for EVERY pair of corresponding states (also position > len, where both say
      Panic in the same cases);
   3. consequence: the state reached by any sequence of stream operations (current Seek)
      corresponds to a well-formed Octets state (C13's c13_stm_cursor_in_bounds carried
      over), so C12's theorems apply to it without assuming anything about the cursor;
      with the pre-fix Seek they do not: a typed read panics. *)
From Got Require Import Base GoSlice StreamOps StreamOpsProofs Octets OctetsSpec OctetsProofs StreamReads.
Local Open Scope Z_scope.

(* ---------------------------------------------------------------- the correspondence *)
Definition brg_rel (s : stm_state) (o : oct_stream) : Prop :=
  oct_buf o = st_buf s /\ oct_position o = st_pos s.

Definition brg_opt_res {A} (x : option A) : res A unit :=
  match x with Some a => Ok a | None => Panic end.

Lemma brg_rel_oct s : 0 <= st_pos s -> brg_rel s (brg_oct s).
Proof. intros H. unfold brg_rel, brg_oct, oct_position. cbn [oct_buf oct_pos]. split; [reflexivity|lia]. Qed.

Lemma brg_rel_stm o : brg_rel (brg_stm o) o.
Proof. split; reflexivity. Qed.

(* the relation is a bijection between the Octets states and the StreamOps states with a
   non-negative position *)
Lemma brg_rel_iff s o : brg_rel s o <-> (0 <= st_pos s /\ o = brg_oct s).
Proof.
  unfold brg_rel, brg_oct, oct_position. split.
  - intros [Hb Hp]. split; [lia|]. destruct o as [b p]. cbn [oct_buf oct_pos] in *. subst b. f_equal. lia.
  - intros [Hp ->]. cbn [oct_buf oct_pos]. split; [reflexivity|lia].
Qed.

Lemma brg_rel_iff_stm s o : brg_rel s o <-> s = brg_stm o.
Proof.
  unfold brg_rel, brg_stm. split.
  - intros [Hb Hp]. destruct s as [b p]. cbn [st_buf st_pos] in *. subst. reflexivity.
  - intros ->. split; reflexivity.
Qed.

Lemma brg_oct_stm o : brg_oct (brg_stm o) = o.
Proof. destruct o as [b p]. unfold brg_oct, brg_stm, oct_position. cbn [oct_buf oct_pos st_buf st_pos]. f_equal. lia. Qed.

Lemma brg_stm_oct s : 0 <= st_pos s -> brg_stm (brg_oct s) = s.
Proof. intros H. destruct s as [b p]. unfold brg_oct, brg_stm, oct_position. cbn [oct_buf oct_pos st_buf st_pos] in *. f_equal. lia. Qed.

(* invariants correspond: C13's "0 <= position <= Len" is C12's "position <= len(buffer)" *)
Lemma brg_inv_wf s o : brg_rel s o -> (stm_inv s <-> oct_wf o).
Proof.
  unfold brg_rel, stm_inv, oct_wf, stm_len, oct_position. intros [Hb Hp]. rewrite <- Hb, <- Hp. lia.
Qed.

(* ---------------------------------------------------------------- observers *)
Lemma brg_len s o : brg_rel s o -> oct_len o = stm_len s.
Proof. intros [Hb _]. unfold oct_len, stm_len. rewrite Hb. reflexivity. Qed.

Lemma brg_position s o : brg_rel s o -> oct_position o = stm_position s.
Proof. intros [_ Hp]. exact Hp. Qed.

(* ---------------------------------------------------------------- checked accessors, copy *)
Lemma brg_slice_from (l : list Z) (p : nat) :
  gs_slice_from l (Z.of_nat p) = brg_opt_res (oct_slice_from l p).
Proof.
  unfold gs_slice_from, oct_slice_from. rewrite Nat2Z.id.
  destruct (Nat.leb_spec p (length l)) as [H|H].
  - replace ((0 <=? Z.of_nat p) && (Z.of_nat p <=? Z.of_nat (length l))) with true by lia. reflexivity.
  - replace ((0 <=? Z.of_nat p) && (Z.of_nat p <=? Z.of_nat (length l))) with false by lia. reflexivity.
Qed.

Lemma brg_slice (l : list Z) (a b : Z) : gs_slice l a b = brg_opt_res (oct_slice l a b).
Proof.
  unfold gs_slice, oct_slice.
  destruct ((0 <=? a) && (a <=? b) && (b <=? Z.of_nat (length l))); reflexivity.
Qed.

Lemma brg_copy (dst src : list Z) : gs_copy dst src = oct_copy dst src.
Proof.
  unfold gs_copy, oct_copy. destruct (Nat.le_ge_cases (length dst) (length src)) as [H|H].
  - rewrite Nat.min_l by exact H. rewrite !skipn_all2 by lia. reflexivity.
  - rewrite Nat.min_r by exact H. rewrite firstn_all2 by exact H. rewrite firstn_all. reflexivity.
Qed.

(* Bytes() = buffer[position:], the slice the fixed-width readers of Octets.v take *)
Lemma brg_bytes s o : brg_rel s o ->
  stm_bytes s = brg_opt_res (oct_slice_from (oct_buf o) (oct_pos o)).
Proof.
  intros [Hb Hp]. unfold stm_bytes. rewrite <- Hp, <- Hb. apply brg_slice_from.
Qed.

Lemma brg_bytes_rest s o : brg_rel s o -> oct_wf o -> stm_bytes s = Ok (oct_rest o) /\ stm_unread s = oct_rest o.
Proof.
  intros Hr Hwf. rewrite (brg_bytes s o Hr), slice_from_rest by exact Hwf. split; [reflexivity|].
  destruct Hr as [Hb Hp]. unfold stm_unread, oct_rest. rewrite <- Hp, <- Hb. unfold oct_position. rewrite Nat2Z.id. reflexivity.
Qed.

(* ---------------------------------------------------------------- Write *)
(* OctetsStream.Write(p) *)
Lemma brg_write s o p : brg_rel s o -> brg_rel (stm_write s p) (oct_write o p).
Proof.
  intros [Hb Hp]. unfold stm_write, oct_write.
  destruct p as [|x p]; cbn [length]; [split; assumption|].
  replace (0 <? Z.of_nat (S (length p))) with true by lia.
  replace (0 <? S (length p))%nat with true by (symmetry; apply Nat.ltb_lt; lia).
  unfold oct_append, brg_rel, oct_position. cbn [oct_buf oct_pos st_buf st_pos]. rewrite Hb. split; [reflexivity|exact Hp].
Qed.

(* the raw append "my.buffer = append(my.buffer, bytes...)" of WriteBool/Byte/Int16/32/64
   is what Write does with the same bytes *)
Lemma brg_append s o l : brg_rel s o -> brg_rel (stm_write s l) (oct_append o l).
Proof.
  intros [Hb Hp]. rewrite stm_write_spec.
  unfold oct_append, brg_rel, oct_position. cbn [oct_buf oct_pos st_buf st_pos]. rewrite Hb. split; [reflexivity|exact Hp].
Qed.

(* every typed writer (stream or OctetsWriter; bool ... string) = Write of the value's
   wire format *)
Lemma brg_write_val a s o x : brg_rel s o -> oct_val_ok x = true ->
  exists o', oct_write_val a o x = Some o' /\ brg_rel (stm_write s (oct_wire x)) o'.
Proof.
  intros Hr Hok. rewrite write_val_spec by exact Hok. eexists. split; [reflexivity|]. apply brg_append. exact Hr.
Qed.

(* ---------------------------------------------------------------- Read *)
(* OctetsStream.Read(make([]byte, n)): same bytes, same error, same new position, same
   panics -- on every pair of corresponding states *)
Definition brg_read_agree (s : stm_state) (o : oct_stream)
    (x : res (stm_state * stm_ret) unit) (y : oct_rd (list Z)) : Prop :=
  match x, y with
  | Ok (s', SRRead d e), (r, o', a) =>
      brg_rel s' o' /\ a = 0 /\ r = (if e then Err OctErrInvalidArgument else Ok d) /\ (e = true -> d = [])
  | Panic, (Panic, o', a) => o' = o /\ a = 0
  | _, _ => False
  end.

Lemma brg_read s o n : brg_rel s o ->
  brg_read_agree s o (stm_read s n) (oct_stream_read o (Z.of_nat n)).
Proof.
  intros Hr. pose proof Hr as [Hb Hp]. unfold stm_read, oct_stream_read.
  rewrite (brg_len s o Hr), Hp.
  destruct (Z.of_nat n =? 0) eqn:E0.
  { cbn. repeat split; auto. }
  destruct (stm_len s - st_pos s =? 0) eqn:E1.
  { cbn. repeat split; auto. }
  set (rs := if Z.of_nat n >? stm_len s - st_pos s then stm_len s - st_pos s else Z.of_nat n).
  rewrite brg_slice, Hb.
  destruct (oct_slice (st_buf s) (st_pos s) (st_pos s + rs)) as [d|] eqn:Es; cbn [brg_opt_res gs_bind brg_read_agree].
  - split; [|repeat split; auto; discriminate].
    unfold oct_slice in Es.
    destruct ((0 <=? st_pos s) && (st_pos s <=? st_pos s + rs) && (st_pos s + rs <=? Z.of_nat (length (st_buf s)))) eqn:Ec;
      [|discriminate].
    unfold brg_rel, oct_set_pos, oct_position. cbn [oct_buf oct_pos st_buf st_pos]. split; [exact Hb|lia].
  - split; reflexivity.
Qed.

(* ---------------------------------------------------------------- Tidy *)
Definition brg_tidy_agree (x : res stm_state unit) (y : option oct_stream) : Prop :=
  match x, y with
  | Ok s', Some o' => brg_rel s' o'
  | Panic, None => True
  | _, _ => False
  end.

Lemma brg_tidy s o : brg_rel s o -> brg_tidy_agree (stm_tidy s) (oct_tidy o).
Proof.
  intros Hr. pose proof Hr as [Hb Hp]. unfold stm_tidy, oct_tidy.
  rewrite (brg_len s o Hr). rewrite <- Hp at 1.
  destruct (Nat.ltb_spec 0 (oct_pos o)) as [H0|H0].
  - replace (oct_position o >? 0) with true by (unfold oct_position; lia).
    rewrite <- Hp at 1. unfold oct_position at 1. rewrite brg_slice_from, <- Hb.
    destruct (oct_slice_from (oct_buf o) (oct_pos o)) as [src|]; cbn [brg_opt_res gs_bind brg_tidy_agree]; [|exact I].
    rewrite brg_copy, brg_slice, Hb, <- Hp.
    destruct (oct_slice (oct_copy (st_buf s) src) 0 (stm_len s - oct_position o)) as [b2|];
      cbn [brg_opt_res gs_bind brg_tidy_agree]; [|exact I].
    split; reflexivity.
  - replace (oct_position o >? 0) with false by (unfold oct_position; lia).
    cbn [brg_tidy_agree]. exact Hr.
Qed.

(* ---------------------------------------------------------------- typed reads vs Read *)
(* ReadByte on corresponding states is Read into a 1-byte buffer: same byte, same cursor;
   the two differ only in the error for "no data" (ErrNotEnoughData vs (0, nil)) *)
Lemma brg_read_byte s o : brg_rel s o -> oct_wf o ->
  match stm_read s 1, oct_read_byte o with
  | Ok (s', SRRead [b] false), (Ok b', o', 0) => b' = b /\ brg_rel s' o'
  | Ok (s', SRRead [] false), (Err OctErrNotEnoughData, o', 0) => o' = o /\ s' = s
  | _, _ => False
  end.
Proof.
  intros Hr Hwf. pose proof (proj2 (brg_inv_wf s o Hr) Hwf) as Hi.
  rewrite (stm_read_spec s 1 Hi). cbn zeta.
  destruct (brg_bytes_rest s o Hr Hwf) as [_ Hu]. rewrite Hu.
  destruct (view_byte o Hwf) as [E _]. rewrite E. unfold v_byte.
  destruct (oct_rest o) as [|b l]; cbn [firstn length fst snd Nat.eqb].
  - rewrite adv_0. split; [reflexivity|]. destruct s; cbn. f_equal. lia.
  - split; [reflexivity|]. destruct Hr as [Hb Hp].
    unfold brg_rel, oct_adv, oct_set_pos, oct_position in *. cbn [oct_buf oct_pos st_buf st_pos]. split; [exact Hb|lia].
Qed.

(* ---------------------------------------------------------------- runs of stream operations *)
(* neither Seek variant ever stores a negative position *)
Lemma brg_step_pos_nonneg sv s op s' r :
  0 <= st_pos s -> stm_step sv s op = Ok (s', r) -> 0 <= st_pos s'.
Proof.
  intros Hp Hs. destruct op as [p|n|off wh| |]; cbn [stm_step] in Hs.
  - inversion Hs; subst. unfold stm_write. destruct (0 <? Z.of_nat (length p)); cbn [st_pos]; exact Hp.
  - unfold stm_read in Hs.
    destruct (Z.of_nat n =? 0); [inversion Hs; subst; exact Hp|].
    destruct (stm_len s - st_pos s =? 0); [inversion Hs; subst; exact Hp|].
    set (rs := if Z.of_nat n >? stm_len s - st_pos s then stm_len s - st_pos s else Z.of_nat n) in *.
    unfold gs_slice in Hs.
    destruct ((0 <=? st_pos s) && (st_pos s <=? st_pos s + rs) && (st_pos s + rs <=? Z.of_nat (length (st_buf s)))) eqn:Ec;
      cbn [gs_bind] in Hs; [|discriminate].
    inversion Hs; subst. cbn [st_pos]. lia.
  - destruct (stm_seek sv s off wh) as [s1 r1] eqn:E. inversion Hs; subst. clear Hs.
    unfold stm_seek in E.
    destruct (if wh =? 0 then if off <? 0 then None else Some 0
              else if wh =? 1 then Some (st_pos s)
              else if wh =? 2 then Some (stm_len s) else None) as [b|].
    + destruct ((sext 64 (b + off) <? 0) ||
                match sv with StmOrig => false | StmFixed => sext 64 (b + off) >? stm_len s end) eqn:Eb;
        inversion E; subst; cbn [st_pos]; lia.
    + inversion E; subst. exact Hp.
  - unfold stm_tidy in Hs. destruct (st_pos s >? 0) eqn:E.
    + destruct (gs_slice_from (st_buf s) (st_pos s)) as [src| |]; cbn [gs_bind] in Hs; try discriminate.
      destruct (gs_slice (gs_copy (st_buf s) src) 0 (stm_len s - st_pos s)) as [b2| |]; cbn [gs_bind] in Hs; try discriminate.
      inversion Hs; subst. cbn [st_pos]. lia.
    + cbn [gs_bind] in Hs. inversion Hs; subst. exact Hp.
  - inversion Hs; subst. cbn. lia.
Qed.

Lemma brg_run_pos_nonneg sv ops : forall s s' rs,
  0 <= st_pos s -> stm_run sv s ops = Ok (s', rs) -> 0 <= st_pos s'.
Proof.
  induction ops as [|op tl IH]; intros s s' rs Hp Hr; cbn [stm_run] in Hr.
  - inversion Hr; subst. exact Hp.
  - destruct (stm_step sv s op) as [[s1 r]| |] eqn:E1; cbn [gs_bind fst snd] in Hr; try discriminate.
    destruct (stm_run sv s1 tl) as [[s2 rs2]| |] eqn:E2; cbn [gs_bind fst snd] in Hr; try discriminate.
    inversion Hr; subst. exact (IH s1 s' rs2 (brg_step_pos_nonneg sv s op s1 r Hp E1) E2).
Qed.

(* the trace of the c12s case is the run: it returns a state iff stm_run does, the same one *)
Lemma brg_trace_run sv ops : forall s,
  snd (brg_trace sv s ops) =
  match stm_run sv s ops with Ok (s', _) => Some s' | _ => None end.
Proof.
  induction ops as [|op tl IH]; intros s; cbn [brg_trace stm_run]; [reflexivity|].
  destruct (stm_step sv s op) as [[s1 r]| |]; cbn [gs_bind fst snd]; try reflexivity.
  rewrite IH. destruct (stm_run sv s1 tl) as [[s2 rs2]| |]; reflexivity.
Qed.

(* ... and for the current code it is exactly the trace C13 compares and proves clean *)
Lemma brg_trace_is_stm_trace ops : forall s,
  stm_inv s -> fst (brg_trace StmFixed s ops) = stm_trace StmFixed s ops.
Proof.
  induction ops as [|op tl IH]; intros s Hi; cbn [brg_trace stm_trace]; [reflexivity|].
  destruct (stm_step_total s op Hi) as (s1 & r & E1 & Hi1 & _). rewrite E1. cbn [fst].
  rewrite (stm_bytes_ok s1 Hi1), (IH s1 Hi1). reflexivity.
Qed.

(* the state reached by ANY sequence of stream operations of the current code corresponds
   to a well-formed Octets state: C13's cursor theorem, carried across the bridge *)
Lemma brg_run_wf ops s rs :
  stm_run StmFixed stm_init ops = Ok (s, rs) -> brg_rel s (brg_oct s) /\ oct_wf (brg_oct s).
Proof.
  intros Hr. pose proof (stm_run_inv ops stm_init s rs stm_inv_init Hr) as Hi.
  assert (Hrel : brg_rel s (brg_oct s)) by (apply brg_rel_oct; unfold stm_inv in Hi; lia).
  split; [exact Hrel|]. apply (brg_inv_wf s _ Hrel). exact Hi.
Qed.

(* ---------------------------------------------------------------- typed reads after any ops *)
(* failed fixed-width reads consume nothing, call by call *)
Fixpoint brg_fixed_fail_nothing (ops : list oct_op) (s : oct_stream) (rs : list (oct_rd oct_val)) : Prop :=
  match ops, rs with
  | op :: ops', (r, s', a) :: rs' =>
      (oct_op_fixed op = true -> oct_is_err r -> s' = s /\ a = 0) /\ brg_fixed_fail_nothing ops' s' rs'
  | [], [] => True
  | _, _ => False
  end.

Lemma brg_fixed_fail_nothing_lemma v ops : forall s,
  oct_wf s -> forallb oct_op_ok ops = true -> brg_fixed_fail_nothing ops s (oct_run_reads v ops s).
Proof.
  induction ops as [|op ops IH]; intros s Hwf Hok; cbn [oct_run_reads brg_fixed_fail_nothing]; [exact I|].
  cbn [forallb] in Hok. apply andb_true_iff in Hok. destruct Hok as [Hok Hoks].
  destruct (oct_read_op v op s) as [[r s'] a] eqn:E. cbn [fst snd].
  destruct (read_op_view _ _ _ _ _ _ Hwf Hok E) as (n & Hv & Hs' & Hle).
  assert (Hwf' : oct_wf s') by (subst s'; apply adv_wf; assumption).
  split; [|apply IH; assumption].
  intros Hf He. destruct r as [x|e|]; cbn [oct_is_err] in He; try contradiction.
  exact (read_fixed_fail_consumes_nothing_lemma v op s e s' a Hwf Hf E).
Qed.

(* THE composed statement: any stream-op sequence (any payloads, any read sizes, any
   offset/whence) on the empty stream runs without panic to a state s with
   0 <= Position() <= Len(); on that state every sequence of typed read calls is safe *)
Lemma reads_safe_after_any_ops_lemma : forall v ops rops,
  forallb oct_op_ok rops = true ->
  exists s rs,
    stm_run StmFixed stm_init ops = Ok (s, rs) /\ length rs = length ops /\
    brg_rel s (brg_oct s) /\
    0 <= oct_position (brg_oct s) <= oct_len (brg_oct s) /\
    oct_reads_safe v (brg_oct s) (oct_run_reads v rops (brg_oct s)) /\
    brg_fixed_fail_nothing rops (brg_oct s) (oct_run_reads v rops (brg_oct s)) /\
    brg_case StmFixed v ops rops = (stm_trace StmFixed stm_init ops, Some (oct_run_reads v rops (brg_oct s))).
Proof.
  intros v ops rops Hok.
  destruct (stm_run_total ops stm_init stm_inv_init) as (s & rs & Hr & Hi & Hlen).
  destruct (brg_run_wf ops s rs Hr) as [Hrel Hwf].
  exists s, rs. split; [exact Hr|]. split; [exact Hlen|]. split; [exact Hrel|].
  split. { unfold oct_wf in Hwf. unfold oct_position, oct_len. lia. }
  split; [apply reads_safe_lemma; assumption|].
  split; [apply brg_fixed_fail_nothing_lemma; assumption|].
  unfold brg_case. rewrite brg_trace_run, Hr, (brg_trace_is_stm_trace ops stm_init stm_inv_init).
  unfold stm_inv in Hi. replace (0 <=? st_pos s) with true by lia. reflexivity.
Qed.

(* ---------------------------------------------------------------- alternating use *)
(* any alternation of stream-op segments and typed-read segments on one stream *)
Definition brg_seg_ok (g : brg_seg) : bool :=
  match g with BrgOps _ => true | BrgReads rops => forallb oct_op_ok rops end.

Fixpoint brg_phases_safe (v : oct_variant) (s : stm_state) (segs : list brg_seg) (obs : list brg_seg_obs) : Prop :=
  match segs, obs with
  | [], [] => True
  | BrgOps ops :: tl, BrgOpsObs t :: obs' =>
      exists s1 rs,
        stm_run StmFixed s ops = Ok (s1, rs) /\ length rs = length ops /\
        t = stm_trace StmFixed s ops /\ forallb stm_line_clean t = true /\ length t = length ops /\
        0 <= st_pos s1 <= stm_len s1 /\
        brg_phases_safe v s1 tl obs'
  | BrgReads rops :: tl, BrgReadsObs rs b :: obs' =>
      let o := brg_oct s in
      let o1 := brg_after_reads o rs in
      brg_rel s o /\ rs = oct_run_reads v rops o /\
      oct_reads_safe v o rs /\ brg_fixed_fail_nothing rops o rs /\
      oct_buf o1 = oct_buf o /\ oct_position o <= oct_position o1 <= oct_len o /\
      b = Ok (oct_rest o1) /\
      brg_phases_safe v (brg_stm o1) tl obs'
  | _, _ => False
  end.

Lemma after_reads_wf v ops : forall s,
  oct_wf s -> forallb oct_op_ok ops = true ->
  oct_wf (brg_after_reads s (oct_run_reads v ops s)) /\
  oct_buf (brg_after_reads s (oct_run_reads v ops s)) = oct_buf s /\
  (oct_pos s <= oct_pos (brg_after_reads s (oct_run_reads v ops s)))%nat.
Proof.
  induction ops as [|op ops IH]; intros s Hwf Hok; cbn [oct_run_reads brg_after_reads].
  - split; [exact Hwf|]. split; [reflexivity|apply Nat.le_refl].
  - cbn [forallb] in Hok. apply andb_true_iff in Hok. destruct Hok as [Hok Hoks].
    destruct (oct_read_op v op s) as [[r s'] a] eqn:E. cbn [fst snd].
    destruct (read_op_view _ _ _ _ _ _ Hwf Hok E) as (n & Hv & Hs' & Hle).
    assert (Hwf' : oct_wf s') by (subst s'; apply adv_wf; assumption).
    destruct (IH s' Hwf' Hoks) as (H1 & H2 & H3).
    split; [exact H1|]. split; [rewrite H2; subst s'; reflexivity|].
    subst s'. assert (Ha : oct_pos (oct_adv s n) = (oct_pos s + n)%nat) by reflexivity. lia.
Qed.

Lemma phases_safe_lemma v segs : forall s,
  stm_inv s -> forallb brg_seg_ok segs = true ->
  brg_phases_safe v s segs (brg_phases StmFixed v s segs).
Proof.
  induction segs as [|g tl IH]; intros s Hi Hok; cbn [brg_phases brg_phases_safe]; [exact I|].
  cbn [forallb] in Hok. apply andb_true_iff in Hok. destruct Hok as [Hg Htl].
  destruct g as [ops|rops]; cbn [brg_phases brg_phases_safe].
  - destruct (stm_run_total ops s Hi) as (s1 & rs & Hr & Hi1 & Hlen).
    rewrite brg_trace_run, Hr. rewrite (brg_trace_is_stm_trace ops s Hi).
    destruct (stm_trace_clean ops s Hi) as [Hc Hl].
    exists s1, rs. repeat split; try assumption; try (apply Hi1). apply IH; assumption.
  - cbn [brg_seg_ok] in Hg. pose proof Hi as Hi'. unfold stm_inv in Hi'.
    replace (0 <=? st_pos s) with true by lia. cbn [brg_phases_safe]. cbn zeta.
    assert (Hrel : brg_rel s (brg_oct s)) by (apply brg_rel_oct; lia).
    assert (Hwf : oct_wf (brg_oct s)) by (apply (brg_inv_wf s _ Hrel); exact Hi).
    destruct (after_reads_wf v rops (brg_oct s) Hwf Hg) as (Hwf1 & Hb1 & Hp1).
    set (o1 := brg_after_reads (brg_oct s) (oct_run_reads v rops (brg_oct s))) in *.
    split; [exact Hrel|]. split; [reflexivity|].
    split; [apply reads_safe_lemma; assumption|].
    split; [apply brg_fixed_fail_nothing_lemma; assumption|].
    split; [exact Hb1|].
    split. { unfold oct_wf in Hwf1. unfold oct_position, oct_len. rewrite <- Hb1. lia. }
    split. { apply (brg_bytes_rest (brg_stm o1) o1 (brg_rel_stm o1) Hwf1). }
    apply IH; [|exact Htl]. apply (brg_inv_wf (brg_stm o1) o1 (brg_rel_stm o1)). exact Hwf1.
Qed.

(* the two-segment alternation is brg_case *)
Lemma phases_two sv v ops rops :
  brg_phases sv v stm_init [BrgOps ops; BrgReads rops] =
  BrgOpsObs (fst (brg_case sv v ops rops)) ::
  match snd (brg_trace sv stm_init ops), snd (brg_case sv v ops rops) with
  | Some s, Some rs => [BrgReadsObs rs (stm_bytes (brg_stm (brg_after_reads (brg_oct s) rs)))]
  | _, _ => []
  end.
Proof.
  unfold brg_case. cbn [brg_phases fst snd].
  destruct (snd (brg_trace sv stm_init ops)) as [s|]; [|reflexivity].
  cbn [brg_phases]. destruct (0 <=? st_pos s); reflexivity.
Qed.

Lemma alternation_safe_lemma v segs :
  forallb brg_seg_ok segs = true -> brg_phases_safe v stm_init segs (brg_phases StmFixed v stm_init segs).
Proof. intros H. apply phases_safe_lemma; [exact stm_inv_init|exact H]. Qed.

Lemma c12s_alternation_example :
  brg_phases StmFixed OctFixed stm_init
    [BrgOps [SWrite [2; 65; 66; 7; 1]; SSeek 9 0]; BrgReads [OpBytes];
     BrgOps [STidy; SWrite [3]; SSeek (-1) 1; SSeek 1 1]; BrgReads [OpInt16 OctViaReader; OpInt32 OctViaStream];
     BrgOps [SReset; SWrite [1; 88]]; BrgReads [OpString; OpByte OctViaStream]] =
  [BrgOpsObs (stm_trace StmFixed stm_init [SWrite [2; 65; 66; 7; 1]; SSeek 9 0]);
   BrgReadsObs [(Ok (OVBytes [65; 66]), oct_mk [2; 65; 66; 7; 1] 3, 2)] (Ok [7; 1]);
   BrgOpsObs (stm_trace StmFixed (mk_stm [2; 65; 66; 7; 1] 3) [STidy; SWrite [3]; SSeek (-1) 1; SSeek 1 1]);
   BrgReadsObs [(Ok (OVInt16 769), oct_mk [7; 1; 3] 3, 0); (Err OctErrNotEnoughData, oct_mk [7; 1; 3] 3, 0)] (Ok []);
   BrgOpsObs (stm_trace StmFixed (mk_stm [7; 1; 3] 3) [SReset; SWrite [1; 88]]);
   BrgReadsObs [(Ok (OVString [88]), oct_mk [1; 88] 2, 1); (Err OctErrNotEnoughData, oct_mk [1; 88] 2, 0)] (Ok [])].
Proof. vm_compute. reflexivity. Qed.

(* the pre-fix Seek (no upper bound): after Write(4 bytes); Seek(10, SeekStart) the state
   corresponds to an Octets state with Position() = 10 > Len() = 4, on which
   OctetsStream.Read(make([]byte,1)) panics (slice bounds out of range [10:4]) and
   ReadByte / ReadInt32 report ErrNotEnoughData with the cursor outside the data *)
Lemma reads_after_orig_seek_refuted_lemma :
  exists ops s rs,
    stm_run StmOrig stm_init ops = Ok (s, rs) /\ brg_rel s (brg_oct s) /\
    oct_position (brg_oct s) = 10 /\ oct_len (brg_oct s) = 4 /\ ~ oct_wf (brg_oct s) /\
    fst (fst (oct_read_op OctFixed (OpRead 1) (brg_oct s))) = Panic /\
    oct_read_op OctFixed (OpByte OctViaStream) (brg_oct s) = (Err OctErrNotEnoughData, brg_oct s, 0) /\
    oct_read_op OctFixed (OpInt32 OctViaReader) (brg_oct s) = (Err OctErrNotEnoughData, brg_oct s, 0) /\
    ~ oct_reads_safe OctFixed (brg_oct s) (oct_run_reads OctFixed [OpRead 1] (brg_oct s)) /\
    ~ oct_reads_safe OctFixed (brg_oct s) (oct_run_reads OctFixed [OpByte OctViaStream] (brg_oct s)) /\
    stm_run StmFixed stm_init ops = Ok (mk_stm [1; 2; 3; 4] 0, [SRWrote; SRSeek None]).
Proof.
  exists [SWrite [1; 2; 3; 4]; SSeek 10 0]. eexists. eexists.
  split; [vm_compute; reflexivity|].
  split; [apply brg_rel_oct; cbn; lia|].
  split; [reflexivity|]. split; [reflexivity|].
  split; [unfold oct_wf; cbn; lia|].
  split; [vm_compute; reflexivity|]. split; [vm_compute; reflexivity|]. split; [vm_compute; reflexivity|].
  split. { cbn. intros (H & _). apply H. reflexivity. }
  split. { cbn. unfold oct_position, oct_len. cbn. intros (_ & _ & H & _). lia. }
  vm_compute. reflexivity.
Qed.

(* non-vacuity: write, partial read, a rejected and an accepted Seek, Tidy, more data; then
   typed reads that succeed, fail short, and a length-prefixed read *)
Lemma c12s_example :
  brg_case StmFixed OctFixed
    [SWrite [9; 2; 65; 66; 7]; SRead 1%nat; SSeek 9 0; SSeek (-1) 2; SSeek 1 0; STidy; SWrite [1]]
    [OpBytes; OpInt16 OctViaReader; OpInt32 OctViaStream; OpByte OctViaStream] =
  (stm_trace StmFixed stm_init
     [SWrite [9; 2; 65; 66; 7]; SRead 1%nat; SSeek 9 0; SSeek (-1) 2; SSeek 1 0; STidy; SWrite [1]],
   Some [(Ok (OVBytes [65; 66]), oct_mk [2; 65; 66; 7; 1] 3, 2);
         (Ok (OVInt16 263), oct_mk [2; 65; 66; 7; 1] 5, 0);
         (Err OctErrNotEnoughData, oct_mk [2; 65; 66; 7; 1] 5, 0);
         (Err OctErrNotEnoughData, oct_mk [2; 65; 66; 7; 1] 5, 0)]).
Proof. vm_compute. reflexivity. Qed.
