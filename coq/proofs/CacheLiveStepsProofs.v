(* CacheLiveStepsProofs.v -- lemmas about the small-step blocking model of cachex
   (models/CacheLiveSteps.v): the progress measure, the invariants of reachable states, deadlock
   freedom for the current send order, the deadlock of the old one. *)
From Got Require Import Base Cache CacheProofs CacheSteps CacheLiveSteps.
Local Open Scope nat_scope.

(* ------------------------------------------------------------------ lists *)
Lemma csl_upd_nth {A} (l : list A) i x j :
  nth_error (cs_upd l i x) j =
  if Nat.eqb j i then (match nth_error l i with Some _ => Some x | None => None end) else nth_error l j.
Proof.
  revert i j. induction l as [|a r IH]; intros i j.
  - cbn. destruct j, i; cbn; try reflexivity; destruct (Nat.eqb j i); reflexivity.
  - destruct i as [|i]; destruct j as [|j]; cbn; try reflexivity. apply IH.
Qed.

Lemma csl_upd_length {A} (l : list A) i x : length (cs_upd l i x) = length l.
Proof. revert i. induction l as [|a r IH]; intros [|i]; cbn; auto. Qed.

Lemma csl_sum_upd {A} (f : A -> nat) l i x y :
  nth_error l i = Some x -> csl_sum f (cs_upd l i y) + f x = csl_sum f l + f y.
Proof.
  unfold csl_sum. revert i. induction l as [|a r IH]; intros i H; [destruct i; discriminate|].
  destruct i as [|i]; cbn in *.
  - inversion H; subst. lia.
  - specialize (IH i H). lia.
Qed.

Lemma csl_sum_upd_le {A} (f g : A -> nat) l i x y :
  nth_error l i = Some x -> (forall z, f z <= g z) ->
  csl_sum f (cs_upd l i y) + g x <= csl_sum g l + f y.
Proof.
  unfold csl_sum. intros H Hfg. revert i H. induction l as [|a r IH]; intros i H; [destruct i; discriminate|].
  destruct i as [|i]; cbn in *.
  - inversion H; subst. clear IH.
    assert (fold_right (fun x a => f x + a) 0 r <= fold_right (fun x a => g x + a) 0 r).
    { induction r as [|b r IH]; cbn; [lia|]. specialize (Hfg b). lia. }
    lia.
  - specialize (IH i H). specialize (Hfg a). lia.
Qed.

Lemma csl_sum_le {A} (f g : A -> nat) c l :
  (forall z, f z <= g z + c) -> csl_sum f l <= csl_sum g l + c * length l.
Proof. unfold csl_sum. intros H. induction l as [|a r IH]; cbn; [lia|]. specialize (H a). lia. Qed.

(* ------------------------------------------------------------------ entries per shard *)
Lemma csl_cnt_remove cfg i mp k : csl_cnt cfg i (c_remove mp k) <= csl_cnt cfg i mp.
Proof.
  unfold csl_cnt. induction mp as [|[k' f] r IH]; cbn; [lia|].
  destruct (Z.eqb k' k); cbn; destruct (csl_in_shard cfg i (k', f)); cbn; lia.
Qed.

Definition csl_is (a b : nat) : nat := if Nat.eqb a b then 1 else 0.

Lemma csl_cnt_update cfg i mp k f :
  csl_cnt cfg i (c_update mp k f) <= csl_cnt cfg i mp + csl_is (csl_shard cfg k) i.
Proof.
  pose proof (csl_cnt_remove cfg i mp k) as H. unfold c_update, csl_cnt, csl_is in *. cbn.
  unfold csl_in_shard at 1. cbn. destruct (Nat.eqb (csl_shard cfg k) i); cbn; lia.
Qed.

Lemma csl_sw_remove cfg mp k n : forall i, csl_sw cfg (c_remove mp k) i n <= csl_sw cfg mp i n.
Proof.
  induction n as [|n IH]; intros i; cbn [csl_sw]; [lia|].
  pose proof (csl_cnt_remove cfg i mp k). specialize (IH (S i)). lia.
Qed.

(* 1 if sh is one of the n shards i, i+1, ... *)
Definition csl_ind (i n sh : nat) : nat := if Nat.leb i sh && Nat.ltb sh (i + n) then 1 else 0.

Lemma csl_sw_update cfg mp k f n : forall i,
  csl_sw cfg (c_update mp k f) i n <= csl_sw cfg mp i n + 2 * csl_ind i n (csl_shard cfg k).
Proof.
  induction n as [|n IH]; intros i; cbn [csl_sw]; [lia|].
  pose proof (csl_cnt_update cfg i mp k f) as H. specialize (IH (S i)).
  unfold csl_ind, csl_is in *.
  destruct (Nat.eqb_spec (csl_shard cfg k) i);
  destruct (Nat.leb_spec0 (S i) (csl_shard cfg k)); destruct (Nat.ltb_spec0 (csl_shard cfg k) (S i + n));
  destruct (Nat.leb_spec0 i (csl_shard cfg k)); destruct (Nat.ltb_spec0 (csl_shard cfg k) (i + S n));
  cbn [andb] in *; lia.
Qed.

Lemma csl_rest_lt cfg mp i : i < csl_nsh cfg ->
  csl_rest cfg mp i = 3 + 2 * csl_cnt cfg i mp + csl_rest cfg mp (S i).
Proof.
  intros H. unfold csl_rest. destruct (csl_nsh cfg - i) as [|n] eqn:E; [lia|].
  cbn [csl_sw]. replace (csl_nsh cfg - S i) with n by lia. reflexivity.
Qed.
Lemma csl_rest_ge cfg mp i : csl_nsh cfg <= i -> csl_rest cfg mp i = 0.
Proof. intros H. unfold csl_rest. replace (csl_nsh cfg - i) with 0 by lia. reflexivity. Qed.

Lemma csl_rest_remove cfg mp k i : csl_rest cfg (c_remove mp k) i <= csl_rest cfg mp i.
Proof. apply csl_sw_remove. Qed.
Lemma csl_rest_update cfg mp k f i :
  csl_rest cfg (c_update mp k f) i <= csl_rest cfg mp i + 2 * csl_ind i (csl_nsh cfg - i) (csl_shard cfg k).
Proof. apply csl_sw_update. Qed.

Lemma csl_ind_le i n sh : csl_ind i n sh <= 1.
Proof. unfold csl_ind. destruct (_ && _); lia. Qed.
Lemma csl_is_ind i n sh : csl_is sh i + csl_ind (S i) n sh <= 1.
Proof.
  unfold csl_is, csl_ind. destruct (Nat.eqb_spec sh i); destruct (Nat.leb_spec0 (S i) sh);
  destruct (Nat.ltb_spec0 sh (S i + n)); cbn [andb]; lia.
Qed.

Lemma csl_wweight_remove cfg mp k w : csl_wweight cfg (c_remove mp k) w <= csl_wweight cfg mp w.
Proof.
  destruct w as [|f|f v e now|f v e now|i|i|i k0 f rest|i k0 f past rest|i]; cbn [csl_wweight]; try lia;
  pose proof (csl_rest_remove cfg mp k (S i)); pose proof (csl_cnt_remove cfg i mp k); lia.
Qed.
Lemma csl_wweight_update cfg mp k f w : csl_wweight cfg (c_update mp k f) w <= csl_wweight cfg mp w + 2.
Proof.
  destruct w as [|f0|f0 v e now|f0 v e now|i|i|i k0 f0 rest|i k0 f0 past rest|i]; cbn [csl_wweight]; try lia;
  pose proof (csl_rest_update cfg mp k f (S i)); pose proof (csl_cnt_update cfg i mp k f);
  pose proof (csl_is_ind i (csl_nsh cfg - S i) (csl_shard cfg k));
  pose proof (csl_ind_le (S i) (csl_nsh cfg - S i) (csl_shard cfg k)); lia.
Qed.

(* the part of the measure that is not the clients *)
Definition csl_env (cfg : csl_cfg) (mp : list (Z * nat)) (q : list nat) (wk : list csl_wpc) (tk : bool) : nat :=
  csl_job_w * length q + csl_sum (csl_wweight cfg mp) wk + (if tk then 1 + csl_rest cfg mp 0 else 0).

Lemma csl_env_update cfg mp k f q wk tk :
  csl_env cfg (c_update mp k f) q wk tk <= csl_env cfg mp q wk tk + 2 * (length wk + 1).
Proof.
  unfold csl_env.
  pose proof (csl_sum_le (csl_wweight cfg (c_update mp k f)) (csl_wweight cfg mp) 2 wk (csl_wweight_update cfg mp k f)).
  pose proof (csl_rest_update cfg mp k f 0). pose proof (csl_ind_le 0 (csl_nsh cfg - 0) (csl_shard cfg k)).
  destruct tk; lia.
Qed.

Lemma csl_measure_env cfg s :
  csl_measure cfg s = csl_sum (csl_tweight (csl_ins s)) (csl_cl s) +
                      csl_env cfg (c_map (csl_m s)) (c_queue (csl_m s)) (csl_wk s) (csl_tk s).
Proof. unfold csl_measure, csl_env. lia. Qed.

(* ------------------------------------------------------------------ the measure decreases *)
Lemma csl_env_enqueue cfg mp q n wk tk :
  csl_env cfg mp (q ++ [n]) wk tk = csl_env cfg mp q wk tk + csl_job_w.
Proof. unfold csl_env. rewrite app_length. cbn [length]. lia. Qed.

Ltac csl_mem :=
  cbn [lr_pc lr_m csl_park csl_ret csl_create c_map c_queue c_futs cs_new_entry cs_set_entry cs_enqueue cs_with].

Lemma csl_create_decreases cfg m last k pred ret wk tk ins c :
  ins = 2 * (length wk + 1) -> 6 < c ->
  csl_pcweight ins (lr_pc (csl_create cfg m last k pred ret)) +
  csl_env cfg (c_map (lr_m (csl_create cfg m last k pred ret))) (c_queue (lr_m (csl_create cfg m last k pred ret))) wk tk
  < c + ins + csl_env cfg (c_map m) (c_queue m) wk tk.
Proof.
  intros Hi Hc. unfold csl_create.
  pose proof (csl_env_update cfg (c_map m) k (length (c_futs m)) (c_queue m) wk tk) as H.
  destruct (csl_ord cfg); csl_mem; cbn [csl_pcweight]; lia.
Qed.

(* one step of a client: its own weight drops by more than what a new map entry adds elsewhere *)
Lemma csl_cstep_decreases cfg m t wk tk ins :
  ins = 2 * (length wk + 1) ->
  (lt_pc t = CslIdle -> lt_prog t <> []) ->
  let r := csl_cstep cfg m t in
  let prog' := match lt_pc t with CslIdle => tl (lt_prog t) | _ => lt_prog t end in
  csl_pcweight ins (lr_pc r) + csl_sum (csl_opweight ins) prog' +
    csl_env cfg (c_map (lr_m r)) (c_queue (lr_m r)) wk tk
  < csl_pcweight ins (lt_pc t) + csl_sum (csl_opweight ins) (lt_prog t) +
    csl_env cfg (c_map m) (c_queue m) wk tk.
Proof.
  intros Hi Hne. destruct t as [prog pc last]. cbn [lt_pc lt_prog lt_last] in *. cbv zeta.
  unfold csl_cstep. cbn [lt_pc lt_prog lt_last].
  destruct pc as [|k|k|k f|k f past|k r n|r next|r n|k|k|k f|k f past| |x|w k f|w k f p|w k f p past|w x
                  |k v e|k v e|k v e now|k v e now| ].
  - (* Idle: the next call starts *)
    destruct prog as [|op rest]; [exfalso; apply Hne; reflexivity|].
    destruct op as [k|k|k v e| ]; cbn [tl csl_sum fold_right csl_opweight]; csl_mem; cbn [csl_pcweight]; try lia.
    destruct last; csl_mem; cbn [csl_pcweight]; lia.
  - csl_mem; cbn [csl_pcweight]; lia.
  - destruct (c_lookup (c_map m) k).
    + csl_mem; cbn [csl_pcweight]; lia.
    + pose proof (csl_create_decreases cfg m last k None None wk tk ins 9 Hi). cbn [csl_pcweight]. lia.
  - destruct (cs_fdone m f) as [[[? ?] ?]|]; csl_mem; cbn [csl_pcweight]; lia.
  - destruct (cs_status_of (csl_exp cfg) past (cs_err_of m f)).
    + pose proof (csl_create_decreases cfg m last k None None wk tk ins 7 Hi). cbn [csl_pcweight]. lia.
    + csl_mem; cbn [csl_pcweight]; lia.
    + pose proof (csl_create_decreases cfg m last k (Some f) (Some f) wk tk ins 7 Hi). cbn [csl_pcweight]. lia.
    + pose proof (csl_create_decreases cfg m last k None None wk tk ins 7 Hi). cbn [csl_pcweight]. lia.
  - csl_mem. rewrite csl_env_enqueue. cbn [csl_pcweight]. unfold csl_job_w. lia.
  - destruct next; csl_mem; cbn [csl_pcweight]; lia.
  - csl_mem. rewrite csl_env_enqueue. cbn [csl_pcweight]. unfold csl_job_w. lia.
  - csl_mem; cbn [csl_pcweight]; lia.
  - destruct (c_lookup (c_map m) k); csl_mem; cbn [csl_pcweight]; lia.
  - destruct (cs_fdone m f) as [[[? ?] ?]|]; csl_mem; cbn [csl_pcweight]; lia.
  - destruct (cs_status_of (csl_exp cfg) past (cs_err_of m f)); csl_mem; cbn [csl_pcweight]; lia.
  - csl_mem; cbn [csl_pcweight]; lia.
  - destruct (cs_fdone m x) as [[[? ?] ?]|]; csl_mem; cbn [csl_pcweight]; lia.
  - destruct (cs_fpred m f); csl_mem; cbn [csl_pcweight]; lia.
  - destruct (cs_fdone m p) as [[[? ?] ?]|]; csl_mem; cbn [csl_pcweight]; lia.
  - destruct (cs_status_of (csl_exp cfg) past (cs_err_of m p)); csl_mem; cbn [csl_pcweight]; lia.
  - destruct w; csl_mem; cbn [csl_pcweight]; lia.
  - csl_mem; cbn [csl_pcweight]; lia.
  - csl_mem; cbn [csl_pcweight]; lia.
  - csl_mem; cbn [csl_pcweight]; lia.
  - csl_mem. pose proof (csl_env_update cfg (c_map m) k (length (c_futs m)) (c_queue m) wk tk). cbn [csl_pcweight]. lia.
  - csl_mem; cbn [csl_pcweight]; lia.
Qed.

Lemma csl_sweep_next_weight cfg mp i : csl_wweight cfg mp (csl_sweep_next cfg i) <= csl_rest cfg mp i.
Proof.
  unfold csl_sweep_next. destruct (Nat.ltb_spec0 i (csl_nsh cfg)); cbn [csl_wweight]; [|lia].
  rewrite (csl_rest_lt cfg mp i) by assumption. lia.
Qed.

Lemma csl_entry_next_weight cfg mp i l :
  csl_wweight cfg mp (csl_entry_next i l) <= 2 * length l + 1 + csl_rest cfg mp (S i).
Proof. destruct l as [|[k f] r]; cbn [csl_entry_next csl_wweight length]; lia. Qed.

Lemma csl_store_done_map m f r : c_map (cs_store_done m f r) = c_map m /\ c_queue (cs_store_done m f r) = c_queue m.
Proof. unfold cs_store_done. destruct (c_get (c_futs m) f); split; reflexivity. Qed.
Lemma csl_store_pred_map m f : c_map (cs_store_pred_nil m f) = c_map m /\ c_queue (cs_store_pred_nil m f) = c_queue m.
Proof. unfold cs_store_pred_nil. destruct (c_get (c_futs m) f); split; reflexivity. Qed.

(* one step of a worker *)
Lemma csl_wstep_decreases cfg s w pick v e m' w' tk' i :
  nth_error (csl_wk s) i = Some w -> csl_wstep cfg s w pick v e = Some (m', w', tk') ->
  csl_env cfg (c_map m') (c_queue m') (cs_upd (csl_wk s) i w') tk'
  < csl_env cfg (c_map (csl_m s)) (c_queue (csl_m s)) (csl_wk s) (csl_tk s).
Proof.
  intros Hn Hs. set (mp := c_map (csl_m s)) in *.
  assert (Hsame : forall w1, c_map m' = mp -> tk' = csl_tk s ->
            csl_job_w * length (c_queue m') + csl_wweight cfg mp w1 < csl_job_w * length (c_queue (csl_m s)) + csl_wweight cfg mp w ->
            w' = w1 ->
            csl_env cfg (c_map m') (c_queue m') (cs_upd (csl_wk s) i w') tk'
            < csl_env cfg mp (c_queue (csl_m s)) (csl_wk s) (csl_tk s)).
  { intros w1 Hm Ht Hlt ->. rewrite Hm, Ht. unfold csl_env.
    pose proof (csl_sum_upd (csl_wweight cfg mp) (csl_wk s) i w w1 Hn). lia. }
  unfold csl_wstep in Hs.
  destruct w as [|f|f v0 e0 now|f v0 e0 now|j|j|j k f rest|j k f past rest|j].
  - destruct pick.
    + destruct (csl_tk s) eqn:Ht; [|discriminate]. inversion Hs; subst; clear Hs. fold mp. unfold csl_env.
      pose proof (csl_sum_upd (csl_wweight cfg mp) (csl_wk s) i CslWSel (csl_sweep_next cfg 0) Hn).
      pose proof (csl_sweep_next_weight cfg mp 0). cbn [csl_wweight] in *. lia.
    + destruct (c_queue (csl_m s)) as [|f q] eqn:Hq; [discriminate|]. inversion Hs; subst; clear Hs.
      eapply Hsame; [reflexivity|reflexivity| |reflexivity]. cbn [c_queue cs_with csl_wweight length]. unfold csl_job_w. lia.
  - inversion Hs; subst; clear Hs. eapply Hsame; [reflexivity|reflexivity| |reflexivity]. cbn [csl_wweight]. lia.
  - inversion Hs; subst; clear Hs. destruct (csl_store_done_map (csl_m s) f (v0, e0, now)) as [H1 H2].
    eapply Hsame; [exact H1|reflexivity| |reflexivity]. rewrite H2. cbn [csl_wweight]. lia.
  - inversion Hs; subst; clear Hs. destruct (csl_store_pred_map (csl_m s) f) as [H1 H2].
    eapply Hsame; [exact H1|reflexivity| |reflexivity]. rewrite H2. cbn [csl_wweight]. lia.
  - destruct (csl_locked cfg s j); [discriminate|]. inversion Hs; subst; clear Hs.
    eapply Hsame; [reflexivity|reflexivity| |reflexivity]. cbn [csl_wweight]. lia.
  - inversion Hs; subst; clear Hs. eapply Hsame; [reflexivity|reflexivity| |reflexivity].
    pose proof (csl_entry_next_weight cfg mp j (filter (csl_in_shard cfg j) mp)) as H.
    cbn [csl_wweight]. unfold csl_cnt. fold mp. lia.
  - destruct (cs_fdone (csl_m s) f) as [[[? ?] u]|]; inversion Hs; subst; clear Hs;
      (eapply Hsame; [reflexivity|reflexivity| |reflexivity]).
    + cbn [csl_wweight]. lia.
    + pose proof (csl_entry_next_weight cfg mp j rest). cbn [csl_wweight]. lia.
  - inversion Hs; subst; clear Hs.
    destruct (cs_status_of (csl_exp cfg) past (cs_err_of (csl_m s) f));
      try (eapply Hsame; [reflexivity|reflexivity| |reflexivity];
           pose proof (csl_entry_next_weight cfg mp j rest); cbn [csl_wweight]; lia).
    (* Rotted: the entry is deleted *)
    cbn [c_map c_queue cs_with]. fold mp. unfold csl_env.
    pose proof (csl_sum_upd_le (csl_wweight cfg (c_remove mp k)) (csl_wweight cfg mp) (csl_wk s) i
                  (CslZRE j k f past rest) (csl_entry_next j rest) Hn (csl_wweight_remove cfg mp k)) as H.
    pose proof (csl_entry_next_weight cfg (c_remove mp k) j rest) as H1.
    pose proof (csl_rest_remove cfg mp k (S j)). pose proof (csl_rest_remove cfg mp k 0).
    cbn [csl_wweight] in H. destruct (csl_tk s); lia.
  - inversion Hs; subst; clear Hs. eapply Hsame; [reflexivity|reflexivity| |reflexivity].
    pose proof (csl_sweep_next_weight cfg mp (S j)). cbn [csl_wweight]. lia.
Qed.

Lemma csl_measure_step cfg s it s' ev :
  csl_step cfg s it = Some (s', ev) ->
  match it with
  | CslC _ | CslW _ _ _ _ => csl_measure cfg s' < csl_measure cfg s
  | CslAdv _ => csl_measure cfg s' = csl_measure cfg s
  | CslTick => csl_measure cfg s' <= csl_measure cfg s + csl_tick_w cfg s
  end.
Proof.
  intros H. destruct it as [i|i pick v e| |dt]; cbn [csl_step] in H.
  - destruct (nth_error (csl_cl s) i) as [t|] eqn:Hn; [|discriminate].
    destruct (csl_cblocked cfg s t) eqn:Hb; [discriminate|]. inversion H; subst; clear H.
    rewrite !csl_measure_env. unfold csl_ins. cbn [csl_m csl_cl csl_wk csl_tk].
    set (ins := 2 * (length (csl_wk s) + 1)).
    assert (Hne : lt_pc t = CslIdle -> lt_prog t <> []).
    { intros Hp Hq. unfold csl_cblocked in Hb. rewrite Hp, Hq in Hb. discriminate. }
    pose proof (csl_cstep_decreases cfg (csl_m s) t (csl_wk s) (csl_tk s) ins eq_refl Hne) as Hd. cbv zeta in Hd.
    match goal with |- context [cs_upd (csl_cl s) i ?t'] =>
      pose proof (csl_sum_upd (csl_tweight ins) (csl_cl s) i t t' Hn) as Hs;
      assert (Ht' : csl_tweight ins t' =
                    csl_pcweight ins (lr_pc (csl_cstep cfg (csl_m s) t)) +
                    csl_sum (csl_opweight ins) match lt_pc t with CslIdle => tl (lt_prog t) | _ => lt_prog t end)
        by reflexivity
    end.
    assert (Ht : csl_tweight ins t = csl_pcweight ins (lt_pc t) + csl_sum (csl_opweight ins) (lt_prog t)) by reflexivity.
    lia.
  - destruct (nth_error (csl_wk s) i) as [w|] eqn:Hn; [|discriminate].
    destruct (csl_wstep cfg s w pick v e) as [[[m' w'] tk']|] eqn:Hw; [|discriminate]. inversion H; subst; clear H.
    rewrite !csl_measure_env. unfold csl_ins. cbn [csl_m csl_cl csl_wk csl_tk]. rewrite csl_upd_length.
    pose proof (csl_wstep_decreases cfg s w pick v e m' w' tk' i Hn Hw). lia.
  - inversion H; subst; clear H. unfold csl_measure, csl_tick_w, csl_ins. cbn [csl_m csl_cl csl_wk csl_tk].
    destruct (csl_tk s); lia.
  - destruct (Z.ltb dt 0); [discriminate|]. inversion H; subst; clear H. reflexivity.
Qed.

Definition csl_is_tick (it : csl_item) : bool := match it with CslTick => true | _ => false end.
Definition csl_nthreads (run : list csl_item) : nat := length (filter csl_is_thread run).

(* between ticker firings the number of thread steps is bounded by the measure *)
Lemma csl_run_bounded cfg run : forall s s',
  forallb (fun it => negb (csl_is_tick it)) run = true -> csl_run cfg s run = Some s' ->
  csl_nthreads run + csl_measure cfg s' <= csl_measure cfg s.
Proof.
  unfold csl_nthreads. induction run as [|it r IH]; intros s s' Hnt H; cbn [csl_run] in H.
  - inversion H; subst. cbn. lia.
  - cbn [forallb] in Hnt. apply andb_prop in Hnt. destruct Hnt as [Hit Hr].
    destruct (csl_step cfg s it) as [[s1 ev]|] eqn:Hs; [|discriminate].
    pose proof (csl_measure_step cfg s it s1 ev Hs) as Hm. specialize (IH s1 s' Hr H).
    destruct it; cbn [filter csl_is_thread length] in *; try discriminate; lia.
Qed.

(* ================================================================== invariants of reachable states *)
(* the job (loading future) a thread is responsible for *)
Definition csl_wjob (w : csl_wpc) : list nat :=
  match w with CslWLD f | CslWSU f _ _ _ => [f] | _ => [] end.
Definition csl_pcjob (pc : csl_pc) : list nat :=
  match pc with CslLSH _ _ n | CslLAU _ (Some n) | CslLSJ _ n => [n] | _ => [] end.
Definition csl_cjob (t : csl_thread) : list nat := csl_pcjob (lt_pc t).

Definition csl_loading (m : c_state) (f : nat) : Prop :=
  exists x, c_get (c_futs m) f = Some x /\ c_fdone x = None.

(* every loading future is in the channel, or with the worker that loads it, or with the Load that
   is about to send it *)
Definition csl_tracked (s : csl_state) (f : nat) : Prop :=
  In f (c_queue (csl_m s)) \/ In f (flat_map csl_wjob (csl_wk s)) \/ In f (flat_map csl_cjob (csl_cl s)).

Definition csl_is_lsh (pc : csl_pc) : bool := match pc with CslLSH _ _ _ => true | _ => false end.

Definition csl_inv (cfg : csl_cfg) (s : csl_state) : Prop :=
  (csl_ord cfg = CslFixed -> forall i t, nth_error (csl_cl s) i = Some t -> csl_is_lsh (lt_pc t) = false) /\
  (forall f, csl_loading (csl_m s) f -> csl_tracked s f).

Lemma csl_flat_upd_old {A} (g : A -> list nat) l i x y f :
  nth_error l i = Some x -> In f (flat_map g l) -> In f (g x) \/ In f (flat_map g (cs_upd l i y)).
Proof.
  revert i. induction l as [|a r IH]; intros i Hn Hin; [destruct i; discriminate|].
  destruct i as [|i]; cbn in *.
  - inversion Hn; subst. apply in_app_or in Hin. destruct Hin; [left; assumption|right; apply in_or_app; right; assumption].
  - apply in_app_or in Hin. destruct Hin as [Hin|Hin].
    + right. apply in_or_app. left. exact Hin.
    + destruct (IH i Hn Hin) as [H|H]; [left; exact H|right; apply in_or_app; right; exact H].
Qed.

Lemma csl_flat_upd_new {A} (g : A -> list nat) l i x y f :
  nth_error l i = Some x -> In f (g y) -> In f (flat_map g (cs_upd l i y)).
Proof.
  revert i. induction l as [|a r IH]; intros i Hn Hin; [destruct i; discriminate|].
  destruct i as [|i]; cbn in *.
  - apply in_or_app. left. exact Hin.
  - apply in_or_app. right. eapply IH; eauto.
Qed.

(* ---- shape of a client step *)
Lemma csl_cstep_shape cfg m t :
  let r := csl_cstep cfg m t in
  (lr_m r = m /\ csl_pcjob (lr_pc r) = csl_pcjob (lt_pc t)) \/
  (exists k pred, lr_m r = cs_new_entry m k pred /\ csl_pcjob (lt_pc t) = [] /\ csl_pcjob (lr_pc r) = [length (c_futs m)]) \/
  (exists n, lr_m r = cs_enqueue m n /\ csl_pcjob (lt_pc t) = [n] /\ csl_pcjob (lr_pc r) = []) \/
  (exists k v e now, lr_m r = cs_set_entry m k v e now /\ csl_pcjob (lt_pc t) = [] /\ csl_pcjob (lr_pc r) = []).
Proof.
  cbv zeta.
  assert (Hc : forall last k pred ret,
    exists k0 pred0, lr_m (csl_create cfg m last k pred ret) = cs_new_entry m k0 pred0 /\
                     csl_pcjob (lr_pc (csl_create cfg m last k pred ret)) = [length (c_futs m)]).
  { intros. exists k, pred. unfold csl_create. destruct (csl_ord cfg); split; reflexivity. }
  destruct t as [prog pc last]. unfold csl_cstep. cbn [lt_pc lt_prog lt_last].
  destruct pc as [|k|k|k f|k f past|k r n|r next|r n|k|k|k f|k f past| |x|w k f|w k f p|w k f p past|w x
                  |k v e|k v e|k v e now|k v e now| ];
  try (left; split; reflexivity).
  - destruct prog as [|[k|k|k v e| ] rest]; try (left; split; reflexivity). destruct last; left; split; reflexivity.
  - destruct (c_lookup (c_map m) k); [left; split; reflexivity|].
    right; left. destruct (Hc last k None None) as [k0 [p0 [H1 H2]]]. exists k0, p0. auto.
  - destruct (cs_fdone m f) as [[[? ?] ?]|]; left; split; reflexivity.
  - destruct (cs_status_of (csl_exp cfg) past (cs_err_of m f)); try (left; split; reflexivity); right; left.
    + destruct (Hc last k None None) as [k0 [p0 [H1 H2]]]. exists k0, p0. auto.
    + destruct (Hc last k (Some f) (Some f)) as [k0 [p0 [H1 H2]]]. exists k0, p0. auto.
    + destruct (Hc last k None None) as [k0 [p0 [H1 H2]]]. exists k0, p0. auto.
  - right; right; left. exists n. repeat split; reflexivity.
  - destruct next; left; split; reflexivity.
  - right; right; left. exists n. repeat split; reflexivity.
  - destruct (c_lookup (c_map m) k); left; split; reflexivity.
  - destruct (cs_fdone m f) as [[[? ?] ?]|]; left; split; reflexivity.
  - destruct (cs_status_of (csl_exp cfg) past (cs_err_of m f)); left; split; reflexivity.
  - destruct (cs_fdone m x) as [[[? ?] ?]|]; left; split; reflexivity.
  - destruct (cs_fpred m f); left; split; reflexivity.
  - destruct (cs_fdone m p) as [[[? ?] ?]|]; left; split; reflexivity.
  - destruct (cs_status_of (csl_exp cfg) past (cs_err_of m p)); left; split; reflexivity.
  - destruct w; left; split; reflexivity.
  - right; right; right. exists k, v, e, now. repeat split; reflexivity.
Qed.

(* under the current send order no step leads to "sendJob under the lock" *)
Lemma csl_cstep_no_lsh cfg m t : csl_ord cfg = CslFixed -> csl_is_lsh (lr_pc (csl_cstep cfg m t)) = false.
Proof.
  intros Hf.
  assert (Hc : forall last k pred ret, csl_is_lsh (lr_pc (csl_create cfg m last k pred ret)) = false).
  { intros. unfold csl_create. rewrite Hf. reflexivity. }
  destruct t as [prog pc last]. unfold csl_cstep. cbn [lt_pc lt_prog lt_last].
  destruct pc as [|k|k|k f|k f past|k r n|r next|r n|k|k|k f|k f past| |x|w k f|w k f p|w k f p past|w x
                  |k v e|k v e|k v e now|k v e now| ]; try reflexivity.
  - destruct prog as [|[k|k|k v e| ] rest]; try reflexivity. destruct last; reflexivity.
  - destruct (c_lookup (c_map m) k); [reflexivity|apply Hc].
  - destruct (cs_fdone m f) as [[[? ?] ?]|]; reflexivity.
  - destruct (cs_status_of (csl_exp cfg) past (cs_err_of m f)); try apply Hc; reflexivity.
  - destruct next; reflexivity.
  - destruct (c_lookup (c_map m) k); reflexivity.
  - destruct (cs_fdone m f) as [[[? ?] ?]|]; reflexivity.
  - destruct (cs_status_of (csl_exp cfg) past (cs_err_of m f)); reflexivity.
  - destruct (cs_fdone m x) as [[[? ?] ?]|]; reflexivity.
  - destruct (cs_fpred m f); reflexivity.
  - destruct (cs_fdone m p) as [[[? ?] ?]|]; reflexivity.
  - destruct (cs_status_of (csl_exp cfg) past (cs_err_of m p)); reflexivity.
  - destruct w; reflexivity.
Qed.

(* ---- shape of a worker step *)
Lemma csl_loading_same_futs m m' f : c_futs m' = c_futs m -> csl_loading m' f -> csl_loading m f.
Proof. unfold csl_loading. intros ->. auto. Qed.

Lemma csl_loading_store_done m f r g :
  csl_loading (cs_store_done m f r) g -> csl_loading m g /\ g <> f.
Proof.
  unfold cs_store_done, csl_loading. destruct (c_get (c_futs m) f) as [x|] eqn:Hx.
  - cbn [c_futs cs_with]. intros [y [Hy Hd]]. rewrite c_get_setfut in Hy by (eapply c_get_lt; eauto).
    destruct (Nat.eqb_spec g f) as [->|Hne].
    + inversion Hy; subst. discriminate.
    + split; [exists y; auto|exact Hne].
  - intros [y [Hy Hd]]. split; [exists y; auto|]. intros ->. congruence.
Qed.

Lemma csl_loading_store_pred m f g : csl_loading (cs_store_pred_nil m f) g -> csl_loading m g.
Proof.
  unfold cs_store_pred_nil, csl_loading. destruct (c_get (c_futs m) f) as [x|] eqn:Hx; [|auto].
  cbn [c_futs cs_with]. intros [y [Hy Hd]]. rewrite c_get_setfut in Hy by (eapply c_get_lt; eauto).
  destruct (Nat.eqb_spec g f) as [->|Hne].
  - inversion Hy; subst. cbn in Hd. exists x. auto.
  - exists y. auto.
Qed.

Lemma csl_wstep_shape cfg s w pick v e m' w' tk' :
  csl_wstep cfg s w pick v e = Some (m', w', tk') ->
  ((forall g, csl_loading m' g -> csl_loading (csl_m s) g) /\ c_queue m' = c_queue (csl_m s) /\ csl_wjob w' = csl_wjob w) \/
  (exists f, c_queue (csl_m s) = f :: c_queue m' /\ c_futs m' = c_futs (csl_m s) /\ csl_wjob w = [] /\ csl_wjob w' = [f]) \/
  (exists f, (forall g, csl_loading m' g -> csl_loading (csl_m s) g /\ g <> f) /\ c_queue m' = c_queue (csl_m s) /\
             csl_wjob w = [f] /\ csl_wjob w' = []).
Proof.
  unfold csl_wstep. intros Hs.
  destruct w as [|f|f v0 e0 now|f v0 e0 now|j|j|j k f rest|j k f past rest|j].
  - destruct pick.
    + destruct (csl_tk s); [|discriminate]. inversion Hs; subst. left. repeat split; auto.
      unfold csl_sweep_next. destruct (0 <? csl_nsh cfg); reflexivity.
    + destruct (c_queue (csl_m s)) as [|f q] eqn:Hq; [discriminate|]. inversion Hs; subst.
      right; left. exists f. repeat split; reflexivity.
  - inversion Hs; subst. left. repeat split; auto.
  - inversion Hs; subst. right; right. exists f. split; [apply csl_loading_store_done|].
    destruct (csl_store_done_map (csl_m s) f (v0, e0, now)) as [_ H2]. repeat split; auto.
  - inversion Hs; subst. left. split; [apply csl_loading_store_pred|].
    destruct (csl_store_pred_map (csl_m s) f) as [_ H2]. split; auto.
  - destruct (csl_locked cfg s j); [discriminate|]. inversion Hs; subst. left. repeat split; auto.
  - inversion Hs; subst. left. repeat split; auto.
    destruct (filter (csl_in_shard cfg j) (c_map (csl_m s))) as [|[? ?] ?]; reflexivity.
  - destruct (cs_fdone (csl_m s) f) as [[[? ?] u]|]; inversion Hs; subst; left; repeat split; auto.
    destruct rest as [|[? ?] ?]; reflexivity.
  - inversion Hs; subst. left. split; [|split].
    + intros g. destruct (cs_status_of (csl_exp cfg) past (cs_err_of (csl_m s) f)); auto.
    + destruct (cs_status_of (csl_exp cfg) past (cs_err_of (csl_m s) f)); reflexivity.
    + destruct rest as [|[? ?] ?]; reflexivity.
  - inversion Hs; subst. left. repeat split; auto.
    unfold csl_sweep_next. destruct (S j <? csl_nsh cfg); reflexivity.
Qed.

(* ---- the invariant is preserved by every step *)
Lemma csl_inv_step cfg s it s' ev : csl_inv cfg s -> csl_step cfg s it = Some (s', ev) -> csl_inv cfg s'.
Proof.
  intros [Hl Ht] H. destruct it as [i|i pick v e| |dt]; cbn [csl_step] in H.
  - destruct (nth_error (csl_cl s) i) as [t|] eqn:Hn; [|discriminate].
    destruct (csl_cblocked cfg s t) eqn:Hb; [discriminate|]. inversion H; subst; clear H.
    set (r := csl_cstep cfg (csl_m s) t) in *.
    set (t' := {| lt_prog := match lt_pc t with CslIdle => tl (lt_prog t) | _ => lt_prog t end;
                  lt_pc := lr_pc r; lt_last := lr_last r |}).
    split.
    + intros Hf j tj Hj. cbn [csl_cl] in Hj. rewrite csl_upd_nth in Hj.
      destruct (Nat.eqb j i).
      * rewrite Hn in Hj. inversion Hj; subst. cbn [lt_pc]. apply csl_cstep_no_lsh. exact Hf.
      * eapply Hl; eauto.
    + (* tracking *)
      assert (Hkeep : forall f, csl_tracked s f ->
                (In f (csl_pcjob (lt_pc t)) \/
                 In f (c_queue (csl_m s)) \/ In f (flat_map csl_wjob (csl_wk s)) \/ In f (flat_map csl_cjob (cs_upd (csl_cl s) i t')))).
      { intros f [Hq|[Hw|Hc]]; [right; left; exact Hq|right; right; left; exact Hw|].
        destruct (csl_flat_upd_old csl_cjob (csl_cl s) i t t' f Hn Hc) as [H|H]; [left; exact H|right; right; right; exact H]. }
      assert (Hnew : forall f, In f (csl_pcjob (lr_pc r)) -> In f (flat_map csl_cjob (cs_upd (csl_cl s) i t'))).
      { intros f Hin. eapply csl_flat_upd_new; [exact Hn|exact Hin]. }
      intros f Hld. unfold csl_tracked. cbn [csl_m csl_cl csl_wk].
      destruct (csl_cstep_shape cfg (csl_m s) t) as [[Hm Hj]|[[k [pred [Hm [Hj0 Hj1]]]]|[[n [Hm [Hj0 Hj1]]]|[k [v [e [now [Hm [Hj0 Hj1]]]]]]]]];
        fold r in Hm, Hj0, Hj1 || fold r in Hm, Hj.
      * rewrite Hm in *. destruct (Hkeep f (Ht f Hld)) as [H|[H|[H|H]]]; auto.
        right; right. apply Hnew. rewrite Hj. exact H.
      * rewrite Hm in *. destruct Hld as [x [Hx Hd]]. cbn [cs_new_entry c_futs cs_with c_queue] in *.
        apply c_get_app_inv in Hx. destruct Hx as [Hx|[Hx _]].
        -- destruct (Hkeep f (Ht f (ex_intro _ x (conj Hx Hd)))) as [H|[H|[H|H]]]; auto.
           rewrite Hj0 in H. destruct H.
        -- right; right. apply Hnew. rewrite Hj1, Hx. left. reflexivity.
      * rewrite Hm in *. cbn [cs_enqueue c_futs cs_with c_queue] in *.
        destruct (Hkeep f (Ht f Hld)) as [H|[H|[H|H]]]; auto.
        -- rewrite Hj0 in H. destruct H as [<-|[]]. left. apply in_or_app. right. left. reflexivity.
        -- left. apply in_or_app. left. exact H.
      * rewrite Hm in *. destruct Hld as [x [Hx Hd]]. cbn [cs_set_entry c_futs cs_with c_queue] in *.
        apply c_get_app_inv in Hx. destruct Hx as [Hx|[_ Hx]].
        -- destruct (Hkeep f (Ht f (ex_intro _ x (conj Hx Hd)))) as [H|[H|[H|H]]]; auto.
           rewrite Hj0 in H. destruct H.
        -- subst x. discriminate.
  - destruct (nth_error (csl_wk s) i) as [w|] eqn:Hn; [|discriminate].
    destruct (csl_wstep cfg s w pick v e) as [[[m' w'] tk']|] eqn:Hw; [|discriminate]. inversion H; subst; clear H.
    split; [exact Hl|].
    assert (Hkeep : forall f, csl_tracked s f ->
              (In f (csl_wjob w) \/
               In f (c_queue (csl_m s)) \/ In f (flat_map csl_wjob (cs_upd (csl_wk s) i w')) \/ In f (flat_map csl_cjob (csl_cl s)))).
    { intros f [Hq|[Hw0|Hc]]; [right; left; exact Hq| |right; right; right; exact Hc].
      destruct (csl_flat_upd_old csl_wjob (csl_wk s) i w w' f Hn Hw0) as [H|H]; [left; exact H|right; right; left; exact H]. }
    assert (Hnew : forall f, In f (csl_wjob w') -> In f (flat_map csl_wjob (cs_upd (csl_wk s) i w'))).
    { intros f Hin. eapply csl_flat_upd_new; [exact Hn|exact Hin]. }
    intros f Hld. unfold csl_tracked. cbn [csl_m csl_cl csl_wk].
    destruct (csl_wstep_shape cfg s w pick v e m' w' tk' Hw) as [[Hm [Hq Hj]]|[[f0 [Hq [Hm [Hj0 Hj1]]]]|[f0 [Hm [Hq [Hj0 Hj1]]]]]].
    + rewrite Hq. destruct (Hkeep f (Ht f (Hm f Hld))) as [H|[H|[H|H]]]; auto.
      right; left. apply Hnew. rewrite Hj. exact H.
    + destruct (Hkeep f (Ht f (csl_loading_same_futs _ _ f Hm Hld))) as [H|[H|[H|H]]]; auto.
      * rewrite Hj0 in H. destruct H.
      * rewrite Hq in H. destruct H as [<-|H]; [|left; exact H]. right; left. apply Hnew. rewrite Hj1. left. reflexivity.
    + rewrite Hq. destruct (Hm f Hld) as [Hld0 Hne]. destruct (Hkeep f (Ht f Hld0)) as [H|[H|[H|H]]]; auto.
      rewrite Hj0 in H. destruct H as [<-|[]]. congruence.
  - inversion H; subst; clear H. split; [exact Hl|exact Ht].
  - destruct (Z.ltb dt 0); [discriminate|]. inversion H; subst; clear H. split; [exact Hl|]. exact Ht.
Qed.

Lemma csl_inv_run cfg run : forall s s', csl_inv cfg s -> csl_run cfg s run = Some s' -> csl_inv cfg s'.
Proof.
  induction run as [|it r IH]; intros s s' Hi H; cbn [csl_run] in H; [inversion H; subst; exact Hi|].
  destruct (csl_step cfg s it) as [[s1 ev]|] eqn:Hs; [|discriminate].
  eapply IH; [|exact H]. eapply csl_inv_step; eauto.
Qed.

Lemma csl_inv_init cfg m0 par progs : csl_mem_ok m0 = true -> csl_inv cfg (csl_init_on m0 par progs).
Proof.
  intros Hok. split.
  - intros _ i t Hn. cbn [csl_init_on csl_cl] in Hn. apply nth_error_In in Hn. apply in_map_iff in Hn.
    destruct Hn as [p [<- _]]. reflexivity.
  - intros f [x [Hx Hd]]. left. cbn [csl_init_on csl_m] in *.
    unfold csl_mem_ok in Hok. rewrite forallb_forall in Hok.
    assert (Hin : In f (seq 0 (length (c_futs m0)))). { apply in_seq. pose proof (c_get_lt _ _ _ Hx). lia. }
    specialize (Hok f Hin). unfold cs_fdone in Hok. rewrite Hx, Hd in Hok.
    apply existsb_exists in Hok. destruct Hok as [g [Hg He]]. apply Nat.eqb_eq in He. subst. exact Hg.
Qed.

Lemma csl_wk_length_step cfg s it s' ev : csl_step cfg s it = Some (s', ev) -> length (csl_wk s') = length (csl_wk s).
Proof.
  destruct it as [i|i pick v e| |dt]; cbn [csl_step]; intros H.
  - destruct (nth_error (csl_cl s) i); [|discriminate]. destruct (csl_cblocked cfg s c); [discriminate|]. inversion H; reflexivity.
  - destruct (nth_error (csl_wk s) i); [|discriminate]. destruct (csl_wstep cfg s c pick v e) as [[[? ?] ?]|]; [|discriminate].
    inversion H; subst. cbn. apply csl_upd_length.
  - inversion H; reflexivity.
  - destruct (Z.ltb dt 0); [discriminate|]. inversion H; reflexivity.
Qed.
Lemma csl_wk_length_run cfg run : forall s s', csl_run cfg s run = Some s' -> length (csl_wk s') = length (csl_wk s).
Proof.
  induction run as [|it r IH]; intros s s' H; cbn [csl_run] in H; [inversion H; reflexivity|].
  destruct (csl_step cfg s it) as [[s1 ev]|] eqn:Hs; [|discriminate].
  rewrite (IH _ _ H). eapply csl_wk_length_step; eauto.
Qed.

(* ================================================================== deadlock freedom *)
Lemma csl_enabled_client cfg s i t :
  nth_error (csl_cl s) i = Some t -> csl_cblocked cfg s t = false -> csl_enabled cfg s (CslC i) = true.
Proof. intros Hn Hb. unfold csl_enabled. cbn [csl_step]. rewrite Hn, Hb. reflexivity. Qed.

Lemma csl_enabled_worker cfg s i w pick v e r :
  nth_error (csl_wk s) i = Some w -> csl_wstep cfg s w pick v e = Some r -> csl_enabled cfg s (CslW i pick v e) = true.
Proof. intros Hn Hw. unfold csl_enabled. cbn [csl_step]. rewrite Hn, Hw. destruct r as [[? ?] ?]. reflexivity. Qed.

Lemma csl_existsb_false_nth {A} (p : A -> bool) l : (forall i x, nth_error l i = Some x -> p x = false) -> existsb p l = false.
Proof.
  intros H. apply not_true_is_false. intros He. apply existsb_exists in He. destruct He as [x [Hin Hp]].
  apply In_nth_error in Hin. destruct Hin as [i Hi]. rewrite (H i x Hi) in Hp. discriminate.
Qed.

Lemma csl_flat_in_nth {A} (g : A -> list nat) l f : In f (flat_map g l) -> exists i x, nth_error l i = Some x /\ In f (g x).
Proof.
  intros H. apply in_flat_map in H. destruct H as [x [Hin Hf]]. apply In_nth_error in Hin. destruct Hin as [i Hi].
  exists i, x. auto.
Qed.

(* a state in which no thread can move is completely finished (current send order) *)
Lemma csl_stuck_finished cfg s :
  csl_ord cfg = CslFixed -> 1 <= csl_cap cfg -> 1 <= length (csl_wk s) -> csl_inv cfg s ->
  (forall it, csl_is_thread it = true -> csl_enabled cfg s it = false) ->
  csl_pending s = false /\ csl_quiet s = true /\ csl_tk s = false.
Proof.
  intros Hord Hcap Hpar [Hl Ht] Hstuck.
  (* every client is blocked, no worker can step *)
  assert (HC : forall i t, nth_error (csl_cl s) i = Some t -> csl_cblocked cfg s t = true).
  { intros i t Hn. destruct (csl_cblocked cfg s t) eqn:Hb; [reflexivity|].
    specialize (Hstuck (CslC i) eq_refl). rewrite (csl_enabled_client cfg s i t Hn Hb) in Hstuck. discriminate. }
  assert (HW : forall i w pick, nth_error (csl_wk s) i = Some w -> csl_wstep cfg s w pick 0%Z 0%Z = None).
  { intros i w pick Hn. destruct (csl_wstep cfg s w pick 0%Z 0%Z) as [r|] eqn:Hw; [|reflexivity].
    specialize (Hstuck (CslW i pick 0%Z 0%Z) eq_refl). rewrite (csl_enabled_worker cfg s i w pick _ _ r Hn Hw) in Hstuck. discriminate. }
  (* nobody holds a shard mutex *)
  assert (HnoC : forall i t, nth_error (csl_cl s) i = Some t -> csl_pc_key (lt_pc t) = None).
  { intros i t Hn. specialize (HC i t Hn). specialize (Hl Hord i t Hn). unfold csl_cblocked in HC.
    destruct (lt_pc t); try reflexivity; try discriminate. }
  assert (HnoW : forall i w, nth_error (csl_wk s) i = Some w -> forall sh, csl_wpc_holds sh w = false).
  { intros i w Hn sh. specialize (HW i w false Hn). destruct w; try reflexivity; cbn [csl_wstep] in HW; try discriminate.
    destruct (cs_fdone (csl_m s) f) as [[[? ?] ?]|]; discriminate. }
  assert (HL : forall sh, csl_locked cfg s sh = false).
  { intros sh. unfold csl_locked. apply orb_false_intro; apply csl_existsb_false_nth.
    - intros i t Hn. unfold csl_pc_holds. rewrite (HnoC i t Hn). reflexivity.
    - intros i w Hn. eapply HnoW; eauto. }
  (* every worker is in select *)
  assert (HS : forall i w, nth_error (csl_wk s) i = Some w -> w = CslWSel).
  { intros i w Hn. pose proof (HW i w false Hn) as H. destruct w; try reflexivity; cbn [csl_wstep] in H; try discriminate.
    - rewrite HL in H. discriminate.
    - destruct (cs_fdone (csl_m s) f) as [[[? ?] ?]|]; discriminate. }
  destruct (csl_wk s) as [|w0 ws] eqn:Hwk; [cbn in Hpar; lia|].
  assert (Hw0 : w0 = CslWSel) by (apply (HS 0 w0); reflexivity). subst w0.
  assert (Hq : c_queue (csl_m s) = []).
  { pose proof (HW 0 CslWSel false eq_refl) as H. cbn [csl_wstep] in H. destruct (c_queue (csl_m s)); [reflexivity|discriminate]. }
  assert (Htk : csl_tk s = false).
  { pose proof (HW 0 CslWSel true eq_refl) as H. cbn [csl_wstep] in H. destruct (csl_tk s); [discriminate|reflexivity]. }
  assert (Hnow : forall f, ~ In f (flat_map csl_wjob (CslWSel :: ws))).
  { intros f H. apply csl_flat_in_nth in H. destruct H as [i [w [Hn Hin]]]. rewrite (HS i w Hn) in Hin. destruct Hin. }
  assert (Hnofull : csl_full cfg (csl_m s) = false).
  { unfold csl_full. rewrite Hq. cbn [length]. apply Nat.leb_gt. lia. }
  (* no future is loading *)
  assert (Hnold : forall f, ~ csl_loading (csl_m s) f).
  { intros f Hld. destruct (Ht f Hld) as [H|[H|H]].
    - rewrite Hq in H. destruct H.
    - rewrite Hwk in H. exact (Hnow f H).
    - apply csl_flat_in_nth in H. destruct H as [i [t [Hn Hin]]]. specialize (HC i t Hn). specialize (Hl Hord i t Hn).
      unfold csl_cjob, csl_pcjob in Hin. unfold csl_cblocked in HC.
      destruct (lt_pc t) as [|k|k|k f0|k f0 past|k r n|r [n|]|r n|k|k|k f0|k f0 past| |x|w k f0|w k f0 p|w k f0 p past|w x
                  |k v e|k v e|k v e now|k v e now| ]; try (destruct Hin; fail); try discriminate.
      rewrite Hnofull in HC. discriminate. }
  assert (Hcomp : forall f, csl_complete s f = true).
  { intros f. unfold csl_complete. destruct (c_get (c_futs (csl_m s)) f) as [x|] eqn:Hx; [|reflexivity].
    destruct (c_fdone x) eqn:Hd; [|exfalso; apply (Hnold f); exists x; auto].
    rewrite Hwk. cbn [existsb csl_wsp_of orb]. rewrite csl_existsb_false_nth; [reflexivity|].
    intros i w Hn. rewrite (HS (S i) w); [reflexivity|]. exact Hn. }
  (* every client has finished its program *)
  assert (Hdone : forall i t, nth_error (csl_cl s) i = Some t -> csl_client_done t = true).
  { intros i t Hn. specialize (HC i t Hn). specialize (Hl Hord i t Hn). unfold csl_cblocked in HC. unfold csl_client_done.
    destruct (lt_pc t); try discriminate.
    - destruct (lt_prog t); [reflexivity|discriminate].
    - rewrite HL in HC. discriminate.
    - rewrite Hnofull in HC. discriminate.
    - rewrite HL in HC. discriminate.
    - rewrite Hcomp in HC. discriminate.
    - rewrite HL in HC. discriminate. }
  assert (Hall : forallb csl_client_done (csl_cl s) = true).
  { apply forallb_forall. intros t Hin. apply In_nth_error in Hin. destruct Hin as [i Hi]. eapply Hdone; eauto. }
  split; [|split].
  - unfold csl_pending. rewrite Hall. cbn [negb orb]. apply negb_false_iff. apply forallb_forall. intros f _. apply Hcomp.
  - unfold csl_quiet. rewrite Hall, Hwk, Hq. cbn [length Nat.eqb andb forallb csl_worker_idle].
    rewrite andb_true_r. apply forallb_forall. intros w Hin. apply In_nth_error in Hin. destruct Hin as [i Hi].
    rewrite (HS (S i) w); [reflexivity|exact Hi].
  - exact Htk.
Qed.

(* ---- the boolean stuck test *)
Lemma csl_wstep_result_free cfg s w pick v e :
  csl_wstep cfg s w pick 0%Z 0%Z = None -> csl_wstep cfg s w pick v e = None.
Proof.
  unfold csl_wstep. destruct w; try discriminate; auto.
Qed.

Lemma csl_thread_items_thread s it : In it (csl_thread_items s) -> csl_is_thread it = true.
Proof.
  unfold csl_thread_items. intros H. apply in_app_or in H. destruct H as [H|H].
  - apply in_map_iff in H. destruct H as [i [<- _]]. reflexivity.
  - apply in_flat_map in H. destruct H as [i [_ [<-|[<-|[]]]]]; reflexivity.
Qed.

Lemma csl_stuck_spec cfg s :
  csl_stuck cfg s = true -> forall it, csl_is_thread it = true -> csl_enabled cfg s it = false.
Proof.
  intros H it Hit. unfold csl_stuck in H. rewrite forallb_forall in H.
  destruct it as [i|i pick v e| |dt]; try discriminate.
  - destruct (Nat.lt_ge_cases i (length (csl_cl s))) as [Hlt|Hge].
    + assert (Hin : In (CslC i) (csl_thread_items s)).
      { unfold csl_thread_items. apply in_or_app. left. apply in_map. apply in_seq. lia. }
      specialize (H _ Hin). apply negb_true_iff in H. exact H.
    + unfold csl_enabled. cbn [csl_step]. apply nth_error_None in Hge. rewrite Hge. reflexivity.
  - destruct (Nat.lt_ge_cases i (length (csl_wk s))) as [Hlt|Hge].
    + assert (Hin : In (CslW i pick 0%Z 0%Z) (csl_thread_items s)).
      { unfold csl_thread_items. apply in_or_app. right. apply in_flat_map. exists i. split; [apply in_seq; lia|].
        destruct pick; cbn; auto. }
      specialize (H _ Hin). apply negb_true_iff in H. unfold csl_enabled in *. cbn [csl_step] in *.
      destruct (nth_error (csl_wk s) i) as [w|]; [|reflexivity].
      destruct (csl_wstep cfg s w pick 0%Z 0%Z) as [[[? ?] ?]|] eqn:Hw; [discriminate|].
      rewrite (csl_wstep_result_free cfg s w pick v e Hw). reflexivity.
    + unfold csl_enabled. cbn [csl_step]. apply nth_error_None in Hge. rewrite Hge. reflexivity.
Qed.

Lemma csl_forallb_false_in {A} (p : A -> bool) l : forallb p l = false -> exists x, In x l /\ p x = false.
Proof.
  induction l as [|a r IH]; cbn; [discriminate|]. destruct (p a) eqn:E; cbn.
  - intros H. destruct (IH H) as [x [Hi Hp]]. exists x. auto.
  - intros _. exists a. auto.
Qed.

(* every reachable state with a call that has not returned or an unresolved future has an enabled thread *)
Lemma csl_reachable_no_deadlock cfg m0 par progs history s :
  csl_ord cfg = CslFixed -> 1 <= csl_cap cfg -> 1 <= par -> csl_mem_ok m0 = true ->
  csl_run cfg (csl_init_on m0 par progs) history = Some s ->
  csl_pending s = true ->
  exists it, csl_is_thread it = true /\ csl_enabled cfg s it = true.
Proof.
  intros Hord Hcap Hpar Hok Hrun Hp.
  assert (Hinv : csl_inv cfg s) by (eapply csl_inv_run; [apply csl_inv_init; exact Hok|exact Hrun]).
  assert (Hw : 1 <= length (csl_wk s)).
  { rewrite (csl_wk_length_run _ _ _ _ Hrun). cbn [csl_init_on csl_wk]. rewrite repeat_length. exact Hpar. }
  destruct (csl_stuck cfg s) eqn:Hst.
  - destruct (csl_stuck_finished cfg s Hord Hcap Hw Hinv (csl_stuck_spec cfg s Hst)) as [H _]. congruence.
  - unfold csl_stuck in Hst. apply csl_forallb_false_in in Hst. destruct Hst as [it [Hin He]].
    exists it. split; [eapply csl_thread_items_thread; eauto|]. apply negb_false_iff in He. exact He.
Qed.

(* maximal runs: between ticker firings at most measure-many thread steps; when no thread can move
   every call has returned, every future is resolved, the channel is empty, the workers are in
   select and no tick is pending *)
Lemma csl_all_complete cfg m0 par progs prefix run s0 s :
  csl_ord cfg = CslFixed -> 1 <= csl_cap cfg -> 1 <= par -> csl_mem_ok m0 = true ->
  csl_run cfg (csl_init_on m0 par progs) prefix = Some s0 ->
  forallb (fun it => negb (csl_is_tick it)) run = true ->
  csl_run cfg s0 run = Some s ->
  csl_nthreads run <= csl_measure cfg s0 /\
  ((forall it, csl_is_thread it = true -> csl_enabled cfg s it = false) ->
   csl_pending s = false /\ csl_quiet s = true /\ csl_tk s = false).
Proof.
  intros Hord Hcap Hpar Hok Hpre Hnt Hrun. split.
  - pose proof (csl_run_bounded cfg run s0 s Hnt Hrun). lia.
  - intros Hstuck.
    assert (Hinv : csl_inv cfg s).
    { eapply csl_inv_run; [|exact Hrun]. eapply csl_inv_run; [apply csl_inv_init; exact Hok|exact Hpre]. }
    assert (Hw : 1 <= length (csl_wk s)).
    { rewrite (csl_wk_length_run _ _ _ _ Hrun), (csl_wk_length_run _ _ _ _ Hpre). cbn [csl_init_on csl_wk].
      rewrite repeat_length. exact Hpar. }
    exact (csl_stuck_finished cfg s Hord Hcap Hw Hinv Hstuck).
Qed.

(* ================================================================== the old send order deadlocks *)
Definition csl_orig_cfg : csl_cfg :=
  {| csl_ord := CslOrig; csl_cap := 1; csl_nsh := 1; csl_exp := {| c_normE := 3600; c_errE := 1200 |} |}.
Definition csl_orig_progs : list (list csl_op) := [[CslLoad 0]; [CslLoad 1]; [CslLoad 2]].
(* client 0 completes its Load (the channel is full now); client 1 creates its entry and parks
   before sendJob holding the shard mutex; client 2 parks before Lock(); the ticker fires; the
   only worker takes the tick branch and parks before Lock() of the shard *)
Definition csl_orig_witness : list csl_item :=
  [CslC 0; CslC 0; CslC 0; CslC 0; CslC 0; CslC 1; CslC 1; CslC 1; CslC 2; CslTick; CslW 0 true 0%Z 0%Z].

Lemma csl_orig_deadlock :
  exists s, csl_run csl_orig_cfg (csl_init 1 csl_orig_progs) csl_orig_witness = Some s /\
    (forall it, csl_is_thread it = true -> csl_step csl_orig_cfg s it = None) /\
    option_map lt_pc (nth_error (csl_cl s) 1) = Some (CslLSH 1 1 1) /\
    length (c_queue (csl_m s)) = 1 /\ csl_pending s = true.
Proof.
  eexists. split; [vm_compute; reflexivity|]. split.
  - intros it Hit. match goal with |- csl_step ?c ?s it = None =>
      assert (Hst : csl_stuck c s = true) by (vm_compute; reflexivity);
      pose proof (csl_stuck_spec c s Hst it Hit) as He; unfold csl_enabled in He;
      destruct (csl_step c s it); [discriminate|reflexivity] end.
  - vm_compute. repeat split.
Qed.

(* ================================================================== future ids are never dangling *)
Definition csl_pc_ids (pc : csl_pc) : list nat :=
  match pc with
  | CslLLU _ f | CslLRE _ f _ | CslGLU _ f | CslGRE _ f _ | CslRLP _ _ f | CslGFW f | CslXAU _ f => [f]
  | CslLSH _ r n | CslLSJ r n | CslLAU r (Some n) => [r; n]
  | CslLAU r None => [r]
  | CslRPU _ _ f p | CslRPE _ _ f p _ => [f; p]
  | _ => []
  end.

Definition csl_mvalid (m : c_state) : Prop :=
  (forall k f, c_lookup (c_map m) k = Some f -> f < length (c_futs m)) /\
  (forall f p, cs_fpred m f = Some p -> p < length (c_futs m)).

Definition csl_tvalid (L : nat) (t : csl_thread) : Prop :=
  (forall f, In f (csl_pc_ids (lt_pc t)) -> f < L) /\ (forall x, lt_last t = Some x -> x < L).

Definition csl_valid (s : csl_state) : Prop :=
  csl_mvalid (csl_m s) /\ forall i t, nth_error (csl_cl s) i = Some t -> csl_tvalid (length (c_futs (csl_m s))) t.

Lemma csl_mvalid_new_entry m k pred :
  csl_mvalid m -> (forall p, pred = Some p -> p < length (c_futs m)) -> csl_mvalid (cs_new_entry m k pred).
Proof.
  intros [Hm Hp] Hpred. split; cbn [cs_new_entry cs_with c_map c_futs]; rewrite app_length; cbn [length].
  - intros k' f. rewrite c_lookup_update. destruct (Z.eqb k k'); [intros H; inversion H; lia|].
    intros H. specialize (Hm _ _ H). lia.
  - intros f p. unfold cs_fpred. cbn [c_futs cs_with].
    match goal with |- context [c_get ?l f] => destruct (c_get l f) as [y|] eqn:Hy end; [|discriminate].
    apply c_get_app_inv in Hy. destruct Hy as [Hy|[_ ->]].
    + intros H. assert (cs_fpred m f = Some p) by (unfold cs_fpred; rewrite Hy; exact H). specialize (Hp _ _ H0). lia.
    + cbn [c_fpred]. intros H. specialize (Hpred _ H). lia.
Qed.

Lemma csl_mvalid_set_entry m k v e now : csl_mvalid m -> csl_mvalid (cs_set_entry m k v e now).
Proof.
  intros [Hm Hp]. split; cbn [cs_set_entry cs_with c_map c_futs]; rewrite app_length; cbn [length].
  - intros k' f. rewrite c_lookup_update. destruct (Z.eqb k k'); [intros H; inversion H; lia|].
    intros H. specialize (Hm _ _ H). lia.
  - intros f p. unfold cs_fpred. cbn [c_futs cs_with].
    match goal with |- context [c_get ?l f] => destruct (c_get l f) as [y|] eqn:Hy end; [|discriminate].
    apply c_get_app_inv in Hy. destruct Hy as [Hy|[_ ->]].
    + intros H. assert (cs_fpred m f = Some p) by (unfold cs_fpred; rewrite Hy; exact H). specialize (Hp _ _ H0). lia.
    + cbn [c_fpred]. discriminate.
Qed.

Lemma csl_mvalid_same m m' :
  c_futs m' = c_futs m -> (forall k f, c_lookup (c_map m') k = Some f -> c_lookup (c_map m) k = Some f) ->
  csl_mvalid m -> csl_mvalid m'.
Proof.
  intros Hf Hmap [Hm Hp]. split.
  - intros k f H. rewrite Hf. eapply Hm. eapply Hmap. exact H.
  - intros f p. unfold cs_fpred. rewrite Hf. apply Hp.
Qed.

Lemma csl_mvalid_store_done m f r : csl_mvalid m -> csl_mvalid (cs_store_done m f r) /\ length (c_futs (cs_store_done m f r)) = length (c_futs m).
Proof.
  intros [Hm Hp]. unfold cs_store_done. destruct (c_get (c_futs m) f) as [x|] eqn:Hx; [|split; [split; assumption|reflexivity]].
  pose proof (c_get_lt _ _ _ Hx) as Hlt. cbn [c_futs cs_with]. split; [|apply c_setfut_length; exact Hlt].
  split; cbn [c_map c_futs cs_with]; rewrite c_setfut_length by exact Hlt; [exact Hm|].
  intros g p. unfold cs_fpred. cbn [c_futs cs_with]. rewrite c_get_setfut by exact Hlt.
  destruct (Nat.eqb_spec g f) as [->|Hne].
  - cbn [c_fpred]. intros H. apply (Hp f p). unfold cs_fpred. rewrite Hx. exact H.
  - apply Hp.
Qed.

Lemma csl_mvalid_store_pred m f : csl_mvalid m -> csl_mvalid (cs_store_pred_nil m f) /\ length (c_futs (cs_store_pred_nil m f)) = length (c_futs m).
Proof.
  intros [Hm Hp]. unfold cs_store_pred_nil. destruct (c_get (c_futs m) f) as [x|] eqn:Hx; [|split; [split; assumption|reflexivity]].
  pose proof (c_get_lt _ _ _ Hx) as Hlt. cbn [c_futs cs_with]. split; [|apply c_setfut_length; exact Hlt].
  split; cbn [c_map c_futs cs_with]; rewrite c_setfut_length by exact Hlt; [exact Hm|].
  intros g p. unfold cs_fpred. cbn [c_futs cs_with]. rewrite c_get_setfut by exact Hlt.
  destruct (Nat.eqb_spec g f) as [->|Hne].
  - cbn [c_fpred]. discriminate.
  - apply Hp.
Qed.

(* one client step keeps the memory valid, never shrinks the arena, and leaves the thread with valid ids *)
Lemma csl_cstep_valid cfg m t :
  csl_mvalid m -> csl_tvalid (length (c_futs m)) t ->
  let r := csl_cstep cfg m t in
  csl_mvalid (lr_m r) /\ length (c_futs m) <= length (c_futs (lr_m r)) /\
  (forall f, In f (csl_pc_ids (lr_pc r)) -> f < length (c_futs (lr_m r))) /\
  (forall x, lr_last r = Some x -> x < length (c_futs (lr_m r))).
Proof.
  intros Hmv [Hids Hlast]. cbv zeta. pose proof Hmv as [Hmap Hpred].
  assert (Hc : forall k pred ret,
    (forall p, pred = Some p -> p < length (c_futs m)) -> (forall p, ret = Some p -> p < length (c_futs m)) ->
    let r := csl_create cfg m (lt_last t) k pred ret in
    csl_mvalid (lr_m r) /\ length (c_futs m) <= length (c_futs (lr_m r)) /\
    (forall f, In f (csl_pc_ids (lr_pc r)) -> f < length (c_futs (lr_m r))) /\
    (forall x, lr_last r = Some x -> x < length (c_futs (lr_m r)))).
  { intros k pred ret Hp Hr. cbv zeta. unfold csl_create.
    destruct (csl_ord cfg); cbn [lr_m lr_pc lr_last csl_park]; (split; [apply csl_mvalid_new_entry; assumption|]);
      cbn [cs_new_entry cs_with c_futs]; rewrite app_length; cbn [length csl_pc_ids]; (split; [lia|]);
      (split; [|intros x Hx; specialize (Hlast x Hx); lia]);
      intros f [<-|[<-|[]]]; try lia; destruct ret as [p|]; try lia; specialize (Hr p eq_refl); lia. }
  destruct t as [prog pc last]. unfold csl_cstep. cbn [lt_pc lt_prog lt_last] in *.
  assert (Hsame : forall pc' last', (forall f, In f (csl_pc_ids pc') -> f < length (c_futs m)) ->
            (forall x, last' = Some x -> x < length (c_futs m)) ->
            csl_mvalid m /\ length (c_futs m) <= length (c_futs m) /\
            (forall f, In f (csl_pc_ids pc') -> f < length (c_futs m)) /\ (forall x, last' = Some x -> x < length (c_futs m))).
  { intros pc' last' H1 H2. split; [exact Hmv|]. split; [lia|]. split; assumption. }
  destruct pc as [|k|k|k f|k f past|k r n|r next|r n|k|k|k f|k f past| |x|w k f|w k f p|w k f p past|w x
                  |k v e|k v e|k v e now|k v e now| ]; cbn [csl_pc_ids] in Hids.
  - destruct prog as [|[k|k|k v e| ] rest]; try (apply Hsame; [intros ? []|exact Hlast]).
    destruct last as [x|]; apply Hsame; try exact Hlast; [|intros ? []].
    intros f [<-|[]]. apply Hlast. reflexivity.
  - apply Hsame; [intros ? []|exact Hlast].
  - destruct (c_lookup (c_map m) k) as [f|] eqn:Hk.
    + apply Hsame; [|exact Hlast]. intros g [<-|[]]. eapply Hmap; eauto.
    + apply Hc; discriminate.
  - destruct (cs_fdone m f) as [[[? ?] ?]|]; (apply Hsame; [|exact Hlast]); intros g [<-|[]]; apply Hids; left; reflexivity.
  - destruct (cs_status_of (csl_exp cfg) past (cs_err_of m f)).
    + apply Hc; discriminate.
    + apply Hsame; [|exact Hlast]. intros g [<-|[]]; apply Hids; left; reflexivity.
    + apply Hc; intros p H; inversion H; subst; apply Hids; left; reflexivity.
    + apply Hc; discriminate.
  - cbn [lr_m lr_pc lr_last csl_park cs_enqueue cs_with c_futs csl_pc_ids].
    split; [eapply csl_mvalid_same; [reflexivity| |exact Hmv]; auto|]. split; [lia|]. split; [|exact Hlast].
    intros g [<-|[]]. apply Hids. left. reflexivity.
  - destruct next as [n|].
    + apply Hsame; [|exact Hlast]. intros g Hg. apply Hids. exact Hg.
    + apply Hsame; cbn [lr_pc lr_last csl_ret csl_pc_ids]; [intros ? []|].
      intros x Hx. inversion Hx; subst. apply Hids. left. reflexivity.
  - cbn [lr_m lr_pc lr_last csl_ret cs_enqueue cs_with c_futs csl_pc_ids].
    split; [eapply csl_mvalid_same; [reflexivity| |exact Hmv]; auto|]. split; [lia|]. split; [intros ? []|].
    intros x Hx. inversion Hx; subst. apply Hids. left. reflexivity.
  - apply Hsame; [intros ? []|exact Hlast].
  - destruct (c_lookup (c_map m) k) as [f|] eqn:Hk; (apply Hsame; [|exact Hlast]); [|intros ? []].
    intros g [<-|[]]. eapply Hmap; eauto.
  - destruct (cs_fdone m f) as [[[? ?] ?]|]; (apply Hsame; [|exact Hlast]); intros g [<-|[]]; apply Hids; left; reflexivity.
  - destruct (cs_status_of (csl_exp cfg) past (cs_err_of m f)); (apply Hsame; [|exact Hlast]); try (intros ? []; fail);
      intros g [<-|[]]; apply Hids; left; reflexivity.
  - apply Hsame; cbn [lr_pc lr_last csl_ret csl_pc_ids]; [intros ? []|exact Hlast].
  - destruct (cs_fdone m x) as [[[? ?] ?]|]; (apply Hsame; cbn [lr_pc lr_last csl_ret csl_pc_ids]; [intros ? []|exact Hlast]).
  - destruct (cs_fpred m f) as [p|] eqn:Hp; (apply Hsame; [|exact Hlast]).
    + intros g [<-|[<-|[]]]; [apply Hids; left; reflexivity|eapply Hpred; eauto].
    + intros g [<-|[]]. apply Hids; left; reflexivity.
  - destruct (cs_fdone m p) as [[[? ?] ?]|]; (apply Hsame; [|exact Hlast]).
    + intros g Hg. apply Hids. exact Hg.
    + intros g [<-|[]]. apply Hids; left; reflexivity.
  - destruct (cs_status_of (csl_exp cfg) past (cs_err_of m p)); (apply Hsame; [|exact Hlast]);
      intros g [<-|[]]; apply Hids; cbn; auto.
  - destruct w.
    + apply Hsame; [|exact Hlast]. intros g Hg. apply Hids. exact Hg.
    + apply Hsame; cbn [lr_pc lr_last csl_ret csl_pc_ids]; [intros ? []|].
      intros y Hy. inversion Hy; subst. apply Hids. left. reflexivity.
  - apply Hsame; [intros ? []|exact Hlast].
  - apply Hsame; [intros ? []|exact Hlast].
  - apply Hsame; [intros ? []|exact Hlast].
  - cbn [lr_m lr_pc lr_last csl_park csl_pc_ids]. split; [apply csl_mvalid_set_entry; exact Hmv|].
    cbn [cs_set_entry cs_with c_futs]. rewrite app_length. cbn [length]. split; [lia|]. split; [intros ? []|].
    intros x Hx. specialize (Hlast x Hx). lia.
  - apply Hsame; cbn [lr_pc lr_last csl_ret csl_pc_ids]; [intros ? []|exact Hlast].
Qed.

Lemma csl_wstep_valid cfg s w pick v e m' w' tk' :
  csl_wstep cfg s w pick v e = Some (m', w', tk') -> csl_mvalid (csl_m s) ->
  csl_mvalid m' /\ length (c_futs m') = length (c_futs (csl_m s)).
Proof.
  unfold csl_wstep. intros Hs Hmv.
  destruct w as [|f|f v0 e0 now|f v0 e0 now|j|j|j k f rest|j k f past rest|j].
  - destruct pick.
    + destruct (csl_tk s); [|discriminate]. inversion Hs; subst. auto.
    + destruct (c_queue (csl_m s)) as [|f q]; [discriminate|]. inversion Hs; subst. split; [|reflexivity].
      apply (csl_mvalid_same (csl_m s)); [reflexivity| |exact Hmv]. auto.
  - inversion Hs; subst. auto.
  - inversion Hs; subst. apply csl_mvalid_store_done. exact Hmv.
  - inversion Hs; subst. apply csl_mvalid_store_pred. exact Hmv.
  - destruct (csl_locked cfg s j); [discriminate|]. inversion Hs; subst. auto.
  - inversion Hs; subst. auto.
  - destruct (cs_fdone (csl_m s) f) as [[[? ?] u]|]; inversion Hs; subst; auto.
  - inversion Hs; subst. destruct (cs_status_of (csl_exp cfg) past (cs_err_of (csl_m s) f)); auto.
    split; [|reflexivity]. apply (csl_mvalid_same (csl_m s)); [reflexivity| |exact Hmv].
    intros k0 f0. cbn [c_map cs_with]. rewrite c_lookup_remove. destruct (Z.eqb k k0); [discriminate|auto].
  - inversion Hs; subst. auto.
Qed.

Lemma csl_tvalid_mono L L' t : L <= L' -> csl_tvalid L t -> csl_tvalid L' t.
Proof. intros Hle [H1 H2]. split; intros x Hx; [specialize (H1 x Hx)|specialize (H2 x Hx)]; lia. Qed.

Lemma csl_valid_step cfg s it s' ev : csl_valid s -> csl_step cfg s it = Some (s', ev) -> csl_valid s'.
Proof.
  intros [Hmv Htv] H. destruct it as [i|i pick v e| |dt]; cbn [csl_step] in H.
  - destruct (nth_error (csl_cl s) i) as [t|] eqn:Hn; [|discriminate].
    destruct (csl_cblocked cfg s t); [discriminate|]. inversion H; subst; clear H.
    destruct (csl_cstep_valid cfg (csl_m s) t Hmv (Htv i t Hn)) as [Hm' [Hle [Hids Hlast]]].
    split; [exact Hm'|]. intros j tj Hj. cbn [csl_cl csl_m] in *. rewrite csl_upd_nth in Hj.
    destruct (Nat.eqb j i).
    + rewrite Hn in Hj. inversion Hj; subst. split; [exact Hids|exact Hlast].
    + eapply csl_tvalid_mono; [exact Hle|]. eapply Htv; eauto.
  - destruct (nth_error (csl_wk s) i) as [w|] eqn:Hn; [|discriminate].
    destruct (csl_wstep cfg s w pick v e) as [[[m' w'] tk']|] eqn:Hw; [|discriminate]. inversion H; subst; clear H.
    destruct (csl_wstep_valid cfg s w pick v e m' w' tk' Hw Hmv) as [Hm' Hlen].
    split; [exact Hm'|]. cbn [csl_cl csl_m]. rewrite Hlen. exact Htv.
  - inversion H; subst; clear H. split; assumption.
  - destruct (Z.ltb dt 0); [discriminate|]. inversion H; subst; clear H. split; [|exact Htv].
    apply (csl_mvalid_same (csl_m s)); [reflexivity| |exact Hmv]. auto.
Qed.

Lemma csl_valid_run cfg run : forall s s', csl_valid s -> csl_run cfg s run = Some s' -> csl_valid s'.
Proof.
  induction run as [|it r IH]; intros s s' Hi H; cbn [csl_run] in H; [inversion H; subst; exact Hi|].
  destruct (csl_step cfg s it) as [[s1 ev]|] eqn:Hs; [|discriminate].
  eapply IH; [|exact H]. eapply csl_valid_step; eauto.
Qed.

Lemma csl_valid_init m0 par progs : csl_mvalid m0 -> csl_valid (csl_init_on m0 par progs).
Proof.
  intros Hm. split; [exact Hm|]. intros i t Hn. cbn [csl_init_on csl_cl] in Hn. apply nth_error_In in Hn.
  apply in_map_iff in Hn. destruct Hn as [p [<- _]]. split; [intros ? []|discriminate].
Qed.

Lemma csl_mvalid_init : csl_mvalid c_init.
Proof. split; [intros k f H; discriminate|]. intros f p. unfold cs_fpred, c_get. cbn. destruct f; discriminate. Qed.

(* in a reachable state a client waits only for futures of the arena: the "dangling id" branch of
   [csl_complete] never decides whether a waiter is enabled *)
Lemma csl_waiters_valid cfg m0 par progs history s i t x :
  csl_mvalid m0 -> csl_run cfg (csl_init_on m0 par progs) history = Some s ->
  nth_error (csl_cl s) i = Some t -> lt_pc t = CslGFW x ->
  exists y, c_get (c_futs (csl_m s)) x = Some y.
Proof.
  intros Hm Hrun Hn Hpc.
  destruct (csl_valid_run cfg history _ _ (csl_valid_init m0 par progs Hm) Hrun) as [_ Htv].
  destruct (Htv i t Hn) as [Hids _]. rewrite Hpc in Hids. specialize (Hids x (or_introl eq_refl)).
  unfold c_get. destruct (nth_error (c_futs (csl_m s)) x) eqn:E; [eauto|]. apply nth_error_None in E. lia.
Qed.
