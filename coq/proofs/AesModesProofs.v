(* AesModesProofs.v -- lemmas about models/AesModes.v: round trips, equality with the
   textbook definitions of AesSpec.v, aliasing. First for an abstract block function pair
   (Section), then for the FIPS-197 cipher of Aes.v. *)
From Got Require Import Base Aes AesModes AesSpec AesProofs.
Require Import NArith Nnat.
Local Open Scope nat_scope.

(* ---- slices and padding (no cipher involved) *)
Lemma aesm_data_length s : aesm_slice_ok s = true -> length (aesm_data s) = asl_len s.
Proof.
  unfold aesm_slice_ok, aesm_data. intros H. apply andb_true_iff in H. destruct H as [H1 H2].
  apply Nat.leb_le in H1, H2. rewrite firstn_length, skipn_length. lia.
Qed.

Lemma aesm_data_bytes s : aess_bytes (asl_arr s) -> aess_bytes (aesm_data s).
Proof. intros H. unfold aesm_data. apply aes_bytes_firstn, aes_bytes_skipn, H. Qed.

Lemma aesm_pad_byte n : 1 <= n <= 16 -> (N.of_nat n mod 256)%N = N.of_nat n.
Proof. intros H. apply N.mod_small. lia. Qed.

Lemma aesm_pad_len_range n : 1 <= 16 - n mod 16 <= 16.
Proof. pose proof (Nat.mod_upper_bound n 16). lia. Qed.

Lemma aesm_pkcs_pad_fst v s :
  fst (aesm_pkcs_pad v s) = aesm_data s ++ repeat (N.of_nat (16 - asl_len s mod 16)) (16 - asl_len s mod 16).
Proof.
  unfold aesm_pkcs_pad, aesm_block_size, aesm_append.
  rewrite aesm_pad_byte by apply aesm_pad_len_range.
  destruct v; [|reflexivity].
  match goal with |- context [if ?c then _ else _] => destruct c end; reflexivity.
Qed.

Lemma aesm_pkcs_pad_is_pkcs7 v s :
  aesm_slice_ok s = true -> fst (aesm_pkcs_pad v s) = aess_pkcs7 (aesm_data s).
Proof.
  intros H. rewrite aesm_pkcs_pad_fst. unfold aess_pkcs7. rewrite aesm_data_length by exact H. reflexivity.
Qed.

Lemma aesm_pkcs7_length p : length (aess_pkcs7 p) = 16 * (length p / 16 + 1).
Proof.
  unfold aess_pkcs7. rewrite app_length, repeat_length.
  pose proof (Nat.div_mod (length p) 16). pose proof (Nat.mod_upper_bound (length p) 16). lia.
Qed.

Lemma aesm_pkcs7_bytes p : aess_bytes p -> aess_bytes (aess_pkcs7 p).
Proof.
  intros H. unfold aess_pkcs7. apply aes_bytes_app. split; [exact H|].
  unfold aess_bytes. apply Forall_forall. intros x Hx. apply repeat_spec in Hx. subst x.
  pose proof (aesm_pad_len_range (length p)). lia.
Qed.

Lemma aesm_last_repeat (l : list N) x n : 1 <= n -> last (l ++ repeat x n) 0%N = x.
Proof.
  intros H. destruct n as [|m]; [lia|].
  replace (repeat x (S m)) with (repeat x m ++ [x]) by (symmetry; apply (repeat_cons m x)).
  rewrite app_assoc. apply last_last.
Qed.

(* trimming removes exactly what PKCS#7 padding added, whatever the data ends with *)
Lemma aesm_pkcs_trim_pad p : aesm_pkcs_trim (aess_pkcs7 p) = p.
Proof.
  unfold aesm_pkcs_trim, aess_pkcs7.
  pose proof (aesm_pad_len_range (length p)) as Hr.
  set (n := 16 - length p mod 16) in *.
  destruct (length (p ++ repeat (N.of_nat n) n)) eqn:Hl.
  - rewrite app_length, repeat_length in Hl. lia.
  - rewrite aesm_last_repeat by lia. rewrite nat_N_Z.
    rewrite app_length, repeat_length in Hl.
    replace (Z.of_nat (S n0) - Z.of_nat n)%Z with (Z.of_nat (length p)) by lia.
    destruct (Z.of_nat (length p) <? 0)%Z eqn:Hn; [lia|].
    rewrite Nat2Z.id. apply aes_firstn_app_exact. reflexivity.
Qed.

(* block chunking used to state the textbook equivalences *)
Lemma aesm_blocks_concat k l : length l = 16 * k -> concat (aes_blocks k l) = l.
Proof.
  revert l. induction k as [|k IH]; intros l H.
  - destruct l; [reflexivity | simpl in H; lia].
  - cbn [aes_blocks concat]. rewrite IH by (rewrite skipn_length; lia). apply firstn_skipn.
Qed.

Lemma aesm_blocks_full k l : length l = 16 * k -> aess_full_blocks (aes_blocks k l).
Proof.
  unfold aess_full_blocks. revert l. induction k as [|k IH]; intros l H; cbn [aes_blocks]; constructor.
  - rewrite firstn_length. lia.
  - apply IH. rewrite skipn_length. lia.
Qed.

(* CFB segmentation: 16-byte segments, the last one 1..16 bytes *)
Fixpoint aesm_segs (fuel : nat) (src : list N) : list (list N) :=
  match fuel with
  | O => []
  | S f => match src with
           | [] => []
           | _ => firstn 16 src :: aesm_segs f (skipn 16 src)
           end
  end.

Lemma aesm_segs_nil fuel : aesm_segs fuel [] = [].
Proof. destruct fuel; reflexivity. Qed.

Lemma aesm_segs_concat fuel src : length src <= 16 * fuel -> concat (aesm_segs fuel src) = src.
Proof.
  revert src. induction fuel as [|f IH]; intros src H.
  - destruct src; [reflexivity | simpl in H; lia].
  - destruct src as [|x src']; [reflexivity|].
    remember (x :: src') as src.
    replace (aesm_segs (S f) src) with (firstn 16 src :: aesm_segs f (skipn 16 src))
      by (rewrite Heqsrc; reflexivity).
    cbn [concat]. rewrite IH by (rewrite skipn_length; lia). apply firstn_skipn.
Qed.

Lemma aesm_segs_nonempty_rest fuel src :
  aesm_segs fuel (skipn 16 src) <> [] -> 16 < length src.
Proof.
  intros H. destruct (skipn 16 src) eqn:Hs.
  - rewrite aesm_segs_nil in H. congruence.
  - assert (Hl : length (skipn 16 src) = S (length l)) by (rewrite Hs; reflexivity).
    rewrite skipn_length in Hl. lia.
Qed.

Lemma aesm_segs_segments fuel src : aess_segments (aesm_segs fuel src).
Proof.
  unfold aess_segments. revert src. induction fuel as [|f IH]; intros src i Hi.
  - simpl in Hi. lia.
  - destruct src as [|x src']; [simpl in Hi; lia|].
    remember (x :: src') as src.
    assert (Hseg : aesm_segs (S f) src = firstn 16 src :: aesm_segs f (skipn 16 src))
      by (rewrite Heqsrc; reflexivity).
    rewrite Hseg in *. clear Hseg.
    destruct i as [|j].
    + cbn [nth length].
      destruct (aesm_segs f (skipn 16 src)) eqn:Hr.
      * cbn [length]. replace (1 <? 1) with false by reflexivity.
        rewrite firstn_length. subst src. cbn [length]. lia.
      * cbn [length]. replace (1 <? S (S (length l0))) with true by reflexivity.
        assert (16 < length src) by (apply (aesm_segs_nonempty_rest f); rewrite Hr; discriminate).
        rewrite firstn_length. lia.
    + cbn [nth length] in *.
      assert (Hj : j < length (aesm_segs f (skipn 16 src))) by lia.
      specialize (IH (skipn 16 src) j Hj).
      replace (S (S j) <? S (length (aesm_segs f (skipn 16 src))))
        with (S j <? length (aesm_segs f (skipn 16 src))) by reflexivity.
      exact IH.
Qed.

Section ModesProofs.
  Variables E D : list N -> list N.
  Hypothesis E_ok : forall b, aess_block b -> aess_block (E b).
  Hypothesis DE : forall b, aess_block b -> D (E b) = b.

  (* ---------------- CBC *)
  Lemma aesm_cbc_enc_nil fuel iv : aesm_cbc_encrypt_blocks E fuel iv [] = [].
  Proof. destruct fuel; reflexivity. Qed.

  Lemma aesm_cbc_enc_step fuel iv src :
    src <> [] ->
    aesm_cbc_encrypt_blocks E (S fuel) iv src =
    E (aes_xor_bytes (firstn 16 src) iv) ++
    aesm_cbc_encrypt_blocks E fuel (E (aes_xor_bytes (firstn 16 src) iv)) (skipn 16 src).
  Proof. destruct src; [congruence | reflexivity]. Qed.

  Lemma aesm_cbc_dec_step fuel iv src :
    src <> [] ->
    aesm_cbc_decrypt_blocks D (S fuel) iv src =
    aes_xor_bytes (D (firstn 16 src)) iv ++
    aesm_cbc_decrypt_blocks D fuel (firstn 16 src) (skipn 16 src).
  Proof. destruct src; [congruence | reflexivity]. Qed.

  Lemma aesm_nonempty_of_length {A} (l : list A) n : length l = S n -> l <> [].
  Proof. destruct l; simpl; congruence. Qed.

  Lemma aesm_first_block (src iv : list N) k :
    length src = 16 * S k -> aess_bytes src -> aess_block iv ->
    aess_block (aes_xor_bytes (firstn 16 src) iv).
  Proof.
    intros Hl Hb Hiv. apply aes_xor_block; [|exact Hiv]. split.
    - rewrite firstn_length. lia.
    - apply aes_bytes_firstn, Hb.
  Qed.

  Lemma aesm_cbc_blocks_roundtrip :
    forall k fuel fuel' iv src,
      length src = 16 * k -> k <= fuel -> k <= fuel' -> aess_block iv -> aess_bytes src ->
      aesm_cbc_decrypt_blocks D fuel' iv (aesm_cbc_encrypt_blocks E fuel iv src) = src /\
      length (aesm_cbc_encrypt_blocks E fuel iv src) = 16 * k /\
      aess_bytes (aesm_cbc_encrypt_blocks E fuel iv src).
  Proof.
    induction k as [|k IH]; intros fuel fuel' iv src Hl Hf Hf' Hiv Hb.
    - destruct src; [|simpl in Hl; lia]. rewrite aesm_cbc_enc_nil.
      split; [destruct fuel'; reflexivity|]. split; [reflexivity | constructor].
    - destruct fuel as [|f]; [lia|]. destruct fuel' as [|f']; [lia|].
      assert (Hne : src <> []) by (apply (aesm_nonempty_of_length _ (16 * k + 15)); lia).
      rewrite aesm_cbc_enc_step by exact Hne.
      pose proof (aesm_first_block src iv k Hl Hb Hiv) as Hx.
      set (x := aes_xor_bytes (firstn 16 src) iv) in *.
      pose proof (E_ok x Hx) as Hc. destruct Hc as [Hcl Hcb].
      assert (Hrl : length (skipn 16 src) = 16 * k) by (rewrite skipn_length; lia).
      assert (Hrb : aess_bytes (skipn 16 src)) by (apply aes_bytes_skipn, Hb).
      destruct (IH f f' (E x) (skipn 16 src) Hrl ltac:(lia) ltac:(lia) (conj Hcl Hcb) Hrb) as [IH1 [IH2 IH3]].
      split; [|split].
      + rewrite aesm_cbc_dec_step.
        2:{ apply (aesm_nonempty_of_length _ (15 + length (aesm_cbc_encrypt_blocks E f (E x) (skipn 16 src)))).
            rewrite app_length, Hcl. lia. }
        rewrite aes_firstn_app_exact by exact Hcl. rewrite aes_skipn_app_exact by exact Hcl.
        rewrite DE by exact Hx. rewrite IH1. unfold x.
        rewrite aes_xor_bytes_cancel.
        * apply firstn_skipn.
        * rewrite firstn_length. destruct Hiv as [Hivl _]. lia.
      + rewrite app_length, Hcl, IH2. lia.
      + apply aes_bytes_app. split; assumption.
  Qed.

  (* equality with the textbook recurrence *)
  Lemma aesm_cbc_blocks_spec :
    forall k fuel iv src,
      length src = 16 * k -> k <= fuel -> aess_block iv -> aess_bytes src ->
      exists cs, aesm_cbc_encrypt_blocks E fuel iv src = concat cs /\
                 aess_full_blocks cs /\
                 aess_cbc E iv (aes_blocks k src) cs.
  Proof.
    induction k as [|k IH]; intros fuel iv src Hl Hf Hiv Hb.
    - destruct src; [|simpl in Hl; lia]. exists []. rewrite aesm_cbc_enc_nil.
      split; [reflexivity|]. split; [constructor|]. split; [reflexivity|]. simpl. intros i Hi. lia.
    - destruct fuel as [|f]; [lia|].
      assert (Hne : src <> []) by (apply (aesm_nonempty_of_length _ (16 * k + 15)); lia).
      rewrite aesm_cbc_enc_step by exact Hne.
      pose proof (aesm_first_block src iv k Hl Hb Hiv) as Hx.
      set (x := aes_xor_bytes (firstn 16 src) iv) in *.
      pose proof (E_ok x Hx) as Hc.
      assert (Hrl : length (skipn 16 src) = 16 * k) by (rewrite skipn_length; lia).
      assert (Hrb : aess_bytes (skipn 16 src)) by (apply aes_bytes_skipn, Hb).
      destruct (IH f (E x) (skipn 16 src) Hrl ltac:(lia) Hc Hrb) as [cs [Hcs [Hfull [Hlen Hrec]]]].
      exists (E x :: cs). split; [cbn [concat]; rewrite Hcs; reflexivity|].
      split; [constructor; [exact (proj1 Hc) | exact Hfull]|].
      split; [cbn [aes_blocks length]; rewrite Hlen; reflexivity|].
      intros i Hi. cbn [aes_blocks length] in Hi.
      destruct i as [|j].
      + reflexivity.
      + cbn [aes_blocks nth]. apply Hrec. lia.
  Qed.

  (* ---------------- CFB *)
  Lemma aesm_cfb_nil fuel d next : aesm_cfb_stream E fuel d next [] = [].
  Proof. destruct fuel; reflexivity. Qed.

  Lemma aesm_cfb_step fuel d next src :
    src <> [] ->
    aesm_cfb_stream E (S fuel) d next src =
    let dst := aes_xor_bytes (firstn 16 src) (E next) in
    dst ++ aesm_cfb_stream E fuel d
            (aesm_copy_into next (if d then firstn 16 src else dst)) (skipn 16 src).
  Proof. destruct src; [congruence | reflexivity]. Qed.

  Lemma aesm_copy_block next chunk :
    aess_block next -> aess_bytes chunk -> length chunk <= 16 ->
    aess_block (aesm_copy_into next chunk).
  Proof.
    intros [Hl Hb] Hc Hlen. unfold aesm_copy_into. split.
    - rewrite app_length, skipn_length. lia.
    - apply aes_bytes_app. split; [exact Hc | apply aes_bytes_skipn, Hb].
  Qed.

  Lemma aesm_copy_full next chunk :
    length next = 16 -> length chunk = 16 -> aesm_copy_into next chunk = chunk.
  Proof.
    intros Hn Hc. unfold aesm_copy_into. rewrite skipn_all2 by lia. apply app_nil_r.
  Qed.

  Lemma aesm_cfb_roundtrip_stream :
    forall fuel next src,
      aess_block next -> aess_bytes src -> length src <= 16 * fuel ->
      aesm_cfb_stream E fuel true next (aesm_cfb_stream E fuel false next src) = src /\
      length (aesm_cfb_stream E fuel false next src) = length src /\
      aess_bytes (aesm_cfb_stream E fuel false next src).
  Proof.
    induction fuel as [|f IH]; intros next src Hn Hb Hl.
    - destruct src; [|simpl in Hl; lia]. split; [reflexivity|]. split; [reflexivity | constructor].
    - destruct src as [|x0 src0].
      { split; [reflexivity|]. split; [reflexivity | constructor]. }
      remember (x0 :: src0) as src.
      assert (Hne : src <> []) by (subst src; discriminate).
      assert (Hpos : 1 <= length src) by (subst src; simpl; lia).
      rewrite (aesm_cfb_step f false) by exact Hne. cbv zeta.
      pose proof (E_ok next Hn) as [Hol Hob].
      set (chunk := firstn 16 src) in *.
      set (dst := aes_xor_bytes chunk (E next)) in *.
      assert (Hcl : length chunk = Nat.min 16 (length src)) by (unfold chunk; apply firstn_length).
      assert (Hcb : aess_bytes chunk) by (unfold chunk; apply aes_bytes_firstn, Hb).
      assert (Hdl : length dst = length chunk) by (unfold dst; rewrite aes_xor_bytes_length; lia).
      assert (Hdb : aess_bytes dst) by (unfold dst; apply aes_xor_bytes_bytes; assumption).
      set (next' := aesm_copy_into next dst) in *.
      assert (Hn' : aess_block next') by (apply aesm_copy_block; [exact Hn | exact Hdb | lia]).
      assert (Hrb : aess_bytes (skipn 16 src)) by (apply aes_bytes_skipn, Hb).
      assert (Hrl : length (skipn 16 src) <= 16 * f) by (rewrite skipn_length; lia).
      destruct (IH next' (skipn 16 src) Hn' Hrb Hrl) as [IH1 [IH2 IH3]].
      set (rest := aesm_cfb_stream E f false next' (skipn 16 src)) in *.
      assert (Hsplit : firstn 16 (dst ++ rest) = dst /\ skipn 16 (dst ++ rest) = rest).
      { destruct (Nat.le_gt_cases 16 (length src)) as [Hge | Hlt].
        - split; [apply aes_firstn_app_exact | apply aes_skipn_app_exact]; lia.
        - assert (Hr0 : rest = []).
          { apply length_zero_iff_nil. rewrite IH2, skipn_length. lia. }
          rewrite Hr0, app_nil_r. split; [apply firstn_all2 | apply skipn_all2]; lia. }
      destruct Hsplit as [Hs1 Hs2].
      split; [|split].
      + rewrite (aesm_cfb_step f true).
        2:{ apply (aesm_nonempty_of_length _ (length dst - 1 + length rest)). rewrite app_length. lia. }
        cbv zeta. rewrite Hs1, Hs2. fold next'. rewrite IH1.
        unfold dst. rewrite aes_xor_bytes_cancel by lia. unfold chunk. apply firstn_skipn.
      + rewrite app_length, IH2, Hdl, Hcl, skipn_length. lia.
      + apply aes_bytes_app. split; assumption.
  Qed.

  Fixpoint aesm_cfb_blocks (fuel : nat) (next src : list N) : list (list N) :=
    match fuel with
    | O => []
    | S f =>
      match src with
      | [] => []
      | _ => let dst := aes_xor_bytes (firstn 16 src) (E next) in
             dst :: aesm_cfb_blocks f (aesm_copy_into next dst) (skipn 16 src)
      end
    end.

  Lemma aesm_cfb_blocks_concat fuel next src :
    aesm_cfb_stream E fuel false next src = concat (aesm_cfb_blocks fuel next src).
  Proof.
    revert next src. induction fuel as [|f IH]; intros next src; [reflexivity|].
    destruct src; [reflexivity|]. cbn [aesm_cfb_stream aesm_cfb_blocks concat]. rewrite IH. reflexivity.
  Qed.

  Lemma aesm_cfb_blocks_spec :
    forall fuel next src,
      aess_block next -> aess_bytes src ->
      aess_cfb E next (aesm_segs fuel src) (aesm_cfb_blocks fuel next src).
  Proof.
    unfold aess_cfb.
    induction fuel as [|f IH]; intros next src Hn Hb.
    - split; [reflexivity|]. simpl. intros i Hi. lia.
    - destruct src as [|x0 src0].
      { split; [reflexivity|]. simpl. intros i Hi. lia. }
      remember (x0 :: src0) as src.
      assert (Hs : aesm_segs (S f) src = firstn 16 src :: aesm_segs f (skipn 16 src))
        by (rewrite Heqsrc; reflexivity).
      assert (Hc : aesm_cfb_blocks (S f) next src =
                   aes_xor_bytes (firstn 16 src) (E next) ::
                   aesm_cfb_blocks f (aesm_copy_into next (aes_xor_bytes (firstn 16 src) (E next))) (skipn 16 src))
        by (rewrite Heqsrc; reflexivity).
      rewrite Hs, Hc. clear Hs Hc.
      pose proof (E_ok next Hn) as [Hol Hob].
      set (dst := aes_xor_bytes (firstn 16 src) (E next)) in *.
      assert (Hdb : aess_bytes dst) by (unfold dst; apply aes_xor_bytes_bytes; [apply aes_bytes_firstn, Hb | exact Hob]).
      assert (Hdl : length dst <= 16) by (unfold dst; rewrite aes_xor_bytes_length; lia).
      pose proof (aesm_copy_block next dst Hn Hdb Hdl) as Hn'.
      destruct (IH (aesm_copy_into next dst) (skipn 16 src) Hn' (aes_bytes_skipn 16 src Hb)) as [IHl IHr].
      split; [cbn [length]; rewrite IHl; reflexivity|].
      intros i Hi. destruct i as [|j]; [reflexivity|].
      cbn [length] in Hi. cbn [nth].
      assert (Hj : j < length (aesm_segs f (skipn 16 src))) by lia.
      assert (Hlong : 16 < length src).
      { apply (aesm_segs_nonempty_rest f). intros Hnil. rewrite Hnil in Hj. simpl in Hj. lia. }
      assert (Hfull : aesm_copy_into next dst = dst).
      { apply aesm_copy_full; [exact (proj1 Hn)|].
        unfold dst. rewrite aes_xor_bytes_length, firstn_length. lia. }
      rewrite Hfull in IHr |- *. apply IHr. exact Hj.
  Qed.

  (* ---------------- the two ciphers *)
  Definition aesm_args_valid (a : aesm_args) : Prop := aess_block (aa_iv a).

  Lemma aesm_iv_check a : aesm_args_valid a -> negb (length (aa_iv a) =? 16) = false.
  Proof. intros [Hl _]. rewrite Hl. reflexivity. Qed.

  Lemma aesm_cbc_encrypt_eq v a s :
    aa_mode a = AesmCBC -> aesm_args_valid a -> aesm_slice_ok s = true ->
    fst (aesm_encrypt E v a s) =
    Ok (aesm_cbc_encrypt_blocks E (length (aess_pkcs7 (aesm_data s))) (aa_iv a) (aess_pkcs7 (aesm_data s))).
  Proof.
    intros Hm Hv Hs. unfold aesm_encrypt. rewrite aesm_iv_check by exact Hv. rewrite Hm.
    pose proof (aesm_pkcs_pad_is_pkcs7 v s Hs) as Hp.
    destruct (aesm_pkcs_pad v s) as [padded arr']. simpl in Hp. subst padded.
    rewrite aesm_pkcs7_length.
    replace (16 * (length (aesm_data s) / 16 + 1) mod 16 =? 0) with true; [reflexivity|].
    symmetry. apply Nat.eqb_eq. rewrite Nat.mul_comm. apply Nat.mod_mul. lia.
  Qed.

  Lemma aesm_roundtrip_cbc v a s :
    aa_mode a = AesmCBC -> aesm_args_valid a -> aesm_slice_ok s = true -> aess_bytes (asl_arr s) ->
    exists ct, fst (aesm_encrypt E v a s) = Ok ct /\
               length ct = 16 * (length (aesm_data s) / 16 + 1) /\
               forall s', aesm_data s' = ct -> fst (aesm_decrypt E D a s') = Ok (aesm_data s).
  Proof.
    intros Hm Hv Hs Hb. rewrite aesm_cbc_encrypt_eq by assumption.
    set (p := aess_pkcs7 (aesm_data s)).
    assert (Hpl : length p = 16 * (length (aesm_data s) / 16 + 1)) by apply aesm_pkcs7_length.
    assert (Hpb : aess_bytes p) by (apply aesm_pkcs7_bytes, aesm_data_bytes, Hb).
    set (k := length (aesm_data s) / 16 + 1) in *.
    destruct (aesm_cbc_blocks_roundtrip k (length p) (16 * k) (aa_iv a) p Hpl ltac:(lia) ltac:(lia) Hv Hpb)
      as [Hrt [Hlen _]].
    eexists. split; [reflexivity|]. split; [exact Hlen|].
    intros s' Hs'. unfold aesm_decrypt. rewrite aesm_iv_check by exact Hv. rewrite Hm, Hs', Hlen.
    replace (16 * k mod 16 =? 0) with true
      by (symmetry; apply Nat.eqb_eq; rewrite Nat.mul_comm; apply Nat.mod_mul; lia).
    cbn [fst]. rewrite Hrt. unfold p. rewrite aesm_pkcs_trim_pad. reflexivity.
  Qed.

  Lemma aesm_cbc_is_standard v a s :
    aa_mode a = AesmCBC -> aesm_args_valid a -> aesm_slice_ok s = true -> aess_bytes (asl_arr s) ->
    exists ps cs,
      concat ps = aess_pkcs7 (aesm_data s) /\ aess_full_blocks ps /\
      aess_cbc E (aa_iv a) ps cs /\
      fst (aesm_encrypt E v a s) = Ok (concat cs) /\
      length (concat cs) = 16 * (length (aesm_data s) / 16 + 1).
  Proof.
    intros Hm Hv Hs Hb. rewrite aesm_cbc_encrypt_eq by assumption.
    set (p := aess_pkcs7 (aesm_data s)).
    assert (Hpl : length p = 16 * (length (aesm_data s) / 16 + 1)) by apply aesm_pkcs7_length.
    assert (Hpb : aess_bytes p) by (apply aesm_pkcs7_bytes, aesm_data_bytes, Hb).
    set (k := length (aesm_data s) / 16 + 1) in *.
    destruct (aesm_cbc_blocks_spec k (length p) (aa_iv a) p Hpl ltac:(lia) Hv Hpb) as [cs [Hcs [Hfull Hspec]]].
    exists (aes_blocks k p), cs.
    split; [apply aesm_blocks_concat, Hpl|].
    split; [apply aesm_blocks_full, Hpl|].
    split; [exact Hspec|].
    split; [rewrite Hcs; reflexivity|].
    rewrite <- Hcs.
    apply (aesm_cbc_blocks_roundtrip k (length p) (length p) (aa_iv a) p Hpl ltac:(lia) ltac:(lia) Hv Hpb).
  Qed.

  Lemma aesm_roundtrip_cfb v a s :
    aa_mode a = AesmCFB -> aesm_args_valid a -> aess_bytes (asl_arr s) ->
    exists ct, fst (aesm_encrypt E v a s) = Ok ct /\
               length ct = length (aesm_data s) /\
               forall s', aesm_data s' = ct -> fst (aesm_decrypt E D a s') = Ok (aesm_data s).
  Proof.
    intros Hm Hv Hb. unfold aesm_encrypt. rewrite aesm_iv_check by exact Hv. rewrite Hm. cbn [fst].
    set (p := aesm_data s).
    assert (Hpb : aess_bytes p) by (apply aesm_data_bytes, Hb).
    destruct (aesm_cfb_roundtrip_stream (length p) (aa_iv a) p Hv Hpb ltac:(lia)) as [Hrt [Hlen _]].
    eexists. split; [reflexivity|]. split; [exact Hlen|].
    intros s' Hs'. unfold aesm_decrypt. rewrite aesm_iv_check by exact Hv. rewrite Hm, Hs', Hlen.
    cbn [fst]. rewrite Hrt. reflexivity.
  Qed.

  Lemma aesm_cfb_is_standard v a s :
    aa_mode a = AesmCFB -> aesm_args_valid a -> aess_bytes (asl_arr s) ->
    exists ps cs,
      concat ps = aesm_data s /\ aess_segments ps /\
      aess_cfb E (aa_iv a) ps cs /\
      fst (aesm_encrypt E v a s) = Ok (concat cs) /\
      length (concat cs) = length (aesm_data s).
  Proof.
    intros Hm Hv Hb. unfold aesm_encrypt. rewrite aesm_iv_check by exact Hv. rewrite Hm. cbn [fst].
    set (p := aesm_data s).
    assert (Hpb : aess_bytes p) by (apply aesm_data_bytes, Hb).
    exists (aesm_segs (length p) p), (aesm_cfb_blocks (length p) (aa_iv a) p).
    split; [apply aesm_segs_concat; lia|].
    split; [apply aesm_segs_segments|].
    split; [apply aesm_cfb_blocks_spec; assumption|].
    split; [rewrite aesm_cfb_blocks_concat; reflexivity|].
    rewrite <- aesm_cfb_blocks_concat.
    apply (aesm_cfb_roundtrip_stream (length p) (aa_iv a) p Hv Hpb). lia.
  Qed.
End ModesProofs.

(* ---- aliasing: no hypothesis on the cipher, the options, the slice or the capacity *)
Lemma aesm_encrypt_untouched E a s : snd (aesm_encrypt E AesmFixed a s) = asl_arr s.
Proof.
  unfold aesm_encrypt. destruct (negb (length (aa_iv a) =? 16)); [reflexivity|].
  destruct (aa_mode a); [|reflexivity].
  cbn [aesm_pkcs_pad]. destruct (_ mod 16 =? 0); reflexivity.
Qed.

Lemma aesm_decrypt_untouched E D a s : snd (aesm_decrypt E D a s) = asl_arr s.
Proof.
  unfold aesm_decrypt. destruct (negb (length (aa_iv a) =? 16)); [reflexivity|].
  destruct (aa_mode a); [|reflexivity].
  destruct (_ mod 16 =? 0); reflexivity.
Qed.

(* the pre-fix variant leaves the array alone exactly when the padding does not fit the capacity *)
Lemma aesm_encrypt_orig_untouched_nocap E a s :
  asl_cap s < asl_len s + (16 - asl_len s mod 16) ->
  snd (aesm_encrypt E AesmOrig a s) = asl_arr s.
Proof.
  intros Hc. unfold aesm_encrypt. destruct (negb (length (aa_iv a) =? 16)); [reflexivity|].
  destruct (aa_mode a); [|reflexivity].
  cbn [aesm_pkcs_pad]. unfold aesm_append, aesm_block_size. rewrite repeat_length.
  destruct (Nat.leb_spec (asl_len s + (16 - asl_len s mod 16)) (asl_cap s)); [lia|].
  destruct (_ mod 16 =? 0); reflexivity.
Qed.

(* ---- purity: the answer is a function of the block function, the selected mode and IV
   and the bytes of the slice; not of where the slice lives *)
Lemma aesm_encrypt_pure E v a s1 s2 :
  aesm_data s1 = aesm_data s2 -> asl_len s1 = asl_len s2 ->
  fst (aesm_encrypt E v a s1) = fst (aesm_encrypt E v a s2).
Proof.
  intros Hd Hl. unfold aesm_encrypt. destruct (negb (length (aa_iv a) =? 16)); [reflexivity|].
  destruct (aa_mode a).
  - pose proof (aesm_pkcs_pad_fst v s1) as H1. pose proof (aesm_pkcs_pad_fst v s2) as H2.
    destruct (aesm_pkcs_pad v s1) as [p1 a1], (aesm_pkcs_pad v s2) as [p2 a2]. cbn [fst] in *.
    rewrite Hd, Hl in H1. rewrite <- H2 in H1. subst p1.
    destruct (_ mod 16 =? 0); reflexivity.
  - cbn [fst]. rewrite Hd. reflexivity.
Qed.

Lemma aesm_decrypt_pure E D a s1 s2 :
  aesm_data s1 = aesm_data s2 ->
  fst (aesm_decrypt E D a s1) = fst (aesm_decrypt E D a s2).
Proof.
  intros Hd. unfold aesm_decrypt. rewrite Hd.
  destruct (negb (length (aa_iv a) =? 16)); [reflexivity|].
  destruct (aa_mode a); [destruct (_ mod 16 =? 0)|]; reflexivity.
Qed.

(* ---- the package API with the FIPS-197 cipher: the Section hypotheses are discharged
   by AesProofs.aes_cipher_block / aes_inv_cipher_cipher *)
Lemma aesm_new_cipher_inv key opts c :
  aesm_new_cipher key opts = Ok c ->
  aes_valid_key_len (length key) = true /\
  ac_rks c = aes_key_schedule key /\ ac_args c = aesm_args_of opts.
Proof.
  unfold aesm_new_cipher. destruct (aes_valid_key_len (length key)); [|discriminate].
  intros H. inversion H. subst c. auto.
Qed.

Section Api.
  Variables (key : list N) (opts : list aesm_option) (c : aesm_cipher).
  Hypothesis Hnew : aesm_new_cipher key opts = Ok c.
  Hypothesis Hkey : aess_bytes key.

  Let E := aes_encrypt_block key.
  Let D := aes_decrypt_block key.

  Lemma aesm_api_E_ok : forall b, aess_block b -> aess_block (E b).
  Proof.
    intros b Hb. destruct (aesm_new_cipher_inv _ _ _ Hnew) as [Hv _].
    apply aes_cipher_block; assumption.
  Qed.

  Lemma aesm_api_DE : forall b, aess_block b -> D (E b) = b.
  Proof.
    intros b Hb. destruct (aesm_new_cipher_inv _ _ _ Hnew) as [Hv _].
    apply aes_inv_cipher_cipher; assumption.
  Qed.

  Lemma aesm_api_encrypt_eq v s : aesm_api_encrypt v c s = aesm_encrypt E v (aesm_args_of opts) s.
  Proof.
    destruct (aesm_new_cipher_inv _ _ _ Hnew) as [_ [Hr Ha]].
    unfold aesm_api_encrypt, E, aes_encrypt_block. rewrite Hr, Ha. reflexivity.
  Qed.

  Lemma aesm_api_decrypt_eq s : aesm_api_decrypt c s = aesm_decrypt E D (aesm_args_of opts) s.
  Proof.
    destruct (aesm_new_cipher_inv _ _ _ Hnew) as [_ [Hr Ha]].
    unfold aesm_api_decrypt, E, D, aes_encrypt_block, aes_decrypt_block. rewrite Hr, Ha. reflexivity.
  Qed.

  Lemma aesm_api_roundtrip_cbc v s :
    aa_mode (aesm_args_of opts) = AesmCBC -> aess_block (aa_iv (aesm_args_of opts)) ->
    aesm_slice_ok s = true -> aess_bytes (asl_arr s) ->
    exists ct, fst (aesm_api_encrypt v c s) = Ok ct /\
               length ct = 16 * (length (aesm_data s) / 16 + 1) /\
               forall s', aesm_data s' = ct -> fst (aesm_api_decrypt c s') = Ok (aesm_data s).
  Proof.
    intros Hm Hiv Hs Hb. rewrite aesm_api_encrypt_eq.
    destruct (aesm_roundtrip_cbc E D aesm_api_E_ok aesm_api_DE v _ s Hm Hiv Hs Hb) as [ct [H1 [H2 H3]]].
    exists ct. split; [exact H1|]. split; [exact H2|].
    intros s' Hs'. rewrite aesm_api_decrypt_eq. apply H3, Hs'.
  Qed.

  Lemma aesm_api_roundtrip_cfb v s :
    aa_mode (aesm_args_of opts) = AesmCFB -> aess_block (aa_iv (aesm_args_of opts)) ->
    aess_bytes (asl_arr s) ->
    exists ct, fst (aesm_api_encrypt v c s) = Ok ct /\
               length ct = length (aesm_data s) /\
               forall s', aesm_data s' = ct -> fst (aesm_api_decrypt c s') = Ok (aesm_data s).
  Proof.
    intros Hm Hiv Hb. rewrite aesm_api_encrypt_eq.
    destruct (aesm_roundtrip_cfb E D aesm_api_E_ok aesm_api_DE v _ s Hm Hiv Hb) as [ct [H1 [H2 H3]]].
    exists ct. split; [exact H1|]. split; [exact H2|].
    intros s' Hs'. rewrite aesm_api_decrypt_eq. apply H3, Hs'.
  Qed.

  Lemma aesm_api_cbc_is_standard v s :
    aa_mode (aesm_args_of opts) = AesmCBC -> aess_block (aa_iv (aesm_args_of opts)) ->
    aesm_slice_ok s = true -> aess_bytes (asl_arr s) ->
    exists ps cs,
      concat ps = aess_pkcs7 (aesm_data s) /\ aess_full_blocks ps /\
      aess_cbc (aes_encrypt_block key) (aa_iv (aesm_args_of opts)) ps cs /\
      fst (aesm_api_encrypt v c s) = Ok (concat cs) /\
      length (concat cs) = 16 * (length (aesm_data s) / 16 + 1).
  Proof.
    intros Hm Hiv Hs Hb. rewrite aesm_api_encrypt_eq.
    exact (aesm_cbc_is_standard E D aesm_api_E_ok aesm_api_DE v _ s Hm Hiv Hs Hb).
  Qed.

  Lemma aesm_api_cfb_is_standard v s :
    aa_mode (aesm_args_of opts) = AesmCFB -> aess_block (aa_iv (aesm_args_of opts)) ->
    aess_bytes (asl_arr s) ->
    exists ps cs,
      concat ps = aesm_data s /\ aess_segments ps /\
      aess_cfb (aes_encrypt_block key) (aa_iv (aesm_args_of opts)) ps cs /\
      fst (aesm_api_encrypt v c s) = Ok (concat cs) /\
      length (concat cs) = length (aesm_data s).
  Proof.
    intros Hm Hiv Hb. rewrite aesm_api_encrypt_eq.
    exact (aesm_cfb_is_standard E D aesm_api_E_ok aesm_api_DE v _ s Hm Hiv Hb).
  Qed.
End Api.

Lemma aesm_api_untouched c s :
  snd (aesm_api_encrypt AesmFixed c s) = asl_arr s /\ snd (aesm_api_decrypt c s) = asl_arr s.
Proof. split; [apply aesm_encrypt_untouched | apply aesm_decrypt_untouched]. Qed.

Lemma aesm_api_pure v c s1 s2 :
  aesm_data s1 = aesm_data s2 -> asl_len s1 = asl_len s2 ->
  fst (aesm_api_encrypt v c s1) = fst (aesm_api_encrypt v c s2) /\
  fst (aesm_api_decrypt c s1) = fst (aesm_api_decrypt c s2).
Proof.
  intros Hd Hl. split; [apply aesm_encrypt_pure; assumption | apply aesm_decrypt_pure; assumption].
Qed.

(* mode and IV selection: options are applied left to right; the last mode option and the
   last non-empty IV win; defaults CBC and 00 01 .. 0f *)
Lemma aesm_args_of_snoc opts o :
  aesm_args_of (opts ++ [o]) = aesm_apply_option (aesm_args_of opts) o.
Proof. unfold aesm_args_of. rewrite fold_left_app. reflexivity. Qed.

Lemma aesm_args_of_selected opts :
  aa_mode (aesm_args_of opts) = aess_selected_mode opts /\
  aa_iv (aesm_args_of opts) = aess_selected_iv opts.
Proof.
  induction opts as [|o opts [IHm IHi]] using rev_ind; [split; reflexivity|].
  rewrite aesm_args_of_snoc. unfold aess_selected_mode, aess_selected_iv in *.
  rewrite rev_app_distr. cbn [rev app find].
  destruct o as [| |iv]; cbn [aesm_apply_option aess_is_mode aess_is_iv aa_mode aa_iv].
  - split; [reflexivity | exact IHi].
  - split; [reflexivity | exact IHi].
  - destruct iv as [|x iv]; cbn [aa_mode aa_iv]; split; try assumption; reflexivity.
Qed.
