(* AesModesProofs.v -- lemmas about models/AesModes.v *)
From Got Require Import Base Aes AesModes AesSpec AesProofs.
