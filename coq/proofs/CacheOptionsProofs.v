(* CacheOptionsProofs.v -- lemmas about models/CacheOptions.v *)
From Got Require Import Base Cache CacheOptions.
Local Open Scope Z_scope.

(* ---- createArguments *)
Lemma copt_default_ok : copt_ok copt_default.
Proof. unfold copt_ok, copt_default; cbn; lia. Qed.

Lemma copt_apply_ok : forall a o a', copt_ok a -> copt_apply a o = Some a' -> copt_ok a'.
Proof.
  intros a o a' Hok H. unfold copt_ok in *. destruct o as [num|normal err|size]; cbn in H.
  - destruct (0 <? num) eqn:E; inversion H; subst; cbn; try apply Z.ltb_lt in E; lia.
  - destruct (err <=? normal) eqn:E1; cbn in H; [|discriminate].
    destruct (0 <? err) eqn:E2; cbn in H; [|discriminate].
    inversion H; subst; cbn. apply Z.leb_le in E1. apply Z.ltb_lt in E2. lia.
  - destruct (0 <? size) eqn:E; cbn in H; [|discriminate].
    inversion H; subst; cbn. apply Z.ltb_lt in E. lia.
Qed.

Lemma copt_fold_ok : forall opts a a', copt_ok a -> copt_fold a opts = Some a' -> copt_ok a'.
Proof.
  induction opts as [|o r IH]; intros a a' Hok H; cbn in H.
  - inversion H; subst; exact Hok.
  - destruct (copt_apply a o) as [a1|] eqn:E; [|discriminate].
    eapply IH; [eapply copt_apply_ok; eauto|exact H].
Qed.

Lemma copt_create_ok : forall opts a, copt_create opts = Some a -> copt_ok a /\ c_cfg_ok (copt_cfg a).
Proof.
  intros opts a H. assert (Hok : copt_ok a) by (eapply copt_fold_ok; [apply copt_default_ok|exact H]).
  split; [exact Hok|]. unfold copt_ok in Hok. unfold c_cfg_ok, copt_cfg; cbn. lia.
Qed.

(* a field keeps its value through options that do not set it *)
Definition copt_is_expire (o : copt_option) : bool := match o with CoptExpire _ _ => true | _ => false end.
Definition copt_is_parallel (o : copt_option) : bool := match o with CoptParallel _ => true | _ => false end.
Definition copt_is_jcs (o : copt_option) : bool := match o with CoptJobChanSize _ => true | _ => false end.

Lemma copt_fold_keeps : forall opts a a', copt_fold a opts = Some a' ->
  (forallb (fun o => negb (copt_is_expire o)) opts = true -> copt_normE a' = copt_normE a /\ copt_errE a' = copt_errE a) /\
  (forallb (fun o => negb (copt_is_parallel o)) opts = true -> copt_parallel a' = copt_parallel a) /\
  (forallb (fun o => negb (copt_is_jcs o)) opts = true -> copt_jcs a' = copt_jcs a).
Proof.
  induction opts as [|o r IH]; intros a a' H; cbn in H.
  - inversion H; subst. repeat split.
  - destruct (copt_apply a o) as [a1|] eqn:E; [|discriminate].
    destruct (IH _ _ H) as (I1 & I2 & I3).
    assert (K : (copt_is_expire o = false -> copt_normE a1 = copt_normE a /\ copt_errE a1 = copt_errE a) /\
                (copt_is_parallel o = false -> copt_parallel a1 = copt_parallel a) /\
                (copt_is_jcs o = false -> copt_jcs a1 = copt_jcs a)).
    { destruct o as [num|normal err|size]; cbn in E.
      - destruct (0 <? num); inversion E; subst; cbn; repeat split; intros; try discriminate; reflexivity.
      - destruct (err <=? normal); cbn in E; [|discriminate]. destruct (0 <? err); cbn in E; [|discriminate].
        inversion E; subst; cbn; repeat split; intros; try discriminate; reflexivity.
      - destruct (0 <? size); cbn in E; [|discriminate].
        inversion E; subst; cbn; repeat split; intros; try discriminate; reflexivity. }
    destruct K as (K1 & K2 & K3).
    split; [|split]; cbn [forallb]; intros F; apply andb_prop in F; destruct F as [F1 F2];
      apply negb_true_iff in F1.
    + destruct (I1 F2) as [A B]. destruct (K1 F1) as [A' B']. split; congruence.
    + rewrite (I2 F2). exact (K2 F1).
    + rewrite (I3 F2). exact (K3 F1).
Qed.

Lemma copt_omitted_is_default : forall opts a, copt_create opts = Some a ->
  (forallb (fun o => negb (copt_is_expire o)) opts = true -> copt_normE a = 1000000000 /\ copt_errE a = 100000000) /\
  (forallb (fun o => negb (copt_is_parallel o)) opts = true -> copt_parallel a = 1) /\
  (forallb (fun o => negb (copt_is_jcs o)) opts = true -> copt_jcs a = 128).
Proof. intros opts a H. exact (copt_fold_keeps opts copt_default a H). Qed.

(* the last option of a kind wins: createArguments of opts ++ [o] *)
Lemma copt_fold_app : forall l1 l2 a, copt_fold a (l1 ++ l2) =
  match copt_fold a l1 with Some a1 => copt_fold a1 l2 | None => None end.
Proof.
  induction l1 as [|o r IH]; intros l2 a; cbn; [reflexivity|].
  destruct (copt_apply a o); [apply IH|reflexivity].
Qed.

(* ---- several caches in one process *)
Lemma mc_upd_length : forall l i x, length (mc_upd l i x) = length l.
Proof. induction l as [|y r IH]; intros [|j] x; cbn; try reflexivity. now rewrite IH. Qed.

Lemma mc_upd_same : forall l i x c, nth_error l i = Some c -> nth_error (mc_upd l i x) i = Some x.
Proof.
  induction l as [|y r IH]; intros [|j] x c H; cbn in *; try discriminate; [reflexivity|].
  eapply IH; eauto.
Qed.

Lemma mc_upd_other : forall l i j x, i <> j -> nth_error (mc_upd l i x) j = nth_error l j.
Proof.
  induction l as [|y r IH]; intros [|i] [|j] x Hne; cbn; try reflexivity; try congruence.
  apply IH. congruence.
Qed.

Lemma mc_run_app : forall e1 e2 s, mc_run s (e1 ++ e2) = mc_run (mc_run s e1) e2.
Proof. induction e1 as [|ev r IH]; intros; cbn; [reflexivity|apply IH]. Qed.

Lemma mc_step_now_nonneg : forall s ev, 0 <= mc_now s -> 0 <= mc_now (fst (mc_step s ev)).
Proof.
  intros s [opts|i ev|dt] H; cbn.
  - destruct (copt_create opts); cbn; exact H.
  - destruct (mc_is_advance ev); cbn; [exact H|]. destruct (nth_error (mc_caches s) i); cbn; exact H.
  - destruct (dt <? 0) eqn:E; cbn; [exact H|]. apply Z.ltb_ge in E. lia.
Qed.

Lemma mc_run_now_nonneg : forall evs s, 0 <= mc_now s -> 0 <= mc_now (mc_run s evs).
Proof. induction evs as [|ev r IH]; intros s H; cbn; [exact H|]. apply IH. now apply mc_step_now_nonneg. Qed.

(* one step of the process as seen by an existing cache i *)
Lemma mc_step_proj : forall s ev i c, nth_error (mc_caches s) i = Some c ->
  exists c', nth_error (mc_caches (fst (mc_step s ev))) i = Some c' /\
             mc_args c' = mc_args c /\
             mc_st c' = c_run (copt_cfg (mc_args c)) (mc_st c) (mc_proj i [ev]).
Proof.
  intros s ev i c H. destruct ev as [opts|j ev|dt]; cbn [mc_step mc_proj].
  - destruct (copt_create opts); cbn [fst mc_caches].
    + exists c. split; [|split; reflexivity].
      rewrite nth_error_app1; [exact H|]. apply nth_error_Some. congruence.
    + exists c. repeat split. exact H.
  - destruct (mc_is_advance ev) eqn:EA; cbn [negb andb fst].
    + rewrite Bool.andb_false_r. exists c. repeat split. exact H.
    + rewrite Bool.andb_true_r. destruct (Nat.eqb_spec j i) as [->|Hne].
      * rewrite H. cbn [fst mc_caches]. eexists. split; [eapply mc_upd_same; exact H|].
        split; reflexivity.
      * destruct (nth_error (mc_caches s) j) as [cj|]; cbn [fst mc_caches].
        -- exists c. split; [|split; reflexivity]. rewrite mc_upd_other; [exact H|exact Hne].
        -- exists c. repeat split. exact H.
  - destruct (dt <? 0) eqn:E; cbn [fst mc_caches].
    + exists c. repeat split. exact H.
    + eexists. split; [rewrite nth_error_map, H; reflexivity|]. split; reflexivity.
Qed.

Lemma mc_proj_cons : forall i ev r, mc_proj i (ev :: r) = mc_proj i [ev] ++ mc_proj i r.
Proof.
  intros i [opts|j ev|dt] r; cbn [mc_proj].
  - reflexivity.
  - destruct ((j =? i)%nat && negb (mc_is_advance ev))%bool; reflexivity.
  - destruct (dt <? 0); reflexivity.
Qed.

Lemma c_run_app : forall cfg e1 e2 s, c_run cfg s (e1 ++ e2) = c_run cfg (c_run cfg s e1) e2.
Proof. induction e1 as [|ev r IH]; intros; cbn; [reflexivity|apply IH]. Qed.

Lemma mc_run_proj : forall evs s i c, nth_error (mc_caches s) i = Some c ->
  exists c', nth_error (mc_caches (mc_run s evs)) i = Some c' /\
             mc_args c' = mc_args c /\
             mc_st c' = c_run (copt_cfg (mc_args c)) (mc_st c) (mc_proj i evs).
Proof.
  induction evs as [|ev r IH]; intros s i c H.
  - exists c. repeat split. exact H.
  - destruct (mc_step_proj s ev i c H) as (c1 & H1 & A1 & S1).
    destruct (IH (fst (mc_step s ev)) i c1 H1) as (c2 & H2 & A2 & S2).
    exists c2. cbn [mc_run]. split; [exact H2|]. split; [congruence|].
    rewrite mc_proj_cons, c_run_app, <- S1, <- A1. exact S2.
Qed.

Lemma mc_init_at_is_advance : forall cfg t, 0 <= t -> c_run cfg c_init [CAdvance t] = mc_init_at t.
Proof.
  intros cfg t H. cbn. destruct (t <? 0) eqn:E; [apply Z.ltb_lt in E; lia|]. reflexivity.
Qed.

(* the main statement: a cache created by NewCache(opts...) after ANY process history evs1 (other
   caches with any option lists, any calls on them, any option panics) and followed by ANY
   further process history evs2 has the arguments copt_create opts and is, at every moment, in
   the state of a lone cache with those arguments that saw only its own events *)
Lemma mc_isolation : forall evs1 opts evs2 a,
  copt_create opts = Some a ->
  let s1 := mc_run mc_init evs1 in
  let i := length (mc_caches s1) in
  let s := mc_run s1 (McNew opts :: evs2) in
  exists c, nth_error (mc_caches s) i = Some c /\
    mc_args c = a /\
    mc_st c = c_run (copt_cfg a) c_init (CAdvance (mc_now s1) :: mc_proj i evs2) /\
    (forall ev, mc_is_advance ev = false ->
       snd (mc_step s (McCall i ev)) =
       McOEv (snd (c_step (copt_cfg a) (c_run (copt_cfg a) c_init (CAdvance (mc_now s1) :: mc_proj i evs2)) ev))).
Proof.
  intros evs1 opts evs2 a Hc s1 i s.
  assert (Hn : 0 <= mc_now s1) by (apply mc_run_now_nonneg; cbn; lia).
  subst s. cbn [mc_run mc_step]. rewrite Hc. cbn [fst].
  set (s2 := {| mc_now := mc_now s1; mc_caches := mc_caches s1 ++ [{| mc_args := a; mc_st := mc_init_at (mc_now s1) |}] |}).
  assert (H0 : nth_error (mc_caches s2) i = Some {| mc_args := a; mc_st := mc_init_at (mc_now s1) |}).
  { subst s2 i. cbn [mc_caches]. rewrite nth_error_app2 by lia. now rewrite Nat.sub_diag. }
  destruct (mc_run_proj evs2 s2 i _ H0) as (c & H1 & A1 & S1). cbn [mc_args mc_st] in A1, S1.
  assert (S2 : mc_st c = c_run (copt_cfg a) c_init (CAdvance (mc_now s1) :: mc_proj i evs2)).
  { rewrite S1. change (CAdvance (mc_now s1) :: mc_proj i evs2) with ([CAdvance (mc_now s1)] ++ mc_proj i evs2).
    rewrite c_run_app, mc_init_at_is_advance by exact Hn. reflexivity. }
  exists c. split; [exact H1|]. split; [exact A1|]. split; [exact S2|].
  intros ev Hev. cbn [mc_step]. rewrite Hev, H1. cbn [snd]. rewrite A1, S2. reflexivity.
Qed.

(* two caches with equal option lists and equal own histories are in equal states whatever the rest
   of the process did: in particular the defaults of a cache do not depend on earlier caches *)
Lemma mc_config_independent : forall evs1 evs1' opts a,
  copt_create opts = Some a ->
  let s := mc_run (mc_run mc_init evs1) [McNew opts] in
  let s' := mc_run (mc_run mc_init evs1') [McNew opts] in
  (exists c, nth_error (mc_caches s) (length (mc_caches (mc_run mc_init evs1))) = Some c /\ mc_args c = a) /\
  (exists c', nth_error (mc_caches s') (length (mc_caches (mc_run mc_init evs1'))) = Some c' /\ mc_args c' = a).
Proof.
  intros evs1 evs1' opts a Hc. split.
  - destruct (mc_isolation evs1 opts [] a Hc) as (c & H & A & _). exists c. split; [exact H|exact A].
  - destruct (mc_isolation evs1' opts [] a Hc) as (c & H & A & _). exists c. split; [exact H|exact A].
Qed.
