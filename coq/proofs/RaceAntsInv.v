(* RaceAntsInv.v -- the invariant that relates a state of the ants step machine (models/AntsSteps.v) to
   the state of the vector-clock monitor (lib/Race.v) run on the labelled trace so far (models/RaceAnts.v),
   as a list of FACTS indexed by WHERE each task is (the ghost field att_owner, whose discipline is the
   structural invariant ast_inv of AntsStepsProofs.v):

     task t held by thread i (the client before the enqueue, the dispatcher running it)
                                   i knows the last write of ra_loc t and every read of it
     task t in taskChan            the message ra_tmsg t carries the last write and every read
     task t finished (wg.Done ran) ra_wg t carries the last write (nobody writes it again)
     task t dropped (Send on a closed pool): nothing, nobody touches it again
     t beyond the arena            never written, never read

   and the monitor-free description [ra_kind] of what a labelled step does to the owners (nine kinds).
   The generic step theorem [ra_minv_step] is here; the case analysis over the pcs is RaceAntsCases.v. *)
From Got Require Import Base ListAux Race RaceProofs RaceHB RaceHBProofs RaceMonLemmas RaceCacheMon.
From Got Require Import AntsSteps AntsStepsProofs RaceAnts.
Local Open Scope nat_scope.

(* where task t is, and whether wg.Done ran *)
Definition ra_own (s : ast_state) (t : nat) : option (ast_where * bool) :=
  option_map (fun x => (att_owner x, att_done x)) (nth_error (ast_tasks s) t).

Definition ra_issync (e : rc_ev) : bool := match e with RRead _ | RWrite _ => false | _ => true end.

Definition ra_same_len (s s' : ast_state) : Prop := length (ast_tasks s') = length (ast_tasks s).
Definition ra_same_but (s s' : ast_state) (t : nat) : Prop := forall t', t' <> t -> ra_own s' t' = ra_own s t'.
Definition ra_same (s s' : ast_state) : Prop := forall t', ra_own s' t' = ra_own s t'.

Inductive ra_kind (s : ast_state) (tid : nat) (s' : ast_state) (evs : list rc_ev) : Prop :=
| RkSync : forallb ra_issync evs = true -> ra_same_len s s' -> ra_same s s' -> ra_kind s tid s' evs
| RkNew : evs = [RWrite (ra_loc (length (ast_tasks s)))] ->
          length (ast_tasks s') = S (length (ast_tasks s)) ->
          ra_own s' (length (ast_tasks s)) = Some (AwThread tid, false) ->
          ra_same_but s s' (length (ast_tasks s)) -> ra_kind s tid s' evs
| RkGive t d : (* taskChan <- task *)
          evs = [RRel (ra_tmsg t)] -> ra_own s t = Some (AwThread tid, d) -> ra_own s' t = Some (AwChan, d) ->
          ra_same_len s s' -> ra_same_but s s' t -> ra_kind s tid s' evs
| RkDrop t d : (* Send on a closed pool *)
          evs = [] -> ra_own s t = Some (AwThread tid, d) -> ra_own s' t = Some (AwGone, d) ->
          ra_same_len s s' -> ra_same_but s s' t -> ra_kind s tid s' evs
| RkTake t d : (* task := <-taskChan *)
          evs = [RAcq (ra_tmsg t)] -> ra_own s t = Some (AwChan, d) -> ra_own s' t = Some (AwThread tid, d) ->
          ra_same_len s s' -> ra_same_but s s' t -> ra_kind s tid s' evs
| RkDone t d : (* wg.Done() *)
          evs = [RRel (ra_wg t)] -> ra_own s t = Some (AwThread tid, d) -> ra_own s' t = Some (AwGone, true) ->
          ra_same_len s s' -> ra_same_but s s' t -> ra_kind s tid s' evs
| RkWrite t d :
          evs = [RWrite (ra_loc t)] -> ra_own s t = Some (AwThread tid, d) ->
          ra_same_len s s' -> ra_same s s' -> ra_kind s tid s' evs
| RkRead t d :
          evs = [RRead (ra_loc t)] -> ra_own s t = Some (AwThread tid, d) ->
          ra_same_len s s' -> ra_same s s' -> ra_kind s tid s' evs
| RkGet t w : (* Get2: wg.Wait() returned; return my.result, my.err *)
          evs = [RAcq (ra_wg t); RRead (ra_loc t)] -> ra_own s t = Some (w, true) ->
          ra_same_len s s' -> ra_same s s' -> ra_kind s tid s' evs.

(* the fact about task t in place w with done flag d *)
Definition ra_fact (m : rc_mon) (t : nat) (w : ast_where) (d : bool) : Prop :=
  match w with
  | AwThread i => d = false /\ rm_K m i (ra_loc t) /\ rm_KR m i (ra_loc t)
  | AwChan => d = false /\ rm_P m (ra_tmsg t) (ra_loc t) /\ rm_PR m (ra_tmsg t) (ra_loc t)
  | AwGone => d = true -> rm_P m (ra_wg t) (ra_loc t)
  end.

Record ra_minv (s : ast_state) (m : rc_mon) : Prop := {
  rmi_nr : rc_raced m = false;
  rmi_fresh : forall x, length (ast_tasks s) <= x -> rc_Wc m (ra_loc x) = 0 /\ forall u, rc_R m (ra_loc x) u = 0;
  rmi_fact : forall t w d, ra_own s t = Some (w, d) -> ra_fact m t w d
}.

Lemma ra_own_lt s t p : ra_own s t = Some p -> t < length (ast_tasks s).
Proof. unfold ra_own. intros H. apply (ast_some_lt _ _ _ _ H). Qed.

Lemma ra_own_none s t : length (ast_tasks s) <= t -> ra_own s t = None.
Proof. intros H. unfold ra_own. apply nth_error_None in H. rewrite H. reflexivity. Qed.

Section Gen.
Variable N : nat.

(* a fact about t survives the events of any thread that neither write nor read ra_loc t *)
Lemma ra_fact_keep m tid evs t w d :
  ~ In (RWrite (ra_loc t)) evs -> ~ In (RRead (ra_loc t)) evs ->
  ra_fact m t w d -> ra_fact (rm_msteps N m tid evs) t w d.
Proof.
  intros Hw Hr. destruct w as [i| |]; cbn [ra_fact].
  - intros (Hd & Hk & Hkr). split; [exact Hd|]. split.
    + apply rm_msteps_K_keep; assumption.
    + apply rm_msteps_KR_keep; assumption.
  - intros (Hd & Hk & Hkr). split; [exact Hd|]. split.
    + apply rm_msteps_P_keep; assumption.
    + apply rm_msteps_PR_keep; assumption.
  - intros H Hd. apply rm_msteps_P_keep; [assumption|]. apply H. exact Hd.
Qed.

Lemma ra_sync_not_write evs x : forallb ra_issync evs = true -> ~ In (RWrite x) evs.
Proof. intros H Hi. rewrite forallb_forall in H. apply H in Hi. discriminate. Qed.
Lemma ra_sync_not_read evs x : forallb ra_issync evs = true -> ~ In (RRead x) evs.
Proof. intros H Hi. rewrite forallb_forall in H. apply H in Hi. discriminate. Qed.

Lemma ra_sync_raced evs : forall m tid, forallb ra_issync evs = true -> rc_raced (rm_msteps N m tid evs) = rc_raced m.
Proof.
  induction evs as [|e r IH]; intros m tid H; [reflexivity|]. cbn [forallb] in H. apply andb_prop in H.
  destruct H as [H1 H2]. rewrite rm_msteps_cons, IH by exact H2. apply rm_sync_raced.
  destruct e; try discriminate; exact I.
Qed.

Lemma ra_loc_inj t t' : ra_loc t = ra_loc t' -> t = t'.
Proof. unfold ra_loc. auto. Qed.

Ltac ra_nin := let H := fresh in unfold ra_loc; intros H; cbn [In] in H;
  repeat match goal with H : _ \/ _ |- _ => destruct H as [H|H] end;
  try contradiction; try discriminate;
  try (injection H as H; first [congruence | lia]).

Theorem ra_minv_step s tid s' evs m :
  ra_kind s tid s' evs -> ra_minv s m -> ra_minv s' (rm_msteps N m tid evs).
Proof.
  intros K [Inr Ifr Ifa].
  assert (Hfresh_keep : forall evs0, (forall x, length (ast_tasks s') <= x -> ~ In (RWrite (ra_loc x)) evs0 /\ ~ In (RRead (ra_loc x)) evs0) ->
            length (ast_tasks s) <= length (ast_tasks s') ->
            forall x, length (ast_tasks s') <= x ->
            rc_Wc (rm_msteps N m tid evs0) (ra_loc x) = 0 /\ forall u, rc_R (rm_msteps N m tid evs0) (ra_loc x) u = 0).
  { intros evs0 Hn Hle x Hx. destruct (Hn x Hx) as [A B]. destruct (Ifr x ltac:(lia)) as [C D]. split.
    - rewrite rm_msteps_Wc_keep by exact A. exact C.
    - intros u. rewrite rm_msteps_R_keep by exact B. apply D. }
  destruct K as [Hs Hl Hsame|He Hl Hnew Hbut|t d He Ho Ho' Hl Hbut|t d He Ho Ho' Hl Hbut|t d He Ho Ho' Hl Hbut
                |t d He Ho Ho' Hl Hbut|t d He Ho Hl Hsame|t d He Ho Hl Hsame|t w He Ho Hl Hsame];
    unfold ra_same_len, ra_same_but, ra_same in *.
  - (* sync *)
    constructor.
    + rewrite ra_sync_raced by exact Hs. exact Inr.
    + apply Hfresh_keep; [|lia]. intros x _. split; [apply ra_sync_not_write|apply ra_sync_not_read]; exact Hs.
    + intros t w d H. rewrite Hsame in H. apply ra_fact_keep; [apply ra_sync_not_write; exact Hs|apply ra_sync_not_read; exact Hs|].
      apply Ifa. exact H.
  - (* new task *)
    subst evs. destruct (Ifr (length (ast_tasks s)) (le_n _)) as [F1 F2]. constructor.
    + cbn [rm_msteps fold_left]. apply rm_write_fresh_ok; assumption.
    + apply Hfresh_keep; [|lia]. intros x Hx. split; ra_nin.
    + intros t w d H. destruct (Nat.eq_dec t (length (ast_tasks s))) as [->|Hne].
      * rewrite Hnew in H. injection H as <- <-. cbn [ra_fact rm_msteps fold_left]. split; [reflexivity|]. split.
        -- apply rm_write_K.
        -- apply rm_KR_step_keep; [discriminate|]. apply rm_KR_fresh. exact F2.
      * rewrite Hbut in H by exact Hne. apply ra_fact_keep; [ra_nin|ra_nin|]. apply Ifa. exact H.
  - (* give *)
    subst evs. pose proof (Ifa _ _ _ Ho) as (Hd & Hk & Hkr). constructor.
    + rewrite ra_sync_raced by reflexivity. exact Inr.
    + apply Hfresh_keep; [|lia]. intros x _. split; ra_nin.
    + intros t' w' d' H. destruct (Nat.eq_dec t' t) as [->|Hne].
      * rewrite Ho' in H. injection H as <- <-. cbn [ra_fact rm_msteps fold_left]. split; [exact Hd|]. split.
        -- apply (rm_rel_P N m tid (RRel (ra_tmsg t)) (ra_tmsg t)); [reflexivity|exact Hk].
        -- apply (rm_rel_PR N m tid (RRel (ra_tmsg t)) (ra_tmsg t)); [reflexivity|exact Hkr].
      * rewrite Hbut in H by exact Hne. apply ra_fact_keep; [ra_nin|ra_nin|]. apply Ifa. exact H.
  - (* drop *)
    subst evs. pose proof (Ifa _ _ _ Ho) as (Hd & Hk & Hkr). cbn [rm_msteps fold_left]. constructor.
    + exact Inr.
    + intros x Hx. apply Ifr. lia.
    + intros t' w' d' H. destruct (Nat.eq_dec t' t) as [->|Hne].
      * rewrite Ho' in H. injection H as <- <-. cbn [ra_fact]. intros Hc. congruence.
      * rewrite Hbut in H by exact Hne. apply Ifa. exact H.
  - (* take *)
    subst evs. pose proof (Ifa _ _ _ Ho) as (Hd & Hk & Hkr). constructor.
    + rewrite ra_sync_raced by reflexivity. exact Inr.
    + apply Hfresh_keep; [|lia]. intros x _. split; ra_nin.
    + intros t' w' d' H. destruct (Nat.eq_dec t' t) as [->|Hne].
      * rewrite Ho' in H. injection H as <- <-. cbn [ra_fact rm_msteps fold_left]. split; [exact Hd|]. split.
        -- apply (rm_acq_K N m tid (RAcq (ra_tmsg t)) (ra_tmsg t)); [reflexivity|exact Hk].
        -- apply (rm_acq_KR N m tid (RAcq (ra_tmsg t)) (ra_tmsg t)); [reflexivity|exact Hkr].
      * rewrite Hbut in H by exact Hne. apply ra_fact_keep; [ra_nin|ra_nin|]. apply Ifa. exact H.
  - (* done *)
    subst evs. pose proof (Ifa _ _ _ Ho) as (Hd & Hk & Hkr). constructor.
    + rewrite ra_sync_raced by reflexivity. exact Inr.
    + apply Hfresh_keep; [|lia]. intros x _. split; ra_nin.
    + intros t' w' d' H. destruct (Nat.eq_dec t' t) as [->|Hne].
      * rewrite Ho' in H. injection H as <- <-. cbn [ra_fact rm_msteps fold_left]. intros _.
        apply (rm_rel_P N m tid (RRel (ra_wg t)) (ra_wg t)); [reflexivity|exact Hk].
      * rewrite Hbut in H by exact Hne. apply ra_fact_keep; [ra_nin|ra_nin|]. apply Ifa. exact H.
  - (* write *)
    subst evs. pose proof (Ifa _ _ _ Ho) as (Hd & Hk & Hkr). pose proof (ra_own_lt _ _ _ Ho) as Hlt. constructor.
    + cbn [rm_msteps fold_left]. apply rm_write_ok; assumption.
    + apply Hfresh_keep; [|lia]. intros x Hx. split; ra_nin.
    + intros t' w' d' H. rewrite Hsame in H. destruct (Nat.eq_dec t' t) as [->|Hne].
      * rewrite Ho in H. injection H as <- <-. cbn [ra_fact rm_msteps fold_left]. split; [exact Hd|]. split.
        -- apply rm_write_K.
        -- apply rm_KR_own. exact Hkr.
      * apply ra_fact_keep; [ra_nin|ra_nin|]. apply Ifa. exact H.
  - (* read *)
    subst evs. pose proof (Ifa _ _ _ Ho) as (Hd & Hk & Hkr). pose proof (ra_own_lt _ _ _ Ho) as Hlt. constructor.
    + cbn [rm_msteps fold_left]. apply rm_read_ok; assumption.
    + apply Hfresh_keep; [|lia]. intros x Hx. split; ra_nin.
    + intros t' w' d' H. rewrite Hsame in H. destruct (Nat.eq_dec t' t) as [->|Hne].
      * rewrite Ho in H. injection H as <- <-. cbn [ra_fact rm_msteps fold_left]. split; [exact Hd|]. split.
        -- apply rm_K_own. exact Hk.
        -- apply rm_KR_own. exact Hkr.
      * apply ra_fact_keep; [ra_nin|ra_nin|]. apply Ifa. exact H.
  - (* Get2 *)
    subst evs. pose proof (Ifa _ _ _ Ho) as Hf. pose proof (ra_own_lt _ _ _ Ho) as Hlt.
    assert (Hw : w = AwGone) by (destruct w; cbn [ra_fact] in Hf; [destruct Hf; discriminate|destruct Hf; discriminate|reflexivity]).
    subst w. cbn [ra_fact] in Hf. specialize (Hf eq_refl). constructor.
    + cbn [rm_msteps fold_left]. apply rm_read_ok.
      * rewrite rm_sync_raced by exact I. exact Inr.
      * apply (rm_acq_K N m tid (RAcq (ra_wg t)) (ra_wg t)); [reflexivity|exact Hf].
    + apply Hfresh_keep; [|lia]. intros x Hx. split; ra_nin.
    + intros t' w' d' H. rewrite Hsame in H. destruct (Nat.eq_dec t' t) as [->|Hne].
      * rewrite Ho in H. injection H as <- <-. cbn [ra_fact]. intros _.
        apply rm_msteps_P_keep; [ra_nin|exact Hf].
      * apply ra_fact_keep; [ra_nin|ra_nin|]. apply Ifa. exact H.
Qed.

End Gen.

Lemma ra_minv_init n progs : ra_minv (ast_init n progs) rc_init.
Proof.
  constructor.
  - reflexivity.
  - intros x _. split; [reflexivity|intros u; reflexivity].
  - intros t w d H. unfold ra_own in H. cbn [ast_init ast_tasks] in H. destruct t; discriminate.
Qed.
