(* AntsStepsCount.v -- handler invocations of a task never exceed the attempts created for it
   (att_started <= att_natt), for every reachable state of the ants step model: every attempt's callback is
   received from innerCallbackChan at most once, and only callbacks that were not started yet are in it. *)
From Got Require Import Base ListAux AntsSteps AntsStepsProofs.
Local Open Scope nat_scope.

Definition ast_pc_denq (pc : ast_pc) : option nat := match pc with AstDEnq _ a _ => Some a | _ => None end.

Lemma ast_pc_denq_att pc a : ast_pc_denq pc = Some a -> ast_pc_att pc = Some a.
Proof. destruct pc; cbn; congruence. Qed.

(* a callback that is about to be enqueued or is in innerCallbackChan has not been started *)
Record ast_hinv (s : ast_state) : Prop := {
  hi_pc : forall i pc a y, ast_pc_of s i = Some pc -> ast_pc_denq pc = Some a ->
          nth_error (ast_atts s) a = Some y -> ata_hst y = 0;
  hi_chan : forall a y, In a (ast_ichan s) -> nth_error (ast_atts s) a = Some y -> ata_hst y = 0
}.

Ltac hc_fin H3 J :=
  ast_bounds; ast_eqb; try lia;
  repeat match type of H3 with context [nth_error ?l ?t] =>
    let E := fresh "E" in destruct (nth_error l t) eqn:E; rewrite ?E in * end;
  cbn [option_map] in *; try congruence; try lia;
  try (injection H3 as <-; cbn; first [reflexivity | eapply J; reflexivity | eapply J; eassumption]);
  try (eapply J; first [reflexivity | eassumption]).

Ltac hc1 Eth Hp I4 O4 :=
  let i := fresh "i" in let pc0 := fresh "pc0" in let a0 := fresh "a0" in let y := fresh "y" in
  let H1 := fresh "H1" in let H2 := fresh "H2" in let H3 := fresh "H3" in
  let J := fresh "J" in let J4 := fresh "J4" in
  intros i pc0 a0 y H1 H2 H3;
  try (specialize (O4 _ eq_refl));
  ast_norm; ast_eqb;
  try (rewrite Eth in H1; ast_cbn; injection H1 as <-; cbn [ast_pc_denq] in H2);
  try discriminate; try (injection H2 as <-);
  try (pose proof (fun y => Hp _ _ _ y H1 H2) as J);
  try (pose proof (I4 _ _ _ H1 (ast_pc_denq_att _ _ H2)) as J4);
  hc_fin H3 J.

Ltac hc2 Hc I5 O4 Op :=
  let a0 := fresh "a0" in let y := fresh "y" in let Hin := fresh "Hin" in let H3 := fresh "H3" in
  let J := fresh "J" in let J5 := fresh "J5" in
  intros a0 y Hin H3;
  try (apply in_app_or in Hin; destruct Hin as [Hin|[<-|[]]]);
  try match goal with F : forall y, In y ?l -> In y _ /\ y <> _ |- _ =>
        match type of Hin with In _ l => let Hin0 := fresh "Hin0" in let Hne := fresh "Hne" in
          destruct (F _ Hin) as [Hin0 Hne]; pose proof (fun y => Hc _ y Hin0) as J; pose proof (I5 _ Hin0) as J5 end end;
  try (pose proof (fun y => Hc _ y Hin) as J; pose proof (I5 _ Hin) as J5);
  try (specialize (O4 _ eq_refl)); try (specialize (fun y => Op _ y eq_refl));
  ast_norm; hc_fin H3 J;
  try (injection H3 as <-; cbn; eapply Op; eassumption).

Lemma ast_step_hinv md n s tid hint : ast_inv s -> ast_hinv s -> ast_hinv (fst (fst (ast_step md n s tid hint))).
Proof.
  intros Inv Hv. unfold ast_step. destruct (nth_error (ast_thr s) tid) as [th|] eqn:Eth; [|exact Hv].
  destruct th as [pc prog hs]. unfold ast_step_pc. cbn [ath_pc ath_prog ath_handles].
  pose proof Inv as [I1 I2 I3 I4 I5 I6 I7]. pose proof Hv as [Hp Hc].
  pose proof (I4 tid pc) as O4. pose proof (Hp tid pc) as Op.
  unfold ast_pc_of in O4, Op. rewrite Eth in O4, Op. cbn [option_map ath_pc] in O4, Op.
  specialize (fun a => O4 a eq_refl). specialize (fun a y => Op a y eq_refl).
  destruct pc; cbn [ast_pc_att ast_pc_denq] in O4, Op;
    repeat first [progress (unfold ast_wait_ctx; ast_cbn) | match goal with
    | |- context [match ?x with _ => _ end] => destruct x eqn:?
    end]; try exact Hv.
  all: ast_prep_ichan I5 I6; constructor; ast_cbn.
  all: try (timeout 20 (hc1 Eth Hp I4 O4; fail)).
  all: try (timeout 20 (hc2 Hc I5 O4 Op; fail)).
  intros a0 y Hin H3. rewrite ast_upd_nth in H3. apply in_app_or in Hin. destruct Hin as [Hin|[<-|[]]].
  - destruct (Nat.eqb_spec a0 a) as [->|Hne].
    + exfalso. pose proof (I5 a Hin) as A1. pose proof (O4 a eq_refl) as A2. congruence.
    + apply (Hc a0 y Hin H3).
  - rewrite Nat.eqb_refl in H3. destruct (nth_error (ast_atts s) a) as [y0|] eqn:E; [|discriminate].
    cbn in H3. injection H3 as <-. cbn. apply (Op a y0 eq_refl E).
Qed.

Lemma ast_init_hinv n progs : ast_hinv (ast_init n progs).
Proof. constructor; cbn [ast_init ast_atts ast_ichan]; [intros i pc a y _ _ H; destruct a; discriminate H|intros a y []]. Qed.

Lemma ast_run_hinv md n sched : forall s, ast_inv s -> ast_hinv s -> ast_hinv (ast_run md n s sched).
Proof.
  induction sched as [|[tid h] r IH]; intros s Inv H; [exact H|]. cbn [ast_run fold_left]. apply IH.
  - unfold ast_next. cbn [fst snd]. apply ast_step_inv. exact Inv.
  - unfold ast_next. cbn [fst snd]. apply ast_step_hinv; assumption.
Qed.

