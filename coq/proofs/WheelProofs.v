(* WheelProofs.v -- lemmas about coq/models/Wheel.v (property C03). *)
From Got Require Import Base Wheel.
Local Open Scope Z_scope.

(* ------------------------------------------------------------------ pure arithmetic *)

Lemma wh_max_timeout_id s n :
  0 < s -> s * Z.of_nat n < 2 ^ 63 -> wh_max_timeout s n = s * Z.of_nat n.
Proof.
  intros Hs Hb. unfold wh_max_timeout. apply sext_id; [lia|].
  change (2 ^ (64 - 1)) with (2 ^ 63). split; [|exact Hb].
  assert (0 <= s * Z.of_nat n) by nia. assert (0 < 2 ^ 63) by (apply Z.pow_pos_nonneg; lia). lia.
Qed.

Lemma wh_index_panic_iff s n d :
  0 < s -> s * Z.of_nat n < 2 ^ 63 ->
  (wh_bucket_index s n d = None <-> d < 0 \/ s * Z.of_nat n <= d).
Proof.
  intros Hs Hb. unfold wh_bucket_index. rewrite wh_max_timeout_id by assumption.
  destruct (d <? 0) eqn:E1; destruct (s * Z.of_nat n <=? d) eqn:E2; cbn [orb];
    split; intros H; try discriminate; try reflexivity; lia.
Qed.

Lemma wh_index_value s n d i :
  0 < s -> s * Z.of_nat n < 2 ^ 63 ->
  wh_bucket_index s n d = Some i ->
  0 <= d < s * Z.of_nat n /\ Z.of_nat i = Z.max (d / s) 1 - 1.
Proof.
  intros Hs Hb. unfold wh_bucket_index. rewrite wh_max_timeout_id by assumption.
  destruct (d <? 0) eqn:E1; destruct (s * Z.of_nat n <=? d) eqn:E2; cbn [orb]; try discriminate.
  intros H. injection H as H. split; [lia|].
  assert (0 <= d / s) by (apply Z.div_pos; lia).
  destruct (0 <? d / s) eqn:E3; subst i; rewrite Z2Nat.id; lia.
Qed.

Lemma wh_index_bound s n d i :
  0 < s -> s * Z.of_nat n < 2 ^ 63 ->
  wh_bucket_index s n d = Some i ->
  ((2 <= n)%nat -> (i <= n - 2)%nat) /\ (n = 1%nat -> i = 0%nat).
Proof.
  intros Hs Hb H. destruct (wh_index_value s n d i Hs Hb H) as [Hd Hi].
  assert (Hq : d / s < Z.of_nat n) by (apply Z.div_lt_upper_bound; lia).
  assert (0 <= d / s) by (apply Z.div_pos; lia).
  split; intros Hn; lia.
Qed.

(* the index is what the property calls D/s - 1 *)
Lemma wh_index_D s n d i :
  0 < s -> s * Z.of_nat n < 2 ^ 63 ->
  wh_bucket_index s n d = Some i ->
  Z.max (s * (d / s)) s = s * (Z.of_nat i + 1).
Proof.
  intros Hs Hb H. destruct (wh_index_value s n d i Hs Hb H) as [Hd Hi].
  assert (0 <= d / s) by (apply Z.div_pos; lia). nia.
Qed.

(* tick g happens at time g*s on the wheel's own tick clock; a request that does not overlap
   a tick and is made at clock time r after exactly k ticks (k*s <= r < (k+1)*s) obtains,
   by wh_fire_window with k0 = k1 = k, the channel closed by tick f = k + i + 1 *)
Lemma wh_time_window s n d i k r :
  0 < s -> s * Z.of_nat n < 2 ^ 63 ->
  wh_bucket_index s n d = Some i ->
  k * s <= r < (k + 1) * s ->
  let D := Z.max (s * (d / s)) s in
  let f := k + Z.of_nat i + 1 in
  D - s < f * s - r <= D.
Proof.
  intros Hs Hb H Hr D f. subst D f. rewrite (wh_index_D s n d i Hs Hb H). nia.
Qed.

(* a request overlapping ticks: invoked at clock time r0 (after k0 ticks), returning at r1
   (k1 ticks started); any f allowed by the fire window is less than one step early with
   respect to the invocation and not late with respect to the return *)
Lemma wh_time_window_overlap s n d i k0 k1 r0 r1 f :
  0 < s -> s * Z.of_nat n < 2 ^ 63 ->
  wh_bucket_index s n d = Some i ->
  k0 * s <= r0 < (k0 + 1) * s -> k1 * s <= r1 < (k1 + 1) * s ->
  k0 + Z.of_nat i + 1 <= f <= k1 + Z.of_nat i + 1 ->
  let D := Z.max (s * (d / s)) s in
  D - s < f * s - r0 /\ f * s - r1 <= D.
Proof.
  intros Hs Hb H Hr0 Hr1 Hf D. subst D. rewrite (wh_index_D s n d i Hs Hb H). nia.
Qed.

(* ------------------------------------------------------------------ the step machine (WFixed) *)
Local Open Scope nat_scope.

Lemma wh_mod_le n a b : 0 < n -> a mod n = b mod n -> a < b + n -> a <= b.
Proof.
  intros Hn He Hlt.
  pose proof (Nat.div_mod a n ltac:(lia)) as Ha. pose proof (Nat.div_mod b n ltac:(lia)) as Hb.
  pose proof (Nat.mod_upper_bound a n ltac:(lia)) as Hr.
  rewrite He in Ha, Hr.
  assert (a / n <= b / n) by nia. nia.
Qed.

Lemma wh_mod_unique n a b : 0 < n -> a mod n = b mod n -> a < b + n -> b < a + n -> a = b.
Proof.
  intros Hn He H1 H2. pose proof (wh_mod_le n a b Hn He H1).
  pose proof (wh_mod_le n b a Hn (eq_sym He) H2). lia.
Qed.

Lemma wh_nth_set_nth {A} (l : list A) j v j' :
  j < length l ->
  nth_error (wh_set_nth l j v) j' = if j' =? j then Some v else nth_error l j'.
Proof.
  unfold wh_set_nth. revert j j'. induction l as [|a l IH]; intros j j' Hj; cbn [length] in Hj; [lia|].
  destruct j as [|j].
  - destruct j' as [|j']; reflexivity.
  - cbn [firstn skipn app]. destruct j' as [|j']; [reflexivity|].
    cbn [nth_error]. change (S j' =? S j) with (j' =? j). apply IH. lia.
Qed.

Lemma wh_set_nth_length {A} (l : list A) j v : j < length l -> length (wh_set_nth l j v) = length l.
Proof.
  intros Hj. unfold wh_set_nth. rewrite app_length, firstn_length. cbn [length].
  rewrite skipn_length. lia.
Qed.

(* ghost counters derived from the ticker pc (WFixed order): position stores / slot stores done *)
Definition wh_P (s : wh_state) : nat :=
  match wh_tpc_of s with WT4 _ _ | WT5 _ => S (wh_nclosed s) | _ => wh_nclosed s end.
Definition wh_S (s : wh_state) : nat :=
  match wh_tpc_of s with WT5 _ => S (wh_nclosed s) | _ => wh_nclosed s end.

Definition wh_tinv (s : wh_state) : Prop :=
  let C := wh_nclosed s in let n := wh_n s in
  match wh_tpc_of s with
  | WTIdle => wh_nstarted s = C
  | WT1 => wh_nstarted s = S C
  | WT2 lp => wh_nstarted s = S C /\ lp = C mod n
  | WT3 lp last => wh_nstarted s = S C /\ lp = C mod n /\ last = C
  | WT4 lp last => wh_nstarted s = S C /\ lp = C mod n /\ last = C
  | WT5 last => wh_nstarted s = S C /\ last = C
  | WTDead => False
  end.

(* channel x is the one closed by tick x+1: slot j holds the unique x = j (mod n) in [S, S+n) *)
Record wh_ginv (s : wh_state) : Prop := {
  gi_s : (0 < wh_s s)%Z;
  gi_ovf : (wh_s s * Z.of_nat (wh_n s) < 2 ^ 63)%Z;
  gi_n : 1 <= wh_n s;
  gi_len : length (wh_slots s) = wh_n s;
  gi_pos : wh_pos s = wh_P s mod wh_n s;
  gi_next : wh_next s = wh_S s + wh_n s;
  gi_slots : forall j x, nth_error (wh_slots s) j = Some x ->
                         x mod wh_n s = j /\ wh_S s <= x < wh_S s + wh_n s;
  gi_log : forall x, wh_closed_at s x = if x <? wh_nclosed s then Some (S x) else None
}.

Definition wh_idx_ok (n i : nat) : Prop := i + 2 <= n \/ (n = 1 /\ i = 0).

Definition wh_rinv (n C P : nat) (pc : wh_rpc) : Prop :=
  match pc with
  | WRIdle | WRDead => True
  | WR1 i k0 => wh_idx_ok n i /\ k0 <= C
  | WR2 i k0 p => wh_idx_ok n i /\ k0 <= C /\ exists c, p = c mod n /\ k0 <= c /\ c <= P
  | WR3 i k0 p x => wh_idx_ok n i /\ k0 <= C /\
                    exists c, p = c mod n /\ x mod n = (c + i) mod n /\ k0 + i <= x /\ x < P + n
  end.

Definition wh_tsinv (s : wh_state) : Prop :=
  Forall (fun th => wh_rinv (wh_n s) (wh_nclosed s) (wh_P s) (wh_rpc_of th)) (wh_threads s).

Definition wh_inv (s : wh_state) : Prop := wh_ginv s /\ wh_tinv s /\ wh_tsinv s.

Lemma wh_rinv_mono n C P C' P' pc :
  C <= C' -> P <= P' -> wh_rinv n C P pc -> wh_rinv n C' P' pc.
Proof.
  intros HC HP. destruct pc as [|i k0|i k0 p|i k0 p x|]; cbn [wh_rinv]; try tauto.
  - intros [H1 H2]. split; [exact H1|lia].
  - intros [H1 [H2 [c [H3 [H4 H5]]]]]. split; [exact H1|]. split; [lia|]. exists c. repeat split; try assumption; lia.
  - intros [H1 [H2 [c [H3 [H4 [H5 H6]]]]]]. split; [exact H1|]. split; [lia|]. exists c. repeat split; try assumption; lia.
Qed.

Lemma wh_tsinv_mono s s' :
  wh_n s' = wh_n s -> wh_threads s' = wh_threads s ->
  wh_nclosed s <= wh_nclosed s' -> wh_P s <= wh_P s' ->
  wh_tsinv s -> wh_tsinv s'.
Proof.
  intros Hn Ht HC HP H. unfold wh_tsinv in *. rewrite Hn, Ht.
  eapply Forall_impl; [|exact H]. intros th Hth. eapply wh_rinv_mono; eassumption.
Qed.

Lemma wh_init_inv s n ticks progs :
  (0 < s)%Z -> 1 <= n -> (s * Z.of_nat n < 2 ^ 63)%Z -> wh_inv (wh_init s n ticks progs).
Proof.
  intros Hs Hn Hb. split; [|split].
  - constructor; cbn; try assumption; try lia.
    + apply seq_length.
    + rewrite Nat.mod_0_l by lia. reflexivity.
    + intros j x Hj. assert (Hlt : j < n).
      { rewrite <- (seq_length n 0). apply nth_error_Some. rewrite Hj. discriminate. }
      rewrite (nth_error_nth' (seq 0 n) 0) in Hj by (rewrite seq_length; exact Hlt).
      rewrite seq_nth in Hj by exact Hlt. injection Hj as Hj. subst x. cbn.
      rewrite Nat.mod_small by lia. lia.
    + reflexivity.
  - cbn. reflexivity.
  - unfold wh_tsinv. cbn. apply Forall_forall. intros th Hin. apply in_map_iff in Hin.
    destruct Hin as [p [Hp _]]. subst th. cbn. exact I.
Qed.

Lemma wh_closed_at_cons s ch g x tpc pos slots next nst ncl ticks :
  wh_closed_at (wh_upd_ticker s pos slots next ((ch, g) :: wh_log s) nst ncl tpc ticks) x
  = if ch =? x then Some g else wh_closed_at s x.
Proof. unfold wh_closed_at. cbn. destruct (ch =? x); reflexivity. Qed.

Lemma wh_tick_step_inv s : wh_inv s -> wh_inv (fst (wh_tick_step WFixed s)).
Proof.
  intros [Hg [Ht Hr]]. unfold wh_tick_step.
  destruct Hg as [g1 g2 g3 g4 g5 g6 g7 g8].
  unfold wh_tinv in Ht. unfold wh_P, wh_S in g5, g6, g7.
  destruct (wh_tpc_of s) eqn:E.
  - (* WTIdle *)
    destruct (wh_ticks s) eqn:Ek.
    { cbn [fst]. split; [|split]; try assumption.
      - constructor; unfold wh_P, wh_S; rewrite ?E; assumption.
      - unfold wh_tinv. rewrite E. exact Ht. }
    cbn [fst]. split; [|split].
    + constructor; unfold wh_P, wh_S; cbn; assumption.
    + unfold wh_tinv. cbn. lia.
    + apply (wh_tsinv_mono s); unfold wh_P; cbn; rewrite ?E; try reflexivity; try assumption; lia.
  - (* WT1 *)
    cbn [fst]. split; [|split].
    + constructor; unfold wh_P, wh_S; cbn; assumption.
    + unfold wh_tinv. cbn. split; [exact Ht|exact g5].
    + apply (wh_tsinv_mono s); unfold wh_P; cbn; rewrite ?E; try reflexivity; try assumption; lia.
  - (* WT2 *)
    destruct Ht as [Ht1 Ht2].
    destruct (nth_error (wh_slots s) lp) as [ch|] eqn:En.
    + cbn [fst]. split; [|split].
      * constructor; unfold wh_P, wh_S; cbn; assumption.
      * unfold wh_tinv. cbn. split; [exact Ht1|]. split; [exact Ht2|].
        destruct (g7 _ _ En) as [Hm Hrange].
        apply (wh_mod_unique (wh_n s)); lia.
      * apply (wh_tsinv_mono s); unfold wh_P; cbn; rewrite ?E; try reflexivity; try assumption; lia.
    + exfalso. apply nth_error_None in En. rewrite g4 in En.
      pose proof (Nat.mod_upper_bound (wh_nclosed s) (wh_n s) ltac:(lia)). lia.
  - (* WT3: store position *)
    destruct Ht as [Ht1 [Ht2 Ht3]].
    cbn [fst]. split; [|split].
    + constructor; unfold wh_P, wh_S; cbn; try assumption.
      rewrite Ht2. rewrite Nat.add_mod_idemp_l by lia. f_equal. lia.
    + unfold wh_tinv. cbn. repeat split; assumption.
    + apply (wh_tsinv_mono s); unfold wh_P; cbn; rewrite ?E; try reflexivity; try assumption; lia.
  - (* WT4: store slot *)
    destruct Ht as [Ht1 [Ht2 Ht3]].
    assert (Hlp : lp < length (wh_slots s)).
    { rewrite g4, Ht2. apply Nat.mod_upper_bound. lia. }
    cbn [fst]. split; [|split].
    + constructor; unfold wh_P, wh_S; cbn; try assumption.
      * rewrite wh_set_nth_length by exact Hlp. exact g4.
      * lia.
      * intros j x Hj. rewrite wh_nth_set_nth in Hj by exact Hlp.
        destruct (j =? lp) eqn:Ej.
        -- apply Nat.eqb_eq in Ej. injection Hj as Hj. subst x j. rewrite g6. split; [|lia].
           replace (wh_nclosed s + wh_n s) with (wh_nclosed s + 1 * wh_n s) by lia.
           rewrite Nat.mod_add by lia. symmetry. exact Ht2.
        -- apply Nat.eqb_neq in Ej. destruct (g7 _ _ Hj) as [Hm Hrange]. split; [exact Hm|].
           assert (x <> wh_nclosed s) by (intros ->; congruence). lia.
    + unfold wh_tinv. cbn. split; assumption.
    + apply (wh_tsinv_mono s); unfold wh_P; cbn; rewrite ?E; try reflexivity; try assumption; lia.
  - (* WT5: close *)
    destruct Ht as [Ht1 Ht2].
    rewrite g8. subst last. rewrite Nat.ltb_irrefl.
    cbn [fst]. split; [|split].
    + constructor; unfold wh_P, wh_S; cbn [wh_s wh_n wh_pos wh_slots wh_next wh_tpc_of wh_nclosed wh_upd_ticker]; try assumption.
      intros x. rewrite wh_closed_at_cons. rewrite g8.
      destruct (wh_nclosed s =? x) eqn:Ex.
      * apply Nat.eqb_eq in Ex. subst x. replace (wh_nclosed s <? S (wh_nclosed s)) with true; [reflexivity|].
        symmetry. apply Nat.ltb_lt. lia.
      * apply Nat.eqb_neq in Ex.
        destruct (x <? wh_nclosed s) eqn:E1; destruct (x <? S (wh_nclosed s)) eqn:E2; try reflexivity;
          [apply Nat.ltb_lt in E1; apply Nat.ltb_ge in E2 | apply Nat.ltb_ge in E1; apply Nat.ltb_lt in E2]; lia.
    + unfold wh_tinv. cbn. exact Ht1.
    + apply (wh_tsinv_mono s); unfold wh_P; cbn; rewrite ?E; try reflexivity; try assumption; lia.
  - (* WTDead *) destruct Ht.
Qed.

Lemma wh_counters s :
  wh_tinv s ->
  wh_nclosed s <= wh_S s /\ wh_S s <= wh_P s /\ wh_P s <= S (wh_S s) /\ wh_P s <= wh_nstarted s.
Proof.
  unfold wh_tinv, wh_S, wh_P. destruct (wh_tpc_of s); intros H; lia.
Qed.

Lemma wh_idx_ok_of_index s n d i :
  (0 < s)%Z -> 1 <= n -> (s * Z.of_nat n < 2 ^ 63)%Z ->
  wh_bucket_index s n d = Some i -> wh_idx_ok n i.
Proof.
  intros Hs Hn Hb H. destruct (wh_index_bound s n d i Hs Hb H) as [H1 H2].
  unfold wh_idx_ok. destruct (Nat.eq_dec n 1) as [E|E]; [right; split; [exact E|apply H2; exact E]|].
  left. assert (Hn2 : 2 <= n) by lia. specialize (H1 Hn2). lia.
Qed.

(* one requester step from a state satisfying the invariant: the thread's own invariant is
   re-established, nothing panics except the documented range check, and a returned channel
   lies in the window *)
Lemma wh_req_step_th_inv s th th' ev :
  wh_ginv s -> wh_tinv s ->
  wh_rinv (wh_n s) (wh_nclosed s) (wh_P s) (wh_rpc_of th) ->
  wh_req_step_th WFixed s th = (th', ev) ->
  wh_rinv (wh_n s) (wh_nclosed s) (wh_P s) (wh_rpc_of th') /\
  ev <> WEPanicIndex /\ (forall ch, ev <> WEPanicClose ch) /\
  (forall g, ev <> WETickInv g) /\ (forall g ch, ev <> WETickRet g ch) /\
  (forall i k0 k1 ch, ev = WERet i k0 k1 ch -> k0 + i <= ch /\ ch <= k1 + i).
Proof.
  intros Hg Ht Hr Hstep.
  destruct (wh_counters s Ht) as [HCS [HSP [HPS HPst]]].
  destruct Hg as [g1 g2 g3 g4 g5 g6 g7 g8].
  unfold wh_req_step_th in Hstep.
  destruct (wh_rpc_of th) as [|i k0|i k0 p|i k0 p x|] eqn:Epc; cbn [wh_rinv] in Hr.
  - (* idle: invocation *)
    destruct (wh_todo th) as [|op rest].
    { injection Hstep as <- <-. rewrite Epc. cbn. repeat split; intros; discriminate. }
    destruct (wh_eff_duration (wh_s s) (wh_tint th) op) as [d ti].
    destruct (wh_bucket_index (wh_s s) (wh_n s) d) as [i|] eqn:Ei.
    + injection Hstep as <- <-. cbn [wh_rpc_of wh_rinv].
      split; [split; [eapply wh_idx_ok_of_index; eassumption|lia]|].
      repeat split; intros; discriminate.
    + injection Hstep as <- <-. cbn. repeat split; intros; discriminate.
  - (* load position *)
    destruct Hr as [Hi Hk]. injection Hstep as <- <-. cbn [wh_rpc_of wh_rinv].
    split; [|repeat split; intros; discriminate].
    split; [exact Hi|]. split; [exact Hk|]. exists (wh_P s). split; [exact g5|]. lia.
  - (* load slot *)
    destruct Hr as [Hi [Hk [c [Hp [Hc1 Hc2]]]]].
    destruct (nth_error (wh_slots s) ((p + i) mod wh_n s)) as [x|] eqn:En.
    + injection Hstep as <- <-. cbn [wh_rpc_of wh_rinv].
      split; [|repeat split; intros; discriminate].
      split; [exact Hi|]. split; [exact Hk|]. exists c. split; [exact Hp|].
      destruct (g7 _ _ En) as [Hm Hrange].
      assert (Hmod : x mod wh_n s = (c + i) mod wh_n s).
      { rewrite Hm, Hp. apply Nat.add_mod_idemp_l. lia. }
      split; [exact Hmod|]. split; [|lia].
      destruct Hi as [Hi | [Hn1 Hi0]].
      * assert (c + i <= x); [|lia].
        apply (wh_mod_le (wh_n s)); [lia|symmetry; exact Hmod|lia].
      * lia.
    + exfalso. apply nth_error_None in En. rewrite g4 in En.
      pose proof (Nat.mod_upper_bound (p + i) (wh_n s) ltac:(lia)). lia.
  - (* re-load position *)
    destruct Hr as [Hi [Hk [c [Hp [Hm [Hlo Hhi]]]]]].
    destruct (p =? wh_pos s) eqn:Epos.
    + apply Nat.eqb_eq in Epos. injection Hstep as <- <-. cbn [wh_rpc_of wh_rinv].
      split; [exact I|]. split; [discriminate|]. split; [intros; discriminate|].
      split; [intros; discriminate|]. split; [intros; discriminate|].
      intros i' k0' k1' ch' Hev. injection Hev as <- <- <- <-. split; [exact Hlo|].
        assert (Hm2 : x mod wh_n s = (wh_P s + i) mod wh_n s).
        { rewrite Hm. rewrite <- (Nat.add_mod_idemp_l c) by lia. rewrite <- Hp, Epos, g5.
          apply Nat.add_mod_idemp_l. lia. }
        assert (x <= wh_P s + i); [|lia].
        apply (wh_mod_le (wh_n s)); [lia|exact Hm2|lia].
    + injection Hstep as <- <-. cbn [wh_rpc_of wh_rinv].
      split; [split; assumption|]. repeat split; intros; discriminate.
  - injection Hstep as <- <-. rewrite Epc. cbn. repeat split; intros; discriminate.
Qed.

Lemma wh_forall_set_nth {A} (P : A -> Prop) (l : list A) k v :
  Forall P l -> P v -> Forall P (wh_set_nth l k v).
Proof.
  unfold wh_set_nth. intros Hl Hv. revert k. induction Hl as [|a l Ha Hl IH]; intros k.
  - destruct k; cbn; constructor; try assumption; constructor.
  - destruct k as [|k]; cbn [firstn skipn app].
    + constructor; assumption.
    + constructor; [exact Ha|apply IH].
Qed.

Lemma wh_step_inv s tid : wh_inv s -> wh_inv (fst (wh_step WFixed s tid)).
Proof.
  intros Hinv. destruct tid as [|k]; [apply wh_tick_step_inv; exact Hinv|].
  cbn [wh_step]. destruct (nth_error (wh_threads s) k) as [th|] eqn:En; [|exact Hinv].
  destruct (wh_req_step_th WFixed s th) as [th' ev] eqn:Est. cbn [fst].
  destruct Hinv as [Hg [Ht Hr]].
  assert (Hth : wh_rinv (wh_n s) (wh_nclosed s) (wh_P s) (wh_rpc_of th)).
  { unfold wh_tsinv in Hr. rewrite Forall_forall in Hr. apply Hr. eapply nth_error_In. eassumption. }
  destruct (wh_req_step_th_inv _ _ _ _ Hg Ht Hth Est) as [Hth' _].
  split; [|split].
  - destruct Hg. constructor; assumption.
  - exact Ht.
  - unfold wh_tsinv. cbn. apply wh_forall_set_nth; assumption.
Qed.

(* events of a ticker step from a state satisfying the invariant *)
Lemma wh_tick_step_event s :
  wh_inv s ->
  let s' := fst (wh_tick_step WFixed s) in
  let ev := snd (wh_tick_step WFixed s) in
  wh_n s' = wh_n s /\ wh_s s' = wh_s s /\
  ((ev = WETickRet (S (wh_nclosed s)) (wh_nclosed s) /\ wh_nclosed s' = S (wh_nclosed s)) \/
   ((ev = WENone \/ ev = WEInt \/ ev = WETickInv (S (wh_nstarted s))) /\ wh_nclosed s' = wh_nclosed s)).
Proof.
  intros [Hg [Ht Hr]]. unfold wh_tick_step. unfold wh_tinv in Ht.
  destruct (wh_tpc_of s) eqn:E.
  - destruct (wh_ticks s); cbn; auto 7.
  - cbn; auto 7.
  - destruct (nth_error (wh_slots s) lp) eqn:En; [cbn; auto 7|].
    exfalso. destruct Hg as [g1 g2 g3 g4 g5 g6 g7 g8]. apply nth_error_None in En. rewrite g4 in En.
    pose proof (Nat.mod_upper_bound (wh_nclosed s) (wh_n s) ltac:(lia)). lia.
  - cbn; auto 7.
  - cbn; auto 7.
  - destruct Ht as [Ht1 Ht2]. rewrite (gi_log s Hg). subst last. rewrite Nat.ltb_irrefl. cbn. auto 7.
  - destruct Ht.
Qed.

(* events of a requester step (no invariant needed) *)
Lemma wh_req_step_th_event o s th th' ev :
  wh_req_step_th o s th = (th', ev) ->
  (forall d i k0, ev = WEInv d i k0 -> wh_bucket_index (wh_s s) (wh_n s) d = Some i /\ k0 = wh_nclosed s) /\
  (forall d, ev = WEPanicRange d -> wh_bucket_index (wh_s s) (wh_n s) d = None) /\
  (forall i k0 k1 ch, ev = WERet i k0 k1 ch -> k1 = wh_nstarted s).
Proof.
  unfold wh_req_step_th. intros H.
  destruct (wh_rpc_of th) as [|i k0|i k0 p|i k0 p x|].
  - destruct (wh_todo th) as [|op rest]; [injection H as <- <-; repeat split; intros; discriminate|].
    destruct (wh_eff_duration (wh_s s) (wh_tint th) op) as [d ti].
    destruct (wh_bucket_index (wh_s s) (wh_n s) d) as [i|] eqn:Ei; injection H as <- <-.
    + split; [|split]; intros; try discriminate. injection H as <- <- <-. split; [exact Ei|reflexivity].
    + split; [|split]; intros; try discriminate. injection H as <-. exact Ei.
  - injection H as <- <-. split; [|split]; intros; discriminate.
  - destruct (nth_error (wh_slots s) ((p + i) mod wh_n s)); [destruct o|]; injection H as <- <-;
      (split; [|split]; intros; try discriminate). injection H as <- <- <- <-. reflexivity.
  - destruct (p =? wh_pos s); injection H as <- <-; (split; [|split]; intros; try discriminate).
    injection H as <- <- <- <-. reflexivity.
  - injection H as <- <-. split; [|split]; intros; discriminate.
Qed.

Definition wh_is_tickret (ev : wh_event) : bool :=
  match ev with WETickRet _ _ => true | _ => false end.

(* everything the theorems need about one step from a state satisfying the invariant *)
Lemma wh_step_event s tid :
  wh_inv s ->
  let s' := fst (wh_step WFixed s tid) in
  let ev := snd (wh_step WFixed s tid) in
  wh_n s' = wh_n s /\ wh_s s' = wh_s s /\
  ev <> WEPanicIndex /\ (forall ch, ev <> WEPanicClose ch) /\
  (forall i k0 k1 ch, ev = WERet i k0 k1 ch -> k0 + i <= ch /\ ch <= k1 + i /\ k1 = wh_nstarted s) /\
  (forall d i k0, ev = WEInv d i k0 -> wh_bucket_index (wh_s s) (wh_n s) d = Some i /\ k0 = wh_nclosed s) /\
  (forall d, ev = WEPanicRange d -> wh_bucket_index (wh_s s) (wh_n s) d = None) /\
  (forall g, ev = WETickInv g -> tid = 0 /\ g = S (wh_nstarted s)) /\
  (if wh_is_tickret ev
   then tid = 0 /\ ev = WETickRet (S (wh_nclosed s)) (wh_nclosed s) /\ wh_nclosed s' = S (wh_nclosed s)
   else wh_nclosed s' = wh_nclosed s).
Proof.
  intros Hinv. destruct tid as [|k].
  - cbn [wh_step]. destruct (wh_tick_step_event s Hinv) as [Hn [Hs Hev]].
    split; [exact Hn|]. split; [exact Hs|].
    destruct Hev as [[Hev Hc] | [[Hev | [Hev | Hev]] Hc]]; rewrite Hev; cbn [wh_is_tickret];
      (split; [discriminate|]); (split; [intros; discriminate|]); (split; [intros; discriminate|]);
      (split; [intros; discriminate|]); (split; [intros; discriminate|]); split; try (intros; discriminate); auto.
    intros g Hg. injection Hg as <-. auto.
  - cbn [wh_step]. destruct (nth_error (wh_threads s) k) as [th|] eqn:En.
    + destruct (wh_req_step_th WFixed s th) as [th' ev] eqn:Est. cbn [fst snd].
      destruct Hinv as [Hg [Ht Hr]].
      assert (Hth : wh_rinv (wh_n s) (wh_nclosed s) (wh_P s) (wh_rpc_of th)).
      { unfold wh_tsinv in Hr. rewrite Forall_forall in Hr. apply Hr. eapply nth_error_In. eassumption. }
      destruct (wh_req_step_th_inv _ _ _ _ Hg Ht Hth Est) as [_ [H1 [H2 [H3 [H4 H5]]]]].
      destruct (wh_req_step_th_event _ _ _ _ _ Est) as [H6 [H7 H8]].
      split; [reflexivity|]. split; [reflexivity|]. split; [exact H1|]. split; [exact H2|].
      split. { intros i k0 k1 ch Hev. destruct (H5 _ _ _ _ Hev). repeat split; try assumption. eapply H8; exact Hev. }
      split; [exact H6|]. split; [exact H7|].
      split. { intros g Hev. exfalso. eapply H3; exact Hev. }
      destruct ev; cbn [wh_is_tickret]; try reflexivity. exfalso. eapply H4. reflexivity.
    + cbn [fst snd wh_is_tickret]. split; [reflexivity|]. split; [reflexivity|].
      split; [discriminate|]. repeat (split; [intros; discriminate|]). reflexivity.
Qed.

(* ------------------------------------------------------------------ runs and traces *)

Lemma wh_run_cons o s i rest :
  wh_run o s (i :: rest) =
  (fst (wh_run o (fst (wh_step o s i)) rest), (i, snd (wh_step o s i)) :: snd (wh_run o (fst (wh_step o s i)) rest)).
Proof.
  cbn [wh_run]. destruct (wh_step o s i) as [s1 ev]. cbn [fst snd].
  destruct (wh_run o s1 rest) as [s2 tr]. reflexivity.
Qed.

Lemma wh_final_cons o s i rest : wh_final o s (i :: rest) = wh_final o (fst (wh_step o s i)) rest.
Proof. unfold wh_final. rewrite wh_run_cons. reflexivity. Qed.

Lemma wh_trace_cons o s i rest :
  wh_trace o s (i :: rest) = (i, snd (wh_step o s i)) :: wh_trace o (fst (wh_step o s i)) rest.
Proof. unfold wh_trace. rewrite wh_run_cons. reflexivity. Qed.

Lemma wh_final_app o s a b : wh_final o s (a ++ b) = wh_final o (wh_final o s a) b.
Proof.
  revert s. induction a as [|i a IH]; intros s; [reflexivity|].
  cbn [app]. rewrite !wh_final_cons. apply IH.
Qed.

Lemma wh_final_inv s sched : wh_inv s -> wh_inv (wh_final WFixed s sched).
Proof.
  revert s. induction sched as [|i r IH]; intros s H; [exact H|].
  rewrite wh_final_cons. apply IH. apply wh_step_inv. exact H.
Qed.

Lemma wh_final_cfg s sched :
  wh_inv s -> wh_n (wh_final WFixed s sched) = wh_n s /\ wh_s (wh_final WFixed s sched) = wh_s s.
Proof.
  revert s. induction sched as [|i r IH]; intros s H; [split; reflexivity|].
  rewrite wh_final_cons. destruct (IH _ (wh_step_inv s i H)) as [H1 H2].
  destruct (wh_step_event s i H) as [H3 [H4 _]]. split; congruence.
Qed.

(* an event of the trace was produced by a step from the state reached by a prefix *)
Lemma wh_trace_in o s sched tid ev :
  In (tid, ev) (wh_trace o s sched) ->
  exists pre post, sched = pre ++ tid :: post /\ snd (wh_step o (wh_final o s pre) tid) = ev.
Proof.
  revert s. induction sched as [|i r IH]; intros s H; [destruct H|].
  rewrite wh_trace_cons in H. destruct H as [H | H].
  - injection H as -> <-. exists [], r. split; reflexivity.
  - destruct (IH _ H) as [pre [post [E1 E2]]]. exists (i :: pre), post. split.
    + cbn [app]. f_equal. exact E1.
    + rewrite wh_final_cons. exact E2.
Qed.

Lemma wh_nclosed_mono s sched : wh_inv s -> wh_nclosed s <= wh_nclosed (wh_final WFixed s sched).
Proof.
  revert s. induction sched as [|i r IH]; intros s H; [cbn; lia|].
  rewrite wh_final_cons. specialize (IH _ (wh_step_inv s i H)).
  destruct (wh_step_event s i H) as [_ [_ [_ [_ [_ [_ [_ [_ Hc]]]]]]]].
  destruct (wh_is_tickret (snd (wh_step WFixed s i))); lia.
Qed.

(* the close events of a trace, in order: (tick number, channel) *)
Fixpoint wh_closes (tr : list (nat * wh_event)) : list (nat * nat) :=
  match tr with
  | [] => []
  | (_, WETickRet g ch) :: r => (g, ch) :: wh_closes r
  | _ :: r => wh_closes r
  end.

Lemma wh_closes_run s sched :
  wh_inv s ->
  wh_closes (wh_trace WFixed s sched)
  = map (fun c => (S c, c)) (seq (wh_nclosed s) (wh_nclosed (wh_final WFixed s sched) - wh_nclosed s)).
Proof.
  revert s. induction sched as [|i r IH]; intros s H.
  - cbn. rewrite Nat.sub_diag. reflexivity.
  - rewrite wh_trace_cons, wh_final_cons.
    pose proof (wh_nclosed_mono _ r (wh_step_inv s i H)) as Hm.
    specialize (IH _ (wh_step_inv s i H)).
    destruct (wh_step_event s i H) as [_ [_ [_ [_ [_ [_ [_ [_ Hc]]]]]]]].
    destruct (snd (wh_step WFixed s i)) eqn:Eev; cbn [wh_is_tickret] in Hc; cbn [wh_closes];
      try (rewrite IH, Hc; reflexivity).
    destruct Hc as [_ [Hev Hc]]. injection Hev as -> ->. rewrite IH, Hc.
    replace (wh_nclosed (wh_final WFixed (fst (wh_step WFixed s i)) r) - wh_nclosed s)
      with (S (wh_nclosed (wh_final WFixed (fst (wh_step WFixed s i)) r) - S (wh_nclosed s))) by lia.
    reflexivity.
Qed.

(* ------------------------------------------------------------------ the property lemmas *)

Definition wh_cfg_ok (s : Z) (n : nat) : Prop := (0 < s)%Z /\ 1 <= n /\ (s * Z.of_nat n < 2 ^ 63)%Z.

Lemma wh_reach_inv s n ticks progs sched :
  wh_cfg_ok s n -> wh_inv (wh_final WFixed (wh_init s n ticks progs) sched).
Proof. intros [H1 [H2 H3]]. apply wh_final_inv. apply wh_init_inv; assumption. Qed.

Lemma wh_fire_window s n ticks progs sched tid i k0 k1 ch :
  wh_cfg_ok s n ->
  In (tid, WERet i k0 k1 ch) (wh_trace WFixed (wh_init s n ticks progs) sched) ->
  let sf := wh_final WFixed (wh_init s n ticks progs) sched in
  exists f, k0 + i + 1 <= f /\ f <= k1 + i + 1 /\
            (forall g, wh_closed_at sf ch = Some g -> g = f) /\
            (f <= wh_nclosed sf -> wh_closed_at sf ch = Some f).
Proof.
  intros Hcfg Hin sf. destruct (wh_trace_in _ _ _ _ _ Hin) as [pre [post [Esched Eev]]].
  pose proof (wh_reach_inv s n ticks progs pre Hcfg) as Hpre.
  destruct (wh_step_event _ tid Hpre) as [_ [_ [_ [_ [Hret _]]]]].
  destruct (Hret _ _ _ _ Eev) as [Hlo [Hhi _]].
  pose proof (wh_reach_inv s n ticks progs sched Hcfg) as [Hg _]. fold sf in Hg.
  exists (S ch). split; [lia|]. split; [lia|]. rewrite (gi_log sf Hg).
  destruct (ch <? wh_nclosed sf) eqn:E.
  - split; [intros g Hg'; injection Hg' as <-; reflexivity|reflexivity].
  - split; [intros g Hg'; discriminate|]. apply Nat.ltb_ge in E. lia.
Qed.

(* the ghost counters carried by the events are the real ones *)
Lemma wh_event_counters s n ticks progs pre tid :
  wh_cfg_ok s n ->
  let s1 := wh_final WFixed (wh_init s n ticks progs) pre in
  let ev := snd (wh_step WFixed s1 tid) in
  (forall d i k0, ev = WEInv d i k0 -> wh_bucket_index s n d = Some i /\ k0 = wh_nclosed s1) /\
  (forall i k0 k1 ch, ev = WERet i k0 k1 ch -> k1 = wh_nstarted s1) /\
  (forall d, ev = WEPanicRange d -> (d < 0 \/ s * Z.of_nat n <= d)%Z) /\
  (forall g, ev = WETickInv g -> g = S (wh_nstarted s1)) /\
  (forall g ch, ev = WETickRet g ch -> g = S (wh_nclosed s1)).
Proof.
  intros Hcfg s1 ev. pose proof (wh_reach_inv s n ticks progs pre Hcfg) as Hinv. fold s1 in Hinv.
  destruct (wh_final_cfg (wh_init s n ticks progs) pre) as [Hn Hs].
  { destruct Hcfg as [H1 [H2 H3]]. apply wh_init_inv; assumption. }
  fold s1 in Hn, Hs. cbn in Hn, Hs.
  destruct (wh_step_event s1 tid Hinv) as [_ [_ [_ [_ [Hret [Hinvk [Hpan [Hti Htr]]]]]]]]. fold ev in Hret, Hinvk, Hpan, Hti, Htr.
  rewrite Hn, Hs in Hinvk, Hpan.
  split; [exact Hinvk|]. split; [intros i k0 k1 ch Hev; apply (Hret _ _ _ _ Hev)|].
  split. { intros d Hev. destruct Hcfg as [H1 [H2 H3]]. apply (wh_index_panic_iff s n d H1 H3). apply Hpan. exact Hev. }
  split; [intros g Hev; apply (Hti g Hev)|].
  intros g ch Hev. rewrite Hev in Htr. cbn [wh_is_tickret] in Htr. destruct Htr as [_ [Htr _]]. congruence.
Qed.

Lemma wh_no_panic s n ticks progs sched tid :
  wh_cfg_ok s n ->
  let tr := wh_trace WFixed (wh_init s n ticks progs) sched in
  ~ In (tid, WEPanicIndex) tr /\ (forall ch, ~ In (tid, WEPanicClose ch) tr) /\
  (forall d, In (tid, WEPanicRange d) tr -> (d < 0 \/ s * Z.of_nat n <= d)%Z).
Proof.
  intros Hcfg tr. split; [|split].
  - intros Hin. destruct (wh_trace_in _ _ _ _ _ Hin) as [pre [post [_ Eev]]].
    destruct (wh_step_event _ tid (wh_reach_inv s n ticks progs pre Hcfg)) as [_ [_ [H _]]]. exact (H Eev).
  - intros ch Hin. destruct (wh_trace_in _ _ _ _ _ Hin) as [pre [post [_ Eev]]].
    destruct (wh_step_event _ tid (wh_reach_inv s n ticks progs pre Hcfg)) as [_ [_ [_ [H _]]]]. exact (H ch Eev).
  - intros d Hin. destruct (wh_trace_in _ _ _ _ _ Hin) as [pre [post [_ Eev]]].
    destruct (wh_event_counters s n ticks progs pre tid Hcfg) as [_ [_ [H _]]]. exact (H d Eev).
Qed.

(* exactly once: the close events of any run are tick 1 closing channel 0, tick 2 closing
   channel 1, ... one per completed tick, and the log agrees *)
Lemma wh_fire_once s n ticks progs sched :
  wh_cfg_ok s n ->
  let sf := wh_final WFixed (wh_init s n ticks progs) sched in
  wh_closes (wh_trace WFixed (wh_init s n ticks progs) sched)
  = map (fun c => (S c, c)) (seq 0 (wh_nclosed sf)) /\
  (forall ch, wh_closed_at sf ch = if ch <? wh_nclosed sf then Some (S ch) else None).
Proof.
  intros [H1 [H2 H3]] sf. split.
  - rewrite (wh_closes_run _ sched (wh_init_inv s n ticks progs H1 H2 H3)). cbn [wh_nclosed wh_init].
    rewrite Nat.sub_0_r. reflexivity.
  - apply gi_log. apply (wh_reach_inv s n ticks progs sched). repeat split; assumption.
Qed.

(* Reset is a fresh request: same step, same event as NewTimer with the effective duration *)
Lemma wh_reset_same o s rest ti x :
  let d := fst (wh_eff_duration (wh_s s) ti (WReset x)) in
  let th op := {| wh_rpc_of := WRIdle; wh_todo := op :: rest; wh_tint := ti |} in
  wh_rpc_of (fst (wh_req_step_th o s (th (WReset x)))) = wh_rpc_of (fst (wh_req_step_th o s (th (WhNew d)))) /\
  snd (wh_req_step_th o s (th (WReset x))) = snd (wh_req_step_th o s (th (WhNew d))) /\
  wh_tint (fst (wh_req_step_th o s (th (WReset x)))) = ti /\
  (d = match x with Some v => if (wh_s s <=? v)%Z then v else ti | None => ti end).
Proof.
  intros d th. subst d th. unfold wh_req_step_th. cbn [wh_rpc_of wh_todo wh_tint wh_eff_duration].
  destruct x as [v|]; cbn [fst];
    destruct (wh_bucket_index (wh_s s) (wh_n s) _); cbn; repeat split; reflexivity.
Qed.

(* the original step order: the request of the D1 replay obtains the fresh channel *)
Lemma wh_orig_refuted :
  let s0 := wh_init 3600000000000 4 5 [[WhNew 0%Z]] in
  let sched := [0;0;0;0; 1;1;1; 0;0; 0;0;0;0;0;0; 0;0;0;0;0;0; 0;0;0;0;0;0; 0;0;0;0;0;0] in
  In (1, WERet 0 0 1 4) (wh_trace WOrig s0 sched) /\
  wh_closed_at (wh_final WOrig s0 sched) 4 = Some 5 /\ 5 > 1 + 0 + 1.
Proof. vm_compute. repeat split; auto 10. Qed.

(* ------------------------------------------------------------------ per-thread protocol (any order) *)

Definition wh_proj (tid : nat) (tr : list (nat * wh_event)) : list wh_event :=
  map snd (filter (fun e => fst e =? tid) tr).

Inductive wh_aut := WAIdle | WARun (i k0 : nat) | WADead.

Definition wh_aut_step (a : wh_aut) (ev : wh_event) : option wh_aut :=
  match a, ev with
  | _, WENone => Some a
  | WAIdle, WEInv _ i k0 => Some (WARun i k0)
  | WAIdle, WEPanicRange _ => Some WADead
  | WARun i k0, WEInt => Some (WARun i k0)
  | WARun i k0, WEPanicIndex => Some WADead
  | WARun i k0, WERet i' k0' _ _ => if (i =? i') && (k0 =? k0') then Some WAIdle else None
  | _, _ => None
  end.

Fixpoint wh_aut_run (a : wh_aut) (evs : list wh_event) : option wh_aut :=
  match evs with
  | [] => Some a
  | e :: r => match wh_aut_step a e with Some a' => wh_aut_run a' r | None => None end
  end.

Definition wh_aut_of_pc (pc : wh_rpc) : wh_aut :=
  match pc with
  | WRIdle => WAIdle
  | WR1 i k0 | WR2 i k0 _ | WR3 i k0 _ _ => WARun i k0
  | WRDead => WADead
  end.

Definition wh_aut_of (s : wh_state) (k : nat) : wh_aut :=
  match nth_error (wh_threads s) k with
  | Some th => wh_aut_of_pc (wh_rpc_of th)
  | None => WADead
  end.

Lemma wh_req_step_aut o s th th' ev :
  wh_req_step_th o s th = (th', ev) ->
  wh_aut_step (wh_aut_of_pc (wh_rpc_of th)) ev = Some (wh_aut_of_pc (wh_rpc_of th')).
Proof.
  unfold wh_req_step_th. intros H.
  destruct (wh_rpc_of th) as [|i k0|i k0 p|i k0 p x|] eqn:Epc.
  - destruct (wh_todo th) as [|op rest]; [injection H as <- <-; rewrite Epc; reflexivity|].
    destruct (wh_eff_duration (wh_s s) (wh_tint th) op) as [d ti].
    destruct (wh_bucket_index (wh_s s) (wh_n s) d) as [i|]; injection H as <- <-; reflexivity.
  - injection H as <- <-. reflexivity.
  - destruct (nth_error (wh_slots s) ((p + i) mod wh_n s)); [destruct o|]; injection H as <- <-;
      cbn; rewrite ?Nat.eqb_refl; reflexivity.
  - destruct (p =? wh_pos s); injection H as <- <-; cbn; rewrite ?Nat.eqb_refl; reflexivity.
  - injection H as <- <-. rewrite Epc. reflexivity.
Qed.

Lemma wh_tick_step_threads o s : wh_threads (fst (wh_tick_step o s)) = wh_threads s.
Proof.
  unfold wh_tick_step. destruct (wh_tpc_of s); try reflexivity.
  - destruct (wh_ticks s); reflexivity.
  - destruct (nth_error (wh_slots s) lp); reflexivity.
  - destruct o; reflexivity.
  - destruct o; reflexivity.
  - destruct (wh_closed_at s last); reflexivity.
Qed.

Lemma wh_thread_protocol_gen o sched : forall s k th,
  nth_error (wh_threads s) k = Some th ->
  wh_aut_run (wh_aut_of_pc (wh_rpc_of th)) (wh_proj (S k) (wh_trace o s sched))
  = Some (wh_aut_of (wh_final o s sched) k).
Proof.
  induction sched as [|i r IH]; intros s k th Hk.
  - cbn. unfold wh_aut_of. rewrite Hk. reflexivity.
  - rewrite wh_trace_cons, wh_final_cons. unfold wh_proj. cbn [filter fst].
    destruct (i =? S k) eqn:Ei.
    + apply Nat.eqb_eq in Ei. subst i. cbn [map snd wh_aut_run].
      cbn [wh_step]. rewrite Hk.
      destruct (wh_req_step_th o s th) as [th' ev] eqn:Est. cbn [fst snd].
      rewrite (wh_req_step_aut _ _ _ _ _ Est).
      apply IH. cbn [wh_threads wh_set_thread].
      rewrite wh_nth_set_nth by (apply nth_error_Some; rewrite Hk; discriminate).
      rewrite Nat.eqb_refl. reflexivity.
    + apply IH. destruct i as [|j].
      * cbn [wh_step]. rewrite wh_tick_step_threads. exact Hk.
      * cbn [wh_step]. destruct (nth_error (wh_threads s) j) as [thj|] eqn:Ej; [|exact Hk].
        destruct (wh_req_step_th o s thj) as [th' ev]. cbn [fst wh_threads wh_set_thread].
        rewrite wh_nth_set_nth by (apply nth_error_Some; rewrite Ej; discriminate).
        replace (k =? j) with false; [exact Hk|].
        symmetry. apply Nat.eqb_neq. apply Nat.eqb_neq in Ei. lia.
Qed.

Lemma wh_thread_protocol o s n ticks progs sched k :
  k < length progs ->
  wh_aut_run WAIdle (wh_proj (S k) (wh_trace o (wh_init s n ticks progs) sched))
  = Some (wh_aut_of (wh_final o (wh_init s n ticks progs) sched) k).
Proof.
  intros Hk.
  destruct (nth_error (wh_threads (wh_init s n ticks progs)) k) as [th|] eqn:E.
  - pose proof (wh_thread_protocol_gen o sched _ _ _ E) as H.
    cbn [wh_threads wh_init] in E. rewrite nth_error_map in E.
    destruct (nth_error progs k); [|discriminate]. injection E as <-. exact H.
  - exfalso. apply nth_error_None in E. cbn [wh_threads wh_init] in E. rewrite map_length in E. lia.
Qed.
