From Got Require Import Base Wheel.
