(* WheelProofs.v -- lemmas about coq/models/Wheel.v (property C03). *)
From Got Require Import Base Wheel.
Local Open Scope Z_scope.

(* ------------------------------------------------------------------ pure arithmetic *)

Lemma wh_max_timeout_id s n :
  0 < s -> s * Z.of_nat n < 2 ^ 63 -> wh_max_timeout s n = s * Z.of_nat n.
Proof.
  intros Hs Hb. unfold wh_max_timeout. apply sext_id; [lia|].
  change (2 ^ (64 - 1)) with (2 ^ 63). split; [|exact Hb].
  assert (0 <= s * Z.of_nat n) by nia. assert (0 < 2 ^ 63) by (apply Z.pow_pos_nonneg; lia). lia.
Qed.

Lemma wh_index_panic_iff s n d :
  0 < s -> s * Z.of_nat n < 2 ^ 63 ->
  (wh_bucket_index s n d = None <-> d < 0 \/ s * Z.of_nat n <= d).
Proof.
  intros Hs Hb. unfold wh_bucket_index. rewrite wh_max_timeout_id by assumption.
  destruct (d <? 0) eqn:E1; destruct (s * Z.of_nat n <=? d) eqn:E2; cbn [orb];
    split; intros H; try discriminate; try reflexivity; lia.
Qed.

Lemma wh_index_value s n d i :
  0 < s -> s * Z.of_nat n < 2 ^ 63 ->
  wh_bucket_index s n d = Some i ->
  0 <= d < s * Z.of_nat n /\ Z.of_nat i = Z.max (d / s) 1 - 1.
Proof.
  intros Hs Hb. unfold wh_bucket_index. rewrite wh_max_timeout_id by assumption.
  destruct (d <? 0) eqn:E1; destruct (s * Z.of_nat n <=? d) eqn:E2; cbn [orb]; try discriminate.
  intros H. injection H as H. split; [lia|].
  assert (0 <= d / s) by (apply Z.div_pos; lia).
  destruct (0 <? d / s) eqn:E3; subst i; rewrite Z2Nat.id; lia.
Qed.

Lemma wh_index_bound s n d i :
  0 < s -> s * Z.of_nat n < 2 ^ 63 ->
  wh_bucket_index s n d = Some i ->
  ((2 <= n)%nat -> (i <= n - 2)%nat) /\ (n = 1%nat -> i = 0%nat).
Proof.
  intros Hs Hb H. destruct (wh_index_value s n d i Hs Hb H) as [Hd Hi].
  assert (Hq : d / s < Z.of_nat n) by (apply Z.div_lt_upper_bound; lia).
  assert (0 <= d / s) by (apply Z.div_pos; lia).
  split; intros Hn; lia.
Qed.

(* the index is what the property calls D/s - 1 *)
Lemma wh_index_D s n d i :
  0 < s -> s * Z.of_nat n < 2 ^ 63 ->
  wh_bucket_index s n d = Some i ->
  Z.max (s * (d / s)) s = s * (Z.of_nat i + 1).
Proof.
  intros Hs Hb H. destruct (wh_index_value s n d i Hs Hb H) as [Hd Hi].
  assert (0 <= d / s) by (apply Z.div_pos; lia). nia.
Qed.

(* tick g happens at time g*s on the wheel's own tick clock; a request that does not overlap
   a tick and is made at clock time r after exactly k ticks (k*s <= r < (k+1)*s) obtains,
   by wh_fire_window with k0 = k1 = k, the channel closed by tick f = k + i + 1 *)
Lemma wh_time_window s n d i k r :
  0 < s -> s * Z.of_nat n < 2 ^ 63 ->
  wh_bucket_index s n d = Some i ->
  k * s <= r < (k + 1) * s ->
  let D := Z.max (s * (d / s)) s in
  let f := k + Z.of_nat i + 1 in
  D - s < f * s - r <= D.
Proof.
  intros Hs Hb H Hr D f. subst D f. rewrite (wh_index_D s n d i Hs Hb H). nia.
Qed.

(* a request overlapping ticks: invoked at clock time r0 (after k0 ticks), returning at r1
   (k1 ticks started); any f allowed by the fire window is less than one step early with
   respect to the invocation and not late with respect to the return *)
Lemma wh_time_window_overlap s n d i k0 k1 r0 r1 f :
  0 < s -> s * Z.of_nat n < 2 ^ 63 ->
  wh_bucket_index s n d = Some i ->
  k0 * s <= r0 < (k0 + 1) * s -> k1 * s <= r1 < (k1 + 1) * s ->
  k0 + Z.of_nat i + 1 <= f <= k1 + Z.of_nat i + 1 ->
  let D := Z.max (s * (d / s)) s in
  D - s < f * s - r0 /\ f * s - r1 <= D.
Proof.
  intros Hs Hb H Hr0 Hr1 Hf D. subst D. rewrite (wh_index_D s n d i Hs Hb H). nia.
Qed.
