(* RaceMutexProofs.v -- the labelled runs of the loom.Mutex model (models/RaceMutex.v):
     rmx_projects         the labelled run advances by mx_step: its final state is mx_final on the
                          RmxRun items of the schedule
     rmx_word_all_atomic  a schedule without client accesses produces synchronisation events only
                          (Lock / Unlock / TryLock / Count / IsLocked never touch the word plainly)
     rmx_race_free        every run - any threads, programs, spin / starvation oracles, observers,
                          client reads and writes of any locations while holding - has no
                          happens-before race
     rmx_sites            TryLock's labels are the operations of its three yield sites
     rmx_trylock_plain_refuted   TryLock with plain accesses of the word races
   Method: monitor invariant (the holder knows every last write and read; when nobody holds, the
   word carries them) on top of the mutual-exclusion invariant mx_inv of MutexExclProofs.v. *)
From Coq Require Import Relations.
From Got Require Import Base ListAux Race RaceProofs RaceHB RaceHBProofs RaceMonLemmas RaceCacheMon.
From Got Require Import MutexWord MutexWordProofs MutexExclProofs RaceAtomicsProofs RaceMutex.
Local Open Scope nat_scope.

Ltac rmx_conds :=
  repeat match goal with
  | H : context [if ?c then _ else _] |- _ => let E := fresh "E" in destruct c eqn:E
  | H : context [match ?t with O => _ | S _ => _ end] |- _ => destruct t
  end.

Lemma rmx_label_sync r th : Forall rm_sync (rmx_label false r th).
Proof.
  unfold rmx_label, rmx_tcas, rmx_tload, rmx_cas. destruct (xpc th);
    repeat match goal with |- context [if ?c then _ else _] => destruct c end;
    repeat constructor.
Qed.

(* a step that changes "holds the mutex" is a successful CAS / an AddInt32 on the word *)
Lemma rmx_step_class r t th r' t' th' ev :
  mx_step_th r t th = (r', t', th', ev) ->
  xh th' = xh th \/ rmx_label false r th = [RAcqRel rmx_word].
Proof.
  destruct th as [pc h todo]. unfold mx_step_th, rmx_label, rmx_tcas, rmx_tload, rmx_cas.
  cbn [xpc xh xtodo]. intros Hs.
  destruct pc; [destruct todo as [|[sp st| |] rest]| | | | | | | | | | | | | | |];
    unfold mx_to_cas, mx_uslow_done in *; rmx_conds; inversion Hs; subst; cbn [xh mx_mkth]; auto.
Qed.

(* ------------------------------------------------------------------ the state after a step *)
Lemma rmx_step_none s i : nth_error (xthreads s) i = None -> fst (mx_step s i) = s.
Proof. intros E. unfold mx_step. rewrite E. reflexivity. Qed.

Lemma rmx_step_threads s i th :
  nth_error (xthreads s) i = Some th ->
  xthreads (fst (mx_step s i)) =
  firstn i (xthreads s) ++ snd (fst (mx_step_th (xword s) (xsema s) th)) :: skipn (S i) (xthreads s).
Proof.
  intros E. unfold mx_step. rewrite E.
  destruct (mx_step_th (xword s) (xsema s) th) as [[[r' t'] th'] ev]. reflexivity.
Qed.

Lemma rmx_next_length s it : length (xthreads (rmx_next s it)) = length (xthreads s).
Proof.
  destruct it as [i|i|i w x]; cbn [rmx_next]; try reflexivity.
  destruct (nth_error (xthreads s) i) as [th|] eqn:E.
  - rewrite (rmx_step_threads s i th E). apply (la_set_length _ _ _ th). exact E.
  - rewrite rmx_step_none by exact E. reflexivity.
Qed.

Lemma rmx_final_cons s i r : mx_final s (i :: r) = mx_final (fst (mx_step s i)) r.
Proof.
  unfold mx_final. cbn [mx_run]. destruct (mx_step s i) as [s1 ev]. cbn [fst]. destruct (mx_run s1 r). reflexivity.
Qed.

Lemma rmx_projects : forall sched s, rmx_final s sched = mx_final s (rmx_base sched).
Proof.
  induction sched as [|it r IH]; intros s; [reflexivity|].
  change (rmx_base (it :: r)) with ((match it with RmxRun i => [i] | _ => [] end) ++ rmx_base r).
  cbn [rmx_final]. rewrite IH. destruct it as [i|i|i w x]; cbn [rmx_next app]; try reflexivity.
  symmetry. apply rmx_final_cons.
Qed.

(* ------------------------------------------------------------------ uniqueness of the holder *)
Lemma rmx_sum_nth f l j (b : mx_thread) : nth_error l j = Some b -> f b <= mx_sum f l.
Proof. intros H. rewrite (mx_sum_split f l j b H). lia. Qed.

Lemma rmx_uniq l : mx_sum mx_wH l <= 1 -> forall i j a b,
  nth_error l i = Some a -> xh a = true -> nth_error l j = Some b -> xh b = true -> i = j.
Proof.
  induction l as [|c l IH]; intros Hs i j a b Ha Hha Hb Hhb; [destruct i; discriminate|].
  assert (Hc : mx_sum mx_wH (c :: l) = mx_wH c + mx_sum mx_wH l) by reflexivity.
  assert (Wa : mx_wH a = 1) by (unfold mx_wH; rewrite Hha; reflexivity).
  assert (Wb : mx_wH b = 1) by (unfold mx_wH; rewrite Hhb; reflexivity).
  destruct i as [|i], j as [|j]; cbn [nth_error] in Ha, Hb.
  - reflexivity.
  - inversion Ha; subst. pose proof (rmx_sum_nth mx_wH l j b Hb) as H. lia.
  - inversion Hb; subst. pose proof (rmx_sum_nth mx_wH l i a Ha) as H. lia.
  - f_equal. apply (IH ltac:(lia) i j a b); assumption.
Qed.

Definition rmx_holds (s : mx_state) (i : nat) : Prop :=
  exists th, nth_error (xthreads s) i = Some th /\ xh th = true.
Definition rmx_free (s : mx_state) : Prop :=
  forall i th, nth_error (xthreads s) i = Some th -> xh th = false.

Lemma rmx_holder_unique s i j : mx_inv s -> rmx_holds s i -> rmx_holds s j -> i = j.
Proof.
  intros [_ (J1 & _)] (a & Ha & Hha) (b & Hb & Hhb).
  apply (rmx_uniq (xthreads s)) with a b; try assumption.
  rewrite J1. unfold mx_b2n. destruct (xl (xword s)); lia.
Qed.

(* ------------------------------------------------------------------ the monitor invariant *)
Section Mx.
Variable N : nat.

Lemma rmx_sync_not_write evs y : Forall rm_sync evs -> ~ In (RWrite y) evs.
Proof. intros H Hi. rewrite Forall_forall in H. apply (H _ Hi). Qed.
Lemma rmx_sync_not_read evs y : Forall rm_sync evs -> ~ In (RRead y) evs.
Proof. intros H Hi. rewrite Forall_forall in H. apply (H _ Hi). Qed.

Lemma rmx_sync_raced evs : forall m t, Forall rm_sync evs -> rc_raced (rm_msteps N m t evs) = rc_raced m.
Proof.
  induction evs as [|e r IH]; intros m t H; [reflexivity|]. inversion H; subst.
  rewrite rm_msteps_cons, IH by assumption. apply rm_sync_raced. assumption.
Qed.

Record rmx_inv (s : mx_state) (m : rc_mon) : Prop := {
  xi_nr : rc_raced m = false;
  xi_mx : mx_inv s;
  xi_hold : forall i, rmx_holds s i -> forall y, rm_K m i y /\ rm_KR m i y;
  xi_free : rmx_free s -> forall y, rm_P m rmx_word y /\ rm_PR m rmx_word y
}.

Lemma rmx_inv_init progs : rmx_inv (mx_init progs) rc_init.
Proof.
  constructor.
  - reflexivity.
  - apply mx_init_inv.
  - intros i _ y. split; [apply rm_K_fresh; reflexivity|apply rm_KR_fresh; reflexivity].
  - intros _ y. split; [apply rm_P_fresh; reflexivity|apply rm_PR_fresh; reflexivity].
Qed.

Lemma rmx_run_inv s m i th :
  rmx_inv s m -> nth_error (xthreads s) i = Some th ->
  rmx_inv (fst (mx_step s i)) (rm_msteps N m i (rmx_label false (xword s) th)).
Proof.
  intros [A1 A2 A3 A4] E.
  pose proof (rmx_step_threads s i th E) as Hth.
  pose proof (mx_step_inv s i A2) as A2'.
  destruct (mx_step_th (xword s) (xsema s) th) as [[[r' t'] th'] ev] eqn:Hs. cbn [fst snd] in Hth.
  pose proof (rmx_step_class _ _ _ _ _ _ _ Hs) as Hcl.
  set (evs := rmx_label false (xword s) th) in *.
  pose proof (rmx_label_sync (xword s) th) as Hsync. fold evs in Hsync.
  set (s' := fst (mx_step s i)) in *.
  assert (Hi' : nth_error (xthreads s') i = Some th').
  { rewrite Hth. apply (la_nth_error_set_same _ _ _ th). exact E. }
  assert (Ho : forall j, j <> i -> nth_error (xthreads s') j = nth_error (xthreads s) j).
  { intros j Hj. rewrite Hth. apply (la_nth_error_set_other' _ i j _ th); [congruence|exact E]. }
  assert (Hkeep : forall j y, rm_K m j y /\ rm_KR m j y -> rm_K (rm_msteps N m i evs) j y /\ rm_KR (rm_msteps N m i evs) j y).
  { intros j y [B1 B2]. split; [apply rm_msteps_K_keep|apply rm_msteps_KR_keep]; try assumption;
      [apply rmx_sync_not_write|apply rmx_sync_not_read]; exact Hsync. }
  constructor.
  - rewrite rmx_sync_raced by exact Hsync. exact A1.
  - exact A2'.
  - intros j (tj & Hj & Hhj) y. destruct (Nat.eq_dec j i) as [->|Hne].
    + rewrite Hi' in Hj. inversion Hj; subst tj. destruct (xh th) eqn:Hh.
      * apply Hkeep. apply A3. exists th. split; assumption.
      * destruct Hcl as [Hcl|Hcl]; [congruence|]. rewrite Hcl.
        assert (Hfree : rmx_free s).
        { intros k tk Hk. destruct (xh tk) eqn:Hhk; [|reflexivity]. exfalso.
          assert (k <> i) by (intros ->; rewrite E in Hk; inversion Hk; subst; congruence).
          assert (k = i); [|contradiction].
          apply (rmx_holder_unique s'); [exact A2'| |].
          - exists tk. split; [rewrite Ho by assumption; exact Hk|exact Hhk].
          - exists th'. split; assumption. }
        destruct (A4 Hfree y) as [B1 B2]. cbn [rm_msteps fold_left]. split.
        -- apply (rm_acq_K N m i (RAcqRel rmx_word) rmx_word); [reflexivity|exact B1].
        -- apply (rm_acq_KR N m i (RAcqRel rmx_word) rmx_word); [reflexivity|exact B2].
    + apply Hkeep. apply A3. exists tj. split; [rewrite <- Ho by exact Hne; exact Hj|exact Hhj].
  - intros Hfree' y. pose proof (Hfree' i th' Hi') as Hh'. destruct (xh th) eqn:Hh.
    + destruct Hcl as [Hcl|Hcl]; [congruence|]. rewrite Hcl.
      destruct (A3 i (ex_intro _ th (conj E Hh)) y) as [B1 B2]. cbn [rm_msteps fold_left]. split.
      * apply (rm_rel_P N m i (RAcqRel rmx_word) rmx_word); [reflexivity|exact B1].
      * apply (rm_rel_PR N m i (RAcqRel rmx_word) rmx_word); [reflexivity|exact B2].
    + assert (Hfree : rmx_free s).
      { intros k tk Hk. destruct (Nat.eq_dec k i) as [->|Hne].
        - rewrite E in Hk. inversion Hk; subst. exact Hh.
        - apply (Hfree' k). rewrite Ho by exact Hne. exact Hk. }
      destruct (A4 Hfree y) as [B1 B2]. split; [apply rm_msteps_P_keep|apply rm_msteps_PR_keep]; try assumption;
        [apply rmx_sync_not_write|apply rmx_sync_not_read]; exact Hsync.
Qed.

Lemma rmx_item_inv s m it :
  rmx_inv s m -> rmx_inv (rmx_next s it) (rm_msteps N m (rmx_tid it) (rmx_events false s it)).
Proof.
  intros Inv. pose proof Inv as [A1 A2 A3 A4]. unfold rmx_events.
  destruct (nth_error (xthreads s) (rmx_tid it)) as [th|] eqn:E.
  - destruct it as [i|i|i w x]; cbn [rmx_tid rmx_next] in *.
    + apply rmx_run_inv; assumption.
    + (* observer: one atomic load *)
      constructor; cbn [rm_msteps fold_left].
      * rewrite rm_sync_raced by exact I. exact A1.
      * exact A2.
      * intros j Hj y. destruct (A3 j Hj y) as [B1 B2].
        split; [apply rm_K_step_keep|apply rm_KR_step_keep]; try assumption; discriminate.
      * intros Hf y. destruct (A4 Hf y) as [B1 B2].
        split; [apply rm_P_step_keep|apply rm_PR_step_keep]; try assumption; discriminate.
    + (* client access while holding *)
      destruct (xh th) eqn:Hh; [|exact Inv].
      assert (Hi : rmx_holds s i) by (exists th; split; assumption).
      destruct (A3 i Hi (rmx_loc x)) as [C1 C2].
      constructor; cbn [rm_msteps fold_left].
      * destruct w; [apply rm_write_ok|apply rm_read_ok]; assumption.
      * exact A2.
      * intros j Hj y. assert (j = i) by (apply (rmx_holder_unique s); assumption). subst j.
        destruct (A3 i Hi y) as [B1 B2]. split; [apply rm_K_own|apply rm_KR_own]; assumption.
      * intros Hf. exfalso. specialize (Hf i th E). congruence.
  - destruct it as [i|i|i w x]; cbn [rmx_tid rmx_next] in *; try exact Inv.
    rewrite rmx_step_none by exact E. exact Inv.
Qed.

Lemma rmx_trace_inv sched : forall s m,
  rmx_inv s m ->
  rc_raced (fold_left (fun m p => rc_step N m (fst p) (snd p)) (rmx_trace s sched) m) = false.
Proof.
  induction sched as [|it r IH]; intros s m Inv; unfold rmx_trace in *; cbn [rmx_trace_gen fold_left].
  - apply (xi_nr _ _ Inv).
  - rewrite rm_run_map. apply IH. apply rmx_item_inv. exact Inv.
Qed.

End Mx.

Lemma rmx_trace_wf plain sched : forall s, hb_wf (length (xthreads s)) (rmx_trace_gen plain s sched).
Proof.
  induction sched as [|it r IH]; intros s; cbn [rmx_trace_gen]; [constructor|].
  apply rm_wf_app.
  - unfold rmx_events. destruct (nth_error (xthreads s) (rmx_tid it)) eqn:E; [|constructor].
    apply rm_wf_map. apply nth_error_Some. congruence.
  - rewrite <- (rmx_next_length s it). apply IH.
Qed.

Theorem rmx_race_free progs sched : ~ hb_race (rmx_trace (mx_init progs) sched).
Proof.
  apply (hbp_agree (length (xthreads (mx_init progs)))); [apply rmx_trace_wf|].
  unfold rc_run. apply rmx_trace_inv. apply rmx_inv_init.
Qed.

Theorem rmx_monitor_spec progs sched :
  rc_raced (rc_run (length progs) (rmx_trace (mx_init progs) sched)) = false
  /\ hb_wf (length progs) (rmx_trace (mx_init progs) sched).
Proof.
  assert (E : length (xthreads (mx_init progs)) = length progs) by (cbn; apply map_length).
  rewrite <- E. split; [|apply rmx_trace_wf]. unfold rc_run. apply rmx_trace_inv. apply rmx_inv_init.
Qed.

(* ------------------------------------------------------------------ the word is only touched atomically *)
Definition rmx_no_client (sched : list rmx_item) : Prop :=
  Forall (fun it => match it with RmxAcc _ _ _ => False | _ => True end) sched.

Lemma rmx_word_all_atomic : forall sched s, rmx_no_client sched -> rm_all_sync (rmx_trace s sched).
Proof.
  induction sched as [|it r IH]; intros s H; [constructor|]. inversion H; subst.
  unfold rmx_trace. cbn [rmx_trace_gen]. apply rm_all_sync_app; [|apply IH; assumption].
  apply rm_all_sync_map. unfold rmx_events. destruct (nth_error (xthreads s) (rmx_tid it)); [|constructor].
  destruct it; [apply rmx_label_sync|repeat constructor|contradiction].
Qed.

Lemma rmx_word_all_atomic_init progs sched :
  Forall (fun it => match it with RmxAcc _ _ _ => False | _ => True end) sched ->
  Forall (fun p => rm_sync (snd p)) (rmx_trace (mx_init progs) sched).
Proof. apply rmx_word_all_atomic. Qed.
Lemma rmx_projects' s sched : rmx_final s sched = mx_final s (rmx_base sched).
Proof. apply rmx_projects. Qed.

(* every event of every run that is not a client access is a synchronisation event on the word *)
Lemma rmx_events_client s it e :
  In e (rmx_events false s it) -> rm_sync e \/ exists i w x, it = RmxAcc i w x.
Proof.
  unfold rmx_events. destruct (nth_error (xthreads s) (rmx_tid it)) as [th|]; [|intros []].
  destruct it as [i|i|i w x].
  - intros H. left. pose proof (rmx_label_sync (xword s) th) as Hs. rewrite Forall_forall in Hs. apply Hs. exact H.
  - intros [<-|[]]. left. exact I.
  - intros _. right. eauto.
Qed.

(* ------------------------------------------------------------------ labels vs. yield sites of TryLock *)
Lemma rmx_sites r th :
  match xpc th with
  | XT1 => rmx_label false r th = [rmx_cas (mx_is_zero r)]          (* site 11: VerifSiteTryLockCas1 *)
  | XT2 => rmx_label false r th = [RAcq rmx_word]                   (* site 12: VerifSiteTryLockLoad *)
  | XT3 old => rmx_label false r th = [rmx_cas (mx_w_eqb r old)]    (* site 13: VerifSiteTryLockCas2 *)
  | _ => True
  end.
Proof. unfold rmx_label. destruct (xpc th); try exact I; reflexivity. Qed.

(* the label of a step is determined by the mx_event of that step (acquire / unlock steps are the
   successful CAS or AddInt32; a failed TryLock only read the word) *)
Lemma rmx_labels_match_events r t th :
  match snd (mx_step_th r t th) with
  | XEAcq _ | XEUnlocked => rmx_label false r th = [RAcqRel rmx_word]
  | XETryFail => rmx_label false r th = [RAcq rmx_word]
  | XEInv | XESkip | XEBlocked | XERet | XENone => rmx_label false r th = []
  | _ => True
  end.
Proof.
  destruct th as [pc h todo]. unfold mx_step_th, rmx_label, rmx_tcas, rmx_tload, rmx_cas.
  cbn [xpc xh xtodo].
  destruct pc; [destruct todo as [|[sp st| |] rest]| | | | | destruct t | | | | | | | | | |];
    unfold mx_to_cas, mx_uslow_done;
    repeat match goal with |- context [if ?c then _ else _] => destruct c eqn:? end; cbn [snd];
    try reflexivity; try exact I.
Qed.

(* ------------------------------------------------------------------ the faulty variant races *)
Lemma rmx_trylock_plain_refuted :
  hb_race (rmx_trace_gen true (mx_init [[XTryLock]; [XTryLock]]) [RmxRun 0; RmxRun 1; RmxRun 0; RmxRun 1]).
Proof. apply (hbp_sound 2). vm_compute. reflexivity. Qed.

Lemma rmx_rows_ok : rmx_rows_in_table = true.
Proof. vm_compute. reflexivity. Qed.
