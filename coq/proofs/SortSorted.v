(* SortSorted.v -- sortedness of the introsort model under a strict weak order.
   Style: partial-correctness reasoning by inversion of the monadic binds; the frame
   facts (termination, in-range indices, outside untouched, permutation) are imported from
   SortProofs.v through srt_spec_elim. *)
From Got Require Import Base Sort SortProofs.
Require Import Permutation Sorted.
Local Open Scope Z_scope.

Section Inversion.
  Context {K V : Type}.
  Variable less : K -> K -> bool.
  Notation ST := (srt_state K V).

  Lemma srt_inv_bind {A B} (m : srt_M A) (f : A -> srt_M B) (s : ST) r :
    srt_bind m f s = SOk r -> exists a s1, m s = SOk (a, s1) /\ f a s1 = SOk r.
  Proof.
    unfold srt_bind. destruct (m s) as [[a s1]| |]; try discriminate. eauto.
  Qed.

  Lemma srt_inv_ret {A} (a b : A) (s s' : ST) : srt_ret a s = SOk (b, s') -> a = b /\ s = s'.
  Proof. unfold srt_ret. intros H. injection H as -> ->. auto. Qed.

  Lemma srt_inv_less i j (s : ST) t s' :
    srt_less less i j s = SOk (t, s') ->
    exists x y, srt_zget (st_keys s) i = Some x /\ srt_zget (st_keys s) j = Some y /\
                t = less x y /\ st_keys s' = st_keys s /\ st_vals s' = st_vals s.
  Proof.
    unfold srt_less. destruct (srt_zget (st_keys s) i) as [x|]; [|discriminate].
    destruct (srt_zget (st_keys s) j) as [y|]; [|discriminate].
    intros H. injection H as <- <-. exists x, y. cbn. auto.
  Qed.

  Lemma srt_inv_swap i j (s : ST) u s' :
    srt_swap i j s = SOk (u, s') ->
    exists x y, srt_zget (st_keys s) i = Some x /\ srt_zget (st_keys s) j = Some y /\
                srt_zget (st_keys s') i = Some y /\ srt_zget (st_keys s') j = Some x /\
                (forall k, k <> i -> k <> j -> srt_zget (st_keys s') k = srt_zget (st_keys s) k).
  Proof.
    unfold srt_swap. destruct (srt_swap_list (st_keys s) i j) as [ks|] eqn:Ek; [|discriminate].
    destruct (srt_swap_list (st_vals s) i j) as [vs|]; [|discriminate].
    intros H. injection H as _ <-. cbn [st_keys].
    unfold srt_swap_list in Ek.
    destruct (srt_zget (st_keys s) i) as [x|] eqn:Ex; [|discriminate].
    destruct (srt_zget (st_keys s) j) as [y|] eqn:Ey; [|discriminate].
    destruct (srt_swap_list_spec _ _ _ _ _ Ex Ey) as (l' & El & _ & _ & H1 & H2 & H3).
    unfold srt_swap_list in El. rewrite Ex, Ey in El. rewrite El in Ek. injection Ek as <-.
    exists x, y. auto.
  Qed.

  Lemma srt_inv_tick k (s : ST) u s' :
    srt_tick k s = SOk (u, s') -> st_keys s' = st_keys s.
  Proof. unfold srt_tick. intros H. injection H as _ <-. reflexivity. Qed.

  (* importing a frame spec for a run that is known to return *)
  Lemma srt_spec_elim {A} lo hi (m : srt_M A) Q (s : ST) a s' :
    srt_spec lo hi m Q -> srt_wf hi s -> m s = SOk (a, s') ->
    srt_frame lo hi s s' /\ srt_wf hi s' /\ Q a (Z.of_N (st_cmp s') - Z.of_N (st_cmp s)).
  Proof.
    intros Hs Hw E. destruct (Hs s Hw) as (a1 & s1 & E1 & F & HQ).
    rewrite E in E1. injection E1 as <- <-. split; [exact F|]. split; [|exact HQ].
    eapply srt_wf_frame; eassumption.
  Qed.
End Inversion.

(* ------------------------------------------------------------------ segments *)
Section Segments.
  Context {A : Type}.

  Definition srt_seg (l : list A) (a b : Z) : list A :=
    firstn (Z.to_nat (b - a)) (skipn (Z.to_nat a) l).

  Lemma nth_error_firstn (n : nat) (l : list A) (i : nat) :
    (i < n)%nat -> nth_error (firstn n l) i = nth_error l i.
  Proof.
    revert l i. induction n as [|n IH]; intros l i H; [lia|].
    destruct l; [destruct i; reflexivity|]. destruct i; [reflexivity|]. cbn. apply IH. lia.
  Qed.

  Lemma srt_firstn_eq (l l' : list A) (n : nat) :
    length l = length l' ->
    (forall i, i < Z.of_nat n -> srt_zget l' i = srt_zget l i) -> firstn n l' = firstn n l.
  Proof.
    intros HL H. apply srt_nth_error_ext. intros i.
    destruct (Nat.lt_ge_cases i n) as [Hi|Hi].
    - rewrite !nth_error_firstn by exact Hi.  specialize (H (Z.of_nat i)).
      rewrite !srt_zget_nat in H by lia. rewrite Nat2Z.id in H. apply H. lia.
    - assert (H1 : nth_error (firstn n l') i = None) by (apply nth_error_None; rewrite firstn_length; lia).
      assert (H2 : nth_error (firstn n l) i = None) by (apply nth_error_None; rewrite firstn_length; lia).
      congruence.
  Qed.

  Lemma srt_skipn_skipn (x y : nat) (l : list A) : skipn x (skipn y l) = skipn (y + x) l.
  Proof.
    revert l. induction y as [|y IH]; intros l; [reflexivity|].
    destruct l; [rewrite !skipn_nil; reflexivity|]. cbn. apply IH.
  Qed.

  Lemma srt_split3 (l : list A) a b :
    0 <= a <= b -> l = firstn (Z.to_nat a) l ++ srt_seg l a b ++ skipn (Z.to_nat b) l.
  Proof.
    intros H. unfold srt_seg.
    rewrite <- (firstn_skipn (Z.to_nat a) l) at 1. f_equal.
    rewrite <- (firstn_skipn (Z.to_nat (b - a)) (skipn (Z.to_nat a) l)) at 1. f_equal.
    rewrite srt_skipn_skipn. f_equal. lia.
  Qed.

  Lemma srt_seg_perm (l l' : list A) a b :
    0 <= a <= b -> length l' = length l -> Permutation l' l ->
    (forall i, i < a \/ b <= i -> srt_zget l' i = srt_zget l i) ->
    Permutation (srt_seg l' a b) (srt_seg l a b).
  Proof.
    intros Hab HL HP Hout.
    rewrite (srt_split3 l a b Hab) in HP at 1. rewrite (srt_split3 l' a b Hab) in HP at 1.
    assert (H1 : firstn (Z.to_nat a) l' = firstn (Z.to_nat a) l).
    { apply srt_firstn_eq; [congruence|]. intros i Hi. apply Hout. lia. }
    assert (H2 : skipn (Z.to_nat b) l' = skipn (Z.to_nat b) l).
    { apply srt_skipn_eq. intros i Hi. apply Hout. lia. }
    rewrite H1, H2 in HP. apply Permutation_app_inv_l in HP. apply Permutation_app_inv_r in HP.
    exact HP.
  Qed.

  Lemma srt_seg_zget (l : list A) a b k :
    0 <= a -> 0 <= k < b - a -> srt_zget (srt_seg l a b) k = srt_zget l (a + k).
  Proof.
    intros Ha Hk. unfold srt_seg. rewrite !srt_zget_nat by lia.
    rewrite nth_error_firstn by lia. rewrite srt_nth_error_skipn. f_equal. lia.
  Qed.

  Lemma srt_seg_length (l : list A) a b :
    0 <= a <= b -> b <= Z.of_nat (length l) -> Z.of_nat (length (srt_seg l a b)) = b - a.
  Proof.
    intros H1 H2. unfold srt_seg. rewrite firstn_length, skipn_length. lia.
  Qed.

  (* every element of l at an index in [a,b) satisfies P *)
  Definition srt_all_on (P : A -> Prop) (l : list A) (a b : Z) : Prop :=
    forall i x, a <= i < b -> srt_zget l i = Some x -> P x.

  Lemma srt_all_on_seg P (l : list A) a b :
    0 <= a <= b -> b <= Z.of_nat (length l) ->
    (srt_all_on P l a b <-> Forall P (srt_seg l a b)).
  Proof.
    intros H1 H2. rewrite Forall_forall. split.
    - intros H x Hx. apply In_nth_error in Hx. destruct Hx as [n Hn].
      assert (Hlt : (n < length (srt_seg l a b))%nat) by (apply nth_error_Some; congruence).
      pose proof (srt_seg_length l a b H1 H2).
      apply (H (a + Z.of_nat n) x); [lia|].
      rewrite <- srt_seg_zget with (b := b) by lia. rewrite srt_zget_nat by lia.
      rewrite Nat2Z.id. exact Hn.
    - intros H i x Hi Hx. apply H.
      replace i with (a + (i - a)) in Hx by lia.
      rewrite <- srt_seg_zget with (b := b) in Hx by lia.
      rewrite srt_zget_nat in Hx by lia. eapply nth_error_In. exact Hx.
  Qed.
End Segments.

Section FrameSeg.
  Context {K V : Type}.
  Notation ST := (srt_state K V).

  (* a property of all keys of the segment survives any computation framed by the segment *)
  Lemma srt_all_on_frame (P : K -> Prop) a b (s s' : ST) :
    0 <= a <= b -> srt_wf b s -> srt_frame a b s s' ->
    srt_all_on P (st_keys s) a b -> srt_all_on P (st_keys s') a b.
  Proof.
    intros Hab [W _] F H.
    pose proof (fr_lenk _ _ _ _ F) as HL.
    apply srt_all_on_seg; [lia|lia|].
    apply srt_all_on_seg in H; [|lia|lia].
    eapply Permutation_Forall; [|exact H]. symmetry.
    apply srt_seg_perm; [lia|exact HL|exact (fr_permk _ _ _ _ F)|exact (fr_outk _ _ _ _ F)].
  Qed.

  (* ... and anything about positions outside the frame is untouched *)
  Lemma srt_all_on_outside (P : K -> Prop) lo hi a b (s s' : ST) :
    srt_frame lo hi s s' -> (b <= lo \/ hi <= a) ->
    srt_all_on P (st_keys s) a b -> srt_all_on P (st_keys s') a b.
  Proof.
    intros F Hd H i x Hi Hx. apply (H i x Hi). rewrite <- (fr_outk _ _ _ _ F); [exact Hx|lia].
  Qed.
End FrameSeg.

(* ------------------------------------------------------------------ order, sortedness *)
Section Order.
  Context {K V : Type}.
  Variable less : K -> K -> bool.
  (* less is a strict weak order *)
  Hypothesis less_irrefl : forall x, less x x = false.
  Hypothesis less_trans : forall x y z, less x y = true -> less y z = true -> less x z = true.
  Hypothesis less_ntrans : forall x y z, less x y = false -> less y z = false -> less x z = false.
  Notation ST := (srt_state K V).

  (* x is not after y *)
  Definition srt_le (x y : K) : Prop := less y x = false.

  Lemma srt_le_refl x : srt_le x x.
  Proof. apply less_irrefl. Qed.

  Lemma srt_le_trans x y z : srt_le x y -> srt_le y z -> srt_le x z.
  Proof. unfold srt_le. intros H1 H2. eapply less_ntrans; eassumption. Qed.

  Lemma srt_lt_le x y : less x y = true -> srt_le x y.
  Proof.
    unfold srt_le. intros H. destruct (less y x) eqn:E; [|reflexivity].
    pose proof (less_trans _ _ _ H E) as C. rewrite less_irrefl in C. discriminate.
  Qed.

  Definition srt_sorted_on (ks : list K) (a b : Z) : Prop :=
    forall i j x y, a <= i -> i < j -> j < b ->
      srt_zget ks i = Some x -> srt_zget ks j = Some y -> srt_le x y.

  Lemma srt_sorted_on_outside lo hi a b (s s' : ST) :
    srt_frame lo hi s s' -> (b <= lo \/ hi <= a) ->
    srt_sorted_on (st_keys s) a b -> srt_sorted_on (st_keys s') a b.
  Proof.
    intros F Hd H i j x y Hi Hij Hj Hx Hy. apply (H i j x y Hi Hij Hj).
    - rewrite <- (fr_outk _ _ _ _ F); [exact Hx|lia].
    - rewrite <- (fr_outk _ _ _ _ F); [exact Hy|lia].
  Qed.

  (* ---------------- insertion sort *)
  Definition srt_ins_pre (ks : list K) (a j i : Z) : Prop :=
    srt_sorted_on ks a j /\ srt_sorted_on ks j (i + 1) /\
    (forall p q x y, a <= p < j -> j < q <= i ->
       srt_zget ks p = Some x -> srt_zget ks q = Some y -> srt_le x y).

  Lemma srt_ins_inner_sorted a i n : forall j (s : ST) u s',
    Z.of_nat n = j - a -> j <= i ->
    srt_ins_pre (st_keys s) a j i ->
    srt_ins_inner less n j s = SOk (u, s') ->
    srt_sorted_on (st_keys s') a (i + 1).
  Proof.
    induction n as [|n IH]; intros j s u s' Hn Hji (H1 & H2 & H3) E; cbn [srt_ins_inner] in E.
    - apply srt_inv_ret in E. destruct E as [_ <-]. replace a with j by lia. exact H2.
    - apply srt_inv_bind in E. destruct E as (t & s1 & E1 & E).
      apply srt_inv_less in E1. destruct E1 as (x & y & Hx & Hy & -> & Hk1 & _).
      destruct (less x y) eqn:Hxy.
      + apply srt_inv_bind in E. destruct E as (u2 & s2 & E2 & E).
        apply srt_inv_swap in E2. rewrite Hk1 in E2.
        destruct E2 as (x' & y' & Hx' & Hy' & Hj2 & Hj1 & Hoth).
        rewrite Hx in Hx'. injection Hx' as <-. rewrite Hy in Hy'. injection Hy' as <-.
        apply srt_lt_le in Hxy.
        assert (View : forall k v, srt_zget (st_keys s2) k = Some v ->
                  (k = j /\ v = y) \/ (k = j - 1 /\ v = x) \/
                  (k <> j /\ k <> j - 1 /\ srt_zget (st_keys s) k = Some v)).
        { intros k v Hv. destruct (Z.eq_dec k j) as [->|N1]; [left; split; congruence|].
          destruct (Z.eq_dec k (j - 1)) as [->|N2]; [right; left; split; congruence|].
          right; right. rewrite <- Hoth by assumption. auto. }
        apply (IH (j - 1) s2 u s'); [lia|lia| |exact E].
        split; [|split].
        * intros p q xp xq Hp Hpq Hq Ep Eq.
          apply View in Ep. apply View in Eq.
          destruct Ep as [[? ?]|[[? ?]|(? & ? & Ep)]]; try lia.
          destruct Eq as [[? ?]|[[? ?]|(? & ? & Eq)]]; try lia.
          apply (H1 p q); auto; lia.
        * intros p q xp xq Hp Hpq Hq Ep Eq.
          apply View in Ep. apply View in Eq.
          destruct Ep as [[? ->]|[[? ->]|(? & ? & Ep)]];
            destruct Eq as [[? ->]|[[? ->]|(? & ? & Eq)]]; try lia.
          -- apply (H3 (j - 1) q); auto; lia.
          -- exact Hxy.
          -- apply (H2 j q); auto; lia.
          -- apply (H2 p q); auto; lia.
        * intros p q xp xq Hp Hq Ep Eq.
          apply View in Ep. apply View in Eq.
          destruct Ep as [[? ->]|[[? ->]|(? & ? & Ep)]]; try lia.
          destruct Eq as [[? ->]|[[? ->]|(? & ? & Eq)]]; try lia.
          -- apply (H1 p (j - 1)); auto; lia.
          -- apply (H3 p q); auto; lia.
      + apply srt_inv_ret in E. destruct E as [_ <-]. rewrite Hk1.
        assert (Hyx : srt_le y x) by exact Hxy.
        intros p q xp xq Hp Hpq Hq Ep Eq.
        destruct (Z.lt_ge_cases q j) as [Q1|Q1]; [apply (H1 p q); auto; lia|].
        destruct (Z.lt_ge_cases p j) as [P1|P1]; [|apply (H2 p q); auto; lia].
        destruct (Z.eq_dec q j) as [->|Q2]; [|apply (H3 p q); auto; lia].
        rewrite Hx in Eq. injection Eq as <-.
        destruct (Z.eq_dec p (j - 1)) as [->|P2].
        * rewrite Hy in Ep. injection Ep as <-. exact Hyx.
        * apply srt_le_trans with y; [|exact Hyx]. apply (H1 p (j - 1)); auto; lia.
  Qed.

  Lemma srt_for_up_inv (Inv : Z -> ST -> Prop) (body : Z -> srt_M unit) n : forall i0 (s : ST) u s',
    (forall k s1 u1 s2, i0 <= k < i0 + Z.of_nat n -> Inv k s1 -> body k s1 = SOk (u1, s2) -> Inv (k + 1) s2) ->
    Inv i0 s -> srt_for_up n i0 body s = SOk (u, s') -> Inv (i0 + Z.of_nat n) s'.
  Proof.
    induction n as [|n IH]; intros i0 s u s' Hb H0 E; cbn [srt_for_up] in E.
    - apply srt_inv_ret in E. destruct E as [_ <-]. replace (i0 + Z.of_nat 0) with i0 by lia. exact H0.
    - apply srt_inv_bind in E. destruct E as (u1 & s1 & E1 & E).
      replace (i0 + Z.of_nat (S n)) with (i0 + 1 + Z.of_nat n) by lia.
      apply (IH (i0 + 1) s1 u s'); [|apply (Hb i0 s u1 s1); [lia|exact H0|exact E1]|exact E].
      intros k sa ua sb Hk. apply Hb. lia.
  Qed.

  Lemma srt_insertion_sort_sorted a b (s : ST) u s' :
    srt_insertion_sort less a b s = SOk (u, s') -> srt_sorted_on (st_keys s') a b.
  Proof.
    unfold srt_insertion_sort, srt_for. intros E.
    destruct (Z.le_gt_cases b (a + 1)) as [Hs|Hl].
    { intros i j x y Hi Hij Hj. lia. }
    apply (srt_for_up_inv (fun k st => srt_sorted_on (st_keys st) a k)) in E.
    - replace (a + 1 + Z.of_nat (Z.to_nat (b - (a + 1)))) with b in E by lia. exact E.
    - intros k s1 u1 s2 Hk Hinv Eb.
      apply (srt_ins_inner_sorted a k (Z.to_nat (k - a)) k s1 u1 s2); [lia|lia| |exact Eb].
      split; [exact Hinv|]. split.
      + intros i j x y Hi Hij Hj. lia.
      + intros p q x y Hp Hq. lia.
    - intros i j x y Hi Hij Hj. lia.
  Qed.

  (* ---------------- quickSort, given the postconditions of doPivot and heapSort *)
  Definition srt_pivot_post (ks : list K) (a b mlo mhi : Z) : Prop :=
    a <= mlo /\ mlo <= mhi /\ mhi <= b /\
    exists p, srt_all_on (fun x => srt_le x p) ks a mlo /\
              srt_all_on (fun x => srt_le x p /\ srt_le p x) ks mlo mhi /\
              srt_all_on (fun x => srt_le p x) ks mhi b.

  (* three-zone partition: keys[a,mlo) <= pivot, keys[mlo,mhi) equivalent to pivot, keys[mhi,b) >= pivot *)
  Definition srt_partition_ok : Prop :=
    forall a b (s : ST) mlo mhi s', 0 <= a -> 12 < b - a -> srt_wf b s ->
      srt_do_pivot less a b s = SOk ((mlo, mhi), s') ->
      srt_pivot_post (st_keys s') a b mlo mhi.

  Definition srt_heapsort_ok : Prop :=
    forall a b (s : ST) u s', 0 <= a -> a <= b -> srt_wf b s ->
      srt_heap_sort less a b s = SOk (u, s') -> srt_sorted_on (st_keys s') a b.

  Lemma srt_sorted_join ks a b mlo mhi p :
    a <= mlo -> mlo <= mhi -> mhi <= b ->
    srt_sorted_on ks a mlo -> srt_sorted_on ks mhi b ->
    srt_all_on (fun x => srt_le x p) ks a mlo ->
    srt_all_on (fun x => srt_le x p /\ srt_le p x) ks mlo mhi ->
    srt_all_on (fun x => srt_le p x) ks mhi b ->
    srt_sorted_on ks a b.
  Proof.
    intros H1 H2 H3 SL SR ZL ZM ZR i j x y Hi Hij Hj Ex Ey.
    destruct (Z.lt_ge_cases j mlo) as [J1|J1]; [apply (SL i j); auto; lia|].
    destruct (Z.lt_ge_cases i mhi) as [I1|I1]; [|apply (SR i j); auto; lia].
    assert (Hxp : srt_le x p).
    { destruct (Z.lt_ge_cases i mlo); [apply (ZL i x); auto; lia|apply (ZM i x); auto; lia]. }
    assert (Hpy : srt_le p y).
    { destruct (Z.lt_ge_cases j mhi); [apply (ZM j y); auto; lia|apply (ZR j y); auto; lia]. }
    eapply srt_le_trans; eassumption.
  Qed.

  Lemma srt_wf_le h h' (s : ST) : h' <= h -> srt_wf h s -> srt_wf h' s.
  Proof. intros H [A B]. split; lia. Qed.

  Lemma srt_quick_sort_sorted :
    srt_partition_ok -> srt_heapsort_ok ->
    forall fuel depth a b (s : ST) u s',
      (depth < fuel)%nat -> 0 <= a -> a <= b -> srt_wf b s ->
      srt_quick_sort less fuel a b depth s = SOk (u, s') ->
      srt_sorted_on (st_keys s') a b.
  Proof.
    intros HP HH. induction fuel as [|f IH]; intros depth a b s u s' Hf Ha Hab Hw E; [lia|].
    cbn [srt_quick_sort] in E.
    destruct (Z.ltb_spec 12 (b - a)) as [Hbig|Hsmall].
    - destruct depth as [|d'].
      + apply srt_inv_bind in E. destruct E as (u1 & s1 & E1 & E).
        destruct (srt_spec_elim a b _ _ s u1 s1 (srt_spec_tick a b _) Hw E1) as (_ & Hw1 & _).
        apply (HH a b s1 u s'); assumption.
      + apply srt_inv_bind in E. destruct E as ([mlo mhi] & s1 & E1 & E).
        destruct (srt_spec_elim a b _ _ s _ s1 (srt_spec_do_pivot less a b Ha Hbig) Hw E1)
          as (_ & Hw1 & Hm). cbn [fst snd] in Hm.
        destruct (HP a b s mlo mhi s1 Ha Hbig Hw E1) as (M1 & M2 & M3 & p & ZL & ZM & ZR).
        destruct (mlo - a <? b - mhi).
        * apply srt_inv_bind in E. destruct E as (u2 & s2 & E2 & E).
          destruct (srt_spec_elim a b _ _ s1 u2 s2 (srt_spec_tick a b _) Hw1 E2) as (_ & Hw2 & _).
          apply srt_inv_tick in E2.
          apply srt_inv_bind in E. destruct E as (u3 & s3 & E3 & E).
          assert (Hw2l : srt_wf mlo s2) by (eapply srt_wf_le; [|exact Hw2]; lia).
          destruct (srt_spec_elim a mlo _ _ s2 u3 s3
                      (srt_spec_quick_sort less a mlo (Z.log2 (mlo - a)) f d' a mlo
                         ltac:(lia) Ha ltac:(lia) M1 ltac:(lia) (Z.log2_nonneg _) ltac:(lia)) Hw2l E3)
            as (F3 & _ & _).
          assert (Hw3 : srt_wf b s3) by (eapply srt_wf_frame; eassumption).
          pose proof (IH d' a mlo s2 u3 s3 ltac:(lia) Ha M1 Hw2l E3) as SL.
          destruct (srt_spec_elim mhi b _ _ s3 u s'
                      (srt_spec_quick_sort less mhi b (Z.log2 (b - mhi)) f d' mhi b
                         ltac:(lia) ltac:(lia) ltac:(lia) M3 ltac:(lia) (Z.log2_nonneg _) ltac:(lia)) Hw3 E)
            as (F4 & _ & _).
          pose proof (IH d' mhi b s3 u s' ltac:(lia) ltac:(lia) M3 Hw3 E) as SR.
          rewrite <- E2 in ZL, ZM, ZR.
          apply (srt_sorted_join _ a b mlo mhi p M1 M2 M3).
          -- eapply srt_sorted_on_outside; [exact F4|lia|exact SL].
          -- exact SR.
          -- eapply srt_all_on_outside; [exact F4|lia|].
             eapply srt_all_on_frame; [| |exact F3|exact ZL]; [lia|exact Hw2l].
          -- eapply srt_all_on_outside; [exact F4|lia|].
             eapply srt_all_on_outside; [exact F3|lia|exact ZM].
          -- eapply srt_all_on_frame; [| |exact F4|]; [lia|exact Hw3|].
             eapply srt_all_on_outside; [exact F3|lia|exact ZR].
        * apply srt_inv_bind in E. destruct E as (u2 & s2 & E2 & E).
          destruct (srt_spec_elim a b _ _ s1 u2 s2 (srt_spec_tick a b _) Hw1 E2) as (_ & Hw2 & _).
          apply srt_inv_tick in E2.
          apply srt_inv_bind in E. destruct E as (u3 & s3 & E3 & E).
          destruct (srt_spec_elim mhi b _ _ s2 u3 s3
                      (srt_spec_quick_sort less mhi b (Z.log2 (b - mhi)) f d' mhi b
                         ltac:(lia) ltac:(lia) ltac:(lia) M3 ltac:(lia) (Z.log2_nonneg _) ltac:(lia)) Hw2 E3)
            as (F3 & Hw3 & _).
          pose proof (IH d' mhi b s2 u3 s3 ltac:(lia) ltac:(lia) M3 Hw2 E3) as SR.
          assert (Hw3l : srt_wf mlo s3) by (eapply srt_wf_le; [|exact Hw3]; lia).
          destruct (srt_spec_elim a mlo _ _ s3 u s'
                      (srt_spec_quick_sort less a mlo (Z.log2 (mlo - a)) f d' a mlo
                         ltac:(lia) Ha ltac:(lia) M1 ltac:(lia) (Z.log2_nonneg _) ltac:(lia)) Hw3l E)
            as (F4 & _ & _).
          pose proof (IH d' a mlo s3 u s' ltac:(lia) Ha M1 Hw3l E) as SL.
          rewrite <- E2 in ZL, ZM, ZR.
          apply (srt_sorted_join _ a b mlo mhi p M1 M2 M3).
          -- exact SL.
          -- eapply srt_sorted_on_outside; [exact F4|lia|exact SR].
          -- eapply srt_all_on_frame; [| |exact F4|]; [lia|exact Hw3l|].
             eapply srt_all_on_outside; [exact F3|lia|exact ZL].
          -- eapply srt_all_on_outside; [exact F4|lia|].
             eapply srt_all_on_outside; [exact F3|lia|exact ZM].
          -- eapply srt_all_on_outside; [exact F4|lia|].
             eapply srt_all_on_frame; [| |exact F3|exact ZR]; [lia|exact Hw2].
    - destruct (Z.ltb_spec 1 (b - a)) as [H2|H1].
      + apply srt_inv_bind in E. destruct E as (u1 & s1 & _ & E).
        apply srt_inv_bind in E. destruct E as (u2 & s2 & _ & E).
        eapply srt_insertion_sort_sorted. exact E.
      + apply srt_inv_ret in E. destruct E as [_ <-]. intros i j x y Hi Hij Hj. lia.
  Qed.

  (* ---------------- heap sort *)
  Definition srt_par (c : Z) : Z := (c - 1) / 2.

  (* node c (relative to first) is not above its parent *)
  Definition srt_hp (ks : list K) (first c : Z) : Prop :=
    forall x y, srt_zget ks (first + c) = Some x -> srt_zget ks (first + srt_par c) = Some y -> srt_le x y.

  Lemma srt_sift_down_heap first hi k : forall fuel r (s : ST) u s',
    0 <= first -> 0 <= k <= r ->
    (forall c, 0 < c < hi -> k <= srt_par c -> srt_par c <> r -> srt_hp (st_keys s) first c) ->
    (forall c, 0 < c < hi -> srt_par c = r -> 0 < r -> k <= srt_par r ->
       forall x y, srt_zget (st_keys s) (first + c) = Some x ->
                   srt_zget (st_keys s) (first + srt_par r) = Some y -> srt_le x y) ->
    srt_sift_down less fuel r hi first s = SOk (u, s') ->
    forall c, 0 < c < hi -> k <= srt_par c -> srt_hp (st_keys s') first c.
  Proof.
    unfold srt_hp, srt_par.
    induction fuel as [|f IH]; intros r s u s' Hfi Hkr HA HB E.
    - cbn [srt_sift_down] in E. destruct (Z.leb_spec hi (2 * r + 1)) as [Hex|Hgo]; [|discriminate].
      apply srt_inv_ret in E. destruct E as [_ <-]. intros c Hc Hk. apply HA; lia.
    - cbn [srt_sift_down] in E. destruct (Z.leb_spec hi (2 * r + 1)) as [Hex|Hgo].
      { apply srt_inv_ret in E. destruct E as [_ <-]. intros c Hc Hk. apply HA; lia. }
      apply srt_inv_bind in E. destruct E as (ch & s1 & E1 & E).
      (* choice of the larger child *)
      assert (Hch : st_keys s1 = st_keys s /\ (ch = 2 * r + 1 \/ ch = 2 * r + 2) /\ ch < hi /\
                    exists vch, srt_zget (st_keys s) (first + ch) = Some vch /\
                      forall c v, 0 < c < hi -> (c - 1) / 2 = r ->
                        srt_zget (st_keys s) (first + c) = Some v -> srt_le v vch).
      { destruct (Z.ltb_spec (2 * r + 1 + 1) hi) as [H2|H2].
        - apply srt_inv_bind in E1. destruct E1 as (t & s0 & E0 & E1).
          apply srt_inv_less in E0. destruct E0 as (x & y & Hx & Hy & -> & Hk0 & _).
          replace (first + (2 * r + 1) + 1) with (first + (2 * r + 1 + 1)) in Hy by lia.
          apply srt_inv_ret in E1. destruct E1 as [<- <-]. split; [exact Hk0|].
          destruct (less x y) eqn:Hxy.
          + split; [lia|]. split; [lia|]. exists y. split; [exact Hy|].
            intros c v Hc Hp Hv. assert (Hcc : c = 2 * r + 1 \/ c = 2 * r + 1 + 1) by lia.
            destruct Hcc as [->| ->].
            * rewrite Hx in Hv. injection Hv as <-. apply srt_lt_le. exact Hxy.
            * rewrite Hy in Hv. injection Hv as <-. apply srt_le_refl.
          + split; [lia|]. split; [lia|]. exists x. split; [exact Hx|].
            intros c v Hc Hp Hv. assert (Hcc : c = 2 * r + 1 \/ c = 2 * r + 1 + 1) by lia.
            destruct Hcc as [->| ->].
            * rewrite Hx in Hv. injection Hv as <-. apply srt_le_refl.
            * rewrite Hy in Hv. injection Hv as <-. exact Hxy.
        - apply srt_inv_ret in E1. destruct E1 as [<- <-]. split; [reflexivity|].
          split; [lia|]. split; [lia|].
          destruct (srt_zget (st_keys s) (first + (2 * r + 1))) as [x|] eqn:Hx.
          + exists x. split; [reflexivity|]. intros c v Hc Hp Hv.
            assert (c = 2 * r + 1) by lia. subst c. rewrite Hx in Hv. injection Hv as <-. apply srt_le_refl.
          + (* no such element: the following Less would have panicked *)
            apply srt_inv_bind in E. destruct E as (t & s2 & E2 & _).
            apply srt_inv_less in E2. destruct E2 as (x & y & _ & Hy & _). congruence. }
      destruct Hch as (Hk1 & Hchv & Hchlt & vch & Hvch & Hmax).
      apply srt_inv_bind in E. destruct E as (t & s2 & E2 & E).
      apply srt_inv_less in E2. rewrite Hk1 in E2.
      destruct E2 as (vr & vch' & Hvr & Hvch' & -> & Hk2 & _).
      rewrite Hvch in Hvch'. injection Hvch' as <-.
      destruct (less vr vch) eqn:Hlt; cbn [negb] in E.
      + apply srt_inv_bind in E. destruct E as (u3 & s3 & E3 & E).
        apply srt_inv_swap in E3. rewrite Hk2 in E3.
        destruct E3 as (x' & y' & Hx' & Hy' & Hr3 & Hc3 & Hoth).
        rewrite Hvr in Hx'. injection Hx' as <-. rewrite Hvch in Hy'. injection Hy' as <-.
        apply srt_lt_le in Hlt.
        assert (View : forall c v, srt_zget (st_keys s3) (first + c) = Some v ->
                  (c = r /\ v = vch) \/ (c = ch /\ v = vr) \/
                  (c <> r /\ c <> ch /\ srt_zget (st_keys s) (first + c) = Some v)).
        { intros c v Hv. destruct (Z.eq_dec c r) as [->|N1]; [left; split; congruence|].
          destruct (Z.eq_dec c ch) as [->|N2]; [right; left; split; congruence|].
          right; right. rewrite <- Hoth by lia. auto. }
        apply (IH ch s3 u s'); [exact Hfi|lia| | |exact E].
        * intros c Hc Hk Hne x y Ex Ey.
          apply View in Ex. apply View in Ey.
          destruct Ex as [[-> ->]|[[-> ->]|(N1 & N2 & Ex)]].
          -- (* c = r: its new value is the old larger child; compare with the parent of r *)
             destruct Ey as [[? ?]|[[? ?]|(_ & _ & Ey)]]; [lia|lia|].
             apply (HB ch); try lia. exact Hvch. exact Ey.
          -- destruct Ey as [[? ->]|[[? ?]|(? & ? & Ey)]]; [exact Hlt|lia|lia].
          -- destruct Ey as [[Hp ->]|[[? ?]|(? & ? & Ey)]]; [|lia|].
             ++ apply (Hmax c x); [lia|lia|exact Ex].
             ++ apply (HA c); try lia. exact Ex. exact Ey.
        * intros c Hc Hp Hch0 Hk x y Ex Ey.
          replace ((ch - 1) / 2) with r in Ey by lia.
          apply View in Ex. apply View in Ey.
          destruct Ex as [[? ?]|[[? ?]|(_ & _ & Ex)]]; [lia|lia|].
          destruct Ey as [[_ ->]|[[? ?]|(? & _ & _)]]; [|lia|lia].
          apply (HA c); try lia. exact Ex. rewrite Hp. exact Hvch.
      + apply srt_inv_ret in E. destruct E as [_ <-]. rewrite Hk2.
        assert (Hle : srt_le vch vr) by exact Hlt.
        intros c Hc Hk. destruct (Z.eq_dec ((c - 1) / 2) r) as [Hp|Hp]; [|apply HA; lia].
        intros x y Ex Ey. rewrite Hp in Ey. rewrite Hvr in Ey. injection Ey as <-.
        apply srt_le_trans with vch; [|exact Hle]. apply (Hmax c x); [lia|exact Hp|exact Ex].
  Qed.

  Lemma srt_for_down_inv (Inv : Z -> ST -> Prop) (body : Z -> srt_M unit) n : forall (s : ST) u s',
    (forall k s1 u1 s2, 0 <= k < Z.of_nat n -> Inv (k + 1) s1 -> body k s1 = SOk (u1, s2) -> Inv k s2) ->
    Inv (Z.of_nat n) s -> srt_for_down n body s = SOk (u, s') -> Inv 0 s'.
  Proof.
    induction n as [|n IH]; intros s u s' Hb H0 E; cbn [srt_for_down] in E.
    - apply srt_inv_ret in E. destruct E as [_ <-]. exact H0.
    - apply srt_inv_bind in E. destruct E as (u1 & s1 & E1 & E).
      apply (IH s1 u s'); [| |exact E].
      + intros k sa ua sb Hk. apply Hb. lia.
      + apply (Hb (Z.of_nat n) s u1 s1); [lia| |exact E1].
        replace (Z.of_nat n + 1) with (Z.of_nat (S n)) by lia. exact H0.
  Qed.

  Definition srt_heap (ks : list K) (first hi k : Z) : Prop :=
    forall c, 0 < c < hi -> k <= srt_par c -> srt_hp ks first c.

  (* in a heap the root is a maximum *)
  Lemma srt_heap_root_max ks first hi :
    0 <= first -> first + hi <= Z.of_nat (length ks) -> srt_heap ks first hi 0 ->
    forall c x y, 0 <= c < hi -> srt_zget ks (first + c) = Some x -> srt_zget ks first = Some y ->
      srt_le x y.
  Proof.
    intros Hf Hlen Hh.
    assert (G : forall n : nat, forall c x y, 0 <= c <= Z.of_nat n -> c < hi ->
               srt_zget ks (first + c) = Some x -> srt_zget ks first = Some y -> srt_le x y).
    { induction n as [|n IH]; intros c x y Hc Hch Ex Ey.
      - assert (c = 0) by lia. subst c. rewrite Z.add_0_r in Ex. rewrite Ex in Ey.
        injection Ey as <-. apply srt_le_refl.
      - destruct (Z.eq_dec c 0) as [->|Hc0].
        { rewrite Z.add_0_r in Ex. rewrite Ex in Ey. injection Ey as <-. apply srt_le_refl. }
        destruct (srt_zget_some ks (first + srt_par c)) as [v Ev]; [unfold srt_par; lia|].
        apply srt_le_trans with v.
        + apply (Hh c); [lia|unfold srt_par; lia|exact Ex|exact Ev].
        + apply (IH (srt_par c) v y); [unfold srt_par; lia|unfold srt_par; lia|exact Ev|exact Ey]. }
    intros c x y Hc. apply (G (Z.to_nat c)); lia.
  Qed.

  (* frame of one siftDown call made by heapSort (fuel = total segment size) *)
  Lemma srt_sift_down_frame first n root h (s : ST) u s' :
    0 <= first -> 0 <= root -> 0 <= h <= n -> srt_wf (first + n) s ->
    srt_sift_down less (Z.to_nat n) root h first s = SOk (u, s') ->
    srt_frame first (first + h) s s' /\ srt_wf (first + n) s'.
  Proof.
    intros Hf Hr Hh Hw E.
    set (kk := Z.to_nat (Z.log2 n)).
    assert (Hn : 0 <= n) by lia.
    assert (Hkk : Z.of_nat kk = Z.log2 n) by (unfold kk; pose proof (Z.log2_nonneg n); lia).
    assert (Hpow : n < 2 ^ (Z.of_nat kk + 1)) by (rewrite Hkk; apply srt_log2_pow; exact Hn).
    assert (HP0 : 0 < 2 ^ (Z.of_nat kk + 1)) by (apply Z.pow_pos_nonneg; lia).
    assert (Hfuel : (kk <= Z.to_nat n)%nat) by (pose proof (Z.log2_le_lin n Hn); lia).
    assert (Hwh : srt_wf (first + h) s) by (eapply srt_wf_le; [|exact Hw]; lia).
    destruct (srt_spec_elim first (first + h) _ _ s u s'
                (srt_spec_sift_down less first (first + h) h first kk (Z.to_nat n) root
                   Hfuel Hf Hr ltac:(nia) ltac:(lia) ltac:(lia)) Hwh E) as (F & _ & _).
    split; [exact F|]. eapply srt_wf_frame; eassumption.
  Qed.

  Lemma srt_heap_sort_sorted : srt_heapsort_ok.
  Proof.
    intros a b s u s' Ha Hab Hw E. unfold srt_heap_sort in E.
    set (n := b - a) in *.
    assert (Hn : 0 <= n) by (unfold n; lia).
    replace b with (a + n) in Hw |- * by (unfold n; lia).
    apply srt_inv_bind in E. destruct E as (u1 & s1 & E1 & E).
    (* phase 1: build the heap *)
    assert (P1 : srt_wf (a + n) s1 /\ srt_heap (st_keys s1) a n 0).
    { apply (srt_for_down_inv (fun k st => srt_wf (a + n) st /\ srt_heap (st_keys st) a n k)) in E1.
      - exact E1.
      - intros k sa ua sb Hk [Hwa Hha] Eb.
        destruct (srt_sift_down_frame a n k n sa ua sb Ha ltac:(lia) ltac:(lia) Hwa Eb) as [_ Hwb].
        split; [exact Hwb|].
        intros c Hc Hkc. apply (srt_sift_down_heap a n k (Z.to_nat n) k sa ua sb Ha ltac:(lia)); try assumption.
        + intros c0 Hc0 Hk0 Hne. apply Hha; [exact Hc0|lia].
        + unfold srt_par. intros c0 Hc0 Hp Hk0 Hk1. lia.
      - split; [exact Hw|]. intros c Hc Hk. exfalso. unfold srt_par in Hk.
        destruct (Z.le_gt_cases n 1); [lia|].
        rewrite Z.quot_div_nonneg in Hk by lia. lia. }
    destruct P1 as [Hw1 Hh1].
    (* phase 2: repeatedly move the maximum behind the heap *)
    apply (srt_for_down_inv (fun k st =>
             srt_wf (a + n) st /\ srt_heap (st_keys st) a k 0 /\
             srt_sorted_on (st_keys st) (a + k) (a + n) /\
             (forall p q x y, a <= p < a + k -> a + k <= q < a + n ->
                srt_zget (st_keys st) p = Some x -> srt_zget (st_keys st) q = Some y -> srt_le x y))) in E.
    - destruct E as (_ & _ & S0 & _). replace (a + 0) with a in S0 by lia. exact S0.
    - intros k sa ua sb Hk (Hwa & Hha & Hsa & Hca) Eb.
      apply srt_inv_bind in Eb. destruct Eb as (u2 & sm & Esw & Esd).
      destruct (srt_spec_elim a (a + n) _ _ sa u2 sm
                  (srt_spec_swap a (a + n) a (a + k) Ha ltac:(lia) ltac:(lia)) Hwa Esw) as (_ & Hwm & _).
      apply srt_inv_swap in Esw.
      destruct Esw as (vx & vy & Hvx & Hvy & Hm1 & Hm2 & Hoth).
      destruct (srt_sift_down_frame a n 0 k sm ua sb Ha ltac:(lia) ltac:(lia) Hwm Esd) as [Fd Hwb].
      assert (Hlen : a + (k + 1) <= Z.of_nat (length (st_keys sa))) by (destruct Hwa; lia).
      assert (RM : forall c x, 0 <= c < k + 1 -> srt_zget (st_keys sa) (a + c) = Some x -> srt_le x vx).
      { intros c x Hc Ex. apply (srt_heap_root_max (st_keys sa) a (k + 1) Ha Hlen Hha c x vx Hc Ex Hvx). }
      (* view of the array after the swap *)
      assert (View : forall p v, srt_zget (st_keys sm) p = Some v ->
                (p = a + k /\ v = vx) \/ ((p = a /\ k <> 0) /\ v = vy) \/
                (p <> a /\ p <> a + k /\ srt_zget (st_keys sa) p = Some v)).
      { intros p v Hv. destruct (Z.eq_dec p (a + k)) as [->|N1]; [left; split; congruence|].
        destruct (Z.eq_dec p a) as [->|N2]; [right; left; split; [lia|congruence]|].
        right; right. rewrite <- Hoth by assumption. auto. }
      split; [exact Hwb|]. split; [|split].
      + intros c Hc Hkc. apply (srt_sift_down_heap a k 0 (Z.to_nat n) 0 sm ua sb Ha ltac:(lia)); try assumption.
        * intros c0 Hc0 Hk0 Hne x y Ex Ey. unfold srt_par in *.
          apply View in Ex. apply View in Ey.
          destruct Ex as [[? ?]|[[? ?]|(_ & _ & Ex)]]; [lia|lia|].
          destruct Ey as [[? ?]|[[? ?]|(_ & _ & Ey)]]; [lia|lia|].
          apply (Hha c0); [lia|unfold srt_par; lia|exact Ex|exact Ey].
        * intros c0 Hc0 Hp Hr0. lia.
      + intros p q x y Hp Hpq Hq Ex Ey.
        rewrite (fr_outk _ _ _ _ Fd) in Ex by lia. rewrite (fr_outk _ _ _ _ Fd) in Ey by lia.
        apply View in Ex. apply View in Ey.
        destruct Ey as [[? ?]|[[? ?]|(_ & _ & Ey)]]; [lia|lia|].
        destruct Ex as [[? ->]|[[? ?]|(? & ? & Ex)]]; [|lia|].
        * apply (Hca a q); [lia|lia|exact Hvx|exact Ey].
        * apply (Hsa p q); [lia|lia|lia|exact Ex|exact Ey].
      + intros p q x y Hp Hq Ex Ey.
        rewrite (fr_outk _ _ _ _ Fd) in Ey by lia.
        assert (AO : srt_all_on (fun z => srt_le z y) (st_keys sm) a (a + k)).
        { intros p0 z Hp0 Ez. apply View in Ez. apply View in Ey.
          destruct Ey as [[_ ->]|[[? ?]|(? & ? & Ey)]]; [|lia|].
          - destruct Ez as [[? ?]|[[_ ->]|(_ & _ & Ez)]]; [lia| |].
            + apply (RM k); [lia|exact Hvy].
            + apply (RM (p0 - a)); [lia|]. replace (a + (p0 - a)) with p0 by lia. exact Ez.
          - destruct Ez as [[? ?]|[[_ ->]|(_ & _ & Ez)]]; [lia| |].
            + apply (Hca (a + k) q); [lia|lia|exact Hvy|exact Ey].
            + apply (Hca p0 q); [lia|lia|exact Ez|exact Ey]. }
        assert (Hwmk : srt_wf (a + k) sm) by (eapply srt_wf_le; [|exact Hwm]; lia).
        apply (srt_all_on_frame _ a (a + k) sm sb ltac:(lia) Hwmk Fd AO p x); [lia|exact Ex].
    - rewrite Z2Nat.id by lia. split; [exact Hw1|]. split; [exact Hh1|]. split.
      + intros i j x y Hi Hij Hj. lia.
      + intros p q x y Hp Hq. lia.
  Qed.

  (* ---------------- SliceBy *)
  Lemma srt_sorted_strongly (R : K -> K -> Prop) (l : list K) :
    (forall i j x y, (i < j)%nat -> nth_error l i = Some x -> nth_error l j = Some y -> R x y) ->
    StronglySorted R l.
  Proof.
    induction l as [|x l IH]; intros H; [constructor|]. constructor.
    - apply IH. intros i j a b Hij Ha Hb. apply (H (S i) (S j)); [lia|exact Ha|exact Hb].
    - apply Forall_forall. intros y Hy. apply In_nth_error in Hy. destruct Hy as [j Hj].
      apply (H O (S j)); [lia|reflexivity|exact Hj].
  Qed.

  Lemma srt_sorted_on_strongly (ks : list K) (n : nat) :
    srt_sorted_on ks 0 (Z.of_nat n) -> StronglySorted srt_le (firstn n ks).
  Proof.
    intros H. apply srt_sorted_strongly. intros i j x y Hij Ex Ey.
    assert (Hj : (j < n)%nat).
    { assert (j < length (firstn n ks))%nat by (apply nth_error_Some; congruence).
      rewrite firstn_length in *. lia. }
    rewrite nth_error_firstn in Ex by lia. rewrite nth_error_firstn in Ey by lia.
    apply (H (Z.of_nat i) (Z.of_nat j)); try lia; rewrite srt_zget_nat by lia; rewrite Nat2Z.id; assumption.
  Qed.

  (* sortedness of SliceBy's result, given the three-zone postcondition of doPivot *)
  Lemma sliceby_sorted_given_partition (keys : list K) (vals : list V) s' :
    srt_partition_ok ->
    srt_sliceby less keys vals = SOk s' ->
    StronglySorted srt_le (firstn (Nat.min (length keys) (length vals)) (st_keys s')).
  Proof.
    intros HP E. apply srt_sorted_on_strongly.
    unfold srt_sliceby, srt_sliceby_fuel in E.
    set (n := Z.min (Z.of_nat (length keys)) (Z.of_nat (length vals))) in *.
    replace (Z.of_nat (Nat.min (length keys) (length vals))) with n by (unfold n; lia).
    destruct (Z.leb_spec n 1) as [H1|H1].
    - injection E as <-. intros i j x y Hi Hij Hj. lia.
    - destruct (srt_quick_sort less (S (srt_max_depth n)) 0 n (srt_max_depth n) (srt_init keys vals))
        as [[u s1]| |] eqn:Eq; try discriminate.
      injection E as <-.
      apply (srt_quick_sort_sorted HP srt_heap_sort_sorted (S (srt_max_depth n)) (srt_max_depth n) 0 n (srt_init keys vals) u s1); try lia.
      + unfold srt_wf, srt_init, n. cbn [st_keys st_vals]. lia.
      + exact Eq.
  Qed.
End Order.
