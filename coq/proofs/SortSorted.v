(* SortSorted.v -- sortedness of the introsort model under a strict weak order.
   Style: partial-correctness reasoning by inversion of the monadic binds; the frame
   facts (termination, in-range indices, outside untouched, permutation) are imported from
   SortProofs.v through srt_spec_elim. *)
From Got Require Import Base Sort SortProofs.
Require Import Permutation Sorted.
Local Open Scope Z_scope.

Section Inversion.
  Context {K V : Type}.
  Variable less : K -> K -> bool.
  Notation ST := (srt_state K V).

  Lemma srt_inv_bind {A B} (m : srt_M A) (f : A -> srt_M B) (s : ST) r :
    srt_bind m f s = SOk r -> exists a s1, m s = SOk (a, s1) /\ f a s1 = SOk r.
  Proof.
    unfold srt_bind. destruct (m s) as [[a s1]| |]; try discriminate. eauto.
  Qed.

  Lemma srt_inv_ret {A} (a b : A) (s s' : ST) : srt_ret a s = SOk (b, s') -> a = b /\ s = s'.
  Proof. unfold srt_ret. intros H. injection H as -> ->. auto. Qed.

  Lemma srt_inv_less i j (s : ST) t s' :
    srt_less less i j s = SOk (t, s') ->
    exists x y, srt_zget (st_keys s) i = Some x /\ srt_zget (st_keys s) j = Some y /\
                t = less x y /\ st_keys s' = st_keys s /\ st_vals s' = st_vals s.
  Proof.
    unfold srt_less. destruct (srt_zget (st_keys s) i) as [x|]; [|discriminate].
    destruct (srt_zget (st_keys s) j) as [y|]; [|discriminate].
    intros H. injection H as <- <-. exists x, y. cbn. auto.
  Qed.

  Lemma srt_inv_swap i j (s : ST) u s' :
    srt_swap i j s = SOk (u, s') ->
    exists x y, srt_zget (st_keys s) i = Some x /\ srt_zget (st_keys s) j = Some y /\
                srt_zget (st_keys s') i = Some y /\ srt_zget (st_keys s') j = Some x /\
                (forall k, k <> i -> k <> j -> srt_zget (st_keys s') k = srt_zget (st_keys s) k).
  Proof.
    unfold srt_swap. destruct (srt_swap_list (st_keys s) i j) as [ks|] eqn:Ek; [|discriminate].
    destruct (srt_swap_list (st_vals s) i j) as [vs|]; [|discriminate].
    intros H. injection H as _ <-. cbn [st_keys].
    unfold srt_swap_list in Ek.
    destruct (srt_zget (st_keys s) i) as [x|] eqn:Ex; [|discriminate].
    destruct (srt_zget (st_keys s) j) as [y|] eqn:Ey; [|discriminate].
    destruct (srt_swap_list_spec _ _ _ _ _ Ex Ey) as (l' & El & _ & _ & H1 & H2 & H3).
    unfold srt_swap_list in El. rewrite Ex, Ey in El. rewrite El in Ek. injection Ek as <-.
    exists x, y. auto.
  Qed.

  Lemma srt_inv_tick k (s : ST) u s' :
    srt_tick k s = SOk (u, s') -> st_keys s' = st_keys s.
  Proof. unfold srt_tick. intros H. injection H as _ <-. reflexivity. Qed.

  (* importing a frame spec for a run that is known to return *)
  Lemma srt_spec_elim {A} lo hi (m : srt_M A) Q (s : ST) a s' :
    srt_spec lo hi m Q -> srt_wf hi s -> m s = SOk (a, s') ->
    srt_frame lo hi s s' /\ srt_wf hi s' /\ Q a (Z.of_N (st_cmp s') - Z.of_N (st_cmp s)).
  Proof.
    intros Hs Hw E. destruct (Hs s Hw) as (a1 & s1 & E1 & F & HQ).
    rewrite E in E1. injection E1 as <- <-. split; [exact F|]. split; [|exact HQ].
    eapply srt_wf_frame; eassumption.
  Qed.
End Inversion.

(* ------------------------------------------------------------------ segments *)
Section Segments.
  Context {A : Type}.

  Definition srt_seg (l : list A) (a b : Z) : list A :=
    firstn (Z.to_nat (b - a)) (skipn (Z.to_nat a) l).

  Lemma nth_error_firstn (n : nat) (l : list A) (i : nat) :
    (i < n)%nat -> nth_error (firstn n l) i = nth_error l i.
  Proof.
    revert l i. induction n as [|n IH]; intros l i H; [lia|].
    destruct l; [destruct i; reflexivity|]. destruct i; [reflexivity|]. cbn. apply IH. lia.
  Qed.

  Lemma srt_firstn_eq (l l' : list A) (n : nat) :
    length l = length l' ->
    (forall i, i < Z.of_nat n -> srt_zget l' i = srt_zget l i) -> firstn n l' = firstn n l.
  Proof.
    intros HL H. apply srt_nth_error_ext. intros i.
    destruct (Nat.lt_ge_cases i n) as [Hi|Hi].
    - rewrite !nth_error_firstn by exact Hi.  specialize (H (Z.of_nat i)).
      rewrite !srt_zget_nat in H by lia. rewrite Nat2Z.id in H. apply H. lia.
    - assert (H1 : nth_error (firstn n l') i = None) by (apply nth_error_None; rewrite firstn_length; lia).
      assert (H2 : nth_error (firstn n l) i = None) by (apply nth_error_None; rewrite firstn_length; lia).
      congruence.
  Qed.

  Lemma srt_skipn_skipn (x y : nat) (l : list A) : skipn x (skipn y l) = skipn (y + x) l.
  Proof.
    revert l. induction y as [|y IH]; intros l; [reflexivity|].
    destruct l; [rewrite !skipn_nil; reflexivity|]. cbn. apply IH.
  Qed.

  Lemma srt_split3 (l : list A) a b :
    0 <= a <= b -> l = firstn (Z.to_nat a) l ++ srt_seg l a b ++ skipn (Z.to_nat b) l.
  Proof.
    intros H. unfold srt_seg.
    rewrite <- (firstn_skipn (Z.to_nat a) l) at 1. f_equal.
    rewrite <- (firstn_skipn (Z.to_nat (b - a)) (skipn (Z.to_nat a) l)) at 1. f_equal.
    rewrite srt_skipn_skipn. f_equal. lia.
  Qed.

  Lemma srt_seg_perm (l l' : list A) a b :
    0 <= a <= b -> length l' = length l -> Permutation l' l ->
    (forall i, i < a \/ b <= i -> srt_zget l' i = srt_zget l i) ->
    Permutation (srt_seg l' a b) (srt_seg l a b).
  Proof.
    intros Hab HL HP Hout.
    rewrite (srt_split3 l a b Hab) in HP at 1. rewrite (srt_split3 l' a b Hab) in HP at 1.
    assert (H1 : firstn (Z.to_nat a) l' = firstn (Z.to_nat a) l).
    { apply srt_firstn_eq; [congruence|]. intros i Hi. apply Hout. lia. }
    assert (H2 : skipn (Z.to_nat b) l' = skipn (Z.to_nat b) l).
    { apply srt_skipn_eq. intros i Hi. apply Hout. lia. }
    rewrite H1, H2 in HP. apply Permutation_app_inv_l in HP. apply Permutation_app_inv_r in HP.
    exact HP.
  Qed.

  Lemma srt_seg_zget (l : list A) a b k :
    0 <= a -> 0 <= k < b - a -> srt_zget (srt_seg l a b) k = srt_zget l (a + k).
  Proof.
    intros Ha Hk. unfold srt_seg. rewrite !srt_zget_nat by lia.
    rewrite nth_error_firstn by lia. rewrite srt_nth_error_skipn. f_equal. lia.
  Qed.

  Lemma srt_seg_length (l : list A) a b :
    0 <= a <= b -> b <= Z.of_nat (length l) -> Z.of_nat (length (srt_seg l a b)) = b - a.
  Proof.
    intros H1 H2. unfold srt_seg. rewrite firstn_length, skipn_length. lia.
  Qed.

  (* every element of l at an index in [a,b) satisfies P *)
  Definition srt_all_on (P : A -> Prop) (l : list A) (a b : Z) : Prop :=
    forall i x, a <= i < b -> srt_zget l i = Some x -> P x.

  Lemma srt_all_on_seg P (l : list A) a b :
    0 <= a <= b -> b <= Z.of_nat (length l) ->
    (srt_all_on P l a b <-> Forall P (srt_seg l a b)).
  Proof.
    intros H1 H2. rewrite Forall_forall. split.
    - intros H x Hx. apply In_nth_error in Hx. destruct Hx as [n Hn].
      assert (Hlt : (n < length (srt_seg l a b))%nat) by (apply nth_error_Some; congruence).
      pose proof (srt_seg_length l a b H1 H2).
      apply (H (a + Z.of_nat n) x); [lia|].
      rewrite <- srt_seg_zget with (b := b) by lia. rewrite srt_zget_nat by lia.
      rewrite Nat2Z.id. exact Hn.
    - intros H i x Hi Hx. apply H.
      replace i with (a + (i - a)) in Hx by lia.
      rewrite <- srt_seg_zget with (b := b) in Hx by lia.
      rewrite srt_zget_nat in Hx by lia. eapply nth_error_In. exact Hx.
  Qed.
End Segments.

Section FrameSeg.
  Context {K V : Type}.
  Notation ST := (srt_state K V).

  (* a property of all keys of the segment survives any computation framed by the segment *)
  Lemma srt_all_on_frame (P : K -> Prop) a b (s s' : ST) :
    0 <= a <= b -> srt_wf b s -> srt_frame a b s s' ->
    srt_all_on P (st_keys s) a b -> srt_all_on P (st_keys s') a b.
  Proof.
    intros Hab [W _] F H.
    pose proof (fr_lenk _ _ _ _ F) as HL.
    apply srt_all_on_seg; [lia|lia|].
    apply srt_all_on_seg in H; [|lia|lia].
    eapply Permutation_Forall; [|exact H]. symmetry.
    apply srt_seg_perm; [lia|exact HL|exact (fr_permk _ _ _ _ F)|exact (fr_outk _ _ _ _ F)].
  Qed.

  (* ... and anything about positions outside the frame is untouched *)
  Lemma srt_all_on_outside (P : K -> Prop) lo hi a b (s s' : ST) :
    srt_frame lo hi s s' -> (b <= lo \/ hi <= a) ->
    srt_all_on P (st_keys s) a b -> srt_all_on P (st_keys s') a b.
  Proof.
    intros F Hd H i x Hi Hx. apply (H i x Hi). rewrite <- (fr_outk _ _ _ _ F); [exact Hx|lia].
  Qed.
End FrameSeg.

(* ------------------------------------------------------------------ order, sortedness *)
Section Order.
  Context {K V : Type}.
  Variable less : K -> K -> bool.
  (* less is a strict weak order *)
  Hypothesis less_irrefl : forall x, less x x = false.
  Hypothesis less_trans : forall x y z, less x y = true -> less y z = true -> less x z = true.
  Hypothesis less_ntrans : forall x y z, less x y = false -> less y z = false -> less x z = false.
  Notation ST := (srt_state K V).

  (* x is not after y *)
  Definition srt_le (x y : K) : Prop := less y x = false.

  Lemma srt_le_refl x : srt_le x x.
  Proof. apply less_irrefl. Qed.

  Lemma srt_le_trans x y z : srt_le x y -> srt_le y z -> srt_le x z.
  Proof. unfold srt_le. intros H1 H2. eapply less_ntrans; eassumption. Qed.

  Lemma srt_lt_le x y : less x y = true -> srt_le x y.
  Proof.
    unfold srt_le. intros H. destruct (less y x) eqn:E; [|reflexivity].
    pose proof (less_trans _ _ _ H E) as C. rewrite less_irrefl in C. discriminate.
  Qed.

  Definition srt_sorted_on (ks : list K) (a b : Z) : Prop :=
    forall i j x y, a <= i -> i < j -> j < b ->
      srt_zget ks i = Some x -> srt_zget ks j = Some y -> srt_le x y.

  Lemma srt_sorted_on_outside lo hi a b (s s' : ST) :
    srt_frame lo hi s s' -> (b <= lo \/ hi <= a) ->
    srt_sorted_on (st_keys s) a b -> srt_sorted_on (st_keys s') a b.
  Proof.
    intros F Hd H i j x y Hi Hij Hj Hx Hy. apply (H i j x y Hi Hij Hj).
    - rewrite <- (fr_outk _ _ _ _ F); [exact Hx|lia].
    - rewrite <- (fr_outk _ _ _ _ F); [exact Hy|lia].
  Qed.

  (* ---------------- insertion sort *)
  Definition srt_ins_pre (ks : list K) (a j i : Z) : Prop :=
    srt_sorted_on ks a j /\ srt_sorted_on ks j (i + 1) /\
    (forall p q x y, a <= p < j -> j < q <= i ->
       srt_zget ks p = Some x -> srt_zget ks q = Some y -> srt_le x y).

  Lemma srt_ins_inner_sorted a i n : forall j (s : ST) u s',
    Z.of_nat n = j - a -> j <= i ->
    srt_ins_pre (st_keys s) a j i ->
    srt_ins_inner less n j s = SOk (u, s') ->
    srt_sorted_on (st_keys s') a (i + 1).
  Proof.
    induction n as [|n IH]; intros j s u s' Hn Hji (H1 & H2 & H3) E; cbn [srt_ins_inner] in E.
    - apply srt_inv_ret in E. destruct E as [_ <-]. replace a with j by lia. exact H2.
    - apply srt_inv_bind in E. destruct E as (t & s1 & E1 & E).
      apply srt_inv_less in E1. destruct E1 as (x & y & Hx & Hy & -> & Hk1 & _).
      destruct (less x y) eqn:Hxy.
      + apply srt_inv_bind in E. destruct E as (u2 & s2 & E2 & E).
        apply srt_inv_swap in E2. rewrite Hk1 in E2.
        destruct E2 as (x' & y' & Hx' & Hy' & Hj2 & Hj1 & Hoth).
        rewrite Hx in Hx'. injection Hx' as <-. rewrite Hy in Hy'. injection Hy' as <-.
        apply srt_lt_le in Hxy.
        assert (View : forall k v, srt_zget (st_keys s2) k = Some v ->
                  (k = j /\ v = y) \/ (k = j - 1 /\ v = x) \/
                  (k <> j /\ k <> j - 1 /\ srt_zget (st_keys s) k = Some v)).
        { intros k v Hv. destruct (Z.eq_dec k j) as [->|N1]; [left; split; congruence|].
          destruct (Z.eq_dec k (j - 1)) as [->|N2]; [right; left; split; congruence|].
          right; right. rewrite <- Hoth by assumption. auto. }
        apply (IH (j - 1) s2 u s'); [lia|lia| |exact E].
        split; [|split].
        * intros p q xp xq Hp Hpq Hq Ep Eq.
          apply View in Ep. apply View in Eq.
          destruct Ep as [[? ?]|[[? ?]|(? & ? & Ep)]]; try lia.
          destruct Eq as [[? ?]|[[? ?]|(? & ? & Eq)]]; try lia.
          apply (H1 p q); auto; lia.
        * intros p q xp xq Hp Hpq Hq Ep Eq.
          apply View in Ep. apply View in Eq.
          destruct Ep as [[? ->]|[[? ->]|(? & ? & Ep)]];
            destruct Eq as [[? ->]|[[? ->]|(? & ? & Eq)]]; try lia.
          -- apply (H3 (j - 1) q); auto; lia.
          -- exact Hxy.
          -- apply (H2 j q); auto; lia.
          -- apply (H2 p q); auto; lia.
        * intros p q xp xq Hp Hq Ep Eq.
          apply View in Ep. apply View in Eq.
          destruct Ep as [[? ->]|[[? ->]|(? & ? & Ep)]]; try lia.
          destruct Eq as [[? ->]|[[? ->]|(? & ? & Eq)]]; try lia.
          -- apply (H1 p (j - 1)); auto; lia.
          -- apply (H3 p q); auto; lia.
      + apply srt_inv_ret in E. destruct E as [_ <-]. rewrite Hk1.
        assert (Hyx : srt_le y x) by exact Hxy.
        intros p q xp xq Hp Hpq Hq Ep Eq.
        destruct (Z.lt_ge_cases q j) as [Q1|Q1]; [apply (H1 p q); auto; lia|].
        destruct (Z.lt_ge_cases p j) as [P1|P1]; [|apply (H2 p q); auto; lia].
        destruct (Z.eq_dec q j) as [->|Q2]; [|apply (H3 p q); auto; lia].
        rewrite Hx in Eq. injection Eq as <-.
        destruct (Z.eq_dec p (j - 1)) as [->|P2].
        * rewrite Hy in Ep. injection Ep as <-. exact Hyx.
        * apply srt_le_trans with y; [|exact Hyx]. apply (H1 p (j - 1)); auto; lia.
  Qed.

  Lemma srt_for_up_inv (Inv : Z -> ST -> Prop) (body : Z -> srt_M unit) n : forall i0 (s : ST) u s',
    (forall k s1 u1 s2, i0 <= k < i0 + Z.of_nat n -> Inv k s1 -> body k s1 = SOk (u1, s2) -> Inv (k + 1) s2) ->
    Inv i0 s -> srt_for_up n i0 body s = SOk (u, s') -> Inv (i0 + Z.of_nat n) s'.
  Proof.
    induction n as [|n IH]; intros i0 s u s' Hb H0 E; cbn [srt_for_up] in E.
    - apply srt_inv_ret in E. destruct E as [_ <-]. replace (i0 + Z.of_nat 0) with i0 by lia. exact H0.
    - apply srt_inv_bind in E. destruct E as (u1 & s1 & E1 & E).
      replace (i0 + Z.of_nat (S n)) with (i0 + 1 + Z.of_nat n) by lia.
      apply (IH (i0 + 1) s1 u s'); [|apply (Hb i0 s u1 s1); [lia|exact H0|exact E1]|exact E].
      intros k sa ua sb Hk. apply Hb. lia.
  Qed.

  Lemma srt_insertion_sort_sorted a b (s : ST) u s' :
    srt_insertion_sort less a b s = SOk (u, s') -> srt_sorted_on (st_keys s') a b.
  Proof.
    unfold srt_insertion_sort, srt_for. intros E.
    destruct (Z.le_gt_cases b (a + 1)) as [Hs|Hl].
    { intros i j x y Hi Hij Hj. lia. }
    apply (srt_for_up_inv (fun k st => srt_sorted_on (st_keys st) a k)) in E.
    - replace (a + 1 + Z.of_nat (Z.to_nat (b - (a + 1)))) with b in E by lia. exact E.
    - intros k s1 u1 s2 Hk Hinv Eb.
      apply (srt_ins_inner_sorted a k (Z.to_nat (k - a)) k s1 u1 s2); [lia|lia| |exact Eb].
      split; [exact Hinv|]. split.
      + intros i j x y Hi Hij Hj. lia.
      + intros p q x y Hp Hq. lia.
    - intros i j x y Hi Hij Hj. lia.
  Qed.

  (* ---------------- quickSort, given the postconditions of doPivot and heapSort *)
  Definition srt_pivot_post (ks : list K) (a b mlo mhi : Z) : Prop :=
    a <= mlo /\ mlo <= mhi /\ mhi <= b /\
    exists p, srt_all_on (fun x => srt_le x p) ks a mlo /\
              srt_all_on (fun x => srt_le x p /\ srt_le p x) ks mlo mhi /\
              srt_all_on (fun x => srt_le p x) ks mhi b.

  (* three-zone partition: keys[a,mlo) <= pivot, keys[mlo,mhi) equivalent to pivot, keys[mhi,b) >= pivot *)
  Definition srt_partition_ok : Prop :=
    forall a b (s : ST) mlo mhi s', 0 <= a -> 12 < b - a -> srt_wf b s ->
      srt_do_pivot less a b s = SOk ((mlo, mhi), s') ->
      srt_pivot_post (st_keys s') a b mlo mhi.

  Definition srt_heapsort_ok : Prop :=
    forall a b (s : ST) u s', 0 <= a -> a <= b -> srt_wf b s ->
      srt_heap_sort less a b s = SOk (u, s') -> srt_sorted_on (st_keys s') a b.

  Lemma srt_sorted_join ks a b mlo mhi p :
    a <= mlo -> mlo <= mhi -> mhi <= b ->
    srt_sorted_on ks a mlo -> srt_sorted_on ks mhi b ->
    srt_all_on (fun x => srt_le x p) ks a mlo ->
    srt_all_on (fun x => srt_le x p /\ srt_le p x) ks mlo mhi ->
    srt_all_on (fun x => srt_le p x) ks mhi b ->
    srt_sorted_on ks a b.
  Proof.
    intros H1 H2 H3 SL SR ZL ZM ZR i j x y Hi Hij Hj Ex Ey.
    destruct (Z.lt_ge_cases j mlo) as [J1|J1]; [apply (SL i j); auto; lia|].
    destruct (Z.lt_ge_cases i mhi) as [I1|I1]; [|apply (SR i j); auto; lia].
    assert (Hxp : srt_le x p).
    { destruct (Z.lt_ge_cases i mlo); [apply (ZL i x); auto; lia|apply (ZM i x); auto; lia]. }
    assert (Hpy : srt_le p y).
    { destruct (Z.lt_ge_cases j mhi); [apply (ZM j y); auto; lia|apply (ZR j y); auto; lia]. }
    eapply srt_le_trans; eassumption.
  Qed.

  Lemma srt_wf_le h h' (s : ST) : h' <= h -> srt_wf h s -> srt_wf h' s.
  Proof. intros H [A B]. split; lia. Qed.

  Lemma srt_quick_sort_sorted :
    srt_partition_ok -> srt_heapsort_ok ->
    forall fuel depth a b (s : ST) u s',
      (depth < fuel)%nat -> 0 <= a -> a <= b -> srt_wf b s ->
      srt_quick_sort less fuel a b depth s = SOk (u, s') ->
      srt_sorted_on (st_keys s') a b.
  Proof.
    intros HP HH. induction fuel as [|f IH]; intros depth a b s u s' Hf Ha Hab Hw E; [lia|].
    cbn [srt_quick_sort] in E.
    destruct (Z.ltb_spec 12 (b - a)) as [Hbig|Hsmall].
    - destruct depth as [|d'].
      + apply srt_inv_bind in E. destruct E as (u1 & s1 & E1 & E).
        destruct (srt_spec_elim a b _ _ s u1 s1 (srt_spec_tick a b _) Hw E1) as (_ & Hw1 & _).
        apply (HH a b s1 u s'); assumption.
      + apply srt_inv_bind in E. destruct E as ([mlo mhi] & s1 & E1 & E).
        destruct (srt_spec_elim a b _ _ s _ s1 (srt_spec_do_pivot less a b Ha Hbig) Hw E1)
          as (_ & Hw1 & Hm). cbn [fst snd] in Hm.
        destruct (HP a b s mlo mhi s1 Ha Hbig Hw E1) as (M1 & M2 & M3 & p & ZL & ZM & ZR).
        destruct (mlo - a <? b - mhi).
        * apply srt_inv_bind in E. destruct E as (u2 & s2 & E2 & E).
          destruct (srt_spec_elim a b _ _ s1 u2 s2 (srt_spec_tick a b _) Hw1 E2) as (_ & Hw2 & _).
          apply srt_inv_tick in E2.
          apply srt_inv_bind in E. destruct E as (u3 & s3 & E3 & E).
          assert (Hw2l : srt_wf mlo s2) by (eapply srt_wf_le; [|exact Hw2]; lia).
          destruct (srt_spec_elim a mlo _ _ s2 u3 s3
                      (srt_spec_quick_sort less a mlo (Z.log2 (mlo - a)) f d' a mlo
                         ltac:(lia) Ha ltac:(lia) M1 ltac:(lia) (Z.log2_nonneg _) ltac:(lia)) Hw2l E3)
            as (F3 & _ & _).
          assert (Hw3 : srt_wf b s3) by (eapply srt_wf_frame; eassumption).
          pose proof (IH d' a mlo s2 u3 s3 ltac:(lia) Ha M1 Hw2l E3) as SL.
          destruct (srt_spec_elim mhi b _ _ s3 u s'
                      (srt_spec_quick_sort less mhi b (Z.log2 (b - mhi)) f d' mhi b
                         ltac:(lia) ltac:(lia) ltac:(lia) M3 ltac:(lia) (Z.log2_nonneg _) ltac:(lia)) Hw3 E)
            as (F4 & _ & _).
          pose proof (IH d' mhi b s3 u s' ltac:(lia) ltac:(lia) M3 Hw3 E) as SR.
          rewrite <- E2 in ZL, ZM, ZR.
          apply (srt_sorted_join _ a b mlo mhi p M1 M2 M3).
          -- eapply srt_sorted_on_outside; [exact F4|lia|exact SL].
          -- exact SR.
          -- eapply srt_all_on_outside; [exact F4|lia|].
             eapply srt_all_on_frame; [| |exact F3|exact ZL]; [lia|exact Hw2l].
          -- eapply srt_all_on_outside; [exact F4|lia|].
             eapply srt_all_on_outside; [exact F3|lia|exact ZM].
          -- eapply srt_all_on_frame; [| |exact F4|]; [lia|exact Hw3|].
             eapply srt_all_on_outside; [exact F3|lia|exact ZR].
        * apply srt_inv_bind in E. destruct E as (u2 & s2 & E2 & E).
          destruct (srt_spec_elim a b _ _ s1 u2 s2 (srt_spec_tick a b _) Hw1 E2) as (_ & Hw2 & _).
          apply srt_inv_tick in E2.
          apply srt_inv_bind in E. destruct E as (u3 & s3 & E3 & E).
          destruct (srt_spec_elim mhi b _ _ s2 u3 s3
                      (srt_spec_quick_sort less mhi b (Z.log2 (b - mhi)) f d' mhi b
                         ltac:(lia) ltac:(lia) ltac:(lia) M3 ltac:(lia) (Z.log2_nonneg _) ltac:(lia)) Hw2 E3)
            as (F3 & Hw3 & _).
          pose proof (IH d' mhi b s2 u3 s3 ltac:(lia) ltac:(lia) M3 Hw2 E3) as SR.
          assert (Hw3l : srt_wf mlo s3) by (eapply srt_wf_le; [|exact Hw3]; lia).
          destruct (srt_spec_elim a mlo _ _ s3 u s'
                      (srt_spec_quick_sort less a mlo (Z.log2 (mlo - a)) f d' a mlo
                         ltac:(lia) Ha ltac:(lia) M1 ltac:(lia) (Z.log2_nonneg _) ltac:(lia)) Hw3l E)
            as (F4 & _ & _).
          pose proof (IH d' a mlo s3 u s' ltac:(lia) Ha M1 Hw3l E) as SL.
          rewrite <- E2 in ZL, ZM, ZR.
          apply (srt_sorted_join _ a b mlo mhi p M1 M2 M3).
          -- exact SL.
          -- eapply srt_sorted_on_outside; [exact F4|lia|exact SR].
          -- eapply srt_all_on_frame; [| |exact F4|]; [lia|exact Hw3l|].
             eapply srt_all_on_outside; [exact F3|lia|exact ZL].
          -- eapply srt_all_on_outside; [exact F4|lia|].
             eapply srt_all_on_outside; [exact F3|lia|exact ZM].
          -- eapply srt_all_on_outside; [exact F4|lia|].
             eapply srt_all_on_frame; [| |exact F3|exact ZR]; [lia|exact Hw2].
    - destruct (Z.ltb_spec 1 (b - a)) as [H2|H1].
      + apply srt_inv_bind in E. destruct E as (u1 & s1 & _ & E).
        apply srt_inv_bind in E. destruct E as (u2 & s2 & _ & E).
        eapply srt_insertion_sort_sorted. exact E.
      + apply srt_inv_ret in E. destruct E as [_ <-]. intros i j x y Hi Hij Hj. lia.
  Qed.
End Order.
