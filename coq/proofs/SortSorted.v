From Got Require Import Base Sort Unique.
Lemma SortSorted_stub : True. Proof. exact I. Qed.
