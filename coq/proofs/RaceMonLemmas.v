(* RaceMonLemmas.v -- facts about one step of the vector-clock monitor (lib/Race.v) shared by
   the model-level race-freedom proofs (RaceQueueProofs, RaceWaitCloseProofs, RaceWheelProofs):
   componentwise description of a step, monotonicity of the clocks, and the two predicates
     rm_K m t x : thread t knows the last write of location x   (Wc x <= C_t[Wt x])
     rm_P m o x : sync object o carries the last write of x     (Wc x <= L_o[Wt x])
   with their transfer through release and acquire events. *)
From Coq Require Import Relations.
From Got Require Import Base ListAux Race RaceProofs RaceHB RaceHBProofs.
Local Open Scope nat_scope.

Lemma rm_step_Wt n m t e x :
  rc_Wt (rc_step n m t e) x =
  match e with RWrite y => if x =? y then t else rc_Wt m x | _ => rc_Wt m x end.
Proof. destruct e; cbn [rc_step rc_Wt]; unfold rc_upd; reflexivity. Qed.

Lemma rm_step_Wc n m t e x :
  rc_Wc (rc_step n m t e) x =
  match e with RWrite y => if x =? y then rc_C m t t else rc_Wc m x | _ => rc_Wc m x end.
Proof. destruct e; cbn [rc_step rc_Wc]; unfold rc_upd; reflexivity. Qed.

Lemma rm_step_R n m t e x u :
  rc_R (rc_step n m t e) x u =
  match e with
  | RRead y => if x =? y then (if u =? t then rc_C m t t else rc_R m x u) else rc_R m x u
  | _ => rc_R m x u
  end.
Proof.
  destruct e; cbn [rc_step rc_R]; unfold rc_upd; try reflexivity.
  destruct (Nat.eqb_spec x x0); [subst|]; reflexivity.
Qed.

(* the events of one thread, in order *)
Definition rm_msteps (n : nat) (m : rc_mon) (t : nat) (evs : list rc_ev) : rc_mon :=
  fold_left (fun m e => rc_step n m t e) evs m.

Lemma rm_run_map n t evs : forall m rest,
  fold_left (fun m p => rc_step n m (fst p) (snd p)) (map (pair t) evs ++ rest) m =
  fold_left (fun m p => rc_step n m (fst p) (snd p)) rest (rm_msteps n m t evs).
Proof.
  induction evs as [|e r IH]; intros m rest; cbn [map app fold_left rm_msteps]; [reflexivity|].
  apply IH.
Qed.

Definition rm_sync (e : rc_ev) : Prop :=
  match e with RRead _ | RWrite _ => False | _ => True end.

Lemma rm_C_mono n m t e t' u : rc_C m t' u <= rc_C (rc_step n m t e) t' u.
Proof.
  rewrite rc_step_C. destruct (Nat.eqb_spec t' t) as [->|]; [|lia].
  destruct e; try lia; destruct (Nat.eqb_spec u t) as [->|].
  all: try lia.
Qed.

Lemma rm_L_mono n m t e o u : rc_L m o u <= rc_L (rc_step n m t e) o u.
Proof. rewrite rc_step_L. destruct e; try lia; destruct (Nat.eqb_spec o o0); subst; lia. Qed.

Lemma rm_acq_C n m t e o u : hb_is_acq e o -> rc_L m o u <= rc_C (rc_step n m t e) t u.
Proof.
  intros H. rewrite rc_step_C, Nat.eqb_refl.
  destruct e; cbn [hb_is_acq] in H; try contradiction; subst; [lia|].
  destruct (Nat.eqb_spec u t) as [->|]; lia.
Qed.

Lemma rm_rel_L n m t e o u : hb_is_rel e o -> rc_C m t u <= rc_L (rc_step n m t e) o u.
Proof.
  intros H. rewrite rc_step_L.
  destruct e; cbn [hb_is_rel] in H; try contradiction; subst; rewrite Nat.eqb_refl; lia.
Qed.

Lemma rm_sync_Wt n m t e x : rm_sync e -> rc_Wt (rc_step n m t e) x = rc_Wt m x.
Proof. intros H. rewrite rm_step_Wt. destruct e; try reflexivity; contradiction. Qed.
Lemma rm_sync_Wc n m t e x : rm_sync e -> rc_Wc (rc_step n m t e) x = rc_Wc m x.
Proof. intros H. rewrite rm_step_Wc. destruct e; try reflexivity; contradiction. Qed.
Lemma rm_sync_R n m t e x u : rm_sync e -> rc_R (rc_step n m t e) x u = rc_R m x u.
Proof. intros H. rewrite rm_step_R. destruct e; try reflexivity; contradiction. Qed.
Lemma rm_sync_raced n m t e : rm_sync e -> rc_raced (rc_step n m t e) = rc_raced m.
Proof.
  intros H. rewrite rc_step_raced. destruct e; try contradiction; cbn [hbp_check negb];
    apply orb_false_r.
Qed.

Lemma rm_read_Wt n m t y x : rc_Wt (rc_step n m t (RRead y)) x = rc_Wt m x.
Proof. reflexivity. Qed.
Lemma rm_read_Wc n m t y x : rc_Wc (rc_step n m t (RRead y)) x = rc_Wc m x.
Proof. reflexivity. Qed.
Lemma rm_access_C n m t e t' u :
  ~ rm_sync e -> rc_C (rc_step n m t e) t' u = rc_C m t' u.
Proof.
  intros H. rewrite rc_step_C. destruct e; cbn [rm_sync] in H; try (exfalso; apply H; exact I);
    destruct (t' =? t) eqn:E; try reflexivity; apply Nat.eqb_eq in E; subst; reflexivity.
Qed.
Lemma rm_access_L n m t e o u :
  ~ rm_sync e -> rc_L (rc_step n m t e) o u = rc_L m o u.
Proof.
  intros H. rewrite rc_step_L. destruct e; cbn [rm_sync] in H; try (exfalso; apply H; exact I);
    reflexivity.
Qed.

(* ------------------------------------------------------------------ extension of a monitor state *)
(* clocks only grow; the last write of the locations in [keep] is unchanged *)
Definition rm_ext (keep : nat -> Prop) (m m' : rc_mon) : Prop :=
  (forall t u, rc_C m t u <= rc_C m' t u) /\
  (forall o u, rc_L m o u <= rc_L m' o u) /\
  (forall x, keep x -> rc_Wt m' x = rc_Wt m x /\ rc_Wc m' x = rc_Wc m x).

Lemma rm_ext_refl keep m : rm_ext keep m m.
Proof. repeat split; intros; lia. Qed.

Lemma rm_ext_trans keep m1 m2 m3 : rm_ext keep m1 m2 -> rm_ext keep m2 m3 -> rm_ext keep m1 m3.
Proof.
  intros (A1 & A2 & A3) (B1 & B2 & B3). repeat split.
  - intros t u. specialize (A1 t u). specialize (B1 t u). lia.
  - intros o u. specialize (A2 o u). specialize (B2 o u). lia.
  - destruct (A3 x H) as [E _]. destruct (B3 x H) as [E' _]. congruence.
  - destruct (A3 x H) as [_ E]. destruct (B3 x H) as [_ E']. congruence.
Qed.

Lemma rm_ext_weaken (keep keep' : nat -> Prop) m m' :
  (forall x, keep' x -> keep x) -> rm_ext keep m m' -> rm_ext keep' m m'.
Proof. intros H (A1 & A2 & A3). repeat split; auto; apply A3; auto. Qed.

Lemma rm_ext_sync keep n m t e : rm_sync e -> rm_ext keep m (rc_step n m t e).
Proof.
  intros H. repeat split.
  - intros. apply rm_C_mono.
  - intros. apply rm_L_mono.
  - apply rm_sync_Wt. exact H.
  - apply rm_sync_Wc. exact H.
Qed.

Lemma rm_ext_read keep n m t y : rm_ext keep m (rc_step n m t (RRead y)).
Proof.
  repeat split; intros.
  - rewrite rm_access_C; [lia|intros []].
  - rewrite rm_access_L; [lia|intros []].
Qed.

Lemma rm_ext_write (keep : nat -> Prop) n m t y :
  ~ keep y -> rm_ext keep m (rc_step n m t (RWrite y)).
Proof.
  intros Hy. repeat split; intros.
  - rewrite rm_access_C; [lia|intros []].
  - rewrite rm_access_L; [lia|intros []].
  - rewrite rm_step_Wt. destruct (Nat.eqb_spec x y); [subst; contradiction|reflexivity].
  - rewrite rm_step_Wc. destruct (Nat.eqb_spec x y); [subst; contradiction|reflexivity].
Qed.

(* ------------------------------------------------------------------ knowledge of the last write *)
Definition rm_K (m : rc_mon) (t x : nat) : Prop := rc_Wc m x <= rc_C m t (rc_Wt m x).
Definition rm_P (m : rc_mon) (o x : nat) : Prop := rc_Wc m x <= rc_L m o (rc_Wt m x).

Lemma rm_K_ext (keep : nat -> Prop) m m' t x : rm_ext keep m m' -> keep x -> rm_K m t x -> rm_K m' t x.
Proof.
  intros (A1 & _ & A3) Hk H. unfold rm_K in *. destruct (A3 x Hk) as [-> ->].
  specialize (A1 t (rc_Wt m x)). lia.
Qed.

Lemma rm_P_ext (keep : nat -> Prop) m m' o x : rm_ext keep m m' -> keep x -> rm_P m o x -> rm_P m' o x.
Proof.
  intros (_ & A2 & A3) Hk H. unfold rm_P in *. destruct (A3 x Hk) as [-> ->].
  specialize (A2 o (rc_Wt m x)). lia.
Qed.

Lemma rm_acq_K n m t e o x : hb_is_acq e o -> rm_P m o x -> rm_K (rc_step n m t e) t x.
Proof.
  intros Ha H. unfold rm_K, rm_P in *.
  assert (Hs : rm_sync e) by (destruct e; cbn in Ha; try contradiction; exact I).
  rewrite rm_sync_Wt, rm_sync_Wc by exact Hs.
  pose proof (rm_acq_C n m t e o (rc_Wt m x) Ha). lia.
Qed.

Lemma rm_rel_P n m t e o x : hb_is_rel e o -> rm_K m t x -> rm_P (rc_step n m t e) o x.
Proof.
  intros Hr H. unfold rm_K, rm_P in *.
  assert (Hs : rm_sync e) by (destruct e; cbn in Hr; try contradiction; exact I).
  rewrite rm_sync_Wt, rm_sync_Wc by exact Hs.
  pose proof (rm_rel_L n m t e o (rc_Wt m x) Hr). lia.
Qed.

Lemma rm_write_K n m t x : rm_K (rc_step n m t (RWrite x)) t x.
Proof.
  unfold rm_K. rewrite rm_step_Wt, rm_step_Wc, Nat.eqb_refl.
  rewrite rm_access_C; [lia|intros []].
Qed.

(* ------------------------------------------------------------------ the checks *)
Lemma rm_read_ok n m t x :
  rc_raced m = false -> rm_K m t x -> rc_raced (rc_step n m t (RRead x)) = false.
Proof.
  intros Hr H. rewrite rc_step_raced, Hr. cbn [orb hbp_check]. apply negb_false_iff.
  apply Nat.leb_le. exact H.
Qed.

Lemma rm_write_ok n m t x :
  rc_raced m = false -> rm_K m t x -> (forall u, rc_R m x u <= rc_C m t u) ->
  rc_raced (rc_step n m t (RWrite x)) = false.
Proof.
  intros Hr H HR. rewrite rc_step_raced, Hr. cbn [orb hbp_check]. apply negb_false_iff.
  apply andb_true_intro. split; [apply Nat.leb_le; exact H|].
  apply forallb_forall. intros u _. apply Nat.leb_le. apply HR.
Qed.

Lemma rm_write_fresh_ok n m t x :
  rc_raced m = false -> rc_Wc m x = 0 -> (forall u, rc_R m x u = 0) ->
  rc_raced (rc_step n m t (RWrite x)) = false.
Proof.
  intros Hr H0 HR. apply rm_write_ok; [exact Hr|unfold rm_K; lia|intros u; rewrite HR; lia].
Qed.

(* well-formedness of concatenated traces *)
Lemma rm_wf_app n a b : hb_wf n a -> hb_wf n b -> hb_wf n (a ++ b).
Proof. unfold hb_wf. intros. apply Forall_app. split; assumption. Qed.

Lemma rm_wf_map n t evs : t < n -> hb_wf n (map (pair t) evs).
Proof.
  intros H. unfold hb_wf. apply Forall_forall. intros p Hp. apply in_map_iff in Hp.
  destruct Hp as [e [<- _]]. exact H.
Qed.

(* ------------------------------------------------------------------ reading a trace *)
(* publication chain, directly from the relational definitions: w and r are events of one
   thread, r a release on o; a and d events of another (or the same) thread, a an acquire on o *)
Lemma rm_hb_chain (tr : hb_trace) w r a d t1 t2 e1 e2 e3 e4 o :
  w < r -> r < a -> a < d ->
  nth_error tr w = Some (t1, e1) -> nth_error tr r = Some (t1, e2) ->
  nth_error tr a = Some (t2, e3) -> nth_error tr d = Some (t2, e4) ->
  hb_is_rel e2 o -> hb_is_acq e3 o ->
  hb_hb tr w d.
Proof.
  intros H1 H2 H3 Ew Er Ea Ed Hr Ha. unfold hb_hb.
  apply t_trans with r; [|apply t_trans with a]; apply t_step.
  - left. split; [exact H1|]. exists t1, e1, e2. split; assumption.
  - right. split; [exact H2|]. exists t1, e2, t2, e3, o. repeat split; assumption.
  - left. split; [exact H3|]. exists t2, e3, e4. split; assumption.
Qed.

Lemma rm_conflict_intro (tr : hb_trace) i j ti tj ei ej x :
  nth_error tr i = Some (ti, ei) -> nth_error tr j = Some (tj, ej) -> ti <> tj ->
  hb_is_access ei x -> hb_is_access ej x -> (hb_is_write ei x \/ hb_is_write ej x) ->
  hb_conflict tr i j.
Proof. intros. exists ti, ei, tj, ej, x. repeat split; assumption. Qed.
