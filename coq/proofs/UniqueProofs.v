(* UniqueProofs.v -- lemmas about the model of sortx.UniqueInt/UniqueString (models/Unique.v) *)
From Got Require Import Base Unique.
Require Import Sorted.
Local Open Scope nat_scope.

Section UniqueProofs.
  Context {A : Type}.
  Variable eqb : A -> A -> bool.

  (* last kept element *)
  Definition unq_lastc (x : A) (l : list A) : A := last (unq_collapse_from eqb x l) x.

  Lemma unq_last_cons (l : list A) a d d' : l <> [] -> last (a :: l) d = last l d'.
  Proof.
    revert a. induction l as [|b l IH]; intros a H; [congruence|].
    destruct l as [|c l]; [reflexivity|].
    change (last (a :: b :: c :: l) d) with (last (b :: c :: l) d).
    change (last (b :: c :: l) d') with (last (c :: l) d').
    apply IH. congruence.
  Qed.

  Lemma unq_collapse_from_snoc x l y :
    unq_collapse_from eqb x (l ++ [y]) =
      if eqb y (unq_lastc x l) then unq_collapse_from eqb x l
      else unq_collapse_from eqb x l ++ [y].
  Proof.
    revert x. induction l as [|z l IH]; intros x; unfold unq_lastc in *.
    - cbn. destruct (eqb y x); reflexivity.
    - cbn [app unq_collapse_from]. destruct (eqb z x) eqn:E.
      + apply IH.
      + rewrite IH.
        destruct (unq_collapse_from eqb z l) as [|w t] eqn:Ec.
        * cbn. destruct (eqb y z); reflexivity.
        * rewrite (unq_last_cons (w :: t) z x z) by congruence.
          destruct (eqb y (last (w :: t) z)); reflexivity.
  Qed.

  Lemma unq_collapse_snoc l y :
    l <> [] ->
    unq_collapse eqb (l ++ [y]) =
      if eqb y (last (unq_collapse eqb l) y) then unq_collapse eqb l
      else unq_collapse eqb l ++ [y].
  Proof.
    destruct l as [|x l]; [congruence|]. intros _.
    cbn [app unq_collapse]. rewrite unq_collapse_from_snoc. unfold unq_lastc.
    assert (H : last (x :: unq_collapse_from eqb x l) y = last (unq_collapse_from eqb x l) x).
    { destruct (unq_collapse_from eqb x l) as [|a c]; [reflexivity|].
      apply unq_last_cons. congruence. }
    rewrite H. destruct (eqb y _); reflexivity.
  Qed.

  Lemma unq_collapse_nonnil l : l <> [] -> unq_collapse eqb l <> [].
  Proof. destruct l; [congruence|]. cbn. congruence. Qed.

  Lemma unq_collapse_from_length x l : length (unq_collapse_from eqb x l) <= length l.
  Proof.
    revert x. induction l as [|y l IH]; intros x; cbn; [lia|].
    destruct (eqb y x); cbn; [specialize (IH x)|specialize (IH y)]; lia.
  Qed.

  Lemma unq_collapse_length l : length (unq_collapse eqb l) <= length l.
  Proof. destruct l; cbn; [lia|]. pose proof (unq_collapse_from_length a l). lia. Qed.

  (* list facts *)
  Lemma unq_nth_error_skipn (l : list A) n k : nth_error (skipn n l) k = nth_error l (n + k).
  Proof.
    revert l. induction n as [|n IH]; intros l; [reflexivity|].
    destruct l; [destruct k; reflexivity|]. cbn. apply IH.
  Qed.

  Lemma unq_firstn_snoc (l : list A) i x :
    nth_error l i = Some x -> firstn (S i) l = firstn i l ++ [x].
  Proof.
    revert l. induction i as [|i IH]; intros l H; destruct l as [|y l]; try discriminate.
    - cbn in H. injection H as ->. reflexivity.
    - cbn in H. cbn [firstn app]. f_equal. change (firstn (S i) l = firstn i l ++ [x]). apply IH. exact H.
  Qed.

  Lemma unq_skipn_cons (l : list A) i x :
    nth_error l i = Some x -> skipn i l = x :: skipn (S i) l.
  Proof.
    revert l. induction i as [|i IH]; intros l H; destruct l as [|y l]; try discriminate.
    - cbn in H. injection H as ->. reflexivity.
    - cbn in H. cbn [skipn]. apply IH. exact H.
  Qed.

  Lemma unq_set_app (C : list A) y t x :
    unq_set (C ++ y :: t) (length C) x = Some (C ++ x :: t).
  Proof.
    induction C as [|c C IH]; cbn; [reflexivity|]. rewrite IH. reflexivity.
  Qed.

  Lemma unq_nth_last (C : list A) d : C <> [] -> nth_error C (length C - 1) = Some (last C d).
  Proof.
    induction C as [|c C IH]; [congruence|]. intros _.
    destruct C as [|c' C]; [reflexivity|].
    cbn [length]. replace (S (S (length C)) - 1) with (S (length (c' :: C) - 1)) by (cbn; lia).
    cbn [nth_error]. rewrite IH by congruence. reflexivity.
  Qed.

  (* the loop: invariant  a = C ++ skipn (length C) l  with C = collapse (firstn i l) *)
  Lemma unq_loop_spec n : forall i j a l,
    i + n = length l -> j < i ->
    length (unq_collapse eqb (firstn i l)) = j + 1 ->
    a = unq_collapse eqb (firstn i l) ++ skipn (j + 1) l ->
    exists j',
      unq_loop eqb n i j a = Ok (unq_collapse eqb l ++ skipn (j' + 1) l, j') /\
      length (unq_collapse eqb l) = j' + 1.
  Proof.
    induction n as [|n IH]; intros i j a l Hn Hji HC Ha.
    - exists j. cbn. assert (i = length l) by lia. subst i. rewrite firstn_all in *.
      subst a. split; [reflexivity|exact HC].
    - cbn [unq_loop].
      assert (Hi : i < length l) by lia.
      destruct (nth_error l i) as [x|] eqn:Ex; [|apply nth_error_None in Ex; lia].
      set (C := unq_collapse eqb (firstn i l)) in *.
      assert (Hfi : firstn i l <> []).
      { intros E. apply (f_equal (@length A)) in E. rewrite firstn_length in E. cbn in E. lia. }
      assert (HCn : C <> []) by (apply unq_collapse_nonnil; exact Hfi).
      assert (Hai : nth_error a i = Some x).
      { subst a. rewrite nth_error_app2 by lia. rewrite unq_nth_error_skipn.
        replace (j + 1 + (i - length C)) with i by lia. exact Ex. }
      assert (Haj : nth_error a j = Some (last C x)).
      { subst a. rewrite nth_error_app1 by lia. replace j with (length C - 1) by lia.
        apply unq_nth_last. exact HCn. }
      rewrite Hai, Haj.
      assert (Hsn : unq_collapse eqb (firstn (S i) l) =
                    if eqb x (last C x) then C else C ++ [x]).
      { rewrite (unq_firstn_snoc l i x Ex). apply unq_collapse_snoc. exact Hfi. }
      destruct (eqb x (last C x)) eqn:Eq; cbn [negb].
      + apply (IH (S i) j a l); [lia|lia|rewrite Hsn; exact HC|rewrite Hsn; exact Ha].
      + assert (Hlen : length (C ++ [x]) = S j + 1) by (rewrite app_length; cbn; lia).
        destruct (Nat.eqb (j + 1) i) eqn:Eji; cbn [negb].
        * apply Nat.eqb_eq in Eji.
          apply (IH (S i) (S j) a l); [lia|lia|rewrite Hsn; exact Hlen|].
          rewrite Hsn, Ha, <- app_assoc. f_equal. cbn [app].
          replace (S j + 1) with (S (j + 1)) by lia. apply unq_skipn_cons. rewrite Eji. exact Ex.
        * apply Nat.eqb_neq in Eji.
          destruct (nth_error l (j + 1)) as [y|] eqn:Ey; [|apply nth_error_None in Ey; lia].
          assert (Hset : unq_set a (j + 1) x = Some (C ++ x :: skipn (S (j + 1)) l)).
          { rewrite Ha, (unq_skipn_cons l (j + 1) y Ey).
            replace (j + 1) with (length C) by lia. apply unq_set_app. }
          rewrite Hset.
          apply (IH (S i) (S j) _ l); [lia|lia|rewrite Hsn; exact Hlen|].
          rewrite Hsn, <- app_assoc. cbn [app]. replace (S j + 1) with (S (j + 1)) by lia. reflexivity.
  Qed.

  (* full functional specification of Unique: the returned slice is the collapsed input,
     it is a prefix of the backing array, whose tail is untouched; never panics *)
  Lemma unq_unique_spec (l : list A) :
    unq_unique eqb l =
      Ok (unq_collapse eqb l, unq_collapse eqb l ++ skipn (length (unq_collapse eqb l)) l).
  Proof.
    unfold unq_unique. destruct (Nat.ltb (length l) 2) eqn:E.
    - apply Nat.ltb_lt in E. destruct l as [|x [|y l]]; cbn in *; try reflexivity; lia.
    - apply Nat.ltb_ge in E.
      destruct l as [|x l]; [cbn in E; lia|].
      destruct (unq_loop_spec (length (x :: l) - 1) 1 0 (x :: l) (x :: l)) as (j' & Hrun & Hlen);
        [cbn; lia|lia|reflexivity|reflexivity|].
      rewrite Hrun.
      set (C := unq_collapse eqb (x :: l)) in *.
      pose proof (unq_collapse_length (x :: l)) as HL. fold C in HL.
      assert (Hle : Nat.leb (j' + 1) (length (C ++ skipn (j' + 1) (x :: l))) = true).
      { apply Nat.leb_le. rewrite app_length. lia. }
      rewrite Hle. rewrite <- Hlen. rewrite firstn_app, firstn_all, Nat.sub_diag. cbn [firstn].
      rewrite app_nil_r. reflexivity.
  Qed.

  (* ---- what "collapsed" means, independently of the loop ---- *)
  Hypothesis eqb_spec : forall x y, eqb x y = true <-> x = y.

  Fixpoint unq_adjacent_distinct (l : list A) : Prop :=
    match l with
    | [] => True
    | x :: t => match t with [] => True | y :: _ => x <> y end /\ unq_adjacent_distinct t
    end.

  Lemma unq_collapse_from_adjacent x l : unq_adjacent_distinct (x :: unq_collapse_from eqb x l).
  Proof.
    revert x. induction l as [|y l IH]; intros x; [cbn; auto|].
    cbn [unq_collapse_from]. destruct (eqb y x) eqn:E; [apply IH|].
    split; [|apply IH]. intros ->. assert (eqb y y = true) by (apply eqb_spec; reflexivity). congruence.
  Qed.

  Lemma unq_collapse_adjacent l : unq_adjacent_distinct (unq_collapse eqb l).
  Proof. destruct l; [exact I|]. apply unq_collapse_from_adjacent. Qed.

  (* run-length characterisation: if the input is a concatenation of non-empty runs
     x1^(n1+1) x2^(n2+1) ... with x_i <> x_(i+1), the result is exactly x1 x2 ... *)
  Definition unq_expand (runs : list (A * nat)) : list A :=
    flat_map (fun p => repeat (fst p) (S (snd p))) runs.

  Lemma unq_collapse_from_repeat x n l :
    unq_collapse_from eqb x (repeat x n ++ l) = unq_collapse_from eqb x l.
  Proof.
    induction n as [|n IH]; [reflexivity|]. cbn.
    assert (E : eqb x x = true) by (apply eqb_spec; reflexivity). rewrite E. exact IH.
  Qed.

  Lemma unq_collapse_runs runs :
    unq_adjacent_distinct (map fst runs) ->
    unq_collapse eqb (unq_expand runs) = map fst runs.
  Proof.
    destruct runs as [|[x n] runs]; [reflexivity|].
    cbn [unq_expand flat_map fst snd repeat app unq_collapse map].
    intros H. f_equal. revert x n H.
    induction runs as [|[y m] runs IH]; intros x n H.
    - cbn. rewrite app_nil_r. rewrite <- (app_nil_r (repeat x n)), unq_collapse_from_repeat. reflexivity.
    - rewrite unq_collapse_from_repeat. cbn [flat_map fst snd repeat app unq_collapse_from map].
      destruct H as [Hxy H]. cbn [map fst] in Hxy.
      destruct (eqb y x) eqn:E; [apply eqb_spec in E; congruence|].
      f_equal. apply IH. exact H.
  Qed.

  (* the result is a subsequence of the input: order preserved, nothing invented *)
  Inductive unq_subseq : list A -> list A -> Prop :=
  | unq_sub_nil : unq_subseq [] []
  | unq_sub_keep x l1 l2 : unq_subseq l1 l2 -> unq_subseq (x :: l1) (x :: l2)
  | unq_sub_drop x l1 l2 : unq_subseq l1 l2 -> unq_subseq l1 (x :: l2).

  Lemma unq_collapse_from_subseq x l : unq_subseq (unq_collapse_from eqb x l) l.
  Proof.
    revert x. induction l as [|y l IH]; intros x; [constructor|].
    cbn. destruct (eqb y x); [apply unq_sub_drop, IH|apply unq_sub_keep, IH].
  Qed.

  Lemma unq_collapse_subseq l : unq_subseq (unq_collapse eqb l) l.
  Proof. destruct l; [constructor|]. cbn. apply unq_sub_keep, unq_collapse_from_subseq. Qed.
End UniqueProofs.

(* sorted input -> strictly increasing result (integers) *)
Local Open Scope Z_scope.

Lemma unq_collapse_from_sorted x l :
  StronglySorted Z.le (x :: l) ->
  StronglySorted Z.lt (x :: unq_collapse_from Z.eqb x l) /\
  Forall (fun y => In y (x :: l)) (unq_collapse_from Z.eqb x l).
Proof.
  revert x. induction l as [|y l IH]; intros x H.
  - cbn. split; repeat constructor.
  - cbn [unq_collapse_from]. inversion H as [|? ? Hs Hf]; subst.
    inversion Hf as [|? ? Hxy Hf']; subst.
    destruct (Z.eqb_spec y x) as [->|Hne].
    + destruct (IH x) as [H1 H2].
      { constructor; [inversion Hs; assumption|exact Hf']. }
      split; [exact H1|]. eapply Forall_impl; [|exact H2]. cbn. intros a [->|Ha]; auto.
    + destruct (IH y Hs) as [H1 H2]. split.
      * constructor; [exact H1|]. constructor; [lia|].
        rewrite Forall_forall in *. intros z Hz. specialize (H2 z Hz).
        destruct H2 as [->|Hz']; [lia|]. specialize (Hf' z Hz').
        inversion Hs as [|? ? _ Hfy]; subst. rewrite Forall_forall in Hfy. specialize (Hfy z Hz'). lia.
      * constructor; [cbn; auto|]. eapply Forall_impl; [|exact H2]. cbn. intros a [->|Ha]; auto.
Qed.

Lemma unq_collapse_sorted l :
  StronglySorted Z.le l -> StronglySorted Z.lt (unq_collapse Z.eqb l).
Proof.
  destruct l as [|x l]; [constructor|]. intros H. apply unq_collapse_from_sorted. exact H.
Qed.

Lemma unq_example :
  unq_unique_z [1; 1; 2; 2; 2; 3; 1; 1] = Ok ([1; 2; 3; 1], [1; 2; 3; 1; 2; 3; 1; 1]).
Proof. reflexivity. Qed.
