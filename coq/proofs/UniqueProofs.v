From Got Require Import Base Sort Unique.
Lemma UniqueProofs_stub : True. Proof. exact I. Qed.
