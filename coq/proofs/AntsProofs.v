(* AntsProofs.v -- lemmas about the ants pool model (models/Ants.v); the property theorems
   in props/C07.v and props/C08.v are closed by [exact] of lemmas proved here. *)
From Got Require Import Base Ants.
Local Open Scope Z_scope.

(* ------------------------------------------------------------------ generalities *)
Definition an_reach (cfg : an_cfg) (s : an_state) : Prop :=
  exists evs, an_run cfg an_init evs = Some s.

Lemma an_run_app cfg s evs1 evs2 :
  an_run cfg s (evs1 ++ evs2) =
  match an_run cfg s evs1 with Some s' => an_run cfg s' evs2 | None => None end.
Proof.
  revert s. induction evs1 as [|e r IH]; intros s; cbn [an_run app]; [reflexivity|].
  destruct (an_step cfg s e); [apply IH|reflexivity].
Qed.

Lemma an_run_inv (P : an_state -> Prop) cfg :
  (forall s e s', P s -> an_step cfg s e = Some s' -> P s') ->
  forall evs s s', P s -> an_run cfg s evs = Some s' -> P s'.
Proof.
  intros Hstep evs. induction evs as [|e r IH]; intros s s' HP Hrun; cbn [an_run] in Hrun.
  - inversion Hrun; subst; exact HP.
  - destruct (an_step cfg s e) as [s1|] eqn:E; [|discriminate].
    eapply IH; [|exact Hrun]. eapply Hstep; eauto.
Qed.

Lemma an_reach_inv (P : an_state -> Prop) cfg :
  P an_init ->
  (forall s e s', an_reach cfg s -> P s -> an_step cfg s e = Some s' -> P s') ->
  forall s, an_reach cfg s -> P s.
Proof.
  intros H0 Hstep s [evs Hrun].
  assert (G : an_reach cfg s /\ P s).
  { eapply (an_run_inv (fun s => an_reach cfg s /\ P s) cfg); [| |exact Hrun].
    - intros s1 e s2 [Hr HP] Hs. split.
      + destruct Hr as [ev1 Hr]. exists (ev1 ++ [e]). rewrite an_run_app, Hr. cbn [an_run]. rewrite Hs. reflexivity.
      + eapply Hstep; eauto.
    - split; [exists []; reflexivity|exact H0]. }
  exact (proj2 G).
Qed.

Lemma an_reach_step cfg s e s' : an_reach cfg s -> an_step cfg s e = Some s' -> an_reach cfg s'.
Proof.
  intros [evs Hr] Hs. exists (evs ++ [e]). rewrite an_run_app, Hr. cbn [an_run]. rewrite Hs. reflexivity.
Qed.

Lemma an_extract_spec f l x r :
  an_extract f l = Some (x, r) ->
  f x = true /\ exists l1 l2, l = l1 ++ x :: l2 /\ r = l1 ++ l2.
Proof.
  revert x r. induction l as [|y l IH]; intros x r H; cbn [an_extract] in H; [discriminate|].
  destruct (f y) eqn:Ef.
  - inversion H; subst. split; [exact Ef|]. exists [], r. split; reflexivity.
  - destruct (an_extract f l) as [[z r']|] eqn:E; [|discriminate]. inversion H; subst.
    destruct (IH _ _ eq_refl) as [Hf [l1 [l2 [H1 H2]]]]. split; [exact Hf|].
    exists (y :: l1), l2. subst. split; reflexivity.
Qed.

Lemma an_extract_length f l x r : an_extract f l = Some (x, r) -> length l = S (length r).
Proof.
  intros H. destruct (an_extract_spec _ _ _ _ H) as [_ [l1 [l2 [H1 H2]]]]. subst.
  rewrite !app_length. cbn [length]. lia.
Qed.

Lemma an_extract_in f l x r : an_extract f l = Some (x, r) -> In x l /\ (forall y, In y r -> In y l) /\ (forall y, In y l -> y = x \/ In y r).
Proof.
  intros H. destruct (an_extract_spec _ _ _ _ H) as [_ [l1 [l2 [H1 H2]]]]. subst. split; [|split].
  - apply in_or_app. right. left. reflexivity.
  - intros y Hy. apply in_app_or in Hy. apply in_or_app. destruct Hy; [left|right; right]; assumption.
  - intros y Hy. apply in_app_or in Hy. destruct Hy as [Hy|[Hy|Hy]]; [right|left|right]; try (apply in_or_app); auto.
Qed.

Lemma an_filter_length {A} (f : A -> bool) l : (length (filter f l) <= length l)%nat.
Proof. induction l as [|x l IH]; cbn [filter length]; [lia|]. destruct (f x); cbn [length]; lia. Qed.

Lemma an_nrun_le ws : (an_nrun ws <= length ws)%nat.
Proof. unfold an_nrun. apply an_filter_length. Qed.

Lemma an_remove_length k l : (length (an_remove k l) <= length l)%nat.
Proof. unfold an_remove. apply an_filter_length. Qed.

Lemma an_remove_in k l j : In j (an_remove k l) <-> In j l /\ j <> k.
Proof.
  unfold an_remove. rewrite filter_In. split; intros [H1 H2]; split; auto.
  - intros ->. rewrite Nat.eqb_refl in H2. discriminate.
  - apply Bool.negb_true_iff. apply Nat.eqb_neq. exact H2.
Qed.

(* projections of the two helper transitions *)
Lemma an_release_proj s k t :
  let s' := an_release s k t in
  an_now s' = an_now s /\ an_next s' = an_next s /\ an_tchan s' = an_tchan s /\ an_sendq s' = an_sendq s /\
  an_active s' = an_remove k (an_active s) /\ an_ichan s' = an_ichan s /\ an_workers s' = an_workers s /\
  an_maxrun s' = an_maxrun s.
Proof. cbn. repeat split. Qed.

(* the state after the dispatcher's decision: one of three shapes *)
Lemma an_after_cases s k a f :
  let t0 := an_tk s k in
  let t := at_set_dec (at_set_fields t0 f) ((a, f, an_now s) :: at_dec t0) in
  (an_is_nil (snd f) = true /\ an_after s k a f = an_release s k t) \/
  (an_is_nil (snd f) = false /\ Nat.ltb a (ao_R (at_opts t0)) = true /\
     an_after s k a f = an_with_task s k (at_set_phase t (AnEnq (S a) (an_now s)))) \/
  (an_is_nil (snd f) = false /\ Nat.ltb a (ao_R (at_opts t0)) = false /\
     an_after s k a f = an_release s k (if ao_onerr (at_opts t0) then at_set_onerr t ((snd f, an_now s) :: at_onerr t) else t)).
Proof.
  cbn zeta. unfold an_after. cbn [at_opts at_set_dec at_set_fields].
  destruct (an_is_nil (snd f)); [left; split; reflexivity|].
  destruct (Nat.ltb a (ao_R (at_opts (an_tk s k)))); [right; left|right; right]; repeat split; reflexivity.
Qed.

(* ------------------------------------------------------------------ step inversion *)
Ltac an_inv_step H :=
  unfold an_step in H;
  repeat match type of H with
         | (if ?c then _ else _) = Some _ => let E := fresh "G" in destruct c eqn:E; [|try discriminate H]
         | (match ?x with _ => _ end) = Some _ =>
             let E := fresh "M" in destruct x eqn:E; try discriminate H
         | (let (_, _) := ?x in _) = Some _ => let E := fresh "M" in destruct x eqn:E
         end;
  try discriminate H.

(* ------------------------------------------------------------------ C08: counting *)
Definition an_cnt (cfg : an_cfg) (s : an_state) : Prop :=
  (length (an_tchan s) <= an_N cfg)%nat /\ (length (an_active s) <= an_N cfg)%nat /\
  (length (an_ichan s) <= an_N cfg)%nat /\ (length (an_workers s) <= an_N cfg)%nat /\
  (an_maxrun s <= an_N cfg)%nat /\ (an_sendq s <> [] -> length (an_tchan s) = an_N cfg).

Lemma an_cnt_after cfg s k a f :
  an_cnt cfg s -> an_cnt cfg (an_after s k a f).
Proof.
  intros (H1 & H2 & H3 & H4 & H5 & H6).
  destruct (an_after_cases s k a f) as [[_ E]|[[_ [_ E]]|[_ [_ E]]]]; rewrite E; unfold an_cnt; cbn;
    repeat split; auto; try (pose proof (an_remove_length k (an_active s)); lia).
Qed.

Ltac an_bools :=
  repeat match goal with
         | E : Nat.ltb _ _ = true |- _ => apply Nat.ltb_lt in E
         | E : Nat.ltb _ _ = false |- _ => apply Nat.ltb_ge in E
         | E : Nat.leb _ _ = true |- _ => apply Nat.leb_le in E
         | E : Nat.leb _ _ = false |- _ => apply Nat.leb_gt in E
         | E : (_ && _)%bool = true |- _ => apply andb_prop in E; destruct E
         | E : Nat.eqb _ _ = true |- _ => apply Nat.eqb_eq in E
         | E : Nat.eqb _ _ = false |- _ => apply Nat.eqb_neq in E
         | E : (_ <? _) = true |- _ => apply Z.ltb_lt in E
         | E : (_ <? _) = false |- _ => apply Z.ltb_ge in E
         | E : (_ <=? _) = true |- _ => apply Z.leb_le in E
         | E : (_ <=? _) = false |- _ => apply Z.leb_gt in E
         | E : (_ =? _) = true |- _ => apply Z.eqb_eq in E
         end.

Lemma an_cnt_step cfg s e s' : an_cnt cfg s -> an_step cfg s e = Some s' -> an_cnt cfg s'.
Proof.
  intros (H1 & H2 & H3 & H4 & H5 & H6) Hs.
  destruct e; an_inv_step Hs; try (inversion Hs; subst; clear Hs);
    try (apply an_cnt_after; unfold an_cnt; repeat split; auto; fail);
    unfold an_cnt; cbn [an_tchan an_active an_ichan an_workers an_maxrun an_sendq an_with_task]; an_bools.
  - (* send, discarded *) repeat split; auto.
  - (* send, buffered *) rewrite app_length; cbn [length]. repeat split; auto; try lia.
    all: try (intros Hq; specialize (H6 Hq); lia).
  - (* send, blocked *) repeat split; auto. all: try (intros _; lia).
  - (* pick *) try rewrite M in *. cbn [length] in *. rewrite app_length.
    destruct (an_sendq s) as [|q qs]; cbn [firstn skipn length].
    + repeat split; auto; try lia. intros Hq; congruence.
    + assert (E : S (length l) = an_N cfg) by (apply H6; discriminate). repeat split; auto; try lia.
  - (* enqueue *) rewrite app_length; cbn [length]. repeat split; auto; lia.
  - (* start *) try rewrite M in *. cbn [length] in *. repeat split; auto; try lia.
    apply Nat.max_lub; [exact H5|].
    etransitivity; [apply an_nrun_le|]. cbn [length]. lia.
  - (* return *) apply an_extract_length in M. cbn [length]. repeat split; auto; try lia.
  - (* publish *) apply an_extract_length in M. repeat split; auto; lia.
  - (* get2 *) repeat split; auto.
  - (* get2 *) repeat split; auto.
  - (* advance *) repeat split; auto.
Qed.

Lemma an_cnt_reach cfg s : an_reach cfg s -> an_cnt cfg s.
Proof.
  apply (an_reach_inv (an_cnt cfg)).
  - unfold an_cnt; cbn. repeat split; try lia. intros H; congruence.
  - intros s0 e s1 _ H Hs. eapply an_cnt_step; eauto.
Qed.

(* ------------------------------------------------------------------ C07: per-task log structure *)
Definition an_attempt_of (x : nat * an_pair * Z) : nat := fst (fst x).
Definition an_pair_of (x : nat * an_pair * Z) : an_pair := snd (fst x).
Definition an_errs_nonnil (l : list (nat * an_pair * Z)) : Prop :=
  Forall (fun x => an_is_nil (snd (an_pair_of x)) = false) l.
(* the decision log holds exactly the attempts n, n-1, ..., 1 (newest first) *)
Definition an_dec_seq (l : list (nat * an_pair * Z)) (n : nat) : Prop :=
  map an_attempt_of l = rev (seq 1 n).

Lemma an_rev_seq_S n : rev (seq 1 (S n)) = S n :: rev (seq 1 n).
Proof. rewrite seq_S, rev_app_distr. reflexivity. Qed.

Definition an_tinv (t : an_task) : Prop :=
  let o := at_opts t in
  match at_phase t with
  | AnUnsent => True
  | AnQueued =>
      at_dec t = [] /\ at_onerr t = [] /\ at_rel t = [] /\ at_get2 t = [] /\ (1 <= ao_R o)%nat /\ 0 < ao_T o
  | AnEnq a c | AnWait a c =>
      (1 <= a <= ao_R o)%nat /\ 0 < ao_T o /\ an_dec_seq (at_dec t) (a - 1) /\ an_errs_nonnil (at_dec t) /\
      at_onerr t = [] /\ at_rel t = [] /\ at_get2 t = []
  | AnDone =>
      exists n p f rest,
        at_dec t = (n, p, f) :: rest /\ an_dec_seq (at_dec t) n /\ an_errs_nonnil rest /\
        (1 <= n <= ao_R o)%nat /\ (an_is_nil (snd p) = true \/ n = ao_R o) /\
        at_fields t = p /\ at_rel t = [f] /\
        at_onerr t = (if negb (an_is_nil (snd p)) && ao_onerr o then [(snd p, f)] else []) /\
        Forall (fun g => fst g = p /\ f <= snd g) (at_get2 t) /\ 0 < ao_T o
  | AnDiscarded =>
      at_dec t = [] /\ at_rel t = [] /\ at_fields t = (None, AnDiscard) /\
      at_onerr t = (if ao_onerr o then [(AnDiscard, at_sent t)] else []) /\
      Forall (fun g => fst g = (None, AnDiscard)) (at_get2 t) /\ ao_discard o = true
  end.

Definition an_tinv_all (s : an_state) : Prop :=
  (forall j, an_tinv (an_tk s j)) /\
  (forall j, (an_next s <= j)%nat -> at_phase (an_tk s j) = AnUnsent) /\
  (forall j, at_phase (an_tk s j) = AnDone -> forall f, In f (at_rel (an_tk s j)) -> f <= an_now s) /\
  (forall j, In j (an_tchan s ++ an_sendq s) -> at_phase (an_tk s j) = AnQueued) /\
  NoDup (an_tchan s ++ an_sendq s).

Ltac an_task_cases j k IH :=
  intros j; cbn [an_tk an_with_task an_release]; unfold an_upd;
  destruct (Nat.eqb_spec j k) as [->|?]; [|apply IH].

Lemma an_tinv_after s k a c f :
  an_tinv (an_tk s k) -> at_phase (an_tk s k) = AnWait a c ->
  an_tinv (an_tk (an_after s k a f) k) /\
  (forall j, j <> k -> an_tk (an_after s k a f) j = an_tk s j) /\
  an_now (an_after s k a f) = an_now s /\ an_next (an_after s k a f) = an_next s /\
  (at_phase (an_tk (an_after s k a f) k) = AnDone -> at_rel (an_tk (an_after s k a f) k) = [an_now s]).
Proof.
  intros HI Hph. unfold an_tinv in HI. rewrite Hph in HI.
  destruct HI as (Ha & HT & Hseq & Hnn & Hoe & Hrel & Hg2).
  assert (Hseq' : an_dec_seq ((a, f, an_now s) :: at_dec (an_tk s k)) a).
  { unfold an_dec_seq in *. cbn [map]. unfold an_attempt_of at 1. cbn [fst]. rewrite Hseq.
    replace a with (S (a - 1)) at 1 3 by lia. rewrite an_rev_seq_S. reflexivity. }
  assert (Hother : forall t' j, j <> k -> an_upd (an_tk s) k t' j = an_tk s j).
  { intros t' j Hj. unfold an_upd. destruct (Nat.eqb_spec j k); [contradiction|reflexivity]. }
  destruct (an_after_cases s k a f) as [[En E]|[[En [El E]]|[En [El E]]]]; rewrite E; clear E;
    cbn [an_tk an_release an_with_task an_now an_next]; (split; [|split; [intros j Hj; apply Hother; exact Hj|split; [reflexivity|split; [reflexivity|]]]]);
    unfold an_upd; rewrite Nat.eqb_refl.
  - unfold an_tinv. cbn. exists a, f, (an_now s), (at_dec (an_tk s k)). rewrite En. cbn. rewrite Hrel, Hg2.
    repeat split; auto; try lia.
  - cbn. intros _. rewrite Hrel. reflexivity.
  - unfold an_tinv. cbn. apply Nat.ltb_lt in El. repeat split; auto; try lia.
    + replace (a - 0)%nat with a by lia. exact Hseq'.
    + constructor; [cbn; exact En|exact Hnn].
  - cbn. intros H; discriminate H.
  - apply Nat.ltb_ge in El. unfold an_tinv.
    destruct (ao_onerr (at_opts (an_tk s k))) eqn:Eo; cbn; rewrite ?Eo;
      exists a, f, (an_now s), (at_dec (an_tk s k)); rewrite En, ?Eo, ?Hoe, Hrel, Hg2; cbn;
      repeat split; auto; try lia; try (right; lia).
  - destruct (ao_onerr (at_opts (an_tk s k))); cbn; intros _; rewrite Hrel; reflexivity.
Qed.

Lemma an_upd_same f k t : an_upd f k t k = t.
Proof. unfold an_upd. rewrite Nat.eqb_refl. reflexivity. Qed.
Lemma an_upd_other f k t j : j <> k -> an_upd f k t j = f j.
Proof. intros H. unfold an_upd. destruct (Nat.eqb_spec j k); [contradiction|reflexivity]. Qed.

Lemma an_tinv_decide s k a c f :
  an_tinv_all s -> at_phase (an_tk s k) = AnWait a c -> an_tinv_all (an_after s k a f).
Proof.
  intros (IH & Hnext & Hrelnow & Hq & Hnd) Hph.
  destruct (an_tinv_after s k a c f (IH k) Hph) as (Hk & Hoth & Hnow & Hnx & Hrel).
  assert (Hch : an_tchan (an_after s k a f) = an_tchan s /\ an_sendq (an_after s k a f) = an_sendq s).
  { destruct (an_after_cases s k a f) as [[_ E]|[[_ [_ E]]|[_ [_ E]]]]; rewrite E; split; reflexivity. }
  destruct Hch as [Ht Hsq].
  split; [|split; [|split; [|split]]].
  - intros j. destruct (Nat.eq_dec j k) as [->|Hne]; [exact Hk|rewrite Hoth by exact Hne; apply IH].
  - intros j Hj. rewrite Hnx in Hj. destruct (Nat.eq_dec j k) as [->|Hne].
    + rewrite Hnext in Hph by exact Hj. discriminate.
    + rewrite Hoth by exact Hne. apply Hnext, Hj.
  - intros j Hd x Hx. rewrite Hnow. destruct (Nat.eq_dec j k) as [->|Hne].
    + rewrite (Hrel Hd) in Hx. destruct Hx as [<-|[]]. lia.
    + rewrite Hoth in * by exact Hne. eapply Hrelnow; eauto.
  - intros j Hj. rewrite Ht, Hsq in Hj. destruct (Nat.eq_dec j k) as [->|Hne].
    + apply Hq in Hj. congruence.
    + rewrite Hoth by exact Hne. apply Hq, Hj.
  - rewrite Ht, Hsq. exact Hnd.
Qed.

Lemma an_tinv_step cfg s e s' :
  an_pub cfg = AnAttemptChannel -> an_tinv_all s -> an_step cfg s e = Some s' -> an_tinv_all s'.
Proof.
  intros Hpub (IH & Hnext & Hrelnow & Hq & Hnd) Hs.
  assert (Hfresh : ~ In (an_next s) (an_tchan s ++ an_sendq s)).
  { intros Hin. apply Hq in Hin. rewrite Hnext in Hin by lia. discriminate. }
  destruct e; an_inv_step Hs; try (inversion Hs; subst; clear Hs).
  - (* send, discarded *)
    split; [|split; [|split; [|split]]]; cbn [an_tk an_next an_now an_tchan an_sendq].
    + an_task_cases j (an_next s) IH. unfold an_tinv. an_bools.
      destruct (ao_onerr o) eqn:Eo; cbn; rewrite ?Eo; repeat split; auto.
    + intros j Hj. rewrite an_upd_other by lia. apply Hnext. lia.
    + intros j. unfold an_upd. destruct (Nat.eqb_spec j (an_next s)); [destruct (ao_onerr o); cbn; discriminate|apply Hrelnow].
    + intros j Hj. rewrite an_upd_other by (intros ->; contradiction). apply Hq, Hj.
    + exact Hnd.
  - (* send, buffered *)
    split; [|split; [|split; [|split]]]; cbn [an_tk an_next an_now an_tchan an_sendq].
    + an_task_cases j (an_next s) IH. unfold an_tinv. an_bools. cbn. repeat split; auto; lia.
    + intros j Hj. rewrite an_upd_other by lia. apply Hnext. lia.
    + intros j. unfold an_upd. destruct (Nat.eqb_spec j (an_next s)); [cbn; discriminate|apply Hrelnow].
    + intros j Hj. unfold an_upd. destruct (Nat.eqb_spec j (an_next s)); [reflexivity|]. apply Hq.
      rewrite <- app_assoc in Hj. apply in_app_or in Hj. apply in_or_app. destruct Hj as [Hj|[Hj|Hj]]; auto. congruence.
    + rewrite <- app_assoc. cbn [app]. apply NoDup_Add with (a := an_next s) (l := an_tchan s ++ an_sendq s).
      * apply Add_app.
      * split; assumption.
  - (* send, blocked *)
    split; [|split; [|split; [|split]]]; cbn [an_tk an_next an_now an_tchan an_sendq].
    + an_task_cases j (an_next s) IH. unfold an_tinv. an_bools. cbn. repeat split; auto; lia.
    + intros j Hj. rewrite an_upd_other by lia. apply Hnext. lia.
    + intros j. unfold an_upd. destruct (Nat.eqb_spec j (an_next s)); [cbn; discriminate|apply Hrelnow].
    + intros j Hj. unfold an_upd. destruct (Nat.eqb_spec j (an_next s)); [reflexivity|]. apply Hq.
      rewrite app_assoc in Hj. apply in_app_or in Hj. destruct Hj as [Hj|[Hj|Hj]]; auto. congruence. contradiction.
    + rewrite app_assoc. apply NoDup_Add with (a := an_next s) (l := an_tchan s ++ an_sendq s).
      * replace (an_tchan s ++ an_sendq s) with ((an_tchan s ++ an_sendq s) ++ []) at 1 by apply app_nil_r. apply Add_app.
      * split; assumption.
  - (* pick *)
    an_bools. subst n. try rewrite M in Hnd. try rewrite M in Hq. cbn [app] in Hnd, Hq.
    assert (Hl : forall q : list nat, (l ++ match q with [] => [] | a :: _ => [a] end) ++ match q with [] => [] | _ :: l0 => l0 end = l ++ q).
    { intros [|q0 q]; rewrite <- app_assoc; reflexivity. }
    inversion Hnd as [|? ? Hk Hnd']; subst.
    assert (Hkq : at_phase (an_tk s k) = AnQueued) by (apply Hq; left; reflexivity).
    split; [|split; [|split; [|split]]]; cbn [an_tk an_next an_now an_tchan an_sendq]; rewrite ?Hl.
    + an_task_cases j k IH. specialize (IH k). unfold an_tinv in *. rewrite Hkq in IH. cbn.
      destruct IH as (H1 & H2 & H3 & H4 & H5 & H6). rewrite H1, H2, H3, H4. repeat split; auto; try lia. constructor.
    + intros j Hj. unfold an_upd. destruct (Nat.eqb_spec j k) as [->|Hne]; [|apply Hnext; exact Hj].
      rewrite Hnext in Hkq by exact Hj. discriminate.
    + intros j. unfold an_upd. destruct (Nat.eqb_spec j k); [cbn; discriminate|apply Hrelnow].
    + intros j Hj. rewrite an_upd_other by (intros ->; contradiction). apply Hq. right. exact Hj.
    + exact Hnd'.
  - (* enqueue *)
    split; [|split; [|split; [|split]]]; cbn [an_tk an_next an_now an_tchan an_sendq]; auto.
    + an_task_cases j k IH. specialize (IH k). unfold an_tinv in *. rewrite M in IH. cbn. exact IH.
    + intros j Hj. unfold an_upd. destruct (Nat.eqb_spec j k) as [->|Hne]; [|apply Hnext; exact Hj].
      rewrite Hnext in M by exact Hj. discriminate.
    + intros j. unfold an_upd. destruct (Nat.eqb_spec j k); [cbn; discriminate|apply Hrelnow].
    + intros j Hj. unfold an_upd. destruct (Nat.eqb_spec j k) as [->|Hne]; [|apply Hq; exact Hj].
      apply Hq in Hj. congruence.
  - (* start *)
    split; [|split; [|split; [|split]]]; cbn [an_tk an_next an_now an_tchan an_sendq]; auto.
    + an_task_cases j k IH. specialize (IH k). unfold an_tinv in *. cbn.
      exact IH.
    + intros j Hj. unfold an_upd. destruct (Nat.eqb_spec j k) as [->|Hne]; [cbn|]; apply Hnext; exact Hj.
    + intros j. unfold an_upd. destruct (Nat.eqb_spec j k) as [->|Hne]; [cbn|]; apply Hrelnow.
    + intros j Hj. unfold an_upd. destruct (Nat.eqb_spec j k) as [->|Hne]; [cbn|]; apply Hq; exact Hj.
  - (* return *)
    split; [|split; [|split; [|split]]]; cbn [an_tk an_next an_now an_tchan an_sendq]; auto.
    + an_task_cases j k IH. specialize (IH k). unfold an_tinv in *. cbn. exact IH.
    + intros j Hj. unfold an_upd. destruct (Nat.eqb_spec j k) as [->|Hne]; [cbn|]; apply Hnext; exact Hj.
    + intros j. unfold an_upd. destruct (Nat.eqb_spec j k) as [->|Hne]; [cbn|]; apply Hrelnow.
    + intros j Hj. unfold an_upd. destruct (Nat.eqb_spec j k) as [->|Hne]; [cbn|]; apply Hq; exact Hj.
  - (* publish *)
    rewrite Hpub.
    split; [|split; [|split; [|split]]]; cbn [an_tk an_next an_now an_tchan an_sendq]; auto.
    + an_task_cases j k IH. specialize (IH k). unfold an_tinv in *. cbn. exact IH.
    + intros j Hj. unfold an_upd. destruct (Nat.eqb_spec j k) as [->|Hne]; [cbn|]; apply Hnext; exact Hj.
    + intros j. unfold an_upd. destruct (Nat.eqb_spec j k) as [->|Hne]; [cbn|]; apply Hrelnow.
    + intros j Hj. unfold an_upd. destruct (Nat.eqb_spec j k) as [->|Hne]; [cbn|]; apply Hq; exact Hj.
  - (* decide via doneChan *)
    eapply an_tinv_decide; eauto. repeat split; assumption.
  - (* decide via deadline *)
    eapply an_tinv_decide; eauto. repeat split; assumption.
  - (* get2 after done *)
    split; [|split; [|split; [|split]]]; cbn [an_tk an_with_task an_next an_now an_tchan an_sendq]; auto.
    + an_task_cases j k IH. pose proof (Hrelnow k M) as Hr. specialize (IH k). unfold an_tinv in *. rewrite M in IH. cbn. rewrite M.
      destruct IH as (n & p & f & rest & H1 & H2 & H3 & H4 & H5 & H6 & H7 & H8 & H9 & H10).
      exists n, p, f, rest. repeat split; auto; try lia. constructor; [|exact H9]. cbn. split; [exact H6|].
      apply Hr. rewrite H7. left. reflexivity.
    + intros j Hj. unfold an_upd. destruct (Nat.eqb_spec j k) as [->|Hne]; [cbn|]; apply Hnext; exact Hj.
    + intros j. unfold an_upd. destruct (Nat.eqb_spec j k) as [->|Hne]; [cbn|]; apply Hrelnow.
    + intros j Hj. unfold an_upd. destruct (Nat.eqb_spec j k) as [->|Hne]; [cbn|]; apply Hq; exact Hj.
  - (* get2 of a discarded task *)
    split; [|split; [|split; [|split]]]; cbn [an_tk an_with_task an_next an_now an_tchan an_sendq]; auto.
    + an_task_cases j k IH. specialize (IH k). unfold an_tinv in *. rewrite M in IH. cbn. rewrite M.
      destruct IH as (H1 & H2 & H3 & H4 & H5 & H6). repeat split; auto.
    + intros j Hj. unfold an_upd. destruct (Nat.eqb_spec j k) as [->|Hne]; [cbn|]; apply Hnext; exact Hj.
    + intros j. unfold an_upd. destruct (Nat.eqb_spec j k) as [->|Hne]; [cbn|]; apply Hrelnow.
    + intros j Hj. unfold an_upd. destruct (Nat.eqb_spec j k) as [->|Hne]; [cbn|]; apply Hq; exact Hj.
  - (* advance *)
    an_bools. split; [|split; [|split; [|split]]]; cbn [an_tk an_next an_now an_tchan an_sendq]; auto.
    intros j Hd f Hf. specialize (Hrelnow j Hd f Hf). lia.
Qed.

Lemma an_tinv_reach cfg s : an_pub cfg = AnAttemptChannel -> an_reach cfg s -> an_tinv_all s.
Proof.
  intros Hpub. apply (an_reach_inv an_tinv_all).
  - unfold an_tinv_all; cbn. repeat split; auto; try (intros; contradiction). constructor.
  - intros s0 e s1 _ H Hs. eapply an_tinv_step; eauto.
Qed.
