(* AntsProofs.v -- lemmas about the ants pool model (models/Ants.v); the property theorems
   in props/C07.v and props/C08.v are closed by [exact] of lemmas proved here. *)
From Got Require Import Base Ants.
Local Open Scope Z_scope.

(* ------------------------------------------------------------------ generalities *)
Definition an_reach (cfg : an_cfg) (s : an_state) : Prop :=
  exists evs, an_run cfg an_init evs = Some s.

Lemma an_run_app cfg s evs1 evs2 :
  an_run cfg s (evs1 ++ evs2) =
  match an_run cfg s evs1 with Some s' => an_run cfg s' evs2 | None => None end.
Proof.
  revert s. induction evs1 as [|e r IH]; intros s; cbn [an_run app]; [reflexivity|].
  destruct (an_step cfg s e); [apply IH|reflexivity].
Qed.

Lemma an_run_inv (P : an_state -> Prop) cfg :
  (forall s e s', P s -> an_step cfg s e = Some s' -> P s') ->
  forall evs s s', P s -> an_run cfg s evs = Some s' -> P s'.
Proof.
  intros Hstep evs. induction evs as [|e r IH]; intros s s' HP Hrun; cbn [an_run] in Hrun.
  - inversion Hrun; subst; exact HP.
  - destruct (an_step cfg s e) as [s1|] eqn:E; [|discriminate].
    eapply IH; [|exact Hrun]. eapply Hstep; eauto.
Qed.

Lemma an_reach_inv (P : an_state -> Prop) cfg :
  P an_init ->
  (forall s e s', an_reach cfg s -> P s -> an_step cfg s e = Some s' -> P s') ->
  forall s, an_reach cfg s -> P s.
Proof.
  intros H0 Hstep s [evs Hrun].
  assert (G : an_reach cfg s /\ P s).
  { eapply (an_run_inv (fun s => an_reach cfg s /\ P s) cfg); [| |exact Hrun].
    - intros s1 e s2 [Hr HP] Hs. split.
      + destruct Hr as [ev1 Hr]. exists (ev1 ++ [e]). rewrite an_run_app, Hr. cbn [an_run]. rewrite Hs. reflexivity.
      + eapply Hstep; eauto.
    - split; [exists []; reflexivity|exact H0]. }
  exact (proj2 G).
Qed.

Lemma an_reach_step cfg s e s' : an_reach cfg s -> an_step cfg s e = Some s' -> an_reach cfg s'.
Proof.
  intros [evs Hr] Hs. exists (evs ++ [e]). rewrite an_run_app, Hr. cbn [an_run]. rewrite Hs. reflexivity.
Qed.

Lemma an_extract_spec f l x r :
  an_extract f l = Some (x, r) ->
  f x = true /\ exists l1 l2, l = l1 ++ x :: l2 /\ r = l1 ++ l2.
Proof.
  revert x r. induction l as [|y l IH]; intros x r H; cbn [an_extract] in H; [discriminate|].
  destruct (f y) eqn:Ef.
  - inversion H; subst. split; [exact Ef|]. exists [], r. split; reflexivity.
  - destruct (an_extract f l) as [[z r']|] eqn:E; [|discriminate]. inversion H; subst.
    destruct (IH _ _ eq_refl) as [Hf [l1 [l2 [H1 H2]]]]. split; [exact Hf|].
    exists (y :: l1), l2. subst. split; reflexivity.
Qed.

Lemma an_extract_length f l x r : an_extract f l = Some (x, r) -> length l = S (length r).
Proof.
  intros H. destruct (an_extract_spec _ _ _ _ H) as [_ [l1 [l2 [H1 H2]]]]. subst.
  rewrite !app_length. cbn [length]. lia.
Qed.

Lemma an_extract_in f l x r : an_extract f l = Some (x, r) -> In x l /\ (forall y, In y r -> In y l) /\ (forall y, In y l -> y = x \/ In y r).
Proof.
  intros H. destruct (an_extract_spec _ _ _ _ H) as [_ [l1 [l2 [H1 H2]]]]. subst. split; [|split].
  - apply in_or_app. right. left. reflexivity.
  - intros y Hy. apply in_app_or in Hy. apply in_or_app. destruct Hy; [left|right; right]; assumption.
  - intros y Hy. apply in_app_or in Hy. destruct Hy as [Hy|[Hy|Hy]]; [right|left|right]; try (apply in_or_app); auto.
Qed.

Lemma an_filter_length {A} (f : A -> bool) l : (length (filter f l) <= length l)%nat.
Proof. induction l as [|x l IH]; cbn [filter length]; [lia|]. destruct (f x); cbn [length]; lia. Qed.

Lemma an_nrun_le ws : (an_nrun ws <= length ws)%nat.
Proof. unfold an_nrun. apply an_filter_length. Qed.

Lemma an_remove_length k l : (length (an_remove k l) <= length l)%nat.
Proof. unfold an_remove. apply an_filter_length. Qed.

Lemma an_remove_in k l j : In j (an_remove k l) <-> In j l /\ j <> k.
Proof.
  unfold an_remove. rewrite filter_In. split; intros [H1 H2]; split; auto.
  - intros ->. rewrite Nat.eqb_refl in H2. discriminate.
  - apply Bool.negb_true_iff. apply Nat.eqb_neq. exact H2.
Qed.

(* projections of the two helper transitions *)
Lemma an_release_proj s k t :
  let s' := an_release s k t in
  an_now s' = an_now s /\ an_next s' = an_next s /\ an_tchan s' = an_tchan s /\ an_sendq s' = an_sendq s /\
  an_active s' = an_remove k (an_active s) /\ an_ichan s' = an_ichan s /\ an_workers s' = an_workers s /\
  an_maxrun s' = an_maxrun s.
Proof. cbn. repeat split. Qed.

(* the state after the dispatcher's decision: one of three shapes *)
Lemma an_after_cases s k a f :
  let t0 := an_tk s k in
  let t := at_set_dec (at_set_fields t0 f) ((a, f, an_now s) :: at_dec t0) in
  (an_is_nil (snd f) = true /\ an_after s k a f = an_release s k t) \/
  (an_is_nil (snd f) = false /\ Nat.ltb a (ao_R (at_opts t0)) = true /\
     an_after s k a f = an_with_task s k (at_set_phase t (AnEnq (S a) (an_now s)))) \/
  (an_is_nil (snd f) = false /\ Nat.ltb a (ao_R (at_opts t0)) = false /\
     an_after s k a f = an_release s k (if ao_onerr (at_opts t0) then at_set_onerr t ((snd f, an_now s) :: at_onerr t) else t)).
Proof.
  cbn zeta. unfold an_after. cbn [at_opts at_set_dec at_set_fields].
  destruct (an_is_nil (snd f)); [left; split; reflexivity|].
  destruct (Nat.ltb a (ao_R (at_opts (an_tk s k)))); [right; left|right; right]; repeat split; reflexivity.
Qed.

(* ------------------------------------------------------------------ step inversion *)
Ltac an_inv_step H :=
  unfold an_step in H;
  repeat match type of H with
         | (if ?c then _ else _) = Some _ => let E := fresh "G" in destruct c eqn:E; [|try discriminate H]
         | (match ?x with _ => _ end) = Some _ =>
             let E := fresh "M" in destruct x eqn:E; try discriminate H
         | (let (_, _) := ?x in _) = Some _ => let E := fresh "M" in destruct x eqn:E
         end;
  try discriminate H.

(* ------------------------------------------------------------------ C08: counting *)
Definition an_cnt (cfg : an_cfg) (s : an_state) : Prop :=
  (length (an_tchan s) <= an_N cfg)%nat /\ (length (an_active s) <= an_N cfg)%nat /\
  (length (an_ichan s) <= an_N cfg)%nat /\ (length (an_workers s) <= an_N cfg)%nat /\
  (an_maxrun s <= an_N cfg)%nat /\ (an_sendq s <> [] -> length (an_tchan s) = an_N cfg).

Lemma an_cnt_after cfg s k a f :
  an_cnt cfg s -> an_cnt cfg (an_after s k a f).
Proof.
  intros (H1 & H2 & H3 & H4 & H5 & H6).
  destruct (an_after_cases s k a f) as [[_ E]|[[_ [_ E]]|[_ [_ E]]]]; rewrite E; unfold an_cnt; cbn;
    repeat split; auto; try (pose proof (an_remove_length k (an_active s)); lia).
Qed.

Ltac an_bools :=
  repeat match goal with
         | E : Nat.ltb _ _ = true |- _ => apply Nat.ltb_lt in E
         | E : Nat.ltb _ _ = false |- _ => apply Nat.ltb_ge in E
         | E : Nat.leb _ _ = true |- _ => apply Nat.leb_le in E
         | E : Nat.leb _ _ = false |- _ => apply Nat.leb_gt in E
         | E : (_ && _)%bool = true |- _ => apply andb_prop in E; destruct E
         | E : Nat.eqb _ _ = true |- _ => apply Nat.eqb_eq in E
         | E : Nat.eqb _ _ = false |- _ => apply Nat.eqb_neq in E
         | E : (_ <? _) = true |- _ => apply Z.ltb_lt in E
         | E : (_ <? _) = false |- _ => apply Z.ltb_ge in E
         | E : (_ <=? _) = true |- _ => apply Z.leb_le in E
         | E : (_ <=? _) = false |- _ => apply Z.leb_gt in E
         | E : (_ =? _) = true |- _ => apply Z.eqb_eq in E
         end.

Lemma an_cnt_step cfg s e s' : an_cnt cfg s -> an_step cfg s e = Some s' -> an_cnt cfg s'.
Proof.
  intros (H1 & H2 & H3 & H4 & H5 & H6) Hs.
  destruct e; an_inv_step Hs; try (inversion Hs; subst; clear Hs);
    try (apply an_cnt_after; unfold an_cnt; repeat split; auto; fail);
    unfold an_cnt; cbn [an_tchan an_active an_ichan an_workers an_maxrun an_sendq an_with_task]; an_bools.
  - (* send, discarded *) repeat split; auto.
  - (* send, buffered *) rewrite app_length; cbn [length]. repeat split; auto; try lia.
    all: try (intros Hq; specialize (H6 Hq); lia).
  - (* send, blocked *) repeat split; auto. all: try (intros _; lia).
  - (* pick *) try rewrite M in *. cbn [length] in *. rewrite app_length.
    destruct (an_sendq s) as [|q qs]; cbn [firstn skipn length].
    + repeat split; auto; try lia. intros Hq; congruence.
    + assert (E : S (length l) = an_N cfg) by (apply H6; discriminate). repeat split; auto; try lia.
  - (* enqueue *) rewrite app_length; cbn [length]. repeat split; auto; lia.
  - (* start *) try rewrite M in *. cbn [length] in *. repeat split; auto; try lia.
    apply Nat.max_lub; [exact H5|].
    etransitivity; [apply an_nrun_le|]. cbn [length]. lia.
  - (* return *) apply an_extract_length in M. cbn [length]. repeat split; auto; try lia.
  - (* publish *) apply an_extract_length in M. repeat split; auto; lia.
  - (* get2 *) repeat split; auto.
  - (* get2 *) repeat split; auto.
  - (* advance *) repeat split; auto.
  - (* parent cancel, again *) repeat split; auto.
  - (* parent cancel *) rewrite !map_length. repeat split; auto.
Qed.

Lemma an_cnt_reach cfg s : an_reach cfg s -> an_cnt cfg s.
Proof.
  apply (an_reach_inv (an_cnt cfg)).
  - unfold an_cnt; cbn. repeat split; try lia. intros H; congruence.
  - intros s0 e s1 _ H Hs. eapply an_cnt_step; eauto.
Qed.

(* ------------------------------------------------------------------ C07: per-task log structure *)
Definition an_attempt_of (x : nat * an_pair * Z) : nat := fst (fst x).
Definition an_pair_of (x : nat * an_pair * Z) : an_pair := snd (fst x).
Definition an_errs_nonnil (l : list (nat * an_pair * Z)) : Prop :=
  Forall (fun x => an_is_nil (snd (an_pair_of x)) = false) l.
(* the decision log holds exactly the attempts n, n-1, ..., 1 (newest first) *)
Definition an_dec_seq (l : list (nat * an_pair * Z)) (n : nat) : Prop :=
  map an_attempt_of l = rev (seq 1 n).

Lemma an_rev_seq_S n : rev (seq 1 (S n)) = S n :: rev (seq 1 n).
Proof. rewrite seq_S, rev_app_distr. reflexivity. Qed.

Definition an_tinv (t : an_task) : Prop :=
  let o := at_opts t in
  match at_phase t with
  | AnUnsent => at_rel t = [] /\ at_get2 t = [] /\ at_onerr t = [] /\ at_dec t = []
  | AnQueued =>
      at_dec t = [] /\ at_onerr t = [] /\ at_rel t = [] /\ at_get2 t = [] /\ (1 <= ao_R o)%nat /\ 0 < ao_T o
  | AnEnq a c | AnWait a c =>
      (1 <= a <= ao_R o)%nat /\ 0 < ao_T o /\ an_dec_seq (at_dec t) (a - 1) /\ an_errs_nonnil (at_dec t) /\
      at_onerr t = [] /\ at_rel t = [] /\ at_get2 t = []
  | AnDone =>
      exists n p f rest,
        at_dec t = (n, p, f) :: rest /\ an_dec_seq (at_dec t) n /\ an_errs_nonnil rest /\
        (1 <= n <= ao_R o)%nat /\ (an_is_nil (snd p) = true \/ n = ao_R o) /\
        at_fields t = p /\ at_rel t = [f] /\
        at_onerr t = (if negb (an_is_nil (snd p)) && ao_onerr o then [(snd p, f)] else []) /\
        Forall (fun g => fst g = p /\ f <= snd g) (at_get2 t) /\ 0 < ao_T o
  | AnDiscarded =>
      at_dec t = [] /\ at_rel t = [] /\ at_fields t = (None, AnDiscard) /\
      at_onerr t = (if ao_onerr o then [(AnDiscard, at_sent t)] else []) /\
      Forall (fun g => fst g = (None, AnDiscard)) (at_get2 t) /\ ao_discard o = true
  end.

Definition an_tinv_all (s : an_state) : Prop :=
  (forall j, an_tinv (an_tk s j)) /\
  (forall j, (an_next s <= j)%nat -> at_phase (an_tk s j) = AnUnsent) /\
  (forall j, at_phase (an_tk s j) = AnDone -> forall f, In f (at_rel (an_tk s j)) -> f <= an_now s) /\
  (forall j, In j (an_tchan s ++ an_sendq s) -> at_phase (an_tk s j) = AnQueued) /\
  NoDup (an_tchan s ++ an_sendq s).

Ltac an_task_cases j k IH :=
  intros j; cbn [an_tk an_with_task an_release]; unfold an_upd;
  destruct (Nat.eqb_spec j k) as [->|?]; [|apply IH].

Lemma an_tinv_after s k a c f :
  an_tinv (an_tk s k) -> at_phase (an_tk s k) = AnWait a c ->
  an_tinv (an_tk (an_after s k a f) k) /\
  (forall j, j <> k -> an_tk (an_after s k a f) j = an_tk s j) /\
  an_now (an_after s k a f) = an_now s /\ an_next (an_after s k a f) = an_next s /\
  (at_phase (an_tk (an_after s k a f) k) = AnDone -> at_rel (an_tk (an_after s k a f) k) = [an_now s]).
Proof.
  intros HI Hph. unfold an_tinv in HI. rewrite Hph in HI.
  destruct HI as (Ha & HT & Hseq & Hnn & Hoe & Hrel & Hg2).
  assert (Hseq' : an_dec_seq ((a, f, an_now s) :: at_dec (an_tk s k)) a).
  { unfold an_dec_seq in *. cbn [map]. unfold an_attempt_of at 1. cbn [fst]. rewrite Hseq.
    replace a with (S (a - 1)) at 1 3 by lia. rewrite an_rev_seq_S. reflexivity. }
  assert (Hother : forall t' j, j <> k -> an_upd (an_tk s) k t' j = an_tk s j).
  { intros t' j Hj. unfold an_upd. destruct (Nat.eqb_spec j k); [contradiction|reflexivity]. }
  destruct (an_after_cases s k a f) as [[En E]|[[En [El E]]|[En [El E]]]]; rewrite E; clear E;
    cbn [an_tk an_release an_with_task an_now an_next]; (split; [|split; [intros j Hj; apply Hother; exact Hj|split; [reflexivity|split; [reflexivity|]]]]);
    unfold an_upd; rewrite Nat.eqb_refl.
  - unfold an_tinv. cbn. exists a, f, (an_now s), (at_dec (an_tk s k)). rewrite En. cbn. rewrite Hrel, Hg2.
    repeat split; auto; try lia.
  - cbn. intros _. rewrite Hrel. reflexivity.
  - unfold an_tinv. cbn. apply Nat.ltb_lt in El. repeat split; auto; try lia.
    + replace (a - 0)%nat with a by lia. exact Hseq'.
    + constructor; [cbn; exact En|exact Hnn].
  - cbn. intros H; discriminate H.
  - apply Nat.ltb_ge in El. unfold an_tinv.
    destruct (ao_onerr (at_opts (an_tk s k))) eqn:Eo; cbn; rewrite ?Eo;
      exists a, f, (an_now s), (at_dec (an_tk s k)); rewrite En, ?Eo, ?Hoe, Hrel, Hg2; cbn;
      repeat split; auto; try lia; try (right; lia).
  - destruct (ao_onerr (at_opts (an_tk s k))); cbn; intros _; rewrite Hrel; reflexivity.
Qed.

Lemma an_upd_same f k t : an_upd f k t k = t.
Proof. unfold an_upd. rewrite Nat.eqb_refl. reflexivity. Qed.
Lemma an_upd_other f k t j : j <> k -> an_upd f k t j = f j.
Proof. intros H. unfold an_upd. destruct (Nat.eqb_spec j k); [contradiction|reflexivity]. Qed.

Lemma an_tinv_decide s k a c f :
  an_tinv_all s -> at_phase (an_tk s k) = AnWait a c -> an_tinv_all (an_after s k a f).
Proof.
  intros (IH & Hnext & Hrelnow & Hq & Hnd) Hph.
  destruct (an_tinv_after s k a c f (IH k) Hph) as (Hk & Hoth & Hnow & Hnx & Hrel).
  assert (Hch : an_tchan (an_after s k a f) = an_tchan s /\ an_sendq (an_after s k a f) = an_sendq s).
  { destruct (an_after_cases s k a f) as [[_ E]|[[_ [_ E]]|[_ [_ E]]]]; rewrite E; split; reflexivity. }
  destruct Hch as [Ht Hsq].
  split; [|split; [|split; [|split]]].
  - intros j. destruct (Nat.eq_dec j k) as [->|Hne]; [exact Hk|rewrite Hoth by exact Hne; apply IH].
  - intros j Hj. rewrite Hnx in Hj. destruct (Nat.eq_dec j k) as [->|Hne].
    + rewrite Hnext in Hph by exact Hj. discriminate.
    + rewrite Hoth by exact Hne. apply Hnext, Hj.
  - intros j Hd x Hx. rewrite Hnow. destruct (Nat.eq_dec j k) as [->|Hne].
    + rewrite (Hrel Hd) in Hx. destruct Hx as [<-|[]]. lia.
    + rewrite Hoth in * by exact Hne. eapply Hrelnow; eauto.
  - intros j Hj. rewrite Ht, Hsq in Hj. destruct (Nat.eq_dec j k) as [->|Hne].
    + apply Hq in Hj. congruence.
    + rewrite Hoth by exact Hne. apply Hq, Hj.
  - rewrite Ht, Hsq. exact Hnd.
Qed.

Lemma an_tinv_step cfg s e s' :
  an_pub cfg = AnAttemptChannel -> an_tinv_all s -> an_step cfg s e = Some s' -> an_tinv_all s'.
Proof.
  intros Hpub (IH & Hnext & Hrelnow & Hq & Hnd) Hs.
  assert (Hfresh : ~ In (an_next s) (an_tchan s ++ an_sendq s)).
  { intros Hin. apply Hq in Hin. rewrite Hnext in Hin by lia. discriminate. }
  destruct e; an_inv_step Hs; try (inversion Hs; subst; clear Hs).
  - (* send, discarded *)
    split; [|split; [|split; [|split]]]; cbn [an_tk an_next an_now an_tchan an_sendq].
    + an_task_cases j (an_next s) IH. unfold an_tinv. an_bools.
      destruct (ao_onerr o) eqn:Eo; cbn; rewrite ?Eo; repeat split; auto.
    + intros j Hj. rewrite an_upd_other by lia. apply Hnext. lia.
    + intros j. unfold an_upd. destruct (Nat.eqb_spec j (an_next s)); [destruct (ao_onerr o); cbn; discriminate|apply Hrelnow].
    + intros j Hj. rewrite an_upd_other by (intros ->; contradiction). apply Hq, Hj.
    + exact Hnd.
  - (* send, buffered *)
    split; [|split; [|split; [|split]]]; cbn [an_tk an_next an_now an_tchan an_sendq].
    + an_task_cases j (an_next s) IH. unfold an_tinv. an_bools. cbn. repeat split; auto; lia.
    + intros j Hj. rewrite an_upd_other by lia. apply Hnext. lia.
    + intros j. unfold an_upd. destruct (Nat.eqb_spec j (an_next s)); [cbn; discriminate|apply Hrelnow].
    + intros j Hj. unfold an_upd. destruct (Nat.eqb_spec j (an_next s)); [reflexivity|]. apply Hq.
      rewrite <- app_assoc in Hj. apply in_app_or in Hj. apply in_or_app. destruct Hj as [Hj|[Hj|Hj]]; auto. congruence.
    + rewrite <- app_assoc. cbn [app]. apply NoDup_Add with (a := an_next s) (l := an_tchan s ++ an_sendq s).
      * apply Add_app.
      * split; assumption.
  - (* send, blocked *)
    split; [|split; [|split; [|split]]]; cbn [an_tk an_next an_now an_tchan an_sendq].
    + an_task_cases j (an_next s) IH. unfold an_tinv. an_bools. cbn. repeat split; auto; lia.
    + intros j Hj. rewrite an_upd_other by lia. apply Hnext. lia.
    + intros j. unfold an_upd. destruct (Nat.eqb_spec j (an_next s)); [cbn; discriminate|apply Hrelnow].
    + intros j Hj. unfold an_upd. destruct (Nat.eqb_spec j (an_next s)); [reflexivity|]. apply Hq.
      rewrite app_assoc in Hj. apply in_app_or in Hj. destruct Hj as [Hj|[Hj|Hj]]; auto. congruence. contradiction.
    + rewrite app_assoc. apply NoDup_Add with (a := an_next s) (l := an_tchan s ++ an_sendq s).
      * replace (an_tchan s ++ an_sendq s) with ((an_tchan s ++ an_sendq s) ++ []) at 1 by apply app_nil_r. apply Add_app.
      * split; assumption.
  - (* pick *)
    an_bools. subst n. try rewrite M in Hnd. try rewrite M in Hq. cbn [app] in Hnd, Hq.
    assert (Hl : forall q : list nat, (l ++ match q with [] => [] | a :: _ => [a] end) ++ match q with [] => [] | _ :: l0 => l0 end = l ++ q).
    { intros [|q0 q]; rewrite <- app_assoc; reflexivity. }
    inversion Hnd as [|? ? Hk Hnd']; subst.
    assert (Hkq : at_phase (an_tk s k) = AnQueued) by (apply Hq; left; reflexivity).
    split; [|split; [|split; [|split]]]; cbn [an_tk an_next an_now an_tchan an_sendq]; rewrite ?Hl.
    + an_task_cases j k IH. specialize (IH k). unfold an_tinv in *. rewrite Hkq in IH. cbn.
      destruct IH as (H1 & H2 & H3 & H4 & H5 & H6). rewrite H1, H2, H3, H4. repeat split; auto; try lia. constructor.
    + intros j Hj. unfold an_upd. destruct (Nat.eqb_spec j k) as [->|Hne]; [|apply Hnext; exact Hj].
      rewrite Hnext in Hkq by exact Hj. discriminate.
    + intros j. unfold an_upd. destruct (Nat.eqb_spec j k); [cbn; discriminate|apply Hrelnow].
    + intros j Hj. rewrite an_upd_other by (intros ->; contradiction). apply Hq. right. exact Hj.
    + exact Hnd'.
  - (* enqueue *)
    split; [|split; [|split; [|split]]]; cbn [an_tk an_next an_now an_tchan an_sendq]; auto.
    + an_task_cases j k IH. specialize (IH k). unfold an_tinv in *. rewrite M in IH. cbn. exact IH.
    + intros j Hj. unfold an_upd. destruct (Nat.eqb_spec j k) as [->|Hne]; [|apply Hnext; exact Hj].
      rewrite Hnext in M by exact Hj. discriminate.
    + intros j. unfold an_upd. destruct (Nat.eqb_spec j k); [cbn; discriminate|apply Hrelnow].
    + intros j Hj. unfold an_upd. destruct (Nat.eqb_spec j k) as [->|Hne]; [|apply Hq; exact Hj].
      apply Hq in Hj. congruence.
  - (* start *)
    split; [|split; [|split; [|split]]]; cbn [an_tk an_next an_now an_tchan an_sendq]; auto.
    + an_task_cases j k IH. specialize (IH k). unfold an_tinv in *. cbn.
      exact IH.
    + intros j Hj. unfold an_upd. destruct (Nat.eqb_spec j k) as [->|Hne]; [cbn|]; apply Hnext; exact Hj.
    + intros j. unfold an_upd. destruct (Nat.eqb_spec j k) as [->|Hne]; [cbn|]; apply Hrelnow.
    + intros j Hj. unfold an_upd. destruct (Nat.eqb_spec j k) as [->|Hne]; [cbn|]; apply Hq; exact Hj.
  - (* return *)
    split; [|split; [|split; [|split]]]; cbn [an_tk an_next an_now an_tchan an_sendq]; auto.
    + an_task_cases j k IH. specialize (IH k). unfold an_tinv in *. cbn. exact IH.
    + intros j Hj. unfold an_upd. destruct (Nat.eqb_spec j k) as [->|Hne]; [cbn|]; apply Hnext; exact Hj.
    + intros j. unfold an_upd. destruct (Nat.eqb_spec j k) as [->|Hne]; [cbn|]; apply Hrelnow.
    + intros j Hj. unfold an_upd. destruct (Nat.eqb_spec j k) as [->|Hne]; [cbn|]; apply Hq; exact Hj.
  - (* publish *)
    rewrite Hpub.
    split; [|split; [|split; [|split]]]; cbn [an_tk an_next an_now an_tchan an_sendq]; auto.
    + an_task_cases j k IH. specialize (IH k). unfold an_tinv in *. cbn. exact IH.
    + intros j Hj. unfold an_upd. destruct (Nat.eqb_spec j k) as [->|Hne]; [cbn|]; apply Hnext; exact Hj.
    + intros j. unfold an_upd. destruct (Nat.eqb_spec j k) as [->|Hne]; [cbn|]; apply Hrelnow.
    + intros j Hj. unfold an_upd. destruct (Nat.eqb_spec j k) as [->|Hne]; [cbn|]; apply Hq; exact Hj.
  - (* decide via doneChan *)
    eapply an_tinv_decide; eauto. repeat split; assumption.
  - (* decide via deadline *)
    eapply an_tinv_decide; eauto. repeat split; assumption.
  - (* get2 after done *)
    split; [|split; [|split; [|split]]]; cbn [an_tk an_with_task an_next an_now an_tchan an_sendq]; auto.
    + an_task_cases j k IH. pose proof (Hrelnow k M) as Hr. specialize (IH k). unfold an_tinv in *. rewrite M in IH. cbn. rewrite M.
      destruct IH as (n & p & f & rest & H1 & H2 & H3 & H4 & H5 & H6 & H7 & H8 & H9 & H10).
      exists n, p, f, rest. repeat split; auto; try lia. constructor; [|exact H9]. cbn. split; [exact H6|].
      apply Hr. rewrite H7. left. reflexivity.
    + intros j Hj. unfold an_upd. destruct (Nat.eqb_spec j k) as [->|Hne]; [cbn|]; apply Hnext; exact Hj.
    + intros j. unfold an_upd. destruct (Nat.eqb_spec j k) as [->|Hne]; [cbn|]; apply Hrelnow.
    + intros j Hj. unfold an_upd. destruct (Nat.eqb_spec j k) as [->|Hne]; [cbn|]; apply Hq; exact Hj.
  - (* get2 of a discarded task *)
    split; [|split; [|split; [|split]]]; cbn [an_tk an_with_task an_next an_now an_tchan an_sendq]; auto.
    + an_task_cases j k IH. specialize (IH k). unfold an_tinv in *. rewrite M in IH. cbn. rewrite M.
      destruct IH as (H1 & H2 & H3 & H4 & H5 & H6). repeat split; auto.
    + intros j Hj. unfold an_upd. destruct (Nat.eqb_spec j k) as [->|Hne]; [cbn|]; apply Hnext; exact Hj.
    + intros j. unfold an_upd. destruct (Nat.eqb_spec j k) as [->|Hne]; [cbn|]; apply Hrelnow.
    + intros j Hj. unfold an_upd. destruct (Nat.eqb_spec j k) as [->|Hne]; [cbn|]; apply Hq; exact Hj.
  - (* advance *)
    an_bools. split; [|split; [|split; [|split]]]; cbn [an_tk an_next an_now an_tchan an_sendq]; auto.
    intros j Hd f Hf. specialize (Hrelnow j Hd f Hf). lia.
  - (* parent cancel, again *) exact (conj IH (conj Hnext (conj Hrelnow (conj Hq Hnd)))).
  - (* parent cancel *) exact (conj IH (conj Hnext (conj Hrelnow (conj Hq Hnd)))).
Qed.

Lemma an_tinv_reach cfg s : an_pub cfg = AnAttemptChannel -> an_reach cfg s -> an_tinv_all s.
Proof.
  intros Hpub. apply (an_reach_inv an_tinv_all).
  - unfold an_tinv_all; cbn. repeat split; auto; try (intros; contradiction). constructor.
  - intros s0 e s1 _ H Hs. eapply an_tinv_step; eauto.
Qed.

(* ------------------------------------------------------------------ C08: Get2 accounting *)
Definition an_acc_task (s : an_state) (k : nat) : Prop :=
  let t := an_tk s k in
  let T := ao_T (at_opts t) in
  0 <= at_late t <= at_blocked t /\
  match at_phase t with
  | AnEnq a c => In k (an_active s) /\ c <= an_now s /\ c <= at_pickup t + Z.of_nat (a - 1) * T + at_late t
  | AnWait a c => In k (an_active s) /\ c <= an_now s /\ an_now s <= at_pickup t + Z.of_nat a * T + at_late t /\
                  c + T <= at_pickup t + Z.of_nat a * T + at_late t
  | AnDone => forall f, In f (at_rel t) -> f <= at_pickup t + Z.of_nat (ao_R (at_opts t)) * T + at_late t
  | _ => True
  end.
Definition an_acc (s : an_state) : Prop := forall k, an_acc_task s k.

Lemma an_acc_frame s s' k :
  an_tk s' k = an_tk s k -> an_now s <= an_now s' ->
  (forall a c, at_phase (an_tk s k) = AnWait a c -> an_now s' <= Z.max (an_now s) (c + ao_T (at_opts (an_tk s k)))) ->
  (In k (an_active s) -> In k (an_active s')) ->
  an_acc_task s k -> an_acc_task s' k.
Proof.
  intros Ht Hnow Hw Hact. unfold an_acc_task. rewrite Ht. intros [HL H]. split; [exact HL|].
  destruct (at_phase (an_tk s k)) eqn:E; auto.
  - destruct H as (H1 & H2 & H3). repeat split; auto; lia.
  - destruct H as (H1 & H2 & H3 & H4). specialize (Hw _ _ eq_refl). repeat split; auto; lia.
Qed.

Lemma an_dl_le s d : an_dl s d <= d.
Proof. unfold an_dl. destruct (an_pc s); lia. Qed.

Lemma an_quiet_wait cfg s dt k a c :
  an_quiet cfg s dt = true -> In k (an_active s) -> at_phase (an_tk s k) = AnWait a c ->
  an_now s + dt <= c + ao_T (at_opts (an_tk s k)).
Proof.
  unfold an_quiet. intros H Hin Hph. apply andb_prop in H. destruct H as [_ H].
  rewrite forallb_forall in H. specialize (H k Hin). unfold an_task_quiet in H. rewrite Hph in H.
  apply andb_prop in H. destruct H as [H _]. apply Z.leb_le in H.
  pose proof (an_dl_le s (c + ao_T (at_opts (an_tk s k)))). lia.
Qed.

Lemma an_acc_decide s k a c f :
  an_tinv (an_tk s k) -> an_acc s -> at_phase (an_tk s k) = AnWait a c -> an_acc (an_after s k a f).
Proof.
  intros Tk IH Hph.
  destruct (an_tinv_after s k a c f Tk Hph) as (_ & Hoth & Hnow & _ & _).
  pose proof (IH k) as Hk. unfold an_acc_task, an_tinv in Hk, Tk. rewrite Hph in Hk, Tk.
  destruct Hk as (HL & H1 & H2 & H3 & H4). destruct Tk as (Ha & HT & _ & _ & _ & Hrel & _).
  intros j. destruct (Nat.eq_dec j k) as [->|Hne].
  - destruct (an_after_cases s k a f) as [[En E]|[[En [El E]]|[En [El E]]]]; rewrite E; clear E;
      unfold an_acc_task; cbn [an_tk an_release an_with_task an_now an_active]; rewrite an_upd_same.
    + cbn. rewrite Hrel. split; [exact HL|]. intros x [<-|[]]. assert (Z.of_nat a <= Z.of_nat (ao_R (at_opts (an_tk s k)))) by lia. nia.
    + cbn. split; [exact HL|]. replace (a - 0)%nat with a by lia. repeat split; auto; lia.
    + destruct (ao_onerr (at_opts (an_tk s k))); cbn; rewrite Hrel; (split; [exact HL|]); intros x [<-|[]];
        assert (Z.of_nat a <= Z.of_nat (ao_R (at_opts (an_tk s k)))) by lia; nia.
  - apply (an_acc_frame s _ j); [apply Hoth, Hne|lia| | |apply IH].
    + intros a' c' _. lia.
    + intros Hin. destruct (an_after_cases s k a f) as [[En E]|[[En [El E]]|[En [El E]]]]; rewrite E; cbn [an_active an_release an_with_task]; auto;
        apply an_remove_in; split; auto.
Qed.

Lemma an_acc_step cfg s e s' :
  an_urg cfg = true -> an_tinv_all s -> an_acc s -> an_step cfg s e = Some s' -> an_acc s'.
Proof.
  intros Hurg (IT & _) IH Hs.
  assert (Hsame : forall (k0 : nat) (s1 : an_state), an_now s1 = an_now s -> (forall j, In j (an_active s) -> In j (an_active s1)) ->
                  forall j, an_tk s1 j = an_tk s j -> an_acc_task s1 j).
  { intros k0 s1 Hn Ha j Hj. apply (an_acc_frame s s1 j Hj); [lia| |apply Ha|apply IH]. intros a c _. lia. }
  destruct e; an_inv_step Hs; try (inversion Hs; subst; clear Hs).
  - (* send, discarded *)
    intros j. destruct (Nat.eq_dec j (an_next s)) as [->|Hne].
    + unfold an_acc_task. cbn [an_tk]. rewrite an_upd_same. destruct (ao_onerr o); cbn; split; auto; lia.
    + apply (Hsame 0%nat); auto. cbn [an_tk]. apply an_upd_other, Hne.
  - intros j. destruct (Nat.eq_dec j (an_next s)) as [->|Hne].
    + unfold an_acc_task. cbn [an_tk]. rewrite an_upd_same. cbn; split; auto; lia.
    + apply (Hsame 0%nat); auto. cbn [an_tk]. apply an_upd_other, Hne.
  - intros j. destruct (Nat.eq_dec j (an_next s)) as [->|Hne].
    + unfold an_acc_task. cbn [an_tk]. rewrite an_upd_same. cbn; split; auto; lia.
    + apply (Hsame 0%nat); auto. cbn [an_tk]. apply an_upd_other, Hne.
  - (* pick *)
    intros j. destruct (Nat.eq_dec j k) as [->|Hne].
    + destruct (IH k) as [HL _]. unfold an_acc_task. cbn [an_tk an_now an_active]. rewrite an_upd_same. cbn.
      split; [exact HL|]. repeat split; auto; lia.
    + apply (Hsame 0%nat); auto. { intros i Hi. right. exact Hi. } cbn [an_tk]. apply an_upd_other, Hne.
  - (* enqueue *)
    intros j. destruct (Nat.eq_dec j k) as [->|Hne].
    + pose proof (IH k) as Hk. pose proof (IT k) as Tk. unfold an_acc_task, an_tinv in *. rewrite M in Hk, Tk.
      cbn [an_tk an_now an_active]. rewrite an_upd_same. cbn.
      destruct Hk as (HL & H1 & H2 & H3). destruct Tk as (Ha & HT & _).
      replace (Z.of_nat a) with (Z.of_nat (a - 1) + 1) by lia.
      repeat split; auto; lia.
    + apply (Hsame 0%nat); auto. cbn [an_tk]. apply an_upd_other, Hne.
  - (* start *)
    intros j. destruct (Nat.eq_dec j k) as [->|Hne].
    + pose proof (IH k) as Hk. unfold an_acc_task in *. cbn [an_tk an_now an_active]. rewrite an_upd_same. cbn. exact Hk.
    + apply (Hsame 0%nat); auto. cbn [an_tk]. apply an_upd_other, Hne.
  - (* return *)
    intros j. destruct (Nat.eq_dec j k) as [->|Hne].
    + pose proof (IH k) as Hk. unfold an_acc_task in *. cbn [an_tk an_now an_active]. rewrite an_upd_same. cbn. exact Hk.
    + apply (Hsame 0%nat); auto. cbn [an_tk]. apply an_upd_other, Hne.
  - (* publish *)
    intros j. destruct (Nat.eq_dec j k) as [->|Hne].
    + pose proof (IH k) as Hk. unfold an_acc_task in *. cbn [an_tk an_now an_active]. rewrite an_upd_same.
      destruct (an_pub cfg); [destruct saw|]; cbn; exact Hk.
    + apply (Hsame 0%nat); auto. cbn [an_tk]. apply an_upd_other, Hne.
  - (* decide via doneChan *)
    eapply an_acc_decide; eauto.
  - eapply an_acc_decide; eauto.
  - (* get2 *)
    intros j. destruct (Nat.eq_dec j k) as [->|Hne].
    + pose proof (IH k) as Hk. unfold an_acc_task in *. cbn [an_tk an_with_task an_now an_active]. rewrite an_upd_same. cbn. exact Hk.
    + apply (Hsame 0%nat); auto. cbn [an_tk an_with_task]. apply an_upd_other, Hne.
  - intros j. destruct (Nat.eq_dec j k) as [->|Hne].
    + pose proof (IH k) as Hk. unfold an_acc_task in *. cbn [an_tk an_with_task an_now an_active]. rewrite an_upd_same. cbn. exact Hk.
    + apply (Hsame 0%nat); auto. cbn [an_tk an_with_task]. apply an_upd_other, Hne.
  - (* advance *)
    an_bools. rewrite Hurg in *. cbn [negb orb] in *.
    intros j. apply (an_acc_frame s _ j); [reflexivity|cbn [an_now]; lia| |auto|apply IH].
    cbn [an_now]. intros a c Hph. destruct (IH j) as [_ Hj]. rewrite Hph in Hj. destruct Hj as (Hin & _).
    destruct (dt =? 0) eqn:Ed; [apply Z.eqb_eq in Ed; lia|]. cbn [orb] in *.
    pose proof (an_quiet_wait cfg s dt j a c H0 Hin Hph). lia.
  - (* parent cancel, again *) exact IH.
  - (* parent cancel *) intros j. apply (Hsame 0%nat); auto.
Qed.

Lemma an_acc_reach cfg s :
  an_pub cfg = AnAttemptChannel -> an_urg cfg = true -> an_reach cfg s -> an_acc s.
Proof.
  intros Hpub Hurg. apply (an_reach_inv an_acc).
  - intros k. unfold an_acc_task. cbn. split; [lia|exact I].
  - intros s0 e s1 Hr H Hs. eapply an_acc_step; eauto. apply (an_tinv_reach cfg); assumption.
Qed.

(* ------------------------------------------------------------------ C07: callbacks and invocations *)
(* number of attempts of a task whose callback has been enqueued so far *)
Definition an_enq (t : an_task) : nat :=
  match at_phase t with
  | AnEnq a _ => a - 1 | AnWait a _ => a | AnDone => length (at_dec t) | _ => 0
  end.
Definition an_cb_key (cb : an_cb) : nat * nat := (fst (fst cb), snd (fst cb)).
Definition an_keys (s : an_state) : list (nat * nat) := map an_cb_key (an_ichan s).
Definition an_started (t : an_task) : list nat := map fst (at_inv t).

Definition an_binv (s : an_state) : Prop :=
  NoDup (an_keys s) /\
  (forall k a, In (k, a) (an_keys s) -> (1 <= a <= an_enq (an_tk s k))%nat /\ ~ In a (an_started (an_tk s k))) /\
  (forall k, NoDup (an_started (an_tk s k)) /\ forall a, In a (an_started (an_tk s k)) -> (1 <= a <= an_enq (an_tk s k))%nat) /\
  (forall k a, (1 <= a <= an_enq (an_tk s k))%nat -> In (k, a) (an_keys s) \/ In a (an_started (an_tk s k))).

Lemma an_dec_seq_length l n : an_dec_seq l n -> length l = n.
Proof. unfold an_dec_seq. intros H. rewrite <- (map_length an_attempt_of), H, rev_length, seq_length. reflexivity. Qed.

Lemma an_enq_after s k a c f :
  an_tinv (an_tk s k) -> at_phase (an_tk s k) = AnWait a c ->
  an_enq (an_tk (an_after s k a f) k) = a /\ an_started (an_tk (an_after s k a f) k) = an_started (an_tk s k) /\
  an_ichan (an_after s k a f) = an_ichan s.
Proof.
  intros Tk Hph. unfold an_tinv in Tk. rewrite Hph in Tk. destruct Tk as (Ha & _ & Hseq & _).
  apply an_dec_seq_length in Hseq.
  destruct (an_after_cases s k a f) as [[En E]|[[En [El E]]|[En [El E]]]]; rewrite E; clear E;
    cbn [an_tk an_release an_with_task an_ichan]; rewrite an_upd_same; unfold an_enq, an_started.
  - cbn. rewrite Hseq. repeat split; auto; lia.
  - cbn. repeat split; auto; lia.
  - destruct (ao_onerr (at_opts (an_tk s k))); cbn; rewrite Hseq; repeat split; auto; lia.
Qed.

(* a step that leaves ichan, and every task's an_enq / an_started, unchanged *)
Lemma an_binv_frame s s' :
  an_ichan s' = an_ichan s ->
  (forall k, an_enq (an_tk s' k) = an_enq (an_tk s k) /\ an_started (an_tk s' k) = an_started (an_tk s k)) ->
  an_binv s -> an_binv s'.
Proof.
  intros Hi Hk (B1 & B2 & B3 & B4). unfold an_binv, an_keys in *. rewrite Hi.
  split; [exact B1|split; [|split]].
  - intros k a Hin. destruct (Hk k) as [-> ->]. apply B2, Hin.
  - intros k. destruct (Hk k) as [-> ->]. apply B3.
  - intros k a. destruct (Hk k) as [-> ->]. apply B4.
Qed.

Lemma an_binv_decide s k a c f :
  an_tinv (an_tk s k) -> an_binv s -> at_phase (an_tk s k) = AnWait a c -> an_binv (an_after s k a f).
Proof.
  intros Tk IH Hph.
  destruct (an_enq_after s k a c f Tk Hph) as (He & Hst & Hi).
  destruct (an_tinv_after s k a c f Tk Hph) as (_ & Hoth & _).
  apply (an_binv_frame s); [exact Hi| |exact IH].
  intros j. destruct (Nat.eq_dec j k) as [->|Hne].
  - rewrite He, Hst. unfold an_enq. rewrite Hph. split; reflexivity.
  - rewrite Hoth by exact Hne. split; reflexivity.
Qed.

Lemma an_binv_step cfg s e s' :
  an_tinv_all s -> an_binv s -> an_step cfg s e = Some s' -> an_binv s'.
Proof.
  intros (IT & Hnext & _ & Hq & _) IH Hs.
  assert (Hfr : forall (k : nat) (t : an_task) (s1 : an_state), an_ichan s1 = an_ichan s -> an_tk s1 = an_upd (an_tk s) k t ->
                an_enq t = an_enq (an_tk s k) -> an_started t = an_started (an_tk s k) -> an_binv s1).
  { intros k t s1 Hi Ht He Hst. apply (an_binv_frame s); auto. intros j. rewrite Ht. unfold an_upd.
    destruct (Nat.eqb_spec j k) as [->|]; auto. }
  destruct IH as (B1 & B2 & B3 & B4).
  destruct e; an_inv_step Hs; try (inversion Hs; subst; clear Hs).
  - (* send: the fresh id has no callback and no invocation *)
    assert (Hu : at_phase (an_tk s (an_next s)) = AnUnsent) by (apply Hnext; lia).
    assert (Hst : an_started (an_tk s (an_next s)) = []).
    { destruct (an_started (an_tk s (an_next s))) as [|a l] eqn:E; [reflexivity|].
      destruct (B3 (an_next s)) as [_ Hb]. specialize (Hb a). rewrite E in Hb. specialize (Hb (or_introl eq_refl)).
      unfold an_enq in Hb. rewrite Hu in Hb. lia. }
    eapply (Hfr (an_next s)); [reflexivity|reflexivity| |].
    + unfold an_enq. rewrite Hu. destruct (ao_onerr o); reflexivity.
    + rewrite Hst. destruct (ao_onerr o); reflexivity.
  - assert (Hu : at_phase (an_tk s (an_next s)) = AnUnsent) by (apply Hnext; lia).
    assert (Hst : an_started (an_tk s (an_next s)) = []).
    { destruct (an_started (an_tk s (an_next s))) as [|a l] eqn:E; [reflexivity|].
      destruct (B3 (an_next s)) as [_ Hb]. specialize (Hb a). rewrite E in Hb. specialize (Hb (or_introl eq_refl)).
      unfold an_enq in Hb. rewrite Hu in Hb. lia. }
    eapply (Hfr (an_next s)); [reflexivity|reflexivity| |].
    + unfold an_enq. rewrite Hu. reflexivity.
    + rewrite Hst. reflexivity.
  - assert (Hu : at_phase (an_tk s (an_next s)) = AnUnsent) by (apply Hnext; lia).
    assert (Hst : an_started (an_tk s (an_next s)) = []).
    { destruct (an_started (an_tk s (an_next s))) as [|a l] eqn:E; [reflexivity|].
      destruct (B3 (an_next s)) as [_ Hb]. specialize (Hb a). rewrite E in Hb. specialize (Hb (or_introl eq_refl)).
      unfold an_enq in Hb. rewrite Hu in Hb. lia. }
    eapply (Hfr (an_next s)); [reflexivity|reflexivity| |].
    + unfold an_enq. rewrite Hu. reflexivity.
    + rewrite Hst. reflexivity.
  - (* pick *)
    an_bools. subst n. assert (Hkq : at_phase (an_tk s k) = AnQueued) by (apply Hq; try rewrite M; left; reflexivity).
    eapply (Hfr k); [reflexivity|reflexivity| |].
    + unfold an_enq. rewrite Hkq. reflexivity.
    + reflexivity.
  - (* enqueue *)
    pose proof (IT k) as Tk. unfold an_tinv in Tk. rewrite M in Tk. destruct Tk as (Ha & _).
    assert (He : an_enq (an_tk s k) = (a - 1)%nat) by (unfold an_enq; rewrite M; reflexivity).
    assert (Hnk : ~ In (k, a) (an_keys s)). { intros Hin. apply B2 in Hin. lia. }
    assert (Hns : ~ In a (an_started (an_tk s k))). { intros Hin. apply B3 in Hin. lia. }
    unfold an_binv, an_keys. cbn [an_ichan an_tk]. rewrite map_app. cbn [map]. unfold an_cb_key at 2. cbn [fst snd].
    split; [|split; [|split]].
    + apply NoDup_Add with (a := (k, a)) (l := an_keys s).
      * replace (an_keys s) with (an_keys s ++ []) at 1 by apply app_nil_r. apply Add_app.
      * split; assumption.
    + intros k' a' Hin. apply in_app_or in Hin. destruct Hin as [Hin|[Hin|[]]].
      * destruct (B2 _ _ Hin) as [Hb Hn]. unfold an_upd. destruct (Nat.eqb_spec k' k) as [->|]; [|split; assumption].
        unfold an_enq, an_started in *. cbn. rewrite M in Hb. split; [lia|exact Hn].
      * inversion Hin; subst. rewrite an_upd_same. unfold an_enq, an_started. cbn. split; [lia|exact Hns].
    + intros k'. unfold an_upd. destruct (Nat.eqb_spec k' k) as [->|]; [|apply B3].
      destruct (B3 k) as [Hn Hb]. unfold an_enq, an_started in *. cbn. split; [exact Hn|]. intros a' Hin. specialize (Hb a' Hin). rewrite M in Hb. lia.
    + intros k' a'. unfold an_upd. destruct (Nat.eqb_spec k' k) as [->|].
      * unfold an_enq at 1. cbn [at_phase at_set_late at_set_blocked at_set_phase]. intros Hb.
        destruct (Nat.eq_dec a' a) as [->|Hne]; [left; apply in_or_app; right; left; reflexivity|].
        destruct (B4 k a') as [H|H]; [rewrite He; lia|left; apply in_or_app; left; exact H|right; exact H].
      * intros Hb. destruct (B4 k' a' Hb) as [H|H]; [left; apply in_or_app; left; exact H|right; exact H].
  - (* start *)
    an_bools. subst n n0.
    unfold an_binv, an_keys in *. try rewrite M in *. cbn [map] in *. unfold an_cb_key in *. cbn [fst snd] in *.
    cbn [an_ichan an_tk]. inversion B1 as [|? ? Hnk B1']; subst.
    destruct (B2 k a (or_introl eq_refl)) as [Hb Hns].
    split; [exact B1'|split; [|split]].
    + intros k' a' Hin. destruct (B2 k' a' (or_intror Hin)) as [Hb' Hn']. unfold an_upd. destruct (Nat.eqb_spec k' k) as [->|]; [|split; assumption].
      unfold an_enq, an_started in *. cbn. split; [exact Hb'|]. intros [Heq|Hin']; [|contradiction]. subst a'. contradiction.
    + intros k'. unfold an_upd. destruct (Nat.eqb_spec k' k) as [->|]; [|apply B3].
      destruct (B3 k) as [Hn Hbb]. unfold an_enq, an_started in *. cbn. split; [constructor; assumption|].
      intros a' [<-|Hin]; [exact Hb|apply Hbb, Hin].
    + intros k' a'. unfold an_upd. destruct (Nat.eqb_spec k' k) as [->|].
      * unfold an_enq, an_started in *. cbn. intros Hb'. destruct (B4 k a' Hb') as [[Heq|H]|H]; [inversion Heq; right; left; reflexivity|left; exact H|right; right; exact H].
      * intros Hb'. destruct (B4 k' a' Hb') as [[Heq|H]|H]; [inversion Heq; subst; contradiction|left; exact H|right; exact H].
  - (* return *) eapply (Hfr k); reflexivity.
  - (* publish *) eapply (Hfr k); [reflexivity|reflexivity| |]; destruct (an_pub cfg); [destruct saw| |destruct saw|]; reflexivity.
  - (* decide *)
    eapply an_binv_decide; eauto. exact (conj B1 (conj B2 (conj B3 B4))).
  - eapply an_binv_decide; eauto. exact (conj B1 (conj B2 (conj B3 B4))).
  - (* get2 *) eapply (Hfr k); reflexivity.
  - eapply (Hfr k); reflexivity.
  - (* advance *) apply (an_binv_frame s); [reflexivity|intros; split; reflexivity|exact (conj B1 (conj B2 (conj B3 B4)))].
  - (* parent cancel, again *) exact (conj B1 (conj B2 (conj B3 B4))).
  - (* parent cancel: the keys of the queued callbacks are unchanged *)
    unfold an_binv, an_keys in *. cbn [an_ichan an_tk]. rewrite map_map.
    rewrite (map_ext _ an_cb_key) by (intros [[? ?] ?]; reflexivity).
    exact (conj B1 (conj B2 (conj B3 B4))).
Qed.

Lemma an_binv_reach cfg s : an_pub cfg = AnAttemptChannel -> an_reach cfg s -> an_binv s.
Proof.
  intros Hpub. apply (an_reach_inv an_binv).
  - unfold an_binv, an_keys, an_started, an_enq. cbn. repeat split; try constructor; try lia; try contradiction.
  - intros s0 e s1 Hr H Hs. eapply an_binv_step; eauto. apply (an_tinv_reach cfg); assumption.
Qed.

(* ------------------------------------------------------------------ C07: what a decision is made of *)
(* the pair decided for attempt a is (nil, DeadlineExceeded) or the pair the handler of that attempt
   returned no later than the attempt's deadline *)
Definition an_just (t : an_task) (a : nat) (p : an_pair) : Prop :=
  p = (None, AnDeadline) \/ exists r d, In (a, p, false, r, d) (at_ret t) /\ r <= d.
Definition an_slot_k (sl : an_slot) : nat := match sl with AnRun k _ _ _ _ => k | AnPub k _ _ _ => k end.
Definition an_cinv (s : an_state) : Prop :=
  (forall k a p, In (a, p) (at_chan (an_tk s k)) -> an_just (an_tk s k) a p) /\
  (forall k a p f, In (a, p, f) (at_dec (an_tk s k)) -> an_just (an_tk s k) a p) /\
  (forall k a saw p, In (AnPub k a saw p) (an_workers s) -> saw = true \/ an_just (an_tk s k) a p) /\
  (forall sl, In sl (an_workers s) -> (an_slot_k sl < an_next s)%nat).

Lemma an_just_mono t t' a p : incl (at_ret t) (at_ret t') -> an_just t a p -> an_just t' a p.
Proof. intros Hi [H|(r & d & H1 & H2)]; [left; exact H|right; exists r, d; split; [apply Hi, H1|exact H2]]. Qed.

Lemma an_chan_find_in a l p : an_chan_find a l = Some p -> In (a, p) l.
Proof.
  induction l as [|[a' p'] l IH]; cbn [an_chan_find]; [discriminate|].
  destruct (Nat.eqb_spec a' a) as [->|]; [intros H; inversion H; left; reflexivity|intros H; right; apply IH, H].
Qed.

(* steps that change task k only in a way that keeps chan/dec and lets ret grow, and do not add slots *)
Lemma an_cinv_frame s s' :
  (forall k, at_chan (an_tk s' k) = at_chan (an_tk s k) /\ at_dec (an_tk s' k) = at_dec (an_tk s k) /\
             incl (at_ret (an_tk s k)) (at_ret (an_tk s' k))) ->
  (forall sl, In sl (an_workers s') -> In sl (an_workers s)) -> (an_next s <= an_next s')%nat ->
  an_cinv s -> an_cinv s'.
Proof.
  intros Hk Hw Hn (C1 & C2 & C3 & C4). split; [|split; [|split]].
  - intros k a p Hin. destruct (Hk k) as (E1 & E2 & Hi). rewrite E1 in Hin. eapply an_just_mono; [exact Hi|apply C1, Hin].
  - intros k a p f Hin. destruct (Hk k) as (E1 & E2 & Hi). rewrite E2 in Hin. eapply an_just_mono; [exact Hi|eapply C2, Hin].
  - intros k a saw p Hin. destruct (Hk k) as (E1 & E2 & Hi). destruct (C3 k a saw p (Hw _ Hin)) as [H|H]; [left; exact H|right; eapply an_just_mono; eauto].
  - intros sl Hin. specialize (C4 sl (Hw _ Hin)). lia.
Qed.

Lemma an_cinv_decide s k a c p :
  an_cinv s -> at_phase (an_tk s k) = AnWait a c -> an_just (an_tk s k) a p -> an_cinv (an_after s k a p).
Proof.
  intros (C1 & C2 & C3 & C4) Hph Hj.
  assert (G : forall t' s1, an_tk s1 = an_upd (an_tk s) k t' -> at_chan t' = at_chan (an_tk s k) -> at_ret t' = at_ret (an_tk s k) ->
              at_dec t' = (a, p, an_now s) :: at_dec (an_tk s k) ->
              an_workers s1 = an_workers s -> an_next s1 = an_next s -> an_cinv s1).
  { intros t' s1 Et E1 E2 E3 Ew En. unfold an_cinv. rewrite Et, Ew, En.
    assert (Hjm : forall a0 p0, an_just (an_tk s k) a0 p0 -> an_just t' a0 p0).
    { intros a0 p0. apply an_just_mono. rewrite E2. apply incl_refl. }
    split; [|split; [|split]].
    - intros j a0 p0. unfold an_upd. destruct (Nat.eqb_spec j k) as [->|]; [|apply C1]. rewrite E1. intros Hin. apply Hjm, C1, Hin.
    - intros j a0 p0 f0. unfold an_upd. destruct (Nat.eqb_spec j k) as [->|]; [|apply C2]. rewrite E3. intros [Hin|Hin].
      + inversion Hin; subst. apply Hjm, Hj.
      + apply Hjm. eapply C2, Hin.
    - intros j a0 saw p0 Hin. unfold an_upd. destruct (Nat.eqb_spec j k) as [->|]; [|eapply C3, Hin].
      destruct (C3 _ _ _ _ Hin) as [H|H]; [left; exact H|right; apply Hjm, H].
    - exact C4. }
  destruct (an_after_cases s k a p) as [[En E]|[[En [El E]]|[En [El E]]]]; rewrite E; clear E.
  - eapply G; try reflexivity.
  - eapply G; try reflexivity.
  - destruct (ao_onerr (at_opts (an_tk s k))); eapply G; try reflexivity.
Qed.

Ltac an_subst_vars := repeat match goal with H : ?x = ?y |- _ => is_var x; is_var y; subst x end.

Lemma an_cinv_step cfg s e s' :
  an_pub cfg = AnAttemptChannel -> an_tinv_all s -> an_binv s -> an_cinv s -> an_step cfg s e = Some s' -> an_cinv s'.
Proof.
  intros Hpub (IT & Hnext & _) (_ & B2 & _) IH Hs.
  assert (Hfr : forall (k : nat) (t : an_task) (s1 : an_state), an_tk s1 = an_upd (an_tk s) k t ->
                at_chan t = at_chan (an_tk s k) -> at_dec t = at_dec (an_tk s k) -> incl (at_ret (an_tk s k)) (at_ret t) ->
                (forall sl, In sl (an_workers s1) -> In sl (an_workers s)) -> (an_next s <= an_next s1)%nat -> an_cinv s1).
  { intros k t s1 Ht E1 E2 Hi Hw Hn. apply (an_cinv_frame s); auto. intros j. rewrite Ht. unfold an_upd.
    destruct (Nat.eqb_spec j k) as [->|]; [auto|]. repeat split; auto. apply incl_refl. }
  pose proof IH as (C1 & C2 & C3 & C4).
  destruct e; an_inv_step Hs; try (inversion Hs; subst; clear Hs).
  - (* send *)
    split; [|split; [|split]]; cbn [an_tk an_workers an_next].
    + intros j a p. unfold an_upd. destruct (Nat.eqb_spec j (an_next s)) as [->|]; [destruct (ao_onerr o); cbn; contradiction|apply C1].
    + intros j a p f. unfold an_upd. destruct (Nat.eqb_spec j (an_next s)) as [->|]; [destruct (ao_onerr o); cbn; contradiction|apply C2].
    + intros j a saw p Hin. unfold an_upd. destruct (Nat.eqb_spec j (an_next s)) as [->|]; [|eapply C3, Hin].
      specialize (C4 _ Hin). cbn in C4. lia.
    + intros sl Hin. specialize (C4 _ Hin). lia.
  - split; [|split; [|split]]; cbn [an_tk an_workers an_next].
    + intros j a p. unfold an_upd. destruct (Nat.eqb_spec j (an_next s)) as [->|]; [cbn; contradiction|apply C1].
    + intros j a p f. unfold an_upd. destruct (Nat.eqb_spec j (an_next s)) as [->|]; [cbn; contradiction|apply C2].
    + intros j a saw p Hin. unfold an_upd. destruct (Nat.eqb_spec j (an_next s)) as [->|]; [|eapply C3, Hin].
      specialize (C4 _ Hin). cbn in C4. lia.
    + intros sl Hin. specialize (C4 _ Hin). lia.
  - split; [|split; [|split]]; cbn [an_tk an_workers an_next].
    + intros j a p. unfold an_upd. destruct (Nat.eqb_spec j (an_next s)) as [->|]; [cbn; contradiction|apply C1].
    + intros j a p f. unfold an_upd. destruct (Nat.eqb_spec j (an_next s)) as [->|]; [cbn; contradiction|apply C2].
    + intros j a saw p Hin. unfold an_upd. destruct (Nat.eqb_spec j (an_next s)) as [->|]; [|eapply C3, Hin].
      specialize (C4 _ Hin). cbn in C4. lia.
    + intros sl Hin. specialize (C4 _ Hin). lia.
  - (* pick *) eapply (Hfr k); try reflexivity; auto. apply incl_refl.
  - (* enqueue *) eapply (Hfr k); try reflexivity; auto. apply incl_refl.
  - (* start *)
    an_bools. an_subst_vars.
    assert (Hk : (k < an_next s)%nat).
    { destruct (Nat.lt_ge_cases k (an_next s)) as [H|H]; [exact H|]. apply Hnext in H.
      destruct (B2 k a) as [Hb _]. { unfold an_keys. rewrite M. left. reflexivity. }
      unfold an_enq in Hb. rewrite H in Hb. lia. }
    split; [|split; [|split]]; cbn [an_tk an_workers an_next].
    + intros j a0 p. unfold an_upd. destruct (Nat.eqb_spec j k) as [->|]; [cbn|]; apply C1.
    + intros j a0 p f. unfold an_upd. destruct (Nat.eqb_spec j k) as [->|]; [cbn|]; apply C2.
    + intros j a0 saw p [Hin|Hin]; [discriminate|]. unfold an_upd. destruct (Nat.eqb_spec j k) as [->|]; [|eapply C3, Hin].
      destruct (C3 _ _ _ _ Hin) as [H|H]; [left; exact H|right; exact H].
    + intros sl [<-|Hin]; [exact Hk|apply C4, Hin].
  - (* return *)
    an_bools. destruct (an_extract_spec _ _ _ _ M) as [Hf _]. destruct (an_extract_in _ _ _ _ M) as (Hx & Hsub & _).
    unfold an_is_run in Hf. an_bools. an_subst_vars.
    split; [|split; [|split]]; cbn [an_tk an_workers an_next].
    + intros j a' p' Hin. unfold an_upd in *. destruct (Nat.eqb_spec j k) as [->|]; [|apply C1, Hin].
      eapply an_just_mono; [|apply C1, Hin]. cbn. apply incl_tl, incl_refl.
    + intros j a' p' f Hin. unfold an_upd in *. destruct (Nat.eqb_spec j k) as [->|]; [|eapply C2, Hin].
      eapply an_just_mono; [|eapply C2, Hin]. cbn. apply incl_tl, incl_refl.
    + intros j a' saw' p' [Hin|Hin].
      * inversion Hin; subst. rewrite an_upd_same. destruct saw'; [left; reflexivity|right; right].
        exists (an_now s), d. split; [cbn; left; reflexivity|].
        unfold an_saw_ok in H0. an_bools. destruct (an_now s <? d) eqn:E1; [an_bools; lia|].
        destruct (d <? an_now s) eqn:E2; [discriminate|an_bools; lia].
      * unfold an_upd. destruct (Nat.eqb_spec j k) as [->|]; [|eapply C3, Hsub, Hin].
        destruct (C3 _ _ _ _ (Hsub _ Hin)) as [H'|H']; [left; exact H'|right; eapply an_just_mono; [|exact H']]. cbn. apply incl_tl, incl_refl.
    + intros sl [<-|Hin]; [apply (C4 _ Hx)|apply C4, Hsub, Hin].
  - (* publish *)
    rewrite Hpub. destruct (an_extract_spec _ _ _ _ M) as [Hf _]. destruct (an_extract_in _ _ _ _ M) as (Hx & Hsub & _).
    unfold an_is_pub in Hf. an_bools. an_subst_vars.
    split; [|split; [|split]]; cbn [an_tk an_workers an_next].
    + intros j a' p'. unfold an_upd. destruct (Nat.eqb_spec j k) as [->|]; [|apply C1]. cbn. intros [Hin|Hin]; [|apply C1, Hin].
      inversion Hin; subst. destruct saw; [left; reflexivity|]. destruct (C3 _ _ _ _ Hx) as [H|H]; [discriminate|exact H].
    + intros j a' p' f. unfold an_upd. destruct (Nat.eqb_spec j k) as [->|]; [cbn|]; apply C2.
    + intros j a' saw' p' Hin. unfold an_upd. destruct (Nat.eqb_spec j k) as [->|]; [|eapply C3, Hsub, Hin].
      destruct (C3 _ _ _ _ (Hsub _ Hin)) as [H'|H']; [left; exact H'|right; exact H'].
    + intros sl Hin. apply C4, Hsub, Hin.
  - (* decide via doneChan *)
    rewrite Hpub. eapply an_cinv_decide; eauto. apply C1. apply an_chan_find_in. exact M0.
  - (* decide via deadline *)
    eapply an_cinv_decide; eauto. left. reflexivity.
  - (* get2 *) eapply (Hfr k); try reflexivity; auto. apply incl_refl.
  - eapply (Hfr k); try reflexivity; auto. apply incl_refl.
  - (* advance *) apply (an_cinv_frame s); auto. intros k. repeat split; auto. apply incl_refl.
  - (* parent cancel, again *) exact IH.
  - (* parent cancel: publishing slots are untouched *)
    split; [|split; [|split]]; cbn [an_tk an_workers an_next].
    + exact C1.
    + exact C2.
    + intros k a saw p Hin. apply in_map_iff in Hin. destruct Hin as (sl & E & Hin).
      destruct sl as [k' a' d r p'|k' a' saw' p']; cbn [an_cancel_slot] in E.
      * destruct (ab_honours (an_beh_of (at_opts (an_tk s k')) a') && (an_now s <? r))%bool; discriminate E.
      * inversion E; subst. eapply C3, Hin.
    + intros sl Hin. apply in_map_iff in Hin. destruct Hin as (sl0 & E & Hin). specialize (C4 _ Hin). subst sl.
      destruct sl0 as [k' a' d r p'|k' a' saw' p']; cbn [an_cancel_slot];
        [destruct (ab_honours (an_beh_of (at_opts (an_tk s k')) a') && (an_now s <? r))%bool|]; exact C4.
Qed.

Lemma an_cinv_reach cfg s : an_pub cfg = AnAttemptChannel -> an_reach cfg s -> an_cinv s.
Proof.
  intros Hpub. apply (an_reach_inv an_cinv).
  - unfold an_cinv. cbn. repeat split; intros; contradiction.
  - intros s0 e s1 Hr H Hs. eapply an_cinv_step; eauto; [apply (an_tinv_reach cfg)|apply (an_binv_reach cfg)]; assumption.
Qed.

(* ------------------------------------------------------------------ property lemmas *)
Definition an_fixed (cfg : an_cfg) : Prop := an_pub cfg = AnAttemptChannel.

Lemma an_nodup_range_length (l : list nat) n :
  NoDup l -> (forall a, In a l -> (1 <= a <= n)%nat) -> (length l <= n)%nat.
Proof.
  intros Hn Hb. rewrite <- (seq_length n 1). apply NoDup_incl_length; [exact Hn|].
  intros a Ha. apply in_seq. specialize (Hb a Ha). lia.
Qed.

Lemma an_dec_seq_in l n a : an_dec_seq l n -> (1 <= a <= n)%nat -> exists p f, In (a, p, f) l.
Proof.
  unfold an_dec_seq. intros H Ha.
  assert (Hin : In a (map an_attempt_of l)). { rewrite H, <- in_rev. apply in_seq. lia. }
  apply in_map_iff in Hin. destruct Hin as ([[a' p] f] & E & Hin). unfold an_attempt_of in E. cbn in E. subst. exists p, f. exact Hin.
Qed.

Lemma an_enq_le_R t : an_tinv t -> (an_enq t <= ao_R (at_opts t))%nat.
Proof.
  unfold an_tinv, an_enq. cbn zeta. destruct (at_phase t).
  - intros _. lia.
  - intros _. lia.
  - intros (H & _). lia.
  - intros (H & _). lia.
  - intros (n & p & f & rest & H1 & H2 & _ & H4 & _). apply an_dec_seq_length in H2. lia.
  - intros _. lia.
Qed.

Lemma ants_attempts_bounded_l cfg evs s k :
  an_fixed cfg -> an_run cfg an_init evs = Some s ->
  let t := an_tk s k in
  (length (at_inv t) <= ao_R (at_opts t))%nat /\ NoDup (map fst (at_inv t)) /\
  (forall a, In a (map fst (at_inv t)) -> (1 <= a <= ao_R (at_opts t))%nat) /\
  (forall a, (1 <= a)%nat -> In (S a) (map fst (at_inv t)) ->
     exists p f, In (a, p, f) (at_dec t) /\ an_is_nil (snd p) = false).
Proof.
  intros Hf Hrun. assert (Hr : an_reach cfg s) by (exists evs; exact Hrun).
  destruct (an_tinv_reach cfg s Hf Hr) as (IT & _). destruct (an_binv_reach cfg s Hf Hr) as (_ & _ & B3 & _).
  cbn zeta. destruct (B3 k) as [Hnd Hb]. pose proof (an_enq_le_R _ (IT k)) as HR. fold (an_started (an_tk s k)).
  split; [|split; [exact Hnd|split]].
  - unfold an_started in *. rewrite <- (map_length fst). apply an_nodup_range_length; [exact Hnd|]. intros a Ha. specialize (Hb a Ha). lia.
  - intros a Ha. specialize (Hb a Ha). lia.
  - intros a Ha Hin. specialize (Hb _ Hin). specialize (IT k). unfold an_tinv, an_enq in *.
    destruct (at_phase (an_tk s k)) eqn:E; try lia.
    + destruct IT as (_ & _ & Hseq & Hnn & _). destruct (an_dec_seq_in _ _ a Hseq) as (p & f & Hp); [lia|].
      exists p, f. split; [exact Hp|]. unfold an_errs_nonnil in Hnn. rewrite Forall_forall in Hnn. apply (Hnn _ Hp).
    + destruct IT as (_ & _ & Hseq & Hnn & _). destruct (an_dec_seq_in _ _ a Hseq) as (p & f & Hp); [lia|].
      exists p, f. split; [exact Hp|]. unfold an_errs_nonnil in Hnn. rewrite Forall_forall in Hnn. apply (Hnn _ Hp).
    + destruct IT as (n & p0 & f0 & rest & H1 & H2 & H3 & _). pose proof (an_dec_seq_length _ _ H2) as Hl. rewrite Hl in Hb.
      assert (Hrest : an_dec_seq rest (n - 1)).
      { unfold an_dec_seq in *. rewrite H1 in H2. cbn [map] in H2. replace n with (S (n - 1)) in H2 at 2 by lia. rewrite an_rev_seq_S in H2. inversion H2. reflexivity. }
      destruct (an_dec_seq_in _ _ a Hrest) as (p & f & Hp); [lia|].
      exists p, f. split; [rewrite H1; right; exact Hp|]. unfold an_errs_nonnil in H3. rewrite Forall_forall in H3. apply (H3 _ Hp).
Qed.

Lemma ants_result_matches_l cfg evs s k :
  an_fixed cfg -> an_run cfg an_init evs = Some s -> at_phase (an_tk s k) = AnDone ->
  let t := an_tk s k in
  exists n p f rest,
    at_dec t = (n, p, f) :: rest /\ map an_attempt_of (at_dec t) = rev (seq 1 n) /\
    at_fields t = p /\ (forall g, In g (at_get2 t) -> fst g = p) /\
    (an_is_nil (snd p) = true \/ n = ao_R (at_opts t)) /\ (1 <= n <= ao_R (at_opts t))%nat /\
    (forall x, In x rest -> an_is_nil (snd (an_pair_of x)) = false) /\
    (forall a' p' f', In (a', p', f') (at_dec t) -> an_just t a' p').
Proof.
  intros Hf Hrun Hph. assert (Hr : an_reach cfg s) by (exists evs; exact Hrun).
  destruct (an_tinv_reach cfg s Hf Hr) as (IT & _). destruct (an_cinv_reach cfg s Hf Hr) as (_ & C2 & _).
  specialize (IT k). unfold an_tinv in IT. rewrite Hph in IT.
  destruct IT as (n & p & f & rest & H1 & H2 & H3 & H4 & H5 & H6 & H7 & H8 & H9 & _). cbn zeta.
  exists n, p, f, rest. repeat split; auto; try lia.
  - intros g Hg. rewrite Forall_forall in H9. apply (H9 g Hg).
  - unfold an_errs_nonnil in H3. rewrite Forall_forall in H3. exact H3.
  - intros a' p' f'. apply C2.
Qed.

Lemma ants_get2_once_l cfg evs s k :
  an_fixed cfg -> an_run cfg an_init evs = Some s ->
  let t := an_tk s k in
  (length (at_rel t) <= 1)%nat /\
  (at_phase t = AnDone ->
     exists n p f rest, at_dec t = (n, p, f) :: rest /\ at_rel t = [f] /\ f <= an_now s /\
                        (forall e x, In (e, x) (at_onerr t) -> x = f) /\ (forall g, In g (at_get2 t) -> f <= snd g)) /\
  (at_phase t <> AnDone -> at_rel t = [] /\ (at_phase t <> AnDiscarded -> at_get2 t = [])) .
Proof.
  intros Hf Hrun. assert (Hr : an_reach cfg s) by (exists evs; exact Hrun).
  destruct (an_tinv_reach cfg s Hf Hr) as (IT & Hnext & Hrelnow & _). cbn zeta.
  specialize (IT k). unfold an_tinv in IT.
  assert (G : at_phase (an_tk s k) <> AnDone -> at_rel (an_tk s k) = [] /\ (at_phase (an_tk s k) <> AnDiscarded -> at_get2 (an_tk s k) = [])).
  { intros Hnd. destruct (at_phase (an_tk s k)) eqn:E; try congruence.
    - destruct IT as (H3 & H4 & _). split; auto.
    - destruct IT as (_ & _ & H3 & H4 & _). split; auto.
    - destruct IT as (_ & _ & _ & _ & _ & H3 & H4). split; auto.
    - destruct IT as (_ & _ & _ & _ & _ & H3 & H4). split; auto.
    - destruct IT as (_ & H3 & _). split; [exact H3|]. intros; congruence. }
  destruct (at_phase (an_tk s k)) eqn:E;
    try (destruct G as [G1 G2]; [discriminate|]; rewrite G1; split; [cbn; lia|split; [intros; discriminate|intros _; split; [reflexivity|exact G2]]]).
  destruct IT as (n & p & f & rest & H1 & H2 & H3 & H4 & H5 & H6 & H7 & H8 & H9 & _).
  split; [rewrite H7; cbn; lia|split; [|intros; congruence]]. intros _.
  exists n, p, f, rest. split; [exact H1|split; [exact H7|split; [|split]]].
  - apply (Hrelnow k E). rewrite H7. left. reflexivity.
  - intros e x Hin. rewrite H8 in Hin. destruct (negb (an_is_nil (snd p)) && ao_onerr (at_opts (an_tk s k)))%bool; [|contradiction].
    destruct Hin as [Hin|[]]. inversion Hin. reflexivity.
  - intros g Hg. rewrite Forall_forall in H9. apply (H9 g Hg).
Qed.


Lemma ants_onerror_iff_l cfg evs s k :
  an_fixed cfg -> an_run cfg an_init evs = Some s ->
  let t := an_tk s k in
  match at_phase t with
  | AnDone => exists f, at_rel t = [f] /\
                at_onerr t = (if negb (an_is_nil (snd (at_fields t))) && ao_onerr (at_opts t) then [(snd (at_fields t), f)] else [])
  | AnDiscarded => at_onerr t = (if ao_onerr (at_opts t) then [(AnDiscard, at_sent t)] else [])
  | _ => at_onerr t = []
  end.
Proof.
  intros Hf Hrun. assert (Hr : an_reach cfg s) by (exists evs; exact Hrun).
  destruct (an_tinv_reach cfg s Hf Hr) as (IT & _). cbn zeta. specialize (IT k). unfold an_tinv in IT.
  destruct (at_phase (an_tk s k)).
  - apply IT. - apply IT. - apply IT. - apply IT.
  - destruct IT as (n & p & f & rest & H1 & H2 & H3 & H4 & H5 & H6 & H7 & H8 & _). exists f. rewrite H6. split; assumption.
  - apply IT.
Qed.

Lemma ants_discard_l cfg evs s k :
  an_fixed cfg -> an_run cfg an_init evs = Some s -> at_phase (an_tk s k) = AnDiscarded ->
  let t := an_tk s k in
  ao_discard (at_opts t) = true /\ at_fields t = (None, AnDiscard) /\
  (forall g, In g (at_get2 t) -> fst g = (None, AnDiscard)) /\
  at_onerr t = (if ao_onerr (at_opts t) then [(AnDiscard, at_sent t)] else []) /\
  at_inv t = [] /\ at_dec t = [] /\ at_rel t = [] /\
  (forall a d, ~ In (k, a, d) (an_ichan s)) /\ ~ In k (an_tchan s ++ an_sendq s).
Proof.
  intros Hf Hrun Hph. assert (Hr : an_reach cfg s) by (exists evs; exact Hrun).
  destruct (an_tinv_reach cfg s Hf Hr) as (IT & _ & _ & Hq & _). destruct (an_binv_reach cfg s Hf Hr) as (_ & B2 & B3 & _).
  cbn zeta. specialize (IT k). unfold an_tinv in IT. rewrite Hph in IT. destruct IT as (H1 & H2 & H3 & H4 & H5 & H6).
  assert (He : an_enq (an_tk s k) = 0%nat) by (unfold an_enq; rewrite Hph; reflexivity).
  repeat split; auto.
  - intros g Hg. rewrite Forall_forall in H5. apply (H5 g Hg).
  - destruct (B3 k) as [_ Hb]. unfold an_started in Hb. destruct (at_inv (an_tk s k)) as [|[a x] l]; [reflexivity|].
    specialize (Hb a (or_introl eq_refl)). lia.
  - intros a d Hin. destruct (B2 k a) as [Hb _]; [|lia]. unfold an_keys. apply in_map_iff. exists (k, a, d). split; [reflexivity|exact Hin].
  - intros Hin. apply Hq in Hin. congruence.
Qed.

Lemma ants_eventually_invoked_l cfg evs s :
  an_fixed cfg -> an_run cfg an_init evs = Some s ->
  (forall k a, (1 <= a <= an_enq (an_tk s k))%nat -> (exists d, In (k, a, d) (an_ichan s)) \/ In a (map fst (at_inv (an_tk s k)))) /\
  (forall k, at_phase (an_tk s k) = AnDone -> (1 <= an_enq (an_tk s k))%nat) /\
  (forall k a d rest, an_ichan s = (k, a, d) :: rest -> (length (an_workers s) < an_N cfg)%nat ->
     an_step cfg s (AnStart k a) <> None /\
     (an_urg cfg = true -> forall dt, 0 < dt -> an_step cfg s (AnAdvance dt) = None)).
Proof.
  intros Hf Hrun. assert (Hr : an_reach cfg s) by (exists evs; exact Hrun).
  destruct (an_tinv_reach cfg s Hf Hr) as (IT & _). destruct (an_binv_reach cfg s Hf Hr) as (_ & _ & _ & B4).
  split; [|split].
  - intros k a Ha. destruct (B4 k a Ha) as [H|H]; [left|right; exact H].
    unfold an_keys in H. apply in_map_iff in H. destruct H as ([[k' a'] d] & E & Hin). unfold an_cb_key in E. cbn in E. inversion E; subst. exists d. exact Hin.
  - intros k Hph. specialize (IT k). unfold an_tinv in IT. rewrite Hph in IT.
    destruct IT as (n & p & f & rest & H1 & H2 & _ & H4 & _). unfold an_enq. rewrite Hph. apply an_dec_seq_length in H2. lia.
  - intros k a d rest Hi Hw. split.
    + unfold an_step. rewrite Hi, !Nat.eqb_refl. apply Nat.ltb_lt in Hw. rewrite Hw. cbn. discriminate.
    + intros Hu dt Hdt. unfold an_step. rewrite Hu. cbn [negb orb]. destruct (dt =? 0) eqn:E; [apply Z.eqb_eq in E; lia|]. cbn [orb].
      unfold an_quiet. rewrite Hi. apply Nat.leb_gt in Hw. rewrite Hw.
      destruct (match an_tchan s with [] => true | _ :: _ => (an_N cfg <=? length (an_active s))%nat end); cbn; rewrite ?Bool.andb_false_r; reflexivity.
Qed.

(* the code before fix d4c0a4b: the callback passes its ctx1.Done() test exactly at the deadline, the dispatcher
   takes the deadline branch, runs onError(DeadlineExceeded) and releases Get2, then the stale store lands *)
Definition an_orig_cfg : an_cfg := {| an_N := 1; an_pub := AnSharedFields; an_urg := true |}.
Definition an_late_write_opts : an_opts :=
  {| ao_T := 1000; ao_R := 1; ao_discard := false; ao_onerr := true;
     ao_behs := [{| ab_dur := 1000; ab_honours := false; ab_val := Some 7; ab_err := AnNil |}] |}.
Definition an_late_write_history : list an_event :=
  [AnSend an_late_write_opts; AnPick 0; AnEnqueue 0; AnStart 0 1; AnAdvance 1000;
   AnReturn 0 1 false; AnDecide 0 false; AnPublish 0 1; AnGet2 0].

Lemma ants_orig_late_write_refuted_l :
  exists s, an_run an_orig_cfg an_init an_late_write_history = Some s /\
    at_phase (an_tk s 0%nat) = AnDone /\
    at_onerr (an_tk s 0%nat) = [(AnDeadline, 1000)] /\
    at_dec (an_tk s 0%nat) = [(1%nat, (None, AnDeadline), 1000)] /\
    at_get2 (an_tk s 0%nat) = [((Some 7, AnNil), 1000)] /\
    an_run {| an_N := 1; an_pub := AnAttemptChannel; an_urg := true |} an_init an_late_write_history
      <> None /\
    option_map (fun s => at_get2 (an_tk s 0%nat))
      (an_run {| an_N := 1; an_pub := AnAttemptChannel; an_urg := true |} an_init an_late_write_history)
      = Some [((None, AnDeadline), 1000)].
Proof.
  destruct (an_run an_orig_cfg an_init an_late_write_history) as [s|] eqn:E; [|vm_compute in E; discriminate].
  exists s. split; [reflexivity|].
  assert (E' := E). vm_compute in E'. inversion E'; subst s. clear E E'.
  repeat split; try (vm_compute; reflexivity). vm_compute. discriminate.
Qed.

(* ------------------------------------------------------------------ C08 *)
Lemma ants_concurrency_bound_l cfg evs s :
  an_run cfg an_init evs = Some s ->
  (an_nrun (an_workers s) <= an_N cfg)%nat /\ (an_maxrun s <= an_N cfg)%nat /\ (length (an_workers s) <= an_N cfg)%nat.
Proof.
  intros Hrun. assert (Hr : an_reach cfg s) by (exists evs; exact Hrun).
  destruct (an_cnt_reach cfg s Hr) as (_ & _ & _ & H4 & H5 & _). repeat split; auto.
  etransitivity; [apply an_nrun_le|exact H4].
Qed.

Lemma ants_busy_only_if_full_l cfg evs s o s' :
  an_fixed cfg -> an_run cfg an_init evs = Some s -> an_step cfg s (AnSend o) = Some s' ->
  (at_phase (an_tk s' (an_next s)) = AnDiscarded <-> ao_discard o = true /\ length (an_tchan s) = an_N cfg) /\
  (forall j, In j (an_tchan s) -> at_phase (an_tk s j) = AnQueued) /\ NoDup (an_tchan s) /\
  (at_phase (an_tk s' (an_next s)) <> AnDiscarded -> at_phase (an_tk s' (an_next s)) = AnQueued /\ In (an_next s) (an_tchan s' ++ an_sendq s')).
Proof.
  intros Hf Hrun Hs. assert (Hr : an_reach cfg s) by (exists evs; exact Hrun).
  destruct (an_tinv_reach cfg s Hf Hr) as (_ & _ & _ & Hq & Hnd).
  split; [|split; [|split]].
  - an_inv_step Hs; inversion Hs; subst; clear Hs; cbn [an_tk]; rewrite an_upd_same; an_bools.
    + destruct (ao_onerr o); cbn; split; auto.
    + cbn. split; [discriminate|]. intros [Hd Hl]. rewrite Hd in G0. cbn in G0. apply Nat.eqb_neq in G0. contradiction.
    + cbn. split; [discriminate|]. intros [Hd Hl]. rewrite Hd in G0. cbn in G0. apply Nat.eqb_neq in G0. contradiction.
  - intros j Hj. apply Hq. apply in_or_app. left. exact Hj.
  - clear -Hnd. induction (an_tchan s) as [|x l IHl]; [constructor|]. cbn [app] in Hnd. inversion Hnd; subst.
    constructor; [intros Hin; apply H1, in_or_app; left; exact Hin|apply IHl; assumption].
  - an_inv_step Hs; inversion Hs; subst; clear Hs; cbn [an_tk an_tchan an_sendq]; rewrite an_upd_same.
    + destruct (ao_onerr o); cbn; intros H; congruence.
    + cbn. intros _. split; [reflexivity|]. apply in_or_app. left. apply in_or_app. right. left. reflexivity.
    + cbn. intros _. split; [reflexivity|]. apply in_or_app. right. apply in_or_app. right. left. reflexivity.
Qed.

Lemma ants_get2_accounting_l cfg evs s k :
  an_fixed cfg -> an_urg cfg = true -> an_run cfg an_init evs = Some s -> at_phase (an_tk s k) = AnDone ->
  let t := an_tk s k in
  exists f, at_rel t = [f] /\ f <= at_pickup t + Z.of_nat (ao_R (at_opts t)) * ao_T (at_opts t) + at_late t /\
            0 <= at_late t <= at_blocked t.
Proof.
  intros Hf Hu Hrun Hph. assert (Hr : an_reach cfg s) by (exists evs; exact Hrun).
  destruct (an_tinv_reach cfg s Hf Hr) as (IT & _). pose proof (an_acc_reach cfg s Hf Hu Hr k) as Hk.
  cbn zeta. specialize (IT k). unfold an_tinv, an_acc_task in *. rewrite Hph in *.
  destruct IT as (n & p & f & rest & _ & _ & _ & _ & _ & _ & H7 & _). destruct Hk as [HL Hk].
  exists f. split; [exact H7|split; [|exact HL]]. apply Hk. rewrite H7. left. reflexivity.
Qed.

(* K1: N=1, T=1000, R=1.  A ignores its context for 10000; prompt B and C are sent at 1016 and 1032.
   C is picked up at 2016 and released at 10000 > 2016 + 1*1000. *)
Definition an_k1_cfg : an_cfg := {| an_N := 1; an_pub := AnAttemptChannel; an_urg := true |}.
Definition an_k1_opts (dur : Z) (honours : bool) : an_opts :=
  {| ao_T := 1000; ao_R := 1; ao_discard := false; ao_onerr := true;
     ao_behs := [{| ab_dur := dur; ab_honours := honours; ab_val := Some 1; ab_err := AnNil |}] |}.
Definition an_k1_history : list an_event :=
  [AnSend (an_k1_opts 10000 false); AnPick 0; AnEnqueue 0; AnStart 0 1; AnAdvance 1000; AnDecide 0 false;
   AnAdvance 16; AnSend (an_k1_opts 101 true); AnPick 1; AnEnqueue 1; AnAdvance 16; AnSend (an_k1_opts 101 true);
   AnAdvance 984; AnDecide 1 false; AnPick 2; AnAdvance 7984; AnReturn 0 1 true; AnPublish 0 1; AnStart 1 1;
   AnEnqueue 2; AnReturn 1 1 true; AnPublish 1 1; AnStart 2 1; AnReturn 2 1 true; AnDecide 2 false; AnPublish 2 1; AnGet2 2].

Lemma ants_get2_bound_refuted_l :
  exists s, an_run an_k1_cfg an_init an_k1_history = Some s /\
    let t := an_tk s 2%nat in
    at_phase t = AnDone /\ forallb ab_honours (ao_behs (at_opts t)) = true /\
    at_pickup t = 2016 /\ at_rel t = [10000] /\ at_blocked t = 7984 /\ at_late t = 6984 /\
    at_pickup t + Z.of_nat (ao_R (at_opts t)) * ao_T (at_opts t) < 10000.
Proof.
  destruct (an_run an_k1_cfg an_init an_k1_history) as [s|] eqn:E; [|vm_compute in E; discriminate].
  exists s. split; [reflexivity|].
  assert (E' := E). vm_compute in E'. inversion E'; subst s. clear E E'.
  cbn zeta. repeat split; vm_compute; reflexivity.
Qed.
