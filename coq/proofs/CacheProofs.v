From Got Require Import Base Cache.
Local Open Scope Z_scope.
Lemma c_placeholder : c_now c_init = 0. Proof. reflexivity. Qed.
