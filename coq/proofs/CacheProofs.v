(* CacheProofs.v -- lemmas about the cachex event machine (models/Cache.v). *)
From Got Require Import Base Cache.
Require Import Permutation.
Local Open Scope Z_scope.

(* ------------------------------------------------------------------ map primitives *)
Lemma c_lookup_remove m k k' :
  c_lookup (c_remove m k) k' = if k =? k' then None else c_lookup m k'.
Proof.
  induction m as [|[a f] r IH]; cbn [c_remove c_lookup].
  - destruct (k =? k'); reflexivity.
  - destruct (a =? k) eqn:Eak.
    + rewrite IH. destruct (k =? k') eqn:Ek; [reflexivity|].
      assert (a =? k' = false) by lia. rewrite H. reflexivity.
    + cbn [c_lookup]. rewrite IH. destruct (a =? k') eqn:Eak'.
      * assert (k =? k' = false) by lia. rewrite H. reflexivity.
      * reflexivity.
Qed.

Lemma c_lookup_update m k f k' :
  c_lookup (c_update m k f) k' = if k =? k' then Some f else c_lookup m k'.
Proof.
  unfold c_update. cbn [c_lookup]. destruct (k =? k') eqn:E; [reflexivity|].
  rewrite c_lookup_remove, E. reflexivity.
Qed.

Lemma c_lookup_in m k f : c_lookup m k = Some f -> In (k, f) m.
Proof.
  induction m as [|[a g] r IH]; cbn [c_lookup]; [discriminate|].
  destruct (a =? k) eqn:E; intros H.
  - inversion H; subst. left. f_equal. lia.
  - right. auto.
Qed.

Lemma c_lookup_notin m k : ~ In k (map fst m) -> c_lookup m k = None.
Proof.
  induction m as [|[a g] r IH]; cbn [c_lookup map fst]; [reflexivity|].
  intros H. destruct (a =? k) eqn:E.
  - exfalso. apply H. left. lia.
  - apply IH. intros Hin. apply H. right. exact Hin.
Qed.

Lemma c_remove_keys_subset m k a : In a (map fst (c_remove m k)) -> In a (map fst m) /\ a <> k.
Proof.
  induction m as [|[b g] r IH]; cbn [c_remove map fst]; [intros []|].
  destruct (b =? k) eqn:E.
  - intros H. destruct (IH H). split; [right; assumption|assumption].
  - cbn [map fst]. intros [H|H].
    + subst. split; [left; reflexivity|lia].
    + destruct (IH H). split; [right; assumption|assumption].
Qed.

Lemma c_remove_nodup m k : NoDup (map fst m) -> NoDup (map fst (c_remove m k)).
Proof.
  induction m as [|[b g] r IH]; cbn [c_remove map fst]; [auto|].
  intros H. inversion H; subst. destruct (b =? k).
  - auto.
  - cbn [map fst]. constructor; [|auto].
    intros Hin. apply c_remove_keys_subset in Hin. tauto.
Qed.

Lemma c_update_nodup m k f : NoDup (map fst m) -> NoDup (map fst (c_update m k f)).
Proof.
  intros H. unfold c_update. cbn [map fst]. constructor.
  - intros Hin. apply c_remove_keys_subset in Hin. tauto.
  - apply c_remove_nodup. exact H.
Qed.

Lemma c_filter_keys_subset (p : Z * nat -> bool) m a :
  In a (map fst (filter p m)) -> In a (map fst m).
Proof.
  rewrite !in_map_iff. intros [x [Hx Hin]]. apply filter_In in Hin. exists x. tauto.
Qed.

Lemma c_filter_nodup (p : Z * nat -> bool) m : NoDup (map fst m) -> NoDup (map fst (filter p m)).
Proof.
  induction m as [|[b g] r IH]; cbn [filter map fst]; [auto|].
  intros H. inversion H; subst. destruct (p (b, g)).
  - cbn [map fst]. constructor; [|auto]. intros Hin. apply c_filter_keys_subset in Hin. auto.
  - auto.
Qed.

Lemma c_lookup_filter (p : nat -> bool) m k :
  NoDup (map fst m) ->
  c_lookup (filter (fun kf => p (snd kf)) m) k =
  match c_lookup m k with Some f => if p f then Some f else None | None => None end.
Proof.
  induction m as [|[b g] r IH]; cbn [filter c_lookup map fst snd]; [reflexivity|].
  intros H. inversion H; subst. destruct (p g) eqn:Ep; cbn [c_lookup].
  - destruct (b =? k) eqn:E; [rewrite Ep; reflexivity|]. auto.
  - destruct (b =? k) eqn:E.
    + rewrite Ep. apply c_lookup_notin. intros Hin. apply c_filter_keys_subset in Hin.
      assert (b = k) by lia. subst. auto.
    + auto.
Qed.

(* ------------------------------------------------------------------ arena primitives *)
Lemma c_get_lt futs f x : c_get futs f = Some x -> (f < length futs)%nat.
Proof. unfold c_get. intros H. apply nth_error_Some. congruence. Qed.

Lemma c_get_app_old futs x f y : c_get futs f = Some y -> c_get (futs ++ [x]) f = Some y.
Proof.
  intros H. unfold c_get in *. rewrite nth_error_app1; [exact H|]. apply nth_error_Some. congruence.
Qed.

Lemma c_get_app_new futs x : c_get (futs ++ [x]) (length futs) = Some x.
Proof. unfold c_get. rewrite nth_error_app2 by lia. rewrite Nat.sub_diag. reflexivity. Qed.

Lemma c_get_app_inv futs x f y :
  c_get (futs ++ [x]) f = Some y -> c_get futs f = Some y \/ (f = length futs /\ y = x).
Proof.
  unfold c_get. intros H. destruct (Nat.lt_ge_cases f (length futs)) as [Hlt|Hge].
  - rewrite nth_error_app1 in H by exact Hlt. left. exact H.
  - rewrite nth_error_app2 in H by exact Hge.
    destruct (f - length futs)%nat as [|n] eqn:E; cbn in H.
    + right. split; [lia|congruence].
    + destruct n; discriminate.
Qed.

Lemma c_get_setfut futs f x g :
  (f < length futs)%nat ->
  c_get (c_setfut futs f x) g = if Nat.eqb g f then Some x else c_get futs g.
Proof.
  unfold c_get, c_setfut. revert f g. induction futs as [|a r IH]; intros f g Hlt; cbn [length] in Hlt; [lia|].
  destruct f as [|f]; destruct g as [|g]; cbn; try reflexivity.
  apply IH. lia.
Qed.

Lemma c_setfut_length futs f x : (f < length futs)%nat -> length (c_setfut futs f x) = length futs.
Proof.
  unfold c_setfut. revert f. induction futs as [|a r IH]; intros f Hlt; cbn [length] in Hlt; [lia|].
  destruct f as [|f]; cbn; [reflexivity|]. f_equal. apply IH. lia.
Qed.

(* ------------------------------------------------------------------ take_first / take_nth *)
Lemma c_take_first_spec p l f l' :
  c_take_first p l = Some (f, l') -> Permutation l (f :: l') /\ p f = true.
Proof.
  revert f l'. induction l as [|a r IH]; cbn [c_take_first]; intros f l' H; [discriminate|].
  destruct (p a) eqn:Ep.
  - inversion H; subst. split; [apply Permutation_refl|exact Ep].
  - destruct (c_take_first p r) as [[g r']|] eqn:Et; [|discriminate].
    inversion H; subst. destruct (IH _ _ eq_refl) as [HP Hp]. split; [|exact Hp].
    eapply perm_trans; [apply perm_skip; exact HP|apply perm_swap].
Qed.

Lemma c_take_nth_spec p i l f l' :
  c_take_nth p i l = Some (f, l') -> Permutation l (f :: l') /\ p f = true.
Proof.
  revert i f l'. induction l as [|a r IH]; cbn [c_take_nth]; intros i f l' H; [discriminate|].
  destruct (p a) eqn:Ep.
  - destruct i as [|j].
    + inversion H; subst. split; [apply Permutation_refl|exact Ep].
    + destruct (c_take_nth p j r) as [[g r']|] eqn:Et; [|discriminate].
      inversion H; subst. destruct (IH _ _ _ Et) as [HP Hp]. split; [|exact Hp].
      eapply perm_trans; [apply perm_skip; exact HP|apply perm_swap].
  - destruct (c_take_nth p i r) as [[g r']|] eqn:Et; [|discriminate].
    inversion H; subst. destruct (IH _ _ _ Et) as [HP Hp]. split; [|exact Hp].
    eapply perm_trans; [apply perm_skip; exact HP|apply perm_swap].
Qed.

Lemma c_key_is_spec futs k f :
  c_key_is futs k f = true -> exists x, c_get futs f = Some x /\ c_fkey x = k.
Proof.
  unfold c_key_is. destruct (c_get futs f) as [x|]; [|discriminate].
  intros H. exists x. split; [reflexivity|lia].
Qed.

(* ------------------------------------------------------------------ status facts *)
Definition c_isload (futs : list c_fut) (f : nat) : Prop :=
  exists x, c_get futs f = Some x /\ c_fdone x = None.

Lemma c_status_loading cfg now futs f x :
  c_get futs f = Some x -> c_fdone x = None -> c_status cfg now futs (Some f) = CGood.
Proof. intros Hg Hd. unfold c_status, c_status_fut. rewrite Hg, Hd. reflexivity. Qed.

Lemma c_status_done cfg now futs f x v e u :
  c_get futs f = Some x -> c_fdone x = Some (v, e, u) ->
  c_status cfg now futs (Some f) =
    if now - u <? c_expire cfg e then CGood
    else if now - u <? 2 * c_expire cfg e then CExpired else CRotted.
Proof. intros Hg Hd. unfold c_status, c_status_fut. rewrite Hg, Hd. reflexivity. Qed.

Lemma c_status_some_cases cfg now futs f :
  (c_get futs f = None /\ c_status cfg now futs (Some f) = CEmpty) \/
  (exists x, c_get futs f = Some x /\ c_fdone x = None /\ c_status cfg now futs (Some f) = CGood) \/
  (exists x v e u, c_get futs f = Some x /\ c_fdone x = Some (v, e, u) /\
     ((now - u < c_expire cfg e /\ c_status cfg now futs (Some f) = CGood) \/
      (c_expire cfg e <= now - u < 2 * c_expire cfg e /\ c_status cfg now futs (Some f) = CExpired) \/
      ((c_expire cfg e <= now - u /\ 2 * c_expire cfg e <= now - u) /\
       c_status cfg now futs (Some f) = CRotted))).
Proof.
  destruct (c_get futs f) as [x|] eqn:Hg.
  - right. destruct (c_fdone x) as [[[v e] u]|] eqn:Hd.
    + right. exists x, v, e, u. split; [reflexivity|]. split; [exact Hd|].
      rewrite (c_status_done cfg now futs f x v e u Hg Hd).
      destruct (now - u <? c_expire cfg e) eqn:E1; [left; split; [lia|reflexivity]|].
      destruct (now - u <? 2 * c_expire cfg e) eqn:E2; right; [left|right]; (split; [lia|reflexivity]).
    + left. exists x. split; [reflexivity|]. split; [exact Hd|]. eapply c_status_loading; eauto.
  - left. split; [reflexivity|]. unfold c_status. rewrite Hg. reflexivity.
Qed.

(* status depends on the arena only through the entry itself *)
Lemma c_status_ext cfg now futs futs' of :
  (forall f, of = Some f -> c_get futs' f = c_get futs f) ->
  c_status cfg now futs' of = c_status cfg now futs of.
Proof. intros H. destruct of as [f|]; [|reflexivity]. unfold c_status. rewrite (H f eq_refl). reflexivity. Qed.

(* ------------------------------------------------------------------ the invariant *)
Record c_inv (cfg : c_cfg) (s : c_state) : Prop := {
  ci_map_wf : forall k f, c_lookup (c_map s) k = Some f ->
      exists x, c_get (c_futs s) f = Some x /\ c_fkey x = k;
  ci_keys : NoDup (map fst (c_map s));
  ci_jobs_nodup : NoDup (c_queue s ++ c_running s);
  ci_jobs : forall f, In f (c_queue s ++ c_running s) <-> c_isload (c_futs s) f;
  ci_current : forall f x, c_get (c_futs s) f = Some x -> c_fdone x = None ->
      In f (c_displaced s) \/ c_lookup (c_map s) (c_fkey x) = Some f;
  ci_pred : forall f x p, c_get (c_futs s) f = Some x -> c_fpred x = Some p ->
      c_fdone x = None /\
      exists y v e u, c_get (c_futs s) p = Some y /\ c_fkey y = c_fkey x /\
        c_fdone y = Some (v, e, u) /\ c_expire cfg e <= c_now s - u;
  ci_stamps : forall f x v e u, c_get (c_futs s) f = Some x -> c_fdone x = Some (v, e, u) -> u <= c_now s
}.

Lemma c_inv_init cfg : c_inv cfg c_init.
Proof.
  constructor; cbn; intros.
  - discriminate.
  - constructor.
  - constructor.
  - split; [intros []|]. intros [x [H _]]. destruct f; discriminate.
  - destruct f; discriminate.
  - destruct f; discriminate.
  - destruct f; discriminate.
Qed.

Lemma c_inv_advance cfg s dt :
  0 <= dt -> c_inv cfg s ->
  c_inv cfg {| c_now := c_now s + dt; c_futs := c_futs s; c_map := c_map s; c_queue := c_queue s;
               c_running := c_running s; c_displaced := c_displaced s |}.
Proof.
  intros Hdt I. destruct I as [I1 I2 I3 I4 I5 I6 I7]. constructor; cbn; auto.
  - intros f x p Hg Hp. destruct (I6 f x p Hg Hp) as [Hd [y [v [e [u [Hy [Hk [Hdy Hage]]]]]]]].
    split; [exact Hd|]. exists y, v, e, u. repeat split; auto. lia.
  - intros f x v e u Hg Hd. specialize (I7 f x v e u Hg Hd). lia.
Qed.

Lemma c_inv_sweep cfg s : c_inv cfg s -> c_inv cfg (c_sweep cfg s).
Proof.
  intros I. destruct I as [I1 I2 I3 I4 I5 I6 I7]. constructor; cbn [c_sweep c_now c_futs c_map c_queue c_running c_displaced]; auto.
  - intros k f H. rewrite (c_lookup_filter (fun f => negb (c_is_rotted cfg (c_now s) (c_futs s) f))) in H by exact I2.
    destruct (c_lookup (c_map s) k) as [g|] eqn:E; [|discriminate].
    destruct (negb (c_is_rotted cfg (c_now s) (c_futs s) g)); [|discriminate].
    inversion H; subst. apply I1. exact E.
  - apply c_filter_nodup. exact I2.
  - intros f x Hg Hd. destruct (I5 f x Hg Hd) as [H|H]; [left; exact H|right].
    rewrite (c_lookup_filter (fun f => negb (c_is_rotted cfg (c_now s) (c_futs s) f))) by exact I2.
    rewrite H. unfold c_is_rotted. rewrite (c_status_loading cfg (c_now s) (c_futs s) f x Hg Hd). reflexivity.
Qed.

Lemma c_inv_start cfg s k s' o :
  c_inv cfg s -> c_start s k = (s', o) -> c_inv cfg s'.
Proof.
  intros I H. unfold c_start in H.
  destruct (c_take_first (c_key_is (c_futs s) k) (c_queue s)) as [[f q']|] eqn:Et.
  2:{ inversion H; subst. exact I. }
  inversion H; subst; clear H. destruct (c_take_first_spec _ _ _ _ Et) as [HP _].
  destruct I as [I1 I2 I3 I4 I5 I6 I7]. constructor; cbn; auto.
  - assert (HPP : Permutation (c_queue s ++ c_running s) (q' ++ c_running s ++ [f])).
    { eapply perm_trans; [apply Permutation_app_tail; exact HP|]. cbn.
      eapply perm_trans; [|apply Permutation_app_head; apply Permutation_cons_append].
      apply Permutation_middle. }
    eapply Permutation_NoDup; [exact HPP|exact I3].
  - intros g. rewrite <- I4.
    assert (HPP : Permutation (c_queue s ++ c_running s) (q' ++ c_running s ++ [f])).
    { eapply perm_trans; [apply Permutation_app_tail; exact HP|]. cbn.
      eapply perm_trans; [|apply Permutation_app_head; apply Permutation_cons_append].
      apply Permutation_middle. }
    split; intros Hin.
    + eapply Permutation_in; [apply Permutation_sym; exact HPP|exact Hin].
    + eapply Permutation_in; [exact HPP|exact Hin].
Qed.

Lemma c_isload_app futs x g :
  c_isload (futs ++ [x]) g <-> c_isload futs g \/ (g = length futs /\ c_fdone x = None).
Proof.
  unfold c_isload. split.
  - intros [y [Hg Hd]]. apply c_get_app_inv in Hg. destruct Hg as [Hg|[Hn Hy]].
    + left. exists y. auto.
    + right. subst. auto.
  - intros [[y [Hg Hd]]|[Hn Hd]].
    + exists y. split; [apply c_get_app_old; exact Hg|exact Hd].
    + subst. exists x. split; [apply c_get_app_new|exact Hd].
Qed.

Lemma c_isload_lt futs g : c_isload futs g -> (g < length futs)%nat.
Proof. intros [x [H _]]. eapply c_get_lt; eauto. Qed.

Lemma c_inv_finish cfg s k i v e s' o :
  c_inv cfg s -> c_finish s k i v e = (s', o) -> c_inv cfg s'.
Proof.
  intros I H. unfold c_finish in H.
  destruct (c_take_nth (c_key_is (c_futs s) k) i (c_running s)) as [[f r']|] eqn:Et.
  2:{ inversion H; subst. exact I. }
  inversion H; subst; clear H. destruct (c_take_nth_spec _ _ _ _ _ Et) as [HP Hk].
  destruct (c_key_is_spec _ _ _ Hk) as [x0 [Hg0 Hk0]].
  destruct I as [I1 I2 I3 I4 I5 I6 I7].
  assert (Hin : In f (c_queue s ++ c_running s)).
  { apply in_or_app. right. eapply Permutation_in; [apply Permutation_sym; exact HP|left; reflexivity]. }
  assert (Hl0 : c_fdone x0 = None).
  { apply I4 in Hin. destruct Hin as [y [Hy Hd]]. congruence. }
  assert (Hlt : (f < length (c_futs s))%nat) by (eapply c_get_lt; eauto).
  assert (HPP : Permutation (c_queue s ++ c_running s) (f :: c_queue s ++ r')).
  { eapply perm_trans; [apply Permutation_app_head; exact HP|]. apply Permutation_sym, Permutation_middle. }
  assert (HND : NoDup (f :: c_queue s ++ r')) by (eapply Permutation_NoDup; eauto).
  inversion HND as [|? ? Hnotin HND']; subst.
  set (X := {| c_fkey := c_fkey x0; c_fdone := Some (v, e, c_now s); c_fpred := None |}).
  assert (HG : forall g, c_get (c_setfut (c_futs s) f X) g = if Nat.eqb g f then Some X else c_get (c_futs s) g).
  { intros g. apply c_get_setfut. exact Hlt. }
  constructor; cbn [c_now c_futs c_map c_queue c_running c_displaced]; auto.
  - intros k' g Hl. destruct (I1 k' g Hl) as [x [Hx Hkx]]. rewrite HG.
    destruct (Nat.eqb g f) eqn:E.
    + apply Nat.eqb_eq in E. subst g. exists X. split; [reflexivity|]. cbn. congruence.
    + exists x. auto.
  - intros g. split.
    + intros Hing. assert (g <> f) by (intros ->; auto).
      assert (Hing' : In g (c_queue s ++ c_running s)).
      { eapply Permutation_in; [apply Permutation_sym; exact HPP|right; exact Hing]. }
      apply I4 in Hing'. destruct Hing' as [y [Hy Hd]]. exists y. rewrite HG.
      destruct (Nat.eqb g f) eqn:E; [apply Nat.eqb_eq in E; contradiction|auto].
    + intros [y [Hy Hd]]. rewrite HG in Hy. destruct (Nat.eqb g f) eqn:E.
      * inversion Hy; subst y. cbn in Hd. discriminate.
      * apply Nat.eqb_neq in E. assert (Hing : In g (c_queue s ++ c_running s)).
        { apply I4. exists y. auto. }
        eapply Permutation_in in Hing; [|exact HPP]. destruct Hing as [->|Hing]; [contradiction|exact Hing].
  - intros g x Hx Hd. rewrite HG in Hx. destruct (Nat.eqb g f) eqn:E.
    + inversion Hx; subst x. cbn in Hd. discriminate.
    + eapply I5; eauto.
  - intros g x p Hx Hp. rewrite HG in Hx. destruct (Nat.eqb g f) eqn:E.
    + inversion Hx; subst x. cbn in Hp. discriminate.
    + destruct (I6 g x p Hx Hp) as [Hd [y [v' [e' [u' [Hy [Hky [Hdy Hage]]]]]]]].
      split; [exact Hd|]. exists y, v', e', u'. repeat split; auto.
      rewrite HG. destruct (Nat.eqb p f) eqn:E2; [|exact Hy].
      apply Nat.eqb_eq in E2. subst p. congruence.
  - intros g x v' e' u' Hx Hd. rewrite HG in Hx. destruct (Nat.eqb g f) eqn:E.
    + inversion Hx; subst x. cbn in Hd. inversion Hd; subst. lia.
    + eapply I7; eauto.
Qed.

Lemma c_inv_new_job cfg s k pred :
  c_inv cfg s ->
  c_status cfg (c_now s) (c_futs s) (c_lookup (c_map s) k) <> CGood ->
  (pred = None \/ (pred = c_lookup (c_map s) k /\
                   c_status cfg (c_now s) (c_futs s) (c_lookup (c_map s) k) = CExpired)) ->
  c_inv cfg (c_new_job s k pred).
Proof.
  intros I Hst Hpred. destruct I as [I1 I2 I3 I4 I5 I6 I7].
  set (X := {| c_fkey := k; c_fdone := None; c_fpred := pred |}).
  assert (Hn : ~ In (length (c_futs s)) (c_queue s ++ c_running s)).
  { intros Hin. apply I4 in Hin. apply c_isload_lt in Hin. lia. }
  assert (HPP : Permutation ((c_queue s ++ [length (c_futs s)]) ++ c_running s)
                            (length (c_futs s) :: c_queue s ++ c_running s)).
  { rewrite <- app_assoc. cbn. apply Permutation_sym, Permutation_middle. }
  constructor; cbn [c_new_job c_now c_futs c_map c_queue c_running c_displaced].
  - intros k' f Hl. rewrite c_lookup_update in Hl. destruct (k =? k') eqn:E.
    + inversion Hl; subst f. exists X. split; [apply c_get_app_new|cbn; lia].
    + destruct (I1 k' f Hl) as [x [Hx Hk]]. exists x. split; [apply c_get_app_old; exact Hx|exact Hk].
  - apply c_update_nodup. exact I2.
  - eapply Permutation_NoDup; [apply Permutation_sym; exact HPP|]. constructor; assumption.
  - intros g. rewrite c_isload_app. cbn [c_fdone X]. split.
    + intros Hin. eapply Permutation_in in Hin; [|exact HPP]. destruct Hin as [<-|Hin].
      * right. split; reflexivity.
      * left. apply I4. exact Hin.
    + intros [Hl|[-> _]]; (eapply Permutation_in; [apply Permutation_sym; exact HPP|]).
      * right. apply I4. exact Hl.
      * left. reflexivity.
  - intros g x Hx Hd. apply c_get_app_inv in Hx. destruct Hx as [Hx|[-> ->]].
    + destruct (I5 g x Hx Hd) as [H|H]; [left; exact H|]. right.
      rewrite c_lookup_update. destruct (k =? c_fkey x) eqn:E; [|exact H].
      exfalso. apply Hst. assert (k = c_fkey x) by lia. subst k. rewrite H.
      eapply c_status_loading; eauto.
    + right. cbn [c_fkey X]. rewrite c_lookup_update. rewrite Z.eqb_refl. reflexivity.
  - intros g x p Hx Hp. apply c_get_app_inv in Hx. destruct Hx as [Hx|[-> ->]].
    + destruct (I6 g x p Hx Hp) as [Hd [y [v [e [u [Hy [Hky [Hdy Hage]]]]]]]].
      split; [exact Hd|]. exists y, v, e, u. repeat split; auto. apply c_get_app_old. exact Hy.
    + cbn [c_fpred X] in Hp. split; [reflexivity|].
      destruct Hpred as [Hpn|[Hpl Hexp]]; [congruence|]. rewrite Hp in Hpl.
      destruct (I1 k p (eq_sym Hpl)) as [y [Hy Hky]].
      rewrite <- Hpl in Hexp.
      destruct (c_status_some_cases cfg (c_now s) (c_futs s) p) as [[Hnone _]|[[x [Hx [Hd Hs]]]|[x [v [e [u [Hx [Hd Hs]]]]]]]].
      * congruence.
      * congruence.
      * assert (x = y) by congruence. subst x. exists y, v, e, u.
        split; [apply c_get_app_old; exact Hy|]. split; [cbn; exact Hky|]. split; [exact Hd|].
        destruct Hs as [[_ Hs]|[[Hs _]|[_ Hs]]]; [congruence|lia|congruence].
  - intros g x v e u Hx Hd. apply c_get_app_inv in Hx. destruct Hx as [Hx|[-> ->]].
    + eapply I7; eauto.
    + cbn in Hd. discriminate.
Qed.

Lemma c_is_loading_spec futs f : c_is_loading futs f = true <-> c_isload futs f.
Proof.
  unfold c_is_loading, c_isload. split.
  - destruct (c_get futs f) as [x|]; [|discriminate]. destruct (c_fdone x) eqn:E; [discriminate|].
    intros _. exists x. auto.
  - intros [x [Hx Hd]]. rewrite Hx, Hd. reflexivity.
Qed.

Lemma c_inv_set cfg s k v e : c_inv cfg s -> c_inv cfg (c_set s k v e).
Proof.
  intros I. destruct I as [I1 I2 I3 I4 I5 I6 I7].
  set (X := {| c_fkey := k; c_fdone := Some (v, e, c_now s); c_fpred := None |}).
  constructor; cbn [c_set c_now c_futs c_map c_queue c_running c_displaced].
  - intros k' f Hl. rewrite c_lookup_update in Hl. destruct (k =? k') eqn:E.
    + inversion Hl; subst f. exists X. split; [apply c_get_app_new|cbn; lia].
    + destruct (I1 k' f Hl) as [x [Hx Hk]]. exists x. split; [apply c_get_app_old; exact Hx|exact Hk].
  - apply c_update_nodup. exact I2.
  - exact I3.
  - intros g. rewrite c_isload_app. cbn [c_fdone X]. rewrite I4. split; [tauto|].
    intros [H|[_ H]]; [exact H|discriminate].
  - intros g x Hx Hd. apply c_get_app_inv in Hx. destruct Hx as [Hx|[-> ->]]; [|cbn in Hd; discriminate].
    destruct (I5 g x Hx Hd) as [H|H].
    + left. destruct (c_lookup (c_map s) k) as [old|]; [|exact H].
      destruct (c_is_loading (c_futs s) old); [right; exact H|exact H].
    + rewrite c_lookup_update. destruct (k =? c_fkey x) eqn:E; [|right; exact H].
      left. assert (k = c_fkey x) by lia. subst k. rewrite H.
      assert (Hl : c_is_loading (c_futs s) g = true) by (apply c_is_loading_spec; exists x; auto).
      rewrite Hl. left. reflexivity.
  - intros g x p Hx Hp. apply c_get_app_inv in Hx. destruct Hx as [Hx|[-> ->]]; [|cbn in Hp; discriminate].
    destruct (I6 g x p Hx Hp) as [Hd [y [v' [e' [u' [Hy [Hky [Hdy Hage]]]]]]]].
    split; [exact Hd|]. exists y, v', e', u'. repeat split; auto. apply c_get_app_old. exact Hy.
  - intros g x v' e' u' Hx Hd. apply c_get_app_inv in Hx. destruct Hx as [Hx|[-> ->]].
    + eapply I7; eauto.
    + cbn in Hd. inversion Hd; subst. lia.
Qed.

Lemma c_load_cases cfg s k :
  let last := c_lookup (c_map s) k in
  let st := c_status cfg (c_now s) (c_futs s) last in
  (st = CGood /\ c_load cfg s k =
     (s, OLoad (match last with Some l => c_fetch cfg (c_now s) (c_futs s) l | None => O end) false)) \/
  (st = CExpired /\ c_load cfg s k =
     (c_new_job s k last, OLoad (match last with Some l => l | None => length (c_futs s) end) true)) \/
  ((st = CRotted \/ st = CEmpty) /\ c_load cfg s k = (c_new_job s k None, OLoad (length (c_futs s)) true)).
Proof.
  cbv zeta. unfold c_load. destruct (c_status cfg (c_now s) (c_futs s) (c_lookup (c_map s) k)); auto.
Qed.

Lemma c_inv_step cfg s ev : c_inv cfg s -> c_inv cfg (fst (c_step cfg s ev)).
Proof.
  intros I. destruct ev as [k|k|k v e|k|k i v e| |dt]; cbn [c_step].
  - destruct (c_load_cases cfg s k) as [[Hs ->]|[[Hs ->]|[Hs ->]]]; cbn [fst].
    + exact I.
    + apply c_inv_new_job; [exact I|congruence|right; auto].
    + apply c_inv_new_job; [exact I|destruct Hs; congruence|left; reflexivity].
  - exact I.
  - cbn [fst]. apply c_inv_set. exact I.
  - destruct (c_start s k) as [s' o] eqn:E. cbn [fst]. eapply c_inv_start; eauto.
  - destruct (c_finish s k i v e) as [s' o] eqn:E. cbn [fst]. eapply c_inv_finish; eauto.
  - cbn [fst]. apply c_inv_sweep. exact I.
  - destruct (dt <? 0) eqn:E; cbn [fst]; [exact I|]. apply c_inv_advance; [lia|exact I].
Qed.

Lemma c_inv_run cfg evs : forall s, c_inv cfg s -> c_inv cfg (c_run cfg s evs).
Proof.
  induction evs as [|ev r IH]; intros s I; cbn [c_run]; [exact I|]. apply IH. apply c_inv_step. exact I.
Qed.

Lemma c_inv_reachable cfg evs : c_inv cfg (c_run cfg c_init evs).
Proof. apply c_inv_run. apply c_inv_init. Qed.

(* ================================================================== C04 *)
Lemma c_done_no_pred cfg s f x r :
  c_inv cfg s -> c_get (c_futs s) f = Some x -> c_fdone x = Some r -> c_fpred x = None.
Proof.
  intros I Hx Hd. destruct (c_fpred x) as [p|] eqn:Hp; [|reflexivity].
  destruct (ci_pred _ _ I f x p Hx Hp) as [Hn _]. congruence.
Qed.

Lemma c_fetch_no_pred cfg now futs f x :
  c_get futs f = Some x -> c_fpred x = None -> c_fetch cfg now futs f = f.
Proof. intros Hx Hp. unfold c_fetch. rewrite Hx, Hp. reflexivity. Qed.

Lemma c_single_flight cfg evs :
  let s := c_run cfg c_init evs in
  (forall f g x y, c_get (c_futs s) f = Some x -> c_get (c_futs s) g = Some y ->
     c_fdone x = None -> c_fdone y = None -> c_fkey x = c_fkey y ->
     ~ In f (c_displaced s) -> ~ In g (c_displaced s) -> f = g) /\
  (forall f g x y, In f (c_running s) -> In g (c_running s) ->
     c_get (c_futs s) f = Some x -> c_get (c_futs s) g = Some y -> c_fkey x = c_fkey y ->
     ~ In f (c_displaced s) -> ~ In g (c_displaced s) -> f = g) /\
  (forall f, In f (c_running s) -> c_isload (c_futs s) f) /\
  NoDup (c_running s) /\
  (forall k s' f created, c_step cfg s (CLoad k) = (s', OLoad f created) ->
     created = negb (c_is_good (c_status cfg (c_now s) (c_futs s) (c_lookup (c_map s) k)))) /\
  (forall k f x, c_get (c_futs s) f = Some x -> c_fkey x = k -> c_fdone x = None ->
     ~ In f (c_displaced s) -> exists g, c_step cfg s (CLoad k) = (s, OLoad g false)) /\
  (forall k f x v e u, c_lookup (c_map s) k = Some f -> c_get (c_futs s) f = Some x ->
     c_fdone x = Some (v, e, u) -> c_now s - u < c_expire cfg e ->
     c_step cfg s (CLoad k) = (s, OLoad f false)).
Proof.
  intros s. assert (I : c_inv cfg s) by apply c_inv_reachable.
  assert (A : forall f g x y, c_get (c_futs s) f = Some x -> c_get (c_futs s) g = Some y ->
     c_fdone x = None -> c_fdone y = None -> c_fkey x = c_fkey y ->
     ~ In f (c_displaced s) -> ~ In g (c_displaced s) -> f = g).
  { intros f g x y Hx Hy Hdx Hdy Hk Hnf Hng.
    destruct (ci_current _ _ I f x Hx Hdx) as [H1|H1]; [contradiction|].
    destruct (ci_current _ _ I g y Hy Hdy) as [H2|H2]; [contradiction|]. congruence. }
  assert (B : forall f, In f (c_running s) -> c_isload (c_futs s) f).
  { intros f Hin. apply (ci_jobs _ _ I). apply in_or_app. right. exact Hin. }
  split; [exact A|]. split.
  { intros f g x y Hf Hg Hx Hy Hk Hnf Hng. destruct (B f Hf) as [x' [Hx' Hdx]]. destruct (B g Hg) as [y' [Hy' Hdy]].
    assert (x' = x) by congruence. assert (y' = y) by congruence. subst. eapply A; eauto. }
  split; [exact B|]. split.
  { pose proof (ci_jobs_nodup _ _ I) as H. revert H. generalize (c_queue s) as q.
    induction q as [|a q IHq]; cbn; intros H; [exact H|]. inversion H; auto. }
  split.
  { intros k s' f created H. cbn [c_step] in H.
    destruct (c_load_cases cfg s k) as [[Hs E]|[[Hs E]|[[Hs|Hs] E]]]; rewrite E in H; inversion H; subst; rewrite Hs; reflexivity. }
  split.
  { intros k f x Hx Hk Hd Hnf. destruct (ci_current _ _ I f x Hx Hd) as [H|H]; [contradiction|].
    cbn [c_step]. destruct (c_load_cases cfg s k) as [[Hs E]|[[Hs E]|[Hs E]]].
    - rewrite E. eexists. reflexivity.
    - exfalso. subst k. rewrite H in Hs. rewrite (c_status_loading cfg _ _ f x Hx Hd) in Hs. discriminate.
    - exfalso. subst k. rewrite H in Hs. rewrite (c_status_loading cfg _ _ f x Hx Hd) in Hs. destruct Hs; discriminate. }
  intros k f x v e u Hl Hx Hd Hage. cbn [c_step].
  assert (Hst : c_status cfg (c_now s) (c_futs s) (Some f) = CGood).
  { rewrite (c_status_done cfg _ _ f x v e u Hx Hd). assert (c_now s - u <? c_expire cfg e = true) by lia. rewrite H. reflexivity. }
  destruct (c_load_cases cfg s k) as [[Hs E]|[[Hs E]|[Hs E]]]; rewrite Hl in *.
  - rewrite E. rewrite (c_fetch_no_pred cfg _ _ f x Hx (c_done_no_pred cfg s f x _ I Hx Hd)). reflexivity.
  - congruence.
  - destruct Hs; congruence.
Qed.

(* a completed future never changes; the key of a future never changes *)
Lemma c_step_stable cfg s ev f x :
  c_inv cfg s -> c_get (c_futs s) f = Some x ->
  exists x', c_get (c_futs (fst (c_step cfg s ev))) f = Some x' /\ c_fkey x' = c_fkey x /\
             (forall r, c_fdone x = Some r -> c_fdone x' = Some r).
Proof.
  intros I Hx. destruct ev as [k|k|k v e|k|k i v e| |dt]; cbn [c_step].
  - destruct (c_load_cases cfg s k) as [[Hs ->]|[[Hs ->]|[Hs ->]]]; cbn [fst c_new_job c_futs].
    + exists x. auto.
    + exists x. split; [apply c_get_app_old; exact Hx|auto].
    + exists x. split; [apply c_get_app_old; exact Hx|auto].
  - exists x. auto.
  - cbn [fst c_set c_futs]. exists x. split; [apply c_get_app_old; exact Hx|auto].
  - unfold c_start. destruct (c_take_first _ _) as [[g q']|]; cbn [fst c_futs]; exists x; auto.
  - unfold c_finish. destruct (c_take_nth _ _ _) as [[g r']|] eqn:Et; cbn [fst c_futs]; [|exists x; auto].
    destruct (c_take_nth_spec _ _ _ _ _ Et) as [HP Hk]. destruct (c_key_is_spec _ _ _ Hk) as [x0 [Hg0 Hk0]].
    rewrite c_get_setfut by (eapply c_get_lt; eauto). destruct (Nat.eqb f g) eqn:E.
    + apply Nat.eqb_eq in E. subst g. assert (x0 = x) by congruence. subst x0.
      eexists. split; [reflexivity|]. split; [cbn; congruence|].
      intros r Hr. exfalso.
      assert (Hin : In f (c_queue s ++ c_running s)).
      { apply in_or_app. right. eapply Permutation_in; [apply Permutation_sym; exact HP|left; reflexivity]. }
      apply (ci_jobs _ _ I) in Hin. destruct Hin as [y [Hy Hd]]. congruence.
    + exists x. auto.
  - exists x. auto.
  - destruct (dt <? 0); cbn [fst c_futs]; exists x; auto.
Qed.

Lemma c_run_stable cfg evs : forall s f x,
  c_inv cfg s -> c_get (c_futs s) f = Some x ->
  exists x', c_get (c_futs (c_run cfg s evs)) f = Some x' /\ c_fkey x' = c_fkey x /\
             (forall r, c_fdone x = Some r -> c_fdone x' = Some r).
Proof.
  induction evs as [|ev r IH]; intros s f x I Hx; cbn [c_run].
  - exists x. auto.
  - destruct (c_step_stable cfg s ev f x I Hx) as [x1 [H1 [K1 D1]]].
    destruct (IH _ f x1 (c_inv_step cfg s ev I) H1) as [x2 [H2 [K2 D2]]].
    exists x2. split; [exact H2|]. split; [congruence|]. intros r0 Hr. apply D2, D1, Hr.
Qed.

Lemma c_future_immutable cfg evs evs' f x v e u :
  let s := c_run cfg c_init evs in
  c_get (c_futs s) f = Some x -> c_fdone x = Some (v, e, u) ->
  exists x', c_get (c_futs (c_run cfg s evs')) f = Some x' /\
             c_fdone x' = Some (v, e, u) /\ c_fkey x' = c_fkey x.
Proof.
  intros s Hx Hd. destruct (c_run_stable cfg evs' s f x (c_inv_reachable cfg evs) Hx) as [x' [H1 [K1 D1]]].
  exists x'. auto.
Qed.

(* how a future can become / be complete after one step *)
Lemma c_result_origin cfg evs ev f x' v e u :
  let s := c_run cfg c_init evs in
  let s' := fst (c_step cfg s ev) in
  c_get (c_futs s') f = Some x' -> c_fdone x' = Some (v, e, u) ->
  (exists x, c_get (c_futs s) f = Some x /\ c_fdone x = Some (v, e, u) /\ c_fkey x = c_fkey x') \/
  (exists i x, ev = CFinish (c_fkey x') i v e /\ u = c_now s /\ In f (c_running s) /\
               c_get (c_futs s) f = Some x /\ c_fdone x = None /\ c_fkey x = c_fkey x') \/
  (ev = CSet (c_fkey x') v e /\ u = c_now s /\ f = length (c_futs s)).
Proof.
  intros s s' Hx' Hd. assert (I : c_inv cfg s) by apply c_inv_reachable. subst s'.
  destruct ev as [k|k|k v0 e0|k|k i v0 e0| |dt]; cbn [c_step] in Hx'.
  - destruct (c_load_cases cfg s k) as [[Hs E]|[[Hs E]|[Hs E]]]; rewrite E in Hx'; cbn [fst c_new_job c_futs] in Hx'.
    + left. exists x'. auto.
    + apply c_get_app_inv in Hx'. destruct Hx' as [Hx'|[_ ->]]; [left; exists x'; auto|cbn in Hd; discriminate].
    + apply c_get_app_inv in Hx'. destruct Hx' as [Hx'|[_ ->]]; [left; exists x'; auto|cbn in Hd; discriminate].
  - left. exists x'. auto.
  - cbn [fst c_set c_futs] in Hx'. apply c_get_app_inv in Hx'. destruct Hx' as [Hx'|[-> ->]].
    + left. exists x'. auto.
    + right. right. cbn in Hd. inversion Hd; subst. cbn. auto.
  - left. exists x'. unfold c_start in Hx'. destruct (c_take_first _ _) as [[g q']|]; cbn [fst c_futs] in Hx'; auto.
  - unfold c_finish in Hx'. destruct (c_take_nth _ _ _) as [[g r']|] eqn:Et; cbn [fst c_futs] in Hx'; [|left; exists x'; auto].
    destruct (c_take_nth_spec _ _ _ _ _ Et) as [HP Hk]. destruct (c_key_is_spec _ _ _ Hk) as [x0 [Hg0 Hk0]].
    rewrite c_get_setfut in Hx' by (eapply c_get_lt; eauto). destruct (Nat.eqb f g) eqn:E.
    + apply Nat.eqb_eq in E. subst g. inversion Hx'; subst x'. cbn in Hd. inversion Hd; subst.
      right. left. exists i, x0. cbn [c_fkey].
      assert (Hin : In f (c_running s)).
      { eapply Permutation_in; [apply Permutation_sym; exact HP|left; reflexivity]. }
      assert (Hl : c_isload (c_futs s) f).
      { apply (ci_jobs _ _ I). apply in_or_app. right. exact Hin. }
      destruct Hl as [y [Hy Hdy]]. assert (y = x0) by congruence. subst y. repeat split; auto.
    + left. exists x'. auto.
  - left. exists x'. auto.
  - left. exists x'. destruct (dt <? 0); cbn [fst c_futs] in Hx'; auto.
Qed.

Lemma c_fetch_key cfg s f x :
  c_inv cfg s -> c_get (c_futs s) f = Some x ->
  exists y, c_get (c_futs s) (c_fetch cfg (c_now s) (c_futs s) f) = Some y /\ c_fkey y = c_fkey x.
Proof.
  intros I Hx. unfold c_fetch. rewrite Hx. destruct (c_fpred x) as [p|] eqn:Hp.
  - destruct (ci_pred _ _ I f x p Hx Hp) as [_ [y [v [e [u [Hy [Hk _]]]]]]].
    destruct (c_status cfg (c_now s) (c_futs s) (Some p)); try (exists x; auto; fail).
    exists y. auto.
  - cbn. exists x. auto.
Qed.

Lemma c_returned_key cfg evs :
  let s := c_run cfg c_init evs in
  (forall k s' f c, c_step cfg s (CLoad k) = (s', OLoad f c) ->
     exists x, c_get (c_futs s') f = Some x /\ c_fkey x = k) /\
  (forall k f, c_get2 cfg s k = OAwait f -> exists x, c_get (c_futs s) f = Some x /\ c_fkey x = k) /\
  (forall k s' f, c_step cfg s (CStart k) = (s', OStart f) ->
     exists x, c_get (c_futs s) f = Some x /\ c_fkey x = k /\ In f (c_queue s) /\ In f (c_running s')).
Proof.
  intros s. assert (I : c_inv cfg s) by apply c_inv_reachable. split; [|split].
  - intros k s' f c H. cbn [c_step] in H.
    destruct (c_load_cases cfg s k) as [[Hs E]|[[Hs E]|[Hs E]]]; rewrite E in H; inversion H; subst; clear H.
    + destruct (c_lookup (c_map s) k) as [l|] eqn:Hl; [|cbn in Hs; discriminate].
      destruct (ci_map_wf _ _ I k l Hl) as [x [Hx Hk]].
      destruct (c_fetch_key cfg s l x I Hx) as [y [Hy Hky]]. exists y. split; [exact Hy|congruence].
    + destruct (c_lookup (c_map s) k) as [l|] eqn:Hl; [|cbn in Hs; discriminate].
      destruct (ci_map_wf _ _ I k l Hl) as [x [Hx Hk]]. exists x. cbn [c_new_job c_futs].
      split; [apply c_get_app_old; exact Hx|exact Hk].
    + cbn [c_new_job c_futs]. eexists. split; [apply c_get_app_new|reflexivity].
  - intros k f H. unfold c_get2 in H. destruct (c_lookup (c_map s) k) as [l|] eqn:Hl.
    2:{ destruct (c_status cfg (c_now s) (c_futs s) None); discriminate. }
    destruct (ci_map_wf _ _ I k l Hl) as [x [Hx Hk]].
    destruct (c_status cfg (c_now s) (c_futs s) (Some l)); try discriminate; inversion H; subst.
    + destruct (c_fetch_key cfg s l x I Hx) as [y [Hy Hky]]. exists y. split; [exact Hy|congruence].
    + exists x. auto.
  - intros k s' f H. cbn [c_step] in H. unfold c_start in H.
    destruct (c_take_first _ _) as [[g q']|] eqn:Et; inversion H; subst; clear H.
    destruct (c_take_first_spec _ _ _ _ Et) as [HP Hk]. destruct (c_key_is_spec _ _ _ Hk) as [x [Hx Hkx]].
    exists x. repeat split; auto.
    + eapply Permutation_in; [apply Permutation_sym; exact HP|left; reflexivity].
    + cbn. apply in_or_app. right. left. reflexivity.
Qed.

(* ------------------------------------------------------------------ shard index *)
Lemma c_shard_index_in_range ty x bytes n :
  0 <= n ->
  0 <= c_shard_index ty x bytes (2 ^ n) < 2 ^ n /\
  c_shard_index ty x bytes (2 ^ n) =
    (match ty with KString => c_fnv32 bytes | _ => sext 64 x end) mod 2 ^ n.
Proof.
  intros Hn. unfold c_shard_index.
  set (next := match ty with KString => c_fnv32 bytes | _ => sext 64 x end).
  replace (2 ^ n - 1) with (Z.ones n) by (rewrite Z.ones_equiv; lia).
  rewrite Z.land_ones by exact Hn. split; [|reflexivity].
  apply Z.mod_pos_bound. apply Z.pow_pos_nonneg; lia.
Qed.

(* ================================================================== C05 *)
Lemma c_fresh_served cfg evs k f x v e u :
  let s := c_run cfg c_init evs in
  c_lookup (c_map s) k = Some f -> c_get (c_futs s) f = Some x ->
  c_fdone x = Some (v, e, u) -> c_now s - u < c_expire cfg e ->
  c_step cfg s (CLoad k) = (s, OLoad f false) /\ c_get2 cfg s k = OAwait f.
Proof.
  intros s Hl Hx Hd Hage. split.
  - destruct (c_single_flight cfg evs) as [_ [_ [_ [_ [_ [_ H]]]]]]. eapply H; eauto.
  - assert (I : c_inv cfg s) by apply c_inv_reachable.
    unfold c_get2. rewrite Hl. rewrite (c_status_done cfg _ _ f x v e u Hx Hd).
    assert (H : c_now s - u <? c_expire cfg e = true) by lia. rewrite H.
    rewrite (c_fetch_no_pred cfg _ _ f x Hx (c_done_no_pred cfg s f x _ I Hx Hd)). reflexivity.
Qed.

Lemma c_stale_first cfg evs k f x v e u :
  let s := c_run cfg c_init evs in
  c_lookup (c_map s) k = Some f -> c_get (c_futs s) f = Some x ->
  c_fdone x = Some (v, e, u) -> c_expire cfg e <= c_now s - u < 2 * c_expire cfg e ->
  c_step cfg s (CLoad k) = (c_new_job s k (Some f), OLoad f true) /\
  c_get2 cfg s k = OAwait f /\
  let s1 := c_new_job s k (Some f) in
  c_lookup (c_map s1) k = Some (length (c_futs s)) /\
  c_get (c_futs s1) (length (c_futs s)) = Some {| c_fkey := k; c_fdone := None; c_fpred := Some f |} /\
  c_queue s1 = c_queue s ++ [length (c_futs s)] /\ c_running s1 = c_running s.
Proof.
  intros s Hl Hx Hd Hage.
  assert (Hst : c_status cfg (c_now s) (c_futs s) (Some f) = CExpired).
  { rewrite (c_status_done cfg _ _ f x v e u Hx Hd).
    assert (H1 : c_now s - u <? c_expire cfg e = false) by lia.
    assert (H2 : c_now s - u <? 2 * c_expire cfg e = true) by lia. rewrite H1, H2. reflexivity. }
  split; [|split].
  - cbn [c_step]. unfold c_load. rewrite Hl, Hst. reflexivity.
  - unfold c_get2. rewrite Hl, Hst. reflexivity.
  - cbn [c_new_job c_map c_futs c_queue c_running]. rewrite c_lookup_update, Z.eqb_refl.
    split; [reflexivity|]. split; [apply c_get_app_new|]. split; reflexivity.
Qed.

Lemma c_stale_during_refresh cfg evs k g y f x v e u :
  let s := c_run cfg c_init evs in
  c_lookup (c_map s) k = Some g -> c_get (c_futs s) g = Some y -> c_fdone y = None ->
  c_fpred y = Some f -> c_get (c_futs s) f = Some x -> c_fdone x = Some (v, e, u) ->
  c_expire cfg e <= c_now s - u /\
  (c_now s - u < 2 * c_expire cfg e ->
     c_step cfg s (CLoad k) = (s, OLoad f false) /\ c_get2 cfg s k = OAwait f) /\
  (2 * c_expire cfg e <= c_now s - u ->
     c_step cfg s (CLoad k) = (s, OLoad g false) /\ c_get2 cfg s k = OAwait g).
Proof.
  intros s Hl Hy Hdy Hp Hx Hd. assert (I : c_inv cfg s) by apply c_inv_reachable.
  destruct (ci_pred _ _ I g y f Hy Hp) as [_ [x' [v' [e' [u' [Hx' [_ [Hd' Hage]]]]]]]].
  assert (x' = x) by congruence. subst x'. assert (Heq : (v', e', u') = (v, e, u)) by congruence.
  inversion Heq; subst v' e' u'. clear Heq Hd' Hx'.
  assert (Hg : c_status cfg (c_now s) (c_futs s) (Some g) = CGood) by (eapply c_status_loading; eauto).
  assert (H1 : c_now s - u <? c_expire cfg e = false) by lia.
  split; [exact Hage|]. split; intros Hb.
  - assert (H2 : c_now s - u <? 2 * c_expire cfg e = true) by lia.
    assert (Hf : c_fetch cfg (c_now s) (c_futs s) g = f).
    { unfold c_fetch. rewrite Hy, Hp. rewrite (c_status_done cfg _ _ f x v e u Hx Hd), H1, H2. reflexivity. }
    split.
    + cbn [c_step]. unfold c_load. rewrite Hl, Hg, Hf. reflexivity.
    + unfold c_get2. rewrite Hl, Hg, Hf. reflexivity.
  - assert (H2 : c_now s - u <? 2 * c_expire cfg e = false) by lia.
    assert (Hf : c_fetch cfg (c_now s) (c_futs s) g = g).
    { unfold c_fetch. rewrite Hy, Hp. rewrite (c_status_done cfg _ _ f x v e u Hx Hd), H1, H2. reflexivity. }
    split.
    + cbn [c_step]. unfold c_load. rewrite Hl, Hg, Hf. reflexivity.
    + unfold c_get2. rewrite Hl, Hg, Hf. reflexivity.
Qed.

Lemma c_expire_pos cfg e : c_cfg_ok cfg -> 0 < c_expire cfg e.
Proof. intros [H1 H2]. unfold c_expire. destruct (e =? 0); lia. Qed.

Lemma c_refresh_replaces cfg evs k i v e g s' :
  c_cfg_ok cfg ->
  let s := c_run cfg c_init evs in
  c_lookup (c_map s) k = Some g ->
  c_step cfg s (CFinish k i v e) = (s', OFinish g) ->
  c_lookup (c_map s') k = Some g /\
  c_get (c_futs s') g = Some {| c_fkey := k; c_fdone := Some (v, e, c_now s); c_fpred := None |} /\
  c_step cfg s' (CLoad k) = (s', OLoad g false) /\ c_get2 cfg s' k = OAwait g.
Proof.
  intros Hok s Hl H. cbn [c_step] in H. unfold c_finish in H.
  destruct (c_take_nth _ _ _) as [[g' r']|] eqn:Et; [|discriminate]. injection H as Hs' Hg. subst g'.
  destruct (c_take_nth_spec _ _ _ _ _ Et) as [HP Hk]. destruct (c_key_is_spec _ _ _ Hk) as [x0 [Hg0 Hk0]].
  set (X := {| c_fkey := k; c_fdone := Some (v, e, c_now s); c_fpred := None |}) in *.
  assert (HX : c_get (c_futs s') g = Some X).
  { subst s'. cbn [c_futs]. rewrite c_get_setfut by (eapply c_get_lt; eauto). rewrite Nat.eqb_refl. reflexivity. }
  assert (Hm : c_map s' = c_map s) by (subst s'; reflexivity).
  assert (Hnow : c_now s' = c_now s) by (subst s'; reflexivity).
  assert (Hst : c_status cfg (c_now s') (c_futs s') (Some g) = CGood).
  { rewrite (c_status_done cfg _ _ g X v e (c_now s) HX eq_refl). rewrite Hnow.
    pose proof (c_expire_pos cfg e Hok). assert (Hlt : c_now s - c_now s <? c_expire cfg e = true) by lia.
    rewrite Hlt. reflexivity. }
  assert (Hf : c_fetch cfg (c_now s') (c_futs s') g = g) by (apply (c_fetch_no_pred cfg _ _ g X HX); reflexivity).
  split; [rewrite Hm; exact Hl|]. split; [exact HX|]. split.
  - cbn [c_step]. unfold c_load. rewrite Hm, Hl, Hst, Hf. reflexivity.
  - unfold c_get2. rewrite Hm, Hl, Hst, Hf. reflexivity.
Qed.

(* a future the cache hands out is loading or younger than 2E *)
Definition c_servable (cfg : c_cfg) (s : c_state) (f : nat) : Prop :=
  exists x, c_get (c_futs s) f = Some x /\
    match c_fdone x with
    | None => True
    | Some (v, e, u) => c_now s - u < 2 * c_expire cfg e
    end.

Lemma c_fetch_servable cfg s l :
  c_cfg_ok cfg -> c_inv cfg s -> c_status cfg (c_now s) (c_futs s) (Some l) = CGood ->
  c_servable cfg s (c_fetch cfg (c_now s) (c_futs s) l).
Proof.
  intros Hok I Hs. unfold c_fetch.
  destruct (c_status_some_cases cfg (c_now s) (c_futs s) l) as [[_ H]|[[x [Hx [Hd _]]]|[x [v [e [u [Hx [Hd H]]]]]]]].
  - congruence.
  - rewrite Hx. destruct (c_fpred x) as [p|] eqn:Hp.
    + destruct (c_status_some_cases cfg (c_now s) (c_futs s) p) as [[_ H]|[[y [Hy [Hdy H]]]|[y [v [e [u [Hy [Hdy H]]]]]]]].
      * rewrite H. exists x. rewrite Hd. auto.
      * rewrite H. exists x. rewrite Hd. auto.
      * destruct H as [[_ H]|[[Hage H]|[_ H]]]; rewrite H.
        -- exists x. rewrite Hd. auto.
        -- exists y. rewrite Hdy. split; [exact Hy|lia].
        -- exists x. rewrite Hd. auto.
    + cbn. exists x. rewrite Hd. auto.
  - rewrite Hx. rewrite (c_done_no_pred cfg s l x _ I Hx Hd). cbn. exists x. rewrite Hd. split; [exact Hx|].
    pose proof (c_expire_pos cfg e Hok).
    destruct H as [[Hage _]|[[_ H]|[_ H]]]; [lia|congruence|congruence].
Qed.

Lemma c_never_serves_rotted cfg evs :
  c_cfg_ok cfg ->
  let s := c_run cfg c_init evs in
  (forall k s' f c, c_step cfg s (CLoad k) = (s', OLoad f c) -> c_servable cfg s' f) /\
  (forall k f, c_get2 cfg s k = OAwait f -> c_servable cfg s f) /\
  (forall k, c_get2 cfg s k = OImmediate <->
     (c_lookup (c_map s) k = None \/
      exists f x v e u, c_lookup (c_map s) k = Some f /\ c_get (c_futs s) f = Some x /\
        c_fdone x = Some (v, e, u) /\ 2 * c_expire cfg e <= c_now s - u)).
Proof.
  intros Hok s. assert (I : c_inv cfg s) by apply c_inv_reachable. split; [|split].
  - intros k s' f c H. cbn [c_step] in H.
    destruct (c_load_cases cfg s k) as [[Hs E]|[[Hs E]|[Hs E]]]; rewrite E in H; inversion H; subst; clear H.
    + destruct (c_lookup (c_map s) k) as [l|] eqn:Hl; [|cbn in Hs; discriminate].
      apply c_fetch_servable; auto.
    + destruct (c_lookup (c_map s) k) as [l|] eqn:Hl; [|cbn in Hs; discriminate].
      destruct (c_status_some_cases cfg (c_now s) (c_futs s) l) as [[_ H]|[[x [Hx [Hd H]]]|[x [v [e [u [Hx [Hd H]]]]]]]]; try congruence.
      exists x. cbn [c_new_job c_futs c_now]. split; [apply c_get_app_old; exact Hx|]. rewrite Hd.
      destruct H as [[_ H]|[[Hage _]|[_ H]]]; [congruence|lia|congruence].
    + eexists. cbn [c_new_job c_futs]. split; [apply c_get_app_new|]. cbn. exact Logic.I.
  - intros k f H. unfold c_get2 in H. destruct (c_lookup (c_map s) k) as [l|] eqn:Hl.
    2:{ destruct (c_status cfg (c_now s) (c_futs s) None); discriminate. }
    destruct (c_status cfg (c_now s) (c_futs s) (Some l)) eqn:Hs; try discriminate; inversion H; subst.
    + apply c_fetch_servable; auto.
    + destruct (c_status_some_cases cfg (c_now s) (c_futs s) f) as [[_ H1]|[[x [Hx [Hd H1]]]|[x [v [e [u [Hx [Hd H1]]]]]]]]; try congruence.
      exists x. split; [exact Hx|]. rewrite Hd.
      destruct H1 as [[_ H1]|[[Hage _]|[_ H1]]]; [congruence|lia|congruence].
  - intros k. unfold c_get2. destruct (c_lookup (c_map s) k) as [l|] eqn:Hl.
    + destruct (ci_map_wf _ _ I k l Hl) as [x0 [Hx0 _]].
      destruct (c_status_some_cases cfg (c_now s) (c_futs s) l) as [[H0 H1]|[[x [Hx [Hd H1]]]|[x [v [e [u [Hx [Hd H1]]]]]]]].
      * congruence.
      * rewrite H1. split; [discriminate|]. intros [H|[f [x' [v [e [u [Hf [Hx' [Hd' _]]]]]]]]]; [discriminate|].
        inversion Hf; subst f. congruence.
      * destruct H1 as [[Hage H1]|[[Hage H1]|[Hage H1]]]; rewrite H1.
        -- split; [discriminate|]. intros [H|[f [x' [v' [e' [u' [Hf [Hx' [Hd' Hr]]]]]]]]]; [discriminate|].
           inversion Hf; subst f. assert (x' = x) by congruence. subst x'.
           assert (Heq : (v', e', u') = (v, e, u)) by congruence. inversion Heq; subst.
           pose proof (c_expire_pos cfg e Hok). lia.
        -- split; [discriminate|]. intros [H|[f [x' [v' [e' [u' [Hf [Hx' [Hd' Hr]]]]]]]]]; [discriminate|].
           inversion Hf; subst f. assert (x' = x) by congruence. subst x'.
           assert (Heq : (v', e', u') = (v, e, u)) by congruence. inversion Heq; subst. lia.
        -- split; [|reflexivity]. intros _. right. exists l, x, v, e, u. repeat split; auto; lia.
    + cbn. split; [|reflexivity]. intros _. left. reflexivity.
Qed.

(* ------------------------------------------------------------------ the sweep is unobservable *)
Lemma c_is_rotted_spec cfg now futs f :
  c_is_rotted cfg now futs f = true <->
  exists x v e u, c_get futs f = Some x /\ c_fdone x = Some (v, e, u) /\
    c_expire cfg e <= now - u /\ 2 * c_expire cfg e <= now - u.
Proof.
  unfold c_is_rotted.
  destruct (c_status_some_cases cfg now futs f) as [[H0 H]|[[x [Hx [Hd H]]]|[x [v [e [u [Hx [Hd H]]]]]]]].
  - rewrite H. split; [discriminate|]. intros [x [v [e [u [Hx _]]]]]. congruence.
  - rewrite H. split; [discriminate|]. intros [x' [v [e [u [Hx' [Hd' _]]]]]]. congruence.
  - destruct H as [[Hage H]|[[Hage H]|[Hage H]]]; rewrite H.
    + split; [discriminate|]. intros [x' [v' [e' [u' [Hx' [Hd' Hr]]]]]]. assert (x' = x) by congruence. subst.
      assert (Heq : (v', e', u') = (v, e, u)) by congruence. inversion Heq; subst. lia.
    + split; [discriminate|]. intros [x' [v' [e' [u' [Hx' [Hd' Hr]]]]]]. assert (x' = x) by congruence. subst.
      assert (Heq : (v', e', u') = (v, e, u)) by congruence. inversion Heq; subst. lia.
    + split; [|reflexivity]. intros _. exists x, v, e, u. repeat split; auto; lia.
Qed.

Definition c_msim (cfg : c_cfg) (now : Z) (futs : list c_fut) (m1 m2 : list (Z * nat)) : Prop :=
  forall k, c_lookup m1 k = c_lookup m2 k \/
            (c_lookup m1 k = None /\ exists f, c_lookup m2 k = Some f /\ c_is_rotted cfg now futs f = true).

Definition c_sim (cfg : c_cfg) (s1 s2 : c_state) : Prop :=
  c_now s1 = c_now s2 /\ c_futs s1 = c_futs s2 /\ c_queue s1 = c_queue s2 /\
  c_running s1 = c_running s2 /\ c_displaced s1 = c_displaced s2 /\
  c_msim cfg (c_now s1) (c_futs s1) (c_map s1) (c_map s2).

Lemma c_msim_mono cfg now futs now' futs' m1 m2 :
  (forall f, c_is_rotted cfg now futs f = true -> c_is_rotted cfg now' futs' f = true) ->
  c_msim cfg now futs m1 m2 -> c_msim cfg now' futs' m1 m2.
Proof.
  intros Hm H k. destruct (H k) as [E|[E [f [Hf Hr]]]]; [left; exact E|right].
  split; [exact E|]. exists f. auto.
Qed.

Lemma c_msim_update cfg now futs m1 m2 k f :
  c_msim cfg now futs m1 m2 -> c_msim cfg now futs (c_update m1 k f) (c_update m2 k f).
Proof.
  intros H k'. rewrite !c_lookup_update. destruct (k =? k'); [left; reflexivity|apply H].
Qed.

Lemma c_msim_filter cfg now futs m1 m2 :
  NoDup (map fst m1) -> NoDup (map fst m2) -> c_msim cfg now futs m1 m2 ->
  c_msim cfg now futs
    (filter (fun kf => negb (c_is_rotted cfg now futs (snd kf))) m1)
    (filter (fun kf => negb (c_is_rotted cfg now futs (snd kf))) m2).
Proof.
  intros N1 N2 H k. left.
  rewrite (c_lookup_filter (fun f => negb (c_is_rotted cfg now futs f))) by exact N1.
  rewrite (c_lookup_filter (fun f => negb (c_is_rotted cfg now futs f))) by exact N2.
  destruct (H k) as [E|[E [f [Hf Hr]]]].
  - rewrite E. reflexivity.
  - rewrite E, Hf, Hr. reflexivity.
Qed.

Lemma c_rotted_app cfg now futs x f :
  c_is_rotted cfg now futs f = true -> c_is_rotted cfg now (futs ++ [x]) f = true.
Proof.
  rewrite !c_is_rotted_spec. intros [y [v [e [u [Hy H]]]]]. exists y, v, e, u.
  split; [apply c_get_app_old; exact Hy|exact H].
Qed.

Lemma c_msim_status cfg now futs m1 m2 k :
  c_msim cfg now futs m1 m2 ->
  c_lookup m1 k = c_lookup m2 k \/
  (c_lookup m1 k = None /\ c_status cfg now futs (c_lookup m1 k) = CEmpty /\
   exists f, c_lookup m2 k = Some f /\ c_status cfg now futs (c_lookup m2 k) = CRotted /\
             c_is_loading futs f = false).
Proof.
  intros H. destruct (H k) as [E|[E [f [Hf Hr]]]]; [left; exact E|right].
  split; [exact E|]. split; [rewrite E; reflexivity|]. exists f. split; [exact Hf|]. split.
  - rewrite Hf. unfold c_is_rotted in Hr. destruct (c_status cfg now futs (Some f)); try discriminate. reflexivity.
  - apply c_is_rotted_spec in Hr. destruct Hr as [x [v [e [u [Hx [Hd _]]]]]].
    unfold c_is_loading. rewrite Hx, Hd. reflexivity.
Qed.

Lemma c_sim_step cfg s1 s2 ev :
  c_inv cfg s1 -> c_inv cfg s2 -> c_sim cfg s1 s2 ->
  snd (c_step cfg s1 ev) = snd (c_step cfg s2 ev) /\
  c_sim cfg (fst (c_step cfg s1 ev)) (fst (c_step cfg s2 ev)).
Proof.
  intros I1 I2 Hsim.
  destruct s1 as [n1 fu1 m1 q1 r1 d1]. destruct s2 as [n2 fu2 m2 q2 r2 d2].
  destruct Hsim as (Hn & Hf & Hq & Hr & Hd & HM). cbn in Hn, Hf, Hq, Hr, Hd, HM. subst n2 fu2 q2 r2 d2.
  destruct ev as [k|k|k v e|k|k i v e| |dt]; cbn [c_step].
  - (* Load *)
    unfold c_load. cbn [c_now c_futs c_map].
    destruct (c_msim_status cfg n1 fu1 m1 m2 k HM) as [E|[E [S1 [f [Hf [S2 _]]]]]].
    + rewrite E. destruct (c_status cfg n1 fu1 (c_lookup m2 k)); cbn [fst snd].
      * split; [reflexivity|]. unfold c_sim, c_new_job; cbn. repeat split; auto.
        apply c_msim_update. eapply c_msim_mono; [|exact HM]. intros; apply c_rotted_app; auto.
      * split; [reflexivity|]. unfold c_sim; cbn. repeat split; auto.
      * split; [reflexivity|]. unfold c_sim, c_new_job; cbn. repeat split; auto.
        apply c_msim_update. eapply c_msim_mono; [|exact HM]. intros; apply c_rotted_app; auto.
      * split; [reflexivity|]. unfold c_sim, c_new_job; cbn. repeat split; auto.
        apply c_msim_update. eapply c_msim_mono; [|exact HM]. intros; apply c_rotted_app; auto.
    + rewrite S1, S2. cbn [fst snd]. split; [reflexivity|]. unfold c_sim, c_new_job; cbn. repeat split; auto.
      apply c_msim_update. eapply c_msim_mono; [|exact HM]. intros; apply c_rotted_app; auto.
  - (* Get2 *)
    cbn [fst snd]. split; [|unfold c_sim; cbn; repeat split; auto].
    unfold c_get2. cbn [c_now c_futs c_map].
    destruct (c_msim_status cfg n1 fu1 m1 m2 k HM) as [E|[E [S1 [f [Hf [S2 _]]]]]].
    + rewrite E. reflexivity.
    + rewrite S1, S2. reflexivity.
  - (* Set *)
    cbn [fst snd]. split; [reflexivity|]. unfold c_sim, c_set; cbn. repeat split; auto.
    + destruct (c_msim_status cfg n1 fu1 m1 m2 k HM) as [E|[E [S1 [f [Hf [S2 Hl]]]]]].
      * rewrite E. reflexivity.
      * rewrite E, Hf, Hl. reflexivity.
    + apply c_msim_update. eapply c_msim_mono; [|exact HM]. intros; apply c_rotted_app; auto.
  - (* Start *)
    unfold c_start. cbn [c_futs c_queue].
    destruct (c_take_first (c_key_is fu1 k) q1) as [[f q']|]; cbn [fst snd].
    + split; [reflexivity|]. unfold c_sim; cbn. repeat split; auto.
    + split; [reflexivity|]. unfold c_sim; cbn. repeat split; auto.
  - (* Finish *)
    unfold c_finish. cbn [c_futs c_running].
    destruct (c_take_nth (c_key_is fu1 k) i r1) as [[f r']|] eqn:Et; cbn [fst snd].
    2:{ split; [reflexivity|]. unfold c_sim; cbn. repeat split; auto. }
    split; [reflexivity|]. unfold c_sim; cbn. repeat split; auto.
    destruct (c_take_nth_spec _ _ _ _ _ Et) as [HP Hk]. destruct (c_key_is_spec _ _ _ Hk) as [x0 [Hg0 Hk0]].
    assert (Hl : c_isload fu1 f).
    { apply (ci_jobs _ _ I1). cbn. apply in_or_app. right.
      eapply Permutation_in; [apply Permutation_sym; exact HP|left; reflexivity]. }
    eapply c_msim_mono; [|exact HM]. intros g Hg. apply c_is_rotted_spec in Hg. apply c_is_rotted_spec.
    destruct Hg as [y [v' [e' [u' [Hy [Hdy Hage]]]]]]. exists y, v', e', u'. split; [|auto].
    rewrite c_get_setfut by (eapply c_get_lt; eauto). destruct (Nat.eqb g f) eqn:E; [|exact Hy].
    apply Nat.eqb_eq in E. subst g. destruct Hl as [z [Hz Hdz]]. congruence.
  - (* Sweep *)
    cbn [fst snd]. split; [reflexivity|]. unfold c_sim, c_sweep; cbn. repeat split; auto.
    apply c_msim_filter; [exact (ci_keys _ _ I1)|exact (ci_keys _ _ I2)|exact HM].
  - (* Advance *)
    destruct (dt <? 0) eqn:E; cbn [fst snd].
    + split; [reflexivity|]. unfold c_sim; cbn. repeat split; auto.
    + split; [reflexivity|]. unfold c_sim; cbn. repeat split; auto.
      eapply c_msim_mono; [|exact HM]. intros g Hg. apply c_is_rotted_spec in Hg. apply c_is_rotted_spec.
      destruct Hg as [y [v' [e' [u' [Hy [Hdy Hage]]]]]]. exists y, v', e', u'. repeat split; auto; lia.
Qed.

Lemma c_sim_outputs cfg evs : forall s1 s2,
  c_inv cfg s1 -> c_inv cfg s2 -> c_sim cfg s1 s2 ->
  c_outputs cfg s1 evs = c_outputs cfg s2 evs.
Proof.
  induction evs as [|ev r IH]; intros s1 s2 I1 I2 Hsim; cbn [c_outputs]; [reflexivity|].
  destruct (c_sim_step cfg s1 s2 ev I1 I2 Hsim) as [Ho Hs]. rewrite Ho. f_equal.
  apply IH; auto using c_inv_step.
Qed.

Lemma c_sim_sweep cfg s : c_inv cfg s -> c_sim cfg (c_sweep cfg s) s.
Proof.
  intros I. unfold c_sim, c_sweep; cbn. repeat split; auto. intros k.
  rewrite (c_lookup_filter (fun f => negb (c_is_rotted cfg (c_now s) (c_futs s) f))) by exact (ci_keys _ _ I).
  destruct (c_lookup (c_map s) k) as [f|] eqn:E; [|left; reflexivity].
  destruct (c_is_rotted cfg (c_now s) (c_futs s) f) eqn:Hr; cbn [negb].
  - right. split; [reflexivity|]. exists f. auto.
  - left. reflexivity.
Qed.

Lemma c_sweep_transparent cfg evs0 evs :
  let s := c_run cfg c_init evs0 in
  c_outputs cfg (c_sweep cfg s) evs = c_outputs cfg s evs.
Proof.
  intros s. assert (I : c_inv cfg s) by apply c_inv_reachable.
  apply c_sim_outputs; [apply c_inv_sweep; exact I|exact I|apply c_sim_sweep; exact I].
Qed.

(* ------------------------------------------------------------------ results completed later carry later stamps *)
Lemma c_run_app cfg a : forall s b, c_run cfg s (a ++ b) = c_run cfg (c_run cfg s a) b.
Proof. induction a as [|ev r IH]; intros s b; cbn [c_run app]; [reflexivity|apply IH]. Qed.

Lemma c_now_mono_step cfg s ev : c_now s <= c_now (fst (c_step cfg s ev)).
Proof.
  destruct ev as [k|k|k v e|k|k i v e| |dt]; cbn [c_step].
  - destruct (c_load_cases cfg s k) as [[_ ->]|[[_ ->]|[_ ->]]]; cbn; lia.
  - cbn; lia.
  - cbn; lia.
  - unfold c_start. destruct (c_take_first _ _) as [[g q']|]; cbn; lia.
  - unfold c_finish. destruct (c_take_nth _ _ _) as [[g q']|]; cbn; lia.
  - cbn; lia.
  - destruct (dt <? 0) eqn:E; cbn; lia.
Qed.

Lemma c_completed_later cfg evs evs' :
  let s := c_run cfg c_init evs in
  let s' := c_run cfg c_init (evs ++ evs') in
  c_now s <= c_now s' /\
  forall f x' v e u, c_get (c_futs s') f = Some x' -> c_fdone x' = Some (v, e, u) ->
    (exists x, c_get (c_futs s) f = Some x /\ c_fdone x = Some (v, e, u)) \/ c_now s <= u.
Proof.
  cbv zeta. induction evs' as [|ev l IH] using rev_ind.
  - rewrite app_nil_r. split; [lia|]. intros f x' v e u Hx Hd. left. exists x'. auto.
  - destruct IH as [Hn IH]. rewrite app_assoc, c_run_app. cbn [c_run].
    split.
    + pose proof (c_now_mono_step cfg (c_run cfg c_init (evs ++ l)) ev). lia.
    + intros f x' v e u Hx Hd.
      destruct (c_result_origin cfg (evs ++ l) ev f x' v e u Hx Hd) as [[x [Hx0 [Hd0 _]]]|[[i [x [_ [Hu _]]]]|[_ [Hu _]]]].
      * eapply IH; eauto.
      * right. lia.
      * right. lia.
Qed.

Lemma c_loading_resolves_later cfg evs evs' f x' v e u :
  let s := c_run cfg c_init evs in
  let s' := c_run cfg s evs' in
  (forall x, c_get (c_futs s) f = Some x -> c_fdone x = None) ->
  c_get (c_futs s') f = Some x' -> c_fdone x' = Some (v, e, u) -> c_now s <= u.
Proof.
  intros s s' Hl Hx Hd. subst s s'. rewrite <- c_run_app in Hx.
  destruct (c_completed_later cfg evs evs') as [_ H].
  destruct (H f x' v e u Hx Hd) as [[x [Hx0 Hd0]]|Hle]; [|exact Hle].
  specialize (Hl x Hx0). congruence.
Qed.
