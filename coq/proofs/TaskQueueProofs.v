(* TaskQueueProofs.v -- lemmas about models/TaskQueue.v (C09). *)
From Got Require Import Base TaskQueue.
Require Import Sorted.
Local Open Scope nat_scope.

(* ------------------------------------------------------------------ running *)
Lemma tq_final_cons : forall s a rest, tq_final s (a :: rest) = tq_final (fst (tq_step s a)) rest.
Proof.
  intros. unfold tq_final. cbn [tq_run]. destruct (tq_step s a) as [s1 e]. cbn [fst].
  destruct (tq_run s1 rest) as [s2 tr]. reflexivity.
Qed.

Lemma tq_trace_cons : forall s a rest,
  tq_trace s (a :: rest) = snd (tq_step s a) :: tq_trace (fst (tq_step s a)) rest.
Proof.
  intros. unfold tq_trace. cbn [tq_run]. destruct (tq_step s a) as [s1 e]. cbn [fst snd].
  destruct (tq_run s1 rest) as [s2 tr]. reflexivity.
Qed.

(* what an event adds to the channel / takes from it *)
Definition tq_ent_of (e : tq_ev) : list tq_task :=
  match e with TqESent _ t => [t] | TqERecv _ (Some it) => [snd it] | _ => [] end.
Definition tq_rcv_of (e : tq_ev) : list tq_task :=
  match e with TqERecv t _ => [t] | _ => [] end.

Ltac tq_break :=
  repeat match goal with
         | H : context [match ?x with _ => _ end] |- _ => destruct x eqn:?
         | H : (_, _) = (_, _) |- _ => inversion H; subst; clear H
         end.

Lemma tq_step_entered : forall s a s' e, tq_step s a = (s', e) ->
  tq_entered s' = tq_entered s ++ tq_ent_of e.
Proof.
  intros s a s' e H. unfold tq_step, tq_step_prod, tq_select, tq_with_prods in H.
  tq_break; cbn; rewrite ?app_nil_r; first [reflexivity | congruence].
Qed.

Lemma tq_step_received : forall s a s' e, tq_step s a = (s', e) ->
  tq_received s' = tq_received s ++ tq_rcv_of e.
Proof.
  intros s a s' e H. unfold tq_step, tq_step_prod, tq_select, tq_with_prods in H.
  tq_break; cbn; rewrite ?app_nil_r; first [reflexivity | congruence].
Qed.

Lemma tq_step_buf : forall s a s' e, tq_step s a = (s', e) ->
  match tq_rcv_of e with
  | [] => tq_buf s' = tq_buf s ++ tq_ent_of e
  | t :: _ => exists rest, tq_buf s = t :: rest /\ tq_buf s' = rest ++ tq_ent_of e
  end.
Proof.
  intros s a s' e H. unfold tq_step, tq_step_prod, tq_select, tq_with_prods in H.
  tq_break; cbn; rewrite ?app_nil_r; first [reflexivity | congruence | (eexists; split; [reflexivity | rewrite ?app_nil_r; reflexivity])].
Qed.

Lemma tq_step_cap : forall s a s' e, tq_step s a = (s', e) -> tq_cap s' = tq_cap s.
Proof.
  intros s a s' e H. unfold tq_step, tq_step_prod, tq_select, tq_with_prods in H.
  tq_break; reflexivity.
Qed.

(* ------------------------------------------------------------------ FIFO hand-over *)
Definition tq_fifo (s : tq_state) : Prop := tq_entered s = tq_received s ++ tq_buf s.

Lemma tq_fifo_step : forall s a s' e, tq_step s a = (s', e) -> tq_fifo s -> tq_fifo s'.
Proof.
  unfold tq_fifo. intros s a s' e H F.
  rewrite (tq_step_entered _ _ _ _ H), (tq_step_received _ _ _ _ H), F.
  pose proof (tq_step_buf _ _ _ _ H) as B. destruct (tq_rcv_of e) as [|t l] eqn:R.
  - rewrite B, app_nil_r, app_assoc. reflexivity.
  - destruct B as (rest & B1 & B2). rewrite B1, B2.
    assert (l = []) by (destruct e; cbn in R; inversion R; reflexivity). subst l.
    rewrite <- !app_assoc. reflexivity.
Qed.

Lemma tq_invariant_run : forall (P : tq_state -> Prop),
  (forall s a s' e, tq_step s a = (s', e) -> P s -> P s') ->
  forall sched s, P s -> P (tq_final s sched).
Proof.
  intros P Hstep. induction sched as [|a rest IH]; intros s Hs; [exact Hs|].
  rewrite tq_final_cons. apply IH. destruct (tq_step s a) as [s1 e] eqn:E. cbn [fst].
  eapply Hstep; eauto.
Qed.

Lemma tq_fifo_reachable : forall cap progs sched,
  tq_fifo (tq_final (tq_init cap progs) sched).
Proof. intros. apply tq_invariant_run; [exact tq_fifo_step | reflexivity]. Qed.

(* ------------------------------------------------------------------ step characterisation *)
Definition tq_op_task (i j : nat) (op : tq_op) : option tq_task :=
  match op with
  | TqCallback (Some h) => Some {| tq_id := (i, j); tq_kind_of := TqKCallback; tq_handler := h |}
  | TqTask (Some h) => Some {| tq_id := (i, j); tq_kind_of := TqKUser; tq_handler := h |}
  | _ => None
  end.

Definition tq_new_cbs (t : tq_task) : list tq_cb :=
  match tq_kind_of t with
  | TqKCallback => [{| tq_cb_id := tq_id t; tq_result := 0%Z; tq_err := 0%Z; tq_handled := false |}]
  | TqKUser => []
  end.

Definition tq_ret_prod (p : tq_prod) (rest : list tq_op) (pc : tq_ppc) (h : list tq_handle) : tq_prod :=
  {| tq_prog := rest; tq_next := S (tq_next p); tq_ppc_of := pc; tq_rets := tq_rets p ++ h |}.

Lemma tq_step_none : forall s a s', tq_step s a = (s', TqENone) -> s' = s.
Proof.
  intros s a s' H. unfold tq_step, tq_step_prod, tq_select, tq_with_prods in H.
  tq_break; reflexivity.
Qed.

(* a producer's call *)
Lemma tq_step_call : forall s i c s' e, tq_step s (TqProd i c) = (s', e) -> e <> TqENone ->
  exists p op rest, nth_error (tq_prods s) i = Some p /\ tq_ppc_of p = TqPIdle /\ tq_prog p = op :: rest /\
    tq_closed s' = tq_closed s /\ tq_cons s' = tq_cons s /\
    match tq_op_task i (tq_next p) op with
    | None =>
        tq_sendq s' = tq_sendq s /\ tq_cbs s' = tq_cbs s /\
        ((e = TqERetEmpty i /\ tq_prods s' = tq_set_prod (tq_prods s) i (tq_ret_prod p rest TqPIdle [TqHEmpty])) \/
         (e = TqERetNil i /\ tq_prods s' = tq_set_prod (tq_prods s) i (tq_ret_prod p rest TqPIdle [TqHNil])))
    | Some t =>
        tq_cbs s' = tq_cbs s ++ tq_new_cbs t /\
        ((e = TqESent i t /\ tq_sendq s' = tq_sendq s /\
          tq_prods s' = tq_set_prod (tq_prods s) i (tq_ret_prod p rest TqPIdle [TqHTask (tq_id t)])) \/
         (e = TqESkipped i t /\ tq_closed s = true /\ tq_sendq s' = tq_sendq s /\
          tq_prods s' = tq_set_prod (tq_prods s) i (tq_ret_prod p rest TqPIdle [TqHTask (tq_id t)])) \/
         (e = TqEBlocked i t /\ tq_closed s = false /\ tq_sendq s' = tq_sendq s ++ [(i, t)] /\
          tq_prods s' = tq_set_prod (tq_prods s) i (tq_ret_prod p rest (TqPBlocked t) [])))
    end.
Proof.
  intros s i c s' e H Hne. cbn [tq_step] in H. unfold tq_step_prod in H.
  destruct (nth_error (tq_prods s) i) as [p|] eqn:Ep; [|inversion H; subst; congruence].
  destruct (tq_ppc_of p) eqn:Epc; [|inversion H; subst; congruence].
  destruct (tq_prog p) as [|op rest] eqn:Epr; [inversion H; subst; congruence|].
  exists p, op, rest. split; [reflexivity|]. split; [exact Epc|]. split; [exact Epr|].
  unfold tq_ret_prod.
  destruct op as [[h|]|[h|]]; cbn [tq_op_task].
  - unfold tq_select in H. unfold tq_new_cbs. cbn [tq_kind_of tq_id].
    destruct ((negb (tq_closed s) || c) && (length (tq_buf s) <? tq_cap s)) eqn:E1.
    + inversion H; subst. cbn. rewrite app_nil_r. repeat split. left. repeat split.
    + destruct (tq_closed s) eqn:E2; inversion H; subst; cbn; rewrite ?app_nil_r; repeat split.
      * right. left. repeat split.
      * right. right. repeat split.
  - inversion H; subst. cbn. repeat split. left. split; reflexivity.
  - unfold tq_select in H. unfold tq_new_cbs. cbn [tq_kind_of tq_id].
    destruct ((negb (tq_closed s) || c) && (length (tq_buf s) <? tq_cap s)) eqn:E1.
    + inversion H; subst. cbn. rewrite app_nil_r. repeat split. left. repeat split.
    + destruct (tq_closed s) eqn:E2; inversion H; subst; cbn; rewrite ?app_nil_r; repeat split.
      * right. left. repeat split.
      * right. right. repeat split.
  - inversion H; subst. cbn. repeat split. right. split; reflexivity.
Qed.

Lemma tq_step_recv : forall s k s' e, tq_step s (TqRecv k) = (s', e) -> e <> TqENone ->
  exists t adm, e = TqERecv t adm /\ tq_cons s = TqCIdle /\ tq_cons s' = TqCGot t /\
    tq_closed s' = tq_closed s /\ tq_cbs s' = tq_cbs s /\
    match adm with
    | None => tq_sendq s = [] /\ tq_sendq s' = [] /\ tq_prods s' = tq_prods s
    | Some it => exists k', nth_error (tq_sendq s) k' = Some it /\
                   tq_sendq s' = tq_remove_nth k' (tq_sendq s) /\ tq_prods s' = tq_unblock (tq_prods s) it
    end.
Proof.
  intros s k s' e H Hne. cbn [tq_step] in H.
  destruct (tq_cons s) eqn:Ec; try (inversion H; subst; congruence).
  destruct (tq_buf s) as [|t rest] eqn:Eb; [inversion H; subst; congruence|].
  destruct (nth_error (tq_sendq s) (if k <? length (tq_sendq s) then k else 0)) as [it|] eqn:En;
    inversion H; subst; cbn.
  - exists t, (Some it). repeat split. eexists. repeat split. exact En.
  - exists t, None. repeat split.
    + destruct (tq_sendq s) as [|x l] eqn:Es; [reflexivity|]. exfalso.
      destruct (k <? length (x :: l)) eqn:Ek.
      * apply Nat.ltb_lt in Ek. apply nth_error_None in En. lia.
      * cbn in En. discriminate En.
    + destruct (tq_sendq s) as [|x l] eqn:Es; [reflexivity|]. exfalso.
      destruct (k <? length (x :: l)) eqn:Ek.
      * apply Nat.ltb_lt in Ek. apply nth_error_None in En. lia.
      * cbn in En. discriminate En.
Qed.

Lemma tq_step_exec : forall s a s' e, (a = TqStore \/ a = TqDone) -> tq_step s a = (s', e) ->
  tq_prods s' = tq_prods s /\ tq_sendq s' = tq_sendq s /\ tq_closed s' = tq_closed s.
Proof.
  intros s a s' e [-> | ->] H; cbn [tq_step] in H; destruct (tq_cons s); inversion H; subst; auto.
Qed.

Lemma tq_step_close : forall s s' e, tq_step s TqClose = (s', e) -> e <> TqENone ->
  tq_closed s = false /\ tq_closed s' = true /\ tq_sendq s' = [] /\ tq_prods s' = map tq_wake (tq_prods s) /\
  tq_cbs s' = tq_cbs s /\ tq_cons s' = tq_cons s /\ e = TqEClose (tq_sendq s).
Proof.
  intros s s' e H Hne. cbn [tq_step] in H. destruct (tq_closed s) eqn:E; inversion H; subst; [congruence|].
  cbn. repeat split.
Qed.

(* ------------------------------------------------------------------ list surgery *)
Lemma tq_set_prod_length : forall ps i p, i < length ps -> length (tq_set_prod ps i p) = length ps.
Proof.
  intros ps i p H. unfold tq_set_prod. rewrite app_length, firstn_length. cbn [length].
  rewrite skipn_length. lia.
Qed.

Lemma tq_set_prod_nth : forall ps i p k, i < length ps ->
  nth_error (tq_set_prod ps i p) k = if k =? i then Some p else nth_error ps k.
Proof.
  induction ps as [|x ps IH]; intros i p k H; [cbn in H; lia|].
  destruct i as [|i].
  - unfold tq_set_prod. cbn. destruct k; reflexivity.
  - unfold tq_set_prod in *. cbn [firstn skipn app]. destruct k as [|k]; [reflexivity|].
    cbn [nth_error]. rewrite IH by (cbn in H; lia). reflexivity.
Qed.

Lemma tq_nth_lt : forall (A : Type) (l : list A) i x, nth_error l i = Some x -> i < length l.
Proof. intros A l i x H. apply nth_error_Some. congruence. Qed.

Lemma tq_ids_of_app : forall i l1 l2, tq_ids_of i (l1 ++ l2) = tq_ids_of i l1 ++ tq_ids_of i l2.
Proof. intros. unfold tq_ids_of. rewrite filter_app, map_app. reflexivity. Qed.

Lemma tq_ids_of_one : forall i t, tq_ids_of i [t] = if fst (tq_id t) =? i then [tq_id t] else [].
Proof. intros. unfold tq_ids_of, tq_owner. cbn. destruct (fst (tq_id t) =? i); reflexivity. Qed.

Lemma tq_ret_ids_app : forall a b, tq_ret_ids (a ++ b) = tq_ret_ids a ++ tq_ret_ids b.
Proof. intros. unfold tq_ret_ids. apply flat_map_app. Qed.

Lemma tq_ss_snoc : forall l n, StronglySorted lt l -> (forall x, In x l -> x < n) -> StronglySorted lt (l ++ [n]).
Proof.
  induction l as [|y l IH]; intros n H Hb; cbn [app].
  - constructor; constructor.
  - inversion H as [|? ? Hs Hf]; subst. constructor.
    + apply IH; [exact Hs|]. intros x Hx. apply Hb. right. exact Hx.
    + apply Forall_app. split; [exact Hf|]. constructor; [apply Hb; left; reflexivity | constructor].
Qed.

Lemma tq_nth_split : forall (A : Type) (l : list A) k x, nth_error l k = Some x ->
  l = firstn k l ++ x :: skipn (S k) l.
Proof.
  induction l as [|y l IH]; intros k x H; destruct k; cbn in *; try discriminate.
  - inversion H; reflexivity.
  - f_equal. apply IH. exact H.
Qed.

(* ------------------------------------------------------------------ the producer/channel invariant *)
Definition tq_lim (p : tq_prod) : nat :=
  match tq_ppc_of p with TqPBlocked t => snd (tq_id t) | TqPIdle => tq_next p end.
Definition tq_blk_ids (p : tq_prod) : list tq_tid :=
  match tq_ppc_of p with TqPBlocked t => [tq_id t] | TqPIdle => [] end.

Record tq_inv (progs : list (list tq_op)) (s : tq_state) : Prop := {
  inv_blk : forall i p tb, nth_error (tq_prods s) i = Some p -> tq_ppc_of p = TqPBlocked tb ->
      tq_id tb = (i, pred (tq_next p)) /\ 1 <= tq_next p /\ tq_closed s = false;
  inv_open : forall i p, nth_error (tq_prods s) i = Some p -> tq_closed s = false ->
      tq_ret_ids (tq_rets p) = tq_ids_of i (tq_entered s) /\
      tq_sends_from i 0 (nth i progs []) =
        tq_ids_of i (tq_entered s) ++ tq_blk_ids p ++ tq_sends_from i (tq_next p) (tq_prog p);
  inv_bound : forall t, In t (tq_entered s) ->
      exists p, nth_error (tq_prods s) (fst (tq_id t)) = Some p /\ snd (tq_id t) < tq_lim p;
  inv_sendq : forall i tb, In (i, tb) (tq_sendq s) ->
      exists p, nth_error (tq_prods s) i = Some p /\ tq_ppc_of p = TqPBlocked tb;
  inv_sendq_nodup : NoDup (map fst (tq_sendq s));
  inv_nodup : NoDup (map tq_id (tq_entered s));
  inv_sorted : forall i, StronglySorted lt (map snd (tq_ids_of i (tq_entered s)))
}.

Lemma tq_inv_ext : forall progs s s',
  tq_prods s' = tq_prods s -> tq_sendq s' = tq_sendq s -> tq_closed s' = tq_closed s ->
  tq_entered s' = tq_entered s -> tq_inv progs s -> tq_inv progs s'.
Proof.
  intros progs s s' Hp Hq Hc He [A B C D E F G].
  constructor; rewrite ?Hp, ?Hq, ?Hc, ?He; assumption.
Qed.

Lemma NoDup_app_snoc : forall (A : Type) (l : list A) x, NoDup l -> ~ In x l -> NoDup (l ++ [x]).
Proof.
  induction l as [|y l IH]; intros x H Hn; cbn [app].
  - constructor; [intros [] | constructor].
  - inversion H; subst. constructor.
    + intros Hin. apply in_app_iff in Hin. destruct Hin as [Hin|[->|[]]]; [tauto|]. apply Hn. left. reflexivity.
    + apply IH; [assumption|]. intros Hin. apply Hn. right. exact Hin.
Qed.

(* adding a task whose index exceeds those of its producer's earlier tasks *)
Lemma tq_add_entered : forall E t,
  NoDup (map tq_id E) -> (forall i, StronglySorted lt (map snd (tq_ids_of i E))) ->
  (forall t0, In t0 E -> fst (tq_id t0) = fst (tq_id t) -> snd (tq_id t0) < snd (tq_id t)) ->
  NoDup (map tq_id (E ++ [t])) /\ (forall i, StronglySorted lt (map snd (tq_ids_of i (E ++ [t])))).
Proof.
  intros E t Hnd Hss Hb. split.
  - rewrite map_app. cbn [map]. apply NoDup_app_snoc; [exact Hnd|].
    intros Hin. apply in_map_iff in Hin. destruct Hin as (t0 & He & Hin).
    specialize (Hb t0 Hin). rewrite He in Hb. specialize (Hb eq_refl). lia.
  - intros i. rewrite tq_ids_of_app, tq_ids_of_one, map_app.
    destruct (fst (tq_id t) =? i) eqn:Ei; [|cbn; rewrite app_nil_r; apply Hss].
    apply Nat.eqb_eq in Ei. cbn [map]. apply tq_ss_snoc; [apply Hss|].
    intros x Hx. apply in_map_iff in Hx. destruct Hx as (id0 & <- & Hx).
    unfold tq_ids_of in Hx. apply in_map_iff in Hx. destruct Hx as (t0 & <- & Hx).
    apply filter_In in Hx. destruct Hx as [Hx Ho]. unfold tq_owner in Ho. apply Nat.eqb_eq in Ho.
    apply Hb; [exact Hx | congruence].
Qed.

Lemma tq_ids_of_other : forall k newE i n,
  (newE = [] \/ exists t, newE = [t] /\ tq_id t = (i, n)) -> k <> i -> tq_ids_of k newE = [].
Proof.
  intros k newE i n [->|(t & -> & Ht)] Hk; [reflexivity|].
  rewrite tq_ids_of_one, Ht. cbn [fst]. destruct (i =? k) eqn:E; [apply Nat.eqb_eq in E; congruence | reflexivity].
Qed.

Lemma tq_ids_of_own : forall newE i n,
  (newE = [] \/ exists t, newE = [t] /\ tq_id t = (i, n)) -> tq_ids_of i newE = map tq_id newE.
Proof.
  intros newE i n [->|(t & -> & Ht)]; [reflexivity|].
  rewrite tq_ids_of_one, Ht. cbn [fst map]. rewrite Nat.eqb_refl, Ht. reflexivity.
Qed.

(* an idle producer makes a call *)
Lemma tq_inv_set : forall progs s s' i p p' newE newQ,
  tq_inv progs s -> nth_error (tq_prods s) i = Some p -> tq_ppc_of p = TqPIdle ->
  tq_prods s' = tq_set_prod (tq_prods s) i p' -> tq_closed s' = tq_closed s ->
  tq_entered s' = tq_entered s ++ newE -> tq_sendq s' = tq_sendq s ++ newQ ->
  tq_next p' = S (tq_next p) ->
  (newE = [] \/ exists t, newE = [t] /\ tq_id t = (i, tq_next p)) ->
  match tq_ppc_of p' with
  | TqPBlocked tb => tq_id tb = (i, tq_next p) /\ tq_closed s = false /\ newQ = [(i, tb)] /\ newE = []
  | TqPIdle => newQ = []
  end ->
  (tq_closed s = false ->
     tq_ret_ids (tq_rets p') = tq_ret_ids (tq_rets p) ++ map tq_id newE /\
     tq_sends_from i (tq_next p) (tq_prog p) =
       map tq_id newE ++ tq_blk_ids p' ++ tq_sends_from i (S (tq_next p)) (tq_prog p')) ->
  tq_inv progs s'.
Proof.
  intros progs s s' i p p' newE newQ [A B C D E F G] Ep Epc Hp Hc He Hq Hn HE Hpc Hop.
  assert (Hi : i < length (tq_prods s)) by (eapply tq_nth_lt; exact Ep).
  assert (Hnth : forall k, nth_error (tq_prods s') k = if k =? i then Some p' else nth_error (tq_prods s) k).
  { intros k. rewrite Hp. apply tq_set_prod_nth. exact Hi. }
  assert (Hnotq : forall tb, ~ In (i, tb) (tq_sendq s)).
  { intros tb Hin. destruct (D _ _ Hin) as (q & Hq1 & Hq2). rewrite Ep in Hq1. inversion Hq1; subst. congruence. }
  assert (Hlim : forall t0, In t0 (tq_entered s) -> fst (tq_id t0) = i -> snd (tq_id t0) < tq_next p).
  { intros t0 Hin Hf. destruct (C _ Hin) as (q & Hq1 & Hq2). rewrite Hf, Ep in Hq1. inversion Hq1; subst q.
    unfold tq_lim in Hq2. rewrite Epc in Hq2. exact Hq2. }
  constructor.
  - intros k q tb Hk Hb. rewrite Hnth in Hk. destruct (k =? i) eqn:Ek.
    + apply Nat.eqb_eq in Ek. subst k. inversion Hk; subst q. rewrite Hb in Hpc.
      destruct Hpc as (H1 & H2 & _). rewrite Hn, Hc. cbn [pred]. repeat split; [exact H1 | lia | exact H2].
    + rewrite Hc. eapply A; eauto.
  - intros k q Hk Hcl. rewrite Hc in Hcl. rewrite Hnth in Hk. rewrite He, tq_ids_of_app.
    destruct (k =? i) eqn:Ek.
    + apply Nat.eqb_eq in Ek. subst k. inversion Hk; subst q.
      destruct (B _ _ Ep Hcl) as [B1 B2]. destruct (Hop Hcl) as [O1 O2].
      rewrite (tq_ids_of_own _ _ _ HE). split.
      * rewrite O1, B1. reflexivity.
      * rewrite B2. unfold tq_blk_ids at 1. rewrite Epc. cbn [app]. rewrite O2, Hn.
        rewrite <- !app_assoc. reflexivity.
    + apply Nat.eqb_neq in Ek. rewrite (tq_ids_of_other _ _ _ _ HE Ek), app_nil_r. apply B; assumption.
  - intros t0 Hin. rewrite He in Hin. apply in_app_iff in Hin. rewrite Hnth.
    destruct Hin as [Hin|Hin].
    + destruct (fst (tq_id t0) =? i) eqn:Ek.
      * apply Nat.eqb_eq in Ek. exists p'. split; [reflexivity|]. specialize (Hlim _ Hin Ek).
        unfold tq_lim. destruct (tq_ppc_of p') as [|tb]; [lia|]. destruct Hpc as (H1 & _). rewrite H1. cbn. exact Hlim.
      * apply C. exact Hin.
    + destruct HE as [->|(t & -> & Ht)]; [destruct Hin|]. destruct Hin as [<-|[]].
      rewrite Ht. cbn [fst snd]. rewrite Nat.eqb_refl. exists p'. split; [reflexivity|].
      unfold tq_lim. destruct (tq_ppc_of p') as [|tb]; [lia|]. destruct Hpc as (_ & _ & _ & Hx). discriminate Hx.
  - intros k tb Hin. rewrite Hq in Hin. apply in_app_iff in Hin. rewrite Hnth. destruct Hin as [Hin|Hin].
    + destruct (k =? i) eqn:Ek; [apply Nat.eqb_eq in Ek; subst k; exfalso; eapply Hnotq; exact Hin|].
      apply D. exact Hin.
    + destruct (tq_ppc_of p') as [|tb0] eqn:Epc'; [subst newQ; destruct Hin|].
      destruct Hpc as (_ & _ & -> & _). destruct Hin as [Hin|[]]. inversion Hin; subst. rewrite Nat.eqb_refl.
      exists p'. split; [reflexivity | exact Epc'].
  - rewrite Hq, map_app. destruct (tq_ppc_of p') as [|tb0]; [subst newQ; cbn; rewrite app_nil_r; exact E|].
    destruct Hpc as (_ & _ & -> & _). cbn [map fst]. apply NoDup_app_snoc; [exact E|].
    intros Hin. apply in_map_iff in Hin. destruct Hin as ([k tb] & Hk & Hin). cbn in Hk. subst k. eapply Hnotq; exact Hin.
  - rewrite He. destruct HE as [->|(t & -> & Ht)]; [rewrite app_nil_r; exact F|].
    apply tq_add_entered; auto. intros t0 Hin Hf. rewrite Ht in *. cbn [fst snd] in *. apply Hlim; assumption.
  - rewrite He. destruct HE as [->|(t & -> & Ht)]; [rewrite app_nil_r; exact G|].
    apply tq_add_entered; auto. intros t0 Hin Hf. rewrite Ht in *. cbn [fst snd] in *. apply Hlim; assumption.
Qed.

Lemma tq_ev_none_dec : forall e : tq_ev, e = TqENone \/ e <> TqENone.
Proof. intros e. destruct e; auto; right; discriminate. Qed.

Lemma tq_inv_call : forall progs s i c s' e,
  tq_inv progs s -> tq_step s (TqProd i c) = (s', e) -> tq_inv progs s'.
Proof.
  intros progs s i c s' e Hinv H.
  destruct (tq_ev_none_dec e) as [->|Hne]; [apply tq_step_none in H; subst; exact Hinv|].
  pose proof (tq_step_entered _ _ _ _ H) as He.
  destruct (tq_step_call _ _ _ _ _ H Hne) as (p & op & rest & Ep & Epc & Epr & Hc & _ & Hm).
  destruct (tq_op_task i (tq_next p) op) as [t|] eqn:Eop.
  - assert (Ht : tq_id t = (i, tq_next p)).
    { destruct op as [[h|]|[h|]]; cbn in Eop; inversion Eop; reflexivity. }
    assert (Hsf : tq_sends_from i (tq_next p) (op :: rest) = (i, tq_next p) :: tq_sends_from i (S (tq_next p)) rest).
    { destruct op as [[h|]|[h|]]; cbn in Eop; try discriminate Eop; reflexivity. }
    destruct Hm as (_ & [(-> & Hq & Hp) | [(-> & Hcl & Hq & Hp) | (-> & Hcl & Hq & Hp)]]).
    + eapply tq_inv_set with (newE := [t]) (newQ := []); eauto.
      * rewrite app_nil_r. exact Hq.
      * cbn. reflexivity.
      * intros _. cbn [tq_ret_prod tq_rets tq_prog map app]. rewrite tq_ret_ids_app. cbn. split; [rewrite Ht; reflexivity|].
        rewrite Epr, Hsf, Ht. unfold tq_blk_ids. cbn. reflexivity.
    + eapply tq_inv_set with (newE := []) (newQ := []); eauto.
      * rewrite app_nil_r. exact Hq.
      * cbn. reflexivity.
      * intros Hx. congruence.
    + eapply tq_inv_set with (newE := []) (newQ := [(i, t)]); eauto.
      * cbn. auto.
      * intros _. cbn [tq_ret_prod tq_rets tq_prog map app]. rewrite app_nil_r. split; [rewrite app_nil_r; reflexivity|].
        rewrite Epr, Hsf. unfold tq_blk_ids. cbn. rewrite Ht. reflexivity.
  - assert (Hsf : tq_sends_from i (tq_next p) (op :: rest) = tq_sends_from i (S (tq_next p)) rest).
    { destruct op as [[h|]|[h|]]; cbn in Eop; try discriminate Eop; reflexivity. }
    destruct Hm as (Hq & _ & [(-> & Hp) | (-> & Hp)]).
    + eapply tq_inv_set with (newE := []) (newQ := []); eauto.
      * rewrite app_nil_r. exact Hq.
      * cbn. reflexivity.
      * intros _. cbn [tq_ret_prod tq_rets tq_prog map app]. rewrite tq_ret_ids_app. cbn. rewrite !app_nil_r.
        split; [reflexivity|]. rewrite Epr, Hsf. reflexivity.
    + eapply tq_inv_set with (newE := []) (newQ := []); eauto.
      * rewrite app_nil_r. exact Hq.
      * cbn. reflexivity.
      * intros _. cbn [tq_ret_prod tq_rets tq_prog map app]. rewrite tq_ret_ids_app. cbn. rewrite !app_nil_r.
        split; [reflexivity|]. rewrite Epr, Hsf. reflexivity.
Qed.

Lemma tq_remove_nth_in : forall (A : Type) (l : list A) k x, In x (tq_remove_nth k l) -> In x l.
Proof.
  induction l as [|y l IH]; intros k x H; unfold tq_remove_nth in *.
  - destruct k; cbn in H; exact H.
  - destruct k as [|k]; cbn [firstn skipn app] in H.
    + right. exact H.
    + destruct H as [->|H]; [left; reflexivity | right; eapply IH; exact H].
Qed.

Lemma tq_inv_recv : forall progs s k s' e,
  tq_inv progs s -> tq_step s (TqRecv k) = (s', e) -> tq_inv progs s'.
Proof.
  intros progs s k s' e Hinv H.
  destruct (tq_ev_none_dec e) as [->|Hne]; [apply tq_step_none in H; subst; exact Hinv|].
  pose proof (tq_step_entered _ _ _ _ H) as He.
  destruct (tq_step_recv _ _ _ _ H Hne) as (t & adm & -> & _ & _ & Hc & _ & Hm).
  destruct adm as [[i' t']|].
  - destruct Hm as (k' & Hk' & Hq & Hp). cbn [tq_ent_of snd] in He.
    destruct Hinv as [A B C D E F G].
    assert (Hin : In (i', t') (tq_sendq s)) by (eapply nth_error_In; exact Hk').
    destruct (D _ _ Hin) as (p & Ep & Epc).
    destruct (A _ _ _ Ep Epc) as (Hid & Hn1 & Hopen).
    assert (Hi : i' < length (tq_prods s)) by (eapply tq_nth_lt; exact Ep).
    set (p' := {| tq_prog := tq_prog p; tq_next := tq_next p; tq_ppc_of := TqPIdle;
                  tq_rets := tq_rets p ++ [TqHTask (tq_id t')] |}).
    assert (Hp' : tq_prods s' = tq_set_prod (tq_prods s) i' p').
    { rewrite Hp. unfold tq_unblock. cbn [fst snd]. rewrite Ep. reflexivity. }
    assert (Hnth : forall j, nth_error (tq_prods s') j = if j =? i' then Some p' else nth_error (tq_prods s) j).
    { intros j. rewrite Hp'. apply tq_set_prod_nth. exact Hi. }
    assert (Hlim : forall t0, In t0 (tq_entered s) -> fst (tq_id t0) = i' -> snd (tq_id t0) < pred (tq_next p)).
    { intros t0 Hin0 Hf. destruct (C _ Hin0) as (q & Hq1 & Hq2). rewrite Hf, Ep in Hq1. inversion Hq1; subst q.
      unfold tq_lim in Hq2. rewrite Epc, Hid in Hq2. exact Hq2. }
    assert (Hsplit : tq_sendq s = firstn k' (tq_sendq s) ++ (i', t') :: skipn (S k') (tq_sendq s))
      by (apply tq_nth_split; exact Hk').
    assert (Hnd : NoDup (map fst (tq_sendq s'))).
    { rewrite Hq. unfold tq_remove_nth. rewrite Hsplit in E. rewrite map_app in *. cbn [map] in E.
      eapply NoDup_remove_1. exact E. }
    assert (Hother : forall j tb, In (j, tb) (tq_sendq s') -> j <> i').
    { intros j tb Hj ->. rewrite Hq in Hj. unfold tq_remove_nth in Hj.
      rewrite Hsplit in E. rewrite map_app in E. cbn [map fst] in E. apply NoDup_remove_2 in E. apply E.
      rewrite <- map_app. apply in_map_iff. exists (i', tb). split; [reflexivity | exact Hj]. }
    constructor.
    + intros j q tb Hj Hb. rewrite Hnth in Hj. destruct (j =? i') eqn:Ej.
      * inversion Hj; subst q. cbn in Hb. discriminate Hb.
      * rewrite Hc. eapply A; eauto.
    + intros j q Hj Hcl. rewrite Hc in Hcl. rewrite Hnth in Hj. rewrite He, tq_ids_of_app, tq_ids_of_one, Hid. cbn [fst].
      destruct (j =? i') eqn:Ej.
      * apply Nat.eqb_eq in Ej. subst j. inversion Hj; subst q. rewrite Nat.eqb_refl.
        destruct (B _ _ Ep Hcl) as [B1 B2]. cbn [p' tq_rets tq_prog tq_next]. rewrite tq_ret_ids_app. cbn.
        split; [rewrite B1, ?Hid; reflexivity|]. rewrite B2. unfold tq_blk_ids. rewrite Epc. cbn. rewrite ?Hid.
        rewrite <- app_assoc. reflexivity.
      * apply Nat.eqb_neq in Ej. destruct (i' =? j) eqn:Ej2; [apply Nat.eqb_eq in Ej2; congruence|].
        rewrite app_nil_r. apply B; assumption.
    + intros t0 Hin0. rewrite He in Hin0. apply in_app_iff in Hin0. rewrite Hnth. destruct Hin0 as [Hin0|[<-|[]]].
      * destruct (fst (tq_id t0) =? i') eqn:Ek.
        -- apply Nat.eqb_eq in Ek. exists p'. split; [reflexivity|]. specialize (Hlim _ Hin0 Ek).
           unfold tq_lim. cbn. lia.
        -- apply C. exact Hin0.
      * rewrite Hid. cbn [fst snd]. rewrite Nat.eqb_refl. exists p'. split; [reflexivity|]. unfold tq_lim. cbn. lia.
    + intros j tb Hj. pose proof (Hother _ _ Hj) as Hne'. rewrite Hnth.
      destruct (j =? i') eqn:Ej; [apply Nat.eqb_eq in Ej; congruence|].
      apply D. rewrite Hq in Hj. eapply tq_remove_nth_in. exact Hj.
    + exact Hnd.
    + rewrite He. apply tq_add_entered; auto. intros t0 Hin0 Hf. rewrite Hid in *. cbn [fst snd] in *. apply Hlim; assumption.
    + rewrite He. apply tq_add_entered; auto. intros t0 Hin0 Hf. rewrite Hid in *. cbn [fst snd] in *. apply Hlim; assumption.
  - destruct Hm as (Hq1 & Hq2 & Hp). cbn [tq_ent_of] in He. rewrite app_nil_r in He.
    eapply tq_inv_ext; eauto. congruence.
Qed.

Lemma tq_inv_close : forall progs s s' e,
  tq_inv progs s -> tq_step s TqClose = (s', e) -> tq_inv progs s'.
Proof.
  intros progs s s' e Hinv H.
  destruct (tq_ev_none_dec e) as [->|Hne]; [apply tq_step_none in H; subst; exact Hinv|].
  pose proof (tq_step_entered _ _ _ _ H) as He.
  destruct (tq_step_close _ _ _ H Hne) as (Hc0 & Hc1 & Hq & Hp & _ & _ & ->).
  cbn [tq_ent_of] in He. rewrite app_nil_r in He.
  destruct Hinv as [A B C D E F G].
  constructor; rewrite ?He; auto.
  - intros i p tb Hi Hb. rewrite Hp, nth_error_map in Hi. destruct (nth_error (tq_prods s) i) as [q|]; [|discriminate Hi].
    cbn in Hi. inversion Hi; subst p. unfold tq_wake in Hb. destruct (tq_ppc_of q) eqn:Eq; cbn in Hb; congruence.
  - intros i p _ Hx. congruence.
  - intros t Hin. destruct (C _ Hin) as (q & Hq1 & Hq2). exists (tq_wake q). rewrite Hp, nth_error_map, Hq1.
    split; [reflexivity|]. unfold tq_lim, tq_wake in *. destruct (tq_ppc_of q) as [|tb] eqn:Eq; cbn; [rewrite Eq; exact Hq2|].
    destruct (A _ _ _ Hq1 Eq) as (Hid & Hn & _). rewrite Hid in Hq2. cbn in Hq2. lia.
  - rewrite Hq. intros i tb [].
  - rewrite Hq. constructor.
Qed.

Lemma tq_inv_step : forall progs s a s' e, tq_step s a = (s', e) -> tq_inv progs s -> tq_inv progs s'.
Proof.
  intros progs s a s' e H Hinv. destruct a.
  - eapply tq_inv_call; eauto.
  - eapply tq_inv_recv; eauto.
  - pose proof (tq_step_entered _ _ _ _ H) as He.
    destruct (tq_step_exec s TqStore s' e (or_introl eq_refl) H) as (Hp & Hq & Hc).
    eapply tq_inv_ext; eauto. rewrite He.
    cbn [tq_step] in H. destruct (tq_cons s); inversion H; subst; cbn; apply app_nil_r.
  - pose proof (tq_step_entered _ _ _ _ H) as He.
    destruct (tq_step_exec s TqDone s' e (or_intror eq_refl) H) as (Hp & Hq & Hc).
    eapply tq_inv_ext; eauto. rewrite He.
    cbn [tq_step] in H. destruct (tq_cons s); inversion H; subst; cbn; apply app_nil_r.
  - eapply tq_inv_close; eauto.
Qed.

Lemma tq_inv_init : forall cap progs, tq_inv progs (tq_init cap progs).
Proof.
  intros cap progs. constructor; cbn.
  - intros i p tb Hi Hb. rewrite nth_error_map in Hi. destruct (nth_error progs i); [|discriminate Hi].
    cbn in Hi. inversion Hi; subst p. discriminate Hb.
  - intros i p Hi _. rewrite nth_error_map in Hi. destruct (nth_error progs i) as [pr|] eqn:En; [|discriminate Hi].
    cbn in Hi. inversion Hi; subst p. cbn. split; [reflexivity|].
    unfold tq_blk_ids. cbn. rewrite (nth_error_nth _ _ _ En). reflexivity.
  - intros t [].
  - intros i tb [].
  - constructor.
  - constructor.
  - intros i. constructor.
Qed.

Lemma tq_inv_reachable : forall cap progs sched, tq_inv progs (tq_final (tq_init cap progs) sched).
Proof.
  intros. apply (tq_invariant_run (tq_inv progs)); [intros; eapply tq_inv_step; eauto | apply tq_inv_init].
Qed.

(* ------------------------------------------------------------------ consequences *)
Lemma tq_ss_lt_app_l : forall l1 l2 : list nat, StronglySorted lt (l1 ++ l2) -> StronglySorted lt l1.
Proof.
  induction l1 as [|x l1 IH]; intros l2 H; [constructor|].
  cbn [app] in H. inversion H as [|? ? Hs Hf]; subst. constructor; [eapply IH; eauto|].
  apply Forall_app in Hf. tauto.
Qed.

Lemma tq_nodup_app_l : forall (A : Type) (l1 l2 : list A), NoDup (l1 ++ l2) -> NoDup l1.
Proof.
  induction l1 as [|x l1 IH]; intros l2 H; [constructor|].
  cbn [app] in H. inversion H; subst. constructor; [|eapply IH; eauto].
  intros Hin. apply H2. apply in_app_iff. left. exact Hin.
Qed.

Lemma tq_exactly_once_l : forall cap progs sched,
  let s := tq_final (tq_init cap progs) sched in
  tq_entered s = tq_received s ++ tq_buf s /\ NoDup (map tq_id (tq_entered s)) /\
  NoDup (map tq_id (tq_received s)).
Proof.
  intros cap progs sched s. pose proof (tq_fifo_reachable cap progs sched) as Hf.
  pose proof (inv_nodup _ _ (tq_inv_reachable cap progs sched)) as Hn. fold s in Hf, Hn.
  split; [exact Hf|]. split; [exact Hn|]. rewrite Hf, map_app in Hn. eapply tq_nodup_app_l. exact Hn.
Qed.

Lemma tq_ids_of_absent : forall progs s i, tq_inv progs s -> nth_error (tq_prods s) i = None ->
  tq_ids_of i (tq_entered s) = [].
Proof.
  intros progs s i Hinv Hn. unfold tq_ids_of.
  assert (H : filter (tq_owner i) (tq_entered s) = []); [|rewrite H; reflexivity].
  destruct (filter (tq_owner i) (tq_entered s)) as [|t l] eqn:E; [reflexivity|]. exfalso.
  assert (Hin : In t (filter (tq_owner i) (tq_entered s))) by (rewrite E; left; reflexivity).
  apply filter_In in Hin. destruct Hin as [Hin Ho]. unfold tq_owner in Ho. apply Nat.eqb_eq in Ho.
  destruct (inv_bound _ _ Hinv _ Hin) as (p & Hp & _). congruence.
Qed.

Lemma tq_per_producer_order_l : forall cap progs sched i,
  let s := tq_final (tq_init cap progs) sched in
  (exists rest, tq_ids_of i (tq_entered s) = tq_ids_of i (tq_received s) ++ rest) /\
  StronglySorted lt (map snd (tq_ids_of i (tq_received s))) /\
  (tq_closed s = false ->
   exists rest, tq_sends_from i 0 (nth i progs []) = tq_ids_of i (tq_received s) ++ rest).
Proof.
  intros cap progs sched i s. pose proof (tq_fifo_reachable cap progs sched) as Hf.
  pose proof (tq_inv_reachable cap progs sched) as Hinv. fold s in Hf, Hinv.
  assert (H1 : tq_ids_of i (tq_entered s) = tq_ids_of i (tq_received s) ++ tq_ids_of i (tq_buf s)).
  { rewrite Hf. apply tq_ids_of_app. }
  split; [eexists; exact H1|]. split.
  - pose proof (inv_sorted _ _ Hinv i) as Hs. rewrite H1, map_app in Hs. eapply tq_ss_lt_app_l. exact Hs.
  - intros Hc. destruct (nth_error (tq_prods s) i) as [p|] eqn:Ep.
    + destruct (inv_open _ _ Hinv _ _ Ep Hc) as [_ B2]. rewrite B2, H1, <- app_assoc. eexists. reflexivity.
    + pose proof (tq_ids_of_absent _ _ _ Hinv Ep) as Ha. rewrite H1 in Ha. apply app_eq_nil in Ha.
      destruct Ha as [Ha _]. rewrite Ha. cbn [app]. eexists. reflexivity.
Qed.

Lemma tq_none_dropped_l : forall cap progs sched i p,
  let s := tq_final (tq_init cap progs) sched in
  tq_closed s = false -> nth_error (tq_prods s) i = Some p ->
  tq_ret_ids (tq_rets p) = tq_ids_of i (tq_received s ++ tq_buf s).
Proof.
  intros cap progs sched i p s Hc Ep. pose proof (tq_fifo_reachable cap progs sched) as Hf.
  pose proof (tq_inv_reachable cap progs sched) as Hinv. fold s in Hf, Hinv.
  rewrite <- Hf. exact (proj1 (inv_open _ _ Hinv _ _ Ep Hc)).
Qed.

Lemma tq_call_enabled : forall s i c p, nth_error (tq_prods s) i = Some p -> tq_ppc_of p = TqPIdle ->
  tq_prog p <> [] -> snd (tq_step s (TqProd i c)) <> TqENone.
Proof.
  intros s i c p Ep Epc Hpr. cbn [tq_step]. unfold tq_step_prod. rewrite Ep, Epc.
  destruct (tq_prog p) as [|op rest]; [congruence|].
  destruct op as [[h|]|[h|]]; unfold tq_select; cbn [tq_closed tq_buf tq_cap];
    try (cbn; discriminate);
    destruct ((negb (tq_closed s) || c) && (length (tq_buf s) <? tq_cap s)); try (cbn; discriminate);
    destruct (tq_closed s); cbn; discriminate.
Qed.

Lemma tq_after_close_l : forall cap progs sched,
  let s := tq_final (tq_init cap progs) sched in
  tq_closed s = true ->
  (forall i p, nth_error (tq_prods s) i = Some p -> tq_ppc_of p = TqPIdle) /\
  (forall i c p, nth_error (tq_prods s) i = Some p -> tq_prog p <> [] ->
     let '(s', e) := tq_step s (TqProd i c) in
     e <> TqENone /\ (forall j t, e <> TqEBlocked j t) /\ tq_prod_idle s' i = true /\ tq_closed s' = true).
Proof.
  intros cap progs sched s Hc. pose proof (tq_inv_reachable cap progs sched) as Hinv. fold s in Hinv.
  assert (Hidle : forall i p, nth_error (tq_prods s) i = Some p -> tq_ppc_of p = TqPIdle).
  { intros i p Ep. destruct (tq_ppc_of p) as [|tb] eqn:Epc; [reflexivity|].
    destruct (inv_blk _ _ Hinv _ _ _ Ep Epc) as (_ & _ & Hx). congruence. }
  split; [exact Hidle|]. intros i c p Ep Hpr.
  pose proof (tq_call_enabled s i c p Ep (Hidle _ _ Ep) Hpr) as Hen.
  destruct (tq_step s (TqProd i c)) as [s' e] eqn:Es. cbn [snd] in Hen.
  destruct (tq_step_call _ _ _ _ _ Es Hen) as (p0 & op & rest & Ep0 & _ & _ & Hc' & _ & Hm).
  assert (Hi : i < length (tq_prods s)) by (eapply tq_nth_lt; exact Ep).
  split; [exact Hen|].
  assert (Hgoal : (forall j t, e <> TqEBlocked j t) /\ exists q, tq_prods s' = tq_set_prod (tq_prods s) i q /\ tq_ppc_of q = TqPIdle).
  { destruct (tq_op_task i (tq_next p0) op) as [t|].
    - destruct Hm as (_ & [(-> & _ & Hp) | [(-> & _ & _ & Hp) | (-> & Hx & _)]]); [| |congruence];
        (split; [intros; discriminate | eexists; split; [exact Hp | reflexivity]]).
    - destruct Hm as (_ & _ & [(-> & Hp) | (-> & Hp)]);
        (split; [intros; discriminate | eexists; split; [exact Hp | reflexivity]]). }
  destruct Hgoal as (Hnb & q & Hq & Hqi). split; [exact Hnb|]. split; [|congruence].
  unfold tq_prod_idle. rewrite Hq, tq_set_prod_nth, Nat.eqb_refl, Hqi by exact Hi. reflexivity.
Qed.

Lemma tq_nil_handler_l : forall s i c p rest,
  nth_error (tq_prods s) i = Some p -> tq_ppc_of p = TqPIdle -> tq_prog p = TqCallback None :: rest ->
  exists s', tq_step s (TqProd i c) = (s', TqERetEmpty i) /\
    tq_buf s' = tq_buf s /\ tq_sendq s' = tq_sendq s /\ tq_entered s' = tq_entered s /\ tq_cbs s' = tq_cbs s /\
    tq_prods s' = tq_set_prod (tq_prods s) i (tq_ret_prod p rest TqPIdle [TqHEmpty]) /\
    (forall s'', tq_get2 s'' TqHEmpty = Some (0%Z, 0%Z)).
Proof.
  intros s i c p rest Ep Epc Epr. cbn [tq_step]. unfold tq_step_prod. rewrite Ep, Epc, Epr.
  eexists. split; [reflexivity|]. cbn. repeat split.
Qed.

(* ------------------------------------------------------------------ Get *)
Definition tq_cons_task (s : tq_state) : option tq_task :=
  match tq_cons s with TqCIdle => None | TqCGot t => Some t | TqCStored t => Some t end.

Record tq_ginv (s : tq_state) : Prop := {
  g_done : forall cb, In cb (tq_cbs s) -> tq_handled cb = true ->
      exists t, In t (tq_received s) /\ tq_id t = tq_cb_id cb /\
                (tq_result cb, tq_err cb) = tq_handler t /\ tq_cons_task s <> Some t;
  g_stored : forall t cb, tq_cons s = TqCStored t -> tq_kind_of t = TqKCallback ->
      In cb (tq_cbs s) -> tq_cb_id cb = tq_id t -> (tq_result cb, tq_err cb) = tq_handler t;
  g_cur : forall t, tq_cons_task s = Some t -> In t (tq_received s)
}.

Lemma tq_step_store : forall s s' e, tq_step s TqStore = (s', e) -> e <> TqENone ->
  exists t, tq_cons s = TqCGot t /\ tq_cons s' = TqCStored t /\ tq_received s' = tq_received s /\
    tq_cbs s' = match tq_kind_of t with
                | TqKCallback => tq_upd_cbs (tq_cbs s) (tq_id t)
                    (fun cb => {| tq_cb_id := tq_cb_id cb; tq_result := fst (tq_handler t);
                                  tq_err := snd (tq_handler t); tq_handled := tq_handled cb |})
                | TqKUser => tq_cbs s end.
Proof.
  intros s s' e H Hne. cbn [tq_step] in H. destruct (tq_cons s) as [|t|t]; inversion H; subst; try congruence.
  exists t. cbn. auto.
Qed.

Lemma tq_step_done : forall s s' e, tq_step s TqDone = (s', e) -> e <> TqENone ->
  exists t, tq_cons s = TqCStored t /\ tq_cons s' = TqCIdle /\ tq_received s' = tq_received s /\
    tq_cbs s' = match tq_kind_of t with
                | TqKCallback => tq_upd_cbs (tq_cbs s) (tq_id t)
                    (fun cb => {| tq_cb_id := tq_cb_id cb; tq_result := tq_result cb;
                                  tq_err := tq_err cb; tq_handled := true |})
                | TqKUser => tq_cbs s end.
Proof.
  intros s s' e H Hne. cbn [tq_step] in H. destruct (tq_cons s) as [|t|t]; inversion H; subst; try congruence.
  exists t. cbn. auto.
Qed.

Lemma tq_tid_eqb_eq : forall a b, tq_tid_eqb a b = true <-> a = b.
Proof.
  intros [a1 a2] [b1 b2]. unfold tq_tid_eqb. cbn. rewrite andb_true_iff, !Nat.eqb_eq.
  split; [intros [-> ->]; reflexivity | intros H; inversion H; auto].
Qed.

Lemma tq_nodup_id_inj : forall l a b, NoDup (map tq_id l) -> In a l -> In b l -> tq_id a = tq_id b -> a = b.
Proof.
  induction l as [|x l IH]; intros a b Hn Ha Hb He; [destruct Ha|].
  cbn [map] in Hn. inversion Hn as [|? ? Hni Hn']; subst.
  destruct Ha as [<-|Ha], Hb as [<-|Hb]; auto.
  - exfalso. apply Hni. rewrite He. apply in_map. exact Hb.
  - exfalso. apply Hni. rewrite <- He. apply in_map. exact Ha.
Qed.

Lemma tq_ginv_step : forall progs s a s' e, tq_step s a = (s', e) ->
  tq_inv progs s -> tq_fifo s -> tq_ginv s -> tq_ginv s'.
Proof.
  intros progs s a s' e H Hinv Hf [GD GS GC].
  destruct (tq_ev_none_dec e) as [->|Hne]; [apply tq_step_none in H; subst; constructor; assumption|].
  pose proof (tq_inv_step _ _ _ _ _ H Hinv) as Hinv'. pose proof (tq_fifo_step _ _ _ _ H Hf) as Hf'.
  pose proof (tq_step_received _ _ _ _ H) as Hr.
  assert (Hnd : NoDup (map tq_id (tq_received s))).
  { pose proof (inv_nodup _ _ Hinv) as Hn. rewrite Hf, map_app in Hn. eapply tq_nodup_app_l. exact Hn. }
  assert (Hnd' : NoDup (map tq_id (tq_received s'))).
  { pose proof (inv_nodup _ _ Hinv') as Hn. rewrite Hf', map_app in Hn. eapply tq_nodup_app_l. exact Hn. }
  destruct a as [i c|k| | |].
  - (* call *)
    destruct (tq_step_call _ _ _ _ _ H Hne) as (p & op & rest & Ep & Epc & Epr & _ & Hcons & Hm).
    assert (Hrcv : tq_received s' = tq_received s).
    { rewrite Hr. destruct (tq_op_task i (tq_next p) op); [destruct Hm as (_ & [(-> & _)|[(-> & _)|(-> & _)]]) | destruct Hm as (_ & _ & [(-> & _)|(-> & _)])]; cbn; apply app_nil_r. }
    assert (Hcbs : exists new, tq_cbs s' = tq_cbs s ++ new /\
              forall cb, In cb new -> tq_handled cb = false /\ tq_cb_id cb = (i, tq_next p)).
    { destruct (tq_op_task i (tq_next p) op) as [t|] eqn:Eop.
      - destruct Hm as (Hc & _). exists (tq_new_cbs t). split; [exact Hc|].
        assert (Ht : tq_id t = (i, tq_next p)) by (destruct op as [[h|]|[h|]]; cbn in Eop; inversion Eop; reflexivity).
        unfold tq_new_cbs. destruct (tq_kind_of t); intros cb Hin; [|destruct Hin]. destruct Hin as [<-|[]]. cbn. auto.
      - destruct Hm as (_ & Hc & _). exists []. rewrite app_nil_r. split; [exact Hc | intros cb []]. }
    destruct Hcbs as (new & Hcbs & Hnew).
    assert (Hct : tq_cons_task s' = tq_cons_task s) by (unfold tq_cons_task; rewrite Hcons; reflexivity).
    constructor.
    + intros cb Hin Hh. rewrite Hcbs in Hin. apply in_app_iff in Hin. destruct Hin as [Hin|Hin].
      * rewrite Hrcv, Hct. apply GD; assumption.
      * destruct (Hnew _ Hin) as [Hx _]. congruence.
    + intros t cb Hc Hk Hin Hid. rewrite Hcons in Hc. rewrite Hcbs in Hin. apply in_app_iff in Hin.
      destruct Hin as [Hin|Hin]; [eapply GS; eauto|]. exfalso.
      destruct (Hnew _ Hin) as [_ Hx]. rewrite Hx in Hid.
      assert (Hrt : In t (tq_received s)) by (apply GC; unfold tq_cons_task; rewrite Hc; reflexivity).
      assert (Het : In t (tq_entered s)) by (rewrite Hf; apply in_app_iff; left; exact Hrt).
      destruct (inv_bound _ _ Hinv _ Het) as (q & Hq1 & Hq2). rewrite <- Hid in Hq1, Hq2. cbn [fst snd] in *.
      rewrite Ep in Hq1. inversion Hq1; subst q. unfold tq_lim in Hq2. rewrite Epc in Hq2. lia.
    + intros t Ht. rewrite Hrcv. apply GC. rewrite <- Hct. exact Ht.
  - (* recv *)
    destruct (tq_step_recv _ _ _ _ H Hne) as (t & adm & -> & Hc0 & Hc1 & _ & Hcbs & _).
    cbn [tq_rcv_of] in Hr.
    constructor.
    + intros cb Hin Hh. rewrite Hcbs in Hin. destruct (GD _ Hin Hh) as (t0 & Ht0 & Hid & Hv & _).
      exists t0. rewrite Hr. split; [apply in_app_iff; left; exact Ht0|]. split; [exact Hid|]. split; [exact Hv|].
      unfold tq_cons_task. rewrite Hc1. intros Hx. inversion Hx; subst t0.
      rewrite Hr, map_app in Hnd'. cbn [map] in Hnd'. apply NoDup_remove_2 in Hnd'. apply Hnd'.
      rewrite app_nil_r. apply in_map. exact Ht0.
    + intros t0 cb Hc. rewrite Hc1 in Hc. discriminate Hc.
    + intros t0 Ht0. unfold tq_cons_task in Ht0. rewrite Hc1 in Ht0. inversion Ht0; subst t0.
      rewrite Hr. apply in_app_iff. right. left. reflexivity.
  - (* store *)
    destruct (tq_step_store _ _ _ H Hne) as (t & Hc0 & Hc1 & Hrcv & Hcbs).
    assert (Hcur : In t (tq_received s)) by (apply GC; unfold tq_cons_task; rewrite Hc0; reflexivity).
    constructor.
    + intros cb' Hin Hh. rewrite Hrcv.
      assert (Hold : exists cb, In cb (tq_cbs s) /\ tq_handled cb = true /\ tq_cb_id cb = tq_cb_id cb' /\
                (tq_tid_eqb (tq_cb_id cb) (tq_id t) = false -> cb' = cb)).
      { rewrite Hcbs in Hin. destruct (tq_kind_of t).
        - unfold tq_upd_cbs in Hin. apply in_map_iff in Hin. destruct Hin as (cb & Hcb & Hin).
          exists cb. destruct (tq_tid_eqb (tq_cb_id cb) (tq_id t)) eqn:E; subst cb'; cbn in *; auto.
          repeat split; auto. discriminate.
        - exists cb'. auto. }
      destruct Hold as (cb & Hin0 & Hh0 & Hid0 & Hsame).
      destruct (GD _ Hin0 Hh0) as (t0 & Ht0 & Hid & Hv & Hnc).
      assert (Hne0 : tq_tid_eqb (tq_cb_id cb) (tq_id t) = false).
      { destruct (tq_tid_eqb (tq_cb_id cb) (tq_id t)) eqn:E; [|reflexivity]. exfalso.
        apply tq_tid_eqb_eq in E. apply Hnc. unfold tq_cons_task. rewrite Hc0. f_equal.
        symmetry. eapply tq_nodup_id_inj; eauto; congruence. }
      rewrite (Hsame Hne0). exists t0. repeat split; auto.
      unfold tq_cons_task in *. rewrite Hc0 in Hnc. rewrite Hc1. exact Hnc.
    + intros t1 cb' Hc Hk Hin Hid. rewrite Hc1 in Hc. inversion Hc; subst t1. rewrite Hcbs, Hk in Hin.
      unfold tq_upd_cbs in Hin. apply in_map_iff in Hin. destruct Hin as (cb & Hcb & _).
      destruct (tq_tid_eqb (tq_cb_id cb) (tq_id t)) eqn:E.
      * subst cb'. cbn. destruct (tq_handler t); reflexivity.
      * subst cb'. apply tq_tid_eqb_eq in Hid. congruence.
    + intros t1 Ht1. unfold tq_cons_task in Ht1. rewrite Hc1 in Ht1. inversion Ht1; subst t1. rewrite Hrcv. exact Hcur.
  - (* done *)
    destruct (tq_step_done _ _ _ H Hne) as (t & Hc0 & Hc1 & Hrcv & Hcbs).
    assert (Hcur : In t (tq_received s)) by (apply GC; unfold tq_cons_task; rewrite Hc0; reflexivity).
    constructor.
    + intros cb' Hin Hh. rewrite Hrcv. unfold tq_cons_task. rewrite Hc1.
      rewrite Hcbs in Hin. destruct (tq_kind_of t) eqn:Ek.
      * unfold tq_upd_cbs in Hin. apply in_map_iff in Hin. destruct Hin as (cb & Hcb & Hin).
        destruct (tq_tid_eqb (tq_cb_id cb) (tq_id t)) eqn:E.
        -- apply tq_tid_eqb_eq in E. subst cb'. cbn. exists t. split; [exact Hcur|]. split; [symmetry; exact E|].
           split; [eapply GS; eauto | discriminate].
        -- subst cb'. destruct (GD _ Hin Hh) as (t0 & Ht0 & Hid & Hv & _). exists t0. repeat split; auto. discriminate.
      * destruct (GD _ Hin Hh) as (t0 & Ht0 & Hid & Hv & _). exists t0. repeat split; auto. discriminate.
    + intros t1 cb' Hc. rewrite Hc1 in Hc. discriminate Hc.
    + intros t1 Ht1. unfold tq_cons_task in Ht1. rewrite Hc1 in Ht1. discriminate Ht1.
  - (* close *)
    destruct (tq_step_close _ _ _ H Hne) as (_ & _ & _ & _ & Hcbs & Hcons & ->).
    cbn [tq_rcv_of] in Hr. rewrite app_nil_r in Hr.
    assert (Hct : tq_cons_task s' = tq_cons_task s) by (unfold tq_cons_task; rewrite Hcons; reflexivity).
    constructor; rewrite ?Hcbs, ?Hr, ?Hct, ?Hcons; assumption.
Qed.

Lemma tq_all_reachable : forall cap progs sched,
  let s := tq_final (tq_init cap progs) sched in tq_inv progs s /\ tq_fifo s /\ tq_ginv s.
Proof.
  intros cap progs sched.
  apply (tq_invariant_run (fun s => tq_inv progs s /\ tq_fifo s /\ tq_ginv s)).
  - intros s a s' e H (Hi & Hf & Hg). split; [eapply tq_inv_step; eauto|].
    split; [eapply tq_fifo_step; eauto | eapply tq_ginv_step; eauto].
  - split; [apply tq_inv_init|]. split; [reflexivity|]. constructor; cbn.
    + intros cb [].
    + intros t cb Hx. discriminate Hx.
    + intros t Hx. discriminate Hx.
Qed.

Lemma tq_get_partial_l : forall cap progs sched id pr,
  let s := tq_final (tq_init cap progs) sched in
  tq_get2 s (TqHTask id) = Some pr ->
  exists t, In t (tq_received s) /\ tq_id t = id /\ tq_handler t = pr /\ tq_cons_task s <> Some t.
Proof.
  intros cap progs sched id pr s H. destruct (tq_all_reachable cap progs sched) as (_ & _ & Hg). fold s in Hg.
  cbn [tq_get2] in H. unfold tq_find_cb in H.
  destruct (find (fun cb => tq_tid_eqb (tq_cb_id cb) id) (tq_cbs s)) as [cb|] eqn:Ef; [|discriminate H].
  apply find_some in Ef. destruct Ef as [Hin Hid]. apply tq_tid_eqb_eq in Hid.
  destruct (tq_handled cb) eqn:Eh; [|discriminate H]. inversion H; subst pr.
  destruct (g_done _ Hg _ Hin Eh) as (t & Ht & Hi & Hv & Hc). exists t. repeat split; auto; congruence.
Qed.

(* ================================================================== the full Get theorem *)

(* ------------------------------------------------------------------ runs, by the last step *)
Lemma tq_run_app : forall l1 l2 s,
  tq_run s (l1 ++ l2) =
  (fst (tq_run (fst (tq_run s l1)) l2), snd (tq_run s l1) ++ snd (tq_run (fst (tq_run s l1)) l2)).
Proof.
  induction l1 as [|a l1 IH]; intros l2 s; cbn [app tq_run fst snd].
  - destruct (tq_run s l2); reflexivity.
  - destruct (tq_step s a) as [s1 e]. rewrite IH.
    destruct (tq_run s1 l1) as [s2 tr]. cbn [fst snd].
    destruct (tq_run s2 l2) as [s3 tr2]. reflexivity.
Qed.

Lemma tq_final_snoc : forall s l a, tq_final s (l ++ [a]) = fst (tq_step (tq_final s l) a).
Proof.
  intros. unfold tq_final. rewrite tq_run_app. cbn [fst tq_run].
  destruct (tq_step (fst (tq_run s l)) a). reflexivity.
Qed.

Lemma tq_trace_snoc : forall s l a, tq_trace s (l ++ [a]) = tq_trace s l ++ [snd (tq_step (tq_final s l) a)].
Proof.
  intros. unfold tq_trace, tq_final. rewrite tq_run_app. cbn [snd tq_run].
  destruct (tq_step (fst (tq_run s l)) a). reflexivity.
Qed.

Definition tq_ev_done (e : tq_ev) (id : tq_tid) : bool :=
  match e with TqEDone t => tq_tid_eqb (tq_id t) id | _ => false end.

Lemma tq_done_in_snoc : forall tr e id, tq_done_in (tr ++ [e]) id = tq_done_in tr id || tq_ev_done e id.
Proof.
  intros. unfold tq_done_in. rewrite existsb_app. cbn [existsb]. rewrite orb_false_r. reflexivity.
Qed.

(* ------------------------------------------------------------------ Get2 as a function of the callback records *)
Definition tq_get2c (cbs : list tq_cb) (id : tq_tid) : option tq_pair :=
  match find (fun cb => tq_tid_eqb (tq_cb_id cb) id) cbs with
  | Some cb => if tq_handled cb then Some (tq_result cb, tq_err cb) else None
  | None => None
  end.

Lemma tq_get2_c : forall s id, tq_get2 s (TqHTask id) = tq_get2c (tq_cbs s) id.
Proof. reflexivity. Qed.

Lemma tq_find_app : forall (A : Type) (f : A -> bool) l1 l2,
  find f (l1 ++ l2) = match find f l1 with Some x => Some x | None => find f l2 end.
Proof.
  induction l1 as [|x l1 IH]; intros l2; cbn [app find]; [reflexivity|].
  destruct (f x); [reflexivity | apply IH].
Qed.

Lemma tq_get2c_app_some : forall cbs new id pr, tq_get2c cbs id = Some pr -> tq_get2c (cbs ++ new) id = Some pr.
Proof.
  intros cbs new id pr H. unfold tq_get2c in *. rewrite tq_find_app.
  destruct (find (fun cb => tq_tid_eqb (tq_cb_id cb) id) cbs); [exact H | discriminate H].
Qed.

Lemma tq_find_upd : forall cbs id id' f, (forall cb, tq_cb_id (f cb) = tq_cb_id cb) ->
  find (fun cb => tq_tid_eqb (tq_cb_id cb) id) (tq_upd_cbs cbs id' f) =
  if tq_tid_eqb id id' then option_map f (find (fun cb => tq_tid_eqb (tq_cb_id cb) id) cbs)
  else find (fun cb => tq_tid_eqb (tq_cb_id cb) id) cbs.
Proof.
  intros cbs id id' f Hf. unfold tq_upd_cbs.
  induction cbs as [|cb cbs IH]; cbn [map find option_map]; [destruct (tq_tid_eqb id id'); reflexivity|].
  destruct (tq_tid_eqb (tq_cb_id cb) id') eqn:E1.
  - rewrite Hf. destruct (tq_tid_eqb (tq_cb_id cb) id) eqn:E2.
    + apply tq_tid_eqb_eq in E1, E2. assert (E3 : tq_tid_eqb id id' = true) by (apply tq_tid_eqb_eq; congruence).
      rewrite E3. reflexivity.
    + exact IH.
  - destruct (tq_tid_eqb (tq_cb_id cb) id) eqn:E2.
    + destruct (tq_tid_eqb id id') eqn:E3; [|reflexivity]. exfalso.
      apply tq_tid_eqb_eq in E2, E3. subst. rewrite (proj2 (tq_tid_eqb_eq _ _) eq_refl) in E1. discriminate E1.
    + exact IH.
Qed.

Lemma tq_get2c_upd_other : forall cbs id id' f, (forall cb, tq_cb_id (f cb) = tq_cb_id cb) ->
  tq_tid_eqb id id' = false -> tq_get2c (tq_upd_cbs cbs id' f) id = tq_get2c cbs id.
Proof. intros cbs id id' f Hf Hne. unfold tq_get2c. rewrite tq_find_upd, Hne by exact Hf. reflexivity. Qed.

Lemma tq_find_ex : forall cbs id, (exists cb, In cb cbs /\ tq_cb_id cb = id) ->
  exists cb0, find (fun cb => tq_tid_eqb (tq_cb_id cb) id) cbs = Some cb0 /\ In cb0 cbs /\ tq_cb_id cb0 = id.
Proof.
  intros cbs id (cb & Hin & Hid).
  destruct (find (fun cb => tq_tid_eqb (tq_cb_id cb) id) cbs) as [cb0|] eqn:E.
  - apply find_some in E. destruct E as [E1 E2]. apply tq_tid_eqb_eq in E2. exists cb0. auto.
  - exfalso. pose proof (find_none _ _ E _ Hin) as Hx. cbn in Hx.
    rewrite (proj2 (tq_tid_eqb_eq _ _) Hid) in Hx. discriminate Hx.
Qed.

Lemma tq_get2c_done : forall cbs id pr,
  (exists cb, In cb cbs /\ tq_cb_id cb = id) ->
  (forall cb, In cb cbs -> tq_cb_id cb = id -> (tq_result cb, tq_err cb) = pr) ->
  tq_get2c (tq_upd_cbs cbs id (fun cb => {| tq_cb_id := tq_cb_id cb; tq_result := tq_result cb;
                                             tq_err := tq_err cb; tq_handled := true |})) id = Some pr.
Proof.
  intros cbs id pr Hex Hall. unfold tq_get2c. rewrite tq_find_upd by reflexivity.
  rewrite (proj2 (tq_tid_eqb_eq _ _) eq_refl).
  destruct (tq_find_ex _ _ Hex) as (cb0 & -> & Hin & Hid). cbn. f_equal. apply Hall; assumption.
Qed.

Lemma tq_upd_cbs_in : forall cbs id f cb', (forall cb, tq_cb_id (f cb) = tq_cb_id cb) ->
  In cb' (tq_upd_cbs cbs id f) ->
  exists cb, In cb cbs /\ tq_cb_id cb = tq_cb_id cb' /\
    ((tq_tid_eqb (tq_cb_id cb) id = true /\ cb' = f cb) \/ (tq_tid_eqb (tq_cb_id cb) id = false /\ cb' = cb)).
Proof.
  intros cbs id f cb' Hf Hin. unfold tq_upd_cbs in Hin. apply in_map_iff in Hin. destruct Hin as (cb & Hcb & Hin).
  exists cb. split; [exact Hin|]. destruct (tq_tid_eqb (tq_cb_id cb) id) eqn:E; subst cb'.
  - split; [symmetry; apply Hf | left; auto].
  - split; [reflexivity | right; auto].
Qed.

Lemma tq_upd_cbs_in_conv : forall cbs id f cb, (forall cb, tq_cb_id (f cb) = tq_cb_id cb) ->
  In cb cbs -> exists cb', In cb' (tq_upd_cbs cbs id f) /\ tq_cb_id cb' = tq_cb_id cb.
Proof.
  intros cbs id f cb Hf Hin. unfold tq_upd_cbs.
  exists (if tq_tid_eqb (tq_cb_id cb) id then f cb else cb). split.
  - apply in_map_iff. exists cb. auto.
  - destruct (tq_tid_eqb (tq_cb_id cb) id); [apply Hf | reflexivity].
Qed.

(* ------------------------------------------------------------------ handles *)
Fixpoint tq_handles_from (i j : nat) (prog : list tq_op) : list tq_handle :=
  match prog with
  | [] => []
  | op :: rest => tq_handle_of i j op :: tq_handles_from i (S j) rest
  end.

Lemma tq_handles_from_app : forall i a b j,
  tq_handles_from i j (a ++ b) = tq_handles_from i j a ++ tq_handles_from i (j + length a) b.
Proof.
  induction a as [|x a IH]; intros b j; cbn [app tq_handles_from length].
  - rewrite Nat.add_0_r. reflexivity.
  - rewrite IH. f_equal. f_equal. f_equal. lia.
Qed.

Lemma tq_handles_from_nth : forall i l j k,
  nth_error (tq_handles_from i j l) k = option_map (tq_handle_of i (j + k)) (nth_error l k).
Proof.
  induction l as [|x l IH]; intros j k; destruct k; cbn [tq_handles_from nth_error option_map]; try reflexivity.
  - rewrite Nat.add_0_r. reflexivity.
  - rewrite IH. f_equal. f_equal. lia.
Qed.

(* ------------------------------------------------------------------ the program-link invariant *)
(* a task record is the one the program prescribes for the call it is identified by *)
Definition tq_task_ok (progs : list (list tq_op)) (t : tq_task) : Prop :=
  exists op, tq_op_at progs (tq_id t) = Some op /\ tq_op_task (fst (tq_id t)) (snd (tq_id t)) op = Some t.

Definition tq_pc_ids (pc : tq_ppc) : list tq_tid :=
  match pc with TqPBlocked t => [tq_id t] | TqPIdle => [] end.

Record tq_pinv (progs : list (list tq_op)) (s : tq_state) : Prop := {
  p_pos : forall i p, nth_error (tq_prods s) i = Some p ->
      exists pre, nth i progs [] = pre ++ tq_prog p /\ length pre = tq_next p /\
        tq_handles_from i 0 pre = tq_rets p ++ map TqHTask (tq_pc_ids (tq_ppc_of p));
  p_blk : forall i p tb, nth_error (tq_prods s) i = Some p -> tq_ppc_of p = TqPBlocked tb -> tq_task_ok progs tb;
  p_ent : forall t, In t (tq_entered s) -> tq_task_ok progs t;
  p_cb_bound : forall cb, In cb (tq_cbs s) ->
      exists p, nth_error (tq_prods s) (fst (tq_cb_id cb)) = Some p /\ snd (tq_cb_id cb) < tq_next p;
  p_cb_ex : forall i p j h, nth_error (tq_prods s) i = Some p -> j < tq_next p ->
      tq_op_at progs (i, j) = Some (TqCallback (Some h)) -> exists cb, In cb (tq_cbs s) /\ tq_cb_id cb = (i, j)
}.

Lemma tq_pinv_init : forall cap progs, tq_pinv progs (tq_init cap progs).
Proof.
  intros cap progs. constructor; cbn.
  - intros i p Hi. rewrite nth_error_map in Hi. destruct (nth_error progs i) as [pr|] eqn:En; [|discriminate Hi].
    cbn in Hi. inversion Hi; subst p. cbn. exists []. rewrite (nth_error_nth _ _ _ En). auto.
  - intros i p tb Hi Hb. rewrite nth_error_map in Hi. destruct (nth_error progs i); [|discriminate Hi].
    cbn in Hi. inversion Hi; subst p. discriminate Hb.
  - intros t [].
  - intros cb [].
  - intros i p j h Hi Hj. rewrite nth_error_map in Hi. destruct (nth_error progs i); [|discriminate Hi].
    cbn in Hi. inversion Hi; subst p. cbn in Hj. lia.
Qed.

(* a step that changes no producer, no entered task and keeps the ids of the callback records *)
Lemma tq_pinv_ext : forall progs s s',
  tq_prods s' = tq_prods s -> tq_entered s' = tq_entered s ->
  (forall cb', In cb' (tq_cbs s') -> exists cb, In cb (tq_cbs s) /\ tq_cb_id cb = tq_cb_id cb') ->
  (forall cb, In cb (tq_cbs s) -> exists cb', In cb' (tq_cbs s') /\ tq_cb_id cb' = tq_cb_id cb) ->
  tq_pinv progs s -> tq_pinv progs s'.
Proof.
  intros progs s s' Hp He H1 H2 [A B C D E]. constructor; rewrite ?Hp, ?He; auto.
  - intros cb' Hin. destruct (H1 _ Hin) as (cb & Hcb & Hid). rewrite <- Hid. apply D. exact Hcb.
  - intros i p j h Hi Hj Hop. destruct (E _ _ _ _ Hi Hj Hop) as (cb & Hcb & Hid).
    destruct (H2 _ Hcb) as (cb' & Hcb' & Hid'). exists cb'. split; [exact Hcb' | congruence].
Qed.

Lemma tq_op_task_id : forall i j op t, tq_op_task i j op = Some t -> tq_id t = (i, j).
Proof. intros i j op t H. destruct op as [[h|]|[h|]]; cbn in H; inversion H; reflexivity. Qed.

Lemma tq_op_task_handle : forall i j op t, tq_op_task i j op = Some t -> tq_handle_of i j op = TqHTask (i, j).
Proof. intros i j op t H. destruct op as [[h|]|[h|]]; cbn in H; try discriminate H; reflexivity. Qed.

(* an idle producer makes a call *)
Lemma tq_pinv_set : forall progs s s' i p op rest pc hs newE newC,
  tq_pinv progs s -> nth_error (tq_prods s) i = Some p -> tq_ppc_of p = TqPIdle -> tq_prog p = op :: rest ->
  tq_prods s' = tq_set_prod (tq_prods s) i (tq_ret_prod p rest pc hs) ->
  tq_entered s' = tq_entered s ++ newE -> tq_cbs s' = tq_cbs s ++ newC ->
  hs ++ map TqHTask (tq_pc_ids pc) = [tq_handle_of i (tq_next p) op] ->
  (forall tb, pc = TqPBlocked tb -> tq_op_task i (tq_next p) op = Some tb) ->
  (forall t, In t newE -> tq_op_task i (tq_next p) op = Some t) ->
  (forall cb, In cb newC -> tq_cb_id cb = (i, tq_next p)) ->
  (forall h, op = TqCallback (Some h) -> exists cb, In cb newC) ->
  tq_pinv progs s'.
Proof.
  intros progs s s' i p op rest pc hs newE newC [A B C D E] Ep Epc Epr Hp He Hc Hhs Hpc HE HC1 HC2.
  assert (Hi : i < length (tq_prods s)) by (eapply tq_nth_lt; exact Ep).
  assert (Hnth : forall k, nth_error (tq_prods s') k =
            if k =? i then Some (tq_ret_prod p rest pc hs) else nth_error (tq_prods s) k).
  { intros k. rewrite Hp. apply tq_set_prod_nth. exact Hi. }
  destruct (A _ _ Ep) as (pre & Hpre & Hlen & Hh). rewrite Epc in Hh. cbn [tq_pc_ids map] in Hh. rewrite app_nil_r in Hh.
  assert (Hop : tq_op_at progs (i, tq_next p) = Some op).
  { unfold tq_op_at. cbn [fst snd]. rewrite Hpre, Epr, nth_error_app2 by lia.
    rewrite Hlen, Nat.sub_diag. reflexivity. }
  assert (Hok : forall t, tq_op_task i (tq_next p) op = Some t -> tq_task_ok progs t).
  { intros t Ht. exists op. rewrite (tq_op_task_id _ _ _ _ Ht). cbn [fst snd]. auto. }
  constructor.
  - intros k q Hk. rewrite Hnth in Hk. destruct (k =? i) eqn:Ek; [|apply A; exact Hk].
    apply Nat.eqb_eq in Ek. subst k. inversion Hk; subst q. cbn [tq_ret_prod tq_prog tq_next tq_ppc_of tq_rets].
    exists (pre ++ [op]). rewrite <- app_assoc. cbn [app]. split; [rewrite Hpre, Epr; reflexivity|].
    split; [rewrite app_length; cbn; lia|].
    rewrite tq_handles_from_app. cbn [tq_handles_from]. rewrite Hh, Hlen. cbn [Nat.add].
    rewrite <- app_assoc, Hhs. reflexivity.
  - intros k q tb Hk Hb. rewrite Hnth in Hk. destruct (k =? i) eqn:Ek; [|eapply B; eauto].
    inversion Hk; subst q. cbn in Hb. apply Hok. apply Hpc. exact Hb.
  - intros t Hin. rewrite He in Hin. apply in_app_iff in Hin. destruct Hin as [Hin|Hin]; [apply C; exact Hin|].
    apply Hok. apply HE. exact Hin.
  - intros cb Hin. rewrite Hc in Hin. apply in_app_iff in Hin. rewrite Hnth. destruct Hin as [Hin|Hin].
    + destruct (D _ Hin) as (q & Hq1 & Hq2). destruct (fst (tq_cb_id cb) =? i) eqn:Ek.
      * apply Nat.eqb_eq in Ek. rewrite Ek, Ep in Hq1. inversion Hq1; subst q.
        eexists. split; [reflexivity|]. cbn. lia.
      * exists q. auto.
    + rewrite (HC1 _ Hin). cbn [fst snd]. rewrite Nat.eqb_refl. eexists. split; [reflexivity|]. cbn. lia.
  - intros k q j h Hk Hj Hopj. rewrite Hnth in Hk. rewrite Hc. destruct (k =? i) eqn:Ek.
    + apply Nat.eqb_eq in Ek. subst k. inversion Hk; subst q. cbn in Hj.
      destruct (Nat.eq_dec j (tq_next p)) as [->|Hne].
      * rewrite Hop in Hopj. inversion Hopj; subst op. destruct (HC2 _ eq_refl) as (cb & Hcb).
        exists cb. split; [apply in_app_iff; right; exact Hcb | apply HC1; exact Hcb].
      * destruct (E _ _ j h Ep ltac:(lia) Hopj) as (cb & Hcb & Hid). exists cb. split; [apply in_app_iff; left; exact Hcb | exact Hid].
    + destruct (E _ _ _ _ Hk Hj Hopj) as (cb & Hcb & Hid). exists cb. split; [apply in_app_iff; left; exact Hcb | exact Hid].
Qed.

Lemma tq_pinv_call : forall progs s i c s' e,
  tq_pinv progs s -> tq_step s (TqProd i c) = (s', e) -> tq_pinv progs s'.
Proof.
  intros progs s i c s' e Hinv H.
  destruct (tq_ev_none_dec e) as [->|Hne]; [apply tq_step_none in H; subst; exact Hinv|].
  pose proof (tq_step_entered _ _ _ _ H) as He.
  destruct (tq_step_call _ _ _ _ _ H Hne) as (p & op & rest & Ep & Epc & Epr & _ & _ & Hm).
  destruct (tq_op_task i (tq_next p) op) as [t|] eqn:Eop.
  - pose proof (tq_op_task_handle _ _ _ _ Eop) as Hh.
    assert (HC1 : forall cb, In cb (tq_new_cbs t) -> tq_cb_id cb = (i, tq_next p)).
    { intros cb Hin. unfold tq_new_cbs in Hin. destruct (tq_kind_of t); [|destruct Hin].
      destruct Hin as [<-|[]]. cbn. eapply tq_op_task_id; eauto. }
    assert (HC2 : forall h, op = TqCallback (Some h) -> exists cb, In cb (tq_new_cbs t)).
    { intros h ->. cbn in Eop. inversion Eop; subst t. unfold tq_new_cbs. cbn. eexists. left. reflexivity. }
    destruct Hm as (Hcb & [(-> & _ & Hp) | [(-> & _ & _ & Hp) | (-> & _ & _ & Hp)]]); cbn [tq_ent_of] in He.
    + apply (tq_pinv_set progs s s' i p op rest TqPIdle [TqHTask (tq_id t)] [t] (tq_new_cbs t) Hinv Ep Epc Epr Hp He Hcb);
        [| | | exact HC1 | exact HC2].
      * cbn. rewrite Hh, (tq_op_task_id _ _ _ _ Eop). reflexivity.
      * intros tb Hx. discriminate Hx.
      * intros t0 [<-|[]]. exact Eop.
    + rewrite app_nil_r in He. rewrite <- (app_nil_r (tq_entered s)) in He.
      apply (tq_pinv_set progs s s' i p op rest TqPIdle [TqHTask (tq_id t)] [] (tq_new_cbs t) Hinv Ep Epc Epr Hp He Hcb);
        [| | | exact HC1 | exact HC2].
      * cbn. rewrite Hh, (tq_op_task_id _ _ _ _ Eop). reflexivity.
      * intros tb Hx. discriminate Hx.
      * intros t0 [].
    + rewrite app_nil_r in He. rewrite <- (app_nil_r (tq_entered s)) in He.
      apply (tq_pinv_set progs s s' i p op rest (TqPBlocked t) [] [] (tq_new_cbs t) Hinv Ep Epc Epr Hp He Hcb);
        [| | | exact HC1 | exact HC2].
      * cbn. rewrite Hh, (tq_op_task_id _ _ _ _ Eop). reflexivity.
      * intros tb Hx. inversion Hx; subst tb. exact Eop.
      * intros t0 [].
  - assert (HC2 : forall h, op = TqCallback (Some h) -> exists cb : tq_cb, In cb []).
    { intros h ->. cbn in Eop. discriminate Eop. }
    assert (HC1 : forall cb : tq_cb, In cb [] -> tq_cb_id cb = (i, tq_next p)) by (intros cb []).
    assert (Hcb' : forall s1, tq_cbs s1 = tq_cbs s -> tq_cbs s1 = tq_cbs s ++ []) by (intros s1 ->; rewrite app_nil_r; reflexivity).
    destruct Hm as (_ & Hcb & [(-> & Hp) | (-> & Hp)]); cbn [tq_ent_of] in He;
      rewrite app_nil_r in He; rewrite <- (app_nil_r (tq_entered s)) in He.
    + apply (tq_pinv_set progs s s' i p op rest TqPIdle [TqHEmpty] [] [] Hinv Ep Epc Epr Hp He (Hcb' _ Hcb));
        [| | | exact HC1 | exact HC2].
      * destruct op as [[h|]|[h|]]; cbn in Eop; try discriminate Eop; cbn.
        -- reflexivity.
        -- exfalso. cbn [tq_step] in H. unfold tq_step_prod in H. rewrite Ep, Epc, Epr in H. inversion H.
      * intros tb Hx. discriminate Hx.
      * intros t0 [].
    + apply (tq_pinv_set progs s s' i p op rest TqPIdle [TqHNil] [] [] Hinv Ep Epc Epr Hp He (Hcb' _ Hcb));
        [| | | exact HC1 | exact HC2].
      * destruct op as [[h|]|[h|]]; cbn in Eop; try discriminate Eop; cbn.
        -- exfalso. cbn [tq_step] in H. unfold tq_step_prod in H. rewrite Ep, Epc, Epr in H. inversion H.
        -- reflexivity.
      * intros tb Hx. discriminate Hx.
      * intros t0 [].
Qed.

(* blocked senders return (admitted by a receive or woken by Close); nothing else changes for the producers *)
Lemma tq_pinv_same : forall progs s s' newE,
  tq_pinv progs s ->
  (forall i p', nth_error (tq_prods s') i = Some p' ->
     exists p, nth_error (tq_prods s) i = Some p /\ tq_prog p' = tq_prog p /\ tq_next p' = tq_next p /\
       (p' = p \/ exists tb, tq_ppc_of p = TqPBlocked tb /\ tq_ppc_of p' = TqPIdle /\
                             tq_rets p' = tq_rets p ++ [TqHTask (tq_id tb)])) ->
  (forall i p, nth_error (tq_prods s) i = Some p ->
     exists p', nth_error (tq_prods s') i = Some p' /\ tq_next p' = tq_next p) ->
  tq_entered s' = tq_entered s ++ newE ->
  (forall t, In t newE -> exists i p, nth_error (tq_prods s) i = Some p /\ tq_ppc_of p = TqPBlocked t) ->
  tq_cbs s' = tq_cbs s -> tq_pinv progs s'.
Proof.
  intros progs s s' newE [A B C D E] H1 H2 He HE Hc. constructor.
  - intros i p' Hi. destruct (H1 _ _ Hi) as (p & Hp & Hpr & Hn & [->|(tb & Hb & Hb' & Hr)]); [apply A; exact Hp|].
    destruct (A _ _ Hp) as (pre & Hpre & Hlen & Hh). exists pre. rewrite Hpr, Hn, Hb', Hr. split; [exact Hpre|].
    split; [exact Hlen|]. rewrite Hh, Hb. cbn. rewrite app_nil_r. reflexivity.
  - intros i p' tb Hi Hb. destruct (H1 _ _ Hi) as (p & Hp & _ & _ & [->|(tb0 & _ & Hb' & _)]); [eapply B; eauto | congruence].
  - intros t Hin. rewrite He in Hin. apply in_app_iff in Hin. destruct Hin as [Hin|Hin]; [apply C; exact Hin|].
    destruct (HE _ Hin) as (i & p & Hp & Hb). eapply B; eauto.
  - intros cb Hin. rewrite Hc in Hin. destruct (D _ Hin) as (p & Hp & Hlt).
    destruct (H2 _ _ Hp) as (p' & Hp' & Hn). exists p'. split; [exact Hp' | lia].
  - intros i p' j h Hi Hj Hop. rewrite Hc. destruct (H1 _ _ Hi) as (p & Hp & _ & Hn & _).
    eapply E; eauto. lia.
Qed.

Lemma tq_pinv_recv : forall progs s k s' e,
  tq_inv progs s -> tq_pinv progs s -> tq_step s (TqRecv k) = (s', e) -> tq_pinv progs s'.
Proof.
  intros progs s k s' e Hinv Hp H.
  destruct (tq_ev_none_dec e) as [->|Hne]; [apply tq_step_none in H; subst; exact Hp|].
  pose proof (tq_step_entered _ _ _ _ H) as He.
  destruct (tq_step_recv _ _ _ _ H Hne) as (t & adm & -> & _ & _ & _ & Hcbs & Hm).
  destruct adm as [[i' t']|]; cbn [tq_ent_of snd] in He.
  - destruct Hm as (k' & Hk' & _ & Hpr).
    assert (Hin : In (i', t') (tq_sendq s)) by (eapply nth_error_In; exact Hk').
    destruct (inv_sendq _ _ Hinv _ _ Hin) as (p & Ep & Epc).
    assert (Hi : i' < length (tq_prods s)) by (eapply tq_nth_lt; exact Ep).
    assert (Hnth : forall j, nth_error (tq_prods s') j =
              if j =? i' then Some {| tq_prog := tq_prog p; tq_next := tq_next p; tq_ppc_of := TqPIdle;
                                      tq_rets := tq_rets p ++ [TqHTask (tq_id t')] |}
              else nth_error (tq_prods s) j).
    { intros j. rewrite Hpr. unfold tq_unblock. cbn [fst snd]. rewrite Ep. apply tq_set_prod_nth. exact Hi. }
    apply (tq_pinv_same progs s s' [t'] Hp); auto.
    + intros j q Hj. rewrite Hnth in Hj. destruct (j =? i') eqn:Ej.
      * apply Nat.eqb_eq in Ej. subst j. inversion Hj; subst q. exists p. cbn. repeat split; auto.
        right. exists t'. auto.
      * exists q. auto.
    + intros j q Hj. rewrite Hnth. destruct (j =? i') eqn:Ej.
      * apply Nat.eqb_eq in Ej. subst j. rewrite Ep in Hj. inversion Hj; subst q. eexists. split; [reflexivity|]. reflexivity.
      * exists q. auto.
    + intros t0 [<-|[]]. exists i', p. auto.
  - destruct Hm as (_ & _ & Hpr). apply (tq_pinv_same progs s s' [] Hp); auto.
    + intros j q Hj. rewrite Hpr in Hj. exists q. auto.
    + intros j q Hj. rewrite Hpr. exists q. auto.
    + intros t0 [].
Qed.

Lemma tq_pinv_close : forall progs s s' e,
  tq_pinv progs s -> tq_step s TqClose = (s', e) -> tq_pinv progs s'.
Proof.
  intros progs s s' e Hp H.
  destruct (tq_ev_none_dec e) as [->|Hne]; [apply tq_step_none in H; subst; exact Hp|].
  pose proof (tq_step_entered _ _ _ _ H) as He.
  destruct (tq_step_close _ _ _ H Hne) as (_ & _ & _ & Hpr & Hcbs & _ & ->). cbn [tq_ent_of] in He.
  apply (tq_pinv_same progs s s' [] Hp); auto.
  - intros j q Hj. rewrite Hpr, nth_error_map in Hj. destruct (nth_error (tq_prods s) j) as [p|]; [|discriminate Hj].
    cbn in Hj. inversion Hj; subst q. exists p. unfold tq_wake. destruct (tq_ppc_of p) as [|tb] eqn:Eb; cbn; repeat split; auto.
    right. exists tb. auto.
  - intros j p Hj. rewrite Hpr, nth_error_map, Hj. cbn. eexists. split; [reflexivity|].
    unfold tq_wake. destruct (tq_ppc_of p); reflexivity.
  - intros t0 [].
Qed.

Lemma tq_pinv_step : forall progs s a s' e, tq_step s a = (s', e) ->
  tq_inv progs s -> tq_pinv progs s -> tq_pinv progs s'.
Proof.
  intros progs s a s' e H Hinv Hp.
  destruct (tq_ev_none_dec e) as [->|Hne]; [apply tq_step_none in H; subst; exact Hp|].
  destruct a.
  - eapply tq_pinv_call; eauto.
  - eapply tq_pinv_recv; eauto.
  - pose proof (tq_step_entered _ _ _ _ H) as He.
    destruct (tq_step_exec s TqStore s' e (or_introl eq_refl) H) as (Hpr & _ & _).
    destruct (tq_step_store _ _ _ H Hne) as (t & _ & _ & _ & Hcbs).
    assert (He' : tq_entered s' = tq_entered s).
    { rewrite He. cbn [tq_step] in H. destruct (tq_cons s); inversion H; subst; cbn; apply app_nil_r. }
    apply (tq_pinv_ext progs s s' Hpr He'); [| |exact Hp]; rewrite Hcbs; destruct (tq_kind_of t); eauto.
    + intros cb' Hin. apply tq_upd_cbs_in in Hin; [|reflexivity]. destruct Hin as (cb & Hcb & Hid & _). eauto.
    + intros cb Hin. apply tq_upd_cbs_in_conv; [reflexivity | exact Hin].
  - pose proof (tq_step_entered _ _ _ _ H) as He.
    destruct (tq_step_exec s TqDone s' e (or_intror eq_refl) H) as (Hpr & _ & _).
    destruct (tq_step_done _ _ _ H Hne) as (t & _ & _ & _ & Hcbs).
    assert (He' : tq_entered s' = tq_entered s).
    { rewrite He. cbn [tq_step] in H. destruct (tq_cons s); inversion H; subst; cbn; apply app_nil_r. }
    apply (tq_pinv_ext progs s s' Hpr He'); [| |exact Hp]; rewrite Hcbs; destruct (tq_kind_of t); eauto.
    + intros cb' Hin. apply tq_upd_cbs_in in Hin; [|reflexivity]. destruct Hin as (cb & Hcb & Hid & _). eauto.
    + intros cb Hin. apply tq_upd_cbs_in_conv; [reflexivity | exact Hin].
  - eapply tq_pinv_close; eauto.
Qed.

(* ------------------------------------------------------------------ the Done invariant *)
Record tq_dinv (progs : list (list tq_op)) (s : tq_state) (tr : list tq_ev) : Prop := {
  d_get : forall i j h, tq_op_at progs (i, j) = Some (TqCallback (Some h)) -> tq_done_in tr (i, j) = true ->
      tq_get2c (tq_cbs s) (i, j) = Some h;
  d_not : forall id cb, tq_done_in tr id = false -> In cb (tq_cbs s) -> tq_cb_id cb = id -> tq_handled cb = false;
  d_recv : forall id, tq_done_in tr id = true ->
      exists t, In t (tq_received s) /\ tq_id t = id /\ tq_cons_task s <> Some t
}.

Lemma tq_lim_le_next : forall progs s i p, tq_inv progs s -> nth_error (tq_prods s) i = Some p -> tq_lim p <= tq_next p.
Proof.
  intros progs s i p Hinv Hp. unfold tq_lim. destruct (tq_ppc_of p) as [|tb] eqn:Eb; [lia|].
  destruct (inv_blk _ _ Hinv _ _ _ Hp Eb) as (Hid & Hn & _). rewrite Hid. cbn. lia.
Qed.

Lemma tq_received_nodup : forall progs s, tq_inv progs s -> tq_fifo s -> NoDup (map tq_id (tq_received s)).
Proof.
  intros progs s Hinv Hf. pose proof (inv_nodup _ _ Hinv) as Hn. rewrite Hf, map_app in Hn.
  eapply tq_nodup_app_l. exact Hn.
Qed.

Ltac tq_nd Hd := rewrite tq_done_in_snoc in Hd; cbn [tq_ev_done] in Hd; rewrite orb_false_r in Hd.

Lemma tq_dinv_step : forall progs s tr a s' e, tq_step s a = (s', e) ->
  tq_inv progs s -> tq_fifo s -> tq_ginv s -> tq_pinv progs s -> tq_dinv progs s tr ->
  tq_dinv progs s' (tr ++ [e]).
Proof.
  intros progs s tr a s' e H Hinv Hf Hg Hp [DG DN DR].
  destruct (tq_ev_none_dec e) as [->|Hne].
  { apply tq_step_none in H; subst. constructor.
    - intros i0 j0 h Hop Hd. tq_nd Hd. eapply DG; eauto.
    - intros id cb Hd. tq_nd Hd. apply DN. exact Hd.
    - intros id Hd. tq_nd Hd. apply DR. exact Hd. }
  pose proof (tq_inv_step _ _ _ _ _ H Hinv) as Hinv'. pose proof (tq_fifo_step _ _ _ _ H Hf) as Hf'.
  pose proof (tq_step_received _ _ _ _ H) as Hr.
  pose proof (tq_received_nodup _ _ Hinv Hf) as Hnd. pose proof (tq_received_nodup _ _ Hinv' Hf') as Hnd'.
  destruct a as [i c|k| | |].
  - (* call *)
    destruct (tq_step_call _ _ _ _ _ H Hne) as (p & op & rest & Ep & Epc & Epr & _ & Hcons & Hm).
    assert (Hnd0 : forall id, tq_ev_done e id = false).
    { intros id. destruct (tq_op_task i (tq_next p) op);
        [destruct Hm as (_ & [(-> & _)|[(-> & _)|(-> & _)]]) | destruct Hm as (_ & _ & [(-> & _)|(-> & _)])]; reflexivity. }
    assert (Hrcv : tq_received s' = tq_received s).
    { rewrite Hr. destruct (tq_op_task i (tq_next p) op);
        [destruct Hm as (_ & [(-> & _)|[(-> & _)|(-> & _)]]) | destruct Hm as (_ & _ & [(-> & _)|(-> & _)])]; cbn; apply app_nil_r. }
    assert (Hcbs : exists new, tq_cbs s' = tq_cbs s ++ new /\ forall cb, In cb new -> tq_handled cb = false).
    { destruct (tq_op_task i (tq_next p) op) as [t|] eqn:Eop.
      - destruct Hm as (Hc & _). exists (tq_new_cbs t). split; [exact Hc|].
        unfold tq_new_cbs. destruct (tq_kind_of t); intros cb Hin; [|destruct Hin]. destruct Hin as [<-|[]]. reflexivity.
      - destruct Hm as (_ & Hc & _). exists []. rewrite app_nil_r. split; [exact Hc | intros cb []]. }
    destruct Hcbs as (new & Hcbs & Hnew).
    assert (Hct : tq_cons_task s' = tq_cons_task s) by (unfold tq_cons_task; rewrite Hcons; reflexivity).
    constructor.
    + intros i0 j0 h Hop Hd. rewrite tq_done_in_snoc, Hnd0, orb_false_r in Hd. rewrite Hcbs.
      apply tq_get2c_app_some. eapply DG; eauto.
    + intros id cb Hd Hin Hid. rewrite tq_done_in_snoc, Hnd0, orb_false_r in Hd. rewrite Hcbs in Hin.
      apply in_app_iff in Hin. destruct Hin as [Hin|Hin]; [eapply DN; eauto | apply Hnew; exact Hin].
    + intros id Hd. rewrite tq_done_in_snoc, Hnd0, orb_false_r in Hd. rewrite Hrcv, Hct. apply DR. exact Hd.
  - (* recv *)
    destruct (tq_step_recv _ _ _ _ H Hne) as (t & adm & -> & Hc0 & Hc1 & _ & Hcbs & _).
    cbn [tq_rcv_of] in Hr.
    constructor.
    + intros i0 j0 h Hop Hd. rewrite tq_done_in_snoc in Hd. cbn [tq_ev_done] in Hd. rewrite orb_false_r in Hd.
      rewrite Hcbs. eapply DG; eauto.
    + intros id cb Hd Hin Hid. rewrite tq_done_in_snoc in Hd. cbn [tq_ev_done] in Hd. rewrite orb_false_r in Hd.
      rewrite Hcbs in Hin. eapply DN; eauto.
    + intros id Hd. rewrite tq_done_in_snoc in Hd. cbn [tq_ev_done] in Hd. rewrite orb_false_r in Hd.
      destruct (DR _ Hd) as (t0 & Ht0 & Hid & _). exists t0. rewrite Hr.
      split; [apply in_app_iff; left; exact Ht0|]. split; [exact Hid|].
      unfold tq_cons_task. rewrite Hc1. intros Hx. inversion Hx; subst t0.
      rewrite Hr, map_app in Hnd'. cbn [map] in Hnd'. apply NoDup_remove_2 in Hnd'. apply Hnd'.
      rewrite app_nil_r. apply in_map. exact Ht0.
  - (* store *)
    destruct (tq_step_store _ _ _ H Hne) as (t & Hc0 & Hc1 & Hrcv & Hcbs).
    assert (He : e = TqEStore t).
    { cbn [tq_step] in H. rewrite Hc0 in H. inversion H. reflexivity. }
    subst e.
    assert (Hcur : In t (tq_received s)) by (apply (g_cur _ Hg); unfold tq_cons_task; rewrite Hc0; reflexivity).
    assert (Hnot : forall id, tq_done_in tr id = true -> tq_tid_eqb id (tq_id t) = false).
    { intros id Hd. destruct (tq_tid_eqb id (tq_id t)) eqn:E; [|reflexivity]. exfalso.
      apply tq_tid_eqb_eq in E. destruct (DR _ Hd) as (t0 & Ht0 & Hid & Hnc). apply Hnc.
      unfold tq_cons_task. rewrite Hc0. f_equal. apply (tq_nodup_id_inj (tq_received s) t t0 Hnd Hcur Ht0). congruence. }
    constructor.
    + intros i0 j0 h Hop Hd. rewrite tq_done_in_snoc in Hd. cbn [tq_ev_done] in Hd. rewrite orb_false_r in Hd.
      rewrite Hcbs. destruct (tq_kind_of t); [|eapply DG; eauto].
      rewrite tq_get2c_upd_other; [eapply DG; eauto | reflexivity | apply Hnot; exact Hd].
    + intros id cb' Hd Hin Hid. rewrite tq_done_in_snoc in Hd. cbn [tq_ev_done] in Hd. rewrite orb_false_r in Hd.
      rewrite Hcbs in Hin. destruct (tq_kind_of t); [|eapply DN; eauto].
      apply tq_upd_cbs_in in Hin; [|reflexivity]. destruct Hin as (cb & Hcb & Hid' & [(_ & ->)|(_ & ->)]); cbn;
        eapply DN; eauto; congruence.
    + intros id Hd. rewrite tq_done_in_snoc in Hd. cbn [tq_ev_done] in Hd. rewrite orb_false_r in Hd.
      destruct (DR _ Hd) as (t0 & Ht0 & Hid & Hnc). exists t0. rewrite Hrcv. repeat split; auto.
      unfold tq_cons_task in *. rewrite Hc0 in Hnc. rewrite Hc1. exact Hnc.
  - (* done *)
    destruct (tq_step_done _ _ _ H Hne) as (t & Hc0 & Hc1 & Hrcv & Hcbs).
    assert (He : e = TqEDone t).
    { cbn [tq_step] in H. rewrite Hc0 in H. inversion H. reflexivity. }
    subst e.
    assert (Hcur : In t (tq_received s)) by (apply (g_cur _ Hg); unfold tq_cons_task; rewrite Hc0; reflexivity).
    assert (Hent : In t (tq_entered s)) by (rewrite Hf; apply in_app_iff; left; exact Hcur).
    constructor.
    + intros i0 j0 h Hop Hd. rewrite tq_done_in_snoc in Hd. cbn [tq_ev_done] in Hd. rewrite Hcbs.
      destruct (tq_tid_eqb (tq_id t) (i0, j0)) eqn:E.
      * apply tq_tid_eqb_eq in E.
        destruct (p_ent _ _ Hp _ Hent) as (op & Hop' & Hot). rewrite E in Hop', Hot. cbn [fst snd] in Hot.
        rewrite Hop in Hop'. inversion Hop'; subst op. cbn in Hot. injection Hot as Ht.
        assert (Hk : tq_kind_of t = TqKCallback) by (rewrite <- Ht; reflexivity).
        assert (Hh : tq_handler t = h) by (rewrite <- Ht; reflexivity).
        rewrite Hk, E. apply tq_get2c_done.
        -- destruct (inv_bound _ _ Hinv _ Hent) as (p & Hpp & Hlt). rewrite E in Hpp, Hlt. cbn [fst snd] in Hpp, Hlt.
           pose proof (tq_lim_le_next _ _ _ _ Hinv Hpp) as Hle.
           eapply (p_cb_ex _ _ Hp); eauto. lia.
        -- intros cb Hin Hid. rewrite <- Hh. eapply (g_stored _ Hg); eauto. congruence.
      * rewrite orb_false_r in Hd. destruct (tq_kind_of t); [|eapply DG; eauto].
        rewrite tq_get2c_upd_other; [eapply DG; eauto | reflexivity |].
        destruct (tq_tid_eqb (i0, j0) (tq_id t)) eqn:E2; [|reflexivity].
        apply tq_tid_eqb_eq in E2. rewrite E2, (proj2 (tq_tid_eqb_eq _ _) eq_refl) in E. discriminate E.
    + intros id cb' Hd Hin Hid. rewrite tq_done_in_snoc in Hd. cbn [tq_ev_done] in Hd.
      apply orb_false_iff in Hd. destruct Hd as [Hd Hne'].
      rewrite Hcbs in Hin. destruct (tq_kind_of t); [|eapply DN; eauto].
      apply tq_upd_cbs_in in Hin; [|reflexivity]. destruct Hin as (cb & Hcb & Hid' & [(Heq & ->)|(_ & ->)]).
      * exfalso. apply tq_tid_eqb_eq in Heq. rewrite <- Heq, Hid', Hid, (proj2 (tq_tid_eqb_eq _ _) eq_refl) in Hne'.
        discriminate Hne'.
      * eapply DN; eauto.
    + intros id Hd. rewrite tq_done_in_snoc in Hd. cbn [tq_ev_done] in Hd. rewrite Hrcv.
      unfold tq_cons_task at 1. rewrite Hc1.
      destruct (tq_done_in tr id) eqn:Ed.
      * destruct (DR _ Ed) as (t0 & Ht0 & Hid & _). exists t0. repeat split; auto. discriminate.
      * cbn [orb] in Hd. apply tq_tid_eqb_eq in Hd. exists t. repeat split; auto. discriminate.
  - (* close *)
    destruct (tq_step_close _ _ _ H Hne) as (_ & _ & _ & _ & Hcbs & Hcons & ->).
    cbn [tq_rcv_of] in Hr. rewrite app_nil_r in Hr.
    assert (Hct : tq_cons_task s' = tq_cons_task s) by (unfold tq_cons_task; rewrite Hcons; reflexivity).
    constructor.
    + intros i0 j0 h Hop Hd. tq_nd Hd. rewrite Hcbs. eapply DG; eauto.
    + intros id cb Hd. tq_nd Hd. rewrite Hcbs. apply DN. exact Hd.
    + intros id Hd. tq_nd Hd. rewrite Hr, Hct. apply DR. exact Hd.
Qed.

Lemma tq_dinv_init : forall cap progs, tq_dinv progs (tq_init cap progs) [].
Proof. intros. constructor; cbn; intros; try discriminate. contradiction. Qed.

Lemma tq_full_reachable : forall cap progs sched,
  let s := tq_final (tq_init cap progs) sched in
  tq_inv progs s /\ tq_fifo s /\ tq_ginv s /\ tq_pinv progs s /\ tq_dinv progs s (tq_trace (tq_init cap progs) sched).
Proof.
  intros cap progs sched. induction sched as [|a sched IH] using rev_ind.
  - cbn. split; [apply tq_inv_init|]. split; [reflexivity|]. split.
    + constructor; cbn; [intros cb [] | intros t cb Hx; discriminate Hx | intros t Hx; discriminate Hx].
    + split; [apply tq_pinv_init | apply tq_dinv_init].
  - cbn zeta in *. destruct IH as (Hi & Hf & Hg & Hp & Hd).
    rewrite tq_final_snoc, tq_trace_snoc.
    destruct (tq_step (tq_final (tq_init cap progs) sched) a) as [s' e] eqn:E. cbn [fst snd].
    split; [eapply tq_inv_step; eauto|]. split; [eapply tq_fifo_step; eauto|].
    split; [eapply tq_ginv_step; eauto|]. split; [eapply tq_pinv_step; eauto | eapply tq_dinv_step; eauto].
Qed.

(* THE FULL STATEMENT: Get2 of the task of call j of producer i is blocked exactly until that
   task's Done step and from then on returns the pair the PROGRAM gave to that call *)
Lemma tq_get_full_l : forall cap progs sched i j h,
  nth_error (nth i progs []) j = Some (TqCallback (Some h)) ->
  tq_get2 (tq_final (tq_init cap progs) sched) (TqHTask (i, j))
    = if tq_done_in (tq_trace (tq_init cap progs) sched) (i, j) then Some h else None.
Proof.
  intros cap progs sched i j h Hop.
  destruct (tq_full_reachable cap progs sched) as (_ & _ & _ & _ & Hd). cbn zeta in Hd.
  rewrite tq_get2_c. destruct (tq_done_in (tq_trace (tq_init cap progs) sched) (i, j)) eqn:Ed.
  - eapply (d_get _ _ _ Hd); eauto.
  - unfold tq_get2c. destruct (find (fun cb => tq_tid_eqb (tq_cb_id cb) (i, j)) (tq_cbs (tq_final (tq_init cap progs) sched))) as [cb|] eqn:Ef; [|reflexivity].
    apply find_some in Ef. destruct Ef as [Hin Hid]. apply tq_tid_eqb_eq in Hid.
    rewrite (d_not _ _ _ Hd _ _ Ed Hin Hid). reflexivity.
Qed.

(* what call j of producer i returned to its caller is the handle of THAT call *)
Lemma tq_ret_handle_l : forall cap progs sched i p j hd,
  let s := tq_final (tq_init cap progs) sched in
  nth_error (tq_prods s) i = Some p -> nth_error (tq_rets p) j = Some hd ->
  exists op, nth_error (nth i progs []) j = Some op /\ hd = tq_handle_of i j op.
Proof.
  intros cap progs sched i p j hd s Hp Hj.
  destruct (tq_full_reachable cap progs sched) as (_ & _ & _ & Hpi & _). fold s in Hpi.
  destruct (p_pos _ _ Hpi _ _ Hp) as (pre & Hpre & Hlen & Hh).
  assert (Hlt : j < length (tq_rets p)) by (apply nth_error_Some; congruence).
  assert (Hn : nth_error (tq_handles_from i 0 pre) j = Some hd).
  { rewrite Hh, nth_error_app1 by exact Hlt. exact Hj. }
  rewrite tq_handles_from_nth in Hn. cbn [Nat.add] in Hn.
  destruct (nth_error pre j) as [op|] eqn:Eo; [|discriminate Hn]. cbn in Hn. inversion Hn.
  exists op. split; [|reflexivity]. rewrite Hpre, nth_error_app1; [exact Eo|].
  apply nth_error_Some. congruence.
Qed.

(* ------------------------------------------------------------------ Get2 waiter threads *)
Lemma tq_grun_app : forall l1 l2 g,
  tq_grun g (l1 ++ l2) =
  (fst (tq_grun (fst (tq_grun g l1)) l2), snd (tq_grun g l1) ++ snd (tq_grun (fst (tq_grun g l1)) l2)).
Proof.
  induction l1 as [|a l1 IH]; intros l2 g; cbn [app tq_grun fst snd].
  - destruct (tq_grun g l2); reflexivity.
  - destruct (tq_gstep g a) as [g1 e]. rewrite IH.
    destruct (tq_grun g1 l1) as [g2 tr]. cbn [fst snd].
    destruct (tq_grun g2 l2) as [g3 tr2]. reflexivity.
Qed.

Lemma tq_gfinal_snoc : forall g l a, tq_gfinal g (l ++ [a]) = fst (tq_gstep (tq_gfinal g l) a).
Proof.
  intros. unfold tq_gfinal. rewrite tq_grun_app. cbn [fst tq_grun].
  destruct (tq_gstep (fst (tq_grun g l)) a). reflexivity.
Qed.

Lemma tq_gtrace_snoc : forall g l a, tq_gtrace g (l ++ [a]) = tq_gtrace g l ++ [snd (tq_gstep (tq_gfinal g l) a)].
Proof.
  intros. unfold tq_gtrace, tq_gfinal. rewrite tq_grun_app. cbn [snd tq_grun].
  destruct (tq_gstep (fst (tq_grun g l)) a). reflexivity.
Qed.

(* the queue inside a run with waiters is the queue run on its own schedule: waiters never act on it *)
Lemma tq_gbase_run : forall gs g,
  tq_base (tq_gfinal g gs) = tq_final (tq_base g) (tq_gbase_sched gs) /\
  tq_gbase_trace (tq_gtrace g gs) = tq_trace (tq_base g) (tq_gbase_sched gs).
Proof.
  induction gs as [|a gs IH]; intros g; [split; reflexivity|].
  unfold tq_gfinal, tq_gtrace. cbn [tq_grun]. destruct (tq_gstep g a) as [g1 e] eqn:E.
  specialize (IH g1). unfold tq_gfinal, tq_gtrace in IH. destruct (tq_grun g1 gs) as [g2 tr]. cbn [fst snd] in *.
  destruct IH as [IH1 IH2]. destruct a as [b|hd]; cbn [tq_gstep] in E.
  - destruct (tq_step (tq_base g) b) as [s' eb] eqn:Eb. inversion E; subst g1 e. cbn [tq_base] in *.
    cbn [tq_gbase_sched flat_map app tq_gbase_trace]. fold (tq_gbase_sched gs). fold (tq_gbase_trace tr).
    rewrite tq_final_cons, tq_trace_cons, Eb. cbn [fst snd]. rewrite IH1, IH2. split; reflexivity.
  - inversion E; subst g1 e. cbn [tq_base] in *.
    cbn [tq_gbase_sched flat_map app]. fold (tq_gbase_sched gs). rewrite IH1. split; [reflexivity|].
    destruct (tq_get2 (tq_base g) hd); cbn [tq_gbase_trace flat_map app]; exact IH2.
Qed.

Lemma tq_flat_map_snoc : forall (A B : Type) (f : A -> list B) l x, flat_map f (l ++ [x]) = flat_map f l ++ f x.
Proof. intros. rewrite flat_map_app. cbn. rewrite app_nil_r. reflexivity. Qed.

Lemma tq_tid_eqb_sym : forall a b, tq_tid_eqb a b = tq_tid_eqb b a.
Proof. intros [a1 a2] [b1 b2]. unfold tq_tid_eqb. cbn. rewrite (Nat.eqb_sym a1), (Nat.eqb_sym a2). reflexivity. Qed.

(* a user task's Done step does not touch the callback records; every non-Done step leaves Get2 of
   reachable callback tasks alone -- both are consequences of tq_get_full_l, used below *)
Lemma tq_get_waiters_l : forall cap progs gs i j h,
  nth_error (nth i progs []) j = Some (TqCallback (Some h)) ->
  let g := tq_gfinal (tq_ginit cap progs) gs in
  let done := tq_done_in (tq_gbase_trace (tq_gtrace (tq_ginit cap progs) gs)) (i, j) in
  tq_base g = tq_final (tq_init cap progs) (tq_gbase_sched gs) /\
  tq_gbase_trace (tq_gtrace (tq_ginit cap progs) gs) = tq_trace (tq_init cap progs) (tq_gbase_sched gs) /\
  forall w, In w (tq_waiters g) -> tq_w_on w = TqHTask (i, j) ->
    tq_w_ret w = if done then Some h else None.
Proof.
  intros cap progs gs i j h Hop. cbn zeta.
  destruct (tq_gbase_run gs (tq_ginit cap progs)) as [HB HT]. cbn [tq_ginit tq_base] in HB, HT.
  split; [exact HB|]. split; [exact HT|]. clear HB HT.
  induction gs as [|a gs IH] using rev_ind; [intros w []|].
  destruct (tq_gbase_run gs (tq_ginit cap progs)) as [HB HT]. cbn [tq_ginit tq_base] in HB, HT.
  pose proof (tq_get_full_l cap progs (tq_gbase_sched gs) i j h Hop) as HG. rewrite <- HB, <- HT in HG.
  destruct (tq_gbase_run (gs ++ [a]) (tq_ginit cap progs)) as [HB' HT']. cbn [tq_ginit tq_base] in HB', HT'.
  pose proof (tq_get_full_l cap progs (tq_gbase_sched (gs ++ [a])) i j h Hop) as HG'. rewrite <- HB', <- HT' in HG'.
  revert HG'. rewrite tq_gfinal_snoc, tq_gtrace_snoc. unfold tq_gbase_trace at 1 2. rewrite tq_flat_map_snoc.
  fold (tq_gbase_trace (tq_gtrace (tq_ginit cap progs) gs)).
  set (g := tq_gfinal (tq_ginit cap progs) gs) in *.
  set (tr := tq_gbase_trace (tq_gtrace (tq_ginit cap progs) gs)) in *.
  destruct a as [b|hd]; cbn [tq_gstep].
  - destruct (tq_step (tq_base g) b) as [s' e] eqn:Eb. cbn [fst snd tq_base tq_waiters].
    fold (tq_done_in (tr ++ [e]) (i, j)). rewrite tq_done_in_snoc. intros HG' w Hin Hon.
    assert (Hsame : forall w0, In w0 (tq_waiters g) -> tq_w_on w0 = TqHTask (i, j) ->
              tq_get2 s' (TqHTask (i, j)) = tq_get2 (tq_base g) (TqHTask (i, j)) \/ tq_w_ret w0 <> None ->
              tq_w_ret w0 = if tq_done_in tr (i, j) || tq_ev_done e (i, j) then Some h else None).
    { intros w0 Hin0 Hon0 Hs. rewrite (IH _ Hin0 Hon0). destruct Hs as [Hs|Hs].
      - rewrite <- HG', Hs, HG. reflexivity.
      - rewrite (IH _ Hin0 Hon0) in Hs. destruct (tq_done_in tr (i, j)); [reflexivity | congruence]. }
    destruct (tq_ev_none_dec e) as [->|Hne].
    { apply tq_step_none in Eb. subst s'. apply Hsame; auto. }
    destruct e as [? t|? t|? t| | |t ?|t|t|?|]; try (apply Hsame; auto; left;
      rewrite HG', HG; cbn [tq_ev_done]; rewrite orb_false_r; reflexivity).
    destruct b; try (cbn [tq_step] in Eb; unfold tq_step_prod, tq_select, tq_with_prods in Eb; tq_break; discriminate).
    destruct (tq_step_done _ _ _ Eb Hne) as (t' & Hc0 & _ & _ & Hcbs).
    assert (t' = t) by (cbn [tq_step] in Eb; rewrite Hc0 in Eb; inversion Eb; reflexivity). subst t'.
    destruct (tq_kind_of t) eqn:Ek.
    + apply in_map_iff in Hin. destruct Hin as (w0 & <- & Hin0). unfold tq_release in *.
      destruct (tq_w_parked_on w0 (tq_id t)) eqn:Epk; cbn [tq_w_on tq_w_ret] in *.
      * rewrite Hon, HG'. reflexivity.
      * rewrite (IH _ Hin0 Hon). unfold tq_w_parked_on in Epk. rewrite Hon in Epk.
        pose proof (IH _ Hin0 Hon) as Hr. destruct (tq_done_in tr (i, j)); [reflexivity|].
        rewrite Hr in Epk. cbn [orb tq_ev_done]. rewrite tq_tid_eqb_sym, Epk. reflexivity.
    + apply Hsame; auto. left. rewrite !tq_get2_c, Hcbs. reflexivity.
  - cbn [fst snd tq_base tq_waiters].
    assert (Hnew : forall w, In w (tq_waiters g ++ [{| tq_w_on := hd; tq_w_ret := tq_get2 (tq_base g) hd |}]) ->
              tq_w_on w = TqHTask (i, j) -> tq_w_ret w = if tq_done_in tr (i, j) then Some h else None).
    { intros w Hin Hon. apply in_app_iff in Hin. destruct Hin as [Hin|[<-|[]]]; [apply IH; assumption|].
      cbn [tq_w_on tq_w_ret] in *. subst hd. exact HG. }
    destruct (tq_get2 (tq_base g) hd); cbn [flat_map app]; rewrite app_nil_r; intros _; exact Hnew.
Qed.

(* the [released] list of an event names exactly the waiters that went from parked to returned *)
Lemma tq_released_from_spec : forall old new n k p,
  In (k, p) (tq_released_from n old new) <->
  exists m o w, k = n + m /\ nth_error old m = Some o /\ nth_error new m = Some w /\
                tq_w_ret o = None /\ tq_w_ret w = Some p.
Proof.
  induction old as [|o old IH]; intros new n k p.
  - cbn. split; [intros [] | intros (m & o & w & _ & Hx & _); destruct m; discriminate Hx].
  - destruct new as [|w new].
    + cbn. split; [intros [] | intros (m & o' & w' & _ & _ & Hx & _); destruct m; discriminate Hx].
    + cbn [tq_released_from].
      assert (Htail : In (k, p) (tq_released_from (S n) old new) <->
                exists m o' w', k = n + S m /\ nth_error old m = Some o' /\ nth_error new m = Some w' /\
                                tq_w_ret o' = None /\ tq_w_ret w' = Some p).
      { rewrite IH. split; intros (m & o' & w' & Hk & H); exists m, o', w'; (split; [lia | exact H]). }
      assert (Hgen : (exists m o' w', k = n + m /\ nth_error (o :: old) m = Some o' /\ nth_error (w :: new) m = Some w' /\
                         tq_w_ret o' = None /\ tq_w_ret w' = Some p) <->
                ((k = n /\ tq_w_ret o = None /\ tq_w_ret w = Some p) \/ In (k, p) (tq_released_from (S n) old new))).
      { rewrite Htail. split.
        - intros (m & o' & w' & Hk & Ho & Hw & Hr). destruct m as [|m]; cbn in Ho, Hw.
          + inversion Ho; inversion Hw; subst. left. split; [lia | exact Hr].
          + right. exists m, o', w'. auto.
        - intros [(Hk & Hr)|(m & o' & w' & Hk & Ho & Hw & Hr)].
          + exists 0, o, w. cbn. repeat split; auto; try lia; tauto.
          + exists (S m), o', w'. cbn. auto. }
      rewrite Hgen. destruct (tq_w_ret o) as [po|] eqn:Eo.
      * split; [intros H; right; exact H | intros [(_ & Hx & _)|H]; [discriminate Hx | exact H]].
      * destruct (tq_w_ret w) as [pw|] eqn:Ew.
        -- cbn [In]. split.
           ++ intros [Hx|H]; [inversion Hx; subst; left; auto | right; exact H].
           ++ intros [(-> & _ & Hx)|H]; [left; inversion Hx; reflexivity | right; exact H].
        -- split; [intros H; right; exact H | intros [(_ & _ & Hx)|H]; [discriminate Hx | exact H]].
Qed.

(* waiter k stays waiter k: same handle for ever, and once it has returned its pair never changes *)
Lemma tq_waiter_stable_step : forall g a k w, nth_error (tq_waiters g) k = Some w ->
  exists w', nth_error (tq_waiters (fst (tq_gstep g a))) k = Some w' /\ tq_w_on w' = tq_w_on w /\
             (forall p, tq_w_ret w = Some p -> tq_w_ret w' = Some p).
Proof.
  intros g a k w Hk. destruct a as [b|hd]; cbn [tq_gstep].
  - destruct (tq_step (tq_base g) b) as [s' e]. cbn [fst tq_waiters].
    assert (Hrel : forall id, exists w', nth_error (map (tq_release s' id) (tq_waiters g)) k = Some w' /\
               tq_w_on w' = tq_w_on w /\ (forall p, tq_w_ret w = Some p -> tq_w_ret w' = Some p)).
    { intros id. rewrite nth_error_map, Hk. cbn. eexists. split; [reflexivity|]. unfold tq_release, tq_w_parked_on.
      destruct (tq_w_ret w) as [pw|] eqn:Er; [rewrite Er; auto|].
      destruct (tq_w_on w) as [| |id'] eqn:Eon; try (rewrite Er; split; [auto | intros p Hx; discriminate Hx]).
      destruct (tq_tid_eqb id' id); cbn; [|rewrite Er]; (split; [auto | intros p Hx; discriminate Hx]). }
    destruct e; try solve [exists w; auto]. destruct (tq_kind_of t); [apply Hrel | exists w; auto].
  - cbn [fst tq_waiters]. exists w. split; [|auto]. rewrite nth_error_app1; [exact Hk|]. apply nth_error_Some. congruence.
Qed.

Lemma tq_waiter_stable_l : forall gs g k w, nth_error (tq_waiters g) k = Some w ->
  exists w', nth_error (tq_waiters (tq_gfinal g gs)) k = Some w' /\ tq_w_on w' = tq_w_on w /\
             (forall p, tq_w_ret w = Some p -> tq_w_ret w' = Some p).
Proof.
  induction gs as [|a gs IH]; intros g k w Hk; [exists w; auto|].
  destruct (tq_waiter_stable_step g a k w Hk) as (w1 & Hk1 & Hon1 & Hr1).
  unfold tq_gfinal. cbn [tq_grun]. destruct (tq_gstep g a) as [g1 e]. cbn [fst] in Hk1.
  destruct (IH g1 k w1 Hk1) as (w2 & Hk2 & Hon2 & Hr2). unfold tq_gfinal in Hk2.
  destruct (tq_grun g1 gs) as [g2 tr]. cbn [fst] in *. exists w2. split; [exact Hk2|]. split; [congruence | auto].
Qed.

Lemma tq_gstep_released_l : forall g b g' e rel, tq_gstep g (TqGBase b) = (g', TqGEBase e rel) ->
  forall k p, In (k, p) rel <->
    exists o w, nth_error (tq_waiters g) k = Some o /\ nth_error (tq_waiters g') k = Some w /\
                tq_w_ret o = None /\ tq_w_ret w = Some p.
Proof.
  intros g b g' e rel H k p. cbn [tq_gstep] in H. destruct (tq_step (tq_base g) b) as [s' e0].
  inversion H; subst. cbn [tq_waiters]. rewrite tq_released_from_spec. cbn [Nat.add].
  split; [intros (m & o & w & -> & Hr); eauto | intros (o & w & Hr); exists k, o, w; auto].
Qed.

Lemma tq_get_full2_l : forall cap progs sched i j h,
  nth_error (nth i progs []) j = Some (TqCallback (Some h)) ->
  let s := tq_final (tq_init cap progs) sched in
  let done := tq_done_in (tq_trace (tq_init cap progs) sched) (i, j) in
  tq_get2 s (TqHTask (i, j)) = (if done then Some h else None) /\
  tq_get1 s (TqHTask (i, j)) = (if done then Some (fst h) else None).
Proof.
  intros cap progs sched i j h Hop. cbn zeta. unfold tq_get1.
  rewrite (tq_get_full_l cap progs sched i j h Hop).
  destruct (tq_done_in (tq_trace (tq_init cap progs) sched) (i, j)); split; reflexivity.
Qed.
