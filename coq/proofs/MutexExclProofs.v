(* MutexExclProofs.v -- mutual exclusion of Lock / TryLock / Unlock threads over the re-modelled
   sync.Mutex (models/MutexWord.v part 2), and the tie between the record-level TryLock steps
   used there and the word-level steps of part 1 (the ones stepped against loom/mutex.go). *)
From Got Require Import Base MutexWord MutexWordProofs.
Local Open Scope nat_scope.

Definition mx_inv (s : mx_state) : Prop :=
  Forall mx_lok (xthreads s) /\
  mx_J (xword s) (xsema s)
       (mx_sum mx_wH (xthreads s)) (mx_sum mx_wW (xthreads s)) (mx_sum mx_wS (xthreads s))
       (mx_sum mx_wP (xthreads s)) (mx_sum mx_wD (xthreads s)).

Lemma mx_Forall_set_nth {A} (P : A -> Prop) l i x :
  Forall P l -> P x -> Forall P (firstn i l ++ x :: skipn (S i) l).
Proof.
  intros Hl Hx. apply Forall_app. split.
  - apply Forall_forall. intros y Hy. rewrite Forall_forall in Hl. apply Hl.
    rewrite <- (firstn_skipn i l). apply in_or_app. left. exact Hy.
  - constructor; [exact Hx|]. apply Forall_forall. intros y Hy. rewrite Forall_forall in Hl. apply Hl.
    rewrite <- (firstn_skipn (S i) l). apply in_or_app. right. exact Hy.
Qed.

Lemma mx_step_inv s i : mx_inv s -> mx_inv (fst (mx_step s i)).
Proof.
  intros [L J]. unfold mx_step.
  destruct (nth_error (xthreads s) i) as [th|] eqn:E; [|split; assumption].
  destruct (mx_step_th (xword s) (xsema s) th) as [[[r' t'] th'] ev] eqn:Hs.
  cbn [fst]. unfold mx_inv. cbn [xword xsema xthreads].
  rewrite (mx_sum_split mx_wH _ _ _ E), (mx_sum_split mx_wW _ _ _ E), (mx_sum_split mx_wS _ _ _ E),
          (mx_sum_split mx_wP _ _ _ E), (mx_sum_split mx_wD _ _ _ E) in J.
  assert (Lth : mx_lok th) by (rewrite Forall_forall in L; apply L; eapply nth_error_In; exact E).
  destruct (mx_step_th_J _ _ _ _ _ _ _ _ _ _ _ _ Lth J Hs) as [L' J'].
  split.
  - apply mx_Forall_set_nth; assumption.
  - rewrite !mx_sum_set. exact J'.
Qed.

Lemma mx_init_inv progs : mx_inv (mx_init progs).
Proof.
  unfold mx_inv, mx_init. cbn [xword xsema xthreads]. split.
  - apply Forall_forall. intros th Hin. apply in_map_iff in Hin. destruct Hin as [p [<- _]]. exact I.
  - assert (Hz : forall f, (forall p, f (mx_mkth XIdle false p) = 0) ->
                          mx_sum f (map (fun p => mx_mkth XIdle false p) progs) = 0).
    { intros f Hf. unfold mx_sum. induction progs as [|p l IH]; simpl; [reflexivity|]. rewrite Hf, IH. reflexivity. }
    rewrite !Hz by (intros; reflexivity).
    unfold mx_J, mx_b2n. cbn. repeat split; intros; try discriminate; lia.
Qed.

Lemma mx_run_inv s sched : mx_inv s -> mx_inv (mx_final s sched).
Proof.
  unfold mx_final. revert s. induction sched as [|i r IH]; intros s H; cbn [mx_run]; [exact H|].
  destruct (mx_step s i) as [s1 ev] eqn:E. destruct (mx_run s1 r) as [s2 tr] eqn:E2. cbn [fst].
  specialize (IH s1). rewrite E2 in IH. cbn [fst] in IH. apply IH.
  pose proof (mx_step_inv s i H) as H1. rewrite E in H1. exact H1.
Qed.

Lemma mx_holders_sum s : mx_holders s = mx_sum mx_wH (xthreads s).
Proof.
  unfold mx_holders, mx_sum, mx_wH. induction (xthreads s) as [|th l IH]; simpl; [reflexivity|].
  destruct (xh th); simpl; rewrite IH; reflexivity.
Qed.

(* in every reachable state the number of threads between a successful acquire (Lock fast path,
   lockSlow CAS, starvation hand-off, TryLock CAS1 or CAS2) and their Unlock equals the locked
   bit: at most one *)
Theorem mx_mutex_exclusion progs sched :
  let s := mx_final (mx_init progs) sched in
  mx_holders s = (if xl (xword s) then 1 else 0) /\ mx_holders s <= 1.
Proof.
  cbn zeta. pose proof (mx_run_inv _ sched (mx_init_inv progs)) as [_ (J1 & _)].
  rewrite mx_holders_sum, J1. unfold mx_b2n. destruct (xl _); split; auto.
Qed.

(* a thread that is about to perform the hand-off AddInt32 finds locked = 0 and starving = 1, so
   the field-wise reading of that addition in the model is the int32 addition *)
Theorem mx_handoff_wellformed progs sched i th e :
  let s := mx_final (mx_init progs) sched in
  nth_error (xthreads s) i = Some th -> xpc th = XLHand e ->
  xl (xword s) = false /\ xs (xword s) = true.
Proof.
  cbn zeta. intros E Hpc. pose proof (mx_run_inv _ sched (mx_init_inv progs)) as [_ (J1 & J2 & J3)].
  assert (Hw : mx_wD th = 1%nat) by (unfold mx_wD; rewrite Hpc; reflexivity).
  rewrite (mx_sum_split mx_wD _ _ _ E), Hw in J2, J3.
  destruct (xs (xword _)) eqn:Es.
  - split; [|reflexivity]. destruct (xl (xword _)) eqn:El; [|reflexivity].
    destruct (J3 eq_refl) as (_ & _ & _ & H4). specialize (H4 eq_refl). lia.
  - destruct (J2 eq_refl) as [_ H]. lia.
Qed.

(* ------------------------------------------------------------------ record-level TryLock = word-level TryLock *)
Local Open Scope Z_scope.

Lemma mx_enc_arith r :
  mx_enc r = 8 * Z.of_nat (xn r) + 4 * Z.b2z (xs r) + 2 * Z.b2z (xk r) + Z.b2z (xl r).
Proof. reflexivity. Qed.

Lemma mx_enc_inj a b : mx_enc a = mx_enc b -> a = b.
Proof.
  rewrite !mx_enc_arith. destruct a as [l1 k1 s1 n1], b as [l2 k2 s2 n2]. cbn [xl xk xs xn].
  intros H. assert (n1 = n2 /\ l1 = l2 /\ k1 = k2 /\ s1 = s2).
  { destruct l1, l2, k1, k2, s1, s2; cbn [Z.b2z] in H; repeat split; try reflexivity; lia. }
  intuition; subst; reflexivity.
Qed.

Lemma mx_w_eqb_enc a b : mx_w_eqb a b = (mx_enc a =? mx_enc b).
Proof.
  destruct (mx_w_eqb a b) eqn:E.
  - apply mx_w_eqb_eq in E. subst. symmetry. apply Z.eqb_refl.
  - symmetry. apply Z.eqb_neq. intros H. apply mx_enc_inj in H. subst.
    assert (mx_w_eqb b b = true).
    { unfold mx_w_eqb. rewrite !Bool.eqb_reflx, Nat.eqb_refl. reflexivity. }
    congruence.
Qed.

Lemma mx_trylock_cas1_refines r :
  mx_trylock_step (mx_enc r) TLCas1 =
  if mx_is_zero r then (mx_enc (mx_set_l r true), TLRet true) else (mx_enc r, TLCont TLLoad).
Proof.
  unfold mx_is_zero. rewrite mx_w_eqb_enc. cbn [mx_trylock_step]. change (mx_enc mx_zero) with 0.
  destruct (mx_enc r =? 0) eqn:E; [|reflexivity].
  apply Z.eqb_eq in E. change 0 with (mx_enc mx_zero) in E. apply mx_enc_inj in E. subst. reflexivity.
Qed.

Lemma mx_trylock_load_refines r :
  mx_trylock_step (mx_enc r) TLLoad =
  if (xl r || xs r || xk r)%bool then (mx_enc r, TLRet false) else (mx_enc r, TLCont (TLCas2 (mx_enc r))).
Proof.
  cbn [mx_trylock_step]. rewrite mx_land7, mx_enc_arith.
  destruct r as [l k s n]. cbn [xl xk xs xn].
  destruct l, s, k; cbn [Z.b2z orb];
    match goal with |- context [?x mod 8 =? 0] => destruct (x mod 8 =? 0) eqn:E end;
    try reflexivity; try (apply Z.eqb_eq in E; lia); try (apply Z.eqb_neq in E; lia).
Qed.

Lemma mx_trylock_cas2_refines r old :
  xl old = false -> xk old = false -> xs old = false ->
  mx_trylock_step (mx_enc r) (TLCas2 (mx_enc old)) =
  if mx_w_eqb r old then (mx_enc (mx_set_l old true), TLRet true) else (mx_enc r, TLRet false).
Proof.
  intros Hl Hk Hs. rewrite mx_w_eqb_enc. cbn [mx_trylock_step].
  destruct (mx_enc r =? mx_enc old); [|reflexivity].
  f_equal. rewrite mx_lor1_even.
  - rewrite !mx_enc_arith. destruct old as [l k s n]. cbn [xl xk xs xn mx_set_l] in *. subst. cbn [Z.b2z]. lia.
  - rewrite mx_enc_arith. destruct old as [l k s n]. cbn [xl xk xs xn] in *. subst. cbn [Z.b2z]. lia.
Qed.
