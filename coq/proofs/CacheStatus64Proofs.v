From Got Require Import Base Cache CacheStatus64.
Local Open Scope Z_scope.

Lemma cst_ideal_is_cache_status cfg now x v e u :
  c_fdone x = Some (v, e, u) ->
  c_status_fut cfg now x = cst_ideal (now - u) (c_expire cfg e).
Proof. intros H. unfold c_status_fut, cst_ideal. rewrite H. reflexivity. Qed.

Lemma cst_pow63 : 2 ^ 63 = 9223372036854775808. Proof. reflexivity. Qed.
Lemma cst_pow62 : 2 ^ 62 = 4611686018427387904. Proof. reflexivity. Qed.

(* fix 41fab85: on the whole int64 range of (past, expire) the code computes Cache.v's classification *)
Lemma cst_fixed_exact past expire :
  0 <= past < 2 ^ 63 -> 0 < expire < 2 ^ 63 ->
  cst_code CstFixed past expire = cst_ideal past expire.
Proof.
  intros Hp He. unfold cst_code, cst_ideal.
  destruct (past <? expire) eqn:H1; [reflexivity|].
  apply Z.ltb_ge in H1.
  rewrite (sext_id 64 (past - expire)) by (change (2 ^ (64 - 1)) with (2 ^ 63); lia).
  destruct (past - expire <? expire) eqn:H2, (past <? 2 * expire) eqn:H3; try reflexivity.
  - apply Z.ltb_lt in H2. apply Z.ltb_ge in H3. lia.
  - apply Z.ltb_ge in H2. apply Z.ltb_lt in H3. lia.
Qed.

(* the pinned comparison was exact exactly as long as 2*expire fits *)
Lemma cst_orig_exact_below past expire :
  0 <= past < 2 ^ 63 -> 0 < expire < 2 ^ 62 ->
  cst_code CstOrig past expire = cst_ideal past expire.
Proof.
  intros Hp He. unfold cst_code, cst_ideal.
  rewrite (sext_id 64 (2 * expire)).
  - reflexivity.
  - lia.
  - change (2 ^ (64 - 1)) with (2 ^ 63). rewrite cst_pow63. rewrite cst_pow62 in He. lia.
Qed.

(* ... and wrong for EVERY expiry from 2^62 up, at every age in [E, 2^63): no stale window at all *)
Lemma cst_orig_no_stale_window past expire :
  2 ^ 62 <= expire < 2 ^ 63 -> expire <= past < 2 ^ 63 ->
  cst_code CstOrig past expire = CRotted /\ cst_ideal past expire = CExpired.
Proof.
  intros He Hp. unfold cst_code, cst_ideal.
  assert (H1 : past <? expire = false) by (apply Z.ltb_ge; lia).
  rewrite H1.
  assert (Hs : sext 64 (2 * expire) = 2 * expire - 2 ^ 64).
  { unfold sext. change (2 ^ (64 - 1)) with (2 ^ 63).
    assert (Hm : (2 * expire) mod 2 ^ 64 = 2 * expire).
    { apply Z.mod_small. change (2 ^ 64) with (2 * 2 ^ 63). lia. }
    rewrite Hm.
    assert (Hlt : 2 * expire <? 2 ^ 63 = false).
    { apply Z.ltb_ge. change (2 ^ 63) with (2 * 2 ^ 62). lia. }
    rewrite Hlt. reflexivity. }
  rewrite Hs.
  assert (H2 : past <? 2 * expire - 2 ^ 64 = false).
  { apply Z.ltb_ge. change (2 ^ 64) with (2 * 2 ^ 63). lia. }
  rewrite H2.
  assert (H3 : past <? 2 * expire = true).
  { apply Z.ltb_lt. change (2 ^ 63) with (2 * 2 ^ 62) in Hp. lia. }
  rewrite H3. split; reflexivity.
Qed.

Lemma cst_orig_refuted :
  exists past expire, 0 <= past < 2 ^ 63 /\ 0 < expire < 2 ^ 63 /\
    cst_newcache_starts expire = true /\
    cst_code CstOrig past expire = CRotted /\ cst_ideal past expire = CExpired /\
    cst_code CstFixed past expire = CExpired.
Proof.
  exists (2 ^ 62 + 2 ^ 60 + 16), (2 ^ 62 + 2 ^ 60). vm_compute. repeat split; congruence.
Qed.

(* which expiries NewCache accepts at all (ticker period 4E on int64 must be positive) *)
Lemma cst_newcache_starts_spec e :
  0 < e < 2 ^ 63 ->
  cst_newcache_starts e = true <-> (e < 2 ^ 61 \/ 2 ^ 62 < e < 2 ^ 62 + 2 ^ 61).
Proof.
  intros He. unfold cst_newcache_starts, cst_ticker_period, sext.
  change (2 ^ (64 - 1)) with (2 ^ 63).
  assert (P64 : 2 ^ 64 = 18446744073709551616) by reflexivity.
  assert (P63 : 2 ^ 63 = 9223372036854775808) by reflexivity.
  assert (P62 : 2 ^ 62 = 4611686018427387904) by reflexivity.
  assert (P61 : 2 ^ 61 = 2305843009213693952) by reflexivity.
  rewrite P64, P63, P62, P61 in *.
  pose proof (Z.div_mod (e * 4) 18446744073709551616 ltac:(lia)) as Hdm.
  pose proof (Z.mod_pos_bound (e * 4) 18446744073709551616 ltac:(lia)) as Hb.
  set (m := (e * 4) mod 18446744073709551616) in *.
  set (q := (e * 4) / 18446744073709551616) in *.
  assert (Hq : q = 0 \/ q = 1) by lia.
  destruct (m <? 9223372036854775808) eqn:Hm; rewrite Z.ltb_lt.
  - apply Z.ltb_lt in Hm. split; intros H; lia.
  - apply Z.ltb_ge in Hm. split; intros H; lia.
Qed.

(* Cache.v's status of a completed future is what the fixed code computes on int64 *)
Lemma cst_cache_status_is_code cfg now x v e u :
  c_fdone x = Some (v, e, u) ->
  0 <= now - u < 2 ^ 63 -> 0 < c_expire cfg e < 2 ^ 63 ->
  c_status_fut cfg now x = cst_code CstFixed (now - u) (c_expire cfg e).
Proof.
  intros Hd Hp He.
  rewrite (cst_ideal_is_cache_status cfg now x v e u Hd). symmetry. exact (cst_fixed_exact _ _ Hp He).
Qed.
