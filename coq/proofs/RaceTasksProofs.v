(* RaceTasksProofs.v -- the labelled result-publication protocols of the ants task and of the
   taskx callback task (models/RaceTasks.v) have no happens-before race, for every number of
   attempts / Get2 callers and every schedule (late inner workers included):
     rt_ants_race_free  : ~ hb_race (rt_atrace retry readers sched)
     rt_taskx_race_free : ~ hb_race (rt_xtrace readers sched)
   and the two usages outside the protocol race: Task.Err() before Get2 returned (ants), a second
   Do while Get2 callers read (taskx).  Method: monitor invariant + hbp_agree, as elsewhere. *)
From Coq Require Import String.
From Got Require Import Base ListAux Race RaceProofs RaceHB RaceHBProofs RaceMonLemmas RaceCacheMon.
From Got Require Import RaceInst RaceTasks.
Local Open Scope nat_scope.

Lemma rt_set_length {A} (l : list A) i x : i < length l -> length (rt_set l i x) = length l.
Proof.
  intros H. unfold rt_set. rewrite app_length. cbn [length]. rewrite firstn_length, skipn_length. lia.
Qed.

Definition rt_xs : list nat := [rt_res; rt_err].

(* ------------------------------------------------------------------ ants *)
Section Ants.
Variables (N retry : nat).

Record rt_ainv (s : rt_ast) (mon : rc_mon) : Prop := {
  ai_nr : rc_raced mon = false;
  ai_len : length (ra_h s) = retry;
  ai_idle : ra_d s = RtDIdle -> forall x, In x rt_xs ->
      (forall u, rc_R mon x u = 0) /\ (if ra_sent s then rm_P mon rt_tch x else rc_Wc mon x = 0);
  ai_sent : ra_d s <> RtDIdle -> ra_sent s = true;
  ai_run : ra_d s <> RtDIdle -> ra_d s <> RtDDone -> forall x, In x rt_xs -> rm_K mon 1 x /\ rm_KR mon 1 x;
  ai_done : ra_d s = RtDDone -> forall x, In x rt_xs -> rm_P mon rt_wg x
}.

(* events that touch neither result nor err keep everything *)
Lemma rt_ainv_frame s mon t evs h' r' :
  rt_ainv s mon -> length h' = retry ->
  (forall x, ~ In (RWrite x) evs) -> (forall x, In (RRead x) evs -> ra_d s = RtDDone) ->
  rc_raced (rm_msteps N mon t evs) = false ->
  rt_ainv {| ra_sent := ra_sent s; ra_d := ra_d s; ra_n := ra_n s; ra_h := h'; ra_r := r' |} (rm_msteps N mon t evs).
Proof.
  intros [A1 A2 A3 A4 A5 A6] Hlen Hw Hr Hnr. constructor; cbn [ra_sent ra_d ra_n ra_h ra_r]; auto.
  - intros Hd x Hx. destruct (A3 Hd x Hx) as [B1 B2]. split.
    + intros u. rewrite rm_msteps_R_keep; [apply B1|]. intros Hin. apply Hr in Hin. congruence.
    + destruct (ra_sent s); [apply rm_msteps_P_keep; [apply Hw|exact B2]|rewrite rm_msteps_Wc_keep; [exact B2|apply Hw]].
  - intros H1 H2 x Hx. destruct (A5 H1 H2 x Hx) as [B1 B2]. split.
    + apply rm_msteps_K_keep; [apply Hw|exact B1].
    + apply rm_msteps_KR_keep; [|exact B2]. intros Hin. apply Hr in Hin. contradiction.
  - intros Hd x Hx. apply rm_msteps_P_keep; [apply Hw|apply A6; assumption].
Qed.

Lemma rt_astep_inv s mon tid b1 b2 :
  rt_ainv s mon ->
  rt_ainv (snd (rt_astep false retry s tid b1 b2)) (rm_msteps N mon tid (fst (rt_astep false retry s tid b1 b2))).
Proof.
  intros Inv. pose proof Inv as [A1 A2 A3 A4 A5 A6].
  destruct tid as [|[|k]]; cbn [rt_astep].
  - (* pool.Send *)
    destruct (ra_sent s) eqn:Es; [exact Inv|]. cbn [fst snd].
    assert (Hd : ra_d s = RtDIdle).
    { destruct (ra_d s) eqn:E; try reflexivity; exfalso;
        (assert (H : false = true) by (apply A4; discriminate)); discriminate H. }
    pose proof (A3 Hd) as B.
    constructor; cbn [ra_sent ra_d ra_n ra_h ra_r].
    + apply rm_obl_ok; [exact A1|]. cbn [rm_obl].
      repeat split; try (left; apply rm_K_fresh; apply B; cbn; auto); apply rm_KR_fresh; apply B; cbn; auto.
    + exact A2.
    + intros _ x Hx. split.
      * intros u. rewrite rm_msteps_R_keep; [apply B; exact Hx|].
        cbn. intros [H|[H|[H|[]]]]; discriminate.
      * apply (rm_rel_post N mon 0 [RWrite rt_res; RWrite rt_err] rt_tch []); [|intros []].
        right. left. cbn [rm_writes]. exact Hx.
    + reflexivity.
    + intros H. contradiction.
    + intros H. rewrite Hd in H. discriminate H.
  - (* the dispatcher *)
    destruct (ra_d s) as [ |i|i|ex| ] eqn:Ed.
    + (* receive the task *)
      destruct (ra_sent s) eqn:Es; [|exact Inv]. cbn [fst snd].
      pose proof (A3 eq_refl) as B.
      constructor; cbn [ra_sent ra_d ra_n ra_h ra_r].
      * apply rm_obl_ok; [exact A1|cbn [rm_obl]; exact Logic.I].
      * exact A2.
      * intros H. destruct (0 <? retry); discriminate H.
      * reflexivity.
      * intros _ _ x Hx. destruct (B x Hx) as [B1 B2]. split.
        -- apply (rm_acq_K N mon 1 (RAcq rt_tch) rt_tch); [reflexivity|exact B2].
        -- apply rm_KR_fresh. intros u. rewrite rm_msteps_R_keep; [apply B1|cbn; intros [H|[]]; discriminate].
      * intros H. destruct (0 <? retry); discriminate H.
    + (* sendInnerCallback *)
      cbn [fst snd]. constructor; cbn [ra_sent ra_d ra_n ra_h ra_r].
      * apply rm_obl_ok; [exact A1|cbn [rm_obl]; exact Logic.I].
      * exact A2.
      * discriminate.
      * intros _. apply A4. discriminate.
      * intros _ _ x Hx. destruct (A5 ltac:(discriminate) ltac:(discriminate) x Hx) as [B1 B2].
        split; [apply rm_msteps_K_own; exact B1|apply rm_msteps_KR_own; exact B2].
      * discriminate.
    + (* the select of runTaskOnce and the stores *)
      cbn [fst snd].
      set (evs := (if b1 && (nth i (ra_h s) 0 =? 2) then [RAcq (rt_dc i)] else []) ++ [RWrite rt_res; RWrite rt_err; RRead rt_err]).
      pose proof (A5 ltac:(discriminate) ltac:(discriminate)) as B.
      constructor; cbn [ra_sent ra_d ra_n ra_h ra_r].
      * apply rm_obl_ok; [exact A1|]. unfold evs. destruct (b1 && (nth i (ra_h s) 0 =? 2)); cbn [app rm_obl];
          repeat split; try (left; apply B; cbn; auto); apply B; cbn; auto.
      * exact A2.
      * intros H. destruct b2; [discriminate H|destruct (S i <? retry); discriminate H].
      * intros _. apply A4. discriminate.
      * intros _ _ x Hx. destruct (B x Hx) as [B1 B2].
        split; [apply rm_msteps_K_own; exact B1|apply rm_msteps_KR_own; exact B2].
      * intros H. destruct b2; [discriminate H|destruct (S i <? retry); discriminate H].
    + (* onError, wg.Done *)
      cbn [fst snd]. pose proof (A5 ltac:(discriminate) ltac:(discriminate)) as B.
      constructor; cbn [ra_sent ra_d ra_n ra_h ra_r].
      * apply rm_obl_ok; [exact A1|]. unfold rt_end. destruct ex; cbn [app rm_obl]; repeat split.
        left. apply B. cbn. auto.
      * exact A2.
      * discriminate.
      * intros _. apply A4. discriminate.
      * intros _ H. contradiction.
      * intros _ x Hx. unfold rt_end.
        apply (rm_rel_post N mon 1 (if ex then [RRead rt_err] else []) rt_wg []); [|intros []].
        left. apply B. exact Hx.
    + exact Inv.
  - destruct (k <? retry) eqn:Ek.
    + (* inner worker of attempt k *)
      apply Nat.ltb_lt in Ek.
      destruct (nth k (ra_h s) 2) as [|[|c]] eqn:Eh; [destruct (k <? ra_n s)| |]; cbn [fst snd]; try exact Inv.
      * apply (rt_ainv_frame s mon (S (S k)) [RAcq (rt_ic k)]).
        -- exact Inv.
        -- rewrite rt_set_length; lia.
        -- intros x [H|[]]. discriminate.
        -- intros x [H|[]]. discriminate.
        -- apply rm_obl_ok; [exact A1|cbn [rm_obl]; exact Logic.I].
      * apply (rt_ainv_frame s mon (S (S k)) [RRel (rt_dc k)]).
        -- exact Inv.
        -- rewrite rt_set_length; lia.
        -- intros x [H|[]]. discriminate.
        -- intros x [H|[]]. discriminate.
        -- apply rm_obl_ok; [exact A1|cbn [rm_obl]; exact Logic.I].
    + (* Get2 *)
      destruct (nth_error (ra_r s) (k - retry)) as [[|]|] eqn:Er; cbn [fst snd]; try exact Inv.
      destruct (ra_d s) eqn:Ed; cbn [fst snd]; try exact Inv.
      pose proof (A6 eq_refl) as B.
      rewrite <- Ed. apply (rt_ainv_frame s mon (S (S k)) rt_get2).
      * exact Inv.
      * exact A2.
      * unfold rt_get2. intros x [H|[H|[H|[]]]]; discriminate.
      * intros x _. exact Ed.
      * apply rm_obl_ok; [exact A1|]. unfold rt_get2. cbn [rm_obl].
        repeat split; right; right; exists rt_wg; (split; [left; reflexivity|apply B; cbn; auto]).
Qed.

Lemma rt_arun_inv sched : forall s mon,
  rt_ainv s mon ->
  rc_raced (fold_left (fun m p => rc_step N m (fst p) (snd p)) (rt_atrace_from false retry s sched) mon) = false.
Proof.
  induction sched as [|[[tid b1] b2] r IH]; intros s mon Inv; cbn [rt_atrace_from fold_left].
  - apply (ai_nr _ _ Inv).
  - rewrite rm_run_map. apply IH. apply rt_astep_inv. exact Inv.
Qed.

Lemma rt_ainit_inv readers : rt_ainv (rt_ainit retry readers) rc_init.
Proof.
  constructor; cbn [rt_ainit ra_sent ra_d ra_n ra_h ra_r]; try reflexivity; try congruence.
  - apply repeat_length.
  - intros _ x _. split; reflexivity.
Qed.

End Ants.

Lemma rt_atrace_from_wf peek retry sched : forall s,
  hb_wf (2 + retry + length (ra_r s)) (rt_atrace_from peek retry s sched).
Proof.
  induction sched as [|[[tid b1] b2] r IH]; intros s; cbn [rt_atrace_from]; [constructor|].
  assert (Hlen : length (ra_r (snd (rt_astep peek retry s tid b1 b2))) = length (ra_r s) /\
                 (tid < 2 + retry + length (ra_r s) \/ fst (rt_astep peek retry s tid b1 b2) = [])).
  { destruct tid as [|[|k]]; cbn [rt_astep].
    - destruct (ra_sent s); cbn; split; auto; left; lia.
    - destruct (ra_d s); [destruct (ra_sent s)| | | |]; cbn; split; auto; left; lia.
    - destruct (k <? retry) eqn:Ek.
      + apply Nat.ltb_lt in Ek. destruct (nth k (ra_h s) 2) as [|[|c]]; [destruct (k <? ra_n s)| |]; cbn; split; auto; left; lia.
      + apply Nat.ltb_ge in Ek. destruct (nth_error (ra_r s) (k - retry)) as [[|]|] eqn:Er; cbn [fst snd]; auto.
        assert (Hlt : k - retry < length (ra_r s)) by (apply nth_error_Some; congruence).
        destruct peek; [cbn; split; auto; left; lia|].
        destruct (ra_d s); cbn [fst snd ra_r]; auto. split; [apply rt_set_length; exact Hlt|left; lia]. }
  destruct Hlen as [Hl Ht]. apply rm_wf_app.
  - destruct Ht as [Ht| ->]; [apply rm_wf_map; exact Ht|constructor].
  - rewrite <- Hl. apply IH.
Qed.

Lemma rt_atrace_wf retry readers sched : hb_wf (rt_anthr retry readers) (rt_atrace retry readers sched).
Proof.
  pose proof (rt_atrace_from_wf false retry sched (rt_ainit retry readers)) as H.
  cbn [rt_ainit ra_r] in H. rewrite repeat_length in H. exact H.
Qed.

Theorem rt_ants_race_free retry readers sched : ~ hb_race (rt_atrace retry readers sched).
Proof.
  apply (hbp_agree (rt_anthr retry readers)); [apply rt_atrace_wf|].
  unfold rt_atrace, rc_run. apply (rt_arun_inv (rt_anthr retry readers) retry sched). apply rt_ainit_inv.
Qed.

(* Task.Err() without waiting, while the dispatcher is still deciding the attempt *)
Lemma rt_ants_err_peek_refuted :
  hb_race (rt_atrace_peek 2 1 [(0, true, false); (1, true, false); (1, true, false); (4, true, false); (1, true, false)]).
Proof. apply (hbp_sound 5). vm_compute. reflexivity. Qed.

(* ------------------------------------------------------------------ taskx *)
Definition rt_ys : list nat := [rt_res; rt_err; rt_hnd].

Section Taskx.
Variable N : nat.

Record rt_xinv (s : rt_xst) (mon : rc_mon) : Prop := {
  xi_nr : rc_raced mon = false;
  xi_c : rx_c s <= 3;
  xi_idle : rx_c s = 0 -> forall x, In x rt_ys ->
      (forall u, rc_R mon x u = 0) /\ (if rx_sent s then rm_P mon rt_tch x else rc_Wc mon x = 0);
  xi_sent : rx_c s <> 0 -> rx_sent s = true;
  xi_run : rx_c s = 1 -> forall x, In x rt_ys -> rm_K mon 1 x /\ rm_KR mon 1 x;
  xi_done : 2 <= rx_c s -> (forall x, In x rt_xs -> rm_P mon rt_wg x) /\ rm_K mon 1 rt_err
}.

Lemma rt_xstep_inv s mon tid :
  rt_xinv s mon -> rt_xinv (snd (rt_xstep false s tid)) (rm_msteps N mon tid (fst (rt_xstep false s tid))).
Proof.
  intros Inv. pose proof Inv as [A1 A2 A3 A4 A5 A6].
  destruct tid as [|[|j]]; cbn [rt_xstep].
  - destruct (rx_sent s) eqn:Es; [exact Inv|]. cbn [fst snd].
    assert (Hc : rx_c s = 0).
    { destruct (rx_c s) eqn:E; [reflexivity|exfalso]. assert (H : false = true) by (apply A4; discriminate). discriminate H. }
    pose proof (A3 Hc) as B.
    constructor; cbn [rx_sent rx_c rx_r].
    + apply rm_obl_ok; [exact A1|]. cbn [rm_obl].
      repeat split; try (left; apply rm_K_fresh; apply B; cbn; auto); apply rm_KR_fresh; apply B; cbn; auto.
    + exact A2.
    + intros _ x Hx. split.
      * intros u. rewrite rm_msteps_R_keep; [apply B; exact Hx|]. cbn. intros [H|[H|[H|[H|[]]]]]; discriminate.
      * apply (rm_rel_post N mon 0 [RWrite rt_res; RWrite rt_err; RWrite rt_hnd] rt_tch []); [|intros []].
        right. left. cbn [rm_writes]. exact Hx.
    + reflexivity.
    + intros H. rewrite Hc in H. discriminate H.
    + intros H. rewrite Hc in H. lia.
  - destruct (rx_c s) as [|[|[|c]]] eqn:Ec.
    + destruct (rx_sent s) eqn:Es; [|exact Inv]. cbn [fst snd].
      pose proof (A3 eq_refl) as B.
      constructor; cbn [rx_sent rx_c rx_r].
      * apply rm_obl_ok; [exact A1|cbn [rm_obl]; exact Logic.I].
      * lia.
      * discriminate.
      * reflexivity.
      * intros _ x Hx. destruct (B x Hx) as [B1 B2]. split.
        -- apply (rm_acq_K N mon 1 (RAcq rt_tch) rt_tch); [reflexivity|exact B2].
        -- apply rm_KR_fresh. intros u. rewrite rm_msteps_R_keep; [apply B1|cbn; intros [H|[]]; discriminate].
      * intros H. lia.
    + cbn [fst snd]. pose proof (A5 eq_refl) as B.
      constructor; cbn [rx_sent rx_c rx_r].
      * apply rm_obl_ok; [exact A1|]. cbn [rm_obl].
        repeat split; try (left; apply B; cbn; auto); apply B; cbn; auto.
      * lia.
      * discriminate.
      * intros _. apply A4. discriminate.
      * discriminate.
      * intros _. split.
        -- intros x Hx. apply (rm_rel_post N mon 1 [RWrite rt_res; RWrite rt_err; RRead rt_hnd; RWrite rt_hnd] rt_wg []); [|intros []].
           left. apply B. cbn in Hx |- *. tauto.
        -- apply rm_msteps_K_own. apply B. cbn. auto.
    + cbn [fst snd]. destruct (A6 ltac:(lia)) as [B1 B2].
      constructor; cbn [rx_sent rx_c rx_r].
      * apply rm_obl_ok; [exact A1|]. cbn [rm_obl]. split; [left; exact B2|exact Logic.I].
      * lia.
      * discriminate.
      * intros _. apply A4. discriminate.
      * discriminate.
      * intros _. split.
        -- intros x Hx. apply rm_msteps_P_keep; [cbn; intros [H|[]]; discriminate|apply B1; exact Hx].
        -- apply rm_msteps_K_own. exact B2.
    + destruct c; exact Inv.
  - destruct (nth_error (rx_r s) j) as [[|]|] eqn:Er; cbn [fst snd]; try exact Inv.
    destruct (2 <=? rx_c s) eqn:Ec; cbn [fst snd]; [|exact Inv]. apply Nat.leb_le in Ec.
    destruct (A6 Ec) as [B1 B2].
    constructor; cbn [rx_sent rx_c rx_r].
    + apply rm_obl_ok; [exact A1|]. unfold rt_get2. cbn [rm_obl].
      repeat split; right; right; exists rt_wg; (split; [left; reflexivity|apply B1; cbn; auto]).
    + exact A2.
    + intros H. lia.
    + exact A4.
    + intros H. lia.
    + intros _. split.
      * intros x Hx. apply rm_msteps_P_keep; [unfold rt_get2; cbn; intros [H|[H|[H|[]]]]; discriminate|apply B1; exact Hx].
      * apply rm_msteps_K_keep; [unfold rt_get2; cbn; intros [H|[H|[H|[]]]]; discriminate|exact B2].
Qed.

Lemma rt_xrun_inv sched : forall s mon,
  rt_xinv s mon ->
  rc_raced (fold_left (fun m p => rc_step N m (fst p) (snd p)) (rt_xtrace_from false s sched) mon) = false.
Proof.
  induction sched as [|tid r IH]; intros s mon Inv; cbn [rt_xtrace_from fold_left].
  - apply (xi_nr _ _ Inv).
  - rewrite rm_run_map. apply IH. apply rt_xstep_inv. exact Inv.
Qed.

Lemma rt_xinit_inv readers : rt_xinv (rt_xinit readers) rc_init.
Proof.
  constructor; cbn [rt_xinit rx_sent rx_c rx_r]; try reflexivity; try congruence; try lia.
  intros _ x _. split; reflexivity.
Qed.

End Taskx.

Lemma rt_xtrace_from_wf twice sched : forall s,
  hb_wf (2 + length (rx_r s)) (rt_xtrace_from twice s sched).
Proof.
  induction sched as [|tid r IH]; intros s; cbn [rt_xtrace_from]; [constructor|].
  assert (Hlen : length (rx_r (snd (rt_xstep twice s tid))) = length (rx_r s) /\
                 (tid < 2 + length (rx_r s) \/ fst (rt_xstep twice s tid) = [])).
  { destruct tid as [|[|j]]; cbn [rt_xstep].
    - destruct (rx_sent s); cbn; split; auto; left; lia.
    - destruct (rx_c s) as [|[|[|[|c]]]]; [destruct (rx_sent s)| | |destruct twice|]; cbn; split; auto; left; lia.
    - destruct (nth_error (rx_r s) j) as [[|]|] eqn:Er; cbn [fst snd]; auto.
      assert (Hlt : j < length (rx_r s)) by (apply nth_error_Some; congruence).
      destruct (2 <=? rx_c s); cbn [fst snd rx_r]; auto. split; [apply rt_set_length; exact Hlt|left; lia]. }
  destruct Hlen as [Hl Ht]. apply rm_wf_app.
  - destruct Ht as [Ht| ->]; [apply rm_wf_map; exact Ht|constructor].
  - rewrite <- Hl. apply IH.
Qed.

Lemma rt_xtrace_wf readers sched : hb_wf (rt_xnthr readers) (rt_xtrace readers sched).
Proof.
  pose proof (rt_xtrace_from_wf false sched (rt_xinit readers)) as H.
  cbn [rt_xinit rx_r] in H. rewrite repeat_length in H. exact H.
Qed.

Theorem rt_taskx_race_free readers sched : ~ hb_race (rt_xtrace readers sched).
Proof.
  apply (hbp_agree (rt_xnthr readers)); [apply rt_xtrace_wf|].
  unfold rt_xtrace, rc_run. apply (rt_xrun_inv (rt_xnthr readers) sched). apply rt_xinit_inv.
Qed.

(* a second Do by the consumer while a Get2 caller, released by the first Done, reads *)
Lemma rt_taskx_do_twice_refuted : hb_race (rt_xtrace_twice 1 [0; 1; 1; 1; 1; 2]).
Proof. apply (hbp_sound 3). vm_compute. reflexivity. Qed.

Lemma rt_rows_ok : rt_rows_in_table = true.
Proof. vm_compute. reflexivity. Qed.
