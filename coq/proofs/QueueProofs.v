(* QueueProofs.v -- invariants, refinement to a sequential FIFO, per-thread protocol and
   solo-completion bound for the model of loom.Queue (models/Queue.v). *)
From Got Require Import Base Queue.
Local Open Scope nat_scope.

(* ------------------------------------------------------------------ invariants *)

(* global: head <= tail < length chain <= tail + 2 *)
Definition q_ginv (ch : list Z) (hi ti : nat) : Prop :=
  hi <= ti /\ ti < length ch /\ length ch <= ti + 2.

(* local facts of a thread parked at pc; all are stable under growth of hi, ti, chain *)
Definition q_linv (ch : list Z) (hi ti : nat) (pc : q_pc) : Prop :=
  match pc with
  | QIdle | QP1 _ | QD1 => True
  | QP2 _ t => t <= ti
  | QP3 _ t nx => t <= ti /\ (nx = true -> S t < length ch)
  | QP4 _ t => t <= ti
  | QP5 _ t => t <= ti /\ S t < length ch
  | QP6 t => t <= ti /\ S t < length ch
  | QD2 h => h <= hi
  | QD3 h t => h <= hi /\ h <= t /\ t <= ti
  | QD4 h t nx => h <= hi /\ h <= t /\ t <= ti /\ (nx = true -> S h < length ch) /\ (nx = false -> t = h)
  | QD5 h t => t <= ti /\ S t < length ch
  | QD6 h v => h <= hi /\ S h < length ch /\ S h <= ti /\ v = nth (S h) ch 0%Z
  | QDead => False
  end.

Definition q_inv (s : q_state) : Prop :=
  q_ginv (q_chain s) (q_hi s) (q_ti s) /\
  Forall (fun th => q_linv (q_chain s) (q_hi s) (q_ti s) (q_pcof th)) (q_threads s).

Ltac q_crush :=
  repeat match goal with
  | H : _ /\ _ |- _ => destruct H
  | |- _ /\ _ => split
  | |- _ -> _ => intro
  | H : ?P -> _, E : ?P |- _ => specialize (H E)
  end; try lia; try tauto.

Lemma q_linv_stable ch hi ti ext hi' ti' pc :
  hi <= hi' -> ti <= ti' ->
  q_linv ch hi ti pc -> q_linv (ch ++ ext) hi' ti' pc.
Proof.
  intros Hh Ht. destruct pc; cbn [q_linv]; rewrite ?app_length; q_crush.
  rewrite app_nth1 by lia. assumption.
Qed.

(* the step of one thread, on components *)
Lemma q_step_pc_inv s pc todo ch' hi' ti' pc' todo' ev :
  q_ginv (q_chain s) (q_hi s) (q_ti s) ->
  q_linv (q_chain s) (q_hi s) (q_ti s) pc ->
  q_step_pc s pc todo = (ch', hi', ti', pc', todo', ev) ->
  q_ginv ch' hi' ti' /\ q_linv ch' hi' ti' pc' /\
  q_hi s <= hi' /\ q_ti s <= ti' /\ (exists ext, ch' = q_chain s ++ ext) /\ ev <> QEPanic.
Proof.
  unfold q_ginv. intros (G1 & G2 & G3) L H.
  assert (Hnil : q_chain s = q_chain s ++ []) by (rewrite app_nil_r; reflexivity).
  destruct pc; cbn [q_step_pc q_linv] in *; unfold q_has_next in *;
    repeat match goal with H : _ /\ _ |- _ => destruct H end;
    try contradiction;
    repeat match goal with
    | H : context [match ?l with [] => _ | _ :: _ => _ end] |- _ => destruct l as [|[?|] ?]
    | H : context [Nat.eqb ?a ?b] |- _ => destruct (Nat.eqb_spec a b)
    | H : context [Nat.ltb ?a ?b] |- _ => destruct (Nat.ltb_spec a b)
    | H : context [if ?b then _ else _] |- _ => is_var b; destruct b
    end;
    repeat match goal with H : ?P -> _, E : ?P |- _ => specialize (H E) end;
    repeat match goal with H : ?a = ?a -> _ |- _ => specialize (H eq_refl) end;
    try lia;
    inversion H; subst; cbn [q_linv]; rewrite ?app_length; cbn [length];
    repeat split; try lia; try (exists []; exact Hnil); try (eexists; reflexivity); try discriminate;
    try (intros; lia); try (intros; discriminate).
Qed.

Lemma Forall_set_nth {A} (P : A -> Prop) l i x :
  Forall P l -> P x -> Forall P (firstn i l ++ x :: skipn (S i) l).
Proof.
  intros Hl Hx. apply Forall_app. split.
  - apply Forall_forall. intros y Hy. rewrite Forall_forall in Hl. apply Hl.
    rewrite <- (firstn_skipn i l). apply in_or_app. left. exact Hy.
  - constructor; [exact Hx|]. apply Forall_forall. intros y Hy. rewrite Forall_forall in Hl. apply Hl.
    rewrite <- (firstn_skipn (S i) l). apply in_or_app. right. exact Hy.
Qed.

Lemma q_step_inv s i : q_inv s -> q_inv (fst (q_step s i)) /\ snd (q_step s i) <> QEPanic.
Proof.
  intros [G L]. unfold q_step.
  destruct (nth_error (q_threads s) i) as [th|] eqn:E; [|cbn; split; [split; assumption|discriminate]].
  assert (Lth : q_linv (q_chain s) (q_hi s) (q_ti s) (q_pcof th)).
  { rewrite Forall_forall in L. apply L. eapply nth_error_In. exact E. }
  destruct (q_step_pc s (q_pcof th) (q_todo th)) as [[[[[ch' hi'] ti'] pc'] todo'] ev] eqn:Hs.
  destruct (q_step_pc_inv _ _ _ _ _ _ _ _ _ G Lth Hs) as (G' & L' & Hh & Ht & [ext Hx] & Hev).
  cbn [fst snd]. split; [|exact Hev]. split; cbn [q_chain q_hi q_ti q_threads]; [exact G'|].
  unfold q_set_thread. apply Forall_set_nth.
  - subst ch'. eapply Forall_impl; [|exact L]. intros a Ha. apply (q_linv_stable _ (q_hi s) (q_ti s)); assumption.
  - exact L'.
Qed.

Lemma q_run_fst s sched : fst (q_run s sched) = fold_left (fun s i => fst (q_step s i)) sched s.
Proof.
  revert s. induction sched as [|i r IH]; intros s; cbn [q_run fold_left]; [reflexivity|].
  destruct (q_step s i) as [s1 ev] eqn:E. destruct (q_run s1 r) as [s2 tr] eqn:E2.
  cbn [fst]. rewrite <- IH. rewrite E2. reflexivity.
Qed.

Lemma q_init_inv pre progs : q_inv (q_init pre progs).
Proof.
  split; cbn [q_init q_chain q_hi q_ti q_threads q_init_chain].
  - unfold q_ginv. simpl. lia.
  - apply Forall_forall. intros th Hin. apply in_map_iff in Hin. destruct Hin as [p [<- _]]. exact I.
Qed.

Lemma q_run_inv s sched : q_inv s -> q_inv (q_final s sched).
Proof.
  unfold q_final. revert s. induction sched as [|i r IH]; intros s H; cbn [q_run]; [exact H|].
  destruct (q_step s i) as [s1 ev] eqn:E. destruct (q_run s1 r) as [s2 tr] eqn:E2. cbn [fst].
  specialize (IH s1). rewrite E2 in IH. cbn [fst] in IH. apply IH.
  pose proof (q_step_inv s i H) as [H1 _]. rewrite E in H1. exact H1.
Qed.

Theorem q_reachable_inv pre progs sched : q_inv (q_final (q_init pre progs) sched).
Proof. apply q_run_inv. apply q_init_inv. Qed.

(* no step of a run is a nil dereference *)
Lemma q_run_no_panic s sched : q_inv s -> forall i, ~ In (i, QEPanic) (q_trace s sched).
Proof.
  unfold q_trace. revert s. induction sched as [|j r IH]; intros s H i; cbn [q_run]; [intros []|].
  destruct (q_step s j) as [s1 ev] eqn:E. destruct (q_run s1 r) as [s2 tr] eqn:E2. cbn [snd].
  pose proof (q_step_inv s j H) as [H1 H2]. rewrite E in H1, H2. cbn [fst snd] in H1, H2.
  intros [Hin | Hin].
  - inversion Hin; subst. apply H2. reflexivity.
  - specialize (IH s1 H1 i). rewrite E2 in IH. apply IH. exact Hin.
Qed.

(* ------------------------------------------------------------------ refinement to a FIFO *)

(* effect of an event on the abstract (sequential) queue; None = not a legal FIFO step *)
Definition q_apply_ev (a : list Z) (ev : q_event) : option (list Z) :=
  match ev with
  | QELinPush v => Some (a ++ [v])
  | QELinRetPop v => match a with x :: r => if Z.eqb x v then Some r else None | [] => None end
  | QECand => match a with [] => Some [] | _ => None end
  | QEPanic => None
  | _ => Some a
  end.

Fixpoint q_apply_trace (a : list Z) (tr : list (nat * q_event)) : option (list Z) :=
  match tr with
  | [] => Some a
  | (_, ev) :: r => match q_apply_ev a ev with Some a' => q_apply_trace a' r | None => None end
  end.

Lemma skipn_app_le {A} (l ext : list A) k : k <= length l -> skipn k (l ++ ext) = skipn k l ++ ext.
Proof.
  revert k. induction l as [|x l IH]; intros k Hk; cbn [length] in Hk.
  - assert (k = 0) by lia. subst. reflexivity.
  - destruct k; [reflexivity|]. cbn [skipn app]. apply IH. lia.
Qed.

Lemma skipn_S_nth (l : list Z) k : k < length l -> skipn k l = nth k l 0%Z :: skipn (S k) l.
Proof.
  revert k. induction l as [|x l IH]; intros k Hk; cbn [length] in Hk; [lia|].
  destruct k; [reflexivity|]. cbn [skipn nth]. apply IH. lia.
Qed.

Lemma q_step_pc_abs s pc todo ch' hi' ti' pc' todo' ev :
  q_ginv (q_chain s) (q_hi s) (q_ti s) ->
  q_linv (q_chain s) (q_hi s) (q_ti s) pc ->
  q_step_pc s pc todo = (ch', hi', ti', pc', todo', ev) ->
  q_apply_ev (skipn (S (q_hi s)) (q_chain s)) ev = Some (skipn (S hi') ch').
Proof.
  unfold q_ginv. intros (G1 & G2 & G3) L H.
  destruct pc; cbn [q_step_pc q_linv] in *; unfold q_has_next in *.
  - destruct todo as [|[v|] rest]; inversion H; subst; reflexivity.
  - inversion H; subst; reflexivity.
  - inversion H; subst; reflexivity.
  - destruct (t =? q_ti s); [destruct nx|]; inversion H; subst; reflexivity.
  - destruct (S t <? length (q_chain s)) eqn:E; inversion H; subst; cbn [q_apply_ev]; [reflexivity|].
    rewrite skipn_app_le by lia. reflexivity.
  - inversion H; subst; reflexivity.
  - inversion H; subst; reflexivity.
  - inversion H; subst; reflexivity.
  - inversion H; subst; reflexivity.
  - destruct L as (L1 & L2 & L3).
    destruct (S h <? length (q_chain s)) eqn:E; inversion H; subst; cbn [q_apply_ev]; [reflexivity|].
    apply Nat.ltb_ge in E. assert (Hh : h = q_hi s) by lia. subst h.
    rewrite skipn_all2 by lia. reflexivity.
  - destruct L as (L1 & L2 & L3 & L4 & L5).
    destruct (h =? q_hi s) eqn:E1; [|inversion H; subst; reflexivity].
    destruct (h =? t) eqn:E2.
    + destruct nx; inversion H; subst; reflexivity.
    + apply Nat.eqb_eq in E1. apply Nat.eqb_neq in E2. destruct nx.
      * inversion H; subst; reflexivity.
      * specialize (L5 eq_refl). lia.
  - inversion H; subst; reflexivity.
  - destruct L as (L1 & L2 & L3 & L4).
    destruct (h =? q_hi s) eqn:E; [apply Nat.eqb_eq in E|]; inversion H; subst; cbn [q_apply_ev]; [|reflexivity].
    rewrite (skipn_S_nth (q_chain s) (S (q_hi s))) by lia.
    rewrite Z.eqb_refl. reflexivity.
  - contradiction.
Qed.

Lemma q_step_abs s i :
  q_inv s -> q_apply_ev (q_abs s) (snd (q_step s i)) = Some (q_abs (fst (q_step s i))).
Proof.
  intros [G L]. unfold q_step, q_abs.
  destruct (nth_error (q_threads s) i) as [th|] eqn:E; [|reflexivity].
  assert (Lth : q_linv (q_chain s) (q_hi s) (q_ti s) (q_pcof th)).
  { rewrite Forall_forall in L. apply L. eapply nth_error_In. exact E. }
  destruct (q_step_pc s (q_pcof th) (q_todo th)) as [[[[[ch' hi'] ti'] pc'] todo'] ev] eqn:Hs.
  cbn [fst snd q_chain q_hi]. eapply q_step_pc_abs; eassumption.
Qed.

Lemma q_run_refines s sched :
  q_inv s -> q_apply_trace (q_abs s) (q_trace s sched) = Some (q_abs (q_final s sched)).
Proof.
  unfold q_trace, q_final. revert s. induction sched as [|i r IH]; intros s H; cbn [q_run]; [reflexivity|].
  destruct (q_step s i) as [s1 ev] eqn:E. destruct (q_run s1 r) as [s2 tr] eqn:E2. cbn [fst snd q_apply_trace].
  pose proof (q_step_abs s i H) as Ha. pose proof (q_step_inv s i H) as [Hi _]. rewrite E in Ha, Hi.
  cbn [fst snd] in Ha, Hi. rewrite Ha. specialize (IH s1 Hi). rewrite E2 in IH. exact IH.
Qed.

Lemma q_abs_init pre progs : q_abs (q_init pre progs) = pre.
Proof. reflexivity. Qed.

Theorem q_refines_fifo pre progs sched :
  q_apply_trace pre (q_trace (q_init pre progs) sched) = Some (q_abs (q_final (q_init pre progs) sched)).
Proof. rewrite <- (q_abs_init pre progs) at 1. apply q_run_refines. apply q_init_inv. Qed.

(* consequences on the sequences of linearized pushes and pops *)
Definition q_pushed (tr : list (nat * q_event)) : list Z :=
  flat_map (fun p => match snd p with QELinPush v => [v] | _ => [] end) tr.
Definition q_popped (tr : list (nat * q_event)) : list Z :=
  flat_map (fun p => match snd p with QELinRetPop v => [v] | _ => [] end) tr.

Lemma q_apply_trace_conservation tr : forall a b,
  q_apply_trace a tr = Some b -> a ++ q_pushed tr = q_popped tr ++ b.
Proof.
  induction tr as [|[i ev] r IH]; intros a b H; cbn [q_apply_trace] in H.
  - inversion H; subst. cbn. rewrite app_nil_r. reflexivity.
  - destruct (q_apply_ev a ev) as [a'|] eqn:E; [|discriminate].
    specialize (IH a' b H). unfold q_pushed, q_popped in *. cbn [flat_map snd].
    destruct ev as [o| | |v| |v| | |]; cbn [q_apply_ev] in E; cbn [app].
    + inversion E; subst. exact IH.
    + inversion E; subst. exact IH.
    + destruct a; inversion E; subst. exact IH.
    + inversion E; subst. rewrite <- app_assoc in IH. exact IH.
    + inversion E; subst. exact IH.
    + destruct a as [|x a0]; [discriminate|]. destruct (Z.eqb x v) eqn:Ex; [|discriminate].
      apply Z.eqb_eq in Ex. inversion E; subst. cbn [app]. f_equal. exact IH.
    + inversion E; subst. exact IH.
    + discriminate.
    + inversion E; subst. exact IH.
Qed.

Theorem q_no_loss_dup_invent pre progs sched :
  let tr := q_trace (q_init pre progs) sched in
  pre ++ q_pushed tr = q_popped tr ++ q_abs (q_final (q_init pre progs) sched).
Proof. cbn zeta. apply q_apply_trace_conservation. apply q_refines_fifo. Qed.

(* ------------------------------------------------------------------ per-thread protocol *)

(* the events of one thread follow: Inv op ; internal* ; linearization point ; return,
   with the operations invoked in program order.  An empty Pop returns directly after a
   step of its own (QECand) at which the abstract queue was empty. *)
Inductive q_aut :=
| QAIdle
| QAPush (v : Z)        (* inside Push v, not yet linked *)
| QALinked              (* Push linked, must return next *)
| QAPop (cand : bool).  (* inside Pop; cand: the last own step saw the queue empty *)

Definition q_aut_step (a : q_aut) (todo : list q_op) (ev : q_event) : option (q_aut * list q_op) :=
  match a, ev with
  | QAIdle, QEInv o =>
      match todo with
      | o' :: rest =>
          match o, o' with
          | QPush v, QPush v' => if Z.eqb v v' then Some (QAPush v, rest) else None
          | QPop, QPop => Some (QAPop false, rest)
          | _, _ => None
          end
      | [] => None
      end
  | QAIdle, QENone => match todo with [] => Some (QAIdle, []) | _ => None end
  | QAPush v, QEInt => Some (QAPush v, todo)
  | QAPush v, QELinPush v' => if Z.eqb v v' then Some (QALinked, todo) else None
  | QALinked, QERetPush => Some (QAIdle, todo)
  | QAPop _, QEInt => Some (QAPop false, todo)
  | QAPop _, QECand => Some (QAPop true, todo)
  | QAPop true, QERetEmpty => Some (QAIdle, todo)
  | QAPop _, QELinRetPop _ => Some (QAIdle, todo)
  | _, _ => None
  end.

Fixpoint q_aut_run (a : q_aut) (todo : list q_op) (evs : list q_event) : option (q_aut * list q_op) :=
  match evs with
  | [] => Some (a, todo)
  | ev :: r => match q_aut_step a todo ev with Some (a', todo') => q_aut_run a' todo' r | None => None end
  end.

Definition q_proj (i : nat) (tr : list (nat * q_event)) : list q_event :=
  map snd (filter (fun p => Nat.eqb (fst p) i) tr).

Definition q_aut_of_pc (pc : q_pc) : q_aut :=
  match pc with
  | QIdle | QDead => QAIdle
  | QP1 v | QP2 v _ | QP3 v _ _ | QP4 v _ | QP5 v _ => QAPush v
  | QP6 _ => QALinked
  | QD4 _ _ false => QAPop true
  | QD1 | QD2 _ | QD3 _ _ | QD4 _ _ true | QD5 _ _ | QD6 _ _ => QAPop false
  end.

Lemma q_step_pc_aut s pc todo ch' hi' ti' pc' todo' ev :
  q_ginv (q_chain s) (q_hi s) (q_ti s) ->
  q_linv (q_chain s) (q_hi s) (q_ti s) pc ->
  q_step_pc s pc todo = (ch', hi', ti', pc', todo', ev) ->
  q_aut_step (q_aut_of_pc pc) todo ev = Some (q_aut_of_pc pc', todo').
Proof.
  unfold q_ginv. intros (G1 & G2 & G3) L H.
  destruct pc; cbn [q_step_pc q_linv] in *; unfold q_has_next in *.
  - destruct todo as [|[v|] rest]; inversion H; subst; cbn; rewrite ?Z.eqb_refl; reflexivity.
  - inversion H; subst; reflexivity.
  - inversion H; subst; reflexivity.
  - destruct (t =? q_ti s); [destruct nx|]; inversion H; subst; reflexivity.
  - destruct (S t <? length (q_chain s)); inversion H; subst; cbn; rewrite ?Z.eqb_refl; reflexivity.
  - inversion H; subst; reflexivity.
  - inversion H; subst; reflexivity.
  - inversion H; subst; reflexivity.
  - inversion H; subst; reflexivity.
  - destruct (S h <? length (q_chain s)); inversion H; subst; reflexivity.
  - destruct L as (L1 & L2 & L3 & L4 & L5).
    destruct (h =? q_hi s) eqn:E1.
    + destruct (h =? t) eqn:E2.
      * destruct nx; inversion H; subst; reflexivity.
      * apply Nat.eqb_neq in E2. destruct nx; [inversion H; subst; reflexivity|].
        specialize (L5 eq_refl). lia.
    + destruct nx; inversion H; subst; reflexivity.
  - inversion H; subst; reflexivity.
  - destruct (h =? q_hi s); inversion H; subst; reflexivity.
  - contradiction.
Qed.

Definition q_aut_of (s : q_state) (i : nat) : q_aut * list q_op :=
  match nth_error (q_threads s) i with
  | Some th => (q_aut_of_pc (q_pcof th), q_todo th)
  | None => (QAIdle, [])
  end.

Lemma nth_error_set_same {A} (l : list A) i x y :
  nth_error l i = Some y -> nth_error (firstn i l ++ x :: skipn (S i) l) i = Some x.
Proof.
  intros H. assert (Hi : i < length l) by (apply nth_error_Some; congruence).
  rewrite nth_error_app2; rewrite firstn_length_le by lia; [|lia].
  rewrite Nat.sub_diag. reflexivity.
Qed.

Lemma nth_error_set_other {A} (l : list A) i j x :
  i <> j -> i < length l -> nth_error (firstn i l ++ x :: skipn (S i) l) j = nth_error l j.
Proof.
  revert i j. induction l as [|y l IH]; intros i j Hij Hi; cbn [length] in Hi; [lia|].
  destruct i as [|i]; destruct j as [|j]; try lia; cbn [firstn skipn app nth_error]; try reflexivity.
  apply IH; lia.
Qed.

Lemma q_step_aut_same s i :
  q_inv s ->
  let '(a, todo) := q_aut_of s i in
  q_aut_step a todo (snd (q_step s i)) = Some (q_aut_of (fst (q_step s i)) i).
Proof.
  intros [G L]. unfold q_aut_of, q_step.
  destruct (nth_error (q_threads s) i) as [th|] eqn:E.
  - assert (Lth : q_linv (q_chain s) (q_hi s) (q_ti s) (q_pcof th)).
    { rewrite Forall_forall in L. apply L. eapply nth_error_In. exact E. }
    destruct (q_step_pc s (q_pcof th) (q_todo th)) as [[[[[ch' hi'] ti'] pc'] todo'] ev] eqn:Hs.
    cbn [fst snd q_threads]. unfold q_set_thread.
    rewrite (nth_error_set_same _ _ _ _ E). cbn [q_pcof q_todo].
    eapply q_step_pc_aut; eassumption.
  - cbn [fst snd]. rewrite E. reflexivity.
Qed.

Lemma q_step_aut_other s i j : i <> j -> q_aut_of (fst (q_step s i)) j = q_aut_of s j.
Proof.
  intros Hij. unfold q_aut_of, q_step.
  destruct (nth_error (q_threads s) i) as [th|] eqn:E; [|reflexivity].
  destruct (q_step_pc s (q_pcof th) (q_todo th)) as [[[[[ch' hi'] ti'] pc'] todo'] ev].
  cbn [fst q_threads]. unfold q_set_thread.
  rewrite nth_error_set_other; [reflexivity|exact Hij|]. apply nth_error_Some. congruence.
Qed.

Lemma q_run_protocol s sched j :
  q_inv s ->
  let '(a, todo) := q_aut_of s j in
  q_aut_run a todo (q_proj j (q_trace s sched)) = Some (q_aut_of (q_final s sched) j).
Proof.
  unfold q_trace, q_final, q_proj. revert s. induction sched as [|i r IH]; intros s H.
  - cbn. destruct (q_aut_of s j). reflexivity.
  - cbn [q_run]. destruct (q_step s i) as [s1 ev] eqn:E. destruct (q_run s1 r) as [s2 tr] eqn:E2.
    cbn [fst snd filter].
    pose proof (q_step_inv s i H) as [Hi _]. rewrite E in Hi. cbn [fst] in Hi.
    specialize (IH s1 Hi). rewrite E2 in IH. cbn [fst snd] in IH.
    destruct (Nat.eqb i j) eqn:Eij.
    + apply Nat.eqb_eq in Eij. subst j. cbn [map snd q_aut_run].
      pose proof (q_step_aut_same s i H) as Hs. rewrite E in Hs. cbn [fst snd] in Hs.
      destruct (q_aut_of s i) as [a todo]. rewrite Hs.
      destruct (q_aut_of s1 i) as [a1 todo1]. exact IH.
    + apply Nat.eqb_neq in Eij.
      pose proof (q_step_aut_other s i j Eij) as Ho. rewrite E in Ho. cbn [fst] in Ho.
      rewrite Ho in IH. exact IH.
Qed.

Theorem q_thread_protocol pre progs sched j :
  q_aut_run QAIdle (nth j progs []) (q_proj j (q_trace (q_init pre progs) sched))
  = Some (q_aut_of (q_final (q_init pre progs) sched) j).
Proof.
  pose proof (q_run_protocol (q_init pre progs) sched j (q_init_inv pre progs)) as H.
  assert (Hj : q_aut_of (q_init pre progs) j = (QAIdle, nth j progs [])).
  { unfold q_aut_of. cbn [q_init q_threads]. rewrite nth_error_map.
    destruct (nth_error progs j) as [p|] eqn:E; cbn [option_map q_pcof q_todo q_aut_of_pc].
    - rewrite (nth_error_nth _ _ _ E). reflexivity.
    - rewrite nth_overflow; [reflexivity|]. apply nth_error_None. exact E. }
  rewrite Hj in H. exact H.
Qed.

(* ------------------------------------------------------------------ solo completion (C02) *)

(* exact number of steps a thread needs to return from its current operation when it
   runs alone, as a function of its pc/locals and the shared state *)
Definition q_lag (n ti : nat) : bool := S ti <? n.
Definition q_muF (n ti : nat) : nat := if q_lag n ti then 9 else 5.
Definition q_muG (n hi ti : nat) : nat :=
  if hi =? ti then (if q_lag n ti then 10 else 4) else 5.
Definition q_cas_tail (t ti : nat) : nat := if t =? ti then S t else ti.

Definition q_muP5 (n ti t : nat) : nat := 1 + q_muF n (q_cas_tail t ti).
Definition q_muP4 (n ti t : nat) : nat := if S t <? n then 1 + q_muF n ti else 2.
Definition q_muP3 (n ti t : nat) (nx : bool) : nat :=
  if t =? ti then (if nx then 1 + q_muP5 n ti t else 1 + q_muP4 n ti t) else 1 + q_muF n ti.
Definition q_muD5 (n hi ti t : nat) : nat := 1 + q_muG n hi (q_cas_tail t ti).
Definition q_muD4 (n hi ti h t : nat) (nx : bool) : nat :=
  if h =? hi then
    (if h =? t then (if nx then 1 + q_muD5 n hi ti t else 1) else 2)
  else 1 + q_muG n hi ti.

Definition q_mu (ch : list Z) (hi ti : nat) (pc : q_pc) : nat :=
  let n := length ch in
  match pc with
  | QIdle | QDead => 0
  | QP1 _ => q_muF n ti
  | QP2 _ t => 1 + q_muP3 n ti t (S t <? n)
  | QP3 _ t nx => q_muP3 n ti t nx
  | QP4 _ t => q_muP4 n ti t
  | QP5 _ t => q_muP5 n ti t
  | QP6 _ => 1
  | QD1 => q_muG n hi ti
  | QD2 h => 2 + q_muD4 n hi ti h ti (S h <? n)
  | QD3 h t => 1 + q_muD4 n hi ti h t (S h <? n)
  | QD4 h t nx => q_muD4 n hi ti h t nx
  | QD5 _ t => q_muD5 n hi ti t
  | QD6 h _ => if h =? hi then 1 else 1 + q_muG n hi ti
  end.

Definition q_is_ret (ev : q_event) : bool :=
  match ev with QERetPush | QELinRetPop _ | QERetEmpty => true | _ => false end.

Ltac q_bools :=
  repeat match goal with
  | |- context [Nat.eqb ?a ?b] => destruct (Nat.eqb_spec a b)
  | |- context [Nat.ltb ?a ?b] => destruct (Nat.ltb_spec a b)
  | H : context [Nat.eqb ?a ?b] |- _ => destruct (Nat.eqb_spec a b)
  | H : context [Nat.ltb ?a ?b] |- _ => destruct (Nat.ltb_spec a b)
  end.

Lemma q_mu_bound ch hi ti pc : q_mu ch hi ti pc <= 13.
Proof.
  destruct pc; cbn [q_mu];
    unfold q_muD4, q_muD5, q_muP3, q_muP4, q_muP5, q_muG, q_muF, q_lag, q_cas_tail;
    try (destruct nx); q_bools; lia.
Qed.

(* one solo step: either the operation returns, or the measure decreases by one *)
Lemma q_step_pc_mu s pc todo ch' hi' ti' pc' todo' ev :
  q_ginv (q_chain s) (q_hi s) (q_ti s) ->
  q_linv (q_chain s) (q_hi s) (q_ti s) pc ->
  q_busy_pc pc = true ->
  q_step_pc s pc todo = (ch', hi', ti', pc', todo', ev) ->
  (q_is_ret ev = true /\ q_busy_pc pc' = false) \/
  (q_is_ret ev = false /\ q_busy_pc pc' = true /\
   S (q_mu ch' hi' ti' pc') = q_mu (q_chain s) (q_hi s) (q_ti s) pc).
Proof.
  unfold q_ginv. intros (G1 & G2 & G3) L Hb H.
  destruct pc; cbn [q_step_pc q_linv q_busy_pc] in *; unfold q_has_next in *; try discriminate;
    repeat match goal with H : _ /\ _ |- _ => destruct H end;
    repeat match goal with
    | H : context [Nat.eqb ?a ?b] |- _ => destruct (Nat.eqb_spec a b)
    | H : context [Nat.ltb ?a ?b] |- _ => destruct (Nat.ltb_spec a b)
    | H : context [if ?b then _ else _] |- _ => is_var b; destruct b
    end;
    repeat match goal with H : ?a = ?a -> _ |- _ => specialize (H eq_refl) end;
    try lia;
    inversion H; subst; cbn [q_is_ret q_busy_pc q_mu]; rewrite ?app_length; cbn [length];
    try (left; split; reflexivity);
    right; (split; [reflexivity|]); (split; [reflexivity|]);
    unfold q_muD4, q_muD5, q_muP3, q_muP4, q_muP5, q_muG, q_muF, q_lag, q_cas_tail;
    q_bools; lia.
Qed.

Lemma q_solo_S k s i :
  q_solo (S k) s i =
  (if q_is_ret (snd (q_step s i)) then Some 1
   else match q_solo k (fst (q_step s i)) i with Some n => Some (S n) | None => None end).
Proof. cbn [q_solo]. destruct (q_step s i) as [s1 ev]. destruct ev; reflexivity. Qed.

Lemma q_ret_mu_one s pc todo ch' hi' ti' pc' todo' ev :
  q_ginv (q_chain s) (q_hi s) (q_ti s) ->
  q_linv (q_chain s) (q_hi s) (q_ti s) pc ->
  q_busy_pc pc = true ->
  q_step_pc s pc todo = (ch', hi', ti', pc', todo', ev) ->
  q_is_ret ev = true ->
  q_mu (q_chain s) (q_hi s) (q_ti s) pc = 1.
Proof.
  unfold q_ginv. intros (G1 & G2 & G3) L Hb Hs Hr.
  destruct pc; cbn [q_step_pc q_linv q_busy_pc] in *; unfold q_has_next in *; try discriminate;
    repeat match goal with H : _ /\ _ |- _ => destruct H end;
    repeat match goal with
    | H : context [Nat.eqb ?a ?b] |- _ => destruct (Nat.eqb_spec a b)
    | H : context [Nat.ltb ?a ?b] |- _ => destruct (Nat.ltb_spec a b)
    | H : context [if ?b then _ else _] |- _ => is_var b; destruct b
    end;
    repeat match goal with H : ?a = ?a -> _ |- _ => specialize (H eq_refl) end;
    try lia;
    inversion Hs; subst; cbn [q_is_ret] in Hr; try discriminate; cbn [q_mu];
    unfold q_muD4, q_muD5, q_muP3, q_muP4, q_muP5, q_muG, q_muF, q_lag, q_cas_tail;
    q_bools; lia.
Qed.

Lemma q_solo_complete k : forall s i th,
  q_inv s -> nth_error (q_threads s) i = Some th -> q_busy_pc (q_pcof th) = true ->
  q_mu (q_chain s) (q_hi s) (q_ti s) (q_pcof th) <= k ->
  q_solo k s i = Some (q_mu (q_chain s) (q_hi s) (q_ti s) (q_pcof th)).
Proof.
  induction k as [|k IH]; intros s i th Hinv E Hb Hk; pose proof Hinv as [G L];
    assert (Lth : q_linv (q_chain s) (q_hi s) (q_ti s) (q_pcof th))
      by (rewrite Forall_forall in L; apply L; eapply nth_error_In; exact E);
    destruct (q_step_pc s (q_pcof th) (q_todo th)) as [[[[[ch' hi'] ti'] pc'] todo'] ev] eqn:Hs;
    destruct (q_step_pc_mu _ _ _ _ _ _ _ _ _ G Lth Hb Hs) as [[Hr Hb']|(Hr & Hb' & Hm)].
  - pose proof (q_ret_mu_one _ _ _ _ _ _ _ _ _ G Lth Hb Hs Hr). lia.
  - lia.
  - rewrite q_solo_S.
    assert (Hst : q_step s i = ({| q_chain := ch'; q_hi := hi'; q_ti := ti';
                    q_threads := q_set_thread s i {| q_pcof := pc'; q_todo := todo' |} |}, ev))
      by (unfold q_step; rewrite E, Hs; reflexivity).
    rewrite Hst. cbn [fst snd]. rewrite Hr.
    rewrite (q_ret_mu_one _ _ _ _ _ _ _ _ _ G Lth Hb Hs Hr). reflexivity.
  - rewrite q_solo_S.
    set (s1 := {| q_chain := ch'; q_hi := hi'; q_ti := ti';
                  q_threads := q_set_thread s i {| q_pcof := pc'; q_todo := todo' |} |}).
    assert (Hst : q_step s i = (s1, ev)) by (unfold q_step; rewrite E, Hs; reflexivity).
    rewrite Hst. cbn [fst snd]. rewrite Hr.
    assert (Hinv1 : q_inv s1).
    { pose proof (q_step_inv s i Hinv) as [H1 _]. rewrite Hst in H1. exact H1. }
    assert (E1 : nth_error (q_threads s1) i = Some {| q_pcof := pc'; q_todo := todo' |}).
    { unfold s1. cbn [q_threads]. unfold q_set_thread. eapply nth_error_set_same. exact E. }
    rewrite (IH s1 i _ Hinv1 E1 Hb').
    + cbn [q_pcof]. unfold s1. cbn [q_chain q_hi q_ti]. rewrite Hm. reflexivity.
    + cbn [q_pcof]. unfold s1. cbn [q_chain q_hi q_ti]. lia.
Qed.

Theorem q_solo_completes pre progs sched i :
  let s := q_final (q_init pre progs) sched in
  q_busy s i = true ->
  exists k, k <= 13 /\ q_solo 13 s i = Some k.
Proof.
  cbn zeta. intros Hb. unfold q_busy in Hb.
  destruct (nth_error (q_threads (q_final (q_init pre progs) sched)) i) as [th|] eqn:E; [|discriminate].
  eexists. split; [|eapply q_solo_complete; [apply q_reachable_inv | exact E | exact Hb | apply q_mu_bound]].
  apply q_mu_bound.
Qed.

(* without the helping branches a frozen pusher blocks everybody else for ever *)
Definition q_stalled_state : q_state :=
  q_final (q_init [] [[QPush 1%Z]; [QPush 2%Z]]) [0; 0; 0; 0; 0; 1].
Lemma q_no_help_refuted :
  q_busy q_stalled_state 1 = true /\ q_solo_nohelp 1000 q_stalled_state 1 = None /\
  q_solo 13 q_stalled_state 1 = Some 9.
Proof. vm_compute. repeat split. Qed.

(* ------------------------------------------------------------------ linearization (Herlihy-Wing) *)
(* The linearization of a run is read off its trace: Push v at its link CAS, Pop -> v at
   its head CAS, Pop -> nil at the LAST own step that saw the queue empty, i.e. the QECand
   step that is directly followed (in that thread) by the QERetEmpty return.  *)
Inductive q_sop := SPush (v : Z) | SPopSome (v : Z) | SPopNone.

Definition q_seq_apply (a : list Z) (o : q_sop) : option (list Z) :=
  match o with
  | SPush v => Some (a ++ [v])
  | SPopSome v => match a with x :: r => if Z.eqb x v then Some r else None | [] => None end
  | SPopNone => match a with [] => Some [] | _ => None end
  end.
Fixpoint q_seq_run (a : list Z) (l : list q_sop) : option (list Z) :=
  match l with
  | [] => Some a
  | o :: r => match q_seq_apply a o with Some a' => q_seq_run a' r | None => None end
  end.

Fixpoint q_next_of (j : nat) (tr : list (nat * q_event)) : option q_event :=
  match tr with
  | [] => None
  | (i, e) :: r => if Nat.eqb i j then Some e else q_next_of j r
  end.

Definition q_is_ret_empty (o : option q_event) : bool :=
  match o with Some QERetEmpty => true | _ => false end.

(* linearization point attached to an event, given the next event of the same thread *)
Definition q_lp_of (e : q_event) (next : option q_event) : option q_sop :=
  match e with
  | QELinPush v => Some (SPush v)
  | QELinRetPop v => Some (SPopSome v)
  | QECand => if q_is_ret_empty next then Some SPopNone else None
  | _ => None
  end.

Fixpoint q_lin (tr : list (nat * q_event)) : list (nat * q_sop) :=
  match tr with
  | [] => []
  | (j, e) :: r =>
      match q_lp_of e (q_next_of j r) with
      | Some o => (j, o) :: q_lin r
      | None => q_lin r
      end
  end.

(* (1) the linearization is a legal sequential FIFO history *)
Lemma q_lin_legal tr : forall a b,
  q_apply_trace a tr = Some b -> q_seq_run a (map snd (q_lin tr)) = Some b.
Proof.
  induction tr as [|[j e] r IH]; intros a b H; cbn [q_apply_trace q_lin] in *.
  - exact H.
  - destruct (q_apply_ev a e) as [a'|] eqn:E; [|discriminate].
    specialize (IH a' b H).
    destruct e as [o| | |v| |v| | |]; cbn [q_lp_of q_apply_ev] in *.
    + inversion E; subst; exact IH.
    + inversion E; subst; exact IH.
    + (* Cand *) destruct a; [|discriminate]. inversion E; subst.
      destruct (q_is_ret_empty (q_next_of j r)); [|exact IH].
      cbn [map snd q_seq_run q_seq_apply]. exact IH.
    + (* LinPush *) inversion E; subst. cbn [map snd q_seq_run q_seq_apply]. exact IH.
    + inversion E; subst; exact IH.
    + (* LinRetPop *) cbn [map snd q_seq_run q_seq_apply].
      destruct a as [|x a0]; [discriminate|]. destruct (Z.eqb x v); [|discriminate].
      inversion E; subst. exact IH.
    + inversion E; subst; exact IH.
    + discriminate.
    + inversion E; subst; exact IH.
Qed.

(* (2) per thread: every linearization point lies between the invocation and the return of
   the operation it belongs to, carries that operation's result, and there is exactly one
   per completed operation; operations are invoked in program order *)
Inductive q_tst := TIdle | TPendPush (v : Z) | TLinPush | TPendPop | TLinPopNone.

Definition q_op_eqb (a b : q_op) : bool :=
  match a, b with QPush v, QPush v' => Z.eqb v v' | QPop, QPop => true | _, _ => false end.

Fixpoint q_tcheck (st : q_tst) (todo : list q_op) (evs : list q_event) : bool :=
  match evs with
  | [] => true
  | e :: rest =>
      let lp := q_lp_of e (hd_error rest) in
      match st, e, lp with
      | TIdle, QEInv o, None =>
          match todo with
          | o' :: t' => q_op_eqb o o' &&
                        q_tcheck (match o with QPush v => TPendPush v | QPop => TPendPop end) t' rest
          | [] => false
          end
      | TIdle, QENone, None => match todo with [] => q_tcheck TIdle [] rest | _ => false end
      | TPendPush v, QEInt, None => q_tcheck st todo rest
      | TPendPush v, QELinPush _, Some (SPush v') => Z.eqb v v' && q_tcheck TLinPush todo rest
      | TLinPush, QERetPush, None => q_tcheck TIdle todo rest
      | TPendPop, QEInt, None => q_tcheck st todo rest
      | TPendPop, QECand, None => q_tcheck st todo rest
      | TPendPop, QECand, Some SPopNone => q_tcheck TLinPopNone todo rest
      | TLinPopNone, QERetEmpty, None => q_tcheck TIdle todo rest
      | TPendPop, QELinRetPop _, Some (SPopSome _) => q_tcheck TIdle todo rest
      | _, _, _ => false
      end
  end.

Definition q_tst_of (a : q_aut) (evs : list q_event) : q_tst :=
  match a with
  | QAIdle => TIdle
  | QAPush v => TPendPush v
  | QALinked => TLinPush
  | QAPop c => if c && q_is_ret_empty (hd_error evs) then TLinPopNone else TPendPop
  end.

Lemma q_aut_tcheck evs : forall a todo x,
  q_aut_run a todo evs = Some x -> q_tcheck (q_tst_of a evs) todo evs = true.
Proof.
  induction evs as [|e rest IH]; intros a todo x H; [reflexivity|].
  cbn [q_aut_run] in H.
  destruct (q_aut_step a todo e) as [[a' todo']|] eqn:E; [|discriminate].
  specialize (IH a' todo' x H).
  destruct a as [|v| |c]; destruct e; cbn [q_aut_step] in E; try discriminate;
    try (destruct c; discriminate).
  - (* Idle, Inv *)
    destruct todo as [|o' t']; [discriminate|].
    destruct o as [v|]; destruct o' as [v'|]; try discriminate.
    + destruct (Z.eqb v v') eqn:Ev; [|discriminate]. inversion E; subst.
      cbn [q_tst_of q_tcheck q_lp_of q_op_eqb]. rewrite Ev. exact IH.
    + inversion E; subst. cbn [q_tst_of q_tcheck q_lp_of q_op_eqb andb] in *. exact IH.
  - (* Idle, None *)
    destruct todo; [|discriminate]. inversion E; subst. cbn [q_tst_of q_tcheck q_lp_of] in *. exact IH.
  - (* Push, Int *) inversion E; subst. cbn [q_tst_of q_tcheck q_lp_of] in *. exact IH.
  - (* Push, LinPush *)
    destruct (Z.eqb v v0) eqn:Ev; [|discriminate]. inversion E; subst.
    cbn [q_tst_of q_tcheck q_lp_of] in *. rewrite Ev. exact IH.
  - (* Linked, RetPush *) inversion E; subst. cbn [q_tst_of q_tcheck q_lp_of] in *. exact IH.
  - (* Pop, Int *)
    destruct c; inversion E; subst; cbn [q_tst_of q_is_ret_empty hd_error andb q_tcheck q_lp_of] in *; exact IH.
  - (* Pop, Cand *)
    destruct c; inversion E; subst; cbn [q_tst_of q_is_ret_empty hd_error andb q_tcheck q_lp_of] in *;
      destruct (q_is_ret_empty (hd_error rest)); exact IH.
  - (* Pop, LinRetPop *)
    destruct c; inversion E; subst; cbn [q_tst_of q_is_ret_empty hd_error andb q_tcheck q_lp_of] in *; exact IH.
  - (* Pop true, RetEmpty *)
    destruct c; [|discriminate]. inversion E; subst.
    cbn [q_tst_of q_is_ret_empty hd_error andb q_tcheck q_lp_of] in *. exact IH.
Qed.

(* (3) the thread-j part of the global linearization is the linearization of thread j's
   own events: the look-ahead "next event of thread j" is the head of its projection *)
Lemma q_next_of_proj j tr : q_next_of j tr = hd_error (q_proj j tr).
Proof.
  unfold q_proj. induction tr as [|[i e] r IH]; [reflexivity|].
  cbn [q_next_of filter fst]. destruct (Nat.eqb i j); [reflexivity|exact IH].
Qed.

Fixpoint q_lin_thread (evs : list q_event) : list q_sop :=
  match evs with
  | [] => []
  | e :: rest => match q_lp_of e (hd_error rest) with
                 | Some o => o :: q_lin_thread rest
                 | None => q_lin_thread rest
                 end
  end.

Lemma q_lin_proj j tr :
  map snd (filter (fun p => Nat.eqb (fst p) j) (q_lin tr)) = q_lin_thread (q_proj j tr).
Proof.
  induction tr as [|[i e] r IH]; [reflexivity|].
  cbn [q_lin]. unfold q_proj in *. cbn [filter fst].
  destruct (Nat.eqb i j) eqn:Eij.
  - apply Nat.eqb_eq in Eij. subst i. cbn [map snd q_lin_thread].
    rewrite q_next_of_proj. unfold q_proj.
    destruct (q_lp_of e _); cbn [filter fst map snd]; rewrite ?Nat.eqb_refl; cbn [map snd]; rewrite IH; reflexivity.
  - destruct (q_lp_of e (q_next_of i r)); cbn [filter fst]; rewrite ?Eij; exact IH.
Qed.

Theorem q_linearizable pre progs sched :
  let tr := q_trace (q_init pre progs) sched in
  q_seq_run pre (map snd (q_lin tr)) = Some (q_abs (q_final (q_init pre progs) sched)) /\
  forall j,
    q_tcheck TIdle (nth j progs []) (q_proj j tr) = true /\
    map snd (filter (fun p => Nat.eqb (fst p) j) (q_lin tr)) = q_lin_thread (q_proj j tr).
Proof.
  cbn zeta. split.
  - apply q_lin_legal. apply q_refines_fifo.
  - intros j. split; [|apply q_lin_proj].
    pose proof (q_thread_protocol pre progs sched j) as H.
    apply q_aut_tcheck in H. exact H.
Qed.
