(* RaceCacheGen.v -- the generic step theorem: if a step of thread tid satisfies the monitor-free
   description rc_sf (RaceCacheInv.v), the facts of rc_minv are re-established in the monitor
   state reached by the step's events.  No case analysis over the pcs of cachex here. *)
From Got Require Import Base ListAux Race RaceProofs RaceHB RaceHBProofs RaceMonLemmas RaceCacheMon.
From Got Require Import Cache CacheSteps RaceCache RaceCacheStruct RaceCacheInv.
Local Open Scope nat_scope.

Ltac ulia := unfold rc_locof, rc_val, rc_err, rc_tz, rc_tn, rc_mp, rc_ut, rc_pr, rc_wg, rc_ch, rc_mu in *; lia.

Lemma rc_klocs_char n pcj x :
  In x (rc_klocs n pcj) ->
  exists g, rc_locof g x /\
    (rc_own pcj = Some g \/ (rc_redone pcj = Some g /\ x = rc_err g) \/ (rc_setter pcj = true /\ g = n)).
Proof.
  destruct pcj as [ |k|k|k f|k f past|st last next|st last nx|k|k|fo|f|f past|x0|w f|w f p|w f p past|w x0
                   |k v e|k v e|k v e now|k v e now| |f v e|f v e now|f v e now| | |k f rest|k f past rest| ];
    cbn [rc_klocs rc_own rc_redone rc_setter In]; try contradiction.
  - intros [<-|[]]. exists f. split; [ulia|]. right. left. auto.
  - destruct next as [g|]; cbn [In]; [|contradiction].
    intros [<-|[<-|[<-|[]]]]; exists g; (split; [ulia|left; reflexivity]).
  - intros [<-|[<-|[<-|[]]]]; exists nx; (split; [ulia|left; reflexivity]).
  - intros [<-|[]]. exists f. split; [ulia|]. right. left. auto.
  - intros [<-|[]]. exists p. split; [ulia|]. right. left. auto.
  - intros [<-|[<-|[<-|[<-|[]]]]]; exists n; (split; [ulia|right; right; auto]).
  - intros [<-|[<-|[]]]; exists n; (split; [ulia|right; right; auto]).
  - intros [<-|[<-|[<-|[]]]]; exists f; (split; [ulia|left; reflexivity]).
  - intros [<-|[<-|[<-|[]]]]; exists f; (split; [ulia|left; reflexivity]).
  - intros [<-|[<-|[]]]; exists f; (split; [ulia|left; reflexivity]).
  - intros [<-|[]]. exists f. split; [ulia|]. right. left. auto.
Qed.

Lemma rc_klocs_nosetter n n' pcj : rc_setter pcj = false -> rc_klocs n pcj = rc_klocs n' pcj.
Proof. destruct pcj; cbn; try reflexivity; discriminate. Qed.

Lemma rc_setter_holds pcj : rc_setter pcj = true -> rc_holds pcj = true.
Proof. destruct pcj; cbn; try discriminate; reflexivity. Qed.

Section Gen.
Variables (N : nat) (m : c_state) (lk : option nat) (pcof : nat -> option cs_pc) (tid : nat) (pc : cs_pc).
Variables (m' : c_state) (lk' : option nat) (pc' : cs_pc) (evs : list rc_ev) (mon : rc_mon).
Hypothesis Sv : rc_sinv m lk pcof.
Hypothesis Hpc : pcof tid = Some pc.
Hypothesis En : rc_enabled m lk pcof pc.
Hypothesis F : rc_sf m lk pcof tid pc m' lk' pc' evs.
Hypothesis I : rc_minv m lk pcof mon.
Local Notation nf := (length (c_futs m)).
Local Notation nf' := (length (c_futs m')).
Local Notation pcof' := (rc_updpc pcof tid pc').
Local Notation mon' := (rm_msteps N mon tid evs).

Lemma g_holds : rc_holds pc = true -> lk = Some tid.
Proof. apply (rs_lock _ _ _ Sv tid pc Hpc). Qed.

Lemma g_own_tid f : rc_own pc = Some f -> f < nf /\ ~ In f (c_queue m) /\
  (rc_iswsp pc = true -> cs_fdone m f <> None) /\ (rc_iswsp pc = false -> cs_fdone m f = None).
Proof. apply (rs_own _ _ _ Sv tid pc f Hpc). Qed.

Lemma g_complete_lt f : rc_complete m pcof f -> f < nf.
Proof. intros [H _]. apply rc_fdone_lt. exact H. Qed.

(* ---- an old K fact of another thread is about a location this step does not write *)
Lemma g_stable_K j x : j <> tid -> rc_Kfact m lk pcof j x -> ~ In (RWrite x) evs.
Proof.
  intros Hj Hk Hw. destruct (sf_W _ _ _ _ _ _ _ _ _ F x Hw) as [[-> Hh]|[(Hl & Hh & Hns & _)|(f & v & e & Epc & Hx)]].
  - destruct Hk as [[Hlk _]|(pcj & Hpj & Hin)].
    + apply g_holds in Hh. congruence.
    + destruct (rc_klocs_char _ _ _ Hin) as (g & Hg & _). exact (rc_locof_mp g Hg).
  - destruct Hk as [[_ ->]|(pcj & Hpj & Hin)]; [exact (rc_locof_mp _ Hl)|].
    destruct (rc_klocs_char _ _ _ Hin) as (g & Hg & Hkind).
    assert (g = nf) by (apply (rc_locof_inj g nf x); assumption). subst g.
    destruct Hkind as [Ho|[[Hr _]|[Hs _]]].
    + destruct (rs_own _ _ _ Sv j pcj _ Hpj Ho) as [A _]. lia.
    + pose proof (rs_done _ _ _ Sv j pcj _ Hpj Hr) as A. apply rc_fdone_lt in A. lia.
    + apply rc_setter_holds in Hs. apply (rs_lock _ _ _ Sv j pcj Hpj) in Hs. apply g_holds in Hh. congruence.
  - assert (Ho : rc_own pc = Some f) by (rewrite Epc; reflexivity).
    assert (Hnw : rc_iswsp pc = false) by (rewrite Epc; reflexivity).
    destruct (g_own_tid f Ho) as (A & B & _ & D). specialize (D Hnw).
    destruct Hk as [[_ ->]|(pcj & Hpj & Hin)]; [ulia|].
    destruct (rc_klocs_char _ _ _ Hin) as (g & Hg & Hkind).
    assert (g = f) by (apply (rc_locof_inj g f x); [exact Hg|ulia]). subst g.
    destruct Hkind as [Ho0|[[Hr _]|[_ Hs]]].
    + apply Hj. apply (rs_uniq _ _ _ Sv j tid pcj _ f Hpj Hpc Ho0). exact Ho.
    + exact (rs_done _ _ _ Sv j pcj _ Hpj Hr D).
    + lia.
Qed.

Lemma g_stable_P o x : rc_Pfact m lk pcof o x -> ~ In (RWrite x) evs.
Proof.
  assert (Hlt : forall f, cs_fdone m f <> None -> f < nf) by (intros f; apply rc_fdone_lt).
  assert (Hwld : forall f v e, pc = CsWLD f v e ->
            f < nf /\ ~ In f (c_queue m) /\ cs_fdone m f = None).
  { intros f v e Epc.
    assert (Ho : rc_own pc = Some f) by (rewrite Epc; reflexivity).
    assert (Hnw : rc_iswsp pc = false) by (rewrite Epc; reflexivity).
    destruct (g_own_tid f Ho) as (A & B & _ & D). auto. }
  intros Hp. destruct Hp as [f Hf|f y Hd Hy|f y Hc Hy|f y Hq Hy|Hl|j k v e now y Hj Hy]; intros Hw;
    destruct (sf_W _ _ _ _ _ _ _ _ _ F _ Hw) as [[Hx Hh]|[(Hl' & Hh & Hns & _)|(g & v' & e' & Epc & Hx)]].
  - ulia.
  - assert (f = nf) by (apply (rc_locof_inj f nf (rc_tz f)); [ulia|exact Hl']). lia.
  - ulia.
  - ulia.
  - assert (f = nf) by (apply (rc_locof_inj f nf y); [ulia|exact Hl']). apply Hlt in Hd. lia.
  - destruct (Hwld g v' e' Epc) as (A & B & D). assert (g = f) by ulia. subst g. exact (Hd D).
  - ulia.
  - assert (f = nf) by (apply (rc_locof_inj f nf y); [ulia|exact Hl']). apply g_complete_lt in Hc. lia.
  - destruct (Hwld g v' e' Epc) as (A & B & D). assert (g = f) by ulia. subst g. destruct Hc as [Hc _]. exact (Hc D).
  - ulia.
  - assert (f = nf) by (apply (rc_locof_inj f nf y); [ulia|exact Hl']).
    destruct (rs_queue _ _ _ Sv f Hq) as [A _]. lia.
  - destruct (Hwld g v' e' Epc) as (A & B & D). assert (g = f) by ulia. subst g. exact (B Hq).
  - apply g_holds in Hh. congruence.
  - exact (rc_locof_mp _ Hl').
  - ulia.
  - ulia.
  - assert (Hhj : rc_holds (CsSSP k v e now) = true) by reflexivity.
    apply (rs_lock _ _ _ Sv j _ Hj) in Hhj. apply g_holds in Hh.
    assert (j = tid) by congruence. subst j. rewrite Hpc in Hj. inversion Hj as [Epc]. rewrite Epc in Hns. discriminate.
  - destruct (Hwld g v' e' Epc) as (A & B & D). ulia.
Qed.

(* ---- reads of the step against locations nobody has read *)
Lemma g_stable_undone x : rc_undone m x -> ~ In (RRead x) evs.
Proof.
  intros (f & Hf & Hd & Hx) Hr.
  destruct (sf_R _ _ _ _ _ _ _ _ _ F x Hr) as [[-> _]|[(g & Hg & [[-> _]|[-> Hdg]])|[(g & Hg & ->)|(g & Epc & Hy)]]].
  - ulia.
  - ulia.
  - assert (g = f) by ulia. subst g. exact (Hdg Hd).
  - assert (g = f) by ulia. subst g. exact (rs_done _ _ _ Sv tid pc f Hpc Hg Hd).
  - assert (g = f) by ulia. subst g. destruct En as [_ E2]. destruct (E2 f Epc) as [Hc _]. exact (Hc Hd).
Qed.

Lemma g_stable_fresh_R x : rc_fresh m pcof x -> ~ In (RRead x) evs.
Proof.
  intros (f & Hl & Hf) Hr.
  assert (Hge : nf <= f) by (destruct Hf as [H|[H _]]; lia).
  destruct (sf_R _ _ _ _ _ _ _ _ _ F x Hr) as [[-> _]|[(g & Hg & Hy)|[(g & Hg & ->)|(g & Epc & Hy)]]].
  - exact (rc_locof_mp _ Hl).
  - pose proof (rs_futs _ _ _ Sv tid pc g Hpc Hg) as A.
    assert (f = g) by (apply (rc_locof_inj f g x); [exact Hl|destruct Hy as [[-> _]|[-> _]]; ulia]). lia.
  - pose proof (rs_done _ _ _ Sv tid pc g Hpc Hg) as A. apply rc_fdone_lt in A.
    assert (f = g) by (apply (rc_locof_inj f g (rc_err g)); [exact Hl|ulia]). lia.
  - destruct En as [_ E2]. pose proof (g_complete_lt g (E2 g Epc)) as A.
    assert (f = g) by (apply (rc_locof_inj f g x); [exact Hl|ulia]). lia.
Qed.

Lemma g_pcof'_other j : j <> tid -> pcof' j = pcof j.
Proof. apply rc_updpc_other. Qed.

(* a fresh location after the step was fresh before it, and is not touched by it *)
Lemma g_fresh_back x : rc_fresh m' pcof' x ->
  rc_fresh m pcof x /\ ~ In (RWrite x) evs /\ ~ In (RRead x) evs.
Proof.
  intros (f & Hl & Hf). pose proof (sf_len _ _ _ _ _ _ _ _ _ F) as Hlen.
  assert (Hold : rc_fresh m pcof x).
  { exists f. split; [exact Hl|]. destruct Hf as [Hf|[Hf Hns]]; [left; lia|].
    destruct (Nat.eq_dec nf' nf) as [E|E]; [|left; lia].
    right. split; [lia|]. intros j pcj Hj. destruct (Nat.eq_dec j tid) as [->|Hne].
    - rewrite Hpc in Hj. inversion Hj; subst pcj.
      destruct (rc_setter pc) eqn:Es; [|reflexivity].
      destruct (sf_setter _ _ _ _ _ _ _ _ _ F Es) as [H|H]; [|lia].
      rewrite (Hns tid pc' (rc_updpc_same _ _ _)) in H. discriminate.
    - apply (Hns j pcj). rewrite g_pcof'_other by exact Hne. exact Hj. }
  split; [exact Hold|]. split; [|apply g_stable_fresh_R; exact Hold].
  intros Hw. destruct (sf_W _ _ _ _ _ _ _ _ _ F x Hw) as [[-> _]|[(Hl' & _ & _ & Hgrow)|(g & v & e & Epc & Hx)]].
  - exact (rc_locof_mp _ Hl).
  - assert (f = nf) by (apply (rc_locof_inj f nf x); assumption). subst f.
    destruct Hf as [Hf|[Hf Hns]]; [lia|]. destruct Hgrow as [H|H]; [lia|].
    rewrite (Hns tid pc' (rc_updpc_same _ _ _)) in H. discriminate.
  - assert (Ho : rc_own pc = Some g) by (rewrite Epc; reflexivity).
    destruct (g_own_tid g Ho) as (A & _).
    assert (f = g) by (apply (rc_locof_inj f g x); [exact Hl|ulia]).
    destruct Hf as [Hf|[Hf _]]; lia.
Qed.

Lemma g_nosetter_grow : nf' = S nf -> rc_setter pc = false -> rc_nosetter pcof.
Proof.
  intros Hg Hs j pcj Hj. destruct (rc_setter pcj) eqn:E; [|reflexivity]. exfalso.
  destruct (sf_grow _ _ _ _ _ _ _ _ _ F Hg) as (Hh & _). apply g_holds in Hh.
  pose proof (rc_setter_holds _ E) as E'. apply (rs_lock _ _ _ Sv j pcj Hj) in E'.
  assert (j = tid) by congruence. subst j. rewrite Hpc in Hj. inversion Hj; subst pcj. congruence.
Qed.

(* ---- the theorem *)
Theorem rc_minv_step : rc_minv m' lk' pcof' mon'.
Proof.
  pose proof (sf_len _ _ _ _ _ _ _ _ _ F) as Hlen.
  pose proof (sf_lock _ _ _ _ _ _ _ _ _ F) as Hlm.
  constructor.
  - (* no flag *)
    apply rm_obl_ok; [apply (mi_nr _ _ _ _ I)|]. apply (rc_obl_rm m lk pcof tid mon); [exact I|].
    apply (sf_obl _ _ _ _ _ _ _ _ _ F).
  - (* K facts *)
    intros j x Hk. destruct (Nat.eq_dec j tid) as [->|Hne].
    + destruct Hk as [[Hl ->]|(pcj & Hpj & Hin)].
      * destruct (sf_acquire _ _ _ _ _ _ _ _ _ F Hl) as [H|[H ->]].
        -- apply rm_msteps_K_own. apply (mi_K _ _ _ _ I). left. auto.
        -- cbn. apply (rm_acq_K N mon tid (RAcq rc_mu) rc_mu); [reflexivity|].
           apply (mi_P _ _ _ _ I). apply PfMu. exact H.
      * rewrite rc_updpc_same in Hpj. inversion Hpj; subst pcj.
        apply rm_msteps_Kp. apply (rc_kp_Kp m lk pcof tid mon); [exact I|].
        apply (sf_K _ _ _ _ _ _ _ _ _ F). exact Hin.
    + assert (Hold : rc_Kfact m lk pcof j x).
      { destruct Hk as [[Hl ->]|(pcj & Hpj & Hin)].
        - left. split; [|reflexivity].
          destruct Hlm as [[E _]|[(_ & E & _)|(_ & E & _)]]; congruence.
        - rewrite g_pcof'_other in Hpj by exact Hne. right. exists pcj. split; [exact Hpj|].
          destruct (Nat.eq_dec nf' nf) as [E|E]; [rewrite <- E; exact Hin|].
          assert (Hg : nf' = S nf) by lia.
          destruct (rc_setter pcj) eqn:Es.
          + exfalso. destruct (sf_grow _ _ _ _ _ _ _ _ _ F Hg) as (Hh & _). apply g_holds in Hh.
            apply rc_setter_holds in Es. apply (rs_lock _ _ _ Sv j pcj Hpj) in Es. congruence.
          + rewrite (rc_klocs_nosetter nf nf' pcj Es). exact Hin. }
      apply rm_msteps_K_keep; [apply (g_stable_K j x Hne Hold)|apply (mi_K _ _ _ _ I); exact Hold].
  - (* P facts *)
    intros o x Hp.
    assert (Hor : rc_Pfact m lk pcof o x \/ rm_P mon' o x).
    { destruct Hp as [f Hf|f y Hd Hy|f y Hc Hy|f y Hq Hy|Hl|j k v e now y Hj Hy].
      - destruct (Nat.lt_ge_cases f nf) as [A|A]; [left; apply PfTz; exact A|].
        assert (Hg : nf' = S nf) by lia. assert (f = nf) by lia. subst f.
        destruct (sf_grow _ _ _ _ _ _ _ _ _ F Hg) as (_ & _ & [(k & v & e & now & Epc & _)|[Hs _]]).
        + left. apply (PfSet m lk pcof tid k v e now); [rewrite Hpc, Epc; reflexivity|auto].
        + right. apply (rc_pubd_P m lk pcof tid N mon); [exact I|].
          apply (sf_N1 _ _ _ _ _ _ _ _ _ F Hg Hs).
      - destruct (cs_fdone m f) eqn:Ed; [left; apply PfDone; [congruence|exact Hy]|].
        destruct (sf_undone _ _ _ _ _ _ _ _ _ F f Ed Hd) as [(-> & Hs & Hg)|[Hw Ho]].
        + destruct (sf_grow _ _ _ _ _ _ _ _ _ F Hg) as (_ & _ & [(k & v & e & now & Epc & _)|[Hs' _]]); [|congruence].
          left. apply (PfSet m lk pcof tid k v e now); [rewrite Hpc, Epc; reflexivity|tauto].
        + right. apply (rc_pubd_P m lk pcof tid N mon); [exact I|].
          apply (sf_N _ _ _ _ _ _ _ _ _ F).
          destruct pc; cbn in Hw, Ho; try discriminate. inversion Ho; subst. cbn [rc_newP In].
          destruct Hy as [->| ->]; auto.
      - destruct Hc as [Hd Hnw].
        destruct (rc_iswsp pc) eqn:Ew.
        + (* this is the step that runs wg.Done, possibly of f *)
          destruct pc as [ | | | | | | | | | | | | | | | | | | | | | | | |g v e now| | | | | ]; cbn in Ew; try discriminate.
          destruct (Nat.eq_dec g f) as [->|Hgf].
          * right. apply (rc_pubd_P m lk pcof tid N mon); [exact I|].
            apply (sf_N _ _ _ _ _ _ _ _ _ F). cbn [rc_newP In]. destruct Hy as [->| ->]; auto.
          * left. apply PfWg; [|exact Hy]. split.
            -- destruct (cs_fdone m f) eqn:Ed; [congruence|exfalso].
               destruct (sf_undone _ _ _ _ _ _ _ _ _ F f Ed Hd) as [(_ & Hs & _)|[Hw _]]; cbn in *; discriminate.
            -- intros j pcj Hj Hwj Hoj. destruct (Nat.eq_dec j tid) as [->|Hne].
               ++ rewrite Hpc in Hj. inversion Hj; subst pcj. cbn in Hoj. congruence.
               ++ apply (Hnw j pcj); [rewrite g_pcof'_other by exact Hne; exact Hj|exact Hwj|exact Hoj].
        + destruct (cs_fdone m f) eqn:Ed.
          * left. apply PfWg; [|exact Hy]. split; [congruence|].
            intros j pcj Hj Hwj Hoj. destruct (Nat.eq_dec j tid) as [->|Hne].
            -- rewrite Hpc in Hj. inversion Hj; subst pcj. congruence.
            -- apply (Hnw j pcj); [rewrite g_pcof'_other by exact Hne; exact Hj|exact Hwj|exact Hoj].
          * destruct (sf_undone _ _ _ _ _ _ _ _ _ F f Ed Hd) as [(-> & Hs & Hg)|[Hw Ho]].
            -- destruct (sf_grow _ _ _ _ _ _ _ _ _ F Hg) as (_ & _ & [(k & v & e & now & Epc & _)|[Hs' _]]); [|congruence].
               right. apply (rc_pubd_P m lk pcof tid N mon); [exact I|].
               apply (sf_N _ _ _ _ _ _ _ _ _ F). rewrite Epc. cbn [rc_newP In]. destruct Hy as [->| ->]; auto.
            -- exfalso. destruct (sf_wsu _ _ _ _ _ _ _ _ _ F Hw) as [A B].
               apply (Hnw tid pc' (rc_updpc_same _ _ _) A). congruence.
      - destruct (sf_queue _ _ _ _ _ _ _ _ _ F f Hq) as [H|(st & last & Epc)]; [left; apply PfCh; assumption|].
        right. apply (rc_pubd_P m lk pcof tid N mon); [exact I|].
        apply (sf_N _ _ _ _ _ _ _ _ _ F). rewrite Epc. cbn [rc_newP In]. destruct Hy as [->|[->| ->]]; auto.
      - destruct (sf_unlock _ _ _ _ _ _ _ _ _ F Hl) as [H|[Hh [pre ->]]]; [left; apply PfMu; exact H|].
        right. apply rm_rel_post; [|intros []]. left. apply (mi_K _ _ _ _ I). left. split; [apply g_holds; exact Hh|reflexivity].
      - destruct (Nat.eq_dec j tid) as [->|Hne].
        + rewrite rc_updpc_same in Hj. inversion Hj as [Epc'].
          destruct (sf_ssp _ _ _ _ _ _ _ _ _ F k v e now Epc') as [E Epc]. rewrite E in *.
          right. apply (rc_pubd_P m lk pcof tid N mon); [exact I|].
          apply (sf_N _ _ _ _ _ _ _ _ _ F). rewrite Epc. cbn [rc_newP In]. destruct Hy as [->|[->| ->]]; auto.
        + rewrite g_pcof'_other in Hj by exact Hne.
          assert (E : nf' = nf).
          { destruct (Nat.eq_dec nf' nf) as [E|E]; [exact E|exfalso]. assert (Hg : nf' = S nf) by lia.
            destruct (sf_grow _ _ _ _ _ _ _ _ _ F Hg) as (Hh & _). apply g_holds in Hh.
            assert (Hhj : rc_holds (CsSSP k v e now) = true) by reflexivity.
            apply (rs_lock _ _ _ Sv j _ Hj) in Hhj. congruence. }
          rewrite E in *. left. apply (PfSet m lk pcof j k v e now); assumption. }
    destruct Hor as [Hold|H]; [|exact H].
    apply rm_msteps_P_keep; [apply (g_stable_P o x Hold)|apply (mi_P _ _ _ _ I); exact Hold].
  - (* fresh *)
    intros x Hf. destruct (g_fresh_back x Hf) as (Hold & Hw & Hr).
    destruct (mi_fresh _ _ _ _ I x Hold) as [A B]. split.
    + rewrite rm_msteps_Wc_keep by exact Hw. exact A.
    + intros u. rewrite rm_msteps_R_keep by exact Hr. apply B.
  - (* unread *)
    intros x (f & Hf & Hd & Hx) u.
    destruct (Nat.lt_ge_cases f nf) as [A|A].
    + assert (Hold : rc_undone m x).
      { exists f. split; [exact A|]. split; [|exact Hx].
        destruct (cs_fdone m f) eqn:Ed; [|reflexivity]. exfalso.
        apply (sf_done _ _ _ _ _ _ _ _ _ F f); [congruence|exact Hd]. }
      rewrite rm_msteps_R_keep by (apply g_stable_undone; exact Hold). apply (mi_R _ _ _ _ I x Hold).
    + assert (Hg : nf' = S nf) by lia. assert (f = nf) by lia. subst f.
      destruct (sf_grow _ _ _ _ _ _ _ _ _ F Hg) as (_ & _ & [(k & v & e & now & _ & Hdn)|[Hs _]]); [contradiction|].
      assert (Hold : rc_fresh m pcof x).
      { exists nf. split; [ulia|]. right. split; [reflexivity|]. apply g_nosetter_grow; assumption. }
      rewrite rm_msteps_R_keep by (apply g_stable_fresh_R; exact Hold). apply (mi_fresh _ _ _ _ I x Hold).
  - (* KR *)
    intros j Hl. destruct (Nat.eq_dec j tid) as [->|Hne].
    + destruct (sf_acquire _ _ _ _ _ _ _ _ _ F Hl) as [H|[H ->]].
      * apply rm_msteps_KR_own. apply (mi_KR _ _ _ _ I). exact H.
      * cbn. apply (rm_acq_KR N mon tid (RAcq rc_mu) rc_mu); [reflexivity|]. apply (mi_PR _ _ _ _ I). exact H.
    + assert (Hold : lk = Some j) by (destruct Hlm as [[E _]|[(_ & E & _)|(_ & E & _)]]; congruence).
      apply rm_msteps_KR_keep; [|apply (mi_KR _ _ _ _ I); exact Hold].
      intros Hr. destruct (sf_R _ _ _ _ _ _ _ _ _ F _ Hr) as [[_ Hh]|[(g & _ & Hy)|[(g & _ & Hy)|(g & _ & Hy)]]]; try ulia.
      apply g_holds in Hh. congruence.
  - (* PR *)
    intros Hl. destruct (sf_unlock _ _ _ _ _ _ _ _ _ F Hl) as [H|[Hh [pre ->]]].
    + apply rm_msteps_PR_keep; [|apply (mi_PR _ _ _ _ I); exact H].
      intros Hr. destruct (sf_R _ _ _ _ _ _ _ _ _ F _ Hr) as [[_ Hh]|[(g & _ & Hy)|[(g & _ & Hy)|(g & _ & Hy)]]]; try ulia.
      apply g_holds in Hh. congruence.
    + apply rm_rel_post_R; [|intros []]. apply (mi_KR _ _ _ _ I). apply g_holds. exact Hh.
Qed.

End Gen.
