(* QueueHwCheckProofs.v -- soundness of the executable linearizability checker of
   models/QueueHwCheck.v w.r.t. the textbook definition (lib/Linearizability.v). *)
From Got Require Import Base Queue Linearizability LinearizabilityProofs QueueHistory QueueHwCheck.
Local Open Scope nat_scope.

Notation qhist := (hw_history q_op q_res).

Lemma qh_op_eqb_eq a b : qh_op_eqb a b = true -> a = b.
Proof. destruct a, b; cbn; intros H; try discriminate; [apply Z.eqb_eq in H; subst|]; reflexivity. Qed.

Lemma qh_res_eqb_eq a b : qh_res_eqb a b = true -> a = b.
Proof.
  destruct a as [|[v|]], b as [|[w|]]; cbn; intros H; try discriminate; try reflexivity.
  apply Z.eqb_eq in H. subst. reflexivity.
Qed.

Lemma qh_ev_eqb_eq a b : qh_ev_eqb a b = true -> a = b.
Proof.
  destruct a, b; cbn; intros H; try discriminate; apply andb_true_iff in H; destruct H as [H1 H2];
    apply Nat.eqb_eq in H1; subst; [apply qh_op_eqb_eq in H2|apply qh_res_eqb_eq in H2]; subst; reflexivity.
Qed.

Lemma qh_list_eqb_eq a : forall b, qh_list_eqb a b = true -> a = b.
Proof.
  induction a as [|x a IH]; intros [|y b] H; cbn in H; try discriminate; [reflexivity|].
  apply andb_true_iff in H. destruct H as [H1 H2]. apply qh_ev_eqb_eq in H1. apply IH in H2. subst. reflexivity.
Qed.

Lemma qh_proj_notin t (H : qhist) : ~ In t (map hw_thread H) -> hw_proj t H = [].
Proof.
  induction H as [|e H IH]; intros Hn; [reflexivity|].
  unfold hw_proj in *. cbn [filter map] in *.
  destruct (Nat.eqb (hw_thread e) t) eqn:E.
  - apply Nat.eqb_eq in E. exfalso. apply Hn. left. exact E.
  - apply IH. intros Hin. apply Hn. right. exact Hin.
Qed.

Lemma qh_threads_in t (H : qhist) : In t (qh_threads H) <-> In t (map hw_thread H).
Proof. unfold qh_threads. apply nodup_In. Qed.

Lemma qh_wfb_sound (H : qhist) : qh_wfb H = true -> hw_wf H.
Proof.
  unfold qh_wfb. intros Hb t. rewrite forallb_forall in Hb.
  destruct (in_dec Nat.eq_dec t (map hw_thread H)) as [Hin|Hn].
  - apply Hb. apply qh_threads_in. exact Hin.
  - rewrite qh_proj_notin by exact Hn. reflexivity.
Qed.

Lemma qh_all_resb_sound (ext : qhist) : qh_all_resb ext = true -> hw_all_res ext.
Proof.
  unfold qh_all_resb, hw_all_res. intros Hb. rewrite forallb_forall in Hb.
  apply Forall_forall. intros e He. specialize (Hb e He). destruct e; [discriminate|exact I].
Qed.

Lemma qh_legalb_sound pre0 n : forall (S : qhist) s, length S <= n ->
  qh_legalb s S = true -> hw_sequential S /\ hw_legal_from (q_fifo_spec pre0) s S.
Proof.
  induction n as [|n IH]; intros S s Hn Hb.
  - destruct S; [|cbn in Hn; lia]. split; [constructor|exact I].
  - destruct S as [|[t o|t r] S]; [split; [constructor|exact I]| |discriminate].
    destruct S as [|[t' o'|t' r] S]; [discriminate|discriminate|].
    cbn [qh_legalb] in Hb. apply andb_true_iff in Hb. destruct Hb as [Hb H3].
    apply andb_true_iff in Hb. destruct Hb as [H1 H2].
    apply Nat.eqb_eq in H1. subst t'. apply qh_res_eqb_eq in H2.
    cbn [length] in Hn. destruct (IH S _ ltac:(lia) H3) as [Hs Hl].
    split; [constructor; exact Hs|]. cbn [hw_legal_from q_fifo_spec hw_step]. split; assumption.
Qed.

Lemma qh_equivb_sound (C S : qhist) : qh_equivb C S = true -> hw_equiv C S.
Proof.
  unfold qh_equivb. intros Hb t. rewrite forallb_forall in Hb.
  destruct (in_dec Nat.eq_dec t (map hw_thread (C ++ S))) as [Hin|Hn].
  - apply qh_list_eqb_eq. apply Hb. apply qh_threads_in. exact Hin.
  - rewrite map_app in Hn. rewrite !qh_proj_notin; [reflexivity| |];
      intros Hin; apply Hn; apply in_or_app; [right|left]; exact Hin.
Qed.

Lemma qh_find_some_in (P : hw_event q_op q_res -> bool) k (H : qhist) i :
  hw_find P k H = Some i -> k < length (filter P H) /\ exists e, In e H /\ P e = true.
Proof.
  intros Hf. destruct (hw_find_split _ _ _ _ Hf) as (l1 & e & l2 & -> & Pe & Hc & _).
  split.
  - rewrite filter_app, app_length. cbn [filter]. rewrite Pe. cbn [length].
    unfold hw_count in Hc. lia.
  - exists e. split; [apply in_or_app; right; left; reflexivity|exact Pe].
Qed.

Lemma qh_res_ops_in (H : qhist) a i : hw_res_pos H a = Some i -> In a (qh_res_ops H).
Proof.
  destruct a as [t k]. unfold hw_res_pos. cbn [fst snd]. intros Hf.
  destruct (qh_find_some_in _ _ _ _ Hf) as (Hk & e & He & Pe).
  unfold qh_res_ops. apply in_flat_map. exists t. split.
  - apply qh_threads_in. apply in_map_iff. exists e. split; [|exact He].
    destruct e as [t' o|t' r]; cbn in Pe; [discriminate|]. apply Nat.eqb_eq in Pe. exact Pe.
  - apply in_map. apply in_seq. lia.
Qed.

Lemma qh_inv_ops_in (H : qhist) b j : hw_inv_pos H b = Some j -> In b (qh_inv_ops H).
Proof.
  destruct b as [t k]. unfold hw_inv_pos. cbn [fst snd]. intros Hf.
  destruct (qh_find_some_in _ _ _ _ Hf) as (Hk & e & He & Pe).
  unfold qh_inv_ops. apply in_flat_map. exists t. split.
  - apply qh_threads_in. apply in_map_iff. exists e. split; [|exact He].
    destruct e as [t' o|t' r]; cbn in Pe; [|discriminate]. apply Nat.eqb_eq in Pe. exact Pe.
  - apply in_map. apply in_seq. lia.
Qed.

Lemma qh_realtimeb_sound (H S : qhist) : qh_realtimeb H S = true -> hw_realtime H S.
Proof.
  unfold qh_realtimeb. intros Hb a b (i & j & Hi & Hj & Hij) (j' & Hj').
  rewrite forallb_forall in Hb. specialize (Hb a (qh_res_ops_in _ _ _ Hi)).
  rewrite forallb_forall in Hb. specialize (Hb b (qh_inv_ops_in _ _ _ Hj)).
  unfold qh_rt1 in Hb. rewrite Hi, Hj, Hj' in Hb.
  apply Nat.ltb_lt in Hij. rewrite Hij in Hb.
  destruct (hw_res_pos S a) as [i'|] eqn:Hi'; [|discriminate].
  apply Nat.ltb_lt in Hb. exists i', j'. repeat split; assumption.
Qed.

Theorem qh_verify_sound pre (H ext S : qhist) :
  qh_verify pre H ext S = true -> hw_linearizable H (q_fifo_spec pre).
Proof.
  unfold qh_verify. intros Hb.
  repeat (apply andb_true_iff in Hb; let H' := fresh "Hc" in destruct Hb as [Hb H']).
  split; [apply qh_wfb_sound; exact Hb|].
  exists (H ++ ext), S.
  split; [exists ext; split; [reflexivity|]; split; [apply qh_all_resb_sound|apply qh_wfb_sound]; assumption|].
  split; [apply (qh_legalb_sound pre (length S)); [lia|assumption]|].
  split; [apply qh_equivb_sound; assumption|apply qh_realtimeb_sound; assumption].
Qed.

Theorem q_hw_check_sound pre (H : qhist) :
  q_hw_check pre H = true -> hw_linearizable H (q_fifo_spec pre).
Proof.
  unfold q_hw_check. destruct (q_hw_candidate pre H) as [S|]; [|discriminate].
  apply qh_verify_sound.
Qed.
