(* OctetsInterleaved.v -- C11 for interleaved use of one OctetsStream: writes, matching
   reads and Tidy() in any FIFO-discipline order (models/Octets.v: oct_run_sched).
   Built on the facts of OctetsProofs.v: every reader is a function of the unread bytes
   only (view_op / v_op_wire), every writer appends the wire format (write_val_spec).
   Invariant of a run: the unread bytes oct_rest s are exactly the wire formats of the
   values written and not yet read. *)
From Got Require Import Base Octets OctetsSpec OctetsProofs.
Local Open Scope Z_scope.

(* a read observation (Position() before, (result, stream after, alloc)) is the read-back of
   the value ax: same value, never an error, cursor advanced by exactly the bytes of the
   value's wire format *)
Definition oct_rd_value (pr : nat * oct_rd oct_val) : res oct_val oct_err := fst (fst (snd pr)).
Definition oct_rd_consumed (pr : nat * oct_rd oct_val) : nat := (oct_pos (snd (fst (snd pr))) - fst pr)%nat.

Definition oct_read_matches (ax : oct_api * oct_val) (pr : nat * oct_rd oct_val) : Prop :=
  oct_rd_value pr = Ok (snd ax) /\
  oct_pos (snd (fst (snd pr))) = (fst pr + length (oct_wire (snd ax)))%nat /\
  snd (snd pr) = oct_val_alloc (snd ax).

(* bytes consumed by all the reads of a run *)
Definition oct_obs_consumed (obs : list oct_sobs) : nat :=
  list_sum (map oct_rd_consumed (oct_obs_reads obs)).

Definition oct_sop_not_tidy (o : oct_sop) : bool := match o with OctST => false | _ => true end.

(* ---------------------------------------------------------------- small facts *)
Lemma wire_all_app xs ys : oct_wire_all (xs ++ ys) = oct_wire_all xs ++ oct_wire_all ys.
Proof.
  induction xs as [|[a x] r IH]; cbn [app oct_wire_all]; [reflexivity|].
  rewrite IH, app_assoc. reflexivity.
Qed.

Lemma rest_append s l : oct_wf s -> oct_rest (oct_append s l) = oct_rest s ++ l.
Proof.
  unfold oct_wf, oct_rest, oct_append. cbn [oct_buf oct_pos]. intros H. rewrite skipn_app.
  replace (oct_pos s - length (oct_buf s))%nat with 0%nat by lia. reflexivity.
Qed.

Lemma append_wf s l : oct_wf s -> oct_wf (oct_append s l).
Proof. unfold oct_wf, oct_append; cbn [oct_buf oct_pos]. rewrite app_length. lia. Qed.

(* the matching read of a value whose wire format starts the unread bytes *)
Lemma read_val_rest v a x s more :
  oct_val_ok x = true -> oct_wf s -> oct_rest s = oct_wire x ++ more ->
  oct_read_op v (oct_op_of a x) s = (Ok x, oct_adv s (length (oct_wire x)), oct_val_alloc x).
Proof.
  intros Hok Hwf Hr. destruct (view_op v (oct_op_of a x) (op_of_ok a x) s Hwf) as [E _].
  rewrite Hr, v_op_wire in E by exact Hok. exact E.
Qed.

(* Tidy keeps exactly the unread bytes and moves the cursor to 0; it never panics *)
Lemma tidy_spec s : oct_wf s -> oct_tidy s = Some {| oct_buf := oct_rest s; oct_pos := 0 |}.
Proof.
  intros Hwf. unfold oct_tidy. destruct (Nat.ltb_spec 0 (oct_pos s)) as [Hp|Hp].
  - rewrite slice_from_rest by exact Hwf.
    pose proof (rest_length s Hwf) as Hl. unfold oct_wf in Hwf.
    unfold oct_copy. rewrite Nat.min_r by lia. rewrite firstn_all.
    unfold oct_slice, oct_len, oct_position.
    rewrite app_length, skipn_length, Hl.
    destruct (Z.leb_spec 0 0); [|lia].
    destruct (Z.leb_spec 0 (Z.of_nat (length (oct_buf s)) - Z.of_nat (oct_pos s))); [|lia].
    destruct (Z.leb_spec (Z.of_nat (length (oct_buf s)) - Z.of_nat (oct_pos s))
                (Z.of_nat (length (oct_buf s) - oct_pos s + (length (oct_buf s) - (length (oct_buf s) - oct_pos s))))); [|lia].
    cbn [andb]. change (Z.to_nat 0) with 0%nat. cbn [skipn].
    replace (Z.to_nat (Z.of_nat (length (oct_buf s)) - Z.of_nat (oct_pos s) - 0)) with (length (oct_rest s)) by lia.
    rewrite firstn_app_exact. reflexivity.
  - assert (E : oct_pos s = 0%nat) by lia. destruct s as [b p]. cbn in E. subst p. reflexivity.
Qed.

Lemma sched_reads_cons o r :
  oct_sched_reads (o :: r) = match o with OctSR => S (oct_sched_reads r) | _ => oct_sched_reads r end.
Proof. destruct o; reflexivity. Qed.
Lemma sched_writes_cons o r :
  oct_sched_writes (o :: r) = match o with OctSW => S (oct_sched_writes r) | _ => oct_sched_writes r end.
Proof. destruct o; reflexivity. Qed.

(* ---------------------------------------------------------------- the run invariant *)
Lemma run_sched_lemma v : forall sch ws pend s,
  forallb (fun ax => oct_val_ok (snd ax)) ws = true ->
  forallb (fun ax => oct_val_ok (snd ax)) pend = true ->
  oct_wf s -> oct_rest s = oct_wire_all pend ->
  oct_fifo_from sch (length pend) (length ws) = true ->
  exists obs s',
    oct_run_sched v sch ws pend s = Some (obs, s') /\
    Forall2 oct_read_matches (firstn (oct_sched_reads sch) (pend ++ ws)) (oct_obs_reads obs) /\
    oct_wf s' /\
    oct_rest s' = oct_wire_all (skipn (oct_sched_reads sch) (pend ++ firstn (oct_sched_writes sch) ws)) /\
    (forallb oct_sop_not_tidy sch = true ->
     oct_buf s' = oct_buf s ++ oct_wire_all (firstn (oct_sched_writes sch) ws) /\
     oct_pos s' = (oct_pos s + length (oct_wire_all (firstn (oct_sched_reads sch) (pend ++ ws))))%nat).
Proof.
  induction sch as [|o r IH]; intros ws pend s Hws Hpend Hwf Hrest Hfifo.
  - exists [], s. cbn [oct_run_sched oct_sched_reads oct_sched_writes filter length firstn skipn oct_obs_reads flat_map].
    split; [reflexivity|]. split; [constructor|]. split; [exact Hwf|].
    split; [rewrite app_nil_r; exact Hrest|]. intros _. cbn [oct_wire_all length]. rewrite app_nil_r. split; [reflexivity|lia].
  - rewrite sched_reads_cons, sched_writes_cons. destruct o; cbn [oct_run_sched oct_fifo_from forallb oct_sop_not_tidy andb] in *.
    + (* write *)
      destruct ws as [|[a x] ws']; [discriminate|]. cbn [length] in Hfifo.
      cbn [forallb snd] in Hws. apply andb_true_iff in Hws. destruct Hws as [Hx Hws'].
      rewrite write_val_spec by exact Hx.
      assert (Hpend' : forallb (fun ax => oct_val_ok (snd ax)) (pend ++ [(a, x)]) = true).
      { rewrite forallb_app, Hpend. cbn [forallb snd]. rewrite Hx. reflexivity. }
      assert (Hrest' : oct_rest (oct_append s (oct_wire x)) = oct_wire_all (pend ++ [(a, x)])).
      { rewrite rest_append by exact Hwf. rewrite wire_all_app, Hrest. cbn [oct_wire_all]. rewrite app_nil_r. reflexivity. }
      assert (Hfifo' : oct_fifo_from r (length (pend ++ [(a, x)])) (length ws') = true).
      { rewrite app_length. cbn [length]. rewrite Nat.add_1_r. exact Hfifo. }
      destruct (IH ws' (pend ++ [(a, x)]) (oct_append s (oct_wire x)) Hws' Hpend' (append_wf s _ Hwf) Hrest' Hfifo')
        as (obs & s' & Hrun & Hfa & Hwf' & Hr' & Hnt).
      rewrite Hrun. exists (OctObW (oct_append s (oct_wire x)) :: obs), s'.
      split; [reflexivity|]. rewrite <- app_assoc in Hfa, Hr', Hnt. cbn [app] in Hfa, Hr', Hnt.
      split; [exact Hfa|]. split; [exact Hwf'|]. split; [exact Hr'|].
      intros Hno. destruct (Hnt Hno) as [Hb Hp]. cbn [oct_append oct_buf oct_pos] in Hb, Hp.
      cbn [firstn oct_wire_all]. rewrite <- app_assoc in Hb. split; [exact Hb|exact Hp].
    + (* read *)
      destruct pend as [|[a x] pend']; [discriminate|]. cbn [length] in Hfifo.
      cbn [forallb snd] in Hpend. apply andb_true_iff in Hpend. destruct Hpend as [Hx Hpend'].
      cbn [oct_wire_all] in Hrest.
      rewrite (read_val_rest v a x s (oct_wire_all pend') Hx Hwf Hrest). cbn [fst snd].
      assert (Hwf1 : oct_wf (oct_adv s (length (oct_wire x)))).
      { apply adv_wf; [exact Hwf|]. rewrite Hrest, app_length. lia. }
      assert (Hrest1 : oct_rest (oct_adv s (length (oct_wire x))) = oct_wire_all pend').
      { rewrite rest_adv, Hrest. apply skipn_app_exact. }
      destruct (IH ws pend' (oct_adv s (length (oct_wire x))) Hws Hpend' Hwf1 Hrest1 Hfifo)
        as (obs & s' & Hrun & Hfa & Hwf' & Hr' & Hnt).
      rewrite Hrun. eexists (OctObR (oct_pos s) _ :: obs), s'.
      split; [reflexivity|]. cbn [app firstn skipn oct_obs_reads flat_map].
      split.
      { constructor; [|exact Hfa]. unfold oct_read_matches, oct_rd_value. cbn [fst snd oct_adv oct_set_pos oct_pos]. auto. }
      split; [exact Hwf'|]. split; [exact Hr'|].
      intros Hno. destruct (Hnt Hno) as [Hb Hp]. cbn [oct_adv oct_set_pos oct_buf oct_pos] in Hb, Hp.
      split; [exact Hb|]. cbn [oct_wire_all]. rewrite app_length. lia.
    + (* Tidy *)
      rewrite tidy_spec by exact Hwf.
      assert (Hwf1 : oct_wf {| oct_buf := oct_rest s; oct_pos := 0 |}) by (unfold oct_wf; cbn; lia).
      assert (Hrest1 : oct_rest {| oct_buf := oct_rest s; oct_pos := 0 |} = oct_wire_all pend) by exact Hrest.
      destruct (IH ws pend _ Hws Hpend Hwf1 Hrest1 Hfifo) as (obs & s' & Hrun & Hfa & Hwf' & Hr' & Hnt).
      rewrite Hrun. exists (OctObT {| oct_buf := oct_rest s; oct_pos := 0 |} :: obs), s'.
      split; [reflexivity|]. split; [exact Hfa|]. split; [exact Hwf'|]. split; [exact Hr'|].
      intros Hno. discriminate Hno.
Qed.

(* ---------------------------------------------------------------- consequences of Forall2 oct_read_matches *)
Lemma read_matches_values xs rs : Forall2 oct_read_matches xs rs ->
  map oct_rd_value rs = map (fun ax => Ok (snd ax)) xs.
Proof. induction 1 as [|ax pr xs rs [H1 _] _ IH]; cbn [map]; [reflexivity|]. f_equal; [exact H1|exact IH]. Qed.

Lemma read_matches_consumed xs rs : Forall2 oct_read_matches xs rs ->
  list_sum (map oct_rd_consumed rs) = length (oct_wire_all xs).
Proof.
  induction 1 as [|[a x] pr xs rs (_ & H2 & _) _ IH]; [reflexivity|].
  unfold list_sum in *. cbn [map fold_right oct_wire_all]. rewrite IH, app_length. unfold oct_rd_consumed. cbn [snd] in H2. lia.
Qed.

(* ---------------------------------------------------------------- C11 interleaved, with Tidy *)
Lemma rt_interleaved_tidy_lemma : forall v xs sch pre,
  forallb (fun ax => oct_val_ok (snd ax)) xs = true ->
  oct_fifo_sched_tidy sch (length xs) = true ->
  let nw := oct_sched_writes sch in
  let nr := oct_sched_reads sch in
  exists obs s',
    oct_run_sched v sch xs [] {| oct_buf := pre; oct_pos := length pre |} = Some (obs, s') /\
    Forall2 oct_read_matches (firstn nr xs) (oct_obs_reads obs) /\
    map oct_rd_value (oct_obs_reads obs) = map (fun ax => Ok (snd ax)) (firstn nr xs) /\
    oct_obs_consumed obs = length (oct_wire_all (firstn nr xs)) /\
    (oct_pos s' <= length (oct_buf s'))%nat /\
    skipn (oct_pos s') (oct_buf s') = oct_wire_all (skipn nr (firstn nw xs)) /\
    (nw = length xs -> nr = length xs ->
     map oct_rd_value (oct_obs_reads obs) = map (fun ax => Ok (snd ax)) xs /\
     oct_obs_consumed obs = length (oct_wire_all xs) /\
     oct_pos s' = length (oct_buf s')).
Proof.
  intros v xs sch pre Hok Hfifo nw nr.
  set (s0 := {| oct_buf := pre; oct_pos := length pre |}).
  assert (Hwf0 : oct_wf s0) by (unfold oct_wf, s0; cbn; lia).
  assert (Hrest0 : oct_rest s0 = oct_wire_all []) by (unfold oct_rest, s0; cbn [oct_buf oct_pos oct_wire_all]; apply skipn_all).
  destruct (run_sched_lemma v sch xs [] s0 Hok eq_refl Hwf0 Hrest0 Hfifo) as (obs & s' & Hrun & Hfa & Hwf' & Hr' & _).
  cbn [app] in Hfa, Hr'. fold nr in Hfa, Hr'. fold nw in Hr'.
  exists obs, s'. split; [exact Hrun|]. split; [exact Hfa|].
  split; [apply read_matches_values; exact Hfa|].
  split; [apply read_matches_consumed; exact Hfa|].
  split; [exact Hwf'|]. split; [exact Hr'|].
  intros Enw Enr. rewrite Enr, firstn_all in Hfa.
  split; [apply read_matches_values; exact Hfa|].
  split; [apply read_matches_consumed; exact Hfa|].
  unfold oct_rest in Hr'. rewrite Enw, Enr, firstn_all, skipn_all in Hr'. cbn [oct_wire_all] in Hr'.
  apply (f_equal (@length Z)) in Hr'. rewrite skipn_length in Hr'. cbn [length] in Hr'. unfold oct_wf in Hwf'. lia.
Qed.

(* ---------------------------------------------------------------- C11 interleaved, writes and reads only *)
Lemma sop_of_bool_not_tidy sch : forallb oct_sop_not_tidy (map oct_sop_of_bool sch) = true.
Proof. induction sch as [|[|] r IH]; cbn; auto. Qed.

Lemma rt_interleaved_lemma : forall v xs (sch : list bool) pre,
  forallb (fun ax => oct_val_ok (snd ax)) xs = true ->
  oct_fifo_sched sch (length xs) = true ->
  let nw := length (filter (fun b => b) sch) in
  let nr := length (filter negb sch) in
  exists obs s',
    oct_run_sched v (map oct_sop_of_bool sch) xs [] {| oct_buf := pre; oct_pos := length pre |} = Some (obs, s') /\
    Forall2 oct_read_matches (firstn nr xs) (oct_obs_reads obs) /\
    map oct_rd_value (oct_obs_reads obs) = map (fun ax => Ok (snd ax)) (firstn nr xs) /\
    oct_buf s' = pre ++ oct_wire_all (firstn nw xs) /\
    oct_pos s' = (length pre + length (oct_wire_all (firstn nr xs)))%nat /\
    (nw = length xs -> nr = length xs ->
     map oct_rd_value (oct_obs_reads obs) = map (fun ax => Ok (snd ax)) xs /\
     oct_buf s' = pre ++ oct_wire_all xs /\
     oct_pos s' = length (oct_buf s') /\
     oct_pos s' = (length pre + length (oct_wire_all xs))%nat).
Proof.
  intros v xs sch pre Hok Hfifo nw nr.
  assert (Enw : oct_sched_writes (map oct_sop_of_bool sch) = nw).
  { unfold nw, oct_sched_writes. clear. induction sch as [|[|] r IH]; cbn; auto. }
  assert (Enr : oct_sched_reads (map oct_sop_of_bool sch) = nr).
  { unfold nr, oct_sched_reads. clear. induction sch as [|[|] r IH]; cbn; auto. }
  set (s0 := {| oct_buf := pre; oct_pos := length pre |}).
  assert (Hwf0 : oct_wf s0) by (unfold oct_wf, s0; cbn; lia).
  assert (Hrest0 : oct_rest s0 = oct_wire_all []) by (unfold oct_rest, s0; cbn [oct_buf oct_pos oct_wire_all]; apply skipn_all).
  destruct (run_sched_lemma v (map oct_sop_of_bool sch) xs [] s0 Hok eq_refl Hwf0 Hrest0 Hfifo)
    as (obs & s' & Hrun & Hfa & Hwf' & Hr' & Hnt).
  destruct (Hnt (sop_of_bool_not_tidy sch)) as [Hb Hp].
  cbn [app] in Hfa, Hp. rewrite Enr in Hfa, Hp. rewrite Enw in Hb. cbn [s0 oct_buf oct_pos] in Hb, Hp.
  exists obs, s'. split; [exact Hrun|]. split; [exact Hfa|].
  split; [apply read_matches_values; exact Hfa|].
  split; [exact Hb|]. split; [exact Hp|].
  intros Ew Er. rewrite Er, firstn_all in Hfa, Hp. rewrite Ew, firstn_all in Hb.
  split; [apply read_matches_values; exact Hfa|]. split; [exact Hb|].
  split; [rewrite Hb, Hp, app_length; reflexivity|exact Hp].
Qed.

(* ---------------------------------------------------------------- non-vacuity example *)
(* write "hi" and an int16, read the string, Tidy, write a 7-bit int, read the rest *)
Lemma c11_interleaved_example :
  oct_c11i_case [OctSW; OctSW; OctSR; OctST; OctSW; OctSR; OctSR]
    [(OctViaReader, OVString [104; 105]); (OctViaStream, OVInt16 (-2)); (OctViaReader, OV7Bit 300)] =
  Some ([OctObW (oct_mk [2; 104; 105] 0);
         OctObW (oct_mk [2; 104; 105; 254; 255] 0);
         OctObR 0 (Ok (OVString [104; 105]), oct_mk [2; 104; 105; 254; 255] 3, 2);
         OctObT (oct_mk [254; 255] 0);
         OctObW (oct_mk [254; 255; 172; 2] 0);
         OctObR 0 (Ok (OVInt16 (-2)), oct_mk [254; 255; 172; 2] 2, 0);
         OctObR 2 (Ok (OV7Bit 300), oct_mk [254; 255; 172; 2] 4, 0)],
        oct_mk [254; 255; 172; 2] 4).
Proof. vm_compute. reflexivity. Qed.

Lemma c11_sched_example :
  oct_fifo_sched_tidy [OctSW; OctSW; OctSR; OctST; OctSW; OctSR; OctSR] 3 = true /\
  oct_fifo_sched [true; true; false; true; false; false] 3 = true /\
  oct_fifo_sched [true; false; false; true] 3 = false.
Proof. vm_compute. auto. Qed.
