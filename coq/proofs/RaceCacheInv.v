(* RaceCacheInv.v -- the invariant that relates a state of the cachex step machine (memory,
   mutex, pcs) to a state of the vector-clock monitor run on the labelled trace so far, as a
   list of FACTS (who knows / which sync object carries the last write of which location), and
   the monitor-free description [rc_sf] of what one labelled step must satisfy for the facts to
   be re-established.  The generic step theorem is in RaceCacheGen.v, the case analysis over the
   pcs in RaceCacheCases.v. *)
From Got Require Import Base ListAux Race RaceProofs RaceHB RaceHBProofs RaceMonLemmas RaceCacheMon.
From Got Require Import Cache CacheSteps RaceCache RaceCacheStruct.
Local Open Scope nat_scope.

Definition rc_locof (f x : nat) : Prop := x = rc_val f \/ x = rc_err f \/ x = rc_tz f \/ x = rc_tn f.

Lemma rc_locof_inj f g x : rc_locof f x -> rc_locof g x -> f = g.
Proof. unfold rc_locof, rc_val, rc_err, rc_tz, rc_tn. lia. Qed.
Lemma rc_locof_mp f : ~ rc_locof f rc_mp.
Proof. unfold rc_locof, rc_val, rc_err, rc_tz, rc_tn, rc_mp. lia. Qed.

(* the locations whose last write a thread parked at pc must know (n = length of the arena) *)
Definition rc_klocs (n : nat) (pc : cs_pc) : list nat :=
  match pc with
  | CsLAU _ _ (Some f) | CsLSJ _ _ f => [rc_val f; rc_err f; rc_tn f]
  | CsWLD f _ _ => [rc_val f; rc_err f; rc_tn f]
  | CsWSU f _ _ _ => [rc_val f; rc_err f; rc_tn f]
  | CsWSP f _ _ _ => [rc_val f; rc_err f]
  | CsLRE _ f _ | CsGRE f _ | CsZRE _ f _ _ => [rc_err f]
  | CsRPE _ _ p _ => [rc_err p]
  | CsSSU _ _ _ _ => [rc_val n; rc_err n; rc_tz n; rc_tn n]
  | CsSSP _ _ _ _ => [rc_val n; rc_err n]
  | _ => []
  end.

(* the (object, location) pairs a step from pc newly publishes *)
Definition rc_newP (n : nat) (pc : cs_pc) : list (nat * nat) :=
  match pc with
  | CsWSU f _ _ _ => [(rc_ut f, rc_err f); (rc_ut f, rc_tn f)]
  | CsSSP _ _ _ _ => [(rc_wg n, rc_val n); (rc_wg n, rc_err n)]
  | CsWSP f _ _ _ => [(rc_wg f, rc_val f); (rc_wg f, rc_err f)]
  | CsLSJ _ _ f => [(rc_ch f, rc_val f); (rc_ch f, rc_err f); (rc_ch f, rc_tn f)]
  | CsSSU _ _ _ _ => [(rc_ut n, rc_tz n); (rc_ut n, rc_err n); (rc_ut n, rc_tn n)]
  | _ => []
  end.

Section Facts.
Variables (m : c_state) (lk : option nat) (pcof : nat -> option cs_pc).
Local Notation nf := (length (c_futs m)).

(* wg.Done() of f has run *)
Definition rc_complete (f : nat) : Prop :=
  cs_fdone m f <> None /\ forall j pc, pcof j = Some pc -> rc_iswsp pc = true -> rc_own pc <> Some f.
Definition rc_nosetter : Prop := forall j pc, pcof j = Some pc -> rc_setter pc = false.
(* locations of futures that do not exist yet *)
Definition rc_fresh (x : nat) : Prop := exists f, rc_locof f x /\ (nf < f \/ (f = nf /\ rc_nosetter)).
(* fields nobody has read yet *)
Definition rc_undone (x : nat) : Prop :=
  exists f, f < nf /\ cs_fdone m f = None /\ (x = rc_val f \/ x = rc_err f \/ x = rc_tn f).

Definition rc_Kfact (j x : nat) : Prop :=
  (lk = Some j /\ x = rc_mp) \/ exists pc, pcof j = Some pc /\ In x (rc_klocs nf pc).

Inductive rc_Pfact : nat -> nat -> Prop :=
| PfTz f : f < nf -> rc_Pfact (rc_ut f) (rc_tz f)
| PfDone f x : cs_fdone m f <> None -> (x = rc_err f \/ x = rc_tn f) -> rc_Pfact (rc_ut f) x
| PfWg f x : rc_complete f -> (x = rc_val f \/ x = rc_err f) -> rc_Pfact (rc_wg f) x
| PfCh f x : In f (c_queue m) -> (x = rc_val f \/ x = rc_err f \/ x = rc_tn f) -> rc_Pfact (rc_ch f) x
| PfMu : lk = None -> rc_Pfact rc_mu rc_mp
| PfSet j k v e now x : pcof j = Some (CsSSP k v e now) ->
    (x = rc_tz nf \/ x = rc_err nf \/ x = rc_tn nf) -> rc_Pfact (rc_ut nf) x.

Record rc_minv (mon : rc_mon) : Prop := {
  mi_nr : rc_raced mon = false;
  mi_K : forall j x, rc_Kfact j x -> rm_K mon j x;
  mi_P : forall o x, rc_Pfact o x -> rm_P mon o x;
  mi_fresh : forall x, rc_fresh x -> rc_Wc mon x = 0 /\ forall u, rc_R mon x u = 0;
  mi_R : forall x, rc_undone x -> forall u, rc_R mon x u = 0;
  mi_KR : forall j, lk = Some j -> rm_KR mon j rc_mp;
  mi_PR : lk = None -> rm_PR mon rc_mu rc_mp
}.

(* ---- monitor-free obligations of the events of thread tid *)
Variable tid : nat.
Definition rc_src (x : nat) : Prop := rc_Kfact tid x \/ rc_fresh x.
Definition rc_kr (x : nat) : Prop := (lk = Some tid /\ x = rc_mp) \/ rc_fresh x \/ rc_undone x.
Definition rc_kp (wr aq : list nat) (x : nat) : Prop :=
  rc_src x \/ In x wr \/ exists o, In o aq /\ rc_Pfact o x.

Fixpoint rc_obl (wr aq : list nat) (evs : list rc_ev) : Prop :=
  match evs with
  | [] => True
  | RRead x :: r => rc_kp wr aq x /\ rc_obl wr aq r
  | RWrite x :: r => rc_kp wr aq x /\ rc_kr x /\ rc_obl (x :: wr) aq r
  | RAcq o :: r | RAcqRel o :: r => rc_obl wr (o :: aq) r
  | RRel _ :: r => rc_obl wr aq r
  end.

(* evs contains a release on o after which x is not written, and t knows x at that release *)
Definition rc_pubd (evs : list rc_ev) (o x : nat) : Prop :=
  exists pre post, evs = pre ++ RRel o :: post /\ rc_kp (rm_writes pre) (rm_acqs pre) x /\ ~ In (RWrite x) post.

Lemma rc_src_K mon x : rc_minv mon -> rc_src x -> rm_K mon tid x.
Proof.
  intros I [H|H]; [apply (mi_K _ I); exact H|]. apply rm_K_fresh. apply (mi_fresh _ I). exact H.
Qed.

Lemma rc_kr_KR mon x : rc_minv mon -> rc_kr x -> rm_KR mon tid x.
Proof.
  intros I [[H ->]|[H|H]].
  - apply (mi_KR _ I). exact H.
  - apply rm_KR_fresh. apply (mi_fresh _ I). exact H.
  - apply rm_KR_fresh. apply (mi_R _ I). exact H.
Qed.

Lemma rc_kp_Kp mon wr aq x : rc_minv mon -> rc_kp wr aq x -> rm_Kp mon tid wr aq x.
Proof.
  intros I [H|[H|[o [H1 H2]]]].
  - left. apply rc_src_K; assumption.
  - right. left. exact H.
  - right. right. exists o. split; [exact H1|apply (mi_P _ I); exact H2].
Qed.

Lemma rc_obl_rm mon evs : rc_minv mon -> forall wr aq, rc_obl wr aq evs -> rm_obl mon tid wr aq evs.
Proof.
  intros I. induction evs as [|e r IH]; intros wr aq H; [exact Logic.I|].
  destruct e as [x|x|o|o|o]; cbn [rc_obl rm_obl] in *.
  - destruct H as [H1 H2]. split; [apply rc_kp_Kp; assumption|apply IH; exact H2].
  - destruct H as [H1 [H2 H3]]. split; [apply rc_kp_Kp; assumption|].
    split; [apply rc_kr_KR; assumption|apply IH; exact H3].
  - apply IH; exact H.
  - apply IH; exact H.
  - apply IH; exact H.
Qed.

Lemma rc_pubd_P N mon evs o x : rc_minv mon -> rc_pubd evs o x -> rm_P (rm_msteps N mon tid evs) o x.
Proof.
  intros I (pre & post & -> & Hk & Hn). apply rm_rel_post; [apply rc_kp_Kp; assumption|exact Hn].
Qed.

End Facts.

(* ------------------------------------------------------------------ what a labelled step must satisfy *)
Section StepFacts.
Variables (m : c_state) (lk : option nat) (pcof : nat -> option cs_pc) (tid : nat) (pc : cs_pc).
Variables (m' : c_state) (lk' : option nat) (pc' : cs_pc) (evs : list rc_ev).
Local Notation nf := (length (c_futs m)).
Local Notation nf' := (length (c_futs m')).

Record rc_sf : Prop := {
  sf_len : nf <= nf' <= S nf;
  sf_grow : nf' = S nf ->
      rc_holds pc = true /\ rc_setter pc' = false /\
      ((exists k v e now, pc = CsSSP k v e now /\ cs_fdone m' nf <> None) \/
       (rc_setter pc = false /\ cs_fdone m' nf = None));
  sf_lock : rc_lockmove lk tid pc lk' pc';
  sf_unlock : lk' = None -> lk = None \/ (rc_holds pc = true /\ exists pre, evs = pre ++ [RRel rc_mu]);
  sf_acquire : lk' = Some tid -> lk = Some tid \/ (lk = None /\ evs = [RAcq rc_mu]);
  sf_done : forall f, cs_fdone m f <> None -> cs_fdone m' f <> None;
  sf_undone : forall f, cs_fdone m f = None -> cs_fdone m' f <> None ->
      (f = nf /\ rc_setter pc = true /\ nf' = S nf) \/ (rc_iswsu pc = true /\ rc_own pc = Some f);
  sf_setter : rc_setter pc = true -> rc_setter pc' = true \/ nf' = S nf;
  sf_ssp : forall k v e now, pc' = CsSSP k v e now -> nf' = nf /\ pc = CsSSU k v e now;
  sf_wsu : rc_iswsu pc = true -> rc_iswsp pc' = true /\ rc_own pc' = rc_own pc;
  sf_queue : forall f, In f (c_queue m') -> In f (c_queue m) \/ exists st last, pc = CsLSJ st last f;
  sf_W : forall x, In (RWrite x) evs ->
      (x = rc_mp /\ rc_holds pc = true) \/
      (rc_locof nf x /\ rc_holds pc = true /\ rc_setter pc = false /\ (nf' = S nf \/ rc_setter pc' = true)) \/
      (exists f v e, pc = CsWLD f v e /\ (x = rc_val f \/ x = rc_err f \/ x = rc_tn f));
  sf_R : forall x, In (RRead x) evs ->
      (x = rc_mp /\ rc_holds pc = true) \/
      (exists f, In f (rc_pcfuts pc) /\ ((x = rc_tz f /\ cs_fdone m f = None) \/ (x = rc_tn f /\ cs_fdone m f <> None))) \/
      (exists f, rc_redone pc = Some f /\ x = rc_err f) \/
      (exists f, pc = CsGFW f /\ (x = rc_val f \/ x = rc_err f));
  sf_obl : rc_obl m lk pcof tid [] [] evs;
  sf_K : forall x, In x (rc_klocs nf' pc') -> rc_kp m lk pcof tid (rm_writes evs) (rm_acqs evs) x;
  sf_N1 : nf' = S nf -> rc_setter pc = false -> rc_pubd m lk pcof tid evs (rc_ut nf) (rc_tz nf);
  sf_N : forall o x, In (o, x) (rc_newP nf pc) -> rc_pubd m lk pcof tid evs o x
}.
End StepFacts.

(* enabledness of the step of a thread parked at pc *)
Definition rc_enabled (m : c_state) (lk : option nat) (pcof : nat -> option cs_pc) (pc : cs_pc) : Prop :=
  (rc_isbl pc = true -> lk = None) /\ (forall x, pc = CsGFW x -> rc_complete m pcof x).
