(* RaceCacheProofs.v -- the labelled runs of the cachex step MODEL (models/RaceCache.v over
   models/CacheSteps.v, machine cs_step CsFixed) have no happens-before race, for every
   well-formed initial memory, every number of threads, all programs (Load, Get2, Set, worker,
   removeRotted) and all schedules (thread steps and clock ticks):
     rc_model_race_free : rc_mem_ok m0 = true -> ~ hb_race (rc_trace cfg m0 progs sched)
   Method (as for Queue / WaitClose / Wheel): the vector-clock monitor of lib/Race.v is run along
   the labelled run; an invariant over (memory, mutex, pcs, monitor state) keeps its flag false
   (RaceCacheStruct.v: structural part; RaceCacheInv.v: the facts; RaceCacheGen.v: generic step;
   RaceCacheCases.v: the pcs); hbp_agree turns that into the relational statement. *)
From Coq Require Import String.
From Got Require Import Base ListAux Race RaceProofs RaceHB RaceHBProofs RaceMonLemmas RaceCacheMon.
From Got Require Import Cache CacheProofs CacheSteps CacheStepsProofs RaceInst RaceCache.
From Got Require Import RaceCacheStruct RaceCacheInv RaceCacheGen RaceCacheCases.
Local Open Scope nat_scope.

(* ------------------------------------------------------------------ the first step of a call *)
Theorem rc_start_sf m lk pcof tid op m' lk' pc' :
  rc_eff_start m lk op = (m', lk', pc') ->
  rc_sf m lk pcof tid CsIdle m' lk' pc' (rc_label_start m op).
Proof.
  intros E.
  assert (G : forall evs, m' = m -> lk' = lk -> rc_klocs (length (c_futs m)) pc' = [] -> rc_holds pc' = false ->
              (forall k v e now, pc' <> CsSSP k v e now) ->
              evs = [] -> rc_sf m lk pcof tid CsIdle m' lk' pc' evs).
  { intros evs H1 H2 Hk Hh Hns H3. subst m' lk' evs. constructor; cbn [rc_holds rc_setter rc_iswsu rc_own rc_newP In]; auto; try lia; try discriminate; try contradiction.
    - left. split; [reflexivity|exact Hh].
    - intros k v e now H. exfalso. exact (Hns k v e now H).
    - exact Logic.I.
    - rewrite Hk. intros x []. }
  destruct op as [k|k|k v e|v e| ]; cbn [rc_eff_start rc_label_start] in *.
  - injection E as <- <- <-. apply G; auto; discriminate.
  - injection E as <- <- <-. apply G; auto; discriminate.
  - injection E as <- <- <-. apply G; auto; discriminate.
  - destruct (c_queue m) as [|f q] eqn:Eq; injection E as <- <- <-; [apply G; auto; discriminate|].
    constructor; cbn [rc_holds rc_setter rc_iswsu rc_own rc_newP In rc_dequeue cs_with c_futs c_queue]; auto;
      try lia; try discriminate; try contradiction.
    + left. split; reflexivity.
    + intros g Hg. left. rewrite Eq. right. exact Hg.
    + intros x [H|[]]. discriminate.
    + intros x [H|[]]. discriminate.
    + exact Logic.I.
    + cbn [rc_klocs rm_writes rm_acqs]. intros x Hx. right. right. exists (rc_ch f). split; [left; reflexivity|].
      apply PfCh; [rewrite Eq; left; reflexivity|]. cbn [In] in Hx. destruct Hx as [<-|[<-|[<-|[]]]]; auto.
  - injection E as <- <- <-. apply G; auto; discriminate.
Qed.

(* ------------------------------------------------------------------ the invariants depend on the
   arena, the map, the queue and the pcs only *)
Section Eqv.
Variables (m m' : c_state) (lk : option nat) (pcof pcof' : nat -> option cs_pc).
Hypothesis Hf : c_futs m' = c_futs m.
Hypothesis Hm : c_map m' = c_map m.
Hypothesis Hq : c_queue m' = c_queue m.
Hypothesis Hp : forall j, pcof' j = pcof j.

Lemma eqv_fdone f : cs_fdone m' f = cs_fdone m f.
Proof. unfold cs_fdone. rewrite Hf. reflexivity. Qed.
Lemma eqv_fpred f : cs_fpred m' f = cs_fpred m f.
Proof. unfold cs_fpred. rewrite Hf. reflexivity. Qed.

Lemma rc_sinv_eqv : rc_sinv m lk pcof -> rc_sinv m' lk pcof'.
Proof.
  intros [I1 I2 I3 I4 I5 I6 I7 I8 I9 I10]. constructor; rewrite ?Hf, ?Hq, ?Hm.
  - intros j pc H. rewrite Hp in H. apply I1. exact H.
  - intros j pc H. rewrite Hp in H. eapply I2; eauto.
  - intros j pc f H. rewrite Hp in H. eapply I3; eauto.
  - intros j pc f H. rewrite Hp in H. rewrite eqv_fdone. eapply I4; eauto.
  - intros j pc f H. rewrite Hp in H. rewrite eqv_fdone. eapply I5; eauto.
  - intros i j pi pj f H1 H2. rewrite Hp in H1, H2. eapply I6; eauto.
  - exact I7.
  - intros f. rewrite eqv_fdone. apply I8.
  - exact I9.
  - intros f p. rewrite eqv_fpred. apply I10.
Qed.

Lemma eqv_complete f : rc_complete m' pcof' f -> rc_complete m pcof f.
Proof.
  intros [A B]. rewrite eqv_fdone in A. split; [exact A|].
  intros j pc H. apply (B j pc). rewrite Hp. exact H.
Qed.

Lemma eqv_fresh x : rc_fresh m' pcof' x -> rc_fresh m pcof x.
Proof.
  intros (f & Hl & H). rewrite Hf in H. exists f. split; [exact Hl|].
  destruct H as [H|[H1 H2]]; [left; exact H|right]. split; [exact H1|].
  intros j pc Hj. apply (H2 j pc). rewrite Hp. exact Hj.
Qed.

Lemma eqv_undone x : rc_undone m' x -> rc_undone m x.
Proof. intros (f & A & B & C). rewrite Hf in A. rewrite eqv_fdone in B. exists f. auto. Qed.

Lemma eqv_Kfact j x : rc_Kfact m' lk pcof' j x -> rc_Kfact m lk pcof j x.
Proof.
  intros [H|(pc & H1 & H2)]; [left; exact H|right]. rewrite Hp in H1. rewrite Hf in H2. eauto.
Qed.

Lemma eqv_Pfact o x : rc_Pfact m' lk pcof' o x -> rc_Pfact m lk pcof o x.
Proof.
  intros H. destruct H as [f H|f y Hd Hy|f y Hc Hy|f y Hqq Hy|Hl|j k v e now y Hj Hy].
  - rewrite Hf in H. apply PfTz. exact H.
  - rewrite eqv_fdone in Hd. apply PfDone; assumption.
  - apply PfWg; [apply eqv_complete; exact Hc|exact Hy].
  - rewrite Hq in Hqq. apply PfCh; assumption.
  - apply PfMu. exact Hl.
  - rewrite Hf in *. rewrite Hp in Hj. apply (PfSet m lk pcof j k v e now); assumption.
Qed.

Lemma rc_minv_eqv mon : rc_minv m lk pcof mon -> rc_minv m' lk pcof' mon.
Proof.
  intros [I1 I2 I3 I4 I5 I6 I7]. constructor; auto.
  - intros j x H. apply I2. apply eqv_Kfact. exact H.
  - intros o x H. apply I3. apply eqv_Pfact. exact H.
  - intros x H. apply I4. apply eqv_fresh. exact H.
  - intros x H. apply I5. apply eqv_undone. exact H.
Qed.
End Eqv.

(* ------------------------------------------------------------------ enabledness *)
Lemma rc_pcof_nth s j pc : rc_pcof s j = Some pc -> exists t, nth_error (cs_thr s) j = Some t /\ ct_pc t = pc.
Proof.
  unfold rc_pcof. destruct (nth_error (cs_thr s) j) as [t|]; [|discriminate]. cbn. intros H. inversion H. eauto.
Qed.

Lemma rc_complete_of s x : cs_complete s x = true -> rc_complete (cs_m s) (rc_pcof s) x.
Proof.
  unfold cs_complete. destruct (cs_fdone (cs_m s) x) as [r|] eqn:Ed; [|discriminate]. intros H.
  apply negb_true_iff in H. split; [rewrite Ed; discriminate|].
  intros j pc Hj Hw Ho. destruct (rc_pcof_nth s j pc Hj) as (t & Ht & Epc).
  assert (Hex : existsb (fun t0 => match ct_pc t0 with CsWSP g _ _ _ => Nat.eqb g x | _ => false end) (cs_thr s) = true).
  { apply existsb_exists. exists t. split; [eapply nth_error_In; exact Ht|]. rewrite Epc.
    destruct pc; cbn in Hw, Ho; try discriminate. inversion Ho. apply Nat.eqb_refl. }
  congruence.
Qed.

Lemma rc_enabled_of s tid t :
  nth_error (cs_thr s) tid = Some t -> cs_blocked s t = false ->
  rc_enabled (cs_m s) (cs_lock s) (rc_pcof s) (ct_pc t).
Proof.
  intros Ht Hb. unfold cs_blocked in Hb. split.
  - intros H. destruct (ct_pc t); cbn in H; try discriminate; destruct (cs_lock s); try reflexivity; discriminate.
  - intros x E. rewrite E in Hb. apply rc_complete_of. apply negb_false_iff. exact Hb.
Qed.

(* ------------------------------------------------------------------ the invariant along a run *)
Definition rc_inv (s : cs_state) (mon : rc_mon) : Prop :=
  rc_sinv (cs_m s) (cs_lock s) (rc_pcof s) /\ rc_minv (cs_m s) (cs_lock s) (rc_pcof s) mon /\ rc_idle_inv s.

Section Run.
Variables (N : nat) (cfg : c_cfg).

Lemma rc_step_inv s mon it :
  rc_inv s mon ->
  rc_inv (fst (cs_step CsFixed cfg s it)) (rm_msteps N mon (rc_tid it) (rc_events cfg s it)).
Proof.
  intros (Sv & Mv & Iv). destruct (rc_step_view cfg s it) as (V & _ & Hidle).
  remember (rc_events cfg s it) as evs eqn:Eevs. clear Eevs.
  remember (fst (cs_step CsFixed cfg s it)) as s' eqn:Es'. specialize (Hidle Iv). clear Es'.
  destruct V as [it0 ->|dt Hf Hm Hq Hl Hp|tid t pc' Ht Hb Hop E Hp|tid t op rest pc' Ht Hb Hop Hprog E Hp].
  - split; [exact Sv|split; [exact Mv|exact Iv]].
  - split; [|split; [|exact Hidle]]; rewrite Hl.
    + apply (rc_sinv_eqv (cs_m s) (cs_m s') (cs_lock s) (rc_pcof s) (rc_pcof s') Hf Hm Hq Hp Sv).
    + apply (rc_minv_eqv (cs_m s) (cs_m s') (cs_lock s) (rc_pcof s) (rc_pcof s') Hf Hq Hp mon Mv).
  - assert (Hpc : rc_pcof s tid = Some (ct_pc t)) by (unfold rc_pcof; rewrite Ht; reflexivity).
    pose proof (rc_enabled_of s tid t Ht Hb) as En. symmetry in E.
    assert (Sv' : rc_sinv (cs_m s') (cs_lock s') (rc_updpc (rc_pcof s) tid pc')).
    { apply (rc_sinv_eff cfg _ _ _ tid Sv (ct_pc t)); [exact Hpc|apply En|exact E]. }
    pose proof (rc_eff_sf cfg _ _ _ tid _ _ _ _ Sv Hpc En E) as F.
    pose proof (rc_minv_step N _ _ _ tid _ _ _ _ _ mon Sv Hpc En F Mv) as Mv'.
    cbn [rc_tid]. split; [|split; [|exact Hidle]].
    + apply (rc_sinv_eqv (cs_m s') (cs_m s') (cs_lock s') (rc_updpc (rc_pcof s) tid pc') (rc_pcof s') eq_refl eq_refl eq_refl Hp Sv').
    + apply (rc_minv_eqv (cs_m s') (cs_m s') (cs_lock s') (rc_updpc (rc_pcof s) tid pc') (rc_pcof s') eq_refl eq_refl Hp _ Mv').
  - assert (Hpc : rc_pcof s tid = Some CsIdle) by (unfold rc_pcof; rewrite Ht; cbn; rewrite (Iv tid t Ht Hop); reflexivity).
    symmetry in E.
    assert (En : rc_enabled (cs_m s) (cs_lock s) (rc_pcof s) CsIdle) by (split; [discriminate|intros x H; discriminate]).
    assert (Sv' : rc_sinv (cs_m s') (cs_lock s') (rc_updpc (rc_pcof s) tid pc')).
    { apply (rc_sinv_start _ _ _ tid Sv op); [exact Hpc|exact E]. }
    pose proof (rc_start_sf _ _ (rc_pcof s) tid op _ _ _ E) as F.
    pose proof (rc_minv_step N _ _ _ tid _ _ _ _ _ mon Sv Hpc En F Mv) as Mv'.
    cbn [rc_tid]. split; [|split; [|exact Hidle]].
    + apply (rc_sinv_eqv (cs_m s') (cs_m s') (cs_lock s') (rc_updpc (rc_pcof s) tid pc') (rc_pcof s') eq_refl eq_refl eq_refl Hp Sv').
    + apply (rc_minv_eqv (cs_m s') (cs_m s') (cs_lock s') (rc_updpc (rc_pcof s) tid pc') (rc_pcof s') eq_refl eq_refl Hp _ Mv').
Qed.

Lemma rc_run_inv sched : forall s mon,
  rc_inv s mon ->
  rc_raced (fold_left (fun m p => rc_step N m (fst p) (snd p)) (rc_trace_from cfg s sched) mon) = false.
Proof.
  induction sched as [|it r IH]; intros s mon Inv.
  - destruct Inv as (_ & Mv & _). apply (mi_nr _ _ _ _ Mv).
  - unfold rc_trace_from in *. cbn [rc_trace_from_gen fold_left]. rewrite rm_run_map. apply IH.
    apply rc_step_inv. exact Inv.
Qed.

End Run.

(* ------------------------------------------------------------------ the set-up thread *)
Section Setup.
Variables (N : nat) (m0 : c_state) (n : nat).
Local Notation nf := (length (c_futs m0)).

Record rc_setinv (k : nat) (mon : rc_mon) : Prop := {
  st_nr : rc_raced mon = false;
  st_R : forall x u, rc_R mon x u = 0;
  st_W : forall f x, k <= f -> rc_locof f x -> rc_Wc mon x = 0;
  st_Wmp : rc_Wc mon rc_mp = 0;
  st_tn : forall f, cs_fdone m0 f = None -> rc_Wc mon (rc_tn f) = 0;
  st_tz : forall f, f < k -> rm_P mon (rc_ut f) (rc_tz f);
  st_done : forall f, f < k -> cs_fdone m0 f <> None ->
      rm_P mon (rc_ut f) (rc_err f) /\ rm_P mon (rc_ut f) (rc_tn f) /\
      rm_P mon (rc_wg f) (rc_val f) /\ rm_P mon (rc_wg f) (rc_err f);
  st_ch : forall f, f < k -> In f (c_queue m0) -> cs_fdone m0 f = None ->
      rm_P mon (rc_ch f) (rc_val f) /\ rm_P mon (rc_ch f) (rc_err f)
}.

Lemma rc_setinv_0 : rc_setinv 0 rc_init.
Proof. constructor; try reflexivity; intros; lia. Qed.

Lemma rc_setup_fut_noread k x : ~ In (RRead x) (rc_setup_fut m0 k).
Proof.
  unfold rc_setup_fut, rc_new, rc_setv. destruct (cs_fdone m0 k); [|destruct (existsb (Nat.eqb k) (c_queue m0))];
    cbn [app In]; intros H; repeat (destruct H as [H|H]; [discriminate H|]); exact H.
Qed.

Lemma rc_setup_fut_writes k x :
  In (RWrite x) (rc_setup_fut m0 k) -> rc_locof k x /\ (x = rc_tn k -> cs_fdone m0 k <> None).
Proof.
  unfold rc_setup_fut, rc_new, rc_setv.
  destruct (cs_fdone m0 k) eqn:Ed; [|destruct (existsb (Nat.eqb k) (c_queue m0))];
    cbn [app In]; intros H;
    repeat (destruct H as [H|H]; [first [discriminate H|injection H as <-; split; [ulia|intros Hx; first [discriminate|ulia]]]|]);
    contradiction.
Qed.

Lemma rc_setinv_S k mon :
  rc_setinv k mon -> rc_setinv (S k) (rm_msteps N mon n (rc_setup_fut m0 k)).
Proof.
  intros [A1 A2 A3 A4 A5 A6 A7 A8].
  assert (Hfresh : forall x, rc_locof k x -> rm_K mon n x /\ rm_KR mon n x).
  { intros x Hx. split; [apply rm_K_fresh; apply (A3 k x (le_n _) Hx)|apply rm_KR_fresh; intros u; apply A2]. }
  assert (Hkp : forall wr aq x, rc_locof k x -> rm_Kp mon n wr aq x) by (intros wr aq x Hx; left; apply Hfresh; exact Hx).
  assert (Hother : forall f x, f <> k -> rc_locof f x -> ~ In (RWrite x) (rc_setup_fut m0 k)).
  { intros f x Hne Hx Hw. apply rc_setup_fut_writes in Hw. destruct Hw as [Hw _]. apply Hne. apply (rc_locof_inj f k x); assumption. }
  constructor.
  - apply rm_obl_ok; [exact A1|].
    unfold rc_setup_fut, rc_new, rc_setv. destruct (cs_fdone m0 k); [|destruct (existsb (Nat.eqb k) (c_queue m0))];
      cbn [app rm_obl]; repeat split; try (apply Hkp; ulia); try (apply Hfresh; ulia).
  - intros x u. rewrite rm_msteps_R_keep by apply rc_setup_fut_noread. apply A2.
  - intros f x Hf Hx. rewrite rm_msteps_Wc_keep; [apply (A3 f x); [lia|exact Hx]|].
    apply (Hother f x); [lia|exact Hx].
  - rewrite rm_msteps_Wc_keep; [exact A4|]. intros Hw. apply rc_setup_fut_writes in Hw. destruct Hw as [Hw _]. exact (rc_locof_mp _ Hw).
  - intros f Hd. rewrite rm_msteps_Wc_keep; [apply A5; exact Hd|].
    intros Hw. apply rc_setup_fut_writes in Hw. destruct Hw as [Hl Hw].
    assert (f = k) by (apply (rc_locof_inj f k (rc_tn f)); [ulia|exact Hl]). subst f.
    assert (E : rc_tn k = rc_tn k) by reflexivity. exact (Hw E Hd).
  - intros f Hf. destruct (Nat.eq_dec f k) as [->|Hne].
    + unfold rc_setup_fut, rc_new.
      apply (rm_rel_post N mon n [RWrite (rc_val k); RWrite (rc_err k); RWrite (rc_tz k)]);
        [right; left; cbn [rm_writes In]; auto|].
      unfold rc_setv. destruct (cs_fdone m0 k); [|destruct (existsb (Nat.eqb k) (c_queue m0))];
        cbn [app In]; intros H; repeat (destruct H as [H|H]; [try discriminate H; injection H; ulia|]); exact H.
    + apply rm_msteps_P_keep; [apply (Hother f); [exact Hne|ulia]|apply A6; lia].
  - intros f Hf Hd. destruct (Nat.eq_dec f k) as [->|Hne].
    + unfold rc_setup_fut. destruct (cs_fdone m0 k) eqn:Ed; [|contradiction]. unfold rc_new, rc_setv. cbn [app].
      repeat split.
      * apply (rm_rel_post N mon n [RWrite (rc_val k); RWrite (rc_err k); RWrite (rc_tz k); RRel (rc_ut k); RRel (rc_pr k);
                                   RWrite (rc_val k); RWrite (rc_err k); RWrite (rc_tn k)] (rc_ut k) [RRel (rc_pr k); RRel (rc_wg k)]);
          [right; left; cbn [rm_writes In]; auto|cbn [In]; intros H; repeat (destruct H as [H|H]; [discriminate H|]); exact H].
      * apply (rm_rel_post N mon n [RWrite (rc_val k); RWrite (rc_err k); RWrite (rc_tz k); RRel (rc_ut k); RRel (rc_pr k);
                                   RWrite (rc_val k); RWrite (rc_err k); RWrite (rc_tn k)] (rc_ut k) [RRel (rc_pr k); RRel (rc_wg k)]);
          [right; left; cbn [rm_writes In]; auto 10|cbn [In]; intros H; repeat (destruct H as [H|H]; [discriminate H|]); exact H].
      * apply (rm_rel_post N mon n [RWrite (rc_val k); RWrite (rc_err k); RWrite (rc_tz k); RRel (rc_ut k); RRel (rc_pr k);
                                   RWrite (rc_val k); RWrite (rc_err k); RWrite (rc_tn k); RRel (rc_ut k); RRel (rc_pr k)] (rc_wg k) []);
          [right; left; cbn [rm_writes In]; auto|intros []].
      * apply (rm_rel_post N mon n [RWrite (rc_val k); RWrite (rc_err k); RWrite (rc_tz k); RRel (rc_ut k); RRel (rc_pr k);
                                   RWrite (rc_val k); RWrite (rc_err k); RWrite (rc_tn k); RRel (rc_ut k); RRel (rc_pr k)] (rc_wg k) []);
          [right; left; cbn [rm_writes In]; auto|intros []].
    + destruct (A7 f ltac:(lia) Hd) as (B1 & B2 & B3 & B4).
      repeat split; (apply rm_msteps_P_keep; [apply (Hother f); [exact Hne|ulia]|assumption]).
  - intros f Hf Hq Hd. destruct (Nat.eq_dec f k) as [->|Hne].
    + unfold rc_setup_fut. rewrite Hd.
      assert (Hex : existsb (Nat.eqb k) (c_queue m0) = true).
      { apply existsb_exists. exists k. split; [exact Hq|apply Nat.eqb_refl]. }
      rewrite Hex. unfold rc_new. cbn [app].
      split; (apply (rm_rel_post N mon n [RWrite (rc_val k); RWrite (rc_err k); RWrite (rc_tz k); RRel (rc_ut k); RRel (rc_pr k)] (rc_ch k) []);
              [right; left; cbn [rm_writes In]; auto|intros []]).
    + destruct (A8 f ltac:(lia) Hq Hd) as (B1 & B2).
      split; (apply rm_msteps_P_keep; [apply (Hother f); [exact Hne|ulia]|assumption]).
Qed.

Lemma rc_setinv_all k :
  rc_setinv k (rm_msteps N rc_init n (flat_map (rc_setup_fut m0) (seq 0 k))).
Proof.
  induction k as [|k IH]; [exact rc_setinv_0|].
  rewrite seq_S, flat_map_app, rm_msteps_app. cbn [flat_map Nat.add]. rewrite app_nil_r.
  apply rc_setinv_S. exact IH.
Qed.

End Setup.

(* ------------------------------------------------------------------ the initial state *)
Lemma rc_nodupb_spec l : rc_nodupb l = true -> NoDup l.
Proof.
  induction l as [|a l IH]; cbn [rc_nodupb]; intros H; [constructor|].
  apply andb_prop in H. destruct H as [H1 H2]. constructor; [|apply IH; exact H2].
  intros Hin. apply negb_true_iff in H1.
  assert (E : existsb (Nat.eqb a) l = true) by (apply existsb_exists; exists a; split; [exact Hin|apply Nat.eqb_refl]).
  congruence.
Qed.

Lemma rc_mem_ok_spec m0 :
  rc_mem_ok m0 = true ->
  (forall k f, In (k, f) (c_map m0) -> f < length (c_futs m0)) /\
  (forall f p, cs_fpred m0 f = Some p -> p < length (c_futs m0)) /\
  (forall f, In f (c_queue m0) -> f < length (c_futs m0) /\ cs_fdone m0 f = None) /\
  NoDup (c_queue m0).
Proof.
  unfold rc_mem_ok. intros H. apply andb_prop in H. destruct H as [H H4].
  apply andb_prop in H. destruct H as [H H3]. apply andb_prop in H. destruct H as [H1 H2].
  rewrite forallb_forall in H1, H2, H3. split; [|split; [|split]].
  - intros k f Hin. specialize (H1 _ Hin). cbn in H1. apply Nat.ltb_lt. exact H1.
  - intros f p Hp. unfold cs_fpred, c_get in Hp. destruct (nth_error (c_futs m0) f) as [x|] eqn:E; [|discriminate].
    specialize (H2 x (nth_error_In _ _ E)). rewrite Hp in H2. apply Nat.ltb_lt. exact H2.
  - intros f Hin. specialize (H3 _ Hin). apply andb_prop in H3. destruct H3 as [A B].
    split; [apply Nat.ltb_lt; exact A|]. destruct (cs_fdone m0 f); [discriminate|reflexivity].
  - apply rc_nodupb_spec. exact H4.
Qed.

Lemma rc_init_pcof m0 progs j pc : rc_pcof (cs_init_on m0 progs) j = Some pc -> pc = CsIdle.
Proof.
  unfold rc_pcof, cs_init_on. cbn [cs_thr]. rewrite nth_error_map.
  destruct (nth_error progs j); cbn; [|discriminate]. intros H. inversion H. reflexivity.
Qed.

Lemma rc_run_setup N n evs : rc_run N (map (pair n) evs) = rm_msteps N rc_init n evs.
Proof.
  unfold rc_run. rewrite <- (app_nil_r (map (pair n) evs)). rewrite rm_run_map. reflexivity.
Qed.

Lemma rc_init_inv N n m0 progs :
  rc_mem_ok m0 = true ->
  rc_inv (cs_init_on m0 progs) (rc_run N (map (pair n) (rc_setup m0))).
Proof.
  intros Hok. destruct (rc_mem_ok_spec m0 Hok) as (Hmap & Hpred & Hqueue & Hnd).
  rewrite rc_run_setup. unfold rc_setup. rewrite rm_msteps_app.
  set (mon1 := rm_msteps N rc_init n (flat_map (rc_setup_fut m0) (seq 0 (length (c_futs m0))))).
  destruct (rc_setinv_all N m0 n (length (c_futs m0))) as [A1 A2 A3 A4 A5 A6 A7 A8]. fold mon1 in A1, A2, A3, A4, A5, A6, A7, A8.
  set (fin := [RAcq rc_mu; RWrite rc_mp; RRel rc_mu]).
  assert (Hnw : forall x, x <> rc_mp -> ~ In (RWrite x) fin).
  { intros x Hx H. cbn in H. destruct H as [H|[H|[H|[]]]]; try discriminate. injection H as E. congruence. }
  assert (Hnr : forall x, ~ In (RRead x) fin).
  { intros x H. cbn in H. destruct H as [H|[H|[H|[]]]]; discriminate. }
  assert (Hkeep : forall o x, x <> rc_mp -> rm_P mon1 o x -> rm_P (rm_msteps N mon1 n fin) o x).
  { intros o x Hx H. apply rm_msteps_P_keep; [apply Hnw; exact Hx|exact H]. }
  assert (Hidle : forall j pc, rc_pcof (cs_init_on m0 progs) j = Some pc -> pc = CsIdle) by apply rc_init_pcof.
  split; [|split].
  - (* structural *)
    cbn [cs_init_on cs_m cs_lock]. constructor.
    + intros j pc H. rewrite (Hidle j pc H). cbn. split; discriminate.
    + intros j pc H. rewrite (Hidle j pc H). exact Logic.I.
    + intros j pc f H. rewrite (Hidle j pc H). intros [].
    + intros j pc f H. rewrite (Hidle j pc H). discriminate.
    + intros j pc f H. rewrite (Hidle j pc H). discriminate.
    + intros i j pi pj f H1 _. rewrite (Hidle i pi H1). discriminate.
    + exact Hnd.
    + exact Hqueue.
    + exact Hmap.
    + exact Hpred.
  - (* facts *)
    cbn [cs_init_on cs_m cs_lock].
    assert (Hcomp : forall f, rc_complete m0 (rc_pcof (cs_init_on m0 progs)) f -> f < length (c_futs m0) /\ cs_fdone m0 f <> None).
    { intros f [H _]. split; [apply rc_fdone_lt; exact H|exact H]. }
    constructor.
    + apply rm_obl_ok; [exact A1|]. cbn [fin rm_obl]. split; [|split; [|exact Logic.I]].
      * left. apply rm_K_fresh. exact A4.
      * apply rm_KR_fresh. intros u. apply A2.
    + intros j x [[H _]|(pc & H & Hin)]; [discriminate|]. rewrite (Hidle j pc H) in Hin. destruct Hin.
    + intros o x H. destruct H as [f H|f y Hd Hy|f y Hc Hy|f y Hq Hy|Hl|j k v e now y Hj Hy].
      * apply Hkeep; [ulia|apply A6; exact H].
      * destruct (A7 f (rc_fdone_lt _ _ Hd) Hd) as (B1 & B2 & _).
        destruct Hy as [->| ->]; (apply Hkeep; [ulia|assumption]).
      * destruct (Hcomp f Hc) as [Hlt Hd]. destruct (A7 f Hlt Hd) as (_ & _ & B3 & B4).
        destruct Hy as [->| ->]; (apply Hkeep; [ulia|assumption]).
      * destruct (Hqueue f Hq) as [Hlt Hd]. destruct (A8 f Hlt Hq Hd) as (B1 & B2).
        destruct Hy as [->|[->| ->]]; (apply Hkeep; [ulia|]); try assumption.
        apply rm_P_fresh. apply A5. exact Hd.
      * apply (rm_rel_post N mon1 n [RAcq rc_mu; RWrite rc_mp] rc_mu []); [right; left; cbn; auto|intros []].
      * exfalso. pose proof (Hidle j _ Hj). discriminate.
    + intros x (f & Hl & Hf). split.
      * rewrite rm_msteps_Wc_keep; [apply (A3 f x); [destruct Hf as [Hf|[Hf _]]; lia|exact Hl]|].
        apply Hnw. intros ->. exact (rc_locof_mp _ Hl).
      * intros u. rewrite rm_msteps_R_keep by apply Hnr. apply A2.
    + intros x _ u. rewrite rm_msteps_R_keep by apply Hnr. apply A2.
    + intros j H. discriminate.
    + intros _. apply rm_PR_fresh. intros u. rewrite rm_msteps_R_keep by apply Hnr. apply A2.
  - intros j t Hj _. cbn [cs_init_on cs_thr] in Hj. rewrite nth_error_map in Hj.
    destruct (nth_error progs j); [|discriminate]. cbn in Hj. inversion Hj. reflexivity.
Qed.

(* ------------------------------------------------------------------ well-formedness *)
Lemma rc_trace_from_wf cfg sched : forall s, hb_wf (S (length (cs_thr s))) (rc_trace_from cfg s sched).
Proof.
  induction sched as [|it r IH]; intros s; unfold rc_trace_from in *; cbn [rc_trace_from_gen]; [constructor|].
  apply rm_wf_app.
  - unfold rc_events_gen. destruct it as [tid|dt]; [|constructor].
    destruct (nth_error (cs_thr s) tid) as [t|] eqn:E; [|constructor].
    assert (tid < length (cs_thr s)) by (apply nth_error_Some; congruence).
    apply rm_wf_map. cbn [rc_tid]. lia.
  - destruct (rc_step_view cfg s it) as (_ & Hlen & _). rewrite <- Hlen. apply IH.
Qed.

Lemma rc_trace_wf cfg m0 progs sched : hb_wf (rc_nthr progs) (rc_trace cfg m0 progs sched).
Proof.
  unfold rc_trace, rc_trace_gen. apply rm_wf_app.
  - apply rm_wf_map. unfold rc_nthr. lia.
  - pose proof (rc_trace_from_wf cfg sched (cs_init_on m0 progs)) as H.
    cbn [cs_init_on cs_thr] in H. rewrite map_length in H. exact H.
Qed.

(* ------------------------------------------------------------------ the theorems *)
Theorem rc_monitor_silent cfg m0 progs sched :
  rc_mem_ok m0 = true ->
  rc_raced (rc_run (rc_nthr progs) (rc_trace cfg m0 progs sched)) = false.
Proof.
  intros Hok. unfold rc_trace, rc_trace_gen, rc_run. rewrite fold_left_app.
  apply (rc_run_inv (rc_nthr progs) cfg sched). apply rc_init_inv. exact Hok.
Qed.

Theorem rc_model_race_free cfg m0 progs sched :
  rc_mem_ok m0 = true -> ~ hb_race (rc_trace cfg m0 progs sched).
Proof.
  intros Hok. apply (hbp_agree (rc_nthr progs)); [apply rc_trace_wf|apply rc_monitor_silent; exact Hok].
Qed.

Theorem rc_conflicts_ordered cfg m0 progs sched i j :
  rc_mem_ok m0 = true ->
  i < j -> j < length (rc_trace cfg m0 progs sched) ->
  hb_conflict (rc_trace cfg m0 progs sched) i j -> hb_hb (rc_trace cfg m0 progs sched) i j.
Proof.
  intros Hok. apply (hbp_norace_ordered (rc_nthr progs)); [apply rc_trace_wf|apply rc_monitor_silent; exact Hok].
Qed.

(* the empty cache *)
Corollary rc_model_race_free_empty cfg progs sched : ~ hb_race (rc_trace cfg c_init progs sched).
Proof. apply rc_model_race_free. reflexivity. Qed.

(* ------------------------------------------------------------------ labelling vs yield sites
   The C04 stream "call-steps" compares at EVERY step of every executed schedule the yield site
   the real goroutine is parked at with [cs_site] of the model's pc (cachex/verif_on.go: the
   yield sits directly in front of the access the site names).  The labelling agrees with that
   classification: the first event of a step from a site is the operation the site names.
     1 BeforeLock: Lock        2 AfterLock: a plain access (the map, or the new private future)
     3 AfterUnlock / 0: nothing     4 LoadUpdateTime: atomic load of updateTime
     5 ReadErr: plain read of err   6 LoadPredecessor: atomic load of predecessor
     7 StoreUpdateTime: the store   8 StorePredecessor: the store, then wg.Done, no acquire
     9 SendJob: the send            10 FutureWait: wg.Wait returns, then value and err are read
     100 (harness: loader returned): setValue's plain writes only *)
Lemma rc_sites cfg m pc :
  match cs_site pc with
  | 1%Z => rc_label cfg m pc = [RAcq rc_mu]
  | 2%Z => exists e rest, rc_label cfg m pc = e :: rest /\ ~ rm_sync e
  | 0%Z | 3%Z => rc_label cfg m pc = []
  | 4%Z => exists f rest, rc_label cfg m pc = RAcq (rc_ut f) :: rest
  | 5%Z => exists f rest, rc_label cfg m pc = RRead (rc_err f) :: rest
  | 6%Z => exists f rest, rc_label cfg m pc = RAcq (rc_pr f) :: rest
  | 7%Z => exists f, rc_label cfg m pc = [RRel (rc_ut f)]
  | 8%Z => exists f rest, rc_label cfg m pc = RRel (rc_pr f) :: RRel (rc_wg f) :: rest
                          /\ Forall (fun e => forall o, ~ hb_is_acq e o) rest
  | 9%Z => exists f, rc_label cfg m pc = [RRel (rc_ch f)]
  | 10%Z => exists f, rc_label cfg m pc = [RAcq (rc_wg f); RRead (rc_val f); RRead (rc_err f)]
  | 100%Z => Forall (fun e => ~ rm_sync e) (rc_label cfg m pc)
  | _ => True
  end.
Proof.
  destruct pc; cbn [cs_site]; unfold rc_label; cbn [rc_label_gen]; try reflexivity;
    try (eexists; reflexivity); try (eexists _, _; reflexivity).
  - eexists _, _. split; [reflexivity|intros []].
  - eexists _, _. split; [reflexivity|intros []].
  - unfold rc_new. cbn [app]. eexists _, _. split; [reflexivity|intros []].
  - eexists _, _. split; [reflexivity|]. repeat constructor; intros o H; exact H.
  - unfold rc_setv. repeat constructor; intros [].
  - eexists _, _. split; [reflexivity|]. constructor.
  - unfold rc_sweep_next. eexists _, _. split; [reflexivity|intros []].
Qed.

(* the worker's channel receive happens in the first step of its call (from site 0) *)
Lemma rc_sites_start m op :
  rc_label_start m op = [] \/ exists f, rc_label_start m op = [RAcq (rc_ch f)].
Proof.
  destruct op; cbn; auto. destruct (c_queue m) as [|f q]; [auto|right; eauto].
Qed.

(* ------------------------------------------------------------------ the analysis discriminates *)
Definition rc_ex_cfg : c_cfg := {| c_normE := 3600%Z; c_errE := 1200%Z |}.

(* the status check of the code before fix D3 (future.err read although the loaded updateTime is
   zero) races with the worker's setValue in the labelled model: a Load creates the entry and
   sends the job, the worker receives it, a second Load checks the status, the worker writes *)
Lemma rc_unguarded_status_refuted :
  hb_race (rc_trace_gen true rc_ex_cfg c_init [[CsLoad 0%Z]; [CsFinish 5%Z 0%Z]; [CsLoad 0%Z]]
             (map CsRun [0;0;0;0;0; 1; 2;2;2;2; 1])).
Proof. apply (hbp_sound 4). vm_compute. reflexivity. Qed.

(* the same schedule on the code as it is: no race *)
Lemma rc_unguarded_schedule_ok :
  ~ hb_race (rc_trace rc_ex_cfg c_init [[CsLoad 0%Z]; [CsFinish 5%Z 0%Z]; [CsLoad 0%Z]]
               (map CsRun [0;0;0;0;0; 1; 2;2;2;2; 1])).
Proof. apply rc_model_race_free. reflexivity. Qed.

(* the job channel is what orders the worker's setValue after the allocation of the future:
   without the receive's acquire the run races *)
Lemma rc_channel_needed :
  let tr := rc_trace rc_ex_cfg c_init [[CsLoad 0%Z]; [CsFinish 5%Z 0%Z]] (map CsRun [0;0;0;0;0; 1;1]) in
  nth_error tr 13 = Some (1, RAcq (rc_ch 0)) /\ ~ hb_race tr /\ hb_race (firstn 13 tr ++ skipn 14 tr).
Proof.
  cbv zeta. split; [vm_compute; reflexivity|]. split; [apply rc_model_race_free; reflexivity|].
  apply (hbp_sound 3). vm_compute. reflexivity.
Qed.

(* without the release of setValue's store of updateTime, a status check that saw the new stamp
   races with the write of err *)
Lemma rc_store_release_needed :
  let tr := rc_trace rc_ex_cfg c_init [[CsLoad 0%Z]; [CsFinish 5%Z 0%Z]; [CsGet2 0%Z]]
              (map CsRun [0;0;0;0;0; 1;1;1; 2;2;2;2;2]) in
  nth_error tr 17 = Some (1, RRel (rc_ut 0)) /\ ~ hb_race tr /\ hb_race (firstn 17 tr ++ skipn 18 tr).
Proof.
  cbv zeta. split; [vm_compute; reflexivity|]. split; [apply rc_model_race_free; reflexivity|].
  apply (hbp_sound 4). vm_compute. reflexivity.
Qed.

(* the set-ups of the C04 stream (Cache.v events from the empty cache, back-dating) are well-formed
   initial memories: absent, loading, loading-stale-pred, fresh, expired, rotted, err-fresh, err-expired *)
Definition rc_ex_inits : list c_state :=
  let ld m := fst (c_step rc_ex_cfg m (CLoad 0%Z)) in
  let fin v e m := fst (c_step rc_ex_cfg (fst (c_step rc_ex_cfg m (CStart 0%Z))) (CFinish 0%Z 0 v e)) in
  [ c_init; ld c_init;
    ld (cs_backdate (fin 5%Z 0%Z (ld c_init)) 0 5400%Z);
    cs_backdate (fin 5%Z 0%Z (ld c_init)) 0 60%Z;
    cs_backdate (fin 5%Z 0%Z (ld c_init)) 0 5400%Z;
    cs_backdate (fin 5%Z 0%Z (ld c_init)) 0 10800%Z;
    cs_backdate (fin 0%Z 3%Z (ld c_init)) 0 60%Z;
    cs_backdate (fin 0%Z 3%Z (ld c_init)) 0 1800%Z ].
Lemma rc_ex_inits_ok : forallb rc_mem_ok rc_ex_inits = true.
Proof. vm_compute. reflexivity. Qed.

Lemma rc_rows_ok : rc_rows_in_table = true.
Proof. vm_compute. reflexivity. Qed.
