(* AntsCancelProofs.v -- the ants pool model (models/Ants.v) under a cancelled parent context
   (pool built with WithContextBuilder; input event AnParentCancel).

   The C07 theorems of proofs/AntsProofs.v quantify over every event history, hence also over
   those containing AnParentCancel.  This file adds what is specific to the cancellation:
     an_qinv   after the cancellation at q: q <= now and every queued callback / running handler
               has a context that was done by q
     an_xinv   a task picked up strictly after q has only (nil, DeadlineExceeded) in its attempt
               channels and decisions, and every one of its callbacks saw ctx1 done
     ants_cancelled_parent_outcome_l   such a task, once run() has returned, made exactly R
               attempts, each decided (nil, DeadlineExceeded); Get2 = (nil, DeadlineExceeded); the
               error callback ran exactly once with DeadlineExceeded (if registered)
   and a vm_compute witness of the scenario of the seeded change (cancel during attempt 1). *)
From Got Require Import Base Ants AntsProofs.
Local Open Scope Z_scope.

Lemma an_after_pc s k a f : an_pc (an_after s k a f) = an_pc s.
Proof. destruct (an_after_cases s k a f) as [[_ E]|[[_ [_ E]]|[_ [_ E]]]]; rewrite E; reflexivity. Qed.

(* ------------------------------------------------------------------ contexts are done by the cancel instant *)
Definition an_qinv (s : an_state) : Prop :=
  forall q, an_pc s = Some q ->
    q <= an_now s /\
    (forall k a d, In (k, a, d) (an_ichan s) -> d <= q) /\
    (forall k a d r p, In (AnRun k a d r p) (an_workers s) -> d <= q).

Lemma an_qinv_frame s s' :
  an_pc s' = an_pc s -> an_now s <= an_now s' ->
  (forall k a d, In (k, a, d) (an_ichan s') -> In (k, a, d) (an_ichan s) \/ forall q, an_pc s = Some q -> d <= q) ->
  (forall k a d r p, In (AnRun k a d r p) (an_workers s') -> In (AnRun k a d r p) (an_workers s) \/ In (k, a, d) (an_ichan s)) ->
  an_qinv s -> an_qinv s'.
Proof.
  intros Hp Hn Hi Hw IH q Hq. rewrite Hp in Hq. destruct (IH q Hq) as (Q1 & Q2 & Q3).
  split; [lia|split].
  - intros k a d Hin. destruct (Hi k a d Hin) as [H|H]; [eapply Q2, H|apply H, Hq].
  - intros k a d r p Hin. destruct (Hw k a d r p Hin) as [H|H]; [eapply Q3, H|eapply Q2, H].
Qed.

Lemma an_qinv_decide s k a f : an_qinv s -> an_qinv (an_after s k a f).
Proof.
  intros IH.
  destruct (an_after_cases s k a f) as [[_ E]|[[_ [_ E]]|[_ [_ E]]]]; rewrite E;
    (apply (an_qinv_frame s); [reflexivity|cbn; lia|intros; left; assumption|intros; left; assumption|exact IH]).
Qed.

Lemma an_qinv_step cfg s e s' : an_qinv s -> an_step cfg s e = Some s' -> an_qinv s'.
Proof.
  intros IH Hs.
  destruct e; an_inv_step Hs; try (inversion Hs; subst; clear Hs);
    try (apply an_qinv_decide; exact IH);
    try (apply (an_qinv_frame s); cbn [an_pc an_now an_ichan an_workers an_with_task];
         [reflexivity|lia|intros; left; assumption|intros; left; assumption|exact IH]).
  - (* enqueue *)
    apply (an_qinv_frame s); cbn [an_pc an_now an_ichan an_workers]; [reflexivity|lia| |intros; left; assumption|exact IH].
    intros k' a' d Hin. apply in_app_or in Hin. destruct Hin as [Hin|[Heq|[]]]; [left; exact Hin|right].
    intros q Hq. inversion Heq. unfold an_dl. rewrite Hq. lia.
  - (* start *)
    an_bools. an_subst_vars.
    apply (an_qinv_frame s); cbn [an_pc an_now an_ichan an_workers]; [reflexivity|lia| | |exact IH].
    + intros k' a' d' Hin. left. rewrite M. right. exact Hin.
    + intros k' a' d' r p [Heq|Hin]; [right; inversion Heq; subst; rewrite M; left; reflexivity|left; exact Hin].
  - (* return *)
    destruct (an_extract_in _ _ _ _ M) as (_ & Hsub & _).
    apply (an_qinv_frame s); cbn [an_pc an_now an_ichan an_workers]; [reflexivity|lia|intros; left; assumption| |exact IH].
    intros k' a' d' r' p' [Heq|Hin]; [discriminate|left; apply Hsub, Hin].
  - (* publish *)
    destruct (an_extract_in _ _ _ _ M) as (_ & Hsub & _).
    apply (an_qinv_frame s); cbn [an_pc an_now an_ichan an_workers]; [reflexivity|lia|intros; left; assumption| |exact IH].
    intros k' a' d' r' p' Hin. left. apply Hsub, Hin.
  - (* parent cancel, again *) exact IH.
  - (* parent cancel *)
    intros q Hq. cbn [an_pc] in Hq. inversion Hq; subst q. cbn [an_now an_ichan an_workers].
    split; [lia|split].
    + intros k a d Hin. apply in_map_iff in Hin. destruct Hin as ([[k' a'] d'] & E & _). cbn [an_cancel_cb] in E. inversion E. lia.
    + intros k a d r p Hin. apply in_map_iff in Hin. destruct Hin as (sl & E & _).
      destruct sl as [k' a' d' r' p'|k' a' saw' p']; cbn [an_cancel_slot] in E; [|discriminate E].
      destruct (ab_honours (an_beh_of (at_opts (an_tk s k')) a') && (an_now s <? r'))%bool; inversion E; lia.
Qed.

Lemma an_qinv_reach cfg s : an_reach cfg s -> an_qinv s.
Proof.
  apply (an_reach_inv an_qinv).
  - intros q Hq. discriminate Hq.
  - intros s0 e s1 _ H Hs. eapply an_qinv_step; eauto.
Qed.

Lemma ants_cancelled_parent_contexts_done_l cfg evs s q :
  an_run cfg an_init evs = Some s -> an_pc s = Some q ->
  q <= an_now s /\
  (forall k a d, In (k, a, d) (an_ichan s) -> d <= q) /\
  (forall k a d r p, In (AnRun k a d r p) (an_workers s) -> d <= q).
Proof. intros Hrun. apply (an_qinv_reach cfg). exists evs. exact Hrun. Qed.

(* ------------------------------------------------------------------ tasks picked up after the cancellation *)
Definition an_pristine (ph : an_phase) : Prop := ph = AnUnsent \/ ph = AnQueued.
Definition an_all_de (s : an_state) (k : nat) : Prop :=
  (forall a p, In (a, p) (at_chan (an_tk s k)) -> p = (None, AnDeadline)) /\
  (forall a p f, In (a, p, f) (at_dec (an_tk s k)) -> p = (None, AnDeadline)) /\
  (forall a saw p, In (AnPub k a saw p) (an_workers s) -> saw = true).
Definition an_xinv (s : an_state) : Prop :=
  0 <= an_now s /\
  (forall k, at_pickup (an_tk s k) <= an_now s) /\
  (forall k, an_pristine (at_phase (an_tk s k)) ->
     at_chan (an_tk s k) = [] /\ forall sl, In sl (an_workers s) -> an_slot_k sl <> k) /\
  (forall q k, an_pc s = Some q -> q < at_pickup (an_tk s k) -> an_all_de s k).

(* steps that keep pickup / chan / dec of every task, keep non-pristine tasks non-pristine, and add
   at most running slots of non-pristine tasks *)
Lemma an_xinv_frame s s' :
  an_pc s' = an_pc s -> an_now s <= an_now s' ->
  (forall k, at_pickup (an_tk s' k) = at_pickup (an_tk s k) /\ at_chan (an_tk s' k) = at_chan (an_tk s k) /\
             at_dec (an_tk s' k) = at_dec (an_tk s k) /\
             (an_pristine (at_phase (an_tk s' k)) -> an_pristine (at_phase (an_tk s k)))) ->
  (forall sl, In sl (an_workers s') ->
     In sl (an_workers s) \/ (an_running sl = true /\ ~ an_pristine (at_phase (an_tk s (an_slot_k sl))))) ->
  an_xinv s -> an_xinv s'.
Proof.
  intros Hp Hn Hk Hw (X0 & X1 & X2 & X3). split; [lia|split; [|split]].
  - intros k. destruct (Hk k) as (E & _). rewrite E. specialize (X1 k). lia.
  - intros k Hpr. destruct (Hk k) as (_ & E & _ & Hph). destruct (X2 k (Hph Hpr)) as [C W]. rewrite E. split; [exact C|].
    intros sl Hin. destruct (Hw sl Hin) as [H|[_ H]]; [apply W, H|]. intros Heq. apply H. rewrite Heq. apply Hph, Hpr.
  - intros q k Hq Hlt. rewrite Hp in Hq. destruct (Hk k) as (E1 & E2 & E3 & _). rewrite E1 in Hlt.
    destruct (X3 q k Hq Hlt) as (A1 & A2 & A3). unfold an_all_de. rewrite E2, E3. split; [exact A1|split; [exact A2|]].
    intros a saw p Hin. destruct (Hw _ Hin) as [H|[H _]]; [eapply A3, H|discriminate H].
Qed.

(* a step that touches only task k (phase stays non-pristine), nothing else *)
Lemma an_xinv_frame1 s s' k t :
  an_pc s' = an_pc s -> an_now s <= an_now s' -> an_tk s' = an_upd (an_tk s) k t -> an_workers s' = an_workers s ->
  at_pickup t = at_pickup (an_tk s k) -> at_chan t = at_chan (an_tk s k) -> at_dec t = at_dec (an_tk s k) ->
  (an_pristine (at_phase t) -> an_pristine (at_phase (an_tk s k))) ->
  an_xinv s -> an_xinv s'.
Proof.
  intros Hp Hn Ht Hw E1 E2 E3 E4. apply an_xinv_frame; auto.
  - intros j. rewrite Ht. unfold an_upd. destruct (Nat.eqb_spec j k) as [->|]; auto.
  - intros sl Hin. left. rewrite <- Hw. exact Hin.
Qed.

Lemma an_xinv_decide s k a c p :
  an_xinv s -> at_phase (an_tk s k) = AnWait a c ->
  (forall q, an_pc s = Some q -> q < at_pickup (an_tk s k) -> p = (None, AnDeadline)) ->
  an_xinv (an_after s k a p).
Proof.
  intros (X0 & X1 & X2 & X3) Hph Hp.
  assert (G : forall t' s1, an_tk s1 = an_upd (an_tk s) k t' -> an_now s1 = an_now s -> an_pc s1 = an_pc s -> an_workers s1 = an_workers s ->
              at_pickup t' = at_pickup (an_tk s k) -> at_chan t' = at_chan (an_tk s k) ->
              at_dec t' = (a, p, an_now s) :: at_dec (an_tk s k) -> ~ an_pristine (at_phase t') -> an_xinv s1).
  { intros t' s1 Et En Ec Ew E1 E2 E3 Hnp. unfold an_xinv, an_all_de. rewrite Et, En, Ec, Ew. split; [exact X0|split; [|split]].
    - intros j. unfold an_upd. destruct (Nat.eqb_spec j k) as [->|]; [rewrite E1|]; apply X1.
    - intros j. unfold an_upd. destruct (Nat.eqb_spec j k) as [->|]; [intros H; contradiction|apply X2].
    - intros q j Hq. unfold an_upd. destruct (Nat.eqb_spec j k) as [->|]; [|apply X3, Hq].
      rewrite E1, E2, E3. intros Hlt. destruct (X3 q k Hq Hlt) as (A1 & A2 & A3). split; [exact A1|split; [|exact A3]].
      intros a' p' f' [Heq|Hin]; [inversion Heq; subst; eapply Hp; eauto|eapply A2, Hin]. }
  destruct (an_after_cases s k a p) as [[En E]|[[En [El E]]|[En [El E]]]]; rewrite E; clear E.
  - eapply G; try reflexivity. cbn. intros [H|H]; discriminate H.
  - eapply G; try reflexivity. cbn. intros [H|H]; discriminate H.
  - destruct (ao_onerr (at_opts (an_tk s k))); eapply G; try reflexivity; cbn; intros [H|H]; discriminate H.
Qed.

Lemma an_enq_pristine t : an_pristine (at_phase t) -> an_enq t = 0%nat.
Proof. unfold an_enq. intros [-> | ->]; reflexivity. Qed.

Lemma an_xinv_step cfg s e s' :
  an_pub cfg = AnAttemptChannel -> an_tinv_all s -> an_binv s -> an_cinv s -> an_xinv s -> an_step cfg s e = Some s' -> an_xinv s'.
Proof.
  intros Hpub (IT & Hnext & _ & Hq & _) (_ & B2 & _) (_ & _ & _ & C4) IH Hs.
  pose proof IH as (X0 & X1 & X2 & X3).
  assert (Hsend : forall t s1, an_tk s1 = an_upd (an_tk s) (an_next s) t -> an_now s1 = an_now s -> an_pc s1 = an_pc s ->
            an_workers s1 = an_workers s -> at_pickup t = 0 -> at_chan t = [] -> at_dec t = [] -> an_xinv s1).
  { intros t s1 Et En Ec Ew E1 E2 E3. unfold an_xinv, an_all_de. rewrite Et, En, Ec, Ew. split; [exact X0|split; [|split]].
    - intros j. unfold an_upd. destruct (Nat.eqb_spec j (an_next s)) as [->|]; [rewrite E1; exact X0|apply X1].
    - intros j. unfold an_upd. destruct (Nat.eqb_spec j (an_next s)) as [->|]; [|apply X2].
      intros _. split; [exact E2|]. intros sl Hin. specialize (C4 sl Hin). lia.
    - intros q j Hq'. unfold an_upd. destruct (Nat.eqb_spec j (an_next s)) as [->|]; [|apply X3, Hq'].
      rewrite E1, E2, E3. intros _. split; [intros a p []|split; [intros a p f []|]].
      intros a saw p Hin. specialize (C4 _ Hin). cbn in C4. lia. }
  destruct e; an_inv_step Hs; try (inversion Hs; subst; clear Hs).
  - (* send, discarded *) eapply Hsend; try reflexivity; rewrite an_upd_same || idtac; destruct (ao_onerr o); reflexivity.
  - eapply Hsend; try reflexivity.
  - eapply Hsend; try reflexivity.
  - (* pick *)
    an_bools. an_subst_vars.
    assert (Hkq : at_phase (an_tk s k) = AnQueued) by (apply Hq; try rewrite M; left; reflexivity).
    destruct (X2 k (or_intror Hkq)) as [Hc Hsl].
    pose proof (IT k) as Tk. unfold an_tinv in Tk. rewrite Hkq in Tk. destruct Tk as (Hd & _).
    unfold an_xinv, an_all_de. cbn [an_now an_tk an_pc an_workers]. split; [exact X0|split; [|split]].
    + intros j. unfold an_upd. destruct (Nat.eqb_spec j k) as [->|]; [cbn; lia|apply X1].
    + intros j. unfold an_upd. destruct (Nat.eqb_spec j k) as [->|]; [cbn; intros [H|H]; discriminate H|apply X2].
    + intros q j Hq'. unfold an_upd. destruct (Nat.eqb_spec j k) as [->|]; [|apply X3, Hq'].
      cbn. rewrite Hc, Hd. intros _. split; [intros a p []|split; [intros a p f []|]].
      intros a saw p Hin. exfalso. apply (Hsl _ Hin). reflexivity.
  - (* enqueue *)
    apply (an_xinv_frame s); cbn [an_pc an_now an_tk an_workers]; [reflexivity|lia| |intros; left; assumption|exact IH].
    intros j. unfold an_upd. destruct (Nat.eqb_spec j k) as [->|]; [|auto].
    repeat split; try reflexivity. cbn. intros [H|H]; discriminate H.
  - (* start *)
    an_bools. an_subst_vars.
    assert (Hnp : ~ an_pristine (at_phase (an_tk s k))).
    { intros Hpr. destruct (B2 k a) as [Hb _]. { unfold an_keys. rewrite M. left. reflexivity. }
      rewrite (an_enq_pristine _ Hpr) in Hb. lia. }
    apply (an_xinv_frame s); cbn [an_pc an_now an_tk an_workers]; [reflexivity|lia| | |exact IH].
    + intros j. unfold an_upd. destruct (Nat.eqb_spec j k) as [->|]; cbn; auto.
    + intros sl [<-|Hin]; [right; split; [reflexivity|exact Hnp]|left; exact Hin].
  - (* return *)
    an_bools. destruct (an_extract_spec _ _ _ _ M) as [Hf _]. destruct (an_extract_in _ _ _ _ M) as (Hx & Hsub & _).
    unfold an_is_run in Hf. an_bools. an_subst_vars.
    unfold an_xinv, an_all_de. cbn [an_now an_tk an_pc an_workers]. split; [exact X0|split; [|split]].
    + intros j. unfold an_upd. destruct (Nat.eqb_spec j k) as [->|]; [cbn|]; apply X1.
    + intros j. unfold an_upd. destruct (Nat.eqb_spec j k) as [->|]; cbn [at_phase at_chan at_set_ret]; intros Hpr;
        destruct (X2 _ Hpr) as [Hc Hsl]; (split; [exact Hc|]); intros sl [<-|Hin]; try (apply Hsl, Hsub, Hin); apply (Hsl _ Hx).
    + intros q j Hq'. unfold an_upd. destruct (Nat.eqb_spec j k) as [->|]; cbn [at_pickup at_chan at_dec at_set_ret]; intros Hlt;
        destruct (X3 q _ Hq' Hlt) as (A1 & A2 & A3); (split; [exact A1|split; [exact A2|]]); intros a' saw' p' [Heq|Hin];
        try (eapply A3, Hsub, Hin).
      * inversion Heq; subst. unfold an_saw_ok in *. rewrite Hq' in *. an_bools. assumption.
      * inversion Heq; subst. contradiction.
  - (* publish *)
    rewrite Hpub. destruct (an_extract_spec _ _ _ _ M) as [Hf _]. destruct (an_extract_in _ _ _ _ M) as (Hx & Hsub & _).
    unfold an_is_pub in Hf. an_bools. an_subst_vars.
    assert (Hnp : ~ an_pristine (at_phase (an_tk s k))).
    { intros Hpr. destruct (X2 _ Hpr) as [_ Hsl]. apply (Hsl _ Hx). reflexivity. }
    unfold an_xinv, an_all_de. cbn [an_now an_tk an_pc an_workers]. split; [exact X0|split; [|split]].
    + intros j. unfold an_upd. destruct (Nat.eqb_spec j k) as [->|]; [cbn|]; apply X1.
    + intros j. unfold an_upd. destruct (Nat.eqb_spec j k) as [->|]; [cbn [at_phase at_set_chan]; intros Hpr; contradiction|].
      intros Hpr. destruct (X2 _ Hpr) as [Hc Hsl]. split; [exact Hc|]. intros sl Hin. apply Hsl, Hsub, Hin.
    + intros q j Hq'. unfold an_upd. destruct (Nat.eqb_spec j k) as [->|]; cbn [at_pickup at_chan at_dec at_set_chan]; intros Hlt;
        destruct (X3 q _ Hq' Hlt) as (A1 & A2 & A3).
      * split; [|split; [exact A2|intros a' saw' p' Hin; eapply A3, Hsub, Hin]].
        intros a' p' [Heq|Hin]; [|eapply A1, Hin]. rewrite (A3 _ _ _ Hx) in Heq. inversion Heq. reflexivity.
      * split; [exact A1|split; [exact A2|intros a' saw' p' Hin; eapply A3, Hsub, Hin]].
  - (* decide via doneChan *)
    rewrite Hpub. eapply an_xinv_decide; eauto. intros q Hq' Hlt. destruct (X3 q k Hq' Hlt) as (A1 & _).
    eapply A1. apply an_chan_find_in. exact M0.
  - (* decide via deadline *)
    eapply an_xinv_decide; eauto.
  - (* get2 *)
    apply (an_xinv_frame s); cbn [an_pc an_now an_tk an_workers an_with_task]; [reflexivity|lia| |intros; left; assumption|exact IH].
    intros j. unfold an_upd. destruct (Nat.eqb_spec j k) as [->|]; [|auto]. repeat split; try reflexivity. cbn. auto.
  - apply (an_xinv_frame s); cbn [an_pc an_now an_tk an_workers an_with_task]; [reflexivity|lia| |intros; left; assumption|exact IH].
    intros j. unfold an_upd. destruct (Nat.eqb_spec j k) as [->|]; [|auto]. repeat split; try reflexivity. cbn. auto.
  - (* advance *)
    an_bools. apply (an_xinv_frame s); cbn [an_pc an_now an_tk an_workers]; [reflexivity|lia|intros; auto|intros; left; assumption|exact IH].
  - (* parent cancel, again *) exact IH.
  - (* parent cancel: no task has been picked up after this instant *)
    unfold an_xinv, an_all_de. cbn [an_now an_tk an_pc an_workers]. split; [exact X0|split; [exact X1|split]].
    + intros j Hpr. destruct (X2 _ Hpr) as [Hc Hsl]. split; [exact Hc|]. intros sl Hin.
      apply in_map_iff in Hin. destruct Hin as (sl0 & E & Hin). specialize (Hsl _ Hin). subst sl.
      destruct sl0 as [k' a' d r p'|k' a' saw' p']; cbn [an_cancel_slot];
        [destruct (ab_honours (an_beh_of (at_opts (an_tk s k')) a') && (an_now s <? r))%bool|]; exact Hsl.
    + intros q j Hq' Hlt. inversion Hq' as [Hqe]. specialize (X1 j). lia.
Qed.

Lemma an_xinv_reach cfg s : an_pub cfg = AnAttemptChannel -> an_reach cfg s -> an_xinv s.
Proof.
  intros Hpub. apply (an_reach_inv an_xinv).
  - unfold an_xinv, an_all_de. cbn. split; [lia|split; [intros; lia|split]].
    + intros k _. split; [reflexivity|intros sl []].
    + intros q k Hq. discriminate Hq.
  - intros s0 e s1 Hr H Hs. eapply an_xinv_step; eauto;
      [apply (an_tinv_reach cfg)|apply (an_binv_reach cfg)|apply (an_cinv_reach cfg)]; assumption.
Qed.

(* ------------------------------------------------------------------ property lemma *)
Lemma ants_cancelled_parent_outcome_l cfg evs s k q :
  an_fixed cfg -> an_run cfg an_init evs = Some s ->
  an_pc s = Some q -> q < at_pickup (an_tk s k) -> at_phase (an_tk s k) = AnDone ->
  let t := an_tk s k in
  map an_attempt_of (at_dec t) = rev (seq 1 (ao_R (at_opts t))) /\
  (forall a p f, In (a, p, f) (at_dec t) -> p = (None, AnDeadline)) /\
  at_fields t = (None, AnDeadline) /\
  (forall g, In g (at_get2 t) -> fst g = (None, AnDeadline)) /\
  (exists f, at_rel t = [f] /\ at_onerr t = (if ao_onerr (at_opts t) then [(AnDeadline, f)] else [])) /\
  (forall a, (1 <= a <= ao_R (at_opts t))%nat -> (exists d, In (k, a, d) (an_ichan s)) \/ In a (map fst (at_inv t))).
Proof.
  intros Hf Hrun Hq Hlt Hph. assert (Hr : an_reach cfg s) by (exists evs; exact Hrun).
  destruct (an_tinv_reach cfg s Hf Hr) as (IT & _). destruct (an_binv_reach cfg s Hf Hr) as (_ & _ & _ & B4).
  destruct (an_xinv_reach cfg s Hf Hr) as (_ & _ & _ & X3). destruct (X3 q k Hq Hlt) as (_ & A2 & _).
  cbn zeta. specialize (IT k). unfold an_tinv in IT. rewrite Hph in IT.
  destruct IT as (n & p & f & rest & H1 & H2 & H3 & H4 & H5 & H6 & H7 & H8 & H9 & _).
  assert (Hp : p = (None, AnDeadline)) by (eapply (A2 n p f); rewrite H1; left; reflexivity).
  rewrite Hp in H5, H6, H8, H9. change (an_is_nil (snd (@None Z, AnDeadline))) with false in H5, H8. cbn [negb andb snd] in H8.
  destruct H5 as [H5|H5]; [discriminate H5|]. subst n.
  split; [exact H2|split; [exact A2|split; [exact H6|split; [|split]]]].
  - intros g Hg. rewrite Forall_forall in H9. apply (H9 g Hg).
  - exists f. split; assumption.
  - intros a Ha. destruct (B4 k a) as [H|H]; [|left|right; exact H].
    + unfold an_enq. rewrite Hph. rewrite (an_dec_seq_length _ _ H2). exact Ha.
    + unfold an_keys in H. apply in_map_iff in H. destruct H as ([[k' a'] d] & E & Hin). unfold an_cb_key in E. cbn in E. inversion E; subst. exists d. exact Hin.
Qed.

(* the scenario of the seeded change, N = 1, T = 1000, R = 3, error callback registered: the handler of
   attempt 1 ignores its context and would return (7, nil) at 400 < T; the parent context is cancelled at
   200.  The dispatcher decides attempts 1 and 2 at 200 on ctx1.Done(), waits in sendInnerCallback until the
   inner worker is free (400), decides attempt 3 at 400; all three handlers are invoked. *)
Definition an_pc_cfg : an_cfg := {| an_N := 1; an_pub := AnAttemptChannel; an_urg := true |}.
Definition an_pc_opts : an_opts :=
  {| ao_T := 1000; ao_R := 3; ao_discard := false; ao_onerr := true;
     ao_behs := [{| ab_dur := 400; ab_honours := false; ab_val := Some 7; ab_err := AnNil |};
                 {| ab_dur := 400; ab_honours := true; ab_val := Some 8; ab_err := AnNil |};
                 {| ab_dur := 50; ab_honours := false; ab_val := Some 9; ab_err := AnNil |}] |}.
Definition an_pc_history : list an_event :=
  [AnSend an_pc_opts; AnPick 0; AnEnqueue 0; AnStart 0 1; AnAdvance 200; AnParentCancel;
   AnDecide 0 false; AnEnqueue 0; AnDecide 0 false; AnAdvance 200;
   AnReturn 0 1 true; AnPublish 0 1; AnStart 0 2; AnEnqueue 0; AnDecide 0 false; AnGet2 0;
   AnReturn 0 2 true; AnPublish 0 2; AnStart 0 3; AnAdvance 50; AnReturn 0 3 true; AnPublish 0 3].

Lemma ants_cancelled_parent_witness_l :
  exists s, an_run an_pc_cfg an_init an_pc_history = Some s /\ an_fixed an_pc_cfg /\ an_pc s = Some 200 /\
    let t := an_tk s 0%nat in
    at_phase t = AnDone /\
    at_dec t = [(3%nat, (None, AnDeadline), 400); (2%nat, (None, AnDeadline), 200); (1%nat, (None, AnDeadline), 200)] /\
    at_onerr t = [(AnDeadline, 400)] /\ at_rel t = [400] /\ at_get2 t = [((None, AnDeadline), 400)] /\
    at_inv t = [(3%nat, 400); (2%nat, 400); (1%nat, 0)] /\
    map (fun x => fst (fst x)) (at_ret t) =
      [(3%nat, (Some 9, AnNil), true); (2%nat, (None, AnCanceled), true); (1%nat, (Some 7, AnNil), true)] /\
    (* without the cancellation the same prefix ends with attempt 1's (7, nil) *)
    option_map (fun s => at_get2 (an_tk s 0%nat))
      (an_run an_pc_cfg an_init [AnSend an_pc_opts; AnPick 0; AnEnqueue 0; AnStart 0 1; AnAdvance 400;
                                  AnReturn 0 1 false; AnPublish 0 1; AnDecide 0 true; AnGet2 0])
      = Some [((Some 7, AnNil), 400)] /\
    (* once cancelled the callback cannot take the default branch of its ctx1.Done() test *)
    an_run an_pc_cfg an_init [AnSend an_pc_opts; AnPick 0; AnEnqueue 0; AnStart 0 1; AnAdvance 200; AnParentCancel;
                              AnAdvance 200; AnReturn 0 1 false] = None.
Proof.
  destruct (an_run an_pc_cfg an_init an_pc_history) as [s|] eqn:E; [|vm_compute in E; discriminate].
  exists s. split; [reflexivity|].
  assert (E' := E). vm_compute in E'. inversion E'; subst s. clear E E'.
  cbn zeta. repeat split; vm_compute; reflexivity.
Qed.
