(* RaceAntsCases.v -- every labelled step of the FIXED ants step machine is of one of the nine kinds of
   RaceAntsInv.v (case analysis over the pcs; uses the ownership invariant ast_inv). *)
From Got Require Import Base ListAux Race RaceProofs RaceHB RaceHBProofs RaceMonLemmas RaceCacheMon.
From Got Require Import AntsSteps AntsStepsProofs RaceAnts RaceAntsInv.
Local Open Scope nat_scope.

Ltac ra_same_tac :=
  unfold ra_same, ra_same_but, ra_same_len, ra_own; ast_cbn;
  rewrite ?ast_upd_nth, ?ast_snoc_nth, ?ast_upd_length, ?app_length; ast_cbn.

Lemma ra_town_own s t w : ast_town s t = Some w -> exists d, ra_own s t = Some (w, d).
Proof.
  unfold ast_town, ra_own. destruct (nth_error (ast_tasks s) t) as [x|]; [|discriminate].
  cbn. intros [= <-]. exists (att_done x). reflexivity.
Qed.

Ltac ra_len := ra_same_tac; first [reflexivity | lia].
Ltac ra_same_solve := let t' := fresh "t'" in intros t'; ra_same_tac; ast_fin.
Ltac ra_but_solve := let t' := fresh "t'" in let Hne := fresh "Hne" in intros t' Hne; ra_same_tac; ast_fin.
Ltac ra_own_tac s t :=
  unfold ra_own in *; ast_cbn; rewrite ?ast_upd_nth, ?ast_snoc_nth, ?ast_upd_length, ?app_length; ast_cbn;
  rewrite ?Nat.eqb_refl; destruct (nth_error (ast_tasks s) t); cbn in *; congruence.

Lemma ra_step_kind n s tid hint :
  ast_inv s -> (forall i pc, ast_pc_of s i = Some pc -> ast_is_storeo pc = false) ->
  ra_kind s tid (ast_next AstFixed n s (tid, hint)) (ra_events AstFixed n s tid hint).
Proof.
  intros Inv Hns. unfold ast_next, ra_events, ast_step. cbn [fst snd].
  destruct (nth_error (ast_thr s) tid) as [th|] eqn:Eth.
  2:{ apply RkSync; [reflexivity|reflexivity|intros t; reflexivity]. }
  pose proof (Hns tid (ath_pc th)) as Hno. unfold ast_pc_of in Hno. rewrite Eth in Hno. specialize (Hno eq_refl).
  pose proof (ai_tthr _ Inv tid (ath_pc th)) as O1. unfold ast_pc_of in O1. rewrite Eth in O1.
  specialize (fun t => O1 t eq_refl).
  pose proof (ai_tchan _ Inv) as I2.
  destruct th as [pc prog hs]. unfold ast_step_pc. cbn [ath_pc ath_prog ath_handles] in *.
  destruct pc; cbn [ast_pc_task ast_is_storeo] in O1, Hno; try discriminate;
    repeat first [progress (unfold ast_wait_ctx, ra_wait_evs; ast_cbn) | match goal with
    | |- context [match ?x with _ => _ end] => destruct x eqn:?
    end].
  all: try (apply RkSync; [reflexivity|ra_same_tac; reflexivity|intros t'; ra_same_tac; ast_fin]; fail).
  - (* Send: newTaskCallback *)
    apply RkNew; [reflexivity|ra_same_tac; cbn [length]; lia| |].
    + ra_same_tac. rewrite Nat.ltb_irrefl, Nat.eqb_refl. reflexivity.
    + intros t' Hne. ra_same_tac. destruct (Nat.ltb_spec t' (length (ast_tasks s))) as [Hlt|Hge]; [reflexivity|].
      destruct (Nat.eqb_spec t' (length (ast_tasks s))); [contradiction|].
      assert (Hnone : nth_error (ast_tasks s) t' = None) by (apply nth_error_None; lia).
      rewrite Hnone. reflexivity.
  - (* Send on a closed pool *)
    destruct (ra_town_own _ _ _ (O1 t eq_refl)) as [d Hd].
    apply (RkDrop _ _ _ _ t d); [reflexivity|exact Hd|ra_own_tac s t|ra_len|ra_but_solve].
  - (* taskChan <- task *)
    destruct (ra_town_own _ _ _ (O1 t eq_refl)) as [d Hd].
    apply (RkGive _ _ _ _ t d); [reflexivity|exact Hd|ra_own_tac s t|ra_len|ra_but_solve].
  - (* Get2 *)
    match goal with H : nth_error (ast_tasks s) t = Some ?x |- _ => apply (RkGet _ _ _ _ t (att_owner x)) end.
    + reflexivity.
    + unfold ra_own. rewrite Heqo. cbn [option_map]. rewrite Heqb. reflexivity.
    + ra_len.
    + ra_same_solve.
  - (* task := <-taskChan, first attempt *)
    assert (Hc : ast_town s n0 = Some AwChan) by (apply I2; try rewrite Heql; left; reflexivity).
    destruct (ra_town_own _ _ _ Hc) as [d Hd].
    apply (RkTake _ _ _ _ n0 d); [reflexivity|exact Hd| |ra_len|ra_but_solve].
    ra_own_tac s n0.
  - (* task := <-taskChan, retry = 0 *)
    assert (Hc : ast_town s n0 = Some AwChan) by (apply I2; try rewrite Heql; left; reflexivity).
    destruct (ra_town_own _ _ _ Hc) as [d Hd].
    apply (RkTake _ _ _ _ n0 d); [reflexivity|exact Hd| |ra_len|ra_but_solve].
    ra_own_tac s n0.
  - destruct (ra_town_own _ _ _ (O1 t eq_refl)) as [d Hd].
    apply (RkWrite _ _ _ _ t d); [reflexivity|exact Hd|ra_len|ra_same_solve].
  - destruct (ra_town_own _ _ _ (O1 t eq_refl)) as [d Hd].
    apply (RkWrite _ _ _ _ t d); [reflexivity|exact Hd|ra_len|ra_same_solve].
  - destruct (ra_town_own _ _ _ (O1 t eq_refl)) as [d Hd].
    apply (RkRead _ _ _ _ t d); [reflexivity|exact Hd|ra_len|ra_same_solve].
  - destruct (ra_town_own _ _ _ (O1 t eq_refl)) as [d Hd].
    apply (RkRead _ _ _ _ t d); [reflexivity|exact Hd|ra_len|ra_same_solve].
  - destruct (ra_town_own _ _ _ (O1 t eq_refl)) as [d Hd].
    apply (RkRead _ _ _ _ t d); [reflexivity|exact Hd|ra_len|ra_same_solve].
  - destruct (ra_town_own _ _ _ (O1 t eq_refl)) as [d Hd].
    apply (RkRead _ _ _ _ t d); [reflexivity|exact Hd|ra_len|ra_same_solve].
  - destruct (ra_town_own _ _ _ (O1 t eq_refl)) as [d Hd].
    apply (RkDone _ _ _ _ t d); [reflexivity|exact Hd|ra_own_tac s t|ra_len|ra_but_solve].
Qed.
