(* QueueLinProofs.v -- every run of the queue model has a history that is linearizable in the
   textbook (Herlihy-Wing) sense of lib/Linearizability.v w.r.t. the sequential FIFO queue.

   Derived from the linearization-point facts of QueueProofs.v:
     S   := the operations of q_lin (one per linearization point, in trace order), each as the
            pair inv, res                                                       [q_hw_seq]
     H'  := H followed by the response of every Push whose link CAS (its linearization point)
            happened but which has not returned yet; the other pending calls are dropped by
            complete()                                                          [q_hw_ext]
     legality of S            from q_linearizable (a) (q_seq_run ... = Some _)
     complete(H')|t = S|t     from the per-thread acceptor q_tcheck, by induction over the
                              events of thread t
     real-time order          from q_tcheck again: in every prefix of the trace, for every
                              thread, #responses <= #linearization points <= #invocations
                              (each linearization point lies inside its call interval) *)
From Got Require Import Base Queue QueueProofs Linearizability LinearizabilityProofs QueueHistory.
From Coq Require Import Permutation.
Local Open Scope nat_scope.

Notation qhist := (hw_history q_op q_res).

(* ------------------------------------------------------------------ the witnesses *)
Definition q_sop_op (o : q_sop) : q_op :=
  match o with SPush v => QPush v | SPopSome _ | SPopNone => QPop end.
Definition q_sop_res (o : q_sop) : q_res :=
  match o with SPush _ => QRPush | SPopSome v => QRPop (Some v) | SPopNone => QRPop None end.
Definition q_pair (j : nat) (o : q_sop) : qhist := [HInv j (q_sop_op o); HRes j (q_sop_res o)].

(* the linearization S of a trace *)
Definition q_hw_seq (tr : list (nat * q_event)) : qhist :=
  flat_map (fun p => q_pair (fst p) (snd p)) (q_lin tr).

(* the responses appended to H: one per Push that is linked but has not returned *)
Fixpoint q_hw_ext (tr : list (nat * q_event)) : qhist :=
  match tr with
  | [] => []
  | (j, e) :: r =>
      match e, q_next_of j r with
      | QELinPush _, None => HRes j QRPush :: q_hw_ext r
      | _, _ => q_hw_ext r
      end
  end.

(* ------------------------------------------------------------------ per-thread views *)
Definition q_thist (t : nat) (evs : list q_event) : qhist := flat_map (q_hist_ev t) evs.

Fixpoint q_ext_thread (t : nat) (evs : list q_event) : qhist :=
  match evs with
  | [] => []
  | e :: r =>
      match e, hd_error r with
      | QELinPush _, None => HRes t QRPush :: q_ext_thread t r
      | _, _ => q_ext_thread t r
      end
  end.

Lemma q_proj_app j a b : q_proj j (a ++ b) = q_proj j a ++ q_proj j b.
Proof. unfold q_proj. rewrite filter_app, map_app. reflexivity. Qed.

Lemma q_hist_ev_thread t j e : hw_proj t (q_hist_ev j e) = if Nat.eqb j t then q_hist_ev j e else [].
Proof.
  unfold hw_proj. destruct e; cbn [q_hist_ev filter hw_thread]; destruct (Nat.eqb j t); reflexivity.
Qed.

Lemma q_history_proj t tr : hw_proj t (q_history tr) = q_thist t (q_proj t tr).
Proof.
  unfold q_history, q_thist, q_proj. induction tr as [|[j e] r IH]; [reflexivity|].
  cbn [flat_map fst snd filter]. rewrite hw_proj_app, q_hist_ev_thread, IH.
  destruct (Nat.eqb j t) eqn:E; [|reflexivity].
  apply Nat.eqb_eq in E. subst j. reflexivity.
Qed.

Lemma q_hw_ext_proj t tr : hw_proj t (q_hw_ext tr) = q_ext_thread t (q_proj t tr).
Proof.
  induction tr as [|[j e] r IH]; [reflexivity|].
  cbn [q_hw_ext]. unfold q_proj in *. cbn [filter fst].
  destruct (Nat.eqb j t) eqn:E.
  - apply Nat.eqb_eq in E. subst j. cbn [map snd q_ext_thread].
    rewrite q_next_of_proj. unfold q_proj.
    destruct e; try exact IH.
    destruct (hd_error _); [exact IH|].
    unfold hw_proj. cbn [filter hw_thread]. rewrite Nat.eqb_refl. f_equal. exact IH.
  - destruct e; try exact IH.
    destruct (q_next_of j r); [exact IH|].
    unfold hw_proj. cbn [filter hw_thread]. rewrite E. exact IH.
Qed.

Lemma q_pairs_proj t (L : list (nat * q_sop)) :
  hw_proj t (flat_map (fun p => q_pair (fst p) (snd p)) L)
  = flat_map (q_pair t) (map snd (filter (fun p => Nat.eqb (fst p) t) L)).
Proof.
  induction L as [|[j o] L IH]; [reflexivity|].
  cbn [flat_map fst snd filter]. rewrite hw_proj_app, IH.
  unfold q_pair at 1, hw_proj at 1. cbn [filter hw_thread].
  destruct (Nat.eqb j t) eqn:E; [|reflexivity].
  apply Nat.eqb_eq in E. subst j. reflexivity.
Qed.

Lemma q_hw_seq_proj t tr : hw_proj t (q_hw_seq tr) = flat_map (q_pair t) (q_lin_thread (q_proj t tr)).
Proof. unfold q_hw_seq. rewrite q_pairs_proj, q_lin_proj. reflexivity. Qed.

(* ------------------------------------------------------------------ S is sequential and legal *)
Lemma q_pairs_sequential (L : list (nat * q_sop)) :
  hw_sequential (flat_map (fun p => q_pair (fst p) (snd p)) L).
Proof.
  induction L as [|[j o] L IH]; [constructor|].
  cbn [flat_map fst snd q_pair app]. constructor. exact IH.
Qed.

Lemma q_pairs_legal pre0 (L : list (nat * q_sop)) : forall a b,
  q_seq_run a (map snd L) = Some b ->
  hw_legal_from (q_fifo_spec pre0) a (flat_map (fun p => q_pair (fst p) (snd p)) L).
Proof.
  induction L as [|[j o] L IH]; intros a b H; [exact I|].
  cbn [map snd q_seq_run] in H.
  destruct (q_seq_apply a o) as [a'|] eqn:E; [|discriminate].
  specialize (IH a' b H).
  cbn [flat_map fst snd q_pair app hw_legal_from q_fifo_spec hw_step].
  destruct o as [v|v|]; cbn [q_seq_apply q_sop_op q_sop_res q_fifo_step fst snd] in *.
  - inversion E; subst. split; [reflexivity|exact IH].
  - destruct a as [|x a0]; [discriminate|]. destruct (Z.eqb x v) eqn:Ex; [|discriminate].
    apply Z.eqb_eq in Ex. inversion E; subst. cbn [fst snd]. split; [reflexivity|exact IH].
  - destruct a; [|discriminate]. inversion E; subst. cbn [fst snd]. split; [reflexivity|exact IH].
Qed.

(* ------------------------------------------------------------------ L1 per thread *)
(* what the acceptor state says about the rest of the thread's completed history *)
Definition q_c1 (t : nat) (st : q_tst) (evs : list q_event) : Prop :=
  let X := q_thist t evs ++ q_ext_thread t evs in
  let R := flat_map (q_pair t) (q_lin_thread evs) in
  match st with
  | TIdle => hw_complete X = R
  | TPendPush v => hw_complete (HInv t (QPush v) :: X) = R
  | TPendPop => hw_complete (HInv t QPop :: X) = R
  | TLinPush =>
      exists Y, q_thist t evs ++ match evs with [] => [HRes t QRPush] | _ => q_ext_thread t evs end
                = HRes t QRPush :: Y /\ hw_complete Y = R
  | TLinPopNone => evs <> [] -> exists Y, X = HRes t (QRPop None) :: Y /\ hw_complete Y = R
  end.

Lemma q_complete_inv_res t o x (Y : qhist) :
  hw_complete (HInv t o :: HRes t x :: Y) = HInv t o :: HRes t x :: hw_complete Y.
Proof. cbn [hw_complete existsb hw_is_res]. rewrite Nat.eqb_refl. reflexivity. Qed.

Lemma q_ret_empty_next (rest : list q_event) :
  q_is_ret_empty (hd_error rest) = true -> exists r2, rest = QERetEmpty :: r2.
Proof.
  destruct rest as [|e r2]; cbn; [discriminate|]. destruct e; try discriminate. eexists; reflexivity.
Qed.

Lemma q_thread_c1 t evs : forall st todo, q_tcheck st todo evs = true -> q_c1 t st evs.
Proof.
  induction evs as [|e rest IH]; intros st todo H.
  - destruct st; cbn; try reflexivity.
    + exists []. split; reflexivity.
    + intros Hn. contradiction.
  - destruct st as [|v| | |]; destruct e as [o| | |v'| |v'| | |];
      cbn [q_tcheck q_lp_of] in H; try discriminate.
    + (* TIdle, Inv *)
      destruct todo as [|o' t']; [discriminate|]. apply andb_true_iff in H. destruct H as [_ H].
      specialize (IH _ _ H). destruct o; exact IH.
    + (* TIdle, None *)
      destruct todo; [|discriminate]. exact (IH _ _ H).
    + (* TPendPush, Int *) exact (IH _ _ H).
    + (* TPendPush, LinPush *)
      apply andb_true_iff in H. destruct H as [Hv H]. apply Z.eqb_eq in Hv. subst v'.
      destruct (IH _ _ H) as (Y & HY & HR).
      unfold q_c1. cbn [q_thist flat_map q_hist_ev app q_ext_thread q_lin_thread q_lp_of q_pair q_sop_op q_sop_res].
      fold (q_thist t rest).
      assert (HX : q_thist t rest ++ match hd_error rest with
                                     | None => HRes t QRPush :: q_ext_thread t rest
                                     | Some _ => q_ext_thread t rest end = HRes t QRPush :: Y).
      { rewrite <- HY. destruct rest; reflexivity. }
      transitivity (hw_complete (HInv t (QPush v) :: HRes t QRPush :: Y)); [f_equal; f_equal; exact HX|].
      rewrite q_complete_inv_res, HR. reflexivity.
    + (* TLinPush, RetPush *)
      specialize (IH _ _ H). unfold q_c1 in *.
      exists (q_thist t rest ++ q_ext_thread t rest). split; [reflexivity|exact IH].
    + (* TPendPop, Int *) exact (IH _ _ H).
    + (* TPendPop, Cand *)
      destruct (q_is_ret_empty (hd_error rest)) eqn:Er.
      * destruct (q_ret_empty_next _ Er) as [r2 ->].
        destruct (IH _ _ H) as (Y & HY & HR); [discriminate|].
        unfold q_c1. cbn [q_lin_thread q_lp_of hd_error q_is_ret_empty flat_map q_pair q_sop_op q_sop_res app].
        change (q_thist t (QECand :: QERetEmpty :: r2)) with (q_thist t (QERetEmpty :: r2)).
        change (q_ext_thread t (QECand :: QERetEmpty :: r2)) with (q_ext_thread t (QERetEmpty :: r2)).
        rewrite HY, q_complete_inv_res. f_equal. f_equal.
        cbn [q_lin_thread q_lp_of] in HR. exact HR.
      * specialize (IH _ _ H). unfold q_c1 in *.
        cbn [q_lin_thread q_lp_of]. rewrite Er. destruct rest; exact IH.
    + (* TPendPop, LinRetPop *)
      specialize (IH _ _ H). unfold q_c1 in *.
      cbn [q_thist flat_map q_hist_ev app q_lin_thread q_lp_of q_pair q_sop_op q_sop_res].
      fold (q_thist t rest).
      replace (q_ext_thread t (QELinRetPop v' :: rest)) with (q_ext_thread t rest) by (destruct rest; reflexivity).
      rewrite q_complete_inv_res, IH. reflexivity.
    + (* TLinPopNone, RetEmpty *)
      specialize (IH _ _ H). unfold q_c1 in *. intros _.
      exists (q_thist t rest ++ q_ext_thread t rest). split; [|exact IH].
      replace (q_ext_thread t (QERetEmpty :: rest)) with (q_ext_thread t rest) by (destruct rest; reflexivity).
      reflexivity.
Qed.

(* ------------------------------------------------------------------ H' is well-formed *)
Definition q_c2 (t : nat) (st : q_tst) (evs : list q_event) : Prop :=
  let X := q_thist t evs ++ q_ext_thread t evs in
  match st with
  | TIdle => hw_alt false X = true
  | TLinPush =>
      hw_alt true (q_thist t evs ++ match evs with [] => [HRes t QRPush] | _ => q_ext_thread t evs end) = true
  | _ => hw_alt true X = true
  end.

Lemma q_thread_c2 t evs : forall st todo, q_tcheck st todo evs = true -> q_c2 t st evs.
Proof.
  induction evs as [|e rest IH]; intros st todo H.
  - destruct st; reflexivity.
  - destruct st as [|v| | |]; destruct e as [o| | |v'| |v'| | |];
      cbn [q_tcheck q_lp_of] in H; try discriminate.
    + destruct todo as [|o' t']; [discriminate|]. apply andb_true_iff in H. destruct H as [_ H].
      specialize (IH _ _ H). destruct o; exact IH.
    + destruct todo; [|discriminate]. exact (IH _ _ H).
    + exact (IH _ _ H).
    + apply andb_true_iff in H. destruct H as [_ H]. specialize (IH _ _ H).
      unfold q_c2 in *. destruct rest; exact IH.
    + specialize (IH _ _ H). unfold q_c2 in *. exact IH.
    + exact (IH _ _ H).
    + destruct (q_is_ret_empty (hd_error rest)); exact (IH _ _ H).
    + specialize (IH _ _ H). unfold q_c2 in *. exact IH.
    + specialize (IH _ _ H). unfold q_c2 in *. exact IH.
Qed.

(* ------------------------------------------------------------------ real-time order *)
(* the linearization of a prefix tr1 of a trace tr1 ++ tr2 (the look-ahead of the last
   empty-candidate step of a thread may reach into tr2) *)
Fixpoint q_lin2 (tr1 tr2 : list (nat * q_event)) : list (nat * q_sop) :=
  match tr1 with
  | [] => []
  | (j, e) :: r =>
      match q_lp_of e (q_next_of j (r ++ tr2)) with
      | Some o => (j, o) :: q_lin2 r tr2
      | None => q_lin2 r tr2
      end
  end.

Lemma q_lin_app tr1 tr2 : q_lin (tr1 ++ tr2) = q_lin2 tr1 tr2 ++ q_lin tr2.
Proof.
  induction tr1 as [|[j e] r IH]; [reflexivity|].
  cbn [app q_lin q_lin2]. destruct (q_lp_of e _); cbn [app]; rewrite IH; reflexivity.
Qed.

Fixpoint q_lin_thread2 (evs1 evs2 : list q_event) : list q_sop :=
  match evs1 with
  | [] => []
  | e :: r =>
      match q_lp_of e (hd_error (r ++ evs2)) with
      | Some o => o :: q_lin_thread2 r evs2
      | None => q_lin_thread2 r evs2
      end
  end.

Lemma q_lin2_proj j tr1 tr2 :
  map snd (filter (fun p => Nat.eqb (fst p) j) (q_lin2 tr1 tr2))
  = q_lin_thread2 (q_proj j tr1) (q_proj j tr2).
Proof.
  induction tr1 as [|[i e] r IH]; [reflexivity|].
  cbn [q_lin2]. unfold q_proj at 1. cbn [filter fst]. fold (q_proj j r).
  destruct (Nat.eqb i j) eqn:Eij.
  - apply Nat.eqb_eq in Eij. subst i. cbn [map snd q_lin_thread2].
    rewrite q_next_of_proj, q_proj_app.
    destruct (q_lp_of e _); cbn [filter fst map snd]; rewrite ?Nat.eqb_refl; cbn [map snd]; rewrite IH; reflexivity.
  - destruct (q_lp_of e (q_next_of i (r ++ tr2))); cbn [filter fst]; rewrite ?Eij; exact IH.
Qed.

(* in every prefix evs1 of the events of a thread:
   #responses <= #linearization points <= #invocations, up to the call in flight *)
Definition q_c3 (t : nat) (st : q_tst) (evs1 evs2 : list q_event) : Prop :=
  let nr := hw_count (hw_is_res t) (q_thist t evs1) in
  let ni := hw_count (hw_is_inv t) (q_thist t evs1) in
  let nl := length (q_lin_thread2 evs1 evs2) in
  match st with
  | TIdle => nr <= nl /\ nl <= ni
  | TPendPush _ | TPendPop => nr <= nl /\ nl <= ni + 1
  | TLinPush | TLinPopNone => nr <= nl + 1 /\ nl <= ni
  end.

Lemma q_thread_c3 t evs2 evs1 : forall st todo,
  q_tcheck st todo (evs1 ++ evs2) = true -> q_c3 t st evs1 evs2.
Proof.
  induction evs1 as [|e rest IH]; intros st todo H.
  - destruct st; cbn; lia.
  - cbn [app] in H.
    destruct st as [|v| | |]; destruct e as [o| | |v'| |v'| | |];
      cbn [q_tcheck q_lp_of] in H; try discriminate;
      unfold q_c3, hw_count in *;
      cbn [q_thist flat_map q_hist_ev app filter hw_is_res hw_is_inv q_lin_thread2 q_lp_of];
      rewrite ?Nat.eqb_refl; cbn [length]; fold (q_thist t rest).
    + destruct todo as [|o' t']; [discriminate|]. apply andb_true_iff in H. destruct H as [_ H].
      specialize (IH _ _ H). destruct o; cbn beta iota in IH; lia.
    + destruct todo; [|discriminate]. specialize (IH _ _ H). cbn beta iota in IH. lia.
    + specialize (IH _ _ H). cbn beta iota in IH. lia.
    + apply andb_true_iff in H. destruct H as [_ H]. specialize (IH _ _ H). cbn beta iota in IH.
      cbn [length]. lia.
    + specialize (IH _ _ H). cbn beta iota in IH. lia.
    + specialize (IH _ _ H). cbn beta iota in IH. lia.
    + destruct (q_is_ret_empty (hd_error (rest ++ evs2))); specialize (IH _ _ H); cbn beta iota in IH;
        cbn [length]; lia.
    + specialize (IH _ _ H). cbn beta iota in IH. cbn [length]. lia.
    + specialize (IH _ _ H). cbn beta iota in IH. lia.
Qed.

Lemma q_hist_ev_short (p : nat * q_event) : length (q_hist_ev (fst p) (snd p)) <= 1.
Proof. destruct p as [j e]. destruct e; cbn; lia. Qed.

Lemma hw_count_res_proj t (H : qhist) : hw_count (hw_is_res t) H = hw_count (hw_is_res t) (hw_proj t H).
Proof.
  unfold hw_count, hw_proj. induction H as [|e H IH]; [reflexivity|].
  cbn [filter]. destruct e as [t' o|t' x]; cbn [hw_is_res hw_thread].
  - destruct (Nat.eqb t' t); cbn [filter hw_is_res]; exact IH.
  - destruct (Nat.eqb t' t) eqn:E; cbn [filter hw_is_res length]; rewrite ?E; cbn [length]; rewrite IH; reflexivity.
Qed.

Lemma hw_count_inv_proj t (H : qhist) : hw_count (hw_is_inv t) H = hw_count (hw_is_inv t) (hw_proj t H).
Proof.
  unfold hw_count, hw_proj. induction H as [|e H IH]; [reflexivity|].
  cbn [filter]. destruct e as [t' o|t' x]; cbn [hw_is_inv hw_thread].
  - destruct (Nat.eqb t' t) eqn:E; cbn [filter hw_is_inv length]; rewrite ?E; cbn [length]; rewrite IH; reflexivity.
  - destruct (Nat.eqb t' t); cbn [filter hw_is_inv]; exact IH.
Qed.

Lemma q_pairs_count_res t (L : list (nat * q_sop)) :
  hw_count (hw_is_res t) (flat_map (fun p => q_pair (fst p) (snd p)) L)
  = length (filter (fun p => Nat.eqb (fst p) t) L).
Proof.
  unfold hw_count. induction L as [|[j o] L IH]; [reflexivity|].
  cbn [flat_map fst snd q_pair app filter hw_is_res hw_is_inv].
  destruct (Nat.eqb j t); cbn [length]; rewrite IH; reflexivity.
Qed.

Lemma q_pairs_count_inv t (L : list (nat * q_sop)) :
  hw_count (hw_is_inv t) (flat_map (fun p => q_pair (fst p) (snd p)) L)
  = length (filter (fun p => Nat.eqb (fst p) t) L).
Proof.
  unfold hw_count. induction L as [|[j o] L IH]; [reflexivity|].
  cbn [flat_map fst snd q_pair app filter hw_is_res hw_is_inv].
  destruct (Nat.eqb j t); cbn [length]; rewrite IH; reflexivity.
Qed.

(* a trace all of whose threads are accepted by q_tcheck *)
Definition q_accepted (tr : list (nat * q_event)) : Prop :=
  forall j, exists todo, q_tcheck TIdle todo (q_proj j tr) = true.

Lemma q_hw_realtime tr : q_accepted tr -> hw_realtime (q_history tr) (q_hw_seq tr).
Proof.
  intros Hacc [t1 k1] [t2 k2] Hp Hinv.
  destruct (hw_precedes_trace_split _ q_hist_ev_short tr _ _ Hp) as (tr1 & tr2 & -> & Hr & Hi).
  cbn [fst snd] in Hr, Hi. fold (q_history tr1) in Hr, Hi.
  unfold q_hw_seq in *. rewrite q_lin_app, flat_map_app in *.
  apply hw_precedes_of_split; [| |exact Hinv]; cbn [fst snd].
  - rewrite q_pairs_count_res, <- (map_length snd), q_lin2_proj.
    destruct (Hacc t1) as [todo Ht]. rewrite q_proj_app in Ht.
    pose proof (q_thread_c3 t1 _ _ _ _ Ht) as [H1 _].
    rewrite hw_count_res_proj, q_history_proj in Hr. lia.
  - rewrite q_pairs_count_inv, <- (map_length snd), q_lin2_proj.
    destruct (Hacc t2) as [todo Ht]. rewrite q_proj_app in Ht.
    pose proof (q_thread_c3 t2 _ _ _ _ Ht) as [_ H2].
    rewrite hw_count_inv_proj, q_history_proj in Hi. lia.
Qed.

(* ------------------------------------------------------------------ the theorem *)
Lemma q_hw_ext_all_res tr : hw_all_res (q_hw_ext tr).
Proof.
  induction tr as [|[j e] r IH]; [constructor|].
  cbn [q_hw_ext]. destruct e; try exact IH. destruct (q_next_of j r); [exact IH|].
  constructor; [exact I|exact IH].
Qed.

Lemma q_hw_ext_wf tr : q_accepted tr -> hw_wf (q_history tr ++ q_hw_ext tr).
Proof.
  intros Hacc t. destruct (Hacc t) as [todo Ht].
  rewrite hw_proj_app, q_history_proj, q_hw_ext_proj.
  exact (q_thread_c2 t _ _ _ Ht).
Qed.

Lemma q_hw_equiv tr : q_accepted tr -> hw_equiv (hw_complete (q_history tr ++ q_hw_ext tr)) (q_hw_seq tr).
Proof.
  intros Hacc t. destruct (Hacc t) as [todo Ht].
  rewrite hw_proj_complete, hw_proj_app, q_history_proj, q_hw_ext_proj, q_hw_seq_proj.
  exact (q_thread_c1 t _ _ _ Ht).
Qed.

(* the four clauses for the constructed witnesses *)
Definition q_hw_witness (pre : list Z) (tr : list (nat * q_event)) : Prop :=
  let H := q_history tr in
  let H' := H ++ q_hw_ext tr in
  let S := q_hw_seq tr in
  hw_wf H /\
  hw_extension H H' /\
  hw_legal (q_fifo_spec pre) S /\
  hw_equiv (hw_complete H') S /\
  Permutation (hw_complete H') S /\
  hw_realtime H S.

Lemma q_hw_witness_of pre tr b :
  q_accepted tr -> q_seq_run pre (map snd (q_lin tr)) = Some b -> q_hw_witness pre tr.
Proof.
  intros Hacc Hrun. unfold q_hw_witness. cbn zeta.
  pose proof (q_hw_ext_wf tr Hacc) as Hwf.
  split; [eapply hw_wf_app_l; exact Hwf|].
  split; [exists (q_hw_ext tr); split; [reflexivity|]; split; [apply q_hw_ext_all_res|exact Hwf]|].
  split; [split; [apply q_pairs_sequential|cbn [hw_init q_fifo_spec]; eapply q_pairs_legal; exact Hrun]|].
  split; [apply q_hw_equiv; exact Hacc|].
  split; [apply hw_equiv_perm; apply q_hw_equiv; exact Hacc|].
  apply q_hw_realtime. exact Hacc.
Qed.

Lemma q_run_accepted pre progs sched : q_accepted (q_trace (q_init pre progs) sched).
Proof.
  intros j. exists (nth j progs []).
  pose proof (q_linearizable pre progs sched) as [_ H]. cbn zeta in H. apply (H j).
Qed.

Theorem q_hw_witnessed pre progs sched : q_hw_witness pre (q_trace (q_init pre progs) sched).
Proof.
  pose proof (q_linearizable pre progs sched) as [Hrun _]. cbn zeta in Hrun.
  eapply q_hw_witness_of; [apply q_run_accepted|exact Hrun].
Qed.

Theorem q_hw_linearizable pre progs sched :
  hw_linearizable (q_history (q_trace (q_init pre progs) sched)) (q_fifo_spec pre).
Proof.
  destruct (q_hw_witnessed pre progs sched) as (Hwf & Hext & Hleg & Heq & _ & Hrt).
  split; [exact Hwf|]. exists (q_history (q_trace (q_init pre progs) sched) ++ q_hw_ext (q_trace (q_init pre progs) sched)).
  exists (q_hw_seq (q_trace (q_init pre progs) sched)). split; [exact Hext|]. split; [exact Hleg|]. split; [exact Heq|exact Hrt].
Qed.

(* ------------------------------------------------------------------ consequences *)
(* in ANY legal sequential FIFO history (in particular in the linearization of a run) the
   popped values, in order, are a prefix of: initial content ++ pushed values, in order: no
   value is lost, duplicated or invented, and values leave in the order they entered *)
Lemma q_fifo_legal_conservation pre0 (S : qhist) :
  hw_sequential S -> forall a, hw_legal_from (q_fifo_spec pre0) a S ->
  exists b, a ++ q_seq_pushes S = q_seq_pops S ++ b.
Proof.
  induction 1 as [|t o r S HS IH]; intros a HL.
  - exists a. cbn. rewrite app_nil_r. reflexivity.
  - cbn [hw_legal_from q_fifo_spec hw_step] in HL. destruct HL as [Hr HL].
    destruct (IH _ HL) as [b Hb]. exists b.
    unfold q_seq_pushes, q_seq_pops in *. cbn [flat_map].
    destruct o as [v|]; cbn [q_fifo_step fst snd] in *.
    + subst r. cbn [app]. rewrite <- app_assoc in Hb. exact Hb.
    + destruct a as [|x a0]; cbn [fst snd] in *; subst r; cbn [app]; [exact Hb|].
      f_equal. exact Hb.
Qed.

Theorem q_fifo_legal_consequences pre (S : qhist) :
  hw_legal (q_fifo_spec pre) S -> exists rest, pre ++ q_seq_pushes S = q_seq_pops S ++ rest.
Proof. intros [Hs Hl]. eapply q_fifo_legal_conservation; [exact Hs|exact Hl]. Qed.

(* a nil Pop of a legal sequential FIFO history happens in the empty state (by definition of
   q_fifo_step); stated for the record on the step function *)
Lemma q_fifo_nil_iff_empty (s : list Z) : snd (q_fifo_step s QPop) = QRPop None <-> s = [].
Proof. destruct s; cbn; split; intros H; try reflexivity; discriminate. Qed.

(* ------------------------------------------------------------------ the definition refuses *)
(* Push 1 by thread 0 has returned; then thread 1 calls Pop and gets nil.  Not linearizable:
   legality alone would accept S = Pop -> nil; Push 1, it is the real-time clause that forbids
   it. *)
Definition q_bad_history : qhist :=
  [HInv 0 (QPush 1%Z); HRes 0 QRPush; HInv 1 QPop; HRes 1 (QRPop None)].

Lemma q_hw_rejects_stale_nil : ~ hw_linearizable q_bad_history (q_fifo_spec []).
Proof.
  intros (Hwf & H' & S & (ext & -> & Hres & Hwf') & (Hseq & Hleg) & Heq & Hrt).
  assert (Hext : ext = []).
  { destruct ext as [|e ext]; [reflexivity|]. exfalso.
    inversion Hres as [|? ? He _]; subst. destruct e as [t o|t r]; [contradiction|].
    specialize (Hwf' t). rewrite hw_proj_app in Hwf'. unfold hw_proj in Hwf'.
    cbn [filter hw_thread q_bad_history] in Hwf'. rewrite Nat.eqb_refl in Hwf'.
    destruct t as [|[|t]]; cbn in Hwf'; discriminate. }
  subst ext. rewrite app_nil_r in *.
  change (hw_complete q_bad_history) with q_bad_history in Heq.
  assert (Hinv : hw_invoked S (1, 0)).
  { unfold hw_invoked, hw_inv_pos. cbn [fst snd]. apply hw_find_some.
    rewrite hw_count_inv_proj, <- (Heq 1). vm_compute. lia. }
  assert (Hp : hw_precedes q_bad_history (0, 0) (1, 0)) by (exists 1, 2; vm_compute; repeat split; lia).
  destruct (Hrt _ _ Hp Hinv) as (i & j & Hi & Hj & Hij).
  inversion Hseq as [|t o r S1 Hseq1]; subst.
  - specialize (Heq 0). discriminate Heq.
  - destruct t as [|[|t]].
    + pose proof (Heq 0) as H0. unfold hw_proj in H0. cbn [filter hw_thread q_bad_history Nat.eqb] in H0.
      inversion H0 as [[Ho Hr H0']]. subst o r.
      cbn [hw_legal_from hw_init q_fifo_spec hw_step q_fifo_step fst snd app] in Hleg.
      destruct Hleg as [_ Hleg].
      inversion Hseq1 as [|t' o' r' S2 Hseq2]; subst.
      * specialize (Heq 1). discriminate Heq.
      * destruct t' as [|[|t']].
        -- cbn [filter hw_thread Nat.eqb] in H0'. discriminate H0'.
        -- pose proof (Heq 1) as H1. unfold hw_proj in H1. cbn [filter hw_thread q_bad_history Nat.eqb] in H1.
           inversion H1 as [[Ho Hr H1']]. subst o' r'.
           cbn [hw_legal_from hw_step q_fifo_spec q_fifo_step fst snd] in Hleg.
           destruct Hleg as [Hr _]. discriminate Hr.
        -- specialize (Heq (S (S t'))). unfold hw_proj in Heq.
           cbn [filter hw_thread q_bad_history] in Heq. rewrite Nat.eqb_refl in Heq.
           cbn [Nat.eqb] in Heq. discriminate Heq.
    + unfold hw_inv_pos in Hj. cbn in Hj. inversion Hj; subst. lia.
    + specialize (Heq (S (S t))). unfold hw_proj in Heq.
      cbn [filter hw_thread q_bad_history] in Heq. rewrite Nat.eqb_refl in Heq.
      cbn [Nat.eqb] in Heq. discriminate Heq.
Qed.
