(* QueueLinProofs.v -- every run of the queue model has a history that is linearizable in the
   textbook (Herlihy-Wing) sense of lib/Linearizability.v w.r.t. the sequential FIFO queue.

   Derived from the linearization-point facts of QueueProofs.v:
     S   := the operations of q_lin (one per linearization point, in trace order), each as the
            pair inv, res                                                       [q_hw_seq]
     H'  := H followed by the response of every Push whose link CAS (its linearization point)
            happened but which has not returned yet; the other pending calls are dropped by
            complete()                                                          [q_hw_ext]
     legality of S            from q_linearizable (a) (q_seq_run ... = Some _)
     complete(H')|t = S|t     from the per-thread acceptor q_tcheck, by induction over the
                              events of thread t
     real-time order          from q_tcheck again: in every prefix of the trace, for every
                              thread, #responses <= #linearization points <= #invocations
                              (each linearization point lies inside its call interval) *)
From Got Require Import Base Queue QueueProofs Linearizability LinearizabilityProofs QueueHistory.
From Coq Require Import Permutation.
Local Open Scope nat_scope.

Notation qhist := (hw_history q_op q_res).

(* ------------------------------------------------------------------ the witnesses *)
Definition q_sop_op (o : q_sop) : q_op :=
  match o with SPush v => QPush v | SPopSome _ | SPopNone => QPop end.
Definition q_sop_res (o : q_sop) : q_res :=
  match o with SPush _ => QRPush | SPopSome v => QRPop (Some v) | SPopNone => QRPop None end.
Definition q_pair (j : nat) (o : q_sop) : qhist := [HInv j (q_sop_op o); HRes j (q_sop_res o)].

(* the linearization S of a trace *)
Definition q_hw_seq (tr : list (nat * q_event)) : qhist :=
  flat_map (fun p => q_pair (fst p) (snd p)) (q_lin tr).

(* the responses appended to H: one per Push that is linked but has not returned *)
Fixpoint q_hw_ext (tr : list (nat * q_event)) : qhist :=
  match tr with
  | [] => []
  | (j, e) :: r =>
      match e, q_next_of j r with
      | QELinPush _, None => HRes j QRPush :: q_hw_ext r
      | _, _ => q_hw_ext r
      end
  end.

(* ------------------------------------------------------------------ per-thread views *)
Definition q_thist (t : nat) (evs : list q_event) : qhist := flat_map (q_hist_ev t) evs.

Fixpoint q_ext_thread (t : nat) (evs : list q_event) : qhist :=
  match evs with
  | [] => []
  | e :: r =>
      match e, hd_error r with
      | QELinPush _, None => HRes t QRPush :: q_ext_thread t r
      | _, _ => q_ext_thread t r
      end
  end.

Lemma q_proj_app j a b : q_proj j (a ++ b) = q_proj j a ++ q_proj j b.
Proof. unfold q_proj. rewrite filter_app, map_app. reflexivity. Qed.

Lemma q_hist_ev_thread t j e : hw_proj t (q_hist_ev j e) = if Nat.eqb j t then q_hist_ev j e else [].
Proof.
  unfold hw_proj. destruct e; cbn [q_hist_ev filter hw_thread]; destruct (Nat.eqb j t); reflexivity.
Qed.

Lemma q_history_proj t tr : hw_proj t (q_history tr) = q_thist t (q_proj t tr).
Proof.
  unfold q_history, q_thist, q_proj. induction tr as [|[j e] r IH]; [reflexivity|].
  cbn [flat_map fst snd filter]. rewrite hw_proj_app, q_hist_ev_thread, IH.
  destruct (Nat.eqb j t) eqn:E; [|reflexivity].
  apply Nat.eqb_eq in E. subst j. reflexivity.
Qed.

Lemma q_hw_ext_proj t tr : hw_proj t (q_hw_ext tr) = q_ext_thread t (q_proj t tr).
Proof.
  induction tr as [|[j e] r IH]; [reflexivity|].
  cbn [q_hw_ext]. unfold q_proj in *. cbn [filter fst].
  destruct (Nat.eqb j t) eqn:E.
  - apply Nat.eqb_eq in E. subst j. cbn [map snd q_ext_thread].
    rewrite q_next_of_proj. unfold q_proj.
    destruct e; try exact IH.
    destruct (hd_error _); [exact IH|].
    unfold hw_proj. cbn [filter hw_thread]. rewrite Nat.eqb_refl. f_equal. exact IH.
  - destruct e; try exact IH.
    destruct (q_next_of j r); [exact IH|].
    unfold hw_proj. cbn [filter hw_thread]. rewrite E. exact IH.
Qed.

Lemma q_pairs_proj t (L : list (nat * q_sop)) :
  hw_proj t (flat_map (fun p => q_pair (fst p) (snd p)) L)
  = flat_map (q_pair t) (map snd (filter (fun p => Nat.eqb (fst p) t) L)).
Proof.
  induction L as [|[j o] L IH]; [reflexivity|].
  cbn [flat_map fst snd filter]. rewrite hw_proj_app, IH.
  unfold q_pair at 1, hw_proj at 1. cbn [filter hw_thread].
  destruct (Nat.eqb j t) eqn:E; [|reflexivity].
  apply Nat.eqb_eq in E. subst j. reflexivity.
Qed.

Lemma q_hw_seq_proj t tr : hw_proj t (q_hw_seq tr) = flat_map (q_pair t) (q_lin_thread (q_proj t tr)).
Proof. unfold q_hw_seq. rewrite q_pairs_proj, q_lin_proj. reflexivity. Qed.

(* ------------------------------------------------------------------ S is sequential and legal *)
Lemma q_pairs_sequential (L : list (nat * q_sop)) :
  hw_sequential (flat_map (fun p => q_pair (fst p) (snd p)) L).
Proof.
  induction L as [|[j o] L IH]; [constructor|].
  cbn [flat_map fst snd q_pair app]. constructor. exact IH.
Qed.

Lemma q_pairs_legal pre0 (L : list (nat * q_sop)) : forall a b,
  q_seq_run a (map snd L) = Some b ->
  hw_legal_from (q_fifo_spec pre0) a (flat_map (fun p => q_pair (fst p) (snd p)) L).
Proof.
  induction L as [|[j o] L IH]; intros a b H; [exact I|].
  cbn [map snd q_seq_run] in H.
  destruct (q_seq_apply a o) as [a'|] eqn:E; [|discriminate].
  specialize (IH a' b H).
  cbn [flat_map fst snd q_pair app hw_legal_from q_fifo_spec hw_step].
  destruct o as [v|v|]; cbn [q_seq_apply q_sop_op q_sop_res q_fifo_step fst snd] in *.
  - inversion E; subst. split; [reflexivity|exact IH].
  - destruct a as [|x a0]; [discriminate|]. destruct (Z.eqb x v) eqn:Ex; [|discriminate].
    apply Z.eqb_eq in Ex. inversion E; subst. cbn [fst snd]. split; [reflexivity|exact IH].
  - destruct a; [|discriminate]. inversion E; subst. cbn [fst snd]. split; [reflexivity|exact IH].
Qed.

(* ------------------------------------------------------------------ L1 per thread *)
(* what the acceptor state says about the rest of the thread's completed history *)
Definition q_c1 (t : nat) (st : q_tst) (evs : list q_event) : Prop :=
  let X := q_thist t evs ++ q_ext_thread t evs in
  let R := flat_map (q_pair t) (q_lin_thread evs) in
  match st with
  | TIdle => hw_complete X = R
  | TPendPush v => hw_complete (HInv t (QPush v) :: X) = R
  | TPendPop => hw_complete (HInv t QPop :: X) = R
  | TLinPush =>
      exists Y, q_thist t evs ++ match evs with [] => [HRes t QRPush] | _ => q_ext_thread t evs end
                = HRes t QRPush :: Y /\ hw_complete Y = R
  | TLinPopNone => evs <> [] -> exists Y, X = HRes t (QRPop None) :: Y /\ hw_complete Y = R
  end.

Lemma q_complete_inv_res t o x (Y : qhist) :
  hw_complete (HInv t o :: HRes t x :: Y) = HInv t o :: HRes t x :: hw_complete Y.
Proof. cbn [hw_complete existsb hw_is_res]. rewrite Nat.eqb_refl. reflexivity. Qed.

Lemma q_ret_empty_next (rest : list q_event) :
  q_is_ret_empty (hd_error rest) = true -> exists r2, rest = QERetEmpty :: r2.
Proof.
  destruct rest as [|e r2]; cbn; [discriminate|]. destruct e; try discriminate. eexists; reflexivity.
Qed.

Lemma q_thread_c1 t evs : forall st todo, q_tcheck st todo evs = true -> q_c1 t st evs.
Proof.
  induction evs as [|e rest IH]; intros st todo H.
  - destruct st; cbn; try reflexivity.
    + exists []. split; reflexivity.
    + intros Hn. contradiction.
  - destruct st as [|v| | |]; destruct e as [o| | |v'| |v'| | |];
      cbn [q_tcheck q_lp_of] in H; try discriminate.
    + (* TIdle, Inv *)
      destruct todo as [|o' t']; [discriminate|]. apply andb_true_iff in H. destruct H as [_ H].
      specialize (IH _ _ H). destruct o; exact IH.
    + (* TIdle, None *)
      destruct todo; [|discriminate]. exact (IH _ _ H).
    + (* TPendPush, Int *) exact (IH _ _ H).
    + (* TPendPush, LinPush *)
      apply andb_true_iff in H. destruct H as [Hv H]. apply Z.eqb_eq in Hv. subst v'.
      destruct (IH _ _ H) as (Y & HY & HR).
      unfold q_c1. cbn [q_thist flat_map q_hist_ev app q_ext_thread q_lin_thread q_lp_of q_pair q_sop_op q_sop_res].
      fold (q_thist t rest).
      assert (HX : q_thist t rest ++ match hd_error rest with
                                     | None => HRes t QRPush :: q_ext_thread t rest
                                     | Some _ => q_ext_thread t rest end = HRes t QRPush :: Y).
      { rewrite <- HY. destruct rest; reflexivity. }
      transitivity (hw_complete (HInv t (QPush v) :: HRes t QRPush :: Y)); [f_equal; f_equal; exact HX|].
      rewrite q_complete_inv_res, HR. reflexivity.
    + (* TLinPush, RetPush *)
      specialize (IH _ _ H). unfold q_c1 in *.
      exists (q_thist t rest ++ q_ext_thread t rest). split; [reflexivity|exact IH].
    + (* TPendPop, Int *) exact (IH _ _ H).
    + (* TPendPop, Cand *)
      destruct (q_is_ret_empty (hd_error rest)) eqn:Er.
      * destruct (q_ret_empty_next _ Er) as [r2 ->].
        destruct (IH _ _ H) as (Y & HY & HR); [discriminate|].
        unfold q_c1. cbn [q_lin_thread q_lp_of hd_error q_is_ret_empty flat_map q_pair q_sop_op q_sop_res app].
        change (q_thist t (QECand :: QERetEmpty :: r2)) with (q_thist t (QERetEmpty :: r2)).
        change (q_ext_thread t (QECand :: QERetEmpty :: r2)) with (q_ext_thread t (QERetEmpty :: r2)).
        rewrite HY, q_complete_inv_res. f_equal. f_equal.
        cbn [q_lin_thread q_lp_of] in HR. exact HR.
      * specialize (IH _ _ H). unfold q_c1 in *.
        cbn [q_lin_thread q_lp_of]. rewrite Er. destruct rest; exact IH.
    + (* TPendPop, LinRetPop *)
      specialize (IH _ _ H). unfold q_c1 in *.
      cbn [q_thist flat_map q_hist_ev app q_lin_thread q_lp_of q_pair q_sop_op q_sop_res].
      fold (q_thist t rest).
      replace (q_ext_thread t (QELinRetPop v' :: rest)) with (q_ext_thread t rest) by (destruct rest; reflexivity).
      rewrite q_complete_inv_res, IH. reflexivity.
    + (* TLinPopNone, RetEmpty *)
      specialize (IH _ _ H). unfold q_c1 in *. intros _.
      exists (q_thist t rest ++ q_ext_thread t rest). split; [|exact IH].
      replace (q_ext_thread t (QERetEmpty :: rest)) with (q_ext_thread t rest) by (destruct rest; reflexivity).
      reflexivity.
Qed.
