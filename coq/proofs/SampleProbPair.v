(* SampleProbPair.v -- sampleNum = 2 in the ideal real-valued model (models/SampleProb.v):
   P(i has the largest key and j the second largest) = w_i/W * w_j/(W - w_i). *)
Require Import Reals Lra.
From Coquelicot Require Import Coquelicot.
Require Import List Permutation Lia Arith.
Import ListNotations.
From Got Require Import SampleProb SampleProbProofs.
Local Open Scope R_scope.

(* conditional on u_i = u: integral over v = u_j of  [j loses against i] * v^b *)
Lemma sp_is_RInt_lose_ind_pow :
  forall u wi wj b, 0 < u < 1 -> 0 < wi -> 0 < wj -> 0 <= b ->
    is_RInt (fun v => sp_lt_ind (sp_key v wj) (sp_key u wi) * Rpower v b) 0 1
            (Rpower (Rpower u (wj / wi)) (b + 1) / (b + 1)).
Proof.
  intros u wi wj b Hu Hwi Hwj Hb.
  pose proof (sp_lose_interval_bounds u wi wj Hu Hwi Hwj) as Hc.
  set (c := Rpower u (wj / wi)) in *.
  replace (Rpower c (b + 1) / (b + 1)) with (plus (Rpower c (b + 1) / (b + 1)) 0)
    by (unfold plus; simpl; ring).
  apply (is_RInt_Chasles (fun v => sp_lt_ind (sp_key v wj) (sp_key u wi) * Rpower v b) 0 c 1
                         (Rpower c (b + 1) / (b + 1)) 0).
  - apply is_RInt_ext with (f := fun v => Rpower v b).
    + intros v Hv. rewrite Rmin_left, Rmax_right in Hv by lra.
      unfold sp_lt_ind. destruct (Rlt_dec (sp_key v wj) (sp_key u wi)) as [H|H]; [now rewrite Rmult_1_l|].
      exfalso. apply H. apply sp_lose_interval; try assumption; try lra. apply Hv.
    + apply sp_is_RInt_Rpower; lra.
  - apply is_RInt_ext with (f := fun _ => 0).
    + intros v Hv. rewrite Rmin_left, Rmax_right in Hv by lra.
      unfold sp_lt_ind. destruct (Rlt_dec (sp_key v wj) (sp_key u wi)) as [H|H]; [|now rewrite Rmult_0_l].
      exfalso. apply sp_lose_interval in H; try assumption; try lra. fold c in H. lra.
    + replace 0 with (scal (1 - c) 0) at 1 by (unfold scal; simpl; unfold mult; simpl; ring).
      apply @is_RInt_const.
Qed.

(* the outer integral over u = u_i *)
Lemma sp_is_RInt_pair_outer :
  forall wi wj S2, 0 < wi -> 0 < wj -> 0 <= S2 ->
    is_RInt (fun u => Rpower (Rpower u (wj / wi)) (S2 / wj + 1) / (S2 / wj + 1)) 0 1
            (wi / (wi + wj + S2) * (wj / (wj + S2))).
Proof.
  intros wi wj S2 Hwi Hwj HS.
  set (b := S2 / wj). assert (Hb : 0 <= b).
  { unfold b. apply Rmult_le_pos; [assumption|]. left. apply Rinv_0_lt_compat. assumption. }
  set (a := wj / wi * (b + 1)). assert (Ha : 0 <= a).
  { unfold a. apply Rmult_le_pos; [|lra]. left. apply Rdiv_lt_0_compat; assumption. }
  apply is_RInt_ext with (f := fun u => scal (/ (b + 1)) (Rpower u a)).
  - intros u _. rewrite Rpower_mult. fold a. unfold scal; simpl. unfold mult; simpl.
    unfold Rdiv. ring.
  - replace (wi / (wi + wj + S2) * (wj / (wj + S2)))
      with (scal (/ (b + 1)) (Rpower 1 (a + 1) / (a + 1))).
    + apply @is_RInt_scal. apply sp_is_RInt_Rpower; lra.
    + rewrite sp_Rpower_1l. unfold scal; simpl. unfold mult; simpl. unfold a, b. field.
      repeat split; lra.
Qed.

(* ---- the weights other than i and j ---- *)
Lemma sp_nth_others :
  forall (ws : list R) i j, j <> i ->
    nth (if (j <? i)%nat then j else pred j) (sp_others ws i) 0 = nth j ws 0.
Proof.
  unfold sp_others. induction ws as [|x ws IH]; intros i j Hne.
  - rewrite firstn_nil, skipn_nil. simpl.
    destruct (if (j <? i)%nat then j else pred j); destruct j; reflexivity.
  - destruct i as [|i].
    + destruct j as [|j]; [congruence|]. simpl. reflexivity.
    + destruct j as [|j]; [reflexivity|].
      specialize (IH i j ltac:(lia)).
      change (S j <? S i)%nat with (j <? i)%nat.
      destruct (j <? i)%nat eqn:E.
      * simpl. exact IH.
      * apply Nat.ltb_ge in E. destruct j as [|j]; [lia|]. simpl in *. exact IH.
Qed.

Lemma sp_others2_index :
  forall (ws : list R) i j, (i < length ws)%nat -> (j < length ws)%nat -> j <> i ->
    ((if (j <? i)%nat then j else pred j) < length (sp_others ws i))%nat.
Proof.
  intros ws i j Hi Hj Hne. pose proof (sp_length_others ws i Hi).
  destruct (j <? i)%nat eqn:E; [apply Nat.ltb_lt in E | apply Nat.ltb_ge in E]; lia.
Qed.

Lemma sp_sum_others2 :
  forall ws i j, (i < length ws)%nat -> (j < length ws)%nat -> j <> i ->
    sp_sum ws = nth i ws 0 + nth j ws 0 + sp_sum (sp_others2 ws i j).
Proof.
  intros ws i j Hi Hj Hne. unfold sp_others2.
  rewrite (sp_sum_others ws i Hi).
  rewrite (sp_sum_others (sp_others ws i) _ (sp_others2_index ws i j Hi Hj Hne)).
  rewrite sp_nth_others by assumption. ring.
Qed.

Lemma sp_pos_others2 : forall ws i j, sp_pos ws -> sp_pos (sp_others2 ws i j).
Proof. intros. unfold sp_others2. apply sp_pos_others. apply sp_pos_others. assumption. Qed.

(* ---- the theorems ---- *)
(* canonical arrangement: weights wi, wj and the list wo of the other weights *)
Lemma sp_pair_iint :
  forall wi wj wo, 0 < wi -> 0 < wj -> sp_pos wo ->
    sp_is_iint (S (S (length wo))) (sp_pair_ind wi wj wo)
               (wi / (wi + wj + sp_sum wo) * (wj / (wj + sp_sum wo))).
Proof.
  intros wi wj wo Hwi Hwj Hwo.
  pose proof (sp_sum_nonneg wo Hwo) as HS.
  set (b := sp_sum wo / wj). assert (Hb : 0 <= b).
  { unfold b. apply Rmult_le_pos; [assumption|]. left. apply Rinv_0_lt_compat. assumption. }
  cbn [sp_is_iint].
  exists (fun u => Rpower (Rpower u (wj / wi)) (b + 1) / (b + 1)). split.
  - intros u Hu.
    exists (fun v => sp_lt_ind (sp_key v wj) (sp_key u wi) *
                     sp_prod (map (fun wl => Rpower v (wl / wj)) wo)). split.
    + intros v Hv. unfold sp_pair_ind. apply sp_is_iint_scal.
      apply sp_beats_iint; assumption.
    + apply is_RInt_ext with (f := fun v => sp_lt_ind (sp_key v wj) (sp_key u wi) * Rpower v b).
      * intros v _. rewrite sp_prod_powers. reflexivity.
      * apply sp_is_RInt_lose_ind_pow; assumption.
  - apply sp_is_RInt_pair_outer; assumption.
Qed.

Theorem sp_k2_indicator_integral :
  forall ws i j, sp_pos ws -> (i < length ws)%nat -> (j < length ws)%nat -> j <> i ->
    sp_is_pair_prob_ind ws i j
      (nth i ws 0 / sp_sum ws * (nth j ws 0 / (sp_sum ws - nth i ws 0))).
Proof.
  intros ws i j Hp Hi Hj Hne. unfold sp_is_pair_prob_ind.
  rewrite (sp_sum_others2 ws i j Hi Hj Hne) at 1 2.
  replace (nth i ws 0 + nth j ws 0 + sp_sum (sp_others2 ws i j) - nth i ws 0)
    with (nth j ws 0 + sp_sum (sp_others2 ws i j)) by ring.
  apply sp_pair_iint; [apply sp_pos_nth | apply sp_pos_nth | apply sp_pos_others2]; assumption.
Qed.

Theorem sp_k2_indicator_integral_unique :
  forall ws i j p, sp_pos ws -> (i < length ws)%nat -> (j < length ws)%nat -> j <> i ->
    sp_is_pair_prob_ind ws i j p ->
    p = nth i ws 0 / sp_sum ws * (nth j ws 0 / (sp_sum ws - nth i ws 0)).
Proof.
  intros ws i j p Hp Hi Hj Hne H.
  apply (sp_is_iint_unique _ _ _ _ H). apply sp_k2_indicator_integral; assumption.
Qed.

Theorem sp_k2_probability :
  forall ws i j, sp_pos ws -> (i < length ws)%nat -> (j < length ws)%nat -> j <> i ->
    sp_pair_prob ws i j = nth i ws 0 / sp_sum ws * (nth j ws 0 / (sp_sum ws - nth i ws 0)).
Proof.
  intros ws i j Hp Hi Hj Hne. unfold sp_pair_prob.
  pose proof (sp_pos_nth ws i Hp Hi) as Hwi. pose proof (sp_pos_nth ws j Hp Hj) as Hwj.
  pose proof (sp_sum_nonneg _ (sp_pos_others2 ws i j Hp)) as HS.
  set (wi := nth i ws 0) in *. set (wj := nth j ws 0) in *. set (wo := sp_others2 ws i j) in *.
  set (b := sp_sum wo / wj). assert (Hb : 0 <= b).
  { unfold b. apply Rmult_le_pos; [assumption|]. left. apply Rinv_0_lt_compat. assumption. }
  apply is_RInt_unique.
  apply is_RInt_ext with (f := fun u => Rpower (Rpower u (wj / wi)) (b + 1) / (b + 1)).
  - intros u Hu. rewrite Rmin_left, Rmax_right in Hu by lra. symmetry. apply is_RInt_unique.
    apply is_RInt_ext with (f := fun v => sp_lt_ind (sp_key v wj) (sp_key u wi) * Rpower v b).
    + intros v _. rewrite sp_prod_powers. reflexivity.
    + apply sp_is_RInt_lose_ind_pow; assumption.
  - rewrite (sp_sum_others2 ws i j Hi Hj Hne). fold wi wj wo.
    replace (wi + wj + sp_sum wo - wi) with (wj + sp_sum wo) by ring.
    apply sp_is_RInt_pair_outer; assumption.
Qed.

(* consistency with sampleNum = 1: summing over the second pick gives P(i first) *)
Lemma sp_sum_map_scal : forall c l, sp_sum (map (fun x => c * x) l) = c * sp_sum l.
Proof. induction l as [|x l IH]; simpl; [ring|]. rewrite IH. ring. Qed.

Theorem sp_k2_marginal :
  forall ws i, sp_pos ws -> (i < length ws)%nat -> (2 <= length ws)%nat ->
    sp_sum (map (fun wj => nth i ws 0 / sp_sum ws * (wj / (sp_sum ws - nth i ws 0))) (sp_others ws i))
    = nth i ws 0 / sp_sum ws.
Proof.
  intros ws i Hp Hi H2.
  pose proof (sp_pos_nth ws i Hp Hi) as Hwi.
  pose proof (sp_sum_others ws i Hi) as Hsum.
  assert (Hne : sp_others ws i <> []).
  { intros E. pose proof (sp_length_others ws i Hi) as HL. rewrite E in HL. simpl in HL. lia. }
  pose proof (sp_sum_pos _ (sp_pos_others ws i Hp) Hne) as Hso.
  rewrite map_ext with (g := fun wj => (nth i ws 0 / sp_sum ws * / (sp_sum ws - nth i ws 0)) * wj)
    by (intros; unfold Rdiv; ring).
  rewrite sp_sum_map_scal. rewrite Hsum.
  replace (nth i ws 0 + sp_sum (sp_others ws i) - nth i ws 0) with (sp_sum (sp_others ws i)) by ring.
  field. split; lra.
Qed.

(* sp_pair_ind is the indicator of the event (0/1-valued, 1 exactly on it) *)
Lemma sp_pair_ind_spec :
  forall wi wj wo u v xs, length xs = length wo ->
    (sp_pair_ind wi wj wo (u :: v :: xs) = 1 <->
     sp_key v wj < sp_key u wi /\
     forall l, (l < length wo)%nat -> sp_key (nth l xs 0) (nth l wo 0) < sp_key v wj) /\
    (sp_pair_ind wi wj wo (u :: v :: xs) = 1 \/ sp_pair_ind wi wj wo (u :: v :: xs) = 0).
Proof.
  intros wi wj wo u v xs Hlen. destruct (sp_beats_ind_spec v wj xs wo Hlen) as [H1 H2].
  unfold sp_pair_ind, sp_lt_ind. destruct (Rlt_dec (sp_key v wj) (sp_key u wi)) as [Hlt|Hnlt].
  - rewrite Rmult_1_l. split; [|exact H2]. rewrite H1. tauto.
  - rewrite Rmult_0_l. split; [|right; reflexivity]. split; [lra | tauto].
Qed.

Lemma sp_example2 :
  sp_pos [1; 2; 3] /\ sp_win_prob [1; 2; 3] 1 = 1 / 3 /\ sp_pair_prob [1; 2; 3] 1 2 = 1 / 4.
Proof.
  destruct sp_example as [Hp H1]. split; [exact Hp|]. split; [exact H1|].
  rewrite sp_k2_probability; [|exact Hp | simpl; lia | simpl; lia | lia].
  simpl. field.
Qed.
