(* LinearizabilityProofs.v -- general lemmas about the definitions of lib/Linearizability.v:
   projections, complete(), positions of the k-th invocation/response of a thread, and the two
   lemmas that turn "a <_H b" into a split of the history and back. *)
From Coq Require Import List Arith Bool Lia Permutation.
From Got Require Import Linearizability.
Import ListNotations.
Local Open Scope nat_scope.

Section HWP.
Context {Op Res : Type}.
Notation event := (hw_event Op Res).
Notation history := (hw_history Op Res).

Lemma hw_proj_app t (a b : history) : hw_proj t (a ++ b) = hw_proj t a ++ hw_proj t b.
Proof. unfold hw_proj. apply filter_app. Qed.

Lemma hw_existsb_res_proj t (r : history) :
  existsb (hw_is_res t) (hw_proj t r) = existsb (hw_is_res t) r.
Proof.
  induction r as [|e r IH]; [reflexivity|].
  unfold hw_proj in *. cbn [filter existsb].
  destruct e as [t' o|t' x]; cbn [hw_thread hw_is_res].
  - destruct (Nat.eqb t' t); cbn [existsb hw_is_res orb]; exact IH.
  - destruct (Nat.eqb t' t) eqn:E; cbn [existsb hw_is_res orb]; rewrite ?E; cbn [orb]; [reflexivity|exact IH].
Qed.

Lemma hw_existsb_res_proj_other t t' (r : history) :
  t' <> t -> existsb (hw_is_res t') (hw_proj t r) = false.
Proof.
  intros Hn. induction r as [|e r IH]; [reflexivity|].
  unfold hw_proj in *. cbn [filter].
  destruct (Nat.eqb (hw_thread e) t) eqn:E; [|exact IH].
  cbn [existsb]. rewrite IH. apply Nat.eqb_eq in E.
  destruct e as [t2 o|t2 x]; cbn [hw_is_res hw_thread orb] in *; [reflexivity|].
  subst t2. apply orb_false_iff. split; [|reflexivity]. apply Nat.eqb_neq. congruence.
Qed.

(* complete() commutes with the projection on a thread *)
Lemma hw_proj_complete t (H : history) : hw_proj t (hw_complete H) = hw_complete (hw_proj t H).
Proof.
  induction H as [|e r IH]; [reflexivity|].
  destruct e as [t' o|t' x].
  - cbn [hw_complete]. unfold hw_proj at 2. cbn [filter hw_thread]. fold (hw_proj t r).
    destruct (Nat.eqb t' t) eqn:E.
    + apply Nat.eqb_eq in E. subst t'. cbn [hw_complete]. rewrite hw_existsb_res_proj.
      destruct (existsb (hw_is_res t) r); [|exact IH].
      unfold hw_proj at 1. cbn [filter hw_thread]. rewrite Nat.eqb_refl. fold (hw_proj t (hw_complete r)).
      rewrite IH. reflexivity.
    + destruct (existsb (hw_is_res t') r); [|exact IH].
      unfold hw_proj at 1. cbn [filter hw_thread]. rewrite E. exact IH.
  - cbn [hw_complete]. unfold hw_proj at 1 2. cbn [filter hw_thread].
    fold (hw_proj t r). fold (hw_proj t (hw_complete r)).
    destruct (Nat.eqb t' t); cbn [hw_complete]; rewrite IH; reflexivity.
Qed.

Lemma hw_alt_app_l (X Y : history) : forall b, hw_alt b (X ++ Y) = true -> hw_alt b X = true.
Proof.
  induction X as [|e X IH]; intros b H; [reflexivity|].
  destruct e; cbn [app hw_alt] in *; apply andb_true_iff in H; destruct H as [H1 H2];
    rewrite H1; cbn [andb]; eapply IH; exact H2.
Qed.

Lemma hw_wf_app_l (X Y : history) : hw_wf (X ++ Y) -> hw_wf X.
Proof. intros H t. specialize (H t). rewrite hw_proj_app in H. eapply hw_alt_app_l. exact H. Qed.

(* ---------------------------------------------------------------- positions *)
Definition hw_count (P : event -> bool) (l : history) : nat := length (filter P l).

Lemma hw_count_app P (a b : history) : hw_count P (a ++ b) = hw_count P a + hw_count P b.
Proof. unfold hw_count. rewrite filter_app, app_length. reflexivity. Qed.

Lemma hw_find_bound P (l : history) : forall k i, hw_find P k l = Some i -> i < length l.
Proof.
  induction l as [|e r IH]; intros k i H; cbn [hw_find] in H; [discriminate|].
  cbn [length]. destruct (P e).
  - destruct k as [|k]; [inversion H; lia|].
    destruct (hw_find P k r) as [i'|] eqn:E; [|discriminate]. inversion H; subst.
    apply IH in E. lia.
  - destruct (hw_find P k r) as [i'|] eqn:E; [|discriminate]. inversion H; subst.
    apply IH in E. lia.
Qed.

Lemma hw_find_app_l P (l1 l2 : history) : forall k,
  k < hw_count P l1 -> hw_find P k (l1 ++ l2) = hw_find P k l1.
Proof.
  unfold hw_count. induction l1 as [|e r IH]; intros k Hk; cbn [filter length] in Hk; [lia|].
  cbn [app hw_find]. destruct (P e); cbn [length] in Hk.
  - destruct k as [|k]; [reflexivity|]. rewrite IH by lia. reflexivity.
  - rewrite IH by lia. reflexivity.
Qed.

Lemma hw_find_app_r P (l1 l2 : history) : forall k,
  hw_count P l1 <= k ->
  hw_find P k (l1 ++ l2) = option_map (fun i => length l1 + i) (hw_find P (k - hw_count P l1) l2).
Proof.
  unfold hw_count. induction l1 as [|e r IH]; intros k Hk; cbn [filter length] in *.
  - cbn [app]. rewrite Nat.sub_0_r. destruct (hw_find P k l2); reflexivity.
  - cbn [app hw_find]. destruct (P e); cbn [length] in *.
    + destruct k as [|k]; [lia|]. rewrite IH by lia. cbn [Nat.sub].
      destruct (hw_find P (k - length (filter P r)) l2); reflexivity.
    + rewrite IH by lia. destruct (hw_find P (k - length (filter P r)) l2); reflexivity.
Qed.

Lemma hw_find_some P (l : history) : forall k, k < hw_count P l -> exists i, hw_find P k l = Some i.
Proof.
  unfold hw_count. induction l as [|e r IH]; intros k Hk; cbn [filter length] in Hk; [lia|].
  cbn [hw_find]. destruct (P e); cbn [length] in Hk.
  - destruct k as [|k]; [eexists; reflexivity|].
    destruct (IH k) as [i Hi]; [lia|]. rewrite Hi. eexists; reflexivity.
  - destruct (IH k Hk) as [i Hi]. rewrite Hi. eexists; reflexivity.
Qed.

Lemma hw_find_split P (l : history) : forall k j,
  hw_find P k l = Some j ->
  exists l1 e l2, l = l1 ++ e :: l2 /\ P e = true /\ hw_count P l1 = k /\ length l1 = j.
Proof.
  unfold hw_count. induction l as [|e r IH]; intros k j H; cbn [hw_find] in H; [discriminate|].
  destruct (P e) eqn:Pe.
  - destruct k as [|k].
    + inversion H; subst. exists [], e, r. repeat split. exact Pe.
    + destruct (hw_find P k r) as [j'|] eqn:E; [|discriminate]. inversion H; subst.
      destruct (IH _ _ E) as (l1 & e' & l2 & -> & Pe' & Hc & Hl).
      exists (e :: l1), e', l2. cbn [filter length app]. rewrite Pe. cbn [length].
      repeat split; [exact Pe'|lia|lia].
  - destruct (hw_find P k r) as [j'|] eqn:E; [|discriminate]. inversion H; subst.
    destruct (IH _ _ E) as (l1 & e' & l2 & -> & Pe' & Hc & Hl).
    exists (e :: l1), e', l2. cbn [filter length app]. rewrite Pe.
    repeat split; [exact Pe'|lia|lia].
Qed.

(* a split of a flat_map whose pieces have at most one element is a split of the argument *)
Lemma hw_flat_map_split {A} (f : A -> history) (Hf : forall x, length (f x) <= 1) (tr : list A) :
  forall l1 l2, flat_map f tr = l1 ++ l2 ->
  exists tr1 tr2, tr = tr1 ++ tr2 /\ flat_map f tr1 = l1 /\ flat_map f tr2 = l2.
Proof.
  induction tr as [|x tr IH]; intros l1 l2 H; cbn [flat_map] in H.
  - destruct l1; [|discriminate]. destruct l2; [|discriminate]. exists [], []. repeat split.
  - pose proof (Hf x) as Hx. destruct (f x) as [|e [|e2 fx]] eqn:Ex; cbn [length] in Hx; [| |lia].
    + cbn [app] in H. destruct (IH _ _ H) as (tr1 & tr2 & -> & H1 & H2).
      exists (x :: tr1), tr2. cbn [app flat_map]. rewrite Ex. repeat split; assumption.
    + cbn [app] in H. destruct l1 as [|e1 l1].
      * exists [], (x :: tr). cbn [app flat_map]. rewrite Ex. repeat split. exact H.
      * cbn [app] in H. inversion H; subst.
        destruct (IH _ _ H2) as (tr1 & tr2 & -> & H1' & H2').
        exists (x :: tr1), tr2. cbn [app flat_map]. rewrite Ex. cbn [app]. subst. repeat split.
Qed.

(* a <_H b on a history that is the image of a trace: split the trace just before inv(b) *)
Lemma hw_precedes_trace_split {A} (f : A -> history) (Hf : forall x, length (f x) <= 1) (tr : list A) a b :
  hw_precedes (flat_map f tr) a b ->
  exists tr1 tr2, tr = tr1 ++ tr2 /\
    snd a < hw_count (hw_is_res (fst a)) (flat_map f tr1) /\
    hw_count (hw_is_inv (fst b)) (flat_map f tr1) = snd b.
Proof.
  intros (i & j & Hr & Hi & Hij). unfold hw_res_pos, hw_inv_pos in *.
  destruct (hw_find_split _ _ _ _ Hi) as (l1 & e & l2 & Hl & Pe & Hc & Hlen).
  destruct (hw_flat_map_split f Hf tr _ _ Hl) as (tr1 & tr2 & -> & H1 & H2).
  exists tr1, tr2. split; [reflexivity|]. rewrite H1. split; [|exact Hc].
  destruct (Nat.lt_ge_cases (snd a) (hw_count (hw_is_res (fst a)) l1)) as [Hlt|Hge]; [exact Hlt|].
  rewrite Hl in Hr. rewrite hw_find_app_r in Hr by exact Hge.
  destruct (hw_find _ _ (e :: l2)); cbn [option_map] in Hr; [|discriminate].
  inversion Hr. lia.
Qed.

(* ... and back: if res(a) is in the first part of S and inv(b) is not, then a <_S b *)
Lemma hw_precedes_of_split (S1 S2 : history) a b :
  snd a < hw_count (hw_is_res (fst a)) S1 ->
  hw_count (hw_is_inv (fst b)) S1 <= snd b ->
  hw_invoked (S1 ++ S2) b ->
  hw_precedes (S1 ++ S2) a b.
Proof.
  intros Ha Hb [j Hj]. unfold hw_precedes, hw_res_pos, hw_inv_pos in *.
  destruct (hw_find_some _ _ _ Ha) as [i Hi].
  exists i, j. split; [rewrite hw_find_app_l by exact Ha; exact Hi|]. split; [exact Hj|].
  apply hw_find_bound in Hi.
  rewrite hw_find_app_r in Hj by exact Hb.
  destruct (hw_find _ _ S2); cbn [option_map] in Hj; [|discriminate]. inversion Hj. lia.
Qed.

(* ---------------------------------------------------------------- equivalence *)
(* histories with the same per-thread subhistories are permutations of each other *)
Lemma hw_proj_split_first t e (A : history) : forall B,
  hw_proj t B = e :: A ->
  exists B1 B2, B = B1 ++ e :: B2 /\ hw_proj t B1 = [] /\ hw_proj t B2 = A /\ hw_thread e = t.
Proof.
  induction B as [|x B IH]; intros H; [discriminate|].
  unfold hw_proj in H. cbn [filter] in H. destruct (Nat.eqb (hw_thread x) t) eqn:E.
  - inversion H; subst. exists [], B. repeat split. apply Nat.eqb_eq. exact E.
  - destruct (IH H) as (B1 & B2 & -> & H1 & H2 & H3).
    exists (x :: B1), B2. repeat split; try assumption.
    unfold hw_proj. cbn [filter]. rewrite E. exact H1.
Qed.

Lemma hw_equiv_perm (A : history) : forall B, hw_equiv A B -> Permutation A B.
Proof.
  induction A as [|e A IH]; intros B H.
  - destruct B as [|x B]; [constructor|].
    specialize (H (hw_thread x)). unfold hw_proj in H. cbn [filter] in H.
    rewrite Nat.eqb_refl in H. discriminate.
  - pose proof (H (hw_thread e)) as He. unfold hw_proj at 1 in He. cbn [filter] in He.
    rewrite Nat.eqb_refl in He. symmetry in He.
    destruct (hw_proj_split_first _ _ _ _ He) as (B1 & B2 & -> & H1 & H2 & _).
    apply Permutation_cons_app. apply IH. intros t. specialize (H t).
    rewrite hw_proj_app in *. unfold hw_proj at 1 3 in H. cbn [filter] in H.
    fold (hw_proj t A) in H. fold (hw_proj t B2) in H.
    destruct (Nat.eqb (hw_thread e) t) eqn:E.
    + apply Nat.eqb_eq in E. subst t. rewrite H1 in *. cbn [app] in *. inversion H. reflexivity.
    + exact H.
Qed.

End HWP.
