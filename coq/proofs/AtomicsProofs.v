(* AtomicsProofs.v -- atomicity (refinement to atomic effects), per-thread protocol and
   invariant preservation for the model of loom.Flag / loom.AddIf64 (models/Atomics.v). *)
From Got Require Import Base Atomics.
Local Open Scope Z_scope.

(* ------------------------------------------------------------------ generic list helpers *)

Lemma at_Forall_set_nth {A} (P : A -> Prop) l i x :
  Forall P l -> P x -> Forall P (firstn i l ++ x :: skipn (S i) l).
Proof.
  intros Hl Hx. apply Forall_app. split.
  - apply Forall_forall. intros y Hy. rewrite Forall_forall in Hl. apply Hl.
    rewrite <- (firstn_skipn i l). apply in_or_app. left. exact Hy.
  - constructor; [exact Hx|]. apply Forall_forall. intros y Hy. rewrite Forall_forall in Hl. apply Hl.
    rewrite <- (firstn_skipn (S i) l). apply in_or_app. right. exact Hy.
Qed.

Lemma at_nth_error_set_same {A} (l : list A) i x y :
  nth_error l i = Some y -> nth_error (firstn i l ++ x :: skipn (S i) l) i = Some x.
Proof.
  intros H. assert (Hi : (i < length l)%nat) by (apply nth_error_Some; congruence).
  rewrite nth_error_app2; rewrite firstn_length_le by lia; [|lia].
  rewrite Nat.sub_diag. reflexivity.
Qed.

Lemma at_nth_error_set_other {A} (l : list A) i j x :
  i <> j -> (i < length l)%nat -> nth_error (firstn i l ++ x :: skipn (S i) l) j = nth_error l j.
Proof.
  revert i j. induction l as [|y l IH]; intros i j Hij Hi; cbn [length] in Hi; [lia|].
  destruct i as [|i]; destruct j as [|j]; try lia; cbn [firstn skipn app nth_error]; try reflexivity.
  apply IH; lia.
Qed.

(* ------------------------------------------------------------------ invariant *)

(* a thread parked before the CAS of AddIf64 holds a value on which its predicate was true *)
Definition at_linv (pc : at_pc) : Prop :=
  match pc with AIfCas d p e => p e = true | _ => True end.

Definition at_inv (s : at_state) : Prop := Forall (fun th => at_linv (at_pcof th)) (at_threads s).

Lemma at_step_pc_inv w pc todo w' pc' todo' ev :
  at_linv pc -> at_step_pc w pc todo = (w', pc', todo', ev) -> at_linv pc'.
Proof.
  intros L H. destruct pc; cbn [at_step_pc at_linv] in *.
  - destruct todo as [|[f|f|f|d p] r]; inversion H; subst; exact I.
  - inversion H; subst; exact I.
  - destruct (w =? last); inversion H; subst; exact I.
  - destruct (p w) eqn:E; inversion H; subst; cbn [at_linv]; [exact E|exact I].
  - destruct (w =? expect); inversion H; subst; exact I.
Qed.

Lemma at_step_inv s i : at_inv s -> at_inv (fst (at_step s i)).
Proof.
  intros L. unfold at_step.
  destruct (nth_error (at_threads s) i) as [th|] eqn:E; [|exact L].
  destruct (at_step_pc (at_word s) (at_pcof th) (at_todo th)) as [[[w' pc'] todo'] ev] eqn:Hs.
  cbn [fst]. unfold at_inv. cbn [at_threads]. unfold at_set_thread. apply at_Forall_set_nth; [exact L|].
  cbn [at_pcof]. eapply at_step_pc_inv; [|exact Hs].
  unfold at_inv in L. rewrite Forall_forall in L. apply L. eapply nth_error_In. exact E.
Qed.

Lemma at_init_inv w progs : at_inv (at_init w progs).
Proof.
  unfold at_inv, at_init. cbn [at_threads]. apply Forall_forall. intros th Hin.
  apply in_map_iff in Hin. destruct Hin as [p [<- _]]. exact I.
Qed.

Lemma at_run_inv s sched : at_inv s -> at_inv (at_final s sched).
Proof.
  unfold at_final. revert s. induction sched as [|i r IH]; intros s H; cbn [at_run]; [exact H|].
  destruct (at_step s i) as [s1 ev] eqn:E. destruct (at_run s1 r) as [s2 tr] eqn:E2. cbn [fst].
  specialize (IH s1). rewrite E2 in IH. cbn [fst] in IH. apply IH.
  pose proof (at_step_inv s i H) as H1. rewrite E in H1. exact H1.
Qed.

(* ------------------------------------------------------------------ refinement to atomic effects *)

(* The atomic (sequential) meaning of an event on the word.  None = the event is not a legal
   atomic step at this value:
   - a completed AddFlag/RemoveFlag is the single update v := v | f  /  v := v & ^f;
   - a successful AddIf64 is the single update v := v + delta AND requires p v = true for the
     value v the word has at this very instant;
   - a false AddIf64 requires p v = false for the value v the word has at this instant (the
     load), and leaves the word alone;
   - HasFlag reports (v & f) != 0 for the current v;
   - everything else (invocation, load, failed CAS) leaves the word alone. *)
Definition at_apply_ev (v : Z) (ev : at_event) : option Z :=
  match ev with
  | AEFlagEff add f => Some (at_flag_next add v f)
  | AEIfAdd d p => if p v then Some (at_add64 v d) else None
  | AEIfFalse p => if p v then None else Some v
  | AEHas f b => if Bool.eqb b (at_has v f) then Some v else None
  | AEInv _ | AELoad | AECasFail | AENone => Some v
  end.

Fixpoint at_apply_trace (v : Z) (tr : list (nat * at_event)) : option Z :=
  match tr with
  | [] => Some v
  | (_, ev) :: r => match at_apply_ev v ev with Some v' => at_apply_trace v' r | None => None end
  end.

Lemma at_step_pc_abs w pc todo w' pc' todo' ev :
  at_linv pc -> at_step_pc w pc todo = (w', pc', todo', ev) -> at_apply_ev w ev = Some w'.
Proof.
  intros L H. destruct pc; cbn [at_step_pc at_linv] in *.
  - destruct todo as [|[f|f|f|d p] r]; inversion H; subst; cbn [at_apply_ev]; try reflexivity.
    rewrite Bool.eqb_reflx. reflexivity.
  - inversion H; subst; reflexivity.
  - destruct (w =? last) eqn:E; inversion H; subst; cbn [at_apply_ev]; [|reflexivity].
    apply Z.eqb_eq in E. subst. reflexivity.
  - destruct (p w) eqn:E; inversion H; subst; cbn [at_apply_ev]; [reflexivity|]. rewrite E. reflexivity.
  - destruct (w =? expect) eqn:E; inversion H; subst; cbn [at_apply_ev]; [|reflexivity].
    apply Z.eqb_eq in E. subst. rewrite L. reflexivity.
Qed.

Lemma at_step_abs s i :
  at_inv s -> at_apply_ev (at_word s) (snd (at_step s i)) = Some (at_word (fst (at_step s i))).
Proof.
  intros L. unfold at_step.
  destruct (nth_error (at_threads s) i) as [th|] eqn:E; [|reflexivity].
  destruct (at_step_pc (at_word s) (at_pcof th) (at_todo th)) as [[[w' pc'] todo'] ev] eqn:Hs.
  cbn [fst snd at_word]. eapply at_step_pc_abs; [|exact Hs].
  unfold at_inv in L. rewrite Forall_forall in L. apply L. eapply nth_error_In. exact E.
Qed.

Lemma at_run_refines s sched :
  at_inv s -> at_apply_trace (at_word s) (at_trace s sched) = Some (at_word (at_final s sched)).
Proof.
  unfold at_trace, at_final. revert s. induction sched as [|i r IH]; intros s H; cbn [at_run]; [reflexivity|].
  destruct (at_step s i) as [s1 ev] eqn:E. destruct (at_run s1 r) as [s2 tr] eqn:E2.
  cbn [fst snd at_apply_trace].
  pose proof (at_step_abs s i H) as Ha. pose proof (at_step_inv s i H) as Hi. rewrite E in Ha, Hi.
  cbn [fst snd] in Ha, Hi. rewrite Ha. specialize (IH s1 Hi). rewrite E2 in IH. exact IH.
Qed.

Theorem at_refines_atomic w progs sched :
  at_apply_trace w (at_trace (at_init w progs) sched)
  = Some (at_word (at_final (at_init w progs) sched)).
Proof. apply (at_run_refines (at_init w progs) sched). apply at_init_inv. Qed.

(* ------------------------------------------------------------------ per-thread protocol *)

(* The events of one thread follow, for each operation of its program in order:
     AddFlag f / RemoveFlag f :  Inv ; (Load ; CasFail)* ; Load ; FlagEff add f        (one effect)
     HasFlag f                :  Has f b
     AddIf64 d p              :  Inv ; (Load ; CasFail)* ; ( Load ; IfAdd d p | IfFalse p )
   i.e. exactly one effect event (FlagEff / IfAdd / IfFalse / Has) per completed call, carrying
   the arguments of that call, and none for a call that has not completed. *)
Inductive at_aut :=
| AAIdle
| AABusy (o : at_op) (loaded : bool).   (* inside o; loaded: parked before the CAS *)

Inductive at_aut_step : at_aut -> list at_op -> at_event -> at_aut -> list at_op -> Prop :=
| AAS_inv_add f r : at_aut_step AAIdle (AtAdd f :: r) (AEInv (AtAdd f)) (AABusy (AtAdd f) false) r
| AAS_inv_rem f r : at_aut_step AAIdle (AtRemove f :: r) (AEInv (AtRemove f)) (AABusy (AtRemove f) false) r
| AAS_inv_if d p r : at_aut_step AAIdle (AtAddIf d p :: r) (AEInv (AtAddIf d p)) (AABusy (AtAddIf d p) false) r
| AAS_has f b r : at_aut_step AAIdle (AtHas f :: r) (AEHas f b) AAIdle r
| AAS_none : at_aut_step AAIdle [] AENone AAIdle []
| AAS_load o r : at_aut_step (AABusy o false) r AELoad (AABusy o true) r
| AAS_fail o r : at_aut_step (AABusy o true) r AECasFail (AABusy o false) r
| AAS_eff_add f r : at_aut_step (AABusy (AtAdd f) true) r (AEFlagEff true f) AAIdle r
| AAS_eff_rem f r : at_aut_step (AABusy (AtRemove f) true) r (AEFlagEff false f) AAIdle r
| AAS_eff_if d p r : at_aut_step (AABusy (AtAddIf d p) true) r (AEIfAdd d p) AAIdle r
| AAS_false d p r : at_aut_step (AABusy (AtAddIf d p) false) r (AEIfFalse p) AAIdle r.

Inductive at_aut_run : at_aut -> list at_op -> list at_event -> at_aut -> list at_op -> Prop :=
| AAR_nil a todo : at_aut_run a todo [] a todo
| AAR_cons a todo ev a1 todo1 evs a2 todo2 :
    at_aut_step a todo ev a1 todo1 -> at_aut_run a1 todo1 evs a2 todo2 ->
    at_aut_run a todo (ev :: evs) a2 todo2.

Definition at_proj (i : nat) (tr : list (nat * at_event)) : list at_event :=
  map snd (filter (fun p => Nat.eqb (fst p) i) tr).

Definition at_aut_of_pc (pc : at_pc) : at_aut :=
  match pc with
  | AIdle => AAIdle
  | AFlagLoad add f => AABusy (if add then AtAdd f else AtRemove f) false
  | AFlagCas add f _ => AABusy (if add then AtAdd f else AtRemove f) true
  | AIfLoad d p => AABusy (AtAddIf d p) false
  | AIfCas d p _ => AABusy (AtAddIf d p) true
  end.

Lemma at_step_pc_aut w pc todo w' pc' todo' ev :
  at_step_pc w pc todo = (w', pc', todo', ev) ->
  at_aut_step (at_aut_of_pc pc) todo ev (at_aut_of_pc pc') todo'.
Proof.
  intros H. destruct pc; cbn [at_step_pc] in *.
  - destruct todo as [|[f|f|f|d p] r]; inversion H; subst; cbn [at_aut_of_pc]; constructor.
  - inversion H; subst; cbn [at_aut_of_pc]; constructor.
  - destruct (w =? last); inversion H; subst; cbn [at_aut_of_pc]; destruct add; constructor.
  - destruct (p w); inversion H; subst; cbn [at_aut_of_pc]; constructor.
  - destruct (w =? expect); inversion H; subst; cbn [at_aut_of_pc]; constructor.
Qed.

Definition at_aut_of (s : at_state) (i : nat) : at_aut * list at_op :=
  match nth_error (at_threads s) i with
  | Some th => (at_aut_of_pc (at_pcof th), at_todo th)
  | None => (AAIdle, [])
  end.

Lemma at_step_aut_same s i :
  at_aut_step (fst (at_aut_of s i)) (snd (at_aut_of s i)) (snd (at_step s i))
              (fst (at_aut_of (fst (at_step s i)) i)) (snd (at_aut_of (fst (at_step s i)) i)).
Proof.
  unfold at_aut_of, at_step.
  destruct (nth_error (at_threads s) i) as [th|] eqn:E.
  - destruct (at_step_pc (at_word s) (at_pcof th) (at_todo th)) as [[[w' pc'] todo'] ev] eqn:Hs.
    cbn [fst snd at_threads]. unfold at_set_thread.
    rewrite (at_nth_error_set_same _ _ _ _ E). cbn [fst snd at_pcof at_todo].
    eapply at_step_pc_aut. exact Hs.
  - cbn [fst snd]. rewrite E. cbn [fst snd]. constructor.
Qed.

Lemma at_step_aut_other s i j : i <> j -> at_aut_of (fst (at_step s i)) j = at_aut_of s j.
Proof.
  intros Hij. unfold at_aut_of, at_step.
  destruct (nth_error (at_threads s) i) as [th|] eqn:E; [|reflexivity].
  destruct (at_step_pc (at_word s) (at_pcof th) (at_todo th)) as [[[w' pc'] todo'] ev].
  cbn [fst at_threads]. unfold at_set_thread.
  rewrite at_nth_error_set_other; [reflexivity|exact Hij|]. apply nth_error_Some. congruence.
Qed.

Lemma at_run_protocol s sched j :
  at_aut_run (fst (at_aut_of s j)) (snd (at_aut_of s j)) (at_proj j (at_trace s sched))
             (fst (at_aut_of (at_final s sched) j)) (snd (at_aut_of (at_final s sched) j)).
Proof.
  unfold at_trace, at_final, at_proj. revert s. induction sched as [|i r IH]; intros s.
  - cbn. constructor.
  - cbn [at_run]. destruct (at_step s i) as [s1 ev] eqn:E. destruct (at_run s1 r) as [s2 tr] eqn:E2.
    cbn [fst snd filter].
    specialize (IH s1). rewrite E2 in IH. cbn [fst snd] in IH.
    destruct (Nat.eqb i j) eqn:Eij.
    + apply Nat.eqb_eq in Eij. subst j. cbn [map snd].
      pose proof (at_step_aut_same s i) as Hs. rewrite E in Hs. cbn [fst snd] in Hs.
      econstructor; [exact Hs|exact IH].
    + apply Nat.eqb_neq in Eij.
      pose proof (at_step_aut_other s i j Eij) as Ho. rewrite E in Ho. cbn [fst] in Ho.
      rewrite Ho in IH. exact IH.
Qed.

Lemma at_aut_of_init w progs j : at_aut_of (at_init w progs) j = (AAIdle, nth j progs []).
Proof.
  unfold at_aut_of. cbn [at_init at_threads]. rewrite nth_error_map.
  destruct (nth_error progs j) as [p|] eqn:E; cbn [option_map at_pcof at_todo at_aut_of_pc].
  - rewrite (nth_error_nth _ _ _ E). reflexivity.
  - rewrite nth_overflow; [reflexivity|]. apply nth_error_None. exact E.
Qed.

Theorem at_thread_protocol w progs sched j :
  at_aut_run AAIdle (nth j progs []) (at_proj j (at_trace (at_init w progs) sched))
             (fst (at_aut_of (at_final (at_init w progs) sched) j))
             (snd (at_aut_of (at_final (at_init w progs) sched) j)).
Proof.
  pose proof (at_run_protocol (at_init w progs) sched j) as H.
  rewrite at_aut_of_init in H. exact H.
Qed.

(* ------------------------------------------------------------------ invariant preservation *)

(* [I] is preserved by the ATOMIC meaning of an operation *)
Definition at_op_preserves (I : Z -> Prop) (o : at_op) : Prop :=
  match o with
  | AtAdd f => forall v, I v -> I (Z.lor v f)
  | AtRemove f => forall v, I v -> I (Z.land v (Z.lnot f))
  | AtHas _ => True
  | AtAddIf d p => forall v, I v -> p v = true -> I (at_add64 v d)
  end.

Definition at_pc_preserves (I : Z -> Prop) (pc : at_pc) : Prop :=
  match pc with
  | AIdle => True
  | AFlagLoad add f | AFlagCas add f _ => at_op_preserves I (if add then AtAdd f else AtRemove f)
  | AIfLoad d p => at_op_preserves I (AtAddIf d p)
  | AIfCas d p e => at_op_preserves I (AtAddIf d p) /\ p e = true
  end.

Definition at_pinv (I : Z -> Prop) (s : at_state) : Prop :=
  I (at_word s) /\
  Forall (fun th => at_pc_preserves I (at_pcof th) /\ Forall (at_op_preserves I) (at_todo th)) (at_threads s).

Lemma at_step_pc_pinv (I : Z -> Prop) w pc todo w' pc' todo' ev :
  I w -> at_pc_preserves I pc -> Forall (at_op_preserves I) todo ->
  at_step_pc w pc todo = (w', pc', todo', ev) ->
  I w' /\ at_pc_preserves I pc' /\ Forall (at_op_preserves I) todo'.
Proof.
  intros Hw Hp Ht H. destruct pc; cbn [at_step_pc at_pc_preserves] in *.
  - destruct todo as [|o r]; [inversion H; subst; repeat split; auto|].
    inversion Ht as [|? ? Ho Hr]; subst.
    destruct o as [f|f|f|d p]; inversion H; subst; cbn [at_pc_preserves]; repeat split; auto.
  - inversion H; subst. cbn [at_pc_preserves]. repeat split; auto.
  - destruct (w =? last) eqn:E; inversion H; subst; cbn [at_pc_preserves]; repeat split; auto.
    apply Z.eqb_eq in E. subst. destruct add; cbn [at_op_preserves at_flag_next] in *; auto.
  - destruct (p w) eqn:E; inversion H; subst; cbn [at_pc_preserves]; repeat split; auto.
  - destruct Hp as [Hp He].
    destruct (w =? expect) eqn:E; inversion H; subst; cbn [at_pc_preserves]; repeat split; auto.
    apply Z.eqb_eq in E. subst. cbn [at_op_preserves] in Hp. auto.
Qed.

Lemma at_step_pinv (I : Z -> Prop) s i : at_pinv I s -> at_pinv I (fst (at_step s i)).
Proof.
  intros [Hw L]. unfold at_step.
  destruct (nth_error (at_threads s) i) as [th|] eqn:E; [|split; assumption].
  destruct (at_step_pc (at_word s) (at_pcof th) (at_todo th)) as [[[w' pc'] todo'] ev] eqn:Hs.
  assert (Lth : at_pc_preserves I (at_pcof th) /\ Forall (at_op_preserves I) (at_todo th)).
  { rewrite Forall_forall in L. apply L. eapply nth_error_In. exact E. }
  destruct Lth as [Lp Lt].
  destruct (at_step_pc_pinv I _ _ _ _ _ _ _ Hw Lp Lt Hs) as (Hw' & Lp' & Lt').
  cbn [fst]. split; cbn [at_word at_threads]; [exact Hw'|].
  unfold at_set_thread. apply at_Forall_set_nth; [exact L|]. cbn [at_pcof at_todo]. split; assumption.
Qed.

Lemma at_init_pinv (I : Z -> Prop) w progs :
  I w -> Forall (Forall (at_op_preserves I)) progs -> at_pinv I (at_init w progs).
Proof.
  intros Hw Hp. split; [exact Hw|]. cbn [at_init at_threads]. apply Forall_forall. intros th Hin.
  apply in_map_iff in Hin. destruct Hin as [p [<- Hin]]. cbn [at_pcof at_todo at_pc_preserves].
  split; [exact Logic.I|]. rewrite Forall_forall in Hp. apply Hp. exact Hin.
Qed.

Lemma at_values_pinv (I : Z -> Prop) sched : forall s, at_pinv I s -> Forall I (at_values s sched).
Proof.
  induction sched as [|i r IH]; intros s H; cbn [at_values].
  - constructor; [apply H|constructor].
  - constructor; [apply H|]. apply IH. apply at_step_pinv. exact H.
Qed.

(* every value the word ever takes satisfies I *)
Theorem at_preserves (I : Z -> Prop) w progs sched :
  Forall (Forall (at_op_preserves I)) progs -> I w ->
  Forall I (at_values (at_init w progs) sched).
Proof. intros Hp Hw. apply at_values_pinv. apply at_init_pinv; assumption. Qed.

Lemma at_values_last sched : forall s, In (at_word (at_final s sched)) (at_values s sched).
Proof.
  unfold at_final. induction sched as [|i r IH]; intros s; cbn [at_values at_run].
  - left. reflexivity.
  - destruct (at_step s i) as [s1 ev] eqn:E. destruct (at_run s1 r) as [s2 tr] eqn:E2. cbn [fst].
    right. specialize (IH s1). rewrite E2 in IH. exact IH.
Qed.

Corollary at_preserves_final (I : Z -> Prop) w progs sched :
  Forall (Forall (at_op_preserves I)) progs -> I w ->
  I (at_word (at_final (at_init w progs) sched)).
Proof.
  intros Hp Hw. pose proof (at_preserves I w progs sched Hp Hw) as H.
  rewrite Forall_forall in H. apply H. apply at_values_last.
Qed.

(* 'never above the limit': any number of threads adding any deltas, each guarded by the Go
   predicate  old + delta <= limit  (with Go's wrapping addition) *)
Definition at_is_limited (limit : Z) (o : at_op) : Prop :=
  match o with
  | AtAddIf d p => forall v, p v = true -> at_add64 v d <= limit
  | AtHas _ => True
  | _ => False
  end.

Theorem at_never_above_limit limit w progs sched :
  Forall (Forall (at_is_limited limit)) progs -> w <= limit ->
  Forall (fun v => v <= limit) (at_values (at_init w progs) sched).
Proof.
  intros Hp Hw. apply at_preserves; [|exact Hw].
  eapply Forall_impl; [|exact Hp]. intros p Hpp. eapply Forall_impl; [|exact Hpp].
  intros o Ho. destruct o; cbn [at_is_limited at_op_preserves] in *; try contradiction; auto.
Qed.

Lemma at_pred_le_limited d limit : at_is_limited limit (AtAddIf d (at_pred 0 d limit)).
Proof. cbn [at_is_limited at_pred]. intros v H. apply Z.leb_le. exact H. Qed.

(* ------------------------------------------------------------------ int64 range *)

Definition at_i64 (v : Z) : Prop := - 2 ^ 63 <= v < 2 ^ 63.

Lemma at_i64_shiftr v : at_i64 v <-> (Z.shiftr v 63 = 0 \/ Z.shiftr v 63 = -1).
Proof.
  unfold at_i64. rewrite Z.shiftr_div_pow2 by lia.
  assert (H : 0 < 2 ^ 63) by (apply Z.pow_pos_nonneg; lia).
  split; intros; lia.
Qed.

Lemma at_range_lor a b : at_i64 a -> at_i64 b -> at_i64 (Z.lor a b).
Proof.
  rewrite !at_i64_shiftr, Z.shiftr_lor. intros [-> | ->] [-> | ->]; cbn; auto.
Qed.

Lemma at_range_land a b : at_i64 a -> at_i64 b -> at_i64 (Z.land a b).
Proof.
  rewrite !at_i64_shiftr, Z.shiftr_land. intros [-> | ->] [-> | ->]; cbn; auto.
Qed.

Lemma at_range_lnot a : at_i64 a -> at_i64 (Z.lnot a).
Proof. unfold at_i64, Z.lnot. intros H. rewrite <- Z.sub_1_r. lia. Qed.

Lemma at_range_add64 a d : at_i64 (at_add64 a d).
Proof. unfold at_i64, at_add64. pose proof (sext_range 64 (a + d)). change (64 - 1) with 63 in H. lia. Qed.

Definition at_op_i64 (o : at_op) : Prop :=
  match o with AtAdd f | AtRemove f | AtHas f => at_i64 f | AtAddIf d _ => at_i64 d end.

(* the word stays an int64 value (so comparing Z values in the CAS is comparing int64 values) *)
Theorem at_word_range w progs sched :
  Forall (Forall at_op_i64) progs -> at_i64 w ->
  Forall at_i64 (at_values (at_init w progs) sched).
Proof.
  intros Hp Hw. apply at_preserves; [|exact Hw].
  eapply Forall_impl; [|exact Hp]. intros p Hpp. eapply Forall_impl; [|exact Hpp].
  intros o Ho. destruct o; cbn [at_op_i64 at_op_preserves] in *; auto; intros.
  - apply at_range_lor; assumption.
  - apply at_range_land; [assumption|apply at_range_lnot; assumption].
  - apply at_range_add64.
Qed.

(* ------------------------------------------------------------------ a bit added and not removed is set *)

(* events after which the bits of f are still set if they were set before *)
Definition at_keeps (f : Z) (ev : at_event) : Prop :=
  match ev with
  | AEFlagEff false g => Z.land f g = 0
  | AEIfAdd _ _ => False
  | _ => True
  end.

Lemma at_land_lor_keep v g f : Z.land v f = f -> Z.land (Z.lor v g) f = f.
Proof.
  intros H. apply Z.bits_inj'. intros n Hn.
  assert (Hb : Z.testbit (Z.land v f) n = Z.testbit f n) by (rewrite H; reflexivity).
  rewrite Z.land_spec in *. rewrite Z.lor_spec.
  destruct (Z.testbit v n), (Z.testbit g n), (Z.testbit f n); cbn in *; congruence.
Qed.

Lemma at_land_clear_keep v g f : Z.land f g = 0 -> Z.land v f = f -> Z.land (Z.land v (Z.lnot g)) f = f.
Proof.
  intros Hd H. apply Z.bits_inj'. intros n Hn.
  assert (Hb : Z.testbit (Z.land v f) n = Z.testbit f n) by (rewrite H; reflexivity).
  assert (Hc : Z.testbit (Z.land f g) n = false) by (rewrite Hd; apply Z.bits_0).
  rewrite !Z.land_spec in *. rewrite Z.lnot_spec by exact Hn.
  destruct (Z.testbit v n), (Z.testbit g n), (Z.testbit f n); cbn in *; congruence.
Qed.

Lemma at_lor_sets v f : Z.land (Z.lor v f) f = f.
Proof.
  apply Z.bits_inj'. intros n Hn. rewrite Z.land_spec, Z.lor_spec.
  destruct (Z.testbit v n), (Z.testbit f n); reflexivity.
Qed.

Lemma at_apply_trace_app v tr1 tr2 :
  at_apply_trace v (tr1 ++ tr2) =
  match at_apply_trace v tr1 with Some v1 => at_apply_trace v1 tr2 | None => None end.
Proof.
  revert v. induction tr1 as [|[i ev] r IH]; intros v; cbn [app at_apply_trace]; [reflexivity|].
  destruct (at_apply_ev v ev); [apply IH|reflexivity].
Qed.

Lemma at_apply_keeps f tr : forall v v',
  Forall (fun e => at_keeps f (snd e)) tr -> Z.land v f = f ->
  at_apply_trace v tr = Some v' -> Z.land v' f = f.
Proof.
  induction tr as [|[i ev] r IH]; intros v v' Hk Hv H; cbn [at_apply_trace] in H.
  - inversion H; subst. exact Hv.
  - inversion Hk as [|? ? Hk1 Hk2]; subst. cbn [snd] in Hk1.
    destruct (at_apply_ev v ev) as [v1|] eqn:E; [|discriminate].
    apply (IH v1 v' Hk2); [|exact H].
    destruct ev as [o| | |add g|g b|d p|p|]; cbn [at_apply_ev at_keeps] in *;
      try (inversion E; subst; exact Hv).
    + inversion E; subst. destruct add; cbn [at_flag_next].
      * apply at_land_lor_keep. exact Hv.
      * apply at_land_clear_keep; assumption.
    + destruct (Bool.eqb b (at_has v g)); inversion E; subst. exact Hv.
    + contradiction.
    + destruct (p v); inversion E; subst. exact Hv.
Qed.

(* if some AddFlag f completed (its effect event is in the trace) and no later event removes a
   bit of f (or adds an integer to the word), then all bits of f are set in the final word;
   f is arbitrary: any of the 64 positions, bit 63 (negative f) and multi-bit masks included *)
Theorem at_added_bit_stays w progs sched tr1 j f tr2 :
  at_trace (at_init w progs) sched = tr1 ++ (j, AEFlagEff true f) :: tr2 ->
  Forall (fun e => at_keeps f (snd e)) tr2 ->
  Z.land (at_word (at_final (at_init w progs) sched)) f = f.
Proof.
  intros Ht Hk. pose proof (at_refines_atomic w progs sched) as H.
  rewrite Ht, at_apply_trace_app in H.
  destruct (at_apply_trace w tr1) as [v1|]; [|discriminate].
  cbn [at_apply_trace at_apply_ev at_flag_next] in H.
  eapply at_apply_keeps; [exact Hk| |exact H]. apply at_lor_sets.
Qed.

(* symmetric: a removed bit that nobody adds again is clear *)
Definition at_keeps_clear (f : Z) (ev : at_event) : Prop :=
  match ev with
  | AEFlagEff true g => Z.land f g = 0
  | AEIfAdd _ _ => False
  | _ => True
  end.

Lemma at_apply_keeps_clear f tr : forall v v',
  Forall (fun e => at_keeps_clear f (snd e)) tr -> Z.land v f = 0 ->
  at_apply_trace v tr = Some v' -> Z.land v' f = 0.
Proof.
  induction tr as [|[i ev] r IH]; intros v v' Hk Hv H; cbn [at_apply_trace] in H.
  - inversion H; subst. exact Hv.
  - inversion Hk as [|? ? Hk1 Hk2]; subst. cbn [snd] in Hk1.
    destruct (at_apply_ev v ev) as [v1|] eqn:E; [|discriminate].
    apply (IH v1 v' Hk2); [|exact H].
    destruct ev as [o| | |add g|g b|d p|p|]; cbn [at_apply_ev at_keeps_clear] in *;
      try (inversion E; subst; exact Hv).
    + inversion E; subst. destruct add; cbn [at_flag_next].
      * apply Z.bits_inj'. intros n Hn.
        assert (Hb : Z.testbit (Z.land v f) n = false) by (rewrite Hv; apply Z.bits_0).
        assert (Hc : Z.testbit (Z.land f g) n = false) by (rewrite Hk1; apply Z.bits_0).
        rewrite !Z.land_spec in *. rewrite Z.lor_spec, Z.bits_0.
        destruct (Z.testbit v n), (Z.testbit g n), (Z.testbit f n); cbn in *; congruence.
      * apply Z.bits_inj'. intros n Hn.
        assert (Hb : Z.testbit (Z.land v f) n = false) by (rewrite Hv; apply Z.bits_0).
        rewrite !Z.land_spec in *. rewrite Z.bits_0.
        destruct (Z.testbit v n), (Z.testbit (Z.lnot g) n), (Z.testbit f n); cbn in *; congruence.
    + destruct (Bool.eqb b (at_has v g)); inversion E; subst. exact Hv.
    + contradiction.
    + destruct (p v); inversion E; subst. exact Hv.
Qed.

Theorem at_removed_bit_stays w progs sched tr1 j f tr2 :
  at_trace (at_init w progs) sched = tr1 ++ (j, AEFlagEff false f) :: tr2 ->
  Forall (fun e => at_keeps_clear f (snd e)) tr2 ->
  Z.land (at_word (at_final (at_init w progs) sched)) f = 0.
Proof.
  intros Ht Hk. pose proof (at_refines_atomic w progs sched) as H.
  rewrite Ht, at_apply_trace_app in H.
  destruct (at_apply_trace w tr1) as [v1|]; [|discriminate].
  cbn [at_apply_trace at_apply_ev at_flag_next] in H.
  eapply at_apply_keeps_clear; [exact Hk| |exact H].
  apply Z.bits_inj'. intros n Hn. rewrite !Z.land_spec, Z.lnot_spec, Z.bits_0 by exact Hn.
  destruct (Z.testbit v1 n), (Z.testbit f n); reflexivity.
Qed.

(* every step from every reachable state is a legal atomic update of the current value *)
Theorem at_step_atomic_reachable w progs sched i :
  let s := at_final (at_init w progs) sched in
  at_apply_ev (at_word s) (snd (at_step s i)) = Some (at_word (fst (at_step s i))).
Proof. cbn zeta. apply at_step_abs. apply at_run_inv. apply at_init_inv. Qed.
