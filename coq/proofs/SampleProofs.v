(* SampleProofs.v -- lemmas about models/Sample.v (randx.WeightedSampling). *)
From Got Require Import Base Heap HeapProofs Sample.
Require Import Permutation.
Local Open Scope Z_scope.

Lemma smp_asym : hp_asym smp_less.
Proof. intros x y H. unfold smp_less in *. lia. Qed.

Lemma smp_negtrans : hp_negtrans smp_less.
Proof. intros x y z H1 H2. unfold smp_less in *. lia. Qed.

Definition smp_mk (key : nat -> Z) (j : nat) : smp_item :=
  {| smp_key := key j; smp_idx := Z.of_nat j |}.

Definition smp_items (key : nat -> Z) (i : nat) : list smp_item := map (smp_mk key) (seq 0 i).

Lemma smp_items_S key i : smp_items key (S i) = smp_items key i ++ [smp_mk key i].
Proof. unfold smp_items. rewrite seq_S, map_app. reflexivity. Qed.

Lemma smp_items_length key i : length (smp_items key i) = i.
Proof. unfold smp_items. rewrite map_length, seq_length. reflexivity. Qed.

(* loop invariant after the iterations 0 .. i-1: the heap holds min(i,k) of the items seen,
   every item seen and not in the heap ("dropped") has a key <= every key in the heap *)
Definition smp_inv (k : nat) (key : nat -> Z) (i : nat) (h dropped : list smp_item) : Prop :=
  hp_heap smp_less h /\
  length h = Nat.min i k /\
  Permutation (h ++ dropped) (smp_items key i) /\
  (forall d x, In d dropped -> In x h -> smp_key d <= smp_key x).

Lemma smp_step_spec k key i h dropped :
  (1 <= k)%nat -> smp_inv k key i h dropped ->
  exists h' dropped', smp_step k (key i) i h = HpOk h' /\ smp_inv k key (S i) h' dropped'.
Proof.
  intros Hk (Hh & Hlen & Hperm & Hord).
  assert (Hl : (length h + length dropped = i)%nat).
  { rewrite <- app_length, (Permutation_length Hperm). apply smp_items_length. }
  unfold smp_step. fold (smp_mk key i).
  destruct (Nat.ltb_spec (length h) k) as [Hlt | Hge].
  - (* heap not yet full *)
    destruct (hp_push_spec smp_less smp_asym smp_negtrans h (smp_mk key i) Hh)
      as (h' & Hr & Hh' & Hp' & Hl').
    exists h', dropped. split; [exact Hr|].
    assert (dropped = []) by (destruct dropped; [reflexivity|cbn in Hl; lia]). subst dropped.
    split; [exact Hh'|]. split; [lia|]. split.
    + rewrite app_nil_r in *. rewrite smp_items_S.
      eapply perm_trans; [exact Hp'|].
      eapply perm_trans; [apply perm_skip; exact Hperm|]. apply Permutation_cons_append.
    + intros d x [].
  - assert (Hlk : length h = k) by lia.
    destruct h as [|top t] eqn:Eh; [cbn in Hlk; lia|]. rewrite <- Eh in *.
    assert (Htop : hp_top h = Some top) by (rewrite Eh; reflexivity).
    unfold hp_top in Htop. rewrite Htop.
    pose proof (hp_top_min smp_less smp_asym smp_negtrans h top Hh Htop) as Hmin.
    destruct (Z.ltb_spec (smp_key top) (key i)) as [Hgt | Hle].
    + (* replace: push then pop the minimum *)
      destruct (hp_push_spec smp_less smp_asym smp_negtrans h (smp_mk key i) Hh)
        as (h1 & Hr1 & Hh1 & Hp1 & Hl1).
      rewrite Hr1.
      destruct (Nat.ltb_spec k (length h1)) as [_ | Hc]; [|lia].
      destruct (hp_pop_spec smp_less smp_asym smp_negtrans h1 Hh1) as (m & h2 & Hr2 & Hh2 & Hp2 & Hl2 & _ & Hm).
      { intros ->. cbn in Hl1. lia. }
      rewrite Hr2. exists h2, (m :: dropped). split; [reflexivity|].
      split; [exact Hh2|]. split; [lia|]. split.
      * rewrite smp_items_S.
        eapply perm_trans; [apply Permutation_sym, Permutation_middle|].
        change (m :: h2 ++ dropped) with ((m :: h2) ++ dropped).
        eapply perm_trans; [apply Permutation_app_tail, Permutation_sym, Hp2|].
        eapply perm_trans; [apply Permutation_app_tail, Hp1|].
        cbn. eapply perm_trans; [apply perm_skip; exact Hperm|]. apply Permutation_cons_append.
      * intros d x Hd Hx.
        assert (Hx1 : In x h1).
        { apply (Permutation_in x (Permutation_sym Hp2)). right. exact Hx. }
        destruct Hd as [<- | Hd].
        -- specialize (Hm x Hx1). unfold smp_less in Hm. lia.
        -- apply (Permutation_in x Hp1) in Hx1. destruct Hx1 as [<- | Hx1].
           ++ cbn. assert (In top h) by (rewrite Eh; left; reflexivity).
              specialize (Hord d top Hd H). lia.
           ++ apply Hord; assumption.
    + (* not larger than the current minimum: dropped *)
      exists h, (smp_mk key i :: dropped). split; [reflexivity|].
      split; [exact Hh|]. split; [lia|]. split.
      * rewrite smp_items_S.
        eapply perm_trans; [apply Permutation_sym, Permutation_middle|].
        eapply perm_trans; [apply perm_skip; exact Hperm|]. apply Permutation_cons_append.
      * intros d x Hd Hx. destruct Hd as [<- | Hd]; [|apply Hord; assumption].
        cbn. specialize (Hmin x Hx). unfold smp_less in Hmin. lia.
Qed.

Lemma smp_loop_spec k key : forall cnt i h dropped,
  (1 <= k)%nat -> smp_inv k key i h dropped ->
  exists h' dropped', smp_loop k key cnt i h = HpOk h' /\ smp_inv k key (i + cnt) h' dropped'.
Proof.
  induction cnt as [|c IH]; intros i h dropped Hk Hinv.
  - exists h, dropped. rewrite Nat.add_0_r. split; [reflexivity|exact Hinv].
  - cbn [smp_loop].
    destruct (smp_step_spec k key i h dropped Hk Hinv) as (h1 & d1 & Hr & Hinv1).
    rewrite Hr. destruct (IH (S i) h1 d1 Hk Hinv1) as (h' & d' & Hr' & Hinv').
    exists h', d'. split; [exact Hr'|]. replace (i + S c)%nat with (S i + c)%nat by lia. exact Hinv'.
Qed.

Lemma smp_inv_init k key : smp_inv k key 0 [] [].
Proof.
  split; [apply hp_heap_nil|]. split; [reflexivity|]. split; [apply perm_nil|]. intros d x [].
Qed.

Lemma smp_skipn_nth (h : list smp_item) : forall i it,
  nth_error h i = Some it -> skipn i h = it :: skipn (S i) h.
Proof.
  induction h as [|a t IH]; intros [|i] it H; cbn in H; try discriminate.
  - injection H as ->. reflexivity.
  - cbn [skipn]. rewrite (IH i it H). reflexivity.
Qed.

Lemma smp_results_ok (h : list smp_item) : forall cnt i,
  (i + cnt <= length h)%nat ->
  smp_results h i cnt = HpOk (map smp_idx (firstn cnt (skipn i h))).
Proof.
  induction cnt as [|c IH]; intros i Hl; [reflexivity|].
  cbn [smp_results].
  destruct (nth_error h i) as [it|] eqn:E; [|apply nth_error_None in E; lia].
  rewrite IH by lia. rewrite (smp_skipn_nth h i it E). reflexivity.
Qed.

Lemma smp_results_all (h : list smp_item) :
  smp_results h 0 (length h) = HpOk (map smp_idx h).
Proof. rewrite smp_results_ok by lia. cbn [skipn]. rewrite firstn_all. reflexivity. Qed.

Lemma smp_idx_items key n : map smp_idx (smp_items key n) = map Z.of_nat (seq 0 n).
Proof. unfold smp_items. rewrite map_map. reflexivity. Qed.

Lemma smp_nodup_indices n : NoDup (map Z.of_nat (seq 0 n)).
Proof. apply FinFun.Injective_map_NoDup; [exact Nat2Z.inj|apply seq_NoDup]. Qed.

Lemma smp_nodup_app_l (a b : list Z) : NoDup (a ++ b) -> NoDup a.
Proof.
  induction a as [|x a IH]; intros H; [constructor|].
  cbn in H. inversion H as [|? ? Hn Hd]. subst. constructor.
  - intros Hx. apply Hn. apply in_or_app. left. exact Hx.
  - apply IH. exact Hd.
Qed.

(* the full functional specification of the fixed code *)
Definition smp_spec (k n : Z) (key : nat -> Z) (r : list Z) : Prop :=
  Z.of_nat (length r) = k /\
  Forall (fun x => 0 <= x < n) r /\
  NoDup r /\
  (k = n -> Permutation r (map Z.of_nat (seq 0 (Z.to_nat n)))) /\
  (forall i j, In i r -> 0 <= j < n -> ~ In j r -> key (Z.to_nat j) <= key (Z.to_nat i)).

Lemma smp_sample_spec (k n : Z) (key : nat -> Z) :
  1 <= k <= n ->
  exists r, smp_sample SmpEmpty k n key = HpOk r /\ smp_spec k n key r.
Proof.
  intros Hkn. unfold smp_sample.
  destruct (Z.ltb_spec n k); [lia|]. destruct (Z.leb_spec n 0); [lia|]. cbn [orb].
  destruct (Z.ltb_spec k 0); [lia|].
  destruct (smp_loop_spec (Z.to_nat k) key (Z.to_nat n) 0 [] [] ltac:(lia) (smp_inv_init _ key))
    as (h & dropped & Hr & Hh & Hlen & Hperm & Hord).
  rewrite Hr. cbn [Nat.add] in *.
  assert (Hlk : length h = Z.to_nat k) by lia.
  rewrite <- Hlk, smp_results_all. exists (map smp_idx h). split; [reflexivity|].
  assert (Hl : (length h + length dropped = Z.to_nat n)%nat).
  { rewrite <- app_length, (Permutation_length Hperm). apply smp_items_length. }
  assert (Hpi : Permutation (map smp_idx h ++ map smp_idx dropped) (map Z.of_nat (seq 0 (Z.to_nat n)))).
  { rewrite <- map_app, <- (smp_idx_items key). apply Permutation_map. exact Hperm. }
  assert (Hnd : NoDup (map smp_idx h ++ map smp_idx dropped)).
  { apply (Permutation_NoDup (Permutation_sym Hpi)). apply smp_nodup_indices. }
  assert (Hkey : forall x, In x (h ++ dropped) -> smp_key x = key (Z.to_nat (smp_idx x))).
  { intros x Hx. apply (Permutation_in x Hperm) in Hx. unfold smp_items in Hx.
    apply in_map_iff in Hx. destruct Hx as (j & <- & _). cbn. rewrite Nat2Z.id. reflexivity. }
  unfold smp_spec. split; [rewrite map_length; lia|]. split.
  { apply Forall_forall. intros x Hx.
    assert (Hx' : In x (map Z.of_nat (seq 0 (Z.to_nat n)))).
    { apply (Permutation_in x Hpi). apply in_or_app. left. exact Hx. }
    apply in_map_iff in Hx'. destruct Hx' as (j & <- & Hj). apply in_seq in Hj. lia. }
  split.
  { exact (smp_nodup_app_l _ _ Hnd). }
  split.
  { intros ->. assert (dropped = []) by (destruct dropped; [reflexivity|cbn in Hl; lia]). subst dropped.
    cbn in Hpi. rewrite app_nil_r in Hpi. exact Hpi. }
  intros i j Hi Hj Hnj.
  apply in_map_iff in Hi. destruct Hi as (x & <- & Hx).
  assert (Hjs : In j (map Z.of_nat (seq 0 (Z.to_nat n)))).
  { apply in_map_iff. exists (Z.to_nat j). split; [lia|]. apply in_seq. lia. }
  apply (Permutation_in j (Permutation_sym Hpi)) in Hjs. apply in_app_or in Hjs.
  destruct Hjs as [Hjs | Hjs]; [contradiction|].
  apply in_map_iff in Hjs. destruct Hjs as (dd & <- & Hd).
  rewrite <- (Hkey dd) by (apply in_or_app; right; exact Hd).
  rewrite <- (Hkey x) by (apply in_or_app; left; exact Hx).
  apply Hord; assumption.
Qed.

Lemma smp_sample_length k n key :
  1 <= k <= n -> exists r, smp_sample SmpEmpty k n key = HpOk r /\ Z.of_nat (length r) = k.
Proof. intros H. destruct (smp_sample_spec k n key H) as (r & Hr & H1 & _). eauto. Qed.

Lemma smp_sample_in_range k n key r :
  1 <= k <= n -> smp_sample SmpEmpty k n key = HpOk r -> Forall (fun x => 0 <= x < n) r.
Proof.
  intros H Hr. destruct (smp_sample_spec k n key H) as (r' & Hr' & _ & H2 & _).
  rewrite Hr in Hr'. injection Hr' as <-. exact H2.
Qed.

Lemma smp_sample_distinct k n key r :
  1 <= k <= n -> smp_sample SmpEmpty k n key = HpOk r -> NoDup r.
Proof.
  intros H Hr. destruct (smp_sample_spec k n key H) as (r' & Hr' & _ & _ & H3 & _).
  rewrite Hr in Hr'. injection Hr' as <-. exact H3.
Qed.

Lemma smp_sample_perm_when_all n key r :
  1 <= n -> smp_sample SmpEmpty n n key = HpOk r ->
  Permutation r (map Z.of_nat (seq 0 (Z.to_nat n))).
Proof.
  intros H Hr. destruct (smp_sample_spec n n key ltac:(lia)) as (r' & Hr' & _ & _ & _ & H4 & _).
  rewrite Hr in Hr'. injection Hr' as <-. apply H4. reflexivity.
Qed.

Lemma smp_sample_topk k n key r :
  1 <= k <= n -> smp_sample SmpEmpty k n key = HpOk r ->
  forall i j, In i r -> 0 <= j < n -> ~ In j r -> key (Z.to_nat j) <= key (Z.to_nat i).
Proof.
  intros H Hr. destruct (smp_sample_spec k n key H) as (r' & Hr' & _ & _ & _ & _ & H5).
  rewrite Hr in Hr'. injection Hr' as <-. exact H5.
Qed.

Lemma smp_sample_k1_argmax n key :
  1 <= n ->
  exists i, smp_sample SmpEmpty 1 n key = HpOk [i] /\ 0 <= i < n /\
            forall j, 0 <= j < n -> key (Z.to_nat j) <= key (Z.to_nat i).
Proof.
  intros H. destruct (smp_sample_spec 1 n key ltac:(lia)) as (r & Hr & H1 & H2 & _ & _ & H5).
  destruct r as [|i [|? ?]]; cbn in H1; try lia.
  exists i. split; [exact Hr|]. split; [inversion H2; assumption|].
  intros j Hj. destruct (Z.eq_dec j i) as [-> | Hne]; [lia|].
  apply H5; [left; reflexivity|exact Hj|]. intros [E | []]. congruence.
Qed.

(* with sampleNum = 1 the FIRST index attaining the maximal key is returned *)
Lemma smp_push1 (a b : smp_item) :
  smp_less b a = false -> hp_push smp_less [a] b = HpOk [a; b].
Proof. intros H. unfold hp_push. cbn. rewrite H. reflexivity. Qed.

Lemma smp_pop2 (a b : smp_item) : hp_pop smp_less [a; b] = HpOk ([b], a).
Proof. reflexivity. Qed.

Lemma smp_step_k1 ki i a :
  smp_step 1 ki i [a] =
  if smp_key a <? ki then HpOk [{| smp_key := ki; smp_idx := Z.of_nat i |}] else HpOk [a].
Proof.
  unfold smp_step. cbn [length Nat.ltb Nat.leb nth_error].
  destruct (Z.ltb_spec (smp_key a) ki) as [Hlt | Hge]; [|reflexivity].
  rewrite smp_push1 by (unfold smp_less; cbn; lia).
  cbn [length Nat.ltb Nat.leb]. rewrite smp_pop2. reflexivity.
Qed.

Lemma smp_loop_k1 key : forall cnt i b,
  (b < i)%nat ->
  (forall j, (j < i)%nat -> key j <= key b) ->
  (forall j, (j < b)%nat -> key j < key b) ->
  exists b', smp_loop 1 key cnt i [smp_mk key b] = HpOk [smp_mk key b'] /\
             (b' < i + cnt)%nat /\
             (forall j, (j < i + cnt)%nat -> key j <= key b') /\
             (forall j, (j < b')%nat -> key j < key b').
Proof.
  induction cnt as [|c IH]; intros i b Hb Hmax Hfirst.
  - exists b. rewrite Nat.add_0_r. split; [reflexivity|]. auto.
  - cbn [smp_loop]. rewrite smp_step_k1. cbn [smp_mk smp_key].
    destruct (Z.ltb_spec (key b) (key i)) as [Hlt | Hge].
    + destruct (IH (S i) i) as (b' & Hr & H1 & H2 & H3).
      * lia.
      * intros j Hj. destruct (Nat.eq_dec j i) as [-> | ?]; [lia|]. specialize (Hmax j ltac:(lia)). lia.
      * intros j Hj. specialize (Hmax j Hj). lia.
      * exists b'. replace (i + S c)%nat with (S i + c)%nat by lia. auto.
    + destruct (IH (S i) b) as (b' & Hr & H1 & H2 & H3).
      * lia.
      * intros j Hj. destruct (Nat.eq_dec j i) as [-> | ?]; [lia|]. apply Hmax. lia.
      * exact Hfirst.
      * exists b'. replace (i + S c)%nat with (S i + c)%nat by lia. auto.
Qed.

Lemma smp_sample_k1_first_argmax n key :
  1 <= n ->
  exists b, smp_sample SmpEmpty 1 n key = HpOk [Z.of_nat b] /\ (b < Z.to_nat n)%nat /\
            (forall j, (j < Z.to_nat n)%nat -> key j <= key b) /\
            (forall j, (j < b)%nat -> key j < key b).
Proof.
  intros H. unfold smp_sample.
  destruct (Z.ltb_spec n 1); [lia|]. destruct (Z.leb_spec n 0); [lia|]. cbn [orb Z.ltb Z.compare].
  change (Z.to_nat 1) with 1%nat.
  destruct (Z.to_nat n) as [|c] eqn:En; [lia|].
  cbn [smp_loop]. unfold smp_step at 1. cbn [length Nat.ltb Nat.leb].
  assert (E : hp_push smp_less [] {| smp_key := key 0%nat; smp_idx := Z.of_nat 0 |} = HpOk [smp_mk key 0]).
  { reflexivity. }
  rewrite E.
  destruct (smp_loop_k1 key c 1 0) as (b & Hr & Hb1 & Hb2 & Hb3).
  - lia.
  - intros j Hj. assert (j = 0)%nat by lia. subst. lia.
  - intros j Hj. lia.
  - rewrite Hr. exists b. cbn. split; [reflexivity|]. split; [lia|]. split; [|exact Hb3].
    intros j Hj. apply Hb2. lia.
Qed.

(* argument validation and run-time panics *)
Lemma smp_sample_panics_iff k n key :
  smp_sample SmpEmpty k n key = HpPanic <-> (n < k \/ n <= 0 \/ k <= 0).
Proof.
  split.
  - intros Hp. destruct (Z_lt_ge_dec n k); [lia|]. destruct (Z_le_gt_dec n 0); [lia|].
    destruct (Z_le_gt_dec k 0); [lia|].
    destruct (smp_sample_spec k n key ltac:(lia)) as (r & Hr & _). congruence.
  - intros H. unfold smp_sample.
    destruct (Z.ltb_spec n k); [reflexivity|]. destruct (Z.leb_spec n 0); [reflexivity|]. cbn [orb].
    destruct (Z.ltb_spec k 0); [reflexivity|].
    assert (k = 0) by lia. subst k. cbn [Z.to_nat].
    destruct (Z.to_nat n) as [|c] eqn:En; [lia|]. reflexivity.
Qed.

Lemma smp_sample_no_fuel_exhaustion k n key : smp_sample SmpEmpty k n key <> HpNoFuel.
Proof.
  destruct (Z_lt_ge_dec n k) as [H1|H1]; [|destruct (Z_le_gt_dec n 0) as [H2|H2]; [|destruct (Z_le_gt_dec k 0) as [H3|H3]]].
  - rewrite (proj2 (smp_sample_panics_iff k n key)) by lia. discriminate.
  - rewrite (proj2 (smp_sample_panics_iff k n key)) by lia. discriminate.
  - rewrite (proj2 (smp_sample_panics_iff k n key)) by lia. discriminate.
  - destruct (smp_sample_spec k n key ltac:(lia)) as (r & Hr & _). congruence.
Qed.

(* the code before commit 5cca028: placeholders survive, index 0 is returned twice *)
Lemma smp_sample_orig_refuted :
  exists k n key r, 1 <= k <= n /\ smp_sample SmpPrefilled k n key = HpOk r /\ ~ NoDup r.
Proof.
  exists 3, 7, (fun _ => 0), [0; 0; 0]. split; [lia|]. split; [vm_compute; reflexivity|].
  intros H. inversion H as [|? ? Hn _]. apply Hn. left. reflexivity.
Qed.

(* a second witness with pairwise distinct keys: the placeholder key 0 is the largest *)
Lemma smp_sample_orig_refuted_distinct_keys :
  smp_sample_list SmpPrefilled 2 3 [-3; -1; -2] = HpOk [0; 0] /\
  smp_sample_list SmpEmpty 2 3 [-3; -1; -2] = HpOk [2; 1].
Proof. split; vm_compute; reflexivity. Qed.

Lemma smp_example :
  smp_sample_list SmpEmpty 3 7 [5; 1; 5; 9; 0; 5; 2] = HpOk [0; 3; 2].
Proof. vm_compute. reflexivity. Qed.
