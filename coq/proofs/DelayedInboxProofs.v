(* proofs about models/DelayedInbox.v *)
From Got Require Import Base Delayed DelayedProofs DelayedInbox.
From Coq Require Import Sorting.Sorted.
Local Open Scope Z_scope.

Lemma dli_timely_recvs seen l rest :
  dl_timely seen (map DlRecv l ++ rest) = forallb (fun t => seen <? dl_trig t) l && dl_timely seen rest.
Proof.
  induction l as [|t l IH]; [reflexivity|]. cbn [map app dl_timely forallb]. rewrite IH. rewrite andb_assoc. reflexivity.
Qed.

(* sent before the tick => received before the tick, for the code that takes the channel in first *)
Lemma dli_expand_timely : forall evs inbox seen,
  forallb (fun t => seen <? dl_trig t) inbox = true ->
  dli_sends_timely seen evs = true ->
  dl_timely seen (dli_expand DliFixed inbox evs) = true.
Proof.
  induction evs as [|e evs IH]; intros inbox seen Hib Hs; [reflexivity|].
  destruct e as [t| |now|q now|q now]; cbn [dli_expand dli_sends_timely] in *.
  - apply andb_true_iff in Hs. destruct Hs as [Ht Hs]. apply IH; [|exact Hs].
    rewrite forallb_app. cbn [forallb]. rewrite Hib, Ht. reflexivity.
  - destruct inbox as [|t ib]; [apply IH; [reflexivity|exact Hs]|].
    cbn [forallb] in Hib. apply andb_true_iff in Hib. destruct Hib as [Ht Hib].
    cbn [dl_timely]. rewrite Ht. cbn [andb]. apply IH; assumption.
  - rewrite dli_timely_recvs. rewrite Hib. cbn [andb dl_timely]. apply IH; [reflexivity|exact Hs].
  - cbn [dl_timely]. apply IH; assumption.
  - cbn [dl_timely]. apply IH; assumption.
Qed.

Lemma dli_sent_before_tick_timely t0 evs :
  dli_sends_timely t0 evs = true -> dl_timely t0 (dli_expand DliFixed [] evs) = true.
Proof. intros H. apply dli_expand_timely; [reflexivity|exact H]. Qed.

Section Generic.
Variable I : dl_pq_impl.
Variable inv : pq_t I -> Prop.
Hypothesis OK : dl_pq_ok I inv.

(* less than one tick late, stated for what the CALLER controls: the task was handed over (SendDelayed
   returned) before any tick that had reached its deadline *)
Lemma dli_less_than_one_tick_late : forall caps P t0 evs sf outs t a,
  let h := dli_expand DliFixed [] evs in
  dl_run I (dl_init I caps) h = Some (sf, outs) ->
  dl_roomy I (dl_init I caps) h = true -> dl_spaced P t0 h = true -> dli_sends_timely t0 evs = true ->
  In (DlPlaced t a) outs -> a - dl_trig t < P.
Proof.
  intros caps P t0 evs sf outs t a h Hr Hro Hsp Hs Hin.
  eapply (dl_less_than_one_tick_late I inv OK); eauto. apply dli_sent_before_tick_timely. exact Hs.
Qed.

Lemma dli_release_sorted : forall caps t0 evs sf outs,
  dl_run I (dl_init I caps) (dli_expand DliFixed [] evs) = Some (sf, outs) -> dli_sends_timely t0 evs = true ->
  StronglySorted dl_le (dl_forwarded outs).
Proof.
  intros caps t0 evs sf outs Hr Hs. eapply (dl_release_sorted I inv OK); eauto. apply dli_sent_before_tick_timely. exact Hs.
Qed.
End Generic.

(* the code before a5a97ba: the task (deadline 5) is handed over before the tick at 10, the select takes the
   ticker first: the task is released by the tick at 20, 15 after its deadline with ticks 10 apart; the same
   inbox-level history on the fixed code releases it at 10 *)
Lemma dli_orig_refuted :
  let t := {| dl_id := 1; dl_trig := 5; dl_q := 0 |} in
  let evs := [DliSend t; DliTick 10; DliRecv; DliTick 20] in
  dli_sends_timely 0 evs = true /\
  (exists sf, dli_run_sorted DliOrig [(0, 4%nat)] evs = Some (sf, [DlPlaced t 20])) /\
  (exists sf, dli_run_sorted DliFixed [(0, 4%nat)] evs = Some (sf, [DlPlaced t 10])) /\
  dl_spaced 10 0 (dli_expand DliOrig [] evs) = true /\ ~ (20 - dl_trig t < 10).
Proof.
  cbn zeta. split; [reflexivity|]. split; [eexists; vm_compute; reflexivity|]. split; [eexists; vm_compute; reflexivity|].
  split; [reflexivity|]. cbn. lia.
Qed.
