(* HeapProofs.v -- lemmas about lib/Heap.v (container/heap model).
   Main results (Section HeapOps; all for every element type A and every
   less : A -> A -> bool with hp_asym less and hp_negtrans less):
     hp_heap_nil      the empty list is a heap
     hp_push_spec     Push on a heap: HpOk l', heap, Permutation l' (x :: l), length + 1
     hp_pop_spec      Pop on a non-empty heap: HpOk (l', m), heap, Permutation l (m :: l'),
                      length - 1, m = element 0 = a minimum (no y in l with less y m)
     hp_pop_empty     Pop on [] = HpPanic
     hp_top_min       element 0 of a heap is a minimum
     hp_init_spec     Init on ANY list: HpOk l', heap, permutation, same length
     hp_fix_spec      Fix after overwriting element i (i valid) of a heap
     hp_remove_spec   Remove(i), i valid: returns element i, rest is a heap, permutation
     hp_apply_basic_spec / hp_run_basic_spec / hp_run_basic_panic
                      sequences of Push/Pop/Top: no panic unless Pop on empty, invariant,
                      multiset (final ++ popped ~ initial ++ pushed), exact length
     hp_apply_spec / hp_run_spec
                      sequences of all five calls: HpOk iff every call valid, else HpPanic;
                      never HpNoFuel; invariant kept *)
From Got Require Import Base Heap.
Require Import Permutation.
Local Open Scope nat_scope.

Section HeapProofs.
  Context {A : Type}.
  Variable less : A -> A -> bool.
  Hypothesis Hasym : hp_asym less.
  Hypothesis Hnt : hp_negtrans less.

  Local Notation le x y := (less y x = false).

  Lemma hp_le_refl x : le x x.
  Proof. destruct (less x x) eqn:E; [|reflexivity]. rewrite (Hasym _ _ E) in E. discriminate. Qed.

  Lemma hp_le_trans x y z : le x y -> le y z -> le x z.
  Proof. intros H1 H2. exact (Hnt x y z H1 H2). Qed.

  Lemma hp_lt_le x y : less x y = true -> le x y.
  Proof. apply Hasym. Qed.

  (* ---------------------------------------------------------------- set / swap *)
  Lemma hp_set_length (l : list A) i v : length (hp_set l i v) = length l.
  Proof. revert i; induction l as [|h t IH]; intros [|i]; cbn; auto. Qed.

  Lemma hp_set_nth_error (l : list A) i v k :
    i < length l ->
    nth_error (hp_set l i v) k = if k =? i then Some v else nth_error l k.
  Proof.
    revert i k; induction l as [|h t IH]; intros i k Hi; cbn in Hi; [lia|].
    destruct i as [|i]; destruct k as [|k]; cbn; auto.
    rewrite IH by lia. reflexivity.
  Qed.

  Lemma hp_set_perm (l : list A) i v x :
    nth_error l i = Some x -> Permutation (v :: l) (x :: hp_set l i v).
  Proof.
    revert i; induction l as [|h t IH]; intros [|i] H; cbn in H; try discriminate.
    - injection H as ->. cbn. apply perm_swap.
    - cbn. specialize (IH _ H).
      eapply perm_trans; [apply perm_swap|].
      eapply perm_trans; [apply perm_skip, IH|]. apply perm_swap.
  Qed.

  Lemma hp_swap_some (l : list A) i j :
    i < length l -> j < length l -> exists l', hp_swap l i j = Some l'.
  Proof.
    intros Hi Hj. unfold hp_swap.
    destruct (nth_error l i) eqn:Ei; [|apply nth_error_None in Ei; lia].
    destruct (nth_error l j) eqn:Ej; [|apply nth_error_None in Ej; lia].
    eauto.
  Qed.

  Lemma hp_swap_spec (l l' : list A) i j :
    hp_swap l i j = Some l' ->
    i < length l /\ j < length l /\ length l' = length l /\ Permutation l l' /\
    forall k, nth_error l' k =
              if k =? j then nth_error l i else if k =? i then nth_error l j else nth_error l k.
  Proof.
    unfold hp_swap. intros H.
    destruct (nth_error l i) as [x|] eqn:Ei; [|discriminate].
    destruct (nth_error l j) as [y|] eqn:Ej; [|discriminate].
    injection H as <-.
    assert (Hi : i < length l) by (apply nth_error_Some; congruence).
    assert (Hj : j < length l) by (apply nth_error_Some; congruence).
    split; [exact Hi|]. split; [exact Hj|].
    split; [now rewrite !hp_set_length|].
    assert (Ej' : nth_error (hp_set l i y) j = Some y).
    { rewrite hp_set_nth_error by exact Hi. destruct (j =? i); [reflexivity|exact Ej]. }
    split.
    - apply Permutation_cons_inv with (a := y).
      eapply perm_trans; [apply (hp_set_perm l i y x Ei)|].
      apply (hp_set_perm (hp_set l i y) j x y Ej').
    - intros k. rewrite hp_set_nth_error by (rewrite hp_set_length; exact Hj).
      rewrite hp_set_nth_error by exact Hi.
      destruct (k =? j); [congruence|]. destruct (k =? i); [congruence|reflexivity].
  Qed.

  (* ---------------------------------------------------------------- default-based view *)
  Variable d : A.
  Local Notation get l k := (nth k l d).

  Lemma hp_nth_error_get (l : list A) k : k < length l -> nth_error l k = Some (get l k).
  Proof. intros H. apply nth_error_nth'. exact H. Qed.

  Lemma hp_less_get (l : list A) i j :
    i < length l -> j < length l -> hp_less less l i j = Some (less (get l i) (get l j)).
  Proof. intros Hi Hj. unfold hp_less. rewrite !hp_nth_error_get by assumption. reflexivity. Qed.

  Lemma hp_swap_get (l l' : list A) i j k :
    hp_swap l i j = Some l' ->
    get l' k = if k =? j then get l i else if k =? i then get l j else get l k.
  Proof.
    intros H. destruct (hp_swap_spec _ _ _ _ H) as (Hi & Hj & Hlen & _ & Hn).
    destruct (Nat.lt_ge_cases k (length l)) as [Hk | Hk].
    - assert (E : nth_error l' k = Some (get l' k)) by (apply hp_nth_error_get; lia).
      rewrite Hn in E.
      destruct (k =? j); [rewrite hp_nth_error_get in E by lia; congruence|].
      destruct (k =? i); rewrite hp_nth_error_get in E by lia; congruence.
    - destruct (Nat.eqb_spec k j); [lia|]. destruct (Nat.eqb_spec k i); [lia|].
      rewrite !nth_overflow by lia. reflexivity.
  Qed.

  Definition par (c : nat) : nat := (c - 1) / 2.

  (* heap on the prefix of length n, restricted to the pairs whose parent index is >= m *)
  Definition heap_from (m n : nat) (l : list A) : Prop :=
    forall c, 0 < c < n -> m <= par c -> le (get l (par c)) (get l c).

  (* heap on the prefix of length n *)
  Definition heap_upto (n : nat) (l : list A) : Prop :=
    forall c, 0 < c < n -> le (get l (par c)) (get l c).

  Lemma heap_from_0 n l : heap_from 0 n l <-> heap_upto n l.
  Proof. unfold heap_from, heap_upto. split; intros H c Hc; [apply H; lia|intros _; apply H; lia]. Qed.

  Lemma hp_heap_iff (l : list A) : hp_heap less l <-> heap_upto (length l) l.
  Proof.
    unfold hp_heap, heap_upto. split.
    - intros H c Hc. apply (H c); [lia| |]; apply hp_nth_error_get; unfold par.
      + lia.
      + assert ((c - 1) / 2 <= c - 1) by (apply Nat.div_le_upper_bound; lia). lia.
    - intros H c x p Hc Ex Ep.
      assert (Hlt : c < length l) by (apply nth_error_Some; congruence).
      specialize (H c ltac:(lia)). unfold par in H.
      apply nth_error_nth with (d := d) in Ex. apply nth_error_nth with (d := d) in Ep.
      congruence.
  Qed.

  Lemma par_lt c : 0 < c -> par c < c.
  Proof. intros H. unfold par. assert ((c - 1) / 2 <= c - 1) by (apply Nat.div_le_upper_bound; lia). lia. Qed.

  Lemma par_child c i : 0 < c -> (par c = i <-> c = 2 * i + 1 \/ c = 2 * i + 2).
  Proof.
    intros Hc. unfold par.
    pose proof (Nat.div_mod (c - 1) 2 ltac:(lia)) as Hd.
    pose proof (Nat.mod_upper_bound (c - 1) 2 ltac:(lia)) as Hm.
    split; intros H.
    - subst i. lia.
    - destruct H as [-> | ->].
      + replace (2 * i + 1 - 1) with (i * 2) by lia. apply Nat.div_mul. lia.
      + replace (2 * i + 2 - 1) with (1 + i * 2) by lia. rewrite Nat.div_add by lia. reflexivity.
  Qed.

  (* the root is a minimum of the prefix *)
  Lemma hp_root_min_get (n : nat) (l : list A) :
    heap_upto n l -> forall k, k < n -> le (get l 0) (get l k).
  Proof.
    intros H k. induction k as [k IH] using lt_wf_ind. intros Hk.
    destruct k as [|k]; [apply hp_le_refl|].
    pose proof (par_lt (S k) ltac:(lia)) as Hp.
    eapply hp_le_trans; [apply (IH (par (S k)) Hp); lia|]. apply H. lia.
  Qed.

  (* ---------------------------------------------------------------- up *)
  (* up works on the prefix of length n (n = length l for Push/Fix, length l - 1 for Remove) *)
  Definition up_inv (n : nat) (l : list A) (j : nat) : Prop :=
    (forall c, 0 < c < n -> c <> j -> le (get l (par c)) (get l c)) /\
    (forall c, 0 < c < n -> par c = j -> 0 < j -> le (get l (par j)) (get l c)).

  Lemma hp_up_spec fuel : forall (l : list A) n j,
    n <= length l -> j < n -> j < fuel -> up_inv n l j ->
    exists l', hp_up less fuel l j = HpOk l' /\ heap_upto n l' /\
               Permutation l l' /\ length l' = length l /\
               (forall k, n <= k -> get l' k = get l k).
  Proof.
    induction fuel as [|f IH]; intros l n j Hn Hj Hf [I1 I2]; [lia|].
    cbn [hp_up]. fold (par j).
    destruct (Nat.eqb_spec (par j) j) as [E | E].
    - (* j = 0 *)
      assert (j = 0) by (destruct j; [reflexivity|]; pose proof (par_lt (S j)); lia). subst j.
      exists l. repeat split; auto. intros c Hc. apply I1; lia.
    - assert (Hj0 : 0 < j) by (destruct j; [cbn in E; congruence|lia]).
      pose proof (par_lt j Hj0) as Hp.
      rewrite hp_less_get by lia.
      destruct (less (get l j) (get l (par j))) eqn:El.
      + destruct (hp_swap_some l (par j) j ltac:(lia) ltac:(lia)) as [l' Hs]. rewrite Hs.
        destruct (hp_swap_spec _ _ _ _ Hs) as (_ & _ & Hlen & Hperm & _).
        pose proof (fun k => hp_swap_get l l' (par j) j k Hs) as Hg.
        destruct (IH l' n (par j)) as (l'' & Hr & Hh & Hp' & Hl'' & Hbey).
        * lia.
        * lia.
        * lia.
        * split.
          -- intros c Hc Hne. rewrite !Hg.
             destruct (Nat.eqb_spec c j) as [-> | Hcj].
             ++ destruct (Nat.eqb_spec (par j) j); [lia|]. rewrite Nat.eqb_refl.
                apply hp_lt_le. exact El.
             ++ destruct (Nat.eqb_spec c (par j)); [contradiction|].
                destruct (Nat.eqb_spec (par c) j) as [Epc | Epc].
                ** apply I2; [lia|exact Epc|exact Hj0].
                ** destruct (Nat.eqb_spec (par c) (par j)) as [Epp | Epp].
                   --- eapply hp_le_trans; [apply hp_lt_le; exact El|].
                       rewrite <- Epp. apply I1; [lia|exact Hcj].
                   --- apply I1; [lia|exact Hcj].
          -- intros c Hc Epc Hpj. rewrite !Hg.
             pose proof (par_lt (par j) Hpj) as Hpp.
             destruct (Nat.eqb_spec (par (par j)) j); [lia|].
             destruct (Nat.eqb_spec (par (par j)) (par j)); [lia|].
             destruct (Nat.eqb_spec c j) as [-> | Hcj].
             ++ apply I1; lia.
             ++ pose proof (par_lt c ltac:(lia)).
                destruct (Nat.eqb_spec c (par j)); [lia|].
                eapply hp_le_trans; [apply (I1 (par j)); lia|].
                rewrite <- Epc. apply I1; [lia|exact Hcj].
        * exists l''. repeat split; auto.
          -- eapply perm_trans; eassumption.
          -- lia.
          -- intros k Hk. rewrite Hbey by exact Hk. rewrite Hg.
             destruct (Nat.eqb_spec k j); [lia|]. destruct (Nat.eqb_spec k (par j)); [lia|]. reflexivity.
      + exists l. repeat split; auto. intros c Hc.
        destruct (Nat.eq_dec c j) as [-> | Hne]; [exact El|]. apply I1; lia.
  Qed.

  (* ---------------------------------------------------------------- down *)
  (* m = lowest parent index whose pairs are required / established (0 for Pop, Fix,
     Remove; i for the i-th iteration of Init) *)
  Definition down_inv (m n : nat) (l : list A) (i : nat) : Prop :=
    (forall c, 0 < c < n -> m <= par c -> par c <> i -> le (get l (par c)) (get l c)) /\
    (forall c, 0 < c < n -> par c = i -> 0 < i -> m <= par i -> le (get l (par i)) (get l c)).

  Lemma hp_down_loop_spec m fuel : forall (l : list A) i n,
    n <= length l -> n - i < fuel -> m <= i -> down_inv m n l i ->
    exists l' i', hp_down_loop less fuel l i n = HpOk (l', i') /\ heap_from m n l' /\
                  Permutation l l' /\ length l' = length l /\ i <= i' /\
                  (forall k, n <= k -> get l' k = get l k) /\
                  (i' = i -> l' = l).
  Proof.
    induction fuel as [|f IH]; intros l i n Hn Hf Hmi [I1 I2]; [lia|].
    cbn [hp_down_loop].
    destruct (Nat.leb_spec n (2 * i + 1)) as [Hb | Hb].
    - exists l, i. repeat split; auto. intros c Hc Hm. apply I1; [lia|exact Hm|].
      intros E. apply par_child in E; lia.
    - remember (2 * i + 1) as j1 eqn:Ej1. remember (j1 + 1) as j2 eqn:Ej2.
      assert (Hsel : exists j, (if j2 <? n then hp_less less l j2 j1 else Some false)
                               = Some (if Nat.eqb j j2 then true else false) /\
                               (j = j1 \/ (j = j2 /\ j2 < n)) /\
                               (forall c, 0 < c < n -> par c = i -> le (get l j) (get l c))).
      { destruct (Nat.ltb_spec j2 n) as [H2 | H2].
        - rewrite hp_less_get by lia.
          destruct (less (get l j2) (get l j1)) eqn:E12.
          + exists j2. rewrite Nat.eqb_refl. split; [reflexivity|]. split; [right; split; [reflexivity|exact H2]|].
            intros c Hc Epc. apply par_child in Epc; [|lia].
            assert (Hc12 : c = j1 \/ c = j2) by lia. clear Epc.
            destruct Hc12 as [-> | ->].
            * apply hp_lt_le. exact E12.
            * apply hp_le_refl.
          + exists j1. destruct (Nat.eqb_spec j1 j2); [lia|]. split; [reflexivity|]. split; [left; reflexivity|].
            intros c Hc Epc. apply par_child in Epc; [|lia].
            assert (Hc12 : c = j1 \/ c = j2) by lia. clear Epc.
            destruct Hc12 as [-> | ->].
            * apply hp_le_refl.
            * exact E12.
        - exists j1. destruct (Nat.eqb_spec j1 j2); [lia|]. split; [reflexivity|]. split; [left; reflexivity|].
          intros c Hc Epc. apply par_child in Epc; [|lia].
          assert (Hc12 : c = j1) by lia. subst c. apply hp_le_refl. }
      destruct Hsel as (j & Esel & Hj & Hjmin). rewrite Esel.
      assert (Ej : (if (if j =? j2 then true else false) then j2 else j1) = j).
      { destruct (Nat.eqb_spec j j2); [congruence|]. destruct Hj as [-> | [? _]]; [reflexivity|contradiction]. }
      rewrite Ej.
      assert (Hjn : j < n) by (destruct Hj as [-> | [-> ?]]; lia).
      assert (Hpj : par j = i) by (apply par_child; [lia|]; destruct Hj as [-> | [-> _]]; lia).
      assert (Hij : i < j) by (destruct Hj as [-> | [-> _]]; lia).
      rewrite hp_less_get by lia.
      destruct (less (get l j) (get l i)) eqn:El.
      + destruct (hp_swap_some l i j ltac:(lia) ltac:(lia)) as [l' Hs]. rewrite Hs.
        destruct (hp_swap_spec _ _ _ _ Hs) as (_ & _ & Hlen & Hperm & _).
        pose proof (fun k => hp_swap_get l l' i j k Hs) as Hg.
        destruct (IH l' j n) as (l'' & i'' & Hr & Hh & Hp' & Hl'' & Hle & Hbey & _).
        * lia.
        * lia.
        * lia.
        * split.
          -- intros c Hc Hm Hne. rewrite !Hg.
             destruct (Nat.eqb_spec (par c) j); [contradiction|].
             destruct (Nat.eqb_spec c j) as [-> | Hcj].
             ++ rewrite Hpj, Nat.eqb_refl. apply hp_lt_le. exact El.
             ++ destruct (Nat.eqb_spec c i) as [-> | Hci].
                ** pose proof (par_lt i ltac:(lia)).
                   destruct (Nat.eqb_spec (par i) i); [lia|].
                   apply I2; [lia|exact Hpj|lia|exact Hm].
                ** destruct (Nat.eqb_spec (par c) i) as [Epc | Epc].
                   --- apply Hjmin; [lia|exact Epc].
                   --- apply I1; [lia|exact Hm|exact Epc].
          -- intros c Hc Epc _ _. rewrite !Hg. rewrite Hpj.
             pose proof (par_lt c ltac:(lia)).
             destruct (Nat.eqb_spec i j); [lia|]. rewrite Nat.eqb_refl.
             destruct (Nat.eqb_spec c j); [lia|]. destruct (Nat.eqb_spec c i); [lia|].
             rewrite <- Epc. apply I1; [lia|lia|lia].
        * exists l'', i''. repeat split; auto.
          -- eapply perm_trans; eassumption.
          -- lia.
          -- lia.
          -- intros k Hk. rewrite Hbey by exact Hk. rewrite Hg.
             destruct (Nat.eqb_spec k j); [lia|]. destruct (Nat.eqb_spec k i); [lia|]. reflexivity.
          -- lia.
      + exists l, i. repeat split; auto. intros c Hc Hm.
        destruct (Nat.eq_dec (par c) i) as [Epc | Epc].
        * rewrite Epc. eapply hp_le_trans; [exact El|]. apply Hjmin; [lia|exact Epc].
        * apply I1; [lia|exact Hm|exact Epc].
  Qed.

  (* no child of i (below n) is less than element i: down does not move anything *)
  Lemma hp_down_loop_nomove f (l : list A) i n :
    n <= length l -> i < n ->
    (forall c, 0 < c < n -> par c = i -> le (get l i) (get l c)) ->
    hp_down_loop less (S f) l i n = HpOk (l, i).
  Proof.
    intros Hn Hi Hch. cbn [hp_down_loop].
    destruct (Nat.leb_spec n (2 * i + 1)) as [Hb | Hb]; [reflexivity|].
    remember (2 * i + 1) as j1 eqn:Ej1. remember (j1 + 1) as j2 eqn:Ej2.
    assert (H1 : le (get l i) (get l j1)) by (apply Hch; [lia|apply par_child; lia]).
    destruct (Nat.ltb_spec j2 n) as [H2 | H2].
    - assert (H2' : le (get l i) (get l j2)) by (apply Hch; [lia|apply par_child; lia]).
      rewrite hp_less_get by lia.
      destruct (less (get l j2) (get l j1)); rewrite hp_less_get by lia.
      + rewrite H2'. reflexivity.
      + rewrite H1. reflexivity.
    - rewrite hp_less_get by lia. rewrite H1. reflexivity.
  Qed.

  Lemma hp_down_spec m (l : list A) i n :
    n <= length l -> m <= i -> down_inv m n l i ->
    exists l' b, hp_down less (hp_down_fuel n) l i n = HpOk (l', b) /\ heap_from m n l' /\
                 Permutation l l' /\ length l' = length l /\
                 (forall k, n <= k -> get l' k = get l k) /\
                 (b = false -> l' = l).
  Proof.
    intros Hn Hmi Hinv.
    destruct (hp_down_loop_spec m (hp_down_fuel n) l i n Hn ltac:(unfold hp_down_fuel; lia) Hmi Hinv)
      as (l' & i' & Hr & Hh & Hp & Hl & Hle & Hbey & Hsame).
    unfold hp_down. rewrite Hr. exists l', (i <? i'). repeat split; auto.
    intros Hb. apply Hsame. apply Nat.ltb_ge in Hb. lia.
  Qed.

  (* ---------------------------------------------------------------- Init *)
  Lemma hp_init_loop_spec : forall cnt (l : list A) n,
    n <= length l -> heap_from cnt n l ->
    exists l', hp_init_loop less cnt l n = HpOk l' /\ heap_upto n l' /\
               Permutation l l' /\ length l' = length l.
  Proof.
    induction cnt as [|i IH]; intros l n Hn Hh.
    - exists l. split; [reflexivity|]. split; [apply heap_from_0; exact Hh|]. auto.
    - cbn [hp_init_loop].
      destruct (hp_down_spec i l i n Hn (le_n i)) as (l1 & b & Hr & Hh1 & Hp1 & Hl1 & _).
      + split.
        * intros c Hc Hm Hne. apply Hh; [exact Hc|lia].
        * intros c Hc Epc Hi Hm. pose proof (par_lt i Hi). lia.
      + rewrite Hr. destruct (IH l1 n ltac:(lia) Hh1) as (l' & Hr' & Hh' & Hp' & Hl').
        exists l'. split; [exact Hr'|]. split; [exact Hh'|]. split; [eapply perm_trans; eassumption|lia].
  Qed.

  (* ---------------------------------------------------------------- Fix (on a prefix) *)
  (* all parent/child pairs not involving i are fine, and the parent of i is <= the
     children of i: the state after overwriting element i of a heap *)
  Definition heap_except (n : nat) (l : list A) (i : nat) : Prop :=
    (forall c, 0 < c < n -> c <> i -> par c <> i -> le (get l (par c)) (get l c)) /\
    (forall c, 0 < c < n -> par c = i -> 0 < i -> le (get l (par i)) (get l c)).

  Lemma hp_fix_prefix (l : list A) n i :
    n <= length l -> i < n -> heap_except n l i ->
    exists l1 b l',
      hp_down less (hp_down_fuel n) l i n = HpOk (l1, b) /\
      (if b then HpOk l1 else hp_up less (hp_up_fuel i) l1 i) = HpOk l' /\
      heap_upto n l' /\ Permutation l l' /\ length l' = length l /\
      (forall k, n <= k -> get l' k = get l k).
  Proof.
    intros Hn Hi [E1 E2].
    assert (Hcase : (i = 0 \/ le (get l (par i)) (get l i)) \/
                    (0 < i /\ less (get l i) (get l (par i)) = true)).
    { destruct i; [left; left; reflexivity|].
      destruct (less (get l (S i)) (get l (par (S i)))) eqn:E; [right; split; [lia|reflexivity]|left; right; reflexivity]. }
    destruct Hcase as [HA | [Hi0 HB]].
    - (* the element is not smaller than its parent: down may move it *)
      destruct (hp_down_spec 0 l i n Hn ltac:(lia)) as (l1 & b & Hr & Hh1 & Hp1 & Hl1 & Hbey & Hsame).
      + split.
        * intros c Hc _ Hne. destruct (Nat.eq_dec c i) as [-> | Hci].
          -- destruct HA as [-> | HA]; [lia|exact HA].
          -- apply E1; assumption.
        * intros c Hc Epc Hi0 _. apply E2; assumption.
      + apply heap_from_0 in Hh1. exists l1, b. destruct b.
        * exists l1. repeat split; auto.
        * specialize (Hsame eq_refl). subst l1.
          destruct (hp_up_spec (hp_up_fuel i) l n i Hn Hi ltac:(unfold hp_up_fuel; lia)) as (l' & Hr' & Hh' & Hp' & Hl' & Hbey').
          -- split.
             ++ intros c Hc _. apply Hh1. exact Hc.
             ++ intros c Hc Epc Hi0. eapply hp_le_trans; [apply (Hh1 i); lia|].
                rewrite <- Epc. apply Hh1. exact Hc.
          -- exists l'. repeat split; auto.
    - (* smaller than its parent, hence than its children: down does not move, up does *)
      assert (Hch : forall c, 0 < c < n -> par c = i -> le (get l i) (get l c)).
      { intros c Hc Epc. eapply hp_le_trans; [apply hp_lt_le; exact HB|]. apply E2; assumption. }
      exists l, false.
      destruct (hp_up_spec (hp_up_fuel i) l n i Hn Hi ltac:(unfold hp_up_fuel; lia)) as (l' & Hr' & Hh' & Hp' & Hl' & Hbey').
      + split.
        * intros c Hc Hne. destruct (Nat.eq_dec (par c) i) as [Epc | Epc].
          -- rewrite Epc. apply Hch; assumption.
          -- apply E1; assumption.
        * intros c Hc Epc _. apply E2; assumption.
      + exists l'. split.
        * unfold hp_down, hp_down_fuel. rewrite (hp_down_loop_nomove n l i n Hn Hi Hch).
          rewrite Nat.ltb_irrefl. reflexivity.
        * repeat split; auto.
  Qed.

  (* h.Pop() of the user type: remove the last element *)
  Lemma hp_pop_last_spec (l : list A) n :
    length l = S n ->
    hp_pop_last l = HpOk (firstn n l, get l n) /\ l = firstn n l ++ [get l n] /\
    length (firstn n l) = n.
  Proof.
    intros Hl. unfold hp_pop_last. rewrite Hl.
    rewrite (hp_nth_error_get l n) by lia. split; [reflexivity|]. split.
    - rewrite <- (firstn_skipn n l) at 1. f_equal.
      assert (Hsk : length (skipn n l) = 1) by (rewrite skipn_length; lia).
      destruct (skipn n l) as [|z [|? ?]] eqn:Esk; cbn in Hsk; try lia.
      f_equal.
      rewrite <- (firstn_skipn n l) at 1.
      rewrite app_nth2; rewrite firstn_length; [|lia].
      replace (n - Nat.min n (length l)) with 0 by lia.
      rewrite Esk. reflexivity.
    - rewrite firstn_length. lia.
  Qed.

  Lemma heap_upto_firstn (l : list A) n :
    n <= length l -> heap_upto n l -> heap_upto n (firstn n l).
  Proof.
    intros Hn Hh c Hc. pose proof (par_lt c ltac:(lia)).
    specialize (Hh c Hc). rewrite <- (firstn_skipn n l) in Hh.
    rewrite !app_nth1 in Hh by (rewrite firstn_length; lia). exact Hh.
  Qed.
End HeapProofs.

(* -------------------------------------------------------------------- Push / Pop / Top *)
Section HeapOps.
  Context {A : Type}.
  Variable less : A -> A -> bool.
  Hypothesis Hasym : hp_asym less.
  Hypothesis Hnt : hp_negtrans less.

  Lemma hp_heap_nil : hp_heap less (@nil A).
  Proof. intros c x p _ H. destruct c; discriminate. Qed.

  (* Push: never panics, never runs out of fuel; heap invariant kept; the new array is a
     permutation of x :: old array; the length grows by exactly one *)
  Lemma hp_push_spec (l : list A) (x : A) :
    hp_heap less l ->
    exists l', hp_push less l x = HpOk l' /\ hp_heap less l' /\
               Permutation l' (x :: l) /\ length l' = S (length l).
  Proof.
    intros Hh. unfold hp_push.
    assert (Hlen : length (l ++ [x]) = S (length l)) by (rewrite app_length; cbn; lia).
    rewrite Hlen. replace (S (length l) - 1) with (length l) by lia.
    destruct (hp_up_spec less Hasym Hnt x (hp_up_fuel (length l)) (l ++ [x]) (S (length l)) (length l))
      as (l' & Hr & Hh' & Hp & Hl' & _).
    - lia.
    - lia.
    - unfold hp_up_fuel. lia.
    - unfold up_inv. rewrite <- Hlen. split.
      + intros c Hc Hne. rewrite Hlen in Hc.
        assert (Hp : par c < c) by (apply par_lt; lia).
        rewrite !app_nth1 by lia.
        apply (proj1 (hp_heap_iff less x l)); [exact Hh|lia].
      + intros c Hc Epc _. rewrite Hlen in Hc.
        apply par_child in Epc; lia.
    - exists l'. split; [exact Hr|]. split; [apply (hp_heap_iff less x); rewrite Hl', Hlen; exact Hh'|].
      split; [|lia].
      eapply perm_trans; [apply Permutation_sym; exact Hp|].
      apply Permutation_sym, Permutation_cons_append.
  Qed.

  (* Top / element 0 of a heap is a minimum *)
  Lemma hp_top_min (l : list A) (r : A) :
    hp_heap less l -> hp_top l = Some r -> forall y, In y l -> less y r = false.
  Proof.
    intros Hh Hr y Hy. unfold hp_top in Hr.
    apply (hp_heap_iff less r) in Hh.
    destruct (In_nth l y r Hy) as (k & Hk & <-).
    apply nth_error_nth with (d := r) in Hr. rewrite <- Hr at 2.
    apply (hp_root_min_get less Hasym Hnt r (length l) l Hh k Hk).
  Qed.

  (* Pop of a non-empty heap: never panics; returns element 0 (a minimum); the rest is a
     heap; old array is a permutation of popped :: new array; length shrinks by one *)
  Lemma hp_pop_spec (l : list A) :
    hp_heap less l -> l <> [] ->
    exists m l', hp_pop less l = HpOk (l', m) /\ hp_heap less l' /\
                 Permutation l (m :: l') /\ S (length l') = length l /\
                 hp_top l = Some m /\
                 (forall y, In y l -> less y m = false).
  Proof.
    intros Hh Hne. destruct l as [|r t]; [contradiction|]. clear Hne.
    set (l := r :: t) in *.
    assert (Hlen : length l = S (length t)) by reflexivity.
    unfold hp_pop. rewrite Hlen.
    destruct (hp_swap_some l 0 (length t)) as [l1 Hs]; [lia|lia|]. rewrite Hs.
    destruct (hp_swap_spec _ _ _ _ Hs) as (_ & _ & Hlen1 & Hperm1 & _).
    pose proof (fun k => hp_swap_get r l l1 0 (length t) k Hs) as Hg.
    pose proof (proj1 (hp_heap_iff less r l) Hh) as Hh0.
    destruct (hp_down_spec less Hasym Hnt r 0 l1 0 (length t)) as (l2 & b & Hr & Hh2 & Hp2 & Hl2 & Hbey & _).
    - lia.
    - lia.
    - split.
      + intros c Hc _ Hpc. rewrite !Hg.
        assert (Hp : par c < c) by (apply par_lt; lia).
        destruct (Nat.eqb_spec (par c) (length t)); [lia|].
        destruct (Nat.eqb_spec (par c) 0); [lia|].
        destruct (Nat.eqb_spec c (length t)); [lia|].
        destruct (Nat.eqb_spec c 0); [lia|].
        apply Hh0. lia.
      + intros; lia.
    - rewrite Hr. unfold hp_pop_last. rewrite Hl2, Hlen1, Hlen.
      assert (Elast : nth (length t) l2 r = r).
      { rewrite Hbey by lia. rewrite Hg. rewrite Nat.eqb_refl. reflexivity. }
      rewrite (hp_nth_error_get r l2 (length t)) by lia. rewrite Elast.
      exists r, (firstn (length t) l2).
      assert (Hsplit : l2 = firstn (length t) l2 ++ [r]).
      { rewrite <- (firstn_skipn (length t) l2) at 1. f_equal.
        assert (Hsk : length (skipn (length t) l2) = 1) by (rewrite skipn_length; lia).
        destruct (skipn (length t) l2) as [|z [|? ?]] eqn:Esk; cbn in Hsk; try lia.
        f_equal. rewrite <- Elast.
        rewrite <- (firstn_skipn (length t) l2) at 1.
        rewrite app_nth2; rewrite firstn_length; [|lia].
        replace (length t - Nat.min (length t) (length l2)) with 0 by lia.
        rewrite Esk. reflexivity. }
      assert (Hfl : length (firstn (length t) l2) = length t) by (rewrite firstn_length; lia).
      split; [reflexivity|]. split.
      + apply (hp_heap_iff less r). rewrite Hfl. intros c Hc.
        assert (Hp : par c < c) by (apply par_lt; lia).
        specialize (Hh2 c Hc ltac:(lia)). rewrite Hsplit in Hh2.
        rewrite !app_nth1 in Hh2 by lia. exact Hh2.
      + split.
        * eapply perm_trans; [exact Hperm1|]. eapply perm_trans; [exact Hp2|].
          rewrite Hsplit at 1. apply Permutation_sym, Permutation_cons_append.
        * split; [lia|]. split; [reflexivity|].
          apply (hp_top_min l r Hh). reflexivity.
  Qed.

  Lemma hp_pop_empty : hp_pop less (@nil A) = HpPanic.
  Proof. reflexivity. Qed.


  (* ---------------------------------------------------------------- Init / Fix / Remove *)
  (* Init turns ANY array into a heap with the same elements *)
  Lemma hp_init_spec (l : list A) :
    exists l', hp_init less l = HpOk l' /\ hp_heap less l' /\ Permutation l l' /\
               length l' = length l.
  Proof.
    destruct l as [|r t]; [exists []; repeat split; auto; apply hp_heap_nil|].
    set (l := r :: t). unfold hp_init.
    destruct (hp_init_loop_spec less Hasym Hnt r (length l / 2) l (length l) (le_n _)) as (l' & Hr & Hh & Hp & Hl).
    - intros c Hc Hm. exfalso. unfold par in Hm.
      assert (length l / 2 <= (length l - 2) / 2) by (etransitivity; [exact Hm|]; apply Nat.div_le_mono; lia).
      assert (length l = 2 + (length l - 2)) as E by lia. rewrite E in H at 1.
      replace (2 + (length l - 2)) with (1 * 2 + (length l - 2)) in H by lia.
      rewrite Nat.div_add_l in H by lia. lia.
    - exists l'. split; [exact Hr|]. split; [apply (hp_heap_iff less r); rewrite Hl; exact Hh|]. auto.
  Qed.

  (* Fix after overwriting element i of a heap with any value *)
  Lemma hp_fix_spec (l : list A) (i : nat) (x : A) :
    hp_heap less l -> i < length l ->
    exists l', hp_fix less (hp_set l i x) i = HpOk l' /\ hp_heap less l' /\
               Permutation (hp_set l i x) l' /\ length l' = length l.
  Proof.
    intros Hh Hi. set (l1 := hp_set l i x).
    assert (Hl1 : length l1 = length l) by apply hp_set_length.
    assert (Hg : forall k, k <> i -> nth k l1 x = nth k l x).
    { intros k Hk. destruct (Nat.lt_ge_cases k (length l)) as [Hkl | Hkl].
      - assert (E : nth_error l1 k = nth_error l k).
        { unfold l1. rewrite hp_set_nth_error by exact Hi. destruct (Nat.eqb_spec k i); [contradiction|reflexivity]. }
        rewrite (hp_nth_error_get x l1 k) in E by lia. rewrite (hp_nth_error_get x l k) in E by lia. congruence.
      - rewrite !nth_overflow by lia. reflexivity. }
    pose proof (proj1 (hp_heap_iff less x l) Hh) as Hh0.
    destruct (hp_fix_prefix less Hasym Hnt x l1 (length l1) i (le_n _) ltac:(lia)) as (l2 & b & l' & Hd & Hu & Hh' & Hp & Hl' & _).
    - rewrite Hl1. split.
      + intros c Hc Hci Hpi. rewrite !Hg by assumption. apply Hh0. exact Hc.
      + intros c Hc Epc Hi0. pose proof (par_lt i Hi0). pose proof (par_lt c ltac:(lia)).
        rewrite !Hg by lia.
        eapply (hp_le_trans less Hnt); [apply (Hh0 i); lia|]. rewrite <- Epc. apply Hh0. exact Hc.
    - unfold hp_fix. rewrite Hd. exists l'. split; [destruct b; exact Hu|].
      split; [apply (hp_heap_iff less x); rewrite Hl'; exact Hh'|]. split; [exact Hp|lia].
  Qed.

  (* Remove(i) of a heap, i valid: returns element i, the rest is a heap *)
  Lemma hp_remove_spec (l : list A) (i : nat) :
    hp_heap less l -> i < length l ->
    exists v l', hp_remove less l i = HpOk (l', v) /\ nth_error l i = Some v /\
                 hp_heap less l' /\ Permutation l (v :: l') /\ S (length l') = length l.
  Proof.
    intros Hh Hi. destruct l as [|r t]; [cbn in Hi; lia|].
    set (l := r :: t) in *. assert (Hlen : length l = S (length t)) by reflexivity.
    pose proof (proj1 (hp_heap_iff less r l) Hh) as Hh0.
    unfold hp_remove. rewrite Hlen.
    destruct (Nat.eqb_spec (length t) i) as [E | E].
    - destruct (hp_pop_last_spec r l (length t) Hlen) as (Hr & Hs & Hfl).
      rewrite Hr. exists (nth (length t) l r), (firstn (length t) l).
      split; [reflexivity|]. split; [rewrite <- E; apply hp_nth_error_get; lia|].
      split; [apply (hp_heap_iff less r); rewrite Hfl; apply heap_upto_firstn; [lia|]; intros c Hc; apply Hh0; lia|].
      split; [rewrite Hs at 1; apply Permutation_sym, Permutation_cons_append|lia].
    - destruct (hp_swap_some l i (length t)) as [l1 Hs]; [lia|lia|]. rewrite Hs.
      destruct (hp_swap_spec _ _ _ _ Hs) as (_ & _ & Hlen1 & Hperm1 & _).
      pose proof (fun k => hp_swap_get r l l1 i (length t) k Hs) as Hg.
      destruct (hp_fix_prefix less Hasym Hnt r l1 (length t) i ltac:(lia) ltac:(lia)) as (l2 & b & l' & Hd & Hu & Hh' & Hp & Hl' & Hbey).
      + split.
        * intros c Hc Hci Hpi. rewrite !Hg. pose proof (par_lt c ltac:(lia)).
          destruct (Nat.eqb_spec (par c) (length t)); [lia|]. destruct (Nat.eqb_spec (par c) i); [contradiction|].
          destruct (Nat.eqb_spec c (length t)); [lia|]. destruct (Nat.eqb_spec c i); [contradiction|].
          apply Hh0. lia.
        * intros c Hc Epc Hi0. rewrite !Hg. pose proof (par_lt c ltac:(lia)). pose proof (par_lt i Hi0).
          destruct (Nat.eqb_spec (par i) (length t)); [lia|]. destruct (Nat.eqb_spec (par i) i); [lia|].
          destruct (Nat.eqb_spec c (length t)); [lia|]. destruct (Nat.eqb_spec c i); [lia|].
          eapply (hp_le_trans less Hnt); [apply (Hh0 i); lia|]. rewrite <- Epc. apply Hh0. lia.
      + rewrite Hd.
        assert (Hpl : hp_pop_last l' = HpOk (firstn (length t) l', nth i l r) /\
                      l' = firstn (length t) l' ++ [nth i l r] /\ length (firstn (length t) l') = length t).
        { assert (El : nth (length t) l' r = nth i l r).
          { rewrite Hbey by lia. rewrite Hg. rewrite Nat.eqb_refl. reflexivity. }
          rewrite <- El. apply hp_pop_last_spec. lia. }
        destruct Hpl as (Hr & Hsp & Hfl).
        exists (nth i l r), (firstn (length t) l').
        split.
        { destruct b; [injection Hu as ->; exact Hr|]. rewrite Hu. exact Hr. }
        split; [apply hp_nth_error_get; lia|].
        split; [apply (hp_heap_iff less r); rewrite Hfl; apply heap_upto_firstn; [lia|exact Hh']|].
        split; [|lia].
        eapply perm_trans; [exact Hperm1|]. eapply perm_trans; [exact Hp|].
        rewrite Hsp at 1. apply Permutation_sym, Permutation_cons_append.
  Qed.

  (* ---------------------------------------------------------------- call sequences *)
  Lemma hp_apply_basic_spec (l : list A) (op : hp_op A) :
    hp_heap less l -> hp_basic op = true ->
    match op with
    | HpPush x => exists l', hp_apply less l op = HpOk (l', None) /\ hp_heap less l' /\
                             Permutation l' (x :: l) /\ length l' = S (length l)
    | HpPop => (l = [] /\ hp_apply less l op = HpPanic) \/
               (exists m l', hp_apply less l op = HpOk (l', Some m) /\ hp_heap less l' /\
                             Permutation l (m :: l') /\ S (length l') = length l /\
                             (forall y, In y l -> less y m = false))
    | HpTop => hp_apply less l op = HpOk (l, hp_top l) /\
               (forall m y, hp_top l = Some m -> In y l -> less y m = false) /\
               (hp_top l = None <-> l = [])
    | _ => True
    end.
  Proof.
    intros Hh Hb. destruct op as [x| | | |]; cbn in Hb; try discriminate; cbn [hp_apply].
    - destruct (hp_push_spec l x Hh) as (l' & Hr & H1 & H2 & H3). rewrite Hr. eauto.
    - destruct l as [|r t]; [left; split; reflexivity|right].
      destruct (hp_pop_spec (r :: t) Hh ltac:(discriminate)) as (m & l' & Hr & H1 & H2 & H3 & _ & H5).
      rewrite Hr. exists m, l'. auto.
    - split; [reflexivity|]. split.
      + intros m y Hm Hy. exact (hp_top_min l m Hh Hm y Hy).
      + unfold hp_top. destruct l; cbn; split; congruence.
  Qed.

  (* Every sequence of Push/Pop/Top calls on a heap that never pops an empty queue:
     no panic, no fuel exhaustion, invariant kept, multiset preserved
     (final array + popped values = initial array + pushed values), length exact, and
     every Pop returned a minimum of the array it was applied to (see hp_apply_basic_spec;
     here: the outputs are those of the single steps). *)
  Lemma hp_run_basic_spec (ops : list (hp_op A)) : forall (l : list A),
    hp_heap less l -> forallb hp_basic ops = true -> hp_no_underflow (length l) ops = true ->
    exists l' outs, hp_run less l ops = HpOk (l', outs) /\ hp_heap less l' /\
                    length outs = length ops /\
                    Permutation (l' ++ hp_popped ops outs) (l ++ hp_pushed ops) /\
                    length l' + length (hp_popped ops outs) = length l + length (hp_pushed ops).
  Proof.
    induction ops as [|op rest IH]; intros l Hh Hb Hu.
    - exists l, []. cbn. rewrite !app_nil_r. repeat split; auto.
    - cbn in Hb. apply andb_prop in Hb as [Hb1 Hb2].
      pose proof (hp_apply_basic_spec l op Hh Hb1) as Hs.
      destruct op as [x| | | |]; cbn in Hb1; try discriminate.
      + destruct Hs as (l1 & Hr & H1 & H2 & H3).
        cbn [hp_no_underflow] in Hu. rewrite <- H3 in Hu.
        destruct (IH l1 H1 Hb2 Hu) as (l' & outs & Hr' & H1' & Hlo & H2' & H3').
        exists l', (None :: outs). cbn [hp_run]. rewrite Hr, Hr'.
        split; [reflexivity|]. split; [exact H1'|]. split; [cbn; lia|].
        cbn [hp_popped hp_pushed]. split.
        * eapply perm_trans; [exact H2'|].
          eapply perm_trans; [apply Permutation_app_tail; exact H2|].
          cbn. apply Permutation_middle.
        * cbn [length]. lia.
      + destruct Hs as [[-> _] | (m & l1 & Hr & H1 & H2 & H3 & _)]; [cbn in Hu; discriminate|].
        cbn [hp_no_underflow] in Hu. rewrite <- H3 in Hu.
        destruct (IH l1 H1 Hb2 Hu) as (l' & outs & Hr' & H1' & Hlo & H2' & H3').
        exists l', (Some m :: outs). cbn [hp_run]. rewrite Hr, Hr'.
        split; [reflexivity|]. split; [exact H1'|]. split; [cbn; lia|].
        cbn [hp_popped hp_pushed]. split.
        * eapply perm_trans; [apply Permutation_sym, Permutation_middle|].
          eapply perm_trans; [apply perm_skip; exact H2'|].
          change (m :: l1 ++ hp_pushed rest) with ((m :: l1) ++ hp_pushed rest).
          apply Permutation_app_tail, Permutation_sym, H2.
        * cbn [length]. lia.
      + destruct Hs as (Hr & _).
        cbn [hp_no_underflow] in Hu.
        destruct (IH l Hh Hb2 Hu) as (l' & outs & Hr' & H1' & Hlo & H2' & H3').
        exists l', (hp_top l :: outs). cbn [hp_run]. rewrite Hr, Hr'.
        split; [reflexivity|]. split; [exact H1'|]. split; [cbn; lia|].
        cbn [hp_popped hp_pushed]. split; assumption.
  Qed.

  (* a Pop on an empty queue is the only way to panic *)
  Lemma hp_run_basic_panic (ops : list (hp_op A)) : forall (l : list A),
    hp_heap less l -> forallb hp_basic ops = true ->
    (hp_run less l ops = HpPanic <-> hp_no_underflow (length l) ops = false) /\
    hp_run less l ops <> HpNoFuel.
  Proof.
    induction ops as [|op rest IH]; intros l Hh Hb.
    - cbn. split; [split; discriminate|discriminate].
    - cbn in Hb. apply andb_prop in Hb as [Hb1 Hb2].
      pose proof (hp_apply_basic_spec l op Hh Hb1) as Hs.
      destruct op as [x| | | |]; cbn in Hb1; try discriminate.
      + destruct Hs as (l1 & Hr & H1 & _ & H3).
        cbn [hp_run hp_no_underflow]. rewrite Hr, <- H3.
        destruct (IH l1 H1 Hb2) as [Hi Hn].
        destruct (hp_run less l1 rest) as [[? ?]| |]; split; try tauto; try discriminate.
        split; [discriminate|]. intros Hx. apply Hi in Hx. discriminate.
      + destruct Hs as [[-> Hr] | (m & l1 & Hr & H1 & _ & H3 & _)].
        * cbn [hp_run hp_no_underflow length]. rewrite Hr. split; [tauto|discriminate].
        * cbn [hp_run hp_no_underflow]. rewrite Hr, <- H3.
          destruct (IH l1 H1 Hb2) as [Hi Hn].
          destruct (hp_run less l1 rest) as [[? ?]| |]; split; try tauto; try discriminate.
          split; [discriminate|]. intros Hx. apply Hi in Hx. discriminate.
      + destruct Hs as (Hr & _).
        cbn [hp_run hp_no_underflow]. rewrite Hr.
        destruct (IH l Hh Hb2) as [Hi Hn].
        destruct (hp_run less l rest) as [[? ?]| |]; split; try tauto; try discriminate.
        split; [discriminate|]. intros Hx. apply Hi in Hx. discriminate.
  Qed.


  (* ---------------------------------------------------------------- all five calls *)
  (* one call on a heap: it panics exactly when it is invalid (Pop on the empty queue,
     Fix/Remove index out of range), never runs out of fuel, and a valid call keeps the
     invariant and changes the length as expected *)
  Lemma hp_apply_spec (l : list A) (op : hp_op A) :
    hp_heap less l ->
    (hp_op_valid (length l) op = true ->
       exists l' o, hp_apply less l op = HpOk (l', o) /\ hp_heap less l' /\
                    length l' = hp_size_after (length l) op) /\
    (hp_op_valid (length l) op = false -> hp_apply less l op = HpPanic).
  Proof.
    intros Hh. destruct op as [x| | |i x|i]; cbn [hp_op_valid hp_size_after hp_apply].
    - split; [|discriminate]. intros _.
      destruct (hp_push_spec l x Hh) as (l' & Hr & H1 & _ & H3). rewrite Hr. eauto.
    - destruct l as [|r t]; cbn [length].
      + split; [discriminate|reflexivity].
      + split; [|discriminate]. intros _.
        destruct (hp_pop_spec (r :: t) Hh ltac:(discriminate)) as (m & l' & Hr & H1 & _ & H3 & _).
        rewrite Hr. exists l', (Some m). cbn [length] in H3. split; [reflexivity|]. split; [exact H1|lia].
    - split; [|discriminate]. intros _. eauto.
    - destruct (Nat.ltb_spec i (length l)) as [Hi | Hi].
      + split; [|discriminate]. intros _. unfold hp_set_checked.
        destruct (nth_error l i) eqn:E; [|apply nth_error_None in E; lia].
        destruct (hp_fix_spec l i x Hh Hi) as (l' & Hr & H1 & _ & H3). rewrite Hr. eauto.
      + split; [discriminate|]. intros _. unfold hp_set_checked.
        destruct (nth_error l i) eqn:E; [|reflexivity].
        assert (i < length l) by (apply nth_error_Some; congruence). lia.
    - destruct (Nat.ltb_spec i (length l)) as [Hi | Hi].
      + split; [|discriminate]. intros _.
        destruct (hp_remove_spec l i Hh Hi) as (v & l' & Hr & _ & H1 & _ & H3). rewrite Hr.
        exists l', (Some v). split; [reflexivity|]. split; [exact H1|lia].
      + split; [discriminate|]. intros _. unfold hp_remove.
        destruct (length l) as [|n] eqn:El; [reflexivity|].
        destruct (Nat.eqb_spec n i); [lia|].
        unfold hp_swap. destruct (nth_error l i) eqn:E; [|reflexivity].
        assert (i < length l) by (apply nth_error_Some; congruence). lia.
  Qed.

  (* every sequence of Push/Pop/Top/Fix/Remove calls on a heap: runs to the end iff every
     call is valid when it is issued; then the invariant holds at the end (and, by
     hp_apply_spec, after every call); never out of fuel *)
  Lemma hp_run_spec (ops : list (hp_op A)) : forall (l : list A),
    hp_heap less l ->
    (hp_ops_valid (length l) ops = true ->
       exists l' outs, hp_run less l ops = HpOk (l', outs) /\ hp_heap less l' /\
                       length outs = length ops) /\
    (hp_ops_valid (length l) ops = false -> hp_run less l ops = HpPanic).
  Proof.
    induction ops as [|op rest IH]; intros l Hh.
    - cbn. split; [intros _; exists l, []; auto|discriminate].
    - cbn [hp_ops_valid hp_run].
      destruct (hp_apply_spec l op Hh) as [Hv Hi].
      destruct (hp_op_valid (length l) op) eqn:Ev; cbn [andb].
      + destruct (Hv eq_refl) as (l1 & o & Hr & Hh1 & Hl1). rewrite Hr. rewrite <- Hl1.
        destruct (IH l1 Hh1) as [IHv IHi]. split.
        * intros Hrest. destruct (IHv Hrest) as (l' & outs & Hr' & Hh' & Hlo).
          rewrite Hr'. exists l', (o :: outs). cbn [length]. auto.
        * intros Hrest. rewrite (IHi Hrest). reflexivity.
      + rewrite (Hi eq_refl). split; [discriminate|reflexivity].
  Qed.
End HeapOps.
