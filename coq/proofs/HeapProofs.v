(* HeapProofs.v -- lemmas about lib/Heap.v (container/heap model).
   Main results (see the summary at the end of the file):
     hp_push_spec, hp_pop_spec, hp_top_min, hp_apply_basic_spec, hp_run_basic_spec. *)
From Got Require Import Base Heap.
Require Import Permutation.
Local Open Scope nat_scope.

Section HeapProofs.
  Context {A : Type}.
  Variable less : A -> A -> bool.
  Hypothesis Hasym : hp_asym less.
  Hypothesis Hnt : hp_negtrans less.

  Local Notation le x y := (less y x = false).

  Lemma hp_le_refl x : le x x.
  Proof. destruct (less x x) eqn:E; [|reflexivity]. rewrite (Hasym _ _ E) in E. discriminate. Qed.

  Lemma hp_le_trans x y z : le x y -> le y z -> le x z.
  Proof. intros H1 H2. exact (Hnt x y z H1 H2). Qed.

  Lemma hp_lt_le x y : less x y = true -> le x y.
  Proof. apply Hasym. Qed.

  (* ---------------------------------------------------------------- set / swap *)
  Lemma hp_set_length (l : list A) i v : length (hp_set l i v) = length l.
  Proof. revert i; induction l as [|h t IH]; intros [|i]; cbn; auto. Qed.

  Lemma hp_set_nth_error (l : list A) i v k :
    i < length l ->
    nth_error (hp_set l i v) k = if k =? i then Some v else nth_error l k.
  Proof.
    revert i k; induction l as [|h t IH]; intros i k Hi; cbn in Hi; [lia|].
    destruct i as [|i]; destruct k as [|k]; cbn; auto.
    rewrite IH by lia. reflexivity.
  Qed.

  Lemma hp_set_perm (l : list A) i v x :
    nth_error l i = Some x -> Permutation (v :: l) (x :: hp_set l i v).
  Proof.
    revert i; induction l as [|h t IH]; intros [|i] H; cbn in H; try discriminate.
    - injection H as ->. cbn. apply perm_swap.
    - cbn. specialize (IH _ H).
      eapply perm_trans; [apply perm_swap|].
      eapply perm_trans; [apply perm_skip, IH|]. apply perm_swap.
  Qed.

  Lemma hp_swap_some (l : list A) i j :
    i < length l -> j < length l -> exists l', hp_swap l i j = Some l'.
  Proof.
    intros Hi Hj. unfold hp_swap.
    destruct (nth_error l i) eqn:Ei; [|apply nth_error_None in Ei; lia].
    destruct (nth_error l j) eqn:Ej; [|apply nth_error_None in Ej; lia].
    eauto.
  Qed.

  Lemma hp_swap_spec (l l' : list A) i j :
    hp_swap l i j = Some l' ->
    i < length l /\ j < length l /\ length l' = length l /\ Permutation l l' /\
    forall k, nth_error l' k =
              if k =? j then nth_error l i else if k =? i then nth_error l j else nth_error l k.
  Proof.
    unfold hp_swap. intros H.
    destruct (nth_error l i) as [x|] eqn:Ei; [|discriminate].
    destruct (nth_error l j) as [y|] eqn:Ej; [|discriminate].
    injection H as <-.
    assert (Hi : i < length l) by (apply nth_error_Some; congruence).
    assert (Hj : j < length l) by (apply nth_error_Some; congruence).
    split; [exact Hi|]. split; [exact Hj|].
    split; [now rewrite !hp_set_length|].
    assert (Ej' : nth_error (hp_set l i y) j = Some y).
    { rewrite hp_set_nth_error by exact Hi. destruct (j =? i); [reflexivity|exact Ej]. }
    split.
    - apply Permutation_cons_inv with (a := y).
      eapply perm_trans; [apply (hp_set_perm l i y x Ei)|].
      apply (hp_set_perm (hp_set l i y) j x y Ej').
    - intros k. rewrite hp_set_nth_error by (rewrite hp_set_length; exact Hj).
      rewrite hp_set_nth_error by exact Hi.
      destruct (k =? j); [congruence|]. destruct (k =? i); [congruence|reflexivity].
  Qed.

  (* ---------------------------------------------------------------- default-based view *)
  Variable d : A.
  Local Notation get l k := (nth k l d).

  Lemma hp_nth_error_get (l : list A) k : k < length l -> nth_error l k = Some (get l k).
  Proof. intros H. apply nth_error_nth'. exact H. Qed.

  Lemma hp_less_get (l : list A) i j :
    i < length l -> j < length l -> hp_less less l i j = Some (less (get l i) (get l j)).
  Proof. intros Hi Hj. unfold hp_less. rewrite !hp_nth_error_get by assumption. reflexivity. Qed.

  Lemma hp_swap_get (l l' : list A) i j k :
    hp_swap l i j = Some l' ->
    get l' k = if k =? j then get l i else if k =? i then get l j else get l k.
  Proof.
    intros H. destruct (hp_swap_spec _ _ _ _ H) as (Hi & Hj & Hlen & _ & Hn).
    destruct (Nat.lt_ge_cases k (length l)) as [Hk | Hk].
    - assert (E : nth_error l' k = Some (get l' k)) by (apply hp_nth_error_get; lia).
      rewrite Hn in E.
      destruct (k =? j); [rewrite hp_nth_error_get in E by lia; congruence|].
      destruct (k =? i); rewrite hp_nth_error_get in E by lia; congruence.
    - destruct (Nat.eqb_spec k j); [lia|]. destruct (Nat.eqb_spec k i); [lia|].
      rewrite !nth_overflow by lia. reflexivity.
  Qed.

  Definition par (c : nat) : nat := (c - 1) / 2.

  (* heap on the prefix of length n *)
  Definition heap_upto (n : nat) (l : list A) : Prop :=
    forall c, 0 < c < n -> le (get l (par c)) (get l c).

  Lemma hp_heap_iff (l : list A) : hp_heap less l <-> heap_upto (length l) l.
  Proof.
    unfold hp_heap, heap_upto. split.
    - intros H c Hc. apply (H c); [lia| |]; apply hp_nth_error_get; unfold par.
      + lia.
      + assert ((c - 1) / 2 <= c - 1) by (apply Nat.div_le_upper_bound; lia). lia.
    - intros H c x p Hc Ex Ep.
      assert (Hlt : c < length l) by (apply nth_error_Some; congruence).
      specialize (H c ltac:(lia)). unfold par in H.
      apply nth_error_nth with (d := d) in Ex. apply nth_error_nth with (d := d) in Ep.
      congruence.
  Qed.

  Lemma par_lt c : 0 < c -> par c < c.
  Proof. intros H. unfold par. assert ((c - 1) / 2 <= c - 1) by (apply Nat.div_le_upper_bound; lia). lia. Qed.

  Lemma par_child c i : 0 < c -> (par c = i <-> c = 2 * i + 1 \/ c = 2 * i + 2).
  Proof.
    intros Hc. unfold par.
    pose proof (Nat.div_mod (c - 1) 2 ltac:(lia)) as Hd.
    pose proof (Nat.mod_upper_bound (c - 1) 2 ltac:(lia)) as Hm.
    split; intros H.
    - subst i. lia.
    - destruct H as [-> | ->].
      + replace (2 * i + 1 - 1) with (i * 2) by lia. apply Nat.div_mul. lia.
      + replace (2 * i + 2 - 1) with (1 + i * 2) by lia. rewrite Nat.div_add by lia. reflexivity.
  Qed.

  (* the root is a minimum of the prefix *)
  Lemma hp_root_min_get (n : nat) (l : list A) :
    heap_upto n l -> forall k, k < n -> le (get l 0) (get l k).
  Proof.
    intros H k. induction k as [k IH] using lt_wf_ind. intros Hk.
    destruct k as [|k]; [apply hp_le_refl|].
    pose proof (par_lt (S k) ltac:(lia)) as Hp.
    eapply hp_le_trans; [apply (IH (par (S k)) Hp); lia|]. apply H. lia.
  Qed.

  (* ---------------------------------------------------------------- up *)
  Definition up_inv (l : list A) (j : nat) : Prop :=
    (forall c, 0 < c < length l -> c <> j -> le (get l (par c)) (get l c)) /\
    (forall c, 0 < c < length l -> par c = j -> 0 < j -> le (get l (par j)) (get l c)).

  Lemma hp_up_spec fuel : forall (l : list A) j,
    j < length l -> j < fuel -> up_inv l j ->
    exists l', hp_up less fuel l j = HpOk l' /\ heap_upto (length l') l' /\
               Permutation l l' /\ length l' = length l.
  Proof.
    induction fuel as [|f IH]; intros l j Hj Hf [I1 I2]; [lia|].
    cbn [hp_up]. fold (par j).
    destruct (Nat.eqb_spec (par j) j) as [E | E].
    - (* j = 0 *)
      assert (j = 0) by (destruct j; [reflexivity|]; pose proof (par_lt (S j)); lia). subst j.
      exists l. repeat split; auto. intros c Hc. apply I1; lia.
    - assert (Hj0 : 0 < j) by (destruct j; [cbn in E; congruence|lia]).
      pose proof (par_lt j Hj0) as Hp.
      rewrite hp_less_get by lia.
      destruct (less (get l j) (get l (par j))) eqn:El.
      + destruct (hp_swap_some l (par j) j ltac:(lia) Hj) as [l' Hs]. rewrite Hs.
        destruct (hp_swap_spec _ _ _ _ Hs) as (_ & _ & Hlen & Hperm & _).
        pose proof (fun k => hp_swap_get l l' (par j) j k Hs) as Hg.
        destruct (IH l' (par j)) as (l'' & Hr & Hh & Hp' & Hl'').
        * lia.
        * lia.
        * unfold up_inv. rewrite Hlen. split.
          -- intros c Hc Hne. rewrite !Hg.
             destruct (Nat.eqb_spec c j) as [-> | Hcj].
             ++ destruct (Nat.eqb_spec (par j) j); [lia|]. rewrite Nat.eqb_refl.
                apply hp_lt_le. exact El.
             ++ destruct (Nat.eqb_spec c (par j)); [contradiction|].
                destruct (Nat.eqb_spec (par c) j) as [Epc | Epc].
                ** apply I2; [lia|exact Epc|exact Hj0].
                ** destruct (Nat.eqb_spec (par c) (par j)) as [Epp | Epp].
                   --- eapply hp_le_trans; [apply hp_lt_le; exact El|].
                       rewrite <- Epp. apply I1; [lia|exact Hcj].
                   --- apply I1; [lia|exact Hcj].
          -- intros c Hc Epc Hpj. rewrite !Hg.
             pose proof (par_lt (par j) Hpj) as Hpp.
             destruct (Nat.eqb_spec (par (par j)) j); [lia|].
             destruct (Nat.eqb_spec (par (par j)) (par j)); [lia|].
             destruct (Nat.eqb_spec c j) as [-> | Hcj].
             ++ apply I1; lia.
             ++ pose proof (par_lt c ltac:(lia)).
                destruct (Nat.eqb_spec c (par j)); [lia|].
                eapply hp_le_trans; [apply (I1 (par j)); lia|].
                rewrite <- Epc. apply I1; [lia|exact Hcj].
        * exists l''. repeat split; auto.
          -- eapply perm_trans; eassumption.
          -- lia.
      + exists l. repeat split; auto. intros c Hc.
        destruct (Nat.eq_dec c j) as [-> | Hne]; [exact El|]. apply I1; lia.
  Qed.

  (* ---------------------------------------------------------------- down *)
  Definition down_inv (n : nat) (l : list A) (i : nat) : Prop :=
    (forall c, 0 < c < n -> par c <> i -> le (get l (par c)) (get l c)) /\
    (forall c, 0 < c < n -> par c = i -> 0 < i -> le (get l (par i)) (get l c)).

  Lemma hp_down_loop_spec fuel : forall (l : list A) i n,
    n <= length l -> n - i < fuel -> down_inv n l i ->
    exists l' i', hp_down_loop less fuel l i n = HpOk (l', i') /\ heap_upto n l' /\
                  Permutation l l' /\ length l' = length l /\ i <= i' /\
                  (forall k, n <= k -> get l' k = get l k) /\
                  (i' = i -> l' = l).
  Proof.
    induction fuel as [|f IH]; intros l i n Hn Hf [I1 I2]; [lia|].
    cbn [hp_down_loop].
    destruct (Nat.leb_spec n (2 * i + 1)) as [Hb | Hb].
    - exists l, i. repeat split; auto. intros c Hc. apply I1; [lia|].
      intros E. apply par_child in E; lia.
    - remember (2 * i + 1) as j1 eqn:Ej1. remember (j1 + 1) as j2 eqn:Ej2.
      assert (Hsel : exists j, (if j2 <? n then hp_less less l j2 j1 else Some false)
                               = Some (if Nat.eqb j j2 then true else false) /\
                               (j = j1 \/ (j = j2 /\ j2 < n)) /\
                               (forall c, 0 < c < n -> par c = i -> le (get l j) (get l c))).
      { destruct (Nat.ltb_spec j2 n) as [H2 | H2].
        - rewrite hp_less_get by lia.
          destruct (less (get l j2) (get l j1)) eqn:E12.
          + exists j2. rewrite Nat.eqb_refl. split; [reflexivity|]. split; [right; split; [reflexivity|exact H2]|].
            intros c Hc Epc. apply par_child in Epc; [|lia].
            assert (Hc12 : c = j1 \/ c = j2) by lia. clear Epc.
            destruct Hc12 as [-> | ->].
            * apply hp_lt_le. exact E12.
            * apply hp_le_refl.
          + exists j1. destruct (Nat.eqb_spec j1 j2); [lia|]. split; [reflexivity|]. split; [left; reflexivity|].
            intros c Hc Epc. apply par_child in Epc; [|lia].
            assert (Hc12 : c = j1 \/ c = j2) by lia. clear Epc.
            destruct Hc12 as [-> | ->].
            * apply hp_le_refl.
            * exact E12.
        - exists j1. destruct (Nat.eqb_spec j1 j2); [lia|]. split; [reflexivity|]. split; [left; reflexivity|].
          intros c Hc Epc. apply par_child in Epc; [|lia].
          assert (Hc12 : c = j1) by lia. subst c. apply hp_le_refl. }
      destruct Hsel as (j & Esel & Hj & Hjmin). rewrite Esel.
      assert (Ej : (if (if j =? j2 then true else false) then j2 else j1) = j).
      { destruct (Nat.eqb_spec j j2); [congruence|]. destruct Hj as [-> | [? _]]; [reflexivity|contradiction]. }
      rewrite Ej.
      assert (Hjn : j < n) by (destruct Hj as [-> | [-> ?]]; lia).
      assert (Hpj : par j = i) by (apply par_child; [lia|]; destruct Hj as [-> | [-> _]]; lia).
      assert (Hij : i < j) by (destruct Hj as [-> | [-> _]]; lia).
      rewrite hp_less_get by lia.
      destruct (less (get l j) (get l i)) eqn:El.
      + destruct (hp_swap_some l i j ltac:(lia) ltac:(lia)) as [l' Hs]. rewrite Hs.
        destruct (hp_swap_spec _ _ _ _ Hs) as (_ & _ & Hlen & Hperm & _).
        pose proof (fun k => hp_swap_get l l' i j k Hs) as Hg.
        destruct (IH l' j n) as (l'' & i'' & Hr & Hh & Hp' & Hl'' & Hle & Hbey & _).
        * lia.
        * lia.
        * split.
          -- intros c Hc Hne. rewrite !Hg.
             destruct (Nat.eqb_spec (par c) j); [contradiction|].
             destruct (Nat.eqb_spec c j) as [-> | Hcj].
             ++ rewrite Hpj, Nat.eqb_refl. apply hp_lt_le. exact El.
             ++ destruct (Nat.eqb_spec c i) as [-> | Hci].
                ** pose proof (par_lt i ltac:(lia)).
                   destruct (Nat.eqb_spec (par i) i); [lia|].
                   apply I2; [lia|exact Hpj|lia].
                ** destruct (Nat.eqb_spec (par c) i) as [Epc | Epc].
                   --- apply Hjmin; [lia|exact Epc].
                   --- apply I1; [lia|exact Epc].
          -- intros c Hc Epc _. rewrite !Hg. rewrite Hpj.
             pose proof (par_lt c ltac:(lia)).
             destruct (Nat.eqb_spec i j); [lia|]. rewrite Nat.eqb_refl.
             destruct (Nat.eqb_spec c j); [lia|]. destruct (Nat.eqb_spec c i); [lia|].
             rewrite <- Epc. apply I1; [lia|lia].
        * exists l'', i''. repeat split; auto.
          -- eapply perm_trans; eassumption.
          -- lia.
          -- lia.
          -- intros k Hk. rewrite Hbey by exact Hk. rewrite Hg.
             destruct (Nat.eqb_spec k j); [lia|]. destruct (Nat.eqb_spec k i); [lia|]. reflexivity.
          -- lia.
      + exists l, i. repeat split; auto. intros c Hc.
        destruct (Nat.eq_dec (par c) i) as [Epc | Epc].
        * rewrite Epc. eapply hp_le_trans; [exact El|]. apply Hjmin; [lia|exact Epc].
        * apply I1; [lia|exact Epc].
  Qed.

  Lemma hp_down_spec (l : list A) i n :
    n <= length l -> down_inv n l i ->
    exists l' b, hp_down less (hp_down_fuel n) l i n = HpOk (l', b) /\ heap_upto n l' /\
                 Permutation l l' /\ length l' = length l /\
                 (forall k, n <= k -> get l' k = get l k) /\
                 (b = false -> l' = l).
  Proof.
    intros Hn Hinv.
    destruct (hp_down_loop_spec (hp_down_fuel n) l i n Hn ltac:(unfold hp_down_fuel; lia) Hinv)
      as (l' & i' & Hr & Hh & Hp & Hl & Hle & Hbey & Hsame).
    unfold hp_down. rewrite Hr. exists l', (i <? i'). repeat split; auto.
    intros Hb. apply Hsame. apply Nat.ltb_ge in Hb. lia.
  Qed.
End HeapProofs.

(* -------------------------------------------------------------------- Push / Pop / Top *)
Section HeapOps.
  Context {A : Type}.
  Variable less : A -> A -> bool.
  Hypothesis Hasym : hp_asym less.
  Hypothesis Hnt : hp_negtrans less.

  (* Push: never panics, never runs out of fuel; heap invariant kept; the new array is a
     permutation of x :: old array; the length grows by exactly one *)
  Lemma hp_push_spec (l : list A) (x : A) :
    hp_heap less l ->
    exists l', hp_push less l x = HpOk l' /\ hp_heap less l' /\
               Permutation l' (x :: l) /\ length l' = S (length l).
  Proof.
    intros Hh. unfold hp_push.
    assert (Hlen : length (l ++ [x]) = S (length l)) by (rewrite app_length; cbn; lia).
    rewrite Hlen. replace (S (length l) - 1) with (length l) by lia.
    destruct (hp_up_spec less Hasym Hnt x (hp_up_fuel (length l)) (l ++ [x]) (length l))
      as (l' & Hr & Hh' & Hp & Hl').
    - lia.
    - unfold hp_up_fuel. lia.
    - split.
      + intros c Hc Hne. rewrite Hlen in Hc.
        assert (Hp : par c < c) by (apply par_lt; lia).
        rewrite !app_nth1 by lia.
        apply (proj1 (hp_heap_iff less x l)); [exact Hh|lia].
      + intros c Hc Epc _. rewrite Hlen in Hc.
        apply par_child in Epc; lia.
    - exists l'. split; [exact Hr|]. split; [apply (hp_heap_iff less x); exact Hh'|].
      split; [|lia].
      eapply perm_trans; [apply Permutation_sym; exact Hp|].
      apply Permutation_sym, Permutation_cons_append.
  Qed.

  (* Top / element 0 of a heap is a minimum *)
  Lemma hp_top_min (l : list A) (r : A) :
    hp_heap less l -> hp_top l = Some r -> forall y, In y l -> less y r = false.
  Proof.
    intros Hh Hr y Hy. unfold hp_top in Hr.
    apply (hp_heap_iff less r) in Hh.
    destruct (In_nth l y r Hy) as (k & Hk & <-).
    apply nth_error_nth with (d := r) in Hr. rewrite <- Hr at 2.
    apply (hp_root_min_get less Hasym Hnt r (length l) l Hh k Hk).
  Qed.

  (* Pop of a non-empty heap: never panics; returns element 0 (a minimum); the rest is a
     heap; old array is a permutation of popped :: new array; length shrinks by one *)
  Lemma hp_pop_spec (l : list A) :
    hp_heap less l -> l <> [] ->
    exists m l', hp_pop less l = HpOk (l', m) /\ hp_heap less l' /\
                 Permutation l (m :: l') /\ S (length l') = length l /\
                 hp_top l = Some m /\
                 (forall y, In y l -> less y m = false).
  Proof.
    intros Hh Hne. destruct l as [|r t]; [contradiction|]. clear Hne.
    set (l := r :: t) in *.
    assert (Hlen : length l = S (length t)) by reflexivity.
    unfold hp_pop. rewrite Hlen.
    destruct (hp_swap_some l 0 (length t)) as [l1 Hs]; [lia|lia|]. rewrite Hs.
    destruct (hp_swap_spec _ _ _ _ Hs) as (_ & _ & Hlen1 & Hperm1 & _).
    pose proof (fun k => hp_swap_get r l l1 0 (length t) k Hs) as Hg.
    pose proof (proj1 (hp_heap_iff less r l) Hh) as Hh0.
    destruct (hp_down_spec less Hasym Hnt r l1 0 (length t)) as (l2 & b & Hr & Hh2 & Hp2 & Hl2 & Hbey & _).
    - lia.
    - split.
      + intros c Hc Hpc. rewrite !Hg.
        assert (Hp : par c < c) by (apply par_lt; lia).
        destruct (Nat.eqb_spec (par c) (length t)); [lia|].
        destruct (Nat.eqb_spec (par c) 0); [lia|].
        destruct (Nat.eqb_spec c (length t)); [lia|].
        destruct (Nat.eqb_spec c 0); [lia|].
        apply Hh0. lia.
      + intros; lia.
    - rewrite Hr. unfold hp_pop_last. rewrite Hl2, Hlen1, Hlen.
      assert (Elast : nth (length t) l2 r = r).
      { rewrite Hbey by lia. rewrite Hg. rewrite Nat.eqb_refl. reflexivity. }
      rewrite (hp_nth_error_get r l2 (length t)) by lia. rewrite Elast.
      exists r, (firstn (length t) l2).
      assert (Hsplit : l2 = firstn (length t) l2 ++ [r]).
      { rewrite <- (firstn_skipn (length t) l2) at 1. f_equal.
        assert (Hsk : length (skipn (length t) l2) = 1) by (rewrite skipn_length; lia).
        destruct (skipn (length t) l2) as [|z [|? ?]] eqn:Esk; cbn in Hsk; try lia.
        f_equal. rewrite <- Elast.
        rewrite <- (firstn_skipn (length t) l2) at 1.
        rewrite app_nth2; rewrite firstn_length; [|lia].
        replace (length t - Nat.min (length t) (length l2)) with 0 by lia.
        rewrite Esk. reflexivity. }
      assert (Hfl : length (firstn (length t) l2) = length t) by (rewrite firstn_length; lia).
      split; [reflexivity|]. split.
      + apply (hp_heap_iff less r). rewrite Hfl. intros c Hc.
        assert (Hp : par c < c) by (apply par_lt; lia).
        specialize (Hh2 c Hc). rewrite Hsplit in Hh2.
        rewrite !app_nth1 in Hh2 by lia. exact Hh2.
      + split.
        * eapply perm_trans; [exact Hperm1|]. eapply perm_trans; [exact Hp2|].
          rewrite Hsplit at 1. apply Permutation_sym, Permutation_cons_append.
        * split; [lia|]. split; [reflexivity|].
          apply (hp_top_min l r Hh). reflexivity.
  Qed.

  Lemma hp_pop_empty : hp_pop less (@nil A) = HpPanic.
  Proof. reflexivity. Qed.

  (* ---------------------------------------------------------------- call sequences *)
  Lemma hp_apply_basic_spec (l : list A) (op : hp_op A) :
    hp_heap less l -> hp_basic op = true ->
    match op with
    | HpPush x => exists l', hp_apply less l op = HpOk (l', None) /\ hp_heap less l' /\
                             Permutation l' (x :: l) /\ length l' = S (length l)
    | HpPop => (l = [] /\ hp_apply less l op = HpPanic) \/
               (exists m l', hp_apply less l op = HpOk (l', Some m) /\ hp_heap less l' /\
                             Permutation l (m :: l') /\ S (length l') = length l /\
                             (forall y, In y l -> less y m = false))
    | HpTop => hp_apply less l op = HpOk (l, hp_top l) /\
               (forall m y, hp_top l = Some m -> In y l -> less y m = false) /\
               (hp_top l = None <-> l = [])
    | _ => True
    end.
  Proof.
    intros Hh Hb. destruct op as [x| | | |]; cbn in Hb; try discriminate; cbn [hp_apply].
    - destruct (hp_push_spec l x Hh) as (l' & Hr & H1 & H2 & H3). rewrite Hr. eauto.
    - destruct l as [|r t]; [left; split; reflexivity|right].
      destruct (hp_pop_spec (r :: t) Hh ltac:(discriminate)) as (m & l' & Hr & H1 & H2 & H3 & _ & H5).
      rewrite Hr. exists m, l'. auto.
    - split; [reflexivity|]. split.
      + intros m y Hm Hy. exact (hp_top_min l m Hh Hm y Hy).
      + unfold hp_top. destruct l; cbn; split; congruence.
  Qed.

  (* Every sequence of Push/Pop/Top calls on a heap that never pops an empty queue:
     no panic, no fuel exhaustion, invariant kept, multiset preserved
     (final array + popped values = initial array + pushed values), length exact, and
     every Pop returned a minimum of the array it was applied to (see hp_apply_basic_spec;
     here: the outputs are those of the single steps). *)
  Lemma hp_run_basic_spec (ops : list (hp_op A)) : forall (l : list A),
    hp_heap less l -> forallb hp_basic ops = true -> hp_no_underflow (length l) ops = true ->
    exists l' outs, hp_run less l ops = HpOk (l', outs) /\ hp_heap less l' /\
                    length outs = length ops /\
                    Permutation (l' ++ hp_popped ops outs) (l ++ hp_pushed ops) /\
                    length l' + length (hp_popped ops outs) = length l + length (hp_pushed ops).
  Proof.
    induction ops as [|op rest IH]; intros l Hh Hb Hu.
    - exists l, []. cbn. rewrite !app_nil_r. repeat split; auto.
    - cbn in Hb. apply andb_prop in Hb as [Hb1 Hb2].
      pose proof (hp_apply_basic_spec l op Hh Hb1) as Hs.
      destruct op as [x| | | |]; cbn in Hb1; try discriminate.
      + destruct Hs as (l1 & Hr & H1 & H2 & H3).
        cbn [hp_no_underflow] in Hu. rewrite <- H3 in Hu.
        destruct (IH l1 H1 Hb2 Hu) as (l' & outs & Hr' & H1' & Hlo & H2' & H3').
        exists l', (None :: outs). cbn [hp_run]. rewrite Hr, Hr'.
        split; [reflexivity|]. split; [exact H1'|]. split; [cbn; lia|].
        cbn [hp_popped hp_pushed]. split.
        * eapply perm_trans; [exact H2'|].
          eapply perm_trans; [apply Permutation_app_tail; exact H2|].
          cbn. apply Permutation_middle.
        * cbn [length]. lia.
      + destruct Hs as [[-> _] | (m & l1 & Hr & H1 & H2 & H3 & _)]; [cbn in Hu; discriminate|].
        cbn [hp_no_underflow] in Hu. rewrite <- H3 in Hu.
        destruct (IH l1 H1 Hb2 Hu) as (l' & outs & Hr' & H1' & Hlo & H2' & H3').
        exists l', (Some m :: outs). cbn [hp_run]. rewrite Hr, Hr'.
        split; [reflexivity|]. split; [exact H1'|]. split; [cbn; lia|].
        cbn [hp_popped hp_pushed]. split.
        * eapply perm_trans; [apply Permutation_sym, Permutation_middle|].
          eapply perm_trans; [apply perm_skip; exact H2'|].
          change (m :: l1 ++ hp_pushed rest) with ((m :: l1) ++ hp_pushed rest).
          apply Permutation_app_tail, Permutation_sym, H2.
        * cbn [length]. lia.
      + destruct Hs as (Hr & _).
        cbn [hp_no_underflow] in Hu.
        destruct (IH l Hh Hb2 Hu) as (l' & outs & Hr' & H1' & Hlo & H2' & H3').
        exists l', (hp_top l :: outs). cbn [hp_run]. rewrite Hr, Hr'.
        split; [reflexivity|]. split; [exact H1'|]. split; [cbn; lia|].
        cbn [hp_popped hp_pushed]. split; assumption.
  Qed.

  (* a Pop on an empty queue is the only way to panic *)
  Lemma hp_run_basic_panic (ops : list (hp_op A)) : forall (l : list A),
    hp_heap less l -> forallb hp_basic ops = true ->
    (hp_run less l ops = HpPanic <-> hp_no_underflow (length l) ops = false) /\
    hp_run less l ops <> HpNoFuel.
  Proof.
    induction ops as [|op rest IH]; intros l Hh Hb.
    - cbn. split; [split; discriminate|discriminate].
    - cbn in Hb. apply andb_prop in Hb as [Hb1 Hb2].
      pose proof (hp_apply_basic_spec l op Hh Hb1) as Hs.
      destruct op as [x| | | |]; cbn in Hb1; try discriminate.
      + destruct Hs as (l1 & Hr & H1 & _ & H3).
        cbn [hp_run hp_no_underflow]. rewrite Hr, <- H3.
        destruct (IH l1 H1 Hb2) as [Hi Hn].
        destruct (hp_run less l1 rest) as [[? ?]| |]; split; try tauto; try discriminate.
        split; [discriminate|]. intros Hx. apply Hi in Hx. discriminate.
      + destruct Hs as [[-> Hr] | (m & l1 & Hr & H1 & _ & H3 & _)].
        * cbn [hp_run hp_no_underflow length]. rewrite Hr. split; [tauto|discriminate].
        * cbn [hp_run hp_no_underflow]. rewrite Hr, <- H3.
          destruct (IH l1 H1 Hb2) as [Hi Hn].
          destruct (hp_run less l1 rest) as [[? ?]| |]; split; try tauto; try discriminate.
          split; [discriminate|]. intros Hx. apply Hi in Hx. discriminate.
      + destruct Hs as (Hr & _).
        cbn [hp_run hp_no_underflow]. rewrite Hr.
        destruct (IH l Hh Hb2) as [Hi Hn].
        destruct (hp_run less l rest) as [[? ?]| |]; split; try tauto; try discriminate.
        split; [discriminate|]. intros Hx. apply Hi in Hx. discriminate.
  Qed.

  Lemma hp_heap_nil : hp_heap less (@nil A).
  Proof. intros c x p _ H. destruct c; discriminate. Qed.
End HeapOps.
