(* SortPivot.v -- the postcondition of the transcribed doPivot_func (models/Sort.v,
   srt_do_pivot): for every strict weak order it returns a three-zone partition
   (srt_partition_ok of SortSorted.v).  Partial-correctness reasoning by inversion of the
   monadic binds: a run that returned SOk made only in-range accesses, so every value that
   was compared or swapped exists; the zones are tracked as srt_all_on predicates relative
   to the pivot VALUE p (which sits at index lo until the final swap). *)
From Got Require Import Base Sort SortProofs SortSorted.
Require Import Permutation Sorted.
Local Open Scope Z_scope.

(* ------------------------------------------------------------------ zones *)
Section Zones.
  Context {A : Type}.
  Implicit Types (P Q : A -> Prop) (l : list A).

  Lemma srt_all_on_empty P l u v : v <= u -> srt_all_on P l u v.
  Proof. intros H i x Hi. lia. Qed.

  Lemma srt_all_on_sub P l u v u' v' :
    u <= u' -> v' <= v -> srt_all_on P l u v -> srt_all_on P l u' v'.
  Proof. intros H1 H2 H i x Hi. apply H. lia. Qed.

  Lemma srt_all_on_impl P Q l u v :
    (forall x, P x -> Q x) -> srt_all_on P l u v -> srt_all_on Q l u v.
  Proof. intros HPQ H i x Hi Hx. apply HPQ. eapply H; eassumption. Qed.

  Lemma srt_all_on_and P Q l u v :
    srt_all_on P l u v -> srt_all_on Q l u v -> srt_all_on (fun x => P x /\ Q x) l u v.
  Proof. intros H1 H2 i x Hi Hx. split; [eapply H1|eapply H2]; eassumption. Qed.

  Lemma srt_all_on_app P l u v w :
    srt_all_on P l u v -> srt_all_on P l v w -> srt_all_on P l u w.
  Proof.
    intros H1 H2 i x Hi Hx. destruct (Z.lt_ge_cases i v); [eapply H1|eapply H2]; try eassumption; lia.
  Qed.

  Lemma srt_all_on_one P l u x :
    srt_zget l u = Some x -> P x -> srt_all_on P l u (u + 1).
  Proof.
    intros Hx HP i y Hi Hy. assert (i = u) by lia. subst i. rewrite Hx in Hy. injection Hy as <-. exact HP.
  Qed.

  Lemma srt_all_on_snoc P l u v x :
    srt_all_on P l u v -> srt_zget l v = Some x -> P x -> srt_all_on P l u (v + 1).
  Proof. intros H Hx HP. eapply srt_all_on_app; [exact H|]. eapply srt_all_on_one; eassumption. Qed.

  Lemma srt_all_on_cons P l u v x :
    srt_all_on P l u v -> srt_zget l (u - 1) = Some x -> P x -> srt_all_on P l (u - 1) v.
  Proof.
    intros H Hx HP. eapply srt_all_on_app; [|exact H].
    replace u with (u - 1 + 1) at 2 by lia. eapply srt_all_on_one; eassumption.
  Qed.

  (* the zone is the same in l' *)
  Lemma srt_all_on_eq P l l' u v :
    (forall k, u <= k < v -> srt_zget l' k = srt_zget l k) ->
    srt_all_on P l u v -> srt_all_on P l' u v.
  Proof. intros He H i x Hi Hx. apply (H i x Hi). rewrite <- He by lia. exact Hx. Qed.

  (* ... except at one index, where the new value satisfies P as well *)
  Lemma srt_all_on_upd P l l' u v j y :
    (forall k, u <= k < v -> k <> j -> srt_zget l' k = srt_zget l k) ->
    srt_zget l' j = Some y -> P y ->
    srt_all_on P l u v -> srt_all_on P l' u v.
  Proof.
    intros He Hj HP H i x Hi Hx. destruct (Z.eq_dec i j) as [->|N].
    - rewrite Hj in Hx. injection Hx as <-. exact HP.
    - apply (H i x Hi). rewrite <- He by lia. exact Hx.
  Qed.
End Zones.

(* ------------------------------------------------------------------ scans *)
Section Scans.
  Context {K V : Type}.
  Variable less : K -> K -> bool.
  Notation ST := (srt_state K V).
  Notation M := (@srt_M K V).

  (* a loop condition that only reads key k, leaves the keys alone and answers f (keys[k]) *)
  Definition srt_cond_ok (cond : Z -> M bool) (ks : list K) (f : K -> bool) : Prop :=
    forall k (s : ST) t s', st_keys s = ks -> cond k s = SOk (t, s') ->
      st_keys s' = ks /\ exists x, srt_zget ks k = Some x /\ t = f x.

  Lemma srt_cond_less_l ks pivot p :
    srt_zget ks pivot = Some p ->
    srt_cond_ok (fun i => srt_less less i pivot) ks (fun x => less x p).
  Proof.
    intros Hp k s t s' Hs E. apply srt_inv_less in E.
    destruct E as (x & y & Hx & Hy & -> & Hk & _). rewrite Hs in *.
    rewrite Hp in Hy. injection Hy as <-. split; [exact Hk|]. exists x. auto.
  Qed.

  Lemma srt_cond_less_r ks pivot p :
    srt_zget ks pivot = Some p ->
    srt_cond_ok (fun i => srt_less less pivot i) ks (fun x => less p x).
  Proof.
    intros Hp k s t s' Hs E. apply srt_inv_less in E.
    destruct E as (x & y & Hx & Hy & -> & Hk & _). rewrite Hs in *.
    rewrite Hp in Hx. injection Hx as <-. split; [exact Hk|]. exists y. auto.
  Qed.

  Lemma srt_cond_nless_l ks pivot p :
    srt_zget ks pivot = Some p ->
    srt_cond_ok (fun i => srt_bind (srt_less less i pivot) (fun t => srt_ret (negb t))) ks
                (fun x => negb (less x p)).
  Proof.
    intros Hp k s t s' Hs E. apply srt_inv_bind in E. destruct E as (t0 & s0 & E0 & E).
    apply srt_inv_ret in E. destruct E as [<- <-].
    destruct (srt_cond_less_l ks pivot p Hp k s t0 s0 Hs E0) as (Hk & x & Hx & ->).
    split; [exact Hk|]. exists x. auto.
  Qed.

  Lemma srt_cond_nless_r ks pivot p :
    srt_zget ks pivot = Some p ->
    srt_cond_ok (fun i => srt_bind (srt_less less pivot i) (fun t => srt_ret (negb t))) ks
                (fun x => negb (less p x)).
  Proof.
    intros Hp k s t s' Hs E. apply srt_inv_bind in E. destruct E as (t0 & s0 & E0 & E).
    apply srt_inv_ret in E. destruct E as [<- <-].
    destruct (srt_cond_less_r ks pivot p Hp k s t0 s0 Hs E0) as (Hk & x & Hx & ->).
    split; [exact Hk|]. exists x. auto.
  Qed.

  (* for ; i < lim && cond(i); i++ {} *)
  Lemma srt_scan_up_aux_inv cond ks f :
    srt_cond_ok cond ks f ->
    forall n i (s : ST) r s', st_keys s = ks ->
      srt_scan_up_aux n cond i s = SOk (r, s') ->
      st_keys s' = ks /\ i <= r <= i + Z.of_nat n /\
      srt_all_on (fun x => f x = true) ks i r /\
      (r < i + Z.of_nat n -> exists x, srt_zget ks r = Some x /\ f x = false).
  Proof.
    intros Hc. induction n as [|n IH]; intros i s r s' Hs E; cbn [srt_scan_up_aux] in E.
    - apply srt_inv_ret in E. destruct E as [<- <-]. split; [exact Hs|]. split; [lia|].
      split; [apply srt_all_on_empty; lia|lia].
    - apply srt_inv_bind in E. destruct E as (t & s1 & E1 & E).
      destruct (Hc i s t s1 Hs E1) as (Hs1 & x & Hx & ->).
      destruct (f x) eqn:Hf.
      + destruct (IH (i + 1) s1 r s' Hs1 E) as (Hs' & Hr & Hall & Hstop).
        split; [exact Hs'|]. split; [lia|]. split.
        * replace i with (i + 1 - 1) by lia. eapply srt_all_on_cons; [exact Hall| |exact Hf].
          replace (i + 1 - 1) with i by lia. exact Hx.
        * intros Hlt. apply Hstop. lia.
      + apply srt_inv_ret in E. destruct E as [<- <-]. split; [exact Hs1|]. split; [lia|].
        split; [apply srt_all_on_empty; lia|]. intros _. exists x. auto.
  Qed.

  Lemma srt_scan_up_inv cond ks f i lim (s : ST) r s' :
    srt_cond_ok cond ks f -> st_keys s = ks ->
    srt_scan_up cond i lim s = SOk (r, s') ->
    st_keys s' = ks /\ i <= r <= Z.max i lim /\
    srt_all_on (fun x => f x = true) ks i r /\
    (r < lim -> exists x, srt_zget ks r = Some x /\ f x = false).
  Proof.
    intros Hc Hs E. unfold srt_scan_up in E.
    destruct (srt_scan_up_aux_inv cond ks f Hc _ i s r s' Hs E) as (Hs' & Hr & Hall & Hstop).
    split; [exact Hs'|]. split; [lia|]. split; [exact Hall|]. intros Hlt. apply Hstop. lia.
  Qed.

  (* for ; lim < x && cond(x-1); x-- {} *)
  Lemma srt_scan_down_aux_inv cond ks f :
    srt_cond_ok cond ks f ->
    forall n x (s : ST) r s', st_keys s = ks ->
      srt_scan_down_aux n cond x s = SOk (r, s') ->
      st_keys s' = ks /\ x - Z.of_nat n <= r <= x /\
      srt_all_on (fun y => f y = true) ks r x /\
      (x - Z.of_nat n < r -> exists y, srt_zget ks (r - 1) = Some y /\ f y = false).
  Proof.
    intros Hc. induction n as [|n IH]; intros x s r s' Hs E; cbn [srt_scan_down_aux] in E.
    - apply srt_inv_ret in E. destruct E as [<- <-]. split; [exact Hs|]. split; [lia|].
      split; [apply srt_all_on_empty; lia|lia].
    - apply srt_inv_bind in E. destruct E as (t & s1 & E1 & E).
      destruct (Hc (x - 1) s t s1 Hs E1) as (Hs1 & y & Hy & ->).
      destruct (f y) eqn:Hf.
      + destruct (IH (x - 1) s1 r s' Hs1 E) as (Hs' & Hr & Hall & Hstop).
        split; [exact Hs'|]. split; [lia|]. split.
        * replace x with (x - 1 + 1) by lia. eapply srt_all_on_snoc; [exact Hall|exact Hy|exact Hf].
        * intros Hlt. apply Hstop. lia.
      + apply srt_inv_ret in E. destruct E as [<- <-]. split; [exact Hs1|]. split; [lia|].
        split; [apply srt_all_on_empty; lia|]. intros _. exists y. auto.
  Qed.

  Lemma srt_scan_down_inv cond ks f lim x (s : ST) r s' :
    srt_cond_ok cond ks f -> st_keys s = ks ->
    srt_scan_down cond lim x s = SOk (r, s') ->
    st_keys s' = ks /\ Z.min lim x <= r <= x /\
    srt_all_on (fun y => f y = true) ks r x /\
    (lim < r -> exists y, srt_zget ks (r - 1) = Some y /\ f y = false).
  Proof.
    intros Hc Hs E. unfold srt_scan_down in E.
    destruct (srt_scan_down_aux_inv cond ks f Hc _ x s r s' Hs E) as (Hs' & Hr & Hall & Hstop).
    split; [exact Hs'|]. split; [lia|]. split; [exact Hall|]. intros Hlt. apply Hstop. lia.
  Qed.
End Scans.

(* ------------------------------------------------------------------ doPivot *)
Section Pivot.
  Context {K V : Type}.
  Variable less : K -> K -> bool.
  Hypothesis less_irrefl : forall x, less x x = false.
  Hypothesis less_trans : forall x y z, less x y = true -> less y z = true -> less x z = true.
  Notation ST := (srt_state K V).

  Lemma srt_less_asym x y : less x y = true -> less y x = false.
  Proof.
    intros H. destruct (less y x) eqn:E; [|reflexivity].
    pose proof (less_trans _ _ _ H E) as C. rewrite less_irrefl in C. discriminate.
  Qed.

  (* what a swap does to the keys, as a function of the index *)
  Lemma srt_inv_swap_keys i j (s : ST) u s' :
    srt_swap i j s = SOk (u, s') ->
    exists x y, srt_zget (st_keys s) i = Some x /\ srt_zget (st_keys s) j = Some y /\
                srt_zget (st_keys s') i = Some y /\ srt_zget (st_keys s') j = Some x /\
                (forall k, k <> i -> k <> j -> srt_zget (st_keys s') k = srt_zget (st_keys s) k).
  Proof. apply srt_inv_swap. Qed.

  (* medianOfThree_func(data, m1, m0, m2) on three different indices: afterwards
     data[m1] is not after data[m2] (it also holds data[m0] <= data[m1]; not needed) *)
  Lemma srt_median3_order m1 m0 m2 (s : ST) u s' :
    m1 <> m0 -> m1 <> m2 -> m0 <> m2 ->
    srt_median3 less m1 m0 m2 s = SOk (u, s') ->
    exists x y, srt_zget (st_keys s') m1 = Some x /\ srt_zget (st_keys s') m2 = Some y /\
                less y x = false.
  Proof.
    intros N10 N12 N02 E. unfold srt_median3 in E.
    apply srt_inv_bind in E. destruct E as (t1 & s1 & E1 & E).
    apply srt_inv_less in E1. destruct E1 as (a1 & a0 & Ha1 & Ha0 & -> & Hk1 & _).
    apply srt_inv_bind in E. destruct E as (u2 & s2 & E2 & E).
    (* after the first step: v0 at m0, v1 at m1 with v0 <= v1 *)
    assert (S2 : exists v0 v1, srt_zget (st_keys s2) m0 = Some v0 /\ srt_zget (st_keys s2) m1 = Some v1 /\
                   less v1 v0 = false /\
                   srt_zget (st_keys s2) m2 = srt_zget (st_keys s) m2).
    { destruct (less a1 a0) eqn:L1.
      - apply srt_inv_swap in E2. rewrite Hk1 in E2.
        destruct E2 as (x & y & Hx & Hy & Hn1 & Hn0 & Hoth).
        rewrite Ha1 in Hx. injection Hx as <-. rewrite Ha0 in Hy. injection Hy as <-.
        exists a1, a0. split; [exact Hn0|]. split; [exact Hn1|]. split; [apply srt_less_asym; exact L1|].
        apply Hoth; congruence.
      - apply srt_inv_ret in E2. destruct E2 as [_ <-]. rewrite Hk1.
        exists a0, a1. auto. }
    destruct S2 as (v0 & v1 & Hv0 & Hv1 & L01 & Hm2).
    apply srt_inv_bind in E. destruct E as (t3 & s3 & E3 & E).
    apply srt_inv_less in E3. destruct E3 as (v2 & v1' & Hv2 & Hv1' & -> & Hk3 & _).
    rewrite Hv1 in Hv1'. injection Hv1' as <-.
    destruct (less v2 v1) eqn:L21.
    - apply srt_inv_bind in E. destruct E as (u4 & s4 & E4 & E).
      apply srt_inv_swap in E4. rewrite Hk3 in E4.
      destruct E4 as (x & y & Hx & Hy & Hn2 & Hn1 & Hoth).
      rewrite Hv2 in Hx. injection Hx as <-. rewrite Hv1 in Hy. injection Hy as <-.
      assert (Hn0 : srt_zget (st_keys s4) m0 = Some v0) by (rewrite Hoth by congruence; exact Hv0).
      apply srt_inv_bind in E. destruct E as (t5 & s5 & E5 & E).
      apply srt_inv_less in E5. destruct E5 as (x & y & Hx & Hy & -> & Hk5 & _).
      rewrite Hn1 in Hx. injection Hx as <-. rewrite Hn0 in Hy. injection Hy as <-.
      destruct (less v2 v0) eqn:L20.
      + apply srt_inv_swap in E. rewrite Hk5 in E.
        destruct E as (x & y & Hx & Hy & Hf1 & Hf0 & Hoth2).
        rewrite Hn1 in Hx. injection Hx as <-. rewrite Hn0 in Hy. injection Hy as <-.
        exists v0, v1. split; [exact Hf1|]. split; [rewrite Hoth2 by congruence; exact Hn2|exact L01].
      + apply srt_inv_ret in E. destruct E as [_ <-]. rewrite Hk5.
        exists v2, v1. split; [exact Hn1|]. split; [exact Hn2|apply srt_less_asym; exact L21].
    - apply srt_inv_ret in E. destruct E as [_ <-]. rewrite Hk3.
      exists v1, v2. auto.
  Qed.

  (* zones relative to the pivot value p *)
  Variable p : K.
  Definition srt_ltp (x : K) : Prop := less x p = true.     (* x before p *)
  Definition srt_lep (x : K) : Prop := less p x = false.    (* x not after p *)
  Definition srt_gtp (x : K) : Prop := less p x = true.     (* x after p *)
  Definition srt_gep (x : K) : Prop := less x p = false.    (* x not before p *)
  Definition srt_eqp (x : K) : Prop := srt_lep x /\ srt_gep x.

  Lemma srt_ltp_lep x : srt_ltp x -> srt_lep x.
  Proof. apply srt_less_asym. Qed.
  Lemma srt_gtp_gep x : srt_gtp x -> srt_gep x.
  Proof. apply srt_less_asym. Qed.
  Lemma srt_eqp_p : srt_eqp p.
  Proof. split; apply less_irrefl. Qed.

  (* main partition loop.  Before: keys[a,b) <= p, keys[c,hi1) > p, pivot at lo < a.
     After: the two indices have met, only [b,c) was touched, the zones have grown. *)
  Lemma srt_part_loop_inv lo hi1 a : forall fuel b c (s : ST) b' c' s',
    lo < a -> a <= b -> b <= c -> c <= hi1 ->
    srt_zget (st_keys s) lo = Some p ->
    srt_all_on srt_lep (st_keys s) a b -> srt_all_on srt_gtp (st_keys s) c hi1 ->
    srt_part_loop less fuel lo b c s = SOk ((b', c'), s') ->
    b' = c' /\ b <= b' /\ c' <= c /\
    (forall k, k < b \/ c <= k -> srt_zget (st_keys s') k = srt_zget (st_keys s) k) /\
    srt_all_on srt_lep (st_keys s') a b' /\ srt_all_on srt_gtp (st_keys s') c' hi1.
  Proof.
    induction fuel as [|f IH]; intros b c s b' c' s' Hlo Hab Hbc Hc Hp ZL ZG E;
      cbn [srt_part_loop] in E; [discriminate|].
    apply srt_inv_bind in E. destruct E as (b1 & s1 & E1 & E).
    destruct (srt_scan_up_inv less _ _ _ _ _ _ _ _ (srt_cond_nless_r less _ lo p Hp) eq_refl E1)
      as (Hk1 & Hb1 & A1 & Stop1).
    apply srt_inv_bind in E. destruct E as (c1 & s2 & E2 & E).
    destruct (srt_scan_down_inv less _ _ _ _ _ _ _ _ (srt_cond_less_r less _ lo p Hp) Hk1 E2)
      as (Hk2 & Hc1 & A2 & Stop2).
    assert (ZL1 : srt_all_on srt_lep (st_keys s) a b1).
    { eapply srt_all_on_app; [exact ZL|]. eapply srt_all_on_impl; [|exact A1].
      unfold srt_lep. intros x Hx. apply negb_true_iff in Hx. exact Hx. }
    assert (ZG1 : srt_all_on srt_gtp (st_keys s) c1 hi1).
    { eapply srt_all_on_app; [|exact ZG]. exact A2. }
    destruct (Z.leb_spec c1 b1) as [Hmeet|Hgo].
    - apply srt_inv_ret in E. destruct E as [E <-]. injection E as <- <-. rewrite Hk2.
      split; [lia|]. split; [lia|]. split; [lia|]. split; [reflexivity|]. split; assumption.
    - destruct Stop1 as (x & Hx & Fx); [lia|]. apply negb_false_iff in Fx.
      destruct Stop2 as (y & Hy & Fy); [lia|].
      assert (Hne : b1 <> c1 - 1).
      { intros Heq. rewrite <- Heq in Hy. rewrite Hx in Hy. injection Hy as <-. congruence. }
      apply srt_inv_bind in E. destruct E as (u3 & s3 & E3 & E).
      apply srt_inv_swap in E3. rewrite Hk2 in E3.
      destruct E3 as (x' & y' & Hx' & Hy' & Hnb & Hnc & Hoth).
      rewrite Hx in Hx'. injection Hx' as <-. rewrite Hy in Hy'. injection Hy' as <-.
      destruct (IH (b1 + 1) (c1 - 1) s3 b' c' s') as (R1 & R2 & R3 & R4 & R5 & R6); try lia; try exact E.
      + rewrite Hoth by lia. exact Hp.
      + eapply srt_all_on_snoc; [|exact Hnb|exact Fy].
        eapply srt_all_on_eq; [|exact ZL1]. intros k Hk. apply Hoth; lia.
      + eapply srt_all_on_cons; [|exact Hnc|exact Fx].
        eapply srt_all_on_eq; [|exact ZG1]. intros k Hk. apply Hoth; lia.
      + split; [exact R1|]. split; [lia|]. split; [lia|]. split; [|split; assumption].
        intros k Hk. rewrite R4 by lia. apply Hoth; lia.
  Qed.

  (* protect loop.  Before: keys[a,b) <= p, pivot at lo < a.  After: only [a,b) was
     touched, keys[a,r) < p and keys[r,b) equivalent to p. *)
  Lemma srt_prot_loop_inv lo : forall fuel a b (s : ST) r s',
    lo < a -> a <= b ->
    srt_zget (st_keys s) lo = Some p ->
    srt_all_on srt_lep (st_keys s) a b ->
    srt_prot_loop less fuel lo a b s = SOk (r, s') ->
    a <= r <= b /\
    (forall k, k < a \/ b <= k -> srt_zget (st_keys s') k = srt_zget (st_keys s) k) /\
    srt_all_on srt_ltp (st_keys s') a r /\ srt_all_on srt_eqp (st_keys s') r b.
  Proof.
    induction fuel as [|f IH]; intros a b s r s' Hlo Hab Hp ZL E;
      cbn [srt_prot_loop] in E; [discriminate|].
    apply srt_inv_bind in E. destruct E as (b1 & s1 & E1 & E).
    destruct (srt_scan_down_inv less _ _ _ _ _ _ _ _ (srt_cond_nless_l less _ lo p Hp) eq_refl E1)
      as (Hk1 & Hb1 & A1 & Stop1).
    apply srt_inv_bind in E. destruct E as (a1 & s2 & E2 & E).
    destruct (srt_scan_up_inv less _ _ _ _ _ _ _ _ (srt_cond_less_l less _ lo p Hp) Hk1 E2)
      as (Hk2 & Ha1 & A2 & Stop2).
    assert (ZE1 : srt_all_on srt_eqp (st_keys s) b1 b).
    { apply srt_all_on_and; [eapply srt_all_on_sub; [| |exact ZL]; lia|].
      eapply srt_all_on_impl; [|exact A1].
      unfold srt_gep. intros x Hx. apply negb_true_iff in Hx. exact Hx. }
    destruct (Z.leb_spec b1 a1) as [Hmeet|Hgo].
    - apply srt_inv_ret in E. destruct E as [<- <-]. rewrite Hk2.
      split; [lia|]. split; [reflexivity|]. split; [|exact ZE1].
      eapply srt_all_on_sub; [| |exact A2]; lia.
    - destruct Stop1 as (y & Hy & Fy); [lia|]. apply negb_false_iff in Fy.
      destruct Stop2 as (x & Hx & Fx); [lia|].
      assert (Hne : a1 <> b1 - 1).
      { intros Heq. rewrite <- Heq in Hy. rewrite Hx in Hy. injection Hy as <-. congruence. }
      assert (Ex : srt_eqp x) by (split; [apply (ZL a1 x); [lia|exact Hx]|exact Fx]).
      apply srt_inv_bind in E. destruct E as (u3 & s3 & E3 & E).
      apply srt_inv_swap in E3. rewrite Hk2 in E3.
      destruct E3 as (x' & y' & Hx' & Hy' & Hna & Hnb & Hoth).
      rewrite Hx in Hx'. injection Hx' as <-. rewrite Hy in Hy'. injection Hy' as <-.
      destruct (IH (a1 + 1) (b1 - 1) s3 r s') as (R1 & R2 & R3 & R4); try lia; try exact E.
      + rewrite Hoth by lia. exact Hp.
      + eapply srt_all_on_eq; [|eapply srt_all_on_sub; [| |exact ZL]]; [|lia|lia].
        intros k Hk. apply Hoth; lia.
      + split; [lia|]. split; [|split].
        * intros k Hk. rewrite R2 by lia. apply Hoth; lia.
        * eapply srt_all_on_app with (v := a1 + 1); [|exact R3].
          eapply srt_all_on_snoc; [| |exact Fy].
          -- eapply srt_all_on_eq; [|exact A2]. intros k Hk. rewrite R2 by lia. apply Hoth; lia.
          -- rewrite R2 by lia. exact Hna.
        * eapply srt_all_on_app with (v := b1 - 1); [exact R4|].
          replace b1 with (b1 - 1 + 1) at 2 by lia. eapply srt_all_on_app with (v := b1 - 1 + 1).
          -- eapply srt_all_on_one; [|exact Ex]. rewrite R2 by lia. exact Hnb.
          -- replace (b1 - 1 + 1) with b1 by lia.
             eapply srt_all_on_eq; [|exact ZE1]. intros k Hk. rewrite R2 by lia. apply Hoth; lia.
  Qed.
End Pivot.

Section PivotMain.
  Context {K V : Type}.
  Variable less : K -> K -> bool.
  Hypothesis less_irrefl : forall x, less x x = false.
  Hypothesis less_trans : forall x y z, less x y = true -> less y z = true -> less x z = true.
  Notation ST := (srt_state K V).

  (* pivot value p at lo; keys(lo,a) < p; keys[a,b) <= p; keys[b,c) ~ p; keys[c,hi) >= p *)
  Definition srt_mid (ks : list K) (p : K) (lo hi a b c : Z) : Prop :=
    srt_zget ks lo = Some p /\
    srt_all_on (srt_ltp less p) ks (lo + 1) a /\
    srt_all_on (srt_lep less p) ks a b /\
    srt_all_on (srt_eqp less p) ks b c /\
    srt_all_on (srt_gep less p) ks c hi.

  Lemma srt_do_pivot_post lo hi (s : ST) mlo mhi s' :
    0 <= lo -> 12 < hi - lo ->
    srt_do_pivot less lo hi s = SOk ((mlo, mhi), s') ->
    srt_pivot_post less (st_keys s') lo hi mlo mhi.
  Proof.
    intros Hlo Hwid E. unfold srt_do_pivot in E. cbv zeta in E.
    set (m := (lo + hi) / 2) in *.
    assert (Hm : 2 * m <= lo + hi < 2 * m + 2) by (unfold m; lia). clearbody m.
    set (q := (hi - lo) / 4) in *.
    assert (Hq : 4 * q <= hi - lo < 4 * q + 4) by (unfold q; lia). clearbody q.
    apply srt_inv_bind in E. destruct E as (u0 & s0 & _ & E).
    apply srt_inv_bind in E. destruct E as (u1 & s1 & _ & E).
    (* choice of the pivot: p at lo, z at hi-1, p <= z *)
    apply srt_inv_bind in E. destruct E as (u2 & s2 & E2 & E).
    destruct (srt_median3_order less less_irrefl less_trans lo m (hi - 1) s1 u2 s2
                ltac:(lia) ltac:(lia) ltac:(lia) E2) as (p & z & Hp & Hz & Lzp).
    (* first scan *)
    apply srt_inv_bind in E. destruct E as (a & s3 & E3 & E).
    destruct (srt_scan_up_inv less _ _ _ _ _ _ _ _ (srt_cond_less_l less _ lo p Hp) eq_refl E3)
      as (Hk3 & Ha & A3 & _).
    (* main loop *)
    apply srt_inv_bind in E. destruct E as ([b c] & s4 & E4 & E).
    destruct (srt_part_loop_inv less less_irrefl less_trans p lo (hi - 1) a (Z.to_nat (hi - lo)) a (hi - 1) s3 b c s4)
      as (Hbc & Hab & Hch & Out4 & ZL4 & ZG4); try lia; try exact E4.
    { rewrite Hk3. exact Hp. }
    { apply srt_all_on_empty. lia. }
    { apply srt_all_on_empty. lia. }
    subst c. rewrite Hk3 in Out4.
    assert (Hp4 : srt_zget (st_keys s4) lo = Some p) by (rewrite Out4 by lia; exact Hp).
    assert (Hz4 : srt_zget (st_keys s4) (hi - 1) = Some z) by (rewrite Out4 by lia; exact Hz).
    assert (ZS4 : srt_all_on (srt_ltp less p) (st_keys s4) (lo + 1) a).
    { eapply srt_all_on_eq; [|exact A3]. intros k Hk. apply Out4. lia. }
    assert (GE4 : srt_all_on (srt_gep less p) (st_keys s4) b hi).
    { replace hi with (hi - 1 + 1) by lia. eapply srt_all_on_snoc; [|exact Hz4|exact Lzp].
      eapply srt_all_on_impl; [|exact ZG4]. apply srt_gtp_gep; assumption. }
    (* duplicate check *)
    apply srt_inv_bind in E. destruct E as ([[b2 c2] prot] & s5 & E5 & E).
    assert (Mid : a <= b2 /\ b2 <= c2 /\ c2 <= hi /\ srt_mid (st_keys s5) p lo hi a b2 c2).
    { destruct (negb (hi - b <? 5) && (hi - b <? q)) eqn:Ed.
      2:{ apply srt_inv_ret in E5. destruct E5 as [E5 <-]. injection E5 as <- <- _.
          split; [lia|]. split; [lia|]. split; [lia|].
          split; [exact Hp4|]. split; [exact ZS4|]. split; [exact ZL4|]. split; [|exact GE4].
          apply srt_all_on_empty. lia. }
      apply andb_prop in Ed. destruct Ed as [Ed1 Ed2].
      apply negb_true_iff in Ed1. apply Z.ltb_ge in Ed1. apply Z.ltb_lt in Ed2.
      apply srt_inv_bind in E5. destruct E5 as (v0 & t0 & T0 & E5). apply srt_inv_tick in T0.
      apply srt_inv_bind in E5. destruct E5 as (t1 & t1s & T1 & E5).
      apply srt_inv_less in T1. rewrite T0 in T1. destruct T1 as (x & y & Hx & Hy & -> & Hk1 & _).
      rewrite Hp4 in Hx. injection Hx as <-. rewrite Hz4 in Hy. injection Hy as <-.
      apply srt_inv_bind in E5. destruct E5 as ([c3 dups] & t2s & T2 & E5).
      assert (CD : b <= c3 <= b + 1 /\ srt_mid (st_keys t2s) p lo hi a b c3).
      { destruct (less p z) eqn:Lpz; cbn [negb] in T2.
        - apply srt_inv_ret in T2. destruct T2 as [T2 <-]. injection T2 as <- _. rewrite Hk1.
          split; [lia|]. split; [exact Hp4|]. split; [exact ZS4|]. split; [exact ZL4|].
          split; [apply srt_all_on_empty; lia|exact GE4].
        - apply srt_inv_bind in T2. destruct T2 as (v1 & t3s & T3 & T2).
          apply srt_inv_ret in T2. destruct T2 as [T2 <-]. injection T2 as <- _.
          apply srt_inv_swap in T3. rewrite Hk1 in T3.
          destruct T3 as (w & z' & Hwv & Hz' & Hnb & Hnh & Hoth).
          rewrite Hz4 in Hz'. injection Hz' as <-.
          assert (Gw : srt_gep less p w).
          { apply srt_gtp_gep; try assumption. apply (ZG4 b w); [lia|exact Hwv]. }
          split; [lia|]. split; [|split; [|split; [|split]]].
          + rewrite Hoth by lia. exact Hp4.
          + eapply srt_all_on_eq; [|exact ZS4]. intros k Hk. apply Hoth; lia.
          + eapply srt_all_on_eq; [|exact ZL4]. intros k Hk. apply Hoth; lia.
          + eapply srt_all_on_one; [exact Hnb|]. split; [exact Lpz|exact Lzp].
          + eapply srt_all_on_upd with (j := hi - 1); [|exact Hnh|exact Gw|].
            * intros k Hk Hne. apply Hoth; lia.
            * eapply srt_all_on_sub; [| |exact GE4]; lia. }
      destruct CD as (Hc3 & Pp & PS & PL & PE & PG).
      apply srt_inv_bind in E5. destruct E5 as (t4 & t4s & T4 & E5).
      apply srt_inv_less in T4. destruct T4 as (y1 & x & Hy1 & Hx & -> & Hk4 & _).
      rewrite Pp in Hx. injection Hx as <-.
      apply srt_inv_bind in E5. destruct E5 as ([b4 dups4] & t5s & T5 & E5).
      apply srt_inv_ret in T5. destruct T5 as [T5 <-].
      assert (BD : a <= b4 /\ b - 1 <= b4 <= b /\
                   srt_all_on (srt_lep less p) (st_keys t2s) a b4 /\
                   srt_all_on (srt_eqp less p) (st_keys t2s) b4 c3).
      { destruct (less y1 p) eqn:L1; cbn [negb] in T5; injection T5 as <- _.
        - split; [lia|]. split; [lia|]. split; assumption.
        - assert (Hab1 : a <= b - 1).
          { destruct (Z.le_gt_cases a (b - 1)) as [H|H]; [exact H|]. exfalso.
            assert (Ly : srt_ltp less p y1) by (apply (PS (b - 1) y1); [lia|exact Hy1]).
            unfold srt_ltp in Ly. congruence. }
          split; [lia|]. split; [lia|]. split.
          + eapply srt_all_on_sub; [| |exact PL]; lia.
          + eapply srt_all_on_cons; [exact PE|exact Hy1|]. split; [|exact L1].
            apply (PL (b - 1) y1); [lia|exact Hy1]. }
      destruct BD as (Hab4 & Hb4 & PL4 & PE4).
      apply srt_inv_bind in E5. destruct E5 as (t6 & t6s & T6 & E5).
      apply srt_inv_less in T6. rewrite Hk4 in T6. destruct T6 as (v & x & Hv & Hx & -> & Hk6 & _).
      rewrite Pp in Hx. injection Hx as <-.
      apply srt_inv_bind in E5. destruct E5 as ([b6 dups6] & t7s & T7 & E5).
      apply srt_inv_ret in E5. destruct E5 as [E5 <-]. injection E5 as <- <- _.
      destruct (less v p) eqn:L3; cbn [negb] in T7.
      - apply srt_inv_ret in T7. destruct T7 as [T7 <-]. injection T7 as <- _. rewrite Hk6.
        split; [lia|]. split; [lia|]. split; [lia|].
        split; [exact Pp|]. split; [exact PS|]. split; [exact PL4|]. split; [exact PE4|exact PG].
      - apply srt_inv_bind in T7. destruct T7 as (v1 & t8s & T8 & T7).
        apply srt_inv_ret in T7. destruct T7 as [T7 <-]. injection T7 as <- _.
        apply srt_inv_swap in T8. rewrite Hk6 in T8.
        destruct T8 as (v' & w & Hv' & Hwv & Hnm & Hnb & Hoth).
        rewrite Hv in Hv'. injection Hv' as <-.
        assert (Ham : a <= m).
        { destruct (Z.le_gt_cases a m) as [H|H]; [exact H|]. exfalso.
          assert (Ly : srt_ltp less p v) by (apply (PS m v); [lia|exact Hv]).
          unfold srt_ltp in Ly. congruence. }
        assert (Ev : srt_eqp less p v).
        { split; [|exact L3]. apply (PL4 m v); [lia|exact Hv]. }
        assert (Lw : srt_lep less p w) by (apply (PL4 (b4 - 1) w); [lia|exact Hwv]).
        split; [lia|]. split; [lia|]. split; [lia|]. split; [|split; [|split; [|split]]].
        + rewrite Hoth by lia. exact Pp.
        + eapply srt_all_on_eq; [|exact PS]. intros k Hk. apply Hoth; lia.
        + eapply srt_all_on_upd with (j := m); [|exact Hnm|exact Lw|].
          * intros k Hk Hne. apply Hoth; lia.
          * eapply srt_all_on_sub; [| |exact PL4]; lia.
        + eapply srt_all_on_cons; [|exact Hnb|exact Ev].
          eapply srt_all_on_eq; [|exact PE4]. intros k Hk. apply Hoth; lia.
        + eapply srt_all_on_eq; [|exact PG]. intros k Hk. apply Hoth; lia. }
    destruct Mid as (Hab2 & Hbc2 & Hc2 & Mp & MS & ML & ME & MG).
    (* protection against many duplicates of the pivot *)
    apply srt_inv_bind in E. destruct E as (r & s6 & E6 & E).
    assert (Fin : lo < r /\ r <= c2 /\ srt_zget (st_keys s6) lo = Some p /\
                  srt_all_on (srt_lep less p) (st_keys s6) (lo + 1) r /\
                  srt_all_on (srt_eqp less p) (st_keys s6) r c2 /\
                  srt_all_on (srt_gep less p) (st_keys s6) c2 hi).
    { destruct prot.
      - apply srt_inv_bind in E6. destruct E6 as (v0 & t0 & T0 & E6). apply srt_inv_tick in T0.
        rewrite <- T0 in Mp, MS, ML, ME, MG.
        destruct (srt_prot_loop_inv less less_irrefl less_trans p lo (Z.to_nat (hi - lo)) a b2 t0 r s6)
          as (Hr & Out6 & RS & RE); try lia; try assumption.
        split; [lia|]. split; [lia|]. split; [rewrite Out6 by lia; exact Mp|]. split; [|split].
        + eapply srt_all_on_impl; [apply srt_ltp_lep; assumption|].
          eapply srt_all_on_app; [|exact RS].
          eapply srt_all_on_eq; [|exact MS]. intros k Hk. apply Out6; lia.
        + eapply srt_all_on_app; [exact RE|].
          eapply srt_all_on_eq; [|exact ME]. intros k Hk. apply Out6; lia.
        + eapply srt_all_on_eq; [|exact MG]. intros k Hk. apply Out6; lia.
      - apply srt_inv_ret in E6. destruct E6 as [<- <-].
        split; [lia|]. split; [lia|]. split; [exact Mp|]. split; [|split; assumption].
        eapply srt_all_on_app; [|exact ML].
        eapply srt_all_on_impl; [apply srt_ltp_lep; assumption|exact MS]. }
    destruct Fin as (Hr1 & Hr2 & Fp & FL & FE & FG).
    (* the pivot goes between the zones *)
    apply srt_inv_bind in E. destruct E as (u7 & s7 & E7 & E).
    apply srt_inv_ret in E. destruct E as [E <-]. injection E as <- <-.
    apply srt_inv_swap in E7. destruct E7 as (p' & w & Hp' & Hwv & Hnlo & Hnr & Hoth).
    rewrite Fp in Hp'. injection Hp' as <-.
    unfold srt_pivot_post. split; [lia|]. split; [lia|]. split; [lia|].
    exists p. split; [|split].
    - intros i x Hi Hx. change (srt_lep less p x).
      destruct (Z.eq_dec i lo) as [->|Hne].
      + rewrite Hnlo in Hx. injection Hx as <-. apply (FL (r - 1) w); [lia|exact Hwv].
      + rewrite Hoth in Hx by lia. apply (FL i x); [lia|exact Hx].
    - intros i x Hi Hx. change (srt_eqp less p x).
      destruct (Z.eq_dec i (r - 1)) as [->|Hne].
      + rewrite Hnr in Hx. injection Hx as <-. apply srt_eqp_p. exact less_irrefl.
      + rewrite Hoth in Hx by lia. apply (FE i x); [lia|exact Hx].
    - intros i x Hi Hx. change (srt_gep less p x).
      rewrite Hoth in Hx by lia. apply (FG i x); [lia|exact Hx].
  Qed.

  (* doPivot_func returns a three-zone partition *)
  Theorem dopivot_partition : srt_partition_ok (V:=V) less.
  Proof.
    intros a b s mlo mhi s' Ha Hw _ E. exact (srt_do_pivot_post a b s mlo mhi s' Ha Hw E).
  Qed.
End PivotMain.
