(* SortPivot.v -- the postcondition of the transcribed doPivot_func (models/Sort.v,
   srt_do_pivot): for every strict weak order it returns a three-zone partition
   (srt_partition_ok of SortSorted.v).  Partial-correctness reasoning by inversion of the
   monadic binds: a run that returned SOk made only in-range accesses, so every value that
   was compared or swapped exists; the zones are tracked as srt_all_on predicates relative
   to the pivot VALUE p (which sits at index lo until the final swap). *)
From Got Require Import Base Sort SortProofs SortSorted.
Require Import Permutation Sorted.
Local Open Scope Z_scope.

(* ------------------------------------------------------------------ zones *)
Section Zones.
  Context {A : Type}.
  Implicit Types (P Q : A -> Prop) (l : list A).

  Lemma srt_all_on_empty P l u v : v <= u -> srt_all_on P l u v.
  Proof. intros H i x Hi. lia. Qed.

  Lemma srt_all_on_sub P l u v u' v' :
    u <= u' -> v' <= v -> srt_all_on P l u v -> srt_all_on P l u' v'.
  Proof. intros H1 H2 H i x Hi. apply H. lia. Qed.

  Lemma srt_all_on_impl P Q l u v :
    (forall x, P x -> Q x) -> srt_all_on P l u v -> srt_all_on Q l u v.
  Proof. intros HPQ H i x Hi Hx. apply HPQ. eapply H; eassumption. Qed.

  Lemma srt_all_on_and P Q l u v :
    srt_all_on P l u v -> srt_all_on Q l u v -> srt_all_on (fun x => P x /\ Q x) l u v.
  Proof. intros H1 H2 i x Hi Hx. split; [eapply H1|eapply H2]; eassumption. Qed.

  Lemma srt_all_on_app P l u v w :
    srt_all_on P l u v -> srt_all_on P l v w -> srt_all_on P l u w.
  Proof.
    intros H1 H2 i x Hi Hx. destruct (Z.lt_ge_cases i v); [eapply H1|eapply H2]; try eassumption; lia.
  Qed.

  Lemma srt_all_on_one P l u x :
    srt_zget l u = Some x -> P x -> srt_all_on P l u (u + 1).
  Proof.
    intros Hx HP i y Hi Hy. assert (i = u) by lia. subst i. rewrite Hx in Hy. injection Hy as <-. exact HP.
  Qed.

  Lemma srt_all_on_snoc P l u v x :
    srt_all_on P l u v -> srt_zget l v = Some x -> P x -> srt_all_on P l u (v + 1).
  Proof. intros H Hx HP. eapply srt_all_on_app; [exact H|]. eapply srt_all_on_one; eassumption. Qed.

  Lemma srt_all_on_cons P l u v x :
    srt_all_on P l u v -> srt_zget l (u - 1) = Some x -> P x -> srt_all_on P l (u - 1) v.
  Proof.
    intros H Hx HP. eapply srt_all_on_app; [|exact H].
    replace u with (u - 1 + 1) at 2 by lia. eapply srt_all_on_one; eassumption.
  Qed.

  (* the zone is the same in l' *)
  Lemma srt_all_on_eq P l l' u v :
    (forall k, u <= k < v -> srt_zget l' k = srt_zget l k) ->
    srt_all_on P l u v -> srt_all_on P l' u v.
  Proof. intros He H i x Hi Hx. apply (H i x Hi). rewrite <- He by lia. exact Hx. Qed.

  (* ... except at one index, where the new value satisfies P as well *)
  Lemma srt_all_on_upd P l l' u v j y :
    (forall k, u <= k < v -> k <> j -> srt_zget l' k = srt_zget l k) ->
    srt_zget l' j = Some y -> P y ->
    srt_all_on P l u v -> srt_all_on P l' u v.
  Proof.
    intros He Hj HP H i x Hi Hx. destruct (Z.eq_dec i j) as [->|N].
    - rewrite Hj in Hx. injection Hx as <-. exact HP.
    - apply (H i x Hi). rewrite <- He by lia. exact Hx.
  Qed.
End Zones.

(* ------------------------------------------------------------------ scans *)
Section Scans.
  Context {K V : Type}.
  Variable less : K -> K -> bool.
  Notation ST := (srt_state K V).
  Notation M := (@srt_M K V).

  (* a loop condition that only reads key k, leaves the keys alone and answers f (keys[k]) *)
  Definition srt_cond_ok (cond : Z -> M bool) (ks : list K) (f : K -> bool) : Prop :=
    forall k (s : ST) t s', st_keys s = ks -> cond k s = SOk (t, s') ->
      st_keys s' = ks /\ exists x, srt_zget ks k = Some x /\ t = f x.

  Lemma srt_cond_less_l ks pivot p :
    srt_zget ks pivot = Some p ->
    srt_cond_ok (fun i => srt_less less i pivot) ks (fun x => less x p).
  Proof.
    intros Hp k s t s' Hs E. apply srt_inv_less in E.
    destruct E as (x & y & Hx & Hy & -> & Hk & _). rewrite Hs in *.
    rewrite Hp in Hy. injection Hy as <-. split; [exact Hk|]. exists x. auto.
  Qed.

  Lemma srt_cond_less_r ks pivot p :
    srt_zget ks pivot = Some p ->
    srt_cond_ok (fun i => srt_less less pivot i) ks (fun x => less p x).
  Proof.
    intros Hp k s t s' Hs E. apply srt_inv_less in E.
    destruct E as (x & y & Hx & Hy & -> & Hk & _). rewrite Hs in *.
    rewrite Hp in Hx. injection Hx as <-. split; [exact Hk|]. exists y. auto.
  Qed.

  Lemma srt_cond_nless_l ks pivot p :
    srt_zget ks pivot = Some p ->
    srt_cond_ok (fun i => srt_bind (srt_less less i pivot) (fun t => srt_ret (negb t))) ks
                (fun x => negb (less x p)).
  Proof.
    intros Hp k s t s' Hs E. apply srt_inv_bind in E. destruct E as (t0 & s0 & E0 & E).
    apply srt_inv_ret in E. destruct E as [<- <-].
    destruct (srt_cond_less_l ks pivot p Hp k s t0 s0 Hs E0) as (Hk & x & Hx & ->).
    split; [exact Hk|]. exists x. auto.
  Qed.

  Lemma srt_cond_nless_r ks pivot p :
    srt_zget ks pivot = Some p ->
    srt_cond_ok (fun i => srt_bind (srt_less less pivot i) (fun t => srt_ret (negb t))) ks
                (fun x => negb (less p x)).
  Proof.
    intros Hp k s t s' Hs E. apply srt_inv_bind in E. destruct E as (t0 & s0 & E0 & E).
    apply srt_inv_ret in E. destruct E as [<- <-].
    destruct (srt_cond_less_r ks pivot p Hp k s t0 s0 Hs E0) as (Hk & x & Hx & ->).
    split; [exact Hk|]. exists x. auto.
  Qed.

  (* for ; i < lim && cond(i); i++ {} *)
  Lemma srt_scan_up_aux_inv cond ks f :
    srt_cond_ok cond ks f ->
    forall n i (s : ST) r s', st_keys s = ks ->
      srt_scan_up_aux n cond i s = SOk (r, s') ->
      st_keys s' = ks /\ i <= r <= i + Z.of_nat n /\
      srt_all_on (fun x => f x = true) ks i r /\
      (r < i + Z.of_nat n -> exists x, srt_zget ks r = Some x /\ f x = false).
  Proof.
    intros Hc. induction n as [|n IH]; intros i s r s' Hs E; cbn [srt_scan_up_aux] in E.
    - apply srt_inv_ret in E. destruct E as [<- <-]. split; [exact Hs|]. split; [lia|].
      split; [apply srt_all_on_empty; lia|lia].
    - apply srt_inv_bind in E. destruct E as (t & s1 & E1 & E).
      destruct (Hc i s t s1 Hs E1) as (Hs1 & x & Hx & ->).
      destruct (f x) eqn:Hf.
      + destruct (IH (i + 1) s1 r s' Hs1 E) as (Hs' & Hr & Hall & Hstop).
        split; [exact Hs'|]. split; [lia|]. split.
        * replace i with (i + 1 - 1) by lia. eapply srt_all_on_cons; [exact Hall| |exact Hf].
          replace (i + 1 - 1) with i by lia. exact Hx.
        * intros Hlt. apply Hstop. lia.
      + apply srt_inv_ret in E. destruct E as [<- <-]. split; [exact Hs1|]. split; [lia|].
        split; [apply srt_all_on_empty; lia|]. intros _. exists x. auto.
  Qed.

  Lemma srt_scan_up_inv cond ks f i lim (s : ST) r s' :
    srt_cond_ok cond ks f -> st_keys s = ks ->
    srt_scan_up cond i lim s = SOk (r, s') ->
    st_keys s' = ks /\ i <= r <= Z.max i lim /\
    srt_all_on (fun x => f x = true) ks i r /\
    (r < lim -> exists x, srt_zget ks r = Some x /\ f x = false).
  Proof.
    intros Hc Hs E. unfold srt_scan_up in E.
    destruct (srt_scan_up_aux_inv cond ks f Hc _ i s r s' Hs E) as (Hs' & Hr & Hall & Hstop).
    split; [exact Hs'|]. split; [lia|]. split; [exact Hall|]. intros Hlt. apply Hstop. lia.
  Qed.

  (* for ; lim < x && cond(x-1); x-- {} *)
  Lemma srt_scan_down_aux_inv cond ks f :
    srt_cond_ok cond ks f ->
    forall n x (s : ST) r s', st_keys s = ks ->
      srt_scan_down_aux n cond x s = SOk (r, s') ->
      st_keys s' = ks /\ x - Z.of_nat n <= r <= x /\
      srt_all_on (fun y => f y = true) ks r x /\
      (x - Z.of_nat n < r -> exists y, srt_zget ks (r - 1) = Some y /\ f y = false).
  Proof.
    intros Hc. induction n as [|n IH]; intros x s r s' Hs E; cbn [srt_scan_down_aux] in E.
    - apply srt_inv_ret in E. destruct E as [<- <-]. split; [exact Hs|]. split; [lia|].
      split; [apply srt_all_on_empty; lia|lia].
    - apply srt_inv_bind in E. destruct E as (t & s1 & E1 & E).
      destruct (Hc (x - 1) s t s1 Hs E1) as (Hs1 & y & Hy & ->).
      destruct (f y) eqn:Hf.
      + destruct (IH (x - 1) s1 r s' Hs1 E) as (Hs' & Hr & Hall & Hstop).
        split; [exact Hs'|]. split; [lia|]. split.
        * replace x with (x - 1 + 1) by lia. eapply srt_all_on_snoc; [exact Hall|exact Hy|exact Hf].
        * intros Hlt. apply Hstop. lia.
      + apply srt_inv_ret in E. destruct E as [<- <-]. split; [exact Hs1|]. split; [lia|].
        split; [apply srt_all_on_empty; lia|]. intros _. exists y. auto.
  Qed.

  Lemma srt_scan_down_inv cond ks f lim x (s : ST) r s' :
    srt_cond_ok cond ks f -> st_keys s = ks ->
    srt_scan_down cond lim x s = SOk (r, s') ->
    st_keys s' = ks /\ Z.min lim x <= r <= x /\
    srt_all_on (fun y => f y = true) ks r x /\
    (lim < r -> exists y, srt_zget ks (r - 1) = Some y /\ f y = false).
  Proof.
    intros Hc Hs E. unfold srt_scan_down in E.
    destruct (srt_scan_down_aux_inv cond ks f Hc _ x s r s' Hs E) as (Hs' & Hr & Hall & Hstop).
    split; [exact Hs'|]. split; [lia|]. split; [exact Hall|]. intros Hlt. apply Hstop. lia.
  Qed.
End Scans.
