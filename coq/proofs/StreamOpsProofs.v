(* StreamOpsProofs.v -- iox.OctetsStream (model StreamOps.v, variant StmFixed) never
   panics, keeps its position inside the data and is, op by op, the abstract seekable
   FIFO of Fifo.v (never compacting on Write). *)
From Got Require Import Base GoSlice Fifo FifoProofs StreamOps.
Local Open Scope Z_scope.

Definition stm_inv (s : stm_state) : Prop := 0 <= st_pos s <= stm_len s.

Definition stm_abs (s : stm_state) : fifo := mk_fifo (st_buf s) (Z.to_nat (st_pos s)).
Definition stm_unread (s : stm_state) : list Z := skipn (Z.to_nat (st_pos s)) (st_buf s).

Definition stm_op_abs (op : stm_op) : fifo_op :=
  match op with
  | SWrite p => FWrite p
  | SRead n => FRead n
  | SSeek o w => FSeek o w
  | STidy => FTidy
  | SReset => FReset
  end.

Definition stm_ret_abs (r : stm_ret) : fifo_ret :=
  match r with
  | SRWrote => FRUnit
  | SRRead d _ => FRData d
  | SRSeek x => FRSeek x
  | SRUnit => FRUnit
  end.

(* inputs the real API can receive: offset is an int64 *)
Definition stm_op_ok (op : stm_op) : Prop :=
  match op with
  | SSeek o _ => - 2 ^ 63 <= o < 2 ^ 63
  | _ => True
  end.

Definition stm_op_size (op : stm_op) : Z :=
  match op with SWrite p => Z.of_nat (length p) | _ => 0 end.
Definition stm_ops_size (ops : list stm_op) : Z := fold_right (fun op a => stm_op_size op + a) 0 ops.

Lemma stm_inv_init : stm_inv stm_init.
Proof. unfold stm_inv, stm_len; cbn; lia. Qed.

Lemma stm_abs_inv s : stm_inv s -> fifo_inv (stm_abs s).
Proof. unfold stm_inv, fifo_inv, stm_len; cbn. lia. Qed.

Lemma stm_unread_abs s : fifo_unread (stm_abs s) = stm_unread s.
Proof. reflexivity. Qed.

(* ---- per-operation specifications (all branches) ---- *)

Lemma stm_write_spec s p :
  stm_write s p = mk_stm (st_buf s ++ p) (st_pos s).
Proof.
  unfold stm_write. destruct (0 <? Z.of_nat (length p)) eqn:E; [reflexivity|].
  destruct p; [|cbn in E; lia]. rewrite app_nil_r. destruct s; reflexivity.
Qed.

Lemma stm_bytes_ok s : stm_inv s -> stm_bytes s = Ok (stm_unread s).
Proof.
  unfold stm_inv, stm_len, stm_bytes, gs_slice_from, stm_unread. intros H.
  replace ((0 <=? st_pos s) && (st_pos s <=? Z.of_nat (length (st_buf s)))) with true by lia.
  reflexivity.
Qed.

Lemma stm_read_spec s n :
  stm_inv s ->
  let d := firstn n (stm_unread s) in
  stm_read s n = Ok (mk_stm (st_buf s) (st_pos s + Z.of_nat (length d)), SRRead d (Nat.eqb n 0)).
Proof.
  unfold stm_inv, stm_len, stm_unread. intros Hi. cbn zeta. unfold stm_read, stm_len.
  destruct (Z.of_nat n =? 0) eqn:E0.
  - assert (n = 0%nat) by lia. subst n. cbn. rewrite Z.add_0_r. destruct s; reflexivity.
  - replace (Nat.eqb n 0) with false by lia.
    destruct (Z.of_nat (length (st_buf s)) - st_pos s =? 0) eqn:E1.
    + rewrite skipn_all2 by lia. rewrite firstn_nil. cbn. rewrite Z.add_0_r. destruct s; reflexivity.
    + set (rs := if Z.of_nat n >? Z.of_nat (length (st_buf s)) - st_pos s
                 then Z.of_nat (length (st_buf s)) - st_pos s else Z.of_nat n).
      assert (Hrs : 0 <= rs <= Z.of_nat (length (st_buf s)) - st_pos s /\ rs <= Z.of_nat n /\
                    Z.to_nat rs = Nat.min n (length (st_buf s) - Z.to_nat (st_pos s))).
      { subst rs. destruct (Z.of_nat n >? Z.of_nat (length (st_buf s)) - st_pos s) eqn:E2; lia. }
      unfold gs_slice.
      replace ((0 <=? st_pos s) && (st_pos s <=? st_pos s + rs) &&
               (st_pos s + rs <=? Z.of_nat (length (st_buf s)))) with true by lia.
      cbn [gs_bind]. replace (st_pos s + rs - st_pos s) with rs by lia.
      assert (Hlen : length (firstn n (skipn (Z.to_nat (st_pos s)) (st_buf s))) = Z.to_nat rs).
      { rewrite firstn_length, skipn_length. lia. }
      assert (Hd : firstn (Z.to_nat rs) (skipn (Z.to_nat (st_pos s)) (st_buf s)) =
                   firstn n (skipn (Z.to_nat (st_pos s)) (st_buf s))).
      { destruct Hrs as (_ & _ & Hm). rewrite Hm.
        destruct (Nat.le_ge_cases n (length (st_buf s) - Z.to_nat (st_pos s))).
        - rewrite Nat.min_l by lia. reflexivity.
        - rewrite Nat.min_r by lia. rewrite !firstn_all2; [reflexivity| |]; rewrite skipn_length; lia. }
      rewrite Hd, Hlen. do 3 f_equal. lia.
Qed.

Lemma stm_tidy_spec s :
  stm_inv s -> stm_tidy s = Ok (mk_stm (stm_unread s) 0).
Proof.
  unfold stm_inv, stm_len, stm_unread. intros Hi. unfold stm_tidy, stm_len.
  destruct (st_pos s >? 0) eqn:E.
  - unfold gs_slice_from.
    replace ((0 <=? st_pos s) && (st_pos s <=? Z.of_nat (length (st_buf s)))) with true by lia.
    cbn [gs_bind]. unfold gs_slice. rewrite gs_copy_length.
    replace ((0 <=? 0) && (0 <=? Z.of_nat (length (st_buf s)) - st_pos s) &&
             (Z.of_nat (length (st_buf s)) - st_pos s <=? Z.of_nat (length (st_buf s)))) with true by lia.
    cbn [gs_bind]. rewrite gs_copy_short by (rewrite skipn_length; lia).
    change (Z.to_nat 0) with 0%nat. rewrite skipn_O, Z.sub_0_r.
    rewrite firstn_app, skipn_length.
    replace (Z.to_nat (Z.of_nat (length (st_buf s)) - st_pos s) - (length (st_buf s) - Z.to_nat (st_pos s)))%nat
      with 0%nat by lia.
    rewrite firstn_O, app_nil_r. rewrite firstn_all2 by (rewrite skipn_length; lia). reflexivity.
  - assert (st_pos s = 0) by lia. destruct s as [b p]; cbn in *. subst p. reflexivity.
Qed.

Lemma stm_seek_spec s o w :
  stm_inv s -> stm_len s < 2 ^ 63 -> - 2 ^ 63 <= o < 2 ^ 63 ->
  stm_seek StmFixed s o w =
    match fifo_seek_target (stm_abs s) o w with
    | Some t => (mk_stm (st_buf s) t, Some t)
    | None => (s, None)
    end.
Proof.
  unfold stm_inv, stm_len. intros Hi Hl Ho. unfold stm_seek, fifo_seek_target, stm_abs, stm_len.
  cbn [f_ret f_cur]. rewrite Z2Nat.id by lia.
  assert (Hcase : forall b, 0 <= b <= Z.of_nat (length (st_buf s)) ->
     (if (sext 64 (b + o) <? 0) || (sext 64 (b + o) >? Z.of_nat (length (st_buf s))) then (s, None)
      else (mk_stm (st_buf s) (sext 64 (b + o)), Some (sext 64 (b + o)))) =
     match (if (0 <=? b + o) && (b + o <=? Z.of_nat (length (st_buf s))) then Some (b + o) else None) with
     | Some t => (mk_stm (st_buf s) t, Some t)
     | None => (s, None)
     end).
  { intros b Hb.
    destruct (Z_lt_ge_dec (b + o) (2 ^ 63)) as [Hlt|Hge].
    - rewrite sext_id by lia.
      destruct ((0 <=? b + o) && (b + o <=? Z.of_nat (length (st_buf s)))) eqn:E.
      + replace ((b + o <? 0) || (b + o >? Z.of_nat (length (st_buf s)))) with false by lia. reflexivity.
      + replace ((b + o <? 0) || (b + o >? Z.of_nat (length (st_buf s)))) with true by lia. reflexivity.
    - (* wraps to a negative number: rejected on both sides *)
      assert (Hs : sext 64 (b + o) = b + o - 2 ^ 64).
      { unfold sext. replace ((b + o) mod 2 ^ 64) with (b + o) by (symmetry; apply Z.mod_small; lia).
        replace (b + o <? 2 ^ (64 - 1)) with false by lia. reflexivity. }
      rewrite Hs.
      replace ((b + o - 2 ^ 64 <? 0) || (b + o - 2 ^ 64 >? Z.of_nat (length (st_buf s)))) with true by lia.
      replace ((0 <=? b + o) && (b + o <=? Z.of_nat (length (st_buf s)))) with false by lia. reflexivity. }
  destruct (w =? 0) eqn:E0.
  - destruct (o <? 0) eqn:En.
    + cbn [Z.add]. replace ((0 <=? o) && (o <=? Z.of_nat (length (st_buf s)))) with false by lia. reflexivity.
    + apply (Hcase 0). lia.
  - destruct (w =? 1) eqn:E1; [apply (Hcase (st_pos s)); lia|].
    destruct (w =? 2) eqn:E2; [apply (Hcase (Z.of_nat (length (st_buf s)))); lia|]. reflexivity.
Qed.

(* position stays in bounds for ANY offset/whence, also outside the int64 range *)
Lemma stm_seek_inv s o w s' r :
  stm_inv s -> stm_seek StmFixed s o w = (s', r) ->
  stm_inv s' /\ st_buf s' = st_buf s /\
  match r with Some t => st_pos s' = t | None => s' = s end.
Proof.
  unfold stm_inv, stm_len. intros Hi. unfold stm_seek, stm_len.
  destruct (if w =? 0 then if o <? 0 then None else Some 0
            else if w =? 1 then Some (st_pos s)
            else if w =? 2 then Some (Z.of_nat (length (st_buf s))) else None) as [b|].
  - destruct ((sext 64 (b + o) <? 0) || (sext 64 (b + o) >? Z.of_nat (length (st_buf s)))) eqn:E;
      intros H; inversion H; subst; cbn; repeat split; try lia.
  - intros H; inversion H; subst. repeat split; lia.
Qed.

(* ---- one step: total, invariant, refinement ---- *)

Lemma stm_step_total s op :
  stm_inv s -> exists s' r, stm_step StmFixed s op = Ok (s', r) /\ stm_inv s' /\
                            stm_len s' <= stm_len s + stm_op_size op.
Proof.
  intros Hi. destruct op; cbn [stm_step stm_op_size].
  - rewrite stm_write_spec. do 2 eexists. split; [reflexivity|].
    unfold stm_inv, stm_len in *; cbn. rewrite app_length. lia.
  - rewrite (stm_read_spec s n Hi). do 2 eexists. split; [reflexivity|].
    unfold stm_inv, stm_len, stm_unread in *; cbn. rewrite firstn_length, skipn_length. lia.
  - destruct (stm_seek StmFixed s offset whence) as [s1 r] eqn:E.
    destruct (stm_seek_inv s offset whence s1 r Hi E) as (H1 & H2 & _).
    do 2 eexists. split; [reflexivity|]. split; [exact H1|]. unfold stm_len. rewrite H2. lia.
  - rewrite (stm_tidy_spec s Hi). cbn [gs_bind]. do 2 eexists. split; [reflexivity|].
    unfold stm_inv, stm_len, stm_unread in *; cbn. rewrite skipn_length. lia.
  - do 2 eexists. split; [reflexivity|]. unfold stm_inv, stm_len in *; cbn. lia.
Qed.

(* side condition of the Seek refinement: the offset is an int64 and the data is shorter
   than 2^63 bytes (so the 64-bit wrap in num += offset cannot fake a valid position) *)
Definition stm_op_ok_at (s : stm_state) (op : stm_op) : Prop :=
  match op with
  | SSeek o _ => - 2 ^ 63 <= o < 2 ^ 63 /\ stm_len s < 2 ^ 63
  | _ => True
  end.

Definition stm_op_linear (op : stm_op) : bool :=
  match op with SSeek _ _ | SReset => false | _ => true end.

Lemma stm_step_refines s op s' r :
  stm_inv s -> stm_op_ok_at s op ->
  stm_step StmFixed s op = Ok (s', r) ->
  fifo_step false (stm_abs s) (stm_op_abs op) = (stm_abs s', stm_ret_abs r).
Proof.
  intros Hi Hok Hs. destruct op; cbn [stm_step stm_op_abs stm_op_ok_at] in *.
  - rewrite stm_write_spec in Hs. inversion Hs; subst. reflexivity.
  - rewrite (stm_read_spec s n Hi) in Hs. inversion Hs; subst; clear Hs. cbn.
    unfold stm_abs, fifo_unread, stm_unread; cbn [st_buf st_pos f_ret f_cur].
    do 2 f_equal. unfold stm_inv in Hi. lia.
  - destruct Hok as [Hok Hl]. rewrite (stm_seek_spec s offset whence Hi Hl Hok) in Hs. cbn [fifo_step].
    destruct (fifo_seek_target (stm_abs s) offset whence) as [t|] eqn:E; inversion Hs; subst; reflexivity.
  - rewrite (stm_tidy_spec s Hi) in Hs. cbn [gs_bind] in Hs. inversion Hs; subst. reflexivity.
  - inversion Hs; subst. reflexivity.
Qed.

(* ---- whole runs ---- *)

Lemma stm_run_total ops : forall s,
  stm_inv s -> exists s' rs, stm_run StmFixed s ops = Ok (s', rs) /\ stm_inv s' /\ length rs = length ops.
Proof.
  induction ops as [|op tl IH]; intros s Hi; cbn [stm_run].
  - exists s, []. split; [reflexivity|]. split; [exact Hi|reflexivity].
  - destruct (stm_step_total s op Hi) as (s1 & r & E1 & Hi1 & _). rewrite E1. cbn [gs_bind fst snd].
    destruct (IH s1 Hi1) as (s2 & rs & E2 & Hi2 & Hlen). rewrite E2. cbn [gs_bind fst snd].
    exists s2, (r :: rs). split; [reflexivity|]. split; [exact Hi2|]. cbn. lia.
Qed.

Lemma stm_no_panic ops :
  exists s rs, stm_run StmFixed stm_init ops = Ok (s, rs) /\ length rs = length ops /\
               stm_bytes s = Ok (stm_unread s).
Proof.
  destruct (stm_run_total ops stm_init stm_inv_init) as (s & rs & H1 & H2 & H3).
  exists s, rs. split; [exact H1|]. split; [exact H3|]. exact (stm_bytes_ok s H2).
Qed.

Lemma stm_run_inv ops : forall s s' rs,
  stm_inv s -> stm_run StmFixed s ops = Ok (s', rs) -> stm_inv s'.
Proof.
  intros s s' rs Hi Hr. destruct (stm_run_total ops s Hi) as (s2 & rs2 & E & Hi2 & _).
  rewrite E in Hr. inversion Hr; subst. exact Hi2.
Qed.

Definition stm_abs_ops (ops : list stm_op) : list (bool * fifo_op) :=
  map (fun op => (false, stm_op_abs op)) ops.

Lemma stm_ops_size_nonneg ops : 0 <= stm_ops_size ops.
Proof. induction ops as [|o t IHt]; cbn; [lia|]. fold (stm_ops_size t). destruct o; cbn; lia. Qed.

Lemma stm_run_refines_gen ops : forall s s' rs,
  stm_inv s ->
  (Forall stm_op_ok ops /\ stm_len s + stm_ops_size ops < 2 ^ 63) \/ forallb stm_op_linear ops = true ->
  stm_run StmFixed s ops = Ok (s', rs) ->
  fifo_run (stm_abs s) (stm_abs_ops ops) = (stm_abs s', map stm_ret_abs rs).
Proof.
  induction ops as [|op tl IH]; intros s s' rs Hi Hside Hr; cbn [stm_run] in Hr.
  - inversion Hr; subst. reflexivity.
  - destruct (stm_step_total s op Hi) as (s1 & r & E1 & Hi1 & Hl1). rewrite E1 in Hr. cbn [gs_bind fst snd] in Hr.
    destruct (stm_run StmFixed s1 tl) as [[s2 rs2]| |] eqn:E2; cbn [gs_bind fst snd] in Hr; try discriminate.
    inversion Hr; subst; clear Hr.
    pose proof (stm_ops_size_nonneg tl) as Hsz0.
    assert (Hop0 : 0 <= stm_op_size op) by (destruct op; cbn; lia).
    assert (Hok : stm_op_ok_at s op).
    { destruct Hside as [[Hok Hsz]|Hlin].
      - inversion Hok as [|? ? Hok1 Hok2]; subst.
        cbn [stm_ops_size fold_right] in Hsz. fold (stm_ops_size tl) in Hsz.
        destruct op; cbn in *; try exact I. split; [exact Hok1|lia].
      - cbn in Hlin. apply andb_prop in Hlin. destruct Hlin as [Hl _]. destruct op; cbn in *; try exact I; discriminate. }
    assert (Hside1 : (Forall stm_op_ok tl /\ stm_len s1 + stm_ops_size tl < 2 ^ 63) \/ forallb stm_op_linear tl = true).
    { destruct Hside as [[Hok' Hsz]|Hlin].
      - left. inversion Hok' as [|? ? Hok1 Hok2]; subst. split; [exact Hok2|].
        cbn [stm_ops_size fold_right] in Hsz. fold (stm_ops_size tl) in Hsz. lia.
      - right. cbn in Hlin. apply andb_prop in Hlin. tauto. }
    unfold stm_abs_ops. cbn [map fifo_run]. rewrite (stm_step_refines s op s1 r Hi Hok E1).
    fold (stm_abs_ops tl). rewrite (IH s1 s' rs2 Hi1 Hside1 E2). reflexivity.
Qed.

Lemma stm_run_refines ops s rs :
  Forall stm_op_ok ops -> stm_ops_size ops < 2 ^ 63 ->
  stm_run StmFixed stm_init ops = Ok (s, rs) ->
  fifo_run fifo_init (stm_abs_ops ops) = (stm_abs s, map stm_ret_abs rs).
Proof.
  intros Hok Hsz Hr.
  apply (stm_run_refines_gen ops stm_init s rs stm_inv_init); [|exact Hr].
  left. split; [exact Hok|]. unfold stm_len; cbn. lia.
Qed.

Definition stm_all_writes (ops : list stm_op) : list Z :=
  flat_map (fun op => match op with SWrite p => p | _ => [] end) ops.
Definition stm_all_reads (rs : list stm_ret) : list Z :=
  flat_map (fun r => match r with SRRead d _ => d | _ => [] end) rs.
(* bytes written since the last Reset *)
Definition stm_written (ops : list stm_op) : list Z := fifo_written [] (stm_abs_ops ops).

Lemma stm_all_writes_abs ops : fifo_all_writes (stm_abs_ops ops) = stm_all_writes ops.
Proof.
  unfold fifo_all_writes, stm_all_writes, stm_abs_ops. induction ops as [|op tl IH]; [reflexivity|].
  cbn [map flat_map snd]. rewrite IH. destruct op; reflexivity.
Qed.

Lemma stm_all_reads_abs rs : fifo_all_reads (map stm_ret_abs rs) = stm_all_reads rs.
Proof.
  unfold fifo_all_reads, stm_all_reads. induction rs as [|r tl IH]; [reflexivity|].
  cbn [map flat_map]. rewrite IH. destruct r; reflexivity.
Qed.

Lemma stm_fifo_conservation ops s rs :
  forallb stm_op_linear ops = true ->
  stm_run StmFixed stm_init ops = Ok (s, rs) ->
  stm_all_reads rs ++ stm_unread s = stm_all_writes ops.
Proof.
  intros Hlin Hr.
  pose proof (stm_run_refines_gen ops stm_init s rs stm_inv_init (or_intror Hlin) Hr) as Href.
  change (stm_abs stm_init) with fifo_init in Href.
  rewrite <- stm_all_writes_abs, <- stm_all_reads_abs, <- stm_unread_abs.
  apply (fifo_conservation _ _ _ ); [|exact Href].
  unfold stm_abs_ops. clear -Hlin. induction ops as [|op tl IH]; [reflexivity|].
  cbn in *. apply andb_prop in Hlin. destruct Hlin as [H1 H2]. rewrite (IH H2), andb_true_r.
  destruct op; cbn in *; congruence.
Qed.

Lemma stm_retained_suffix_of_written ops s rs :
  Forall stm_op_ok ops -> stm_ops_size ops < 2 ^ 63 ->
  stm_run StmFixed stm_init ops = Ok (s, rs) ->
  exists d, (d <= length (stm_written ops))%nat /\ st_buf s = skipn d (stm_written ops) /\
            stm_unread s = skipn (d + Z.to_nat (st_pos s)) (stm_written ops).
Proof.
  intros Hok Hsz Hr. pose proof (stm_run_refines ops s rs Hok Hsz Hr) as Href.
  destruct (fifo_retained_suffix_of_written _ _ _ Href) as (d & Hd & Hret & _).
  exists d. split; [exact Hd|]. cbn in Hret. split; [exact Hret|].
  unfold stm_unread. rewrite Hret, gs_skipn_skipn. reflexivity.
Qed.

(* the trace compared with the implementation contains no panic: every op returns and
   Bytes() succeeds after every op *)
Definition stm_line_clean (l : stm_line) : bool :=
  match l with SLObs _ (Ok _) _ _ => true | _ => false end.

Lemma stm_trace_clean ops : forall s,
  stm_inv s ->
  forallb stm_line_clean (stm_trace StmFixed s ops) = true /\
  length (stm_trace StmFixed s ops) = length ops.
Proof.
  induction ops as [|op tl IH]; intros s Hi; cbn [stm_trace].
  - split; reflexivity.
  - destruct (stm_step_total s op Hi) as (s1 & r & E1 & Hi1 & _). rewrite E1.
    rewrite (stm_bytes_ok s1 Hi1). destruct (IH s1 Hi1) as [H1 H2].
    cbn [forallb stm_line_clean length]. rewrite H1, H2. split; reflexivity.
Qed.

(* ---- statement-level lemmas on the concrete model ---- *)

Lemma stm_write_appends_unread s p s' r :
  stm_inv s -> stm_step StmFixed s (SWrite p) = Ok (s', r) ->
  stm_unread s' = stm_unread s ++ p /\ st_pos s' = st_pos s /\ st_buf s' = st_buf s ++ p.
Proof.
  unfold stm_inv, stm_len. intros Hi Hs. cbn in Hs. rewrite stm_write_spec in Hs. inversion Hs; subst.
  unfold stm_unread; cbn. rewrite skipn_app.
  replace (Z.to_nat (st_pos s) - length (st_buf s))%nat with 0%nat by lia. repeat split.
Qed.

Lemma stm_read_takes_prefix_of_unread s n s' r :
  stm_inv s -> stm_step StmFixed s (SRead n) = Ok (s', r) ->
  r = SRRead (firstn n (stm_unread s)) (Nat.eqb n 0) /\
  stm_unread s' = skipn n (stm_unread s) /\ st_buf s' = st_buf s.
Proof.
  intros Hi Hs. cbn in Hs. rewrite (stm_read_spec s n Hi) in Hs. inversion Hs; subst; clear Hs.
  split; [reflexivity|]. split; [|reflexivity].
  unfold stm_inv, stm_len in Hi. unfold stm_unread; cbn. rewrite firstn_length, skipn_length, gs_skipn_skipn.
  destruct (Nat.le_ge_cases n (length (st_buf s) - Z.to_nat (st_pos s))).
  - f_equal. lia.
  - rewrite !skipn_all2; [reflexivity|lia|lia].
Qed.

Lemma stm_compaction_preserves_unread s s' r :
  stm_inv s -> stm_step StmFixed s STidy = Ok (s', r) ->
  stm_unread s' = stm_unread s /\ st_buf s' = stm_unread s /\ st_pos s' = 0.
Proof.
  intros Hi Hs. cbn in Hs. rewrite (stm_tidy_spec s Hi) in Hs. cbn in Hs. inversion Hs; subst.
  repeat split.
Qed.

Lemma stm_seek_fail_unchanged s o w s' :
  stm_step StmFixed s (SSeek o w) = Ok (s', SRSeek None) -> s' = s.
Proof.
  cbn. unfold stm_seek.
  destruct (if w =? 0 then if o <? 0 then None else Some 0
            else if w =? 1 then Some (st_pos s)
            else if w =? 2 then Some (stm_len s) else None) as [b|].
  - destruct ((sext 64 (b + o) <? 0) || (sext 64 (b + o) >? stm_len s)); intros H; inversion H; reflexivity.
  - intros H; inversion H; reflexivity.
Qed.

Lemma stm_seek_ok_within_retained s o w s' t :
  stm_inv s -> stm_step StmFixed s (SSeek o w) = Ok (s', SRSeek (Some t)) ->
  0 <= t <= stm_len s /\ st_buf s' = st_buf s /\ st_pos s' = t /\
  stm_unread s' = skipn (Z.to_nat t) (st_buf s).
Proof.
  intros Hi Hs. cbn in Hs. destruct (stm_seek StmFixed s o w) as [s1 r1] eqn:E.
  inversion Hs; subst; clear Hs.
  destruct (stm_seek_inv s o w s' (Some t) Hi E) as (H1 & H2 & H3).
  unfold stm_inv, stm_len in *. rewrite H2 in H1. unfold stm_unread. rewrite H2, H3.
  repeat split; lia.
Qed.

(* the original Seek (no upper bound): Seek(10, SeekStart) on 4 bytes succeeds, the
   position is outside the data and Bytes() panics *)
Lemma stm_seek_orig_refuted :
  exists s rs,
    stm_run StmOrig stm_init [SWrite [1; 2; 3; 4]; SSeek 10 0] = Ok (s, rs) /\
    rs = [SRWrote; SRSeek (Some 10)] /\ st_pos s > stm_len s /\
    stm_bytes s = Panic /\ stm_step StmOrig s (SRead 1%nat) = Panic /\ stm_step StmOrig s STidy = Panic.
Proof.
  eexists. eexists. split; [vm_compute; reflexivity|]. repeat split.
Qed.
