(* RaceAntsProofs.v -- the labelled ants step model (models/RaceAnts.v): the pre-fix shape (commit d4c0a4b
   reverted: the inner callback stores result/err itself) is refuted on a concrete schedule, both as a
   late write (C07) and as a happens-before race (C18); the same schedule on the fixed code. *)
From Got Require Import Base ListAux Race RaceProofs RaceHB RaceHBProofs AntsSteps AntsStepsProofs RaceAnts.
Local Open Scope nat_scope.

Definition ra_lw_final (md : ast_mode) : ast_state := ast_run md 1 (ast_init 1 ra_lw_progs) ra_lw_sched.

Definition ra_task_view (s : ast_state) : list (Z * Z * bool * list (Z * Z) * list Z) :=
  map (fun x => (att_res x, att_err x, att_done x, att_decided x, att_onerr x)) (ast_tasks s).

(* AstOrig: after wg.Done (Get2 has returned (nil, DeadlineExceeded), the error callback ran with DeadlineExceeded, both
   attempts were decided "timed out") the parked inner callback overwrites the fields with attempt 1's (7, nil) *)
Lemma ra_orig_late_write :
  ra_task_view (ra_lw_final AstOrig) = [(7, 0, true, [(0, -1); (0, -1)], [-1])]%Z /\
  ra_task_view (ast_run AstOrig 1 (ast_init 1 ra_lw_progs) (firstn 23 ra_lw_sched)) = [(0, -1, true, [(0, -1); (0, -1)], [-1])]%Z.
Proof. split; vm_compute; reflexivity. Qed.

(* AstFixed, same schedule: the fields keep the last decision *)
Lemma ra_fixed_no_late_write :
  ra_task_view (ra_lw_final AstFixed) = [(0, -1, true, [(0, -1); (0, -1)], [-1])]%Z.
Proof. vm_compute. reflexivity. Qed.

Lemma ra_orig_race : hb_race (ra_trace AstOrig 1 ra_lw_progs ra_lw_sched).
Proof. apply (hbp_sound 3). vm_compute. reflexivity. Qed.

Lemma ra_fixed_lw_no_race : ~ hb_race (ra_trace AstFixed 1 ra_lw_progs ra_lw_sched).
Proof.
  apply (hbp_agree 3).
  - vm_compute. repeat constructor.
  - vm_compute. reflexivity.
Qed.

(* the fixed trace does contain conflicting accesses by different threads (the allocation by the client, the stores of
   the dispatcher, the read of the Get2 caller): race freedom is not vacuous *)
Lemma ra_fixed_lw_conflicts :
  exists i j, hb_conflict (ra_trace AstFixed 1 ra_lw_progs ra_lw_sched) i j.
Proof.
  exists 0, 6. exists 0, (RWrite 0), 1, (RWrite 0), 0. vm_compute. repeat split; auto; discriminate.
Qed.
