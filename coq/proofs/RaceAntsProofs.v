(* RaceAntsProofs.v -- the labelled ants step model (models/RaceAnts.v): the pre-fix shape (commit d4c0a4b
   reverted: the inner callback stores result/err itself) is refuted on a concrete schedule, both as a
   late write (C07) and as a happens-before race (C18); the same schedule on the fixed code. *)
From Got Require Import Base ListAux Race RaceProofs RaceHB RaceHBProofs RaceMonLemmas RaceCacheMon.
From Got Require Import AntsSteps AntsStepsProofs RaceAnts RaceAntsInv RaceAntsCases.
Local Open Scope nat_scope.

Definition ra_lw_final (md : ast_mode) : ast_state := ast_run md 1 (ast_init 1 ra_lw_progs) ra_lw_sched.

Definition ra_task_view (s : ast_state) : list (Z * Z * bool * list (Z * Z) * list Z) :=
  map (fun x => (att_res x, att_err x, att_done x, att_decided x, att_onerr x)) (ast_tasks s).

(* AstOrig: after wg.Done (Get2 has returned (nil, DeadlineExceeded), the error callback ran with DeadlineExceeded, both
   attempts were decided "timed out") the parked inner callback overwrites the fields with attempt 1's (7, nil) *)
Lemma ra_orig_late_write :
  ra_task_view (ra_lw_final AstOrig) = [(7, 0, true, [(0, -1); (0, -1)], [-1])]%Z /\
  ra_task_view (ast_run AstOrig 1 (ast_init 1 ra_lw_progs) (firstn 23 ra_lw_sched)) = [(0, -1, true, [(0, -1); (0, -1)], [-1])]%Z.
Proof. split; vm_compute; reflexivity. Qed.

(* AstFixed, same schedule: the fields keep the last decision *)
Lemma ra_fixed_no_late_write :
  ra_task_view (ra_lw_final AstFixed) = [(0, -1, true, [(0, -1); (0, -1)], [-1])]%Z.
Proof. vm_compute. reflexivity. Qed.

Lemma ra_orig_race : hb_race (ra_trace AstOrig 1 ra_lw_progs ra_lw_sched).
Proof. apply (hbp_sound 3). vm_compute. reflexivity. Qed.

Lemma ra_fixed_lw_no_race : ~ hb_race (ra_trace AstFixed 1 ra_lw_progs ra_lw_sched).
Proof.
  apply (hbp_agree 3).
  - vm_compute. repeat constructor.
  - vm_compute. reflexivity.
Qed.

(* the fixed trace does contain conflicting accesses by different threads (the allocation by the client, the stores of
   the dispatcher, the read of the Get2 caller): race freedom is not vacuous *)
Lemma ra_fixed_lw_conflicts :
  exists i j, hb_conflict (ra_trace AstFixed 1 ra_lw_progs ra_lw_sched) i j.
Proof.
  exists 0, 6. exists 0, (RWrite 0), 1, (RWrite 0), 0. vm_compute. repeat split; auto; discriminate.
Qed.

(* ------------------------------------------------------------------ the general theorem (fixed code)
   Every labelled run of the fixed step machine is race free: the monitor invariant ra_minv (RaceAntsInv.v) holds
   initially and is re-established by every step (ra_step_kind: each step is of one of nine kinds w.r.t. the
   ownership of the task it touches; ra_minv_step: each kind re-establishes the facts). *)
Definition ra_nostoreo (s : ast_state) : Prop := forall i pc, ast_pc_of s i = Some pc -> ast_is_storeo pc = false.

Lemma ra_run_silent N n sched : forall s m,
  ast_inv s -> ra_nostoreo s -> ra_minv s m ->
  rc_raced (fold_left (fun m p => rc_step N m (fst p) (snd p)) (ra_trace_from AstFixed n s sched) m) = false.
Proof.
  induction sched as [|[tid h] r IH]; intros s m Inv Hns Hm; cbn [ra_trace_from fold_left].
  - apply (rmi_nr _ _ Hm).
  - rewrite rm_run_map. apply IH.
    + unfold ast_next. cbn [fst snd]. apply ast_step_inv. exact Inv.
    + unfold ast_next, ra_nostoreo. cbn [fst snd]. apply ast_step_no_storeo. exact Hns.
    + apply ra_minv_step with (s := s); [|exact Hm]. apply ra_step_kind; assumption.
Qed.

Lemma ra_init_nostoreo n progs : ra_nostoreo (ast_init n progs).
Proof. intros i pc H1. destruct (ast_init_pcs _ _ _ _ H1) as [->|[->| ->]]; reflexivity. Qed.

Theorem ra_monitor_silent n progs sched :
  rc_raced (rc_run (ra_nthreads n progs) (ra_trace AstFixed n progs sched)) = false.
Proof.
  unfold rc_run, ra_trace. apply ra_run_silent; [apply ast_init_inv|apply ra_init_nostoreo|apply ra_minv_init].
Qed.

Lemma ra_next_thr_length md n s it : length (ast_thr (ast_next md n s it)) = length (ast_thr s).
Proof.
  destruct it as [tid hint]. unfold ast_next, ast_step. cbn [fst snd].
  destruct (nth_error (ast_thr s) tid) as [th|] eqn:Eth; [|reflexivity].
  destruct th as [pc prog hs]. unfold ast_step_pc. cbn [ath_pc ath_prog ath_handles].
  destruct pc;
    repeat first [progress (unfold ast_wait_ctx; ast_cbn) | match goal with
    | |- context [match ?x with _ => _ end] => destruct x eqn:?
    end]; rewrite ?ast_upd_length; reflexivity.
Qed.

Lemma ra_trace_wf md n sched : forall s, hb_wf (length (ast_thr s)) (ra_trace_from md n s sched).
Proof.
  induction sched as [|[tid h] r IH]; intros s; cbn [ra_trace_from]; [constructor|].
  apply rm_wf_app.
  - unfold ra_events. destruct (nth_error (ast_thr s) tid) as [th|] eqn:E; [|constructor].
    apply rm_wf_map. apply nth_error_Some. congruence.
  - rewrite <- (ra_next_thr_length md n s (tid, h)). apply IH.
Qed.

Lemma ra_init_nthreads n progs : length (ast_thr (ast_init n progs)) = ra_nthreads n progs.
Proof. cbn [ast_init ast_thr]. rewrite !app_length, map_length, !repeat_length. unfold ra_nthreads. lia. Qed.

Theorem ra_race_free n progs sched : ~ hb_race (ra_trace AstFixed n progs sched).
Proof.
  apply (hbp_agree (ra_nthreads n progs)); [|apply ra_monitor_silent].
  rewrite <- ra_init_nthreads. apply ra_trace_wf.
Qed.

(* every conflicting pair of the labelled run is ordered by happens-before *)
Theorem ra_conflicts_ordered n progs sched i j :
  i < j -> j < length (ra_trace AstFixed n progs sched) ->
  hb_conflict (ra_trace AstFixed n progs sched) i j ->
  hb_hb (ra_trace AstFixed n progs sched) i j.
Proof.
  apply (hbp_norace_ordered (ra_nthreads n progs)); [|apply ra_monitor_silent].
  rewrite <- ra_init_nthreads. apply ra_trace_wf.
Qed.
