(* CacheGet1Proofs.v -- lemmas about models/CacheGet1.v *)
From Got Require Import Base Cache CacheProofs CacheGet1.
Local Open Scope Z_scope.

(* Get1 in every reachable state, at every boundary: same decision as Get2, first component of
   its pair; the result is served at once while fresh; during a running refresh g of the stale
   result f (E <= age < 2E) the stale value is served at once; from 2E on the caller waits for
   the refresh (it is handed g, which is still loading) *)
Lemma cg_get1_spec : forall cfg evs k,
  let s := c_run cfg c_init evs in
  cg_get1 cfg s k = c_get2 cfg s k /\
  cg_get1_result s (cg_get1 cfg s k) =
    match cg_get2_result s (c_get2 cfg s k) with Some (v, e) => Some v | None => None end /\
  (forall f x v e u, c_lookup (c_map s) k = Some f -> c_get (c_futs s) f = Some x ->
     c_fdone x = Some (v, e, u) -> c_now s - u < c_expire cfg e ->
     cg_get1_result s (cg_get1 cfg s k) = Some v) /\
  (forall g y f x v e u, c_lookup (c_map s) k = Some g -> c_get (c_futs s) g = Some y ->
     c_fdone y = None -> c_fpred y = Some f -> c_get (c_futs s) f = Some x ->
     c_fdone x = Some (v, e, u) ->
     (c_now s - u < 2 * c_expire cfg e -> cg_get1_result s (cg_get1 cfg s k) = Some v) /\
     (2 * c_expire cfg e <= c_now s - u ->
        cg_get1 cfg s k = OAwait g /\ cg_get1_result s (cg_get1 cfg s k) = None)).
Proof.
  intros cfg evs k s. subst s. split; [reflexivity|]. split; [reflexivity|]. split.
  - intros f x v e u Hl Hg Hd Hf.
    destruct (c_fresh_served cfg evs k f x v e u Hl Hg Hd Hf) as [_ H2].
    unfold cg_get1_result, cg_get1, cg_get2_result. rewrite H2, Hg, Hd. reflexivity.
  - intros g y f x v e u Hl Hg Hy Hp Hf Hd.
    destruct (c_stale_during_refresh cfg evs k g y f x v e u Hl Hg Hy Hp Hf Hd) as (_ & A & B).
    split.
    + intros Hlt. destruct (A Hlt) as [_ H2].
      unfold cg_get1_result, cg_get1, cg_get2_result. rewrite H2, Hf, Hd. reflexivity.
    + intros Hge. destruct (B Hge) as [_ H2].
      unfold cg_get1_result, cg_get1, cg_get2_result. rewrite H2, Hg, Hy. split; reflexivity.
Qed.
