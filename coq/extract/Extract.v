(* Extract.v -- extraction of the executable models to OCaml for the correspondence
   check. ExtrOcamlBasic only (bool, option, unit, list, prod, sumbool, sumor mapped to
   OCaml's own types); nat, positive, N and Z stay Coq inductives: no Extract Constant,
   no native integers. Run with cwd = /verif/ocaml so that model.ml lands there. *)
From Got Require Import Base Search.
Require Extraction.
Require Import ExtrOcamlBasic.
Extraction Language OCaml.
Set Extraction KeepSingleton.

Extraction "model.ml"
  N.add Z.add Nat.add
  search_threshold search_list_asc search_list_desc s_result s_less_probes s_equal_probes.
