(* C18 -- data-race freedom of the goroutine-safe APIs (publication patterns).
   "Race" is the relational notion of the Go memory model (lib/RaceHB.v): two conflicting
   plain accesses (same location, different threads, at least one write) not ordered by
   happens-before = transitive closure of program order and synchronizes-with, where
   Go's synchronisation (sequentially consistent atomics, Mutex, WaitGroup, channels, go
   statement) is REPRESENTED by release/acquire events on sync objects: every acquire on
   an object synchronizes with all earlier releases on it.  The vector-clock monitor of
   lib/Race.v (the DJIT+/TSan algorithm the Go race detector implements) is proved to
   decide exactly this notion:
   c18_monitor_sound: whenever the monitor flags, the trace has a happens-before race.
   c18_monitor_complete: if the trace (thread ids below the monitor's bound n) has a
   happens-before race, the monitor flags.  c18_monitor_agrees: the two together.

   c18_publication_race_free / c18_publication_hb_race_free: for EVERY publication protocol
   instance (any list of plain writes followed by any list of releases by one writer; any
   number of readers, each acquiring one of the objects and reading only if it observed
   the release), and EVERY schedule, the monitor never reports a race / the generated
   trace of memory events has no happens-before race (c18_publication_trace: the machine's
   monitor state is the monitor run on that trace).
   c18_instances_race_free: the concrete patterns of lixianmin/got (cachex Future, ants
   task result, taskx callback result, queue node value, wheel slot, WaitClose.closeChan)
   are such instances; c18_rows_in_table: the source rows they were labelled from are rows
   of the access table, which the check regenerates from /repo and compares on every run.
   c18_lock_discipline_race_free / c18_lock_discipline_hb_race_free: accesses made only
   inside critical sections of one mutex (cachex shard maps, WaitClose fields under
   wc.mutex) never race.
   c18_*_refuted: the pre-fix patterns (status check reading err without having observed
   the completion; two unordered writers of the task result) do race, in both senses. *)
From Coq Require Import String.
From Got Require Import Base Race RaceProofs RaceInst RaceHB RaceHBProofs.
Local Open Scope nat_scope.

(* ---- the monitor decides the relational happens-before notion of a data race ---- *)
Theorem c18_monitor_sound :
  forall (n : nat) (tr : list (nat * rc_ev)),
    rc_raced (rc_run n tr) = true -> hb_race tr.
Proof. exact hbp_sound. Qed.
Print Assumptions c18_monitor_sound.

Theorem c18_monitor_complete :
  forall (n : nat) (tr : list (nat * rc_ev)),
    hb_wf n tr -> hb_race tr -> rc_raced (rc_run n tr) = true.
Proof. exact hbp_complete. Qed.
Print Assumptions c18_monitor_complete.

Theorem c18_monitor_agrees :
  forall (n : nat) (tr : list (nat * rc_ev)),
    hb_wf n tr -> (rc_raced (rc_run n tr) = false <-> ~ hb_race tr).
Proof. exact hbp_agree. Qed.
Print Assumptions c18_monitor_agrees.

(* what "no flag" means: every conflicting pair is ordered by happens-before *)
Theorem c18_monitor_no_flag_ordered :
  forall (n : nat) (tr : list (nat * rc_ev)),
    hb_wf n tr -> rc_raced (rc_run n tr) = false ->
    forall i j, i < j -> j < length tr -> hb_conflict tr i j -> hb_hb tr i j.
Proof. exact hbp_norace_ordered. Qed.
Print Assumptions c18_monitor_no_flag_ordered.

Theorem c18_publication_race_free :
  forall (p : rc_pub) (sched : list nat),
    rc_raced (ps_mon (rc_prun false p sched)) = false.
Proof. exact pb_race_free. Qed.
Print Assumptions c18_publication_race_free.

Theorem c18_instances_race_free :
  Forall (fun i => forall sched, rc_raced (ps_mon (rc_prun false (snd (fst i)) sched)) = false)
         ri_instances.
Proof. apply Forall_forall. intros i _. apply pb_race_free. Qed.
Print Assumptions c18_instances_race_free.

(* the machine's monitor state is the monitor run on the trace of memory events the
   schedule generates; that trace is well-formed and has no happens-before race *)
Theorem c18_publication_trace :
  forall (unguarded : bool) (p : rc_pub) (sched : list nat),
    ps_mon (rc_prun unguarded p sched) = rc_run (rc_nthreads p) (hb_ptrace unguarded p sched)
    /\ hb_wf (rc_nthreads p) (hb_ptrace unguarded p sched).
Proof. exact hbp_ptrace_spec. Qed.
Print Assumptions c18_publication_trace.

Theorem c18_publication_hb_race_free :
  forall (p : rc_pub) (sched : list nat), ~ hb_race (hb_ptrace false p sched).
Proof. exact hbp_pub_hb_race_free. Qed.
Print Assumptions c18_publication_hb_race_free.

Theorem c18_instances_hb_race_free :
  Forall (fun i => forall sched, ~ hb_race (hb_ptrace false (snd (fst i)) sched)) ri_instances.
Proof. apply Forall_forall. intros i _. apply hbp_pub_hb_race_free. Qed.
Print Assumptions c18_instances_hb_race_free.

Theorem c18_rows_in_table : ri_rows_in_table = true.
Proof. vm_compute. reflexivity. Qed.
Print Assumptions c18_rows_in_table.

(* lock discipline: any number of threads, each running any list of critical sections
   (Lock m; any plain reads/writes; Unlock m) on one mutex, any schedule: no race *)
Theorem c18_lock_discipline_race_free :
  forall (progs : list (list (list (bool * nat)))) (sched : list nat),
    rc_raced (ls_mon (rc_lrun progs sched)) = false.
Proof. exact lk_race_free. Qed.
Print Assumptions c18_lock_discipline_race_free.

Theorem c18_lock_discipline_trace :
  forall (progs : list (list (list (bool * nat)))) (sched : list nat),
    ls_mon (rc_lrun progs sched) = rc_run (length progs) (hb_ltrace progs sched)
    /\ hb_wf (length progs) (hb_ltrace progs sched).
Proof. exact hbp_ltrace_spec. Qed.
Print Assumptions c18_lock_discipline_trace.

Theorem c18_lock_discipline_hb_race_free :
  forall (progs : list (list (list (bool * nat)))) (sched : list nat),
    ~ hb_race (hb_ltrace progs sched).
Proof. exact hbp_lock_hb_race_free. Qed.
Print Assumptions c18_lock_discipline_hb_race_free.

Theorem c18_lock_rows_in_table : ri_lock_rows_in_table = true.
Proof. vm_compute. reflexivity. Qed.
Print Assumptions c18_lock_rows_in_table.

Theorem c18_unguarded_status_refuted :
  rc_raced (ps_mon (rc_prun true {| pb_ws := [7]; pb_os := [1]; pb_readers := [(1, [7])] |} [0; 1; 1])) = true.
Proof. exact pb_unguarded_races. Qed.
Print Assumptions c18_unguarded_status_refuted.

Theorem c18_two_writers_refuted :
  rc_raced (rc_run 2 [(0, RWrite 7); (1, RWrite 7)]) = true.
Proof. exact rc_two_writers_race. Qed.
Print Assumptions c18_two_writers_refuted.

Theorem c18_unguarded_status_hb_refuted :
  hb_race (hb_ptrace true {| pb_ws := [7]; pb_os := [1]; pb_readers := [(1, [7])] |} [0; 1; 1]).
Proof. exact hbp_unguarded_hb_race. Qed.
Print Assumptions c18_unguarded_status_hb_refuted.

Theorem c18_two_writers_hb_refuted : hb_race [(0, RWrite 7); (1, RWrite 7)].
Proof. exact hbp_two_writers_hb_race. Qed.
Print Assumptions c18_two_writers_hb_refuted.

(* non-vacuity: in the Future instance a schedule exists where one reader's guard fails
   (it came too early), another reader passes it and performs both reads, and the status
   reader reads err -- with no race *)
Example c18_nonvacuous :
  let s := rc_prun false ri_future [1; 0; 0; 0; 3; 3; 0; 0; 2; 2; 2; 4; 4] in
  nth_error (ps_rpcs s) 0 = Some RPStop /\
  nth_error (ps_rpcs s) 1 = Some (RPReading 1) /\
  nth_error (ps_rpcs s) 2 = Some (RPReading 1) /\
  nth_error (ps_rpcs s) 3 = Some (RPReading 1) /\
  rc_raced (ps_mon s) = false.
Proof. vm_compute. repeat split. Qed.

(* non-vacuity of the relational definitions, proved directly from them (no monitor):
   release/acquire publication orders the write before the read; two bare writers are
   unordered; and through the equivalence: an acquire that precedes the release does not
   synchronise (race), a chain of read-modify-writes over three threads does (no race);
   the trace of the schedule of c18_nonvacuous contains all four kinds of event *)
Example c18_hb_nonvacuous :
  hb_hb [(0, RWrite 7); (0, RRel 1); (1, RAcq 1); (1, RRead 7)] 0 3 /\
  ~ hb_hb [(0, RWrite 7); (1, RWrite 7)] 0 1 /\
  hb_race [(1, RAcq 1); (0, RWrite 7); (0, RRel 1); (1, RRead 7)] /\
  ~ hb_race [(0, RWrite 7); (0, RAcqRel 1); (1, RAcqRel 1); (1, RRel 2); (2, RAcq 2); (2, RWrite 7)] /\
  length (hb_ptrace false ri_future [1; 0; 0; 0; 3; 3; 0; 0; 2; 2; 2; 4; 4]) = 12.
Proof.
  split; [exact hbp_ex_publication_ordered|]. split; [exact hbp_ex_two_writers_unordered|].
  split; [exact hbp_ex_early_acquire_races|]. split; [exact hbp_ex_rmw_chain_race_free|].
  vm_compute. reflexivity.
Qed.
